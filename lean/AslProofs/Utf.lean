import AslModel.Utf
import AslProofs.Bits
/-!
# C08 — helper lemmas for the UTF models (core Lean only).

Bit-operation forms of the code (`>>`, `&`, `|`, `<<`) are turned into arithmetic (`/`, `%`, `+`, `*`),
finite byte facts are decided over all 256 values, and the per-entry facts of the regenerated case
tables are checked by one linear pass (`allPairs`) evaluated by the kernel.
-/
namespace AslProofs.Utf
open AslModel.Utf AslProofs.Bits Gen.Unicode

/-! ## bits -/

theorem or_c0 : ∀ a, a < 64 → a ||| 0xc0 = a + 0xc0 := by decide +kernel
theorem or_80 : ∀ a, a < 64 → a ||| 0x80 = a + 0x80 := by decide +kernel
theorem or_e0 : ∀ a, a < 16 → a ||| 0xe0 = a + 0xe0 := by decide +kernel
theorem or_f0 : ∀ a, a < 8 → a ||| 0xf0 = a + 0xf0 := by decide +kernel

theorem shr6 (c : Nat) : c >>> 6 = c / 64 := Nat.shiftRight_eq_div_pow c 6
theorem shr12 (c : Nat) : c >>> 12 = c / 4096 := Nat.shiftRight_eq_div_pow c 12
theorem shr18 (c : Nat) : c >>> 18 = c / 262144 := Nat.shiftRight_eq_div_pow c 18
theorem shr10 (c : Nat) : c >>> 10 = c / 1024 := Nat.shiftRight_eq_div_pow c 10
theorem and31 (x : Nat) : x &&& 0x1f = x % 32 := Nat.and_two_pow_sub_one_eq_mod x 5
theorem and7 (x : Nat) : x &&& 0x07 = x % 8 := Nat.and_two_pow_sub_one_eq_mod x 3
theorem and3 (x : Nat) : x &&& 0x03 = x % 4 := Nat.and_two_pow_sub_one_eq_mod x 2
theorem and1023 (x : Nat) : x &&& 0x3ff = x % 1024 := Nat.and_two_pow_sub_one_eq_mod x 10

/-- the 2-, 3-, 4-byte forms in arithmetic -/
theorem enc2_arith (c : Nat) (h : c < 0x800) :
    enc2 c = [UInt8.ofNat (c / 64 + 192), UInt8.ofNat (c % 64 + 128)] := by
  unfold enc2 lo8
  rw [shr6, and63, or_c0 _ (by omega), or_80 _ (by omega)]

theorem enc3_arith (c : Nat) (h : c < 0x10000) :
    enc3 c = [UInt8.ofNat (c / 4096 + 224), UInt8.ofNat (c / 64 % 64 + 128), UInt8.ofNat (c % 64 + 128)] := by
  unfold enc3 lo8
  rw [shr12, shr6, and63, and63, or_e0 _ (by omega), or_80 _ (by omega), or_80 _ (by omega)]

theorem enc4_arith (c : Nat) (h : c < 0x200000) :
    enc4 c = [UInt8.ofNat (c / 262144 + 240), UInt8.ofNat (c / 4096 % 64 + 128), UInt8.ofNat (c / 64 % 64 + 128),
      UInt8.ofNat (c % 64 + 128)] := by
  unfold enc4 lo8
  rw [shr18, shr12, shr6, and63, and63, and63, or_f0 _ (by omega), or_80 _ (by omega), or_80 _ (by omega),
    or_80 _ (by omega)]

theorem lowByte_nat (n : Nat) (h : n < 256) : lowByte (n : Int) = UInt8.ofNat n := by
  unfold lowByte
  have : ((n : Int) % 256).toNat = n := by omega
  rw [this]

/-- the model's single-code step is Lean core's UTF-8 encoder on every scalar value -/
theorem enc32_char (ch : Char) : enc32 (ch.toNat : Int) = String.utf8EncodeChar ch := by
  have hv : ch.toNat < 0x110000 := by
    have := ch.valid
    simp only [Char.toNat, UInt32.isValidChar, Nat.isValidChar] at *
    omega
  unfold enc32 String.utf8EncodeChar
  simp only [Char.toNat] at *
  generalize ch.val.toNat = v at *
  by_cases h1 : v ≤ 127
  · have : (v : Int) < 0x80 := by omega
    simp only [this, h1, if_true]
    rw [lowByte_nat v (by omega)]
  · by_cases h2 : v ≤ 2047
    · have a1 : ¬ (v : Int) < 0x80 := by omega
      have a2 : (v : Int) < 0x800 := by omega
      simp only [a1, a2, h1, h2, if_true, if_false, Int.toNat_natCast]
      rw [enc2_arith v (by omega)]
      have : v / 64 % 32 = v / 64 := Nat.mod_eq_of_lt (by omega)
      rw [this]
    · by_cases h3 : v ≤ 65535
      · have a1 : ¬ (v : Int) < 0x80 := by omega
        have a2 : ¬ (v : Int) < 0x800 := by omega
        have a3 : (v : Int) < 0x10000 := by omega
        simp only [a1, a2, a3, h1, h2, h3, if_true, if_false, Int.toNat_natCast]
        rw [enc3_arith v (by omega)]
        have : v / 4096 % 16 = v / 4096 := Nat.mod_eq_of_lt (by omega)
        rw [this]
      · have a1 : ¬ (v : Int) < 0x80 := by omega
        have a2 : ¬ (v : Int) < 0x800 := by omega
        have a3 : ¬ (v : Int) < 0x10000 := by omega
        simp only [a1, a2, a3, h1, h2, h3, if_false, Int.toNat_natCast]
        rw [enc4_arith v (by omega)]
        have : v / 262144 % 8 = v / 262144 := Nat.mod_eq_of_lt (by omega)
        rw [this]

/-! ## lead-byte classification and code reconstruction -/

theorem flags : ∀ x, x < 256 →
    is1 x = decide (x < 128) ∧ is2 x = decide (192 ≤ x ∧ x < 224) ∧
    is3 x = decide (224 ≤ x ∧ x < 240) ∧ is4 x = decide (240 ≤ x ∧ x < 248) := by decide +kernel

theorem is1_true {x : Nat} (h : x < 128) : is1 x = true := by
  rw [(flags x (by omega)).1]; exact decide_eq_true h
theorem is1_false {x : Nat} (h : 128 ≤ x) (h' : x < 256) : is1 x = false := by
  rw [(flags x h').1]; exact decide_eq_false (by omega)
theorem is2_true {x : Nat} (h : 192 ≤ x) (h' : x < 224) : is2 x = true := by
  rw [(flags x (by omega)).2.1]; exact decide_eq_true ⟨h, h'⟩
theorem is2_false {x : Nat} (h : x < 192 ∨ 224 ≤ x) (h' : x < 256) : is2 x = false := by
  rw [(flags x h').2.1]; exact decide_eq_false (by omega)
theorem is3_true {x : Nat} (h : 224 ≤ x) (h' : x < 240) : is3 x = true := by
  rw [(flags x (by omega)).2.2.1]; exact decide_eq_true ⟨h, h'⟩
theorem is3_false {x : Nat} (h : x < 224 ∨ 240 ≤ x) (h' : x < 256) : is3 x = false := by
  rw [(flags x h').2.2.1]; exact decide_eq_false (by omega)
theorem is4_true {x : Nat} (h : 240 ≤ x) (h' : x < 248) : is4 x = true := by
  rw [(flags x (by omega)).2.2.2]; exact decide_eq_true ⟨h, h'⟩
theorem is4_false {x : Nat} (h : x < 240 ∨ 248 ≤ x) (h' : x < 256) : is4 x = false := by
  rw [(flags x h').2.2.2]; exact decide_eq_false (by omega)

theorem code2_eq (a r : Nat) (ha : a < 32) (hr : r < 64) : code2 (192 + a) (128 + r) = a * 64 + r := by
  unfold code2
  rw [and31, and63]
  have e1 : (192 + a) % 32 = a := by omega
  have e2 : (128 + r) % 64 = r := by omega
  rw [e1, e2, shl_or a r 6 (by omega)]

theorem code3_eq (a b r : Nat) (ha : a < 16) (hb : b < 64) (hr : r < 64) :
    code3 (224 + a) (128 + b) (128 + r) = a * 4096 + b * 64 + r := by
  unfold code3
  rw [and15, and63, and63]
  have e1 : (224 + a) % 16 = a := by omega
  have e2 : (128 + b) % 64 = b := by omega
  have e3 : (128 + r) % 64 = r := by omega
  rw [e1, e2, e3]
  have h1 : (a <<< 12) ||| (b <<< 6) = ((a <<< 6) ||| b) <<< 6 := by
    rw [Nat.shiftLeft_or_distrib, ← Nat.shiftLeft_add]
  rw [h1, shl_or a b 6 (by omega), shl_or _ r 6 (by omega)]
  omega

theorem code4_eq (a b c r : Nat) (ha : a < 8) (hb : b < 64) (hc : c < 64) (hr : r < 64) :
    code4 (240 + a) (128 + b) (128 + c) (128 + r) = a * 262144 + b * 4096 + c * 64 + r := by
  unfold code4
  rw [and7, and63, and63, and63]
  have e1 : (240 + a) % 8 = a := by omega
  have e2 : (128 + b) % 64 = b := by omega
  have e3 : (128 + c) % 64 = c := by omega
  have e4 : (128 + r) % 64 = r := by omega
  rw [e1, e2, e3, e4, or4 a b c r hb hc hr]

theorem ofNat_toNat_lt {x : Nat} (h : x < 256) : (UInt8.ofNat x).toNat = x := by
  rw [UInt8.toNat_ofNat']; omega

theorem ofNat_ne_zero {x : Nat} (h : x < 256) (h0 : x ≠ 0) : UInt8.ofNat x ≠ 0 := by
  intro e
  have := congrArg UInt8.toNat e
  rw [ofNat_toNat_lt h] at this
  exact h0 this

theorem code2_arith (c c2 : Nat) : code2 c c2 = c % 32 * 64 + c2 % 64 := by
  unfold code2
  rw [and31, and63, shl_or _ _ 6 (by omega)]

theorem code3_arith (c c2 c3 : Nat) : code3 c c2 c3 = c % 16 * 4096 + c2 % 64 * 64 + c3 % 64 := by
  unfold code3
  rw [and15, and63, and63]
  have h1 : ((c % 16) <<< 12) ||| ((c2 % 64) <<< 6) = (((c % 16) <<< 6) ||| (c2 % 64)) <<< 6 := by
    rw [Nat.shiftLeft_or_distrib, ← Nat.shiftLeft_add]
  rw [h1, shl_or _ _ 6 (by omega), shl_or _ _ 6 (by omega)]
  omega

theorem code4_arith (c c2 c3 c4 : Nat) :
    code4 c c2 c3 c4 = c % 8 * 262144 + c2 % 64 * 4096 + c3 % 64 * 64 + c4 % 64 := by
  unfold code4
  rw [and7, and63, and63, and63, or4 _ _ _ _ (by omega) (by omega) (by omega)]

theorem code2_lt (c c2 : Nat) : code2 c c2 < 2048 := by rw [code2_arith]; omega
theorem code3_lt (c c2 c3 : Nat) : code3 c c2 c3 < 65536 := by rw [code3_arith]; omega
theorem code4_lt (c c2 c3 c4 : Nat) : code4 c c2 c3 c4 < 2097152 := by rw [code4_arith]; omega

theorem is1_lt {x : Nat} (h : is1 x = true) (h' : x < 256) : x < 128 := by
  rw [(flags x h').1] at h; exact of_decide_eq_true h

/-! ## safety on arbitrary memory that contains a terminator -/

/-- `strlen`: number of bytes before the first NUL -/
def strlen (mem : List UInt8) : Nat := (mem.takeWhile (· != 0)).length
/-- the allocation contains a terminator -/
def hasNul (mem : List UInt8) : Bool := mem.any (· == 0)
/-- number of elements written (0 for an out-of-bounds read, which the `isSome` lemmas exclude) -/
def olen {α : Type} (o : Option (List α)) : Nat := match o with | some l => l.length | none => 0

@[simp] theorem olen_some {α : Type} (l : List α) : olen (some l) = l.length := rfl
@[simp] theorem olen_none {α : Type} : olen (none : Option (List α)) = 0 := rfl

theorem strlen_le (mem : List UInt8) : strlen mem ≤ mem.length := by
  unfold strlen
  induction mem with
  | nil => simp
  | cons b u ih => simp only [List.takeWhile_cons]; split <;> simp <;> omega

theorem strlen_mem (s : List UInt8) : strlen (mem s) ≤ s.length := by
  unfold strlen mem
  induction s with
  | nil => simp
  | cons b u ih => simp only [List.cons_append, List.takeWhile_cons]; split <;> simp <;> omega

theorem hasNul_mem (s : List UInt8) : hasNul (mem s) = true := by simp [hasNul, mem]

theorem contN_isSome (out : List Nat) (n : Int) (r : Option (List Nat)) (h : r.isSome = true) :
    (contN out n r).isSome = true := by
  unfold contN; split <;> simp [h]
theorem contB_isSome (out : List UInt8) (n : Int) (r : Option (List UInt8)) (h : r.isSome = true) :
    (contB out n r).isSome = true := by
  unfold contB; split <;> simp [h]
theorem olen_contN (out : List Nat) (n : Int) (r : Option (List Nat)) :
    olen (contN out n r) ≤ out.length + olen r := by
  unfold contN; split
  · simp
  · cases r <;> simp
theorem olen_contB (out : List UInt8) (n : Int) (r : Option (List UInt8)) :
    olen (contB out n r) ≤ out.length + olen r := by
  unfold contB; split
  · simp
  · cases r <;> simp

theorem d32_some (mem : List UInt8) (n : Int) (h : hasNul mem = true) : (utf8toUtf32 mem n).isSome = true := by
  fun_induction utf8toUtf32 mem n <;> simp_all [hasNul, contN_isSome]

theorem d32_le (mem : List UInt8) (n : Int) : olen (utf8toUtf32 mem n) ≤ strlen mem := by
  fun_induction utf8toUtf32 mem n <;> simp_all [strlen]
  all_goals (first | omega | (refine Nat.le_trans (olen_contN _ _ _) ?_; simp only [List.length_cons, List.length_nil]; omega))

theorem d16_some (mem : List UInt8) (n : Int) (h : hasNul mem = true) : (utf8toUtf16 mem n).isSome = true := by
  fun_induction utf8toUtf16 mem n <;> simp_all [hasNul, contN_isSome]

theorem d16_le (mem : List UInt8) (n : Int) : olen (utf8toUtf16 mem n) ≤ strlen mem := by
  fun_induction utf8toUtf16 mem n <;> simp_all [strlen]
  all_goals (first | omega | (refine Nat.le_trans (olen_contN _ _ _) ?_; simp only [surrogates, List.length_cons, List.length_nil]; omega))

theorem count_some (mem : List UInt8) (h : hasNul mem = true) : (countFrom mem).isSome = true := by
  fun_induction countFrom mem <;> simp_all [hasNul]

theorem count_le (mem : List UInt8) : ∀ k, countFrom mem = some k → k ≤ strlen mem := by
  fun_induction countFrom mem <;> simp_all [strlen] <;> grind

theorem enum_some (mem : List UInt8) (h : hasNul mem = true) : (enumAll mem).isSome = true := by
  fun_induction enumAll mem <;> simp_all [hasNul]

/-- what `operator*` can return together with the advance it sets -/
def okPair (p : Nat × Nat) : Prop :=
  (p.2 = 1 ∧ p.1 < 128) ∨ (p.2 = 2 ∧ p.1 < 2048) ∨ (p.2 = 3 ∧ p.1 < 65536) ∨ (p.2 = 4 ∧ p.1 < 2097152)

theorem enum_ok (mem : List UInt8) : ∀ l, enumAll mem = some l → ∀ p ∈ l, okPair p := by
  fun_induction enumAll mem <;> simp_all [okPair]
  all_goals (
    intro l hl a b hab
    rcases hab with ⟨rfl, rfl⟩ | hab
    · first
        | (simp [code2_lt, code3_lt, code4_lt]; done)
        | (simp; exact is1_lt ‹_› (UInt8.toNat_lt _))
    · rename_i ih; exact ih l hl a b hab)

/-- the advances add up to the C-string length: the enumeration never steps over the terminator -/
theorem enum_sum (mem : List UInt8) : ∀ l, enumAll mem = some l → (l.map (·.2)).sum = strlen mem := by
  fun_induction enumAll mem <;> simp_all [strlen] <;> grind

/-! ### the encoders on arbitrary 32-bit values -/

/-- number of units before the first zero unit (`wcslen`) -/
def ilen (p : List Int) : Nat := (p.takeWhile (· != 0)).length
def hasZero (p : List Int) : Bool := p.any (· == 0)

theorem enc32_len (c : Int) : (enc32 c).length ≤ 4 := by
  unfold enc32 enc2 enc3 enc4; split <;> (try split) <;> (try split) <;> simp

theorem e32_some (p : List Int) (n : Int) (h : hasZero p = true) : (utf32toUtf8 p n).isSome = true := by
  fun_induction utf32toUtf8 p n <;> simp_all [hasZero, contB_isSome]

theorem e32_le (p : List Int) (n : Int) : olen (utf32toUtf8 p n) ≤ 4 * ilen p := by
  fun_induction utf32toUtf8 p n <;> simp_all [ilen]
  all_goals (
    refine Nat.le_trans (olen_contB _ _ _) ?_
    refine Nat.le_trans (Nat.add_le_add_right (enc32_len _) _) ?_
    omega)

theorem e16_some (p : List Int) (n : Int) (h : hasZero p = true) : (utf16toUtf8 p n).isSome = true := by
  fun_induction utf16toUtf8 p n <;> simp_all [hasZero, contB_isSome]
  rename_i ih
  apply contB_isSome; apply ih
  rcases h with h | h
  · omega
  · exact h

theorem e16_le (p : List Int) (n : Int) : olen (utf16toUtf8 p n) ≤ 3 * ilen p := by
  fun_induction utf16toUtf8 p n <;> simp_all [ilen]
  all_goals (first | omega | (refine Nat.le_trans (olen_contB _ _ _) ?_; simp only [enc2, enc3, enc4, List.length_cons, List.length_nil]; omega) | skip)
  rename_i c n _ c2 p2 _ _ _ _ hc2 ih
  have : c2 ≠ 0 := by omega
  simp only [List.takeWhile_cons, bne_iff_ne, ne_eq, this, not_false_eq_true, if_true, List.length_cons]
  refine Nat.le_trans (olen_contB _ _ _) ?_
  simp only [enc4, List.length_cons, List.length_nil]; omega

/-! ## well-formed text: one encoded scalar value at a time -/

/-- the four shapes of Table 3-6 of the Unicode standard, in arithmetic form -/
inductive Enc : Nat → List UInt8 → Prop
  | one (v : Nat) (h0 : v ≠ 0) (h : v < 128) : Enc v [UInt8.ofNat v]
  | two (a r : Nat) (ha : a < 32) (hr : r < 64) (hv : 128 ≤ a * 64 + r) :
      Enc (a * 64 + r) [UInt8.ofNat (192 + a), UInt8.ofNat (128 + r)]
  | three (a b r : Nat) (ha : a < 16) (hb : b < 64) (hr : r < 64) (hv : 2048 ≤ a * 4096 + b * 64 + r) :
      Enc (a * 4096 + b * 64 + r) [UInt8.ofNat (224 + a), UInt8.ofNat (128 + b), UInt8.ofNat (128 + r)]
  | four (a b c r : Nat) (ha : a < 8) (hb : b < 64) (hc : c < 64) (hr : r < 64)
      (hv : 65536 ≤ a * 262144 + b * 4096 + c * 64 + r) :
      Enc (a * 262144 + b * 4096 + c * 64 + r)
        [UInt8.ofNat (240 + a), UInt8.ofNat (128 + b), UInt8.ofNat (128 + c), UInt8.ofNat (128 + r)]

theorem char_lt (ch : Char) : ch.toNat < 0x110000 := by
  have := ch.valid
  simp only [Char.toNat, UInt32.isValidChar, Nat.isValidChar] at *
  omega

/-- Lean core's encoder produces one of the four shapes for every non-NUL scalar value -/
theorem enc_char (ch : Char) (h0 : ch.toNat ≠ 0) : Enc ch.toNat (String.utf8EncodeChar ch) := by
  have hv := char_lt ch
  unfold String.utf8EncodeChar
  simp only [Char.toNat] at *
  generalize ch.val.toNat = v at *
  by_cases h1 : v ≤ 127
  · simp only [h1, if_true]; exact Enc.one v h0 (by omega)
  · by_cases h2 : v ≤ 2047
    · simp only [h1, h2, if_true, if_false]
      have e1 : v / 64 % 32 + 192 = 192 + v / 64 := by omega
      have e2 : v % 64 + 128 = 128 + v % 64 := by omega
      have e3 : v = v / 64 * 64 + v % 64 := by omega
      rw [e1, e2]
      have := Enc.two (v / 64) (v % 64) (by omega) (by omega) (by omega)
      rw [← e3] at this; exact this
    · by_cases h3 : v ≤ 65535
      · simp only [h1, h2, h3, if_true, if_false]
        have e1 : v / 4096 % 16 + 224 = 224 + v / 4096 := by omega
        have e2 : v / 64 % 64 + 128 = 128 + v / 64 % 64 := by omega
        have e3 : v % 64 + 128 = 128 + v % 64 := by omega
        have e4 : v = v / 4096 * 4096 + v / 64 % 64 * 64 + v % 64 := by omega
        rw [e1, e2, e3]
        have := Enc.three (v / 4096) (v / 64 % 64) (v % 64) (by omega) (by omega) (by omega) (by omega)
        rw [← e4] at this; exact this
      · simp only [h1, h2, h3, if_false]
        have e1 : v / 262144 % 8 + 240 = 240 + v / 262144 := by omega
        have e2 : v / 4096 % 64 + 128 = 128 + v / 4096 % 64 := by omega
        have e3 : v / 64 % 64 + 128 = 128 + v / 64 % 64 := by omega
        have e4 : v % 64 + 128 = 128 + v % 64 := by omega
        have e5 : v = v / 262144 * 262144 + v / 4096 % 64 * 4096 + v / 64 % 64 * 64 + v % 64 := by omega
        rw [e1, e2, e3, e4]
        have := Enc.four (v / 262144) (v / 4096 % 64) (v / 64 % 64) (v % 64) (by omega) (by omega) (by omega)
          (by omega) (by omega)
        rw [← e5] at this; exact this

theorem Enc.length_eq {v : Nat} {bs : List UInt8} (h : Enc v bs) :
    bs.length = if v < 128 then 1 else if v < 2048 then 2 else if v < 65536 then 3 else 4 := by
  cases h with
  | one v h0 h => simp [h]
  | two a r ha hr hv =>
    have : ¬ a * 64 + r < 128 := by omega
    have : a * 64 + r < 2048 := by omega
    simp [*]
  | three a b r ha hb hr hv =>
    have : ¬ a * 4096 + b * 64 + r < 128 := by omega
    have : ¬ a * 4096 + b * 64 + r < 2048 := by omega
    have : a * 4096 + b * 64 + r < 65536 := by omega
    simp [*]
  | four a b c r ha hb hc hr hv =>
    have : ¬ a * 262144 + b * 4096 + c * 64 + r < 128 := by omega
    have : ¬ a * 262144 + b * 4096 + c * 64 + r < 2048 := by omega
    have : ¬ a * 262144 + b * 4096 + c * 64 + r < 65536 := by omega
    simp [*]

section steps
set_option linter.unusedSimpArgs false
variable (rest : List UInt8) (n : Int)

theorem d32_enc {v : Nat} {bs : List UInt8} (h : Enc v bs) :
    utf8toUtf32 (bs ++ rest) n = contN [v] n (utf8toUtf32 rest (n - 1)) := by
  cases h with
  | one v h0 h =>
    have t1 := ofNat_toNat_lt (x := v) (by omega)
    have z1 := ofNat_ne_zero (x := v) (by omega) h0
    conv => lhs; rw [List.cons_append, List.nil_append, utf8toUtf32.eq_def]
    simp only [z1, if_false, t1, is1_true h, if_true, and255]
    have : v % 256 = v := by omega
    rw [this]
  | two a r ha hr hv =>
    have t1 := ofNat_toNat_lt (x := 192 + a) (by omega)
    have t2 := ofNat_toNat_lt (x := 128 + r) (by omega)
    have z1 := ofNat_ne_zero (x := 192 + a) (by omega) (by omega)
    have z2 := ofNat_ne_zero (x := 128 + r) (by omega) (by omega)
    conv => lhs; rw [List.cons_append, List.cons_append, List.nil_append, utf8toUtf32.eq_def]
    simp only [z1, z2, if_false, t1, t2, is1_false (x := 192 + a) (by omega) (by omega),
      is2_true (x := 192 + a) (by omega) (by omega), if_true, code2_eq a r ha hr, Bool.false_eq_true]
  | three a b r ha hb hr hv =>
    have t1 := ofNat_toNat_lt (x := 224 + a) (by omega)
    have t2 := ofNat_toNat_lt (x := 128 + b) (by omega)
    have t3 := ofNat_toNat_lt (x := 128 + r) (by omega)
    have z1 := ofNat_ne_zero (x := 224 + a) (by omega) (by omega)
    have z2 := ofNat_ne_zero (x := 128 + b) (by omega) (by omega)
    have z3 := ofNat_ne_zero (x := 128 + r) (by omega) (by omega)
    conv => lhs; rw [List.cons_append, List.cons_append, List.cons_append, List.nil_append, utf8toUtf32.eq_def]
    simp only [z1, z2, z3, if_false, t1, t2, t3, is1_false (x := 224 + a) (by omega) (by omega),
      is2_false (x := 224 + a) (by omega) (by omega), is3_true (x := 224 + a) (by omega) (by omega), if_true,
      code3_eq a b r ha hb hr, Bool.false_eq_true]
  | four a b c r ha hb hc hr hv =>
    have t1 := ofNat_toNat_lt (x := 240 + a) (by omega)
    have t2 := ofNat_toNat_lt (x := 128 + b) (by omega)
    have t3 := ofNat_toNat_lt (x := 128 + c) (by omega)
    have t4 := ofNat_toNat_lt (x := 128 + r) (by omega)
    have z1 := ofNat_ne_zero (x := 240 + a) (by omega) (by omega)
    have z2 := ofNat_ne_zero (x := 128 + b) (by omega) (by omega)
    have z3 := ofNat_ne_zero (x := 128 + c) (by omega) (by omega)
    have z4 := ofNat_ne_zero (x := 128 + r) (by omega) (by omega)
    conv => lhs; rw [List.cons_append, List.cons_append, List.cons_append, List.cons_append, List.nil_append,
      utf8toUtf32.eq_def]
    simp only [z1, z2, z3, z4, if_false, t1, t2, t3, t4, is1_false (x := 240 + a) (by omega) (by omega),
      is2_false (x := 240 + a) (by omega) (by omega), is3_false (x := 240 + a) (by omega) (by omega),
      is4_true (x := 240 + a) (by omega) (by omega), if_true, code4_eq a b c r ha hb hc hr, Bool.false_eq_true]

theorem d16_enc {v : Nat} {bs : List UInt8} (h : Enc v bs) :
    utf8toUtf16 (bs ++ rest) n = contN (if v < 65536 then [v] else surrogates v) n (utf8toUtf16 rest (n - 1)) := by
  cases h with
  | one v h0 h =>
    have t1 := ofNat_toNat_lt (x := v) (by omega)
    have z1 := ofNat_ne_zero (x := v) (by omega) h0
    conv => lhs; rw [List.cons_append, List.nil_append, utf8toUtf16.eq_def]
    simp only [z1, if_false, t1, is1_true h, if_true]
    first | rw [if_pos (by omega)] | rw [if_neg (by omega)]
  | two a r ha hr hv =>
    have t1 := ofNat_toNat_lt (x := 192 + a) (by omega)
    have t2 := ofNat_toNat_lt (x := 128 + r) (by omega)
    have z1 := ofNat_ne_zero (x := 192 + a) (by omega) (by omega)
    have z2 := ofNat_ne_zero (x := 128 + r) (by omega) (by omega)
    conv => lhs; rw [List.cons_append, List.cons_append, List.nil_append, utf8toUtf16.eq_def]
    simp only [z1, z2, if_false, t1, t2, is1_false (x := 192 + a) (by omega) (by omega),
      is2_true (x := 192 + a) (by omega) (by omega), if_true, code2_eq a r ha hr, Bool.false_eq_true]
    first | rw [if_pos (by omega)] | rw [if_neg (by omega)]
  | three a b r ha hb hr hv =>
    have t1 := ofNat_toNat_lt (x := 224 + a) (by omega)
    have t2 := ofNat_toNat_lt (x := 128 + b) (by omega)
    have t3 := ofNat_toNat_lt (x := 128 + r) (by omega)
    have z1 := ofNat_ne_zero (x := 224 + a) (by omega) (by omega)
    have z2 := ofNat_ne_zero (x := 128 + b) (by omega) (by omega)
    have z3 := ofNat_ne_zero (x := 128 + r) (by omega) (by omega)
    conv => lhs; rw [List.cons_append, List.cons_append, List.cons_append, List.nil_append, utf8toUtf16.eq_def]
    simp only [z1, z2, z3, if_false, t1, t2, t3, is1_false (x := 224 + a) (by omega) (by omega),
      is2_false (x := 224 + a) (by omega) (by omega), is3_true (x := 224 + a) (by omega) (by omega), if_true,
      code3_eq a b r ha hb hr, Bool.false_eq_true]
    first | rw [if_pos (by omega)] | rw [if_neg (by omega)]
  | four a b c r ha hb hc hr hv =>
    have t1 := ofNat_toNat_lt (x := 240 + a) (by omega)
    have t2 := ofNat_toNat_lt (x := 128 + b) (by omega)
    have t3 := ofNat_toNat_lt (x := 128 + c) (by omega)
    have t4 := ofNat_toNat_lt (x := 128 + r) (by omega)
    have z1 := ofNat_ne_zero (x := 240 + a) (by omega) (by omega)
    have z2 := ofNat_ne_zero (x := 128 + b) (by omega) (by omega)
    have z3 := ofNat_ne_zero (x := 128 + c) (by omega) (by omega)
    have z4 := ofNat_ne_zero (x := 128 + r) (by omega) (by omega)
    conv => lhs; rw [List.cons_append, List.cons_append, List.cons_append, List.cons_append, List.nil_append,
      utf8toUtf16.eq_def]
    simp only [z1, z2, z3, z4, if_false, t1, t2, t3, t4, is1_false (x := 240 + a) (by omega) (by omega),
      is2_false (x := 240 + a) (by omega) (by omega), is3_false (x := 240 + a) (by omega) (by omega),
      is4_true (x := 240 + a) (by omega) (by omega), if_true, code4_eq a b c r ha hb hc hr, Bool.false_eq_true]
    first | rw [if_pos (by omega)] | rw [if_neg (by omega)]

theorem enum_enc {v : Nat} {bs : List UInt8} (h : Enc v bs) :
    enumAll (bs ++ rest) = (enumAll rest).map ((v, bs.length) :: ·) := by
  cases h with
  | one v h0 h =>
    have t1 := ofNat_toNat_lt (x := v) (by omega)
    have z1 := ofNat_ne_zero (x := v) (by omega) h0
    conv => lhs; rw [List.cons_append, List.nil_append, enumAll.eq_def]
    simp only [z1, if_false, t1, is1_true h, if_true]
    try rfl
  | two a r ha hr hv =>
    have t1 := ofNat_toNat_lt (x := 192 + a) (by omega)
    have t2 := ofNat_toNat_lt (x := 128 + r) (by omega)
    have z1 := ofNat_ne_zero (x := 192 + a) (by omega) (by omega)
    have z2 := ofNat_ne_zero (x := 128 + r) (by omega) (by omega)
    conv => lhs; rw [List.cons_append, List.cons_append, List.nil_append, enumAll.eq_def]
    simp only [z1, z2, if_false, t1, t2, is1_false (x := 192 + a) (by omega) (by omega),
      is2_true (x := 192 + a) (by omega) (by omega), if_true, code2_eq a r ha hr, Bool.false_eq_true]
    try rfl
  | three a b r ha hb hr hv =>
    have t1 := ofNat_toNat_lt (x := 224 + a) (by omega)
    have t2 := ofNat_toNat_lt (x := 128 + b) (by omega)
    have t3 := ofNat_toNat_lt (x := 128 + r) (by omega)
    have z1 := ofNat_ne_zero (x := 224 + a) (by omega) (by omega)
    have z2 := ofNat_ne_zero (x := 128 + b) (by omega) (by omega)
    have z3 := ofNat_ne_zero (x := 128 + r) (by omega) (by omega)
    conv => lhs; rw [List.cons_append, List.cons_append, List.cons_append, List.nil_append, enumAll.eq_def]
    simp only [z1, z2, z3, if_false, t1, t2, t3, is1_false (x := 224 + a) (by omega) (by omega),
      is2_false (x := 224 + a) (by omega) (by omega), is3_true (x := 224 + a) (by omega) (by omega), if_true,
      code3_eq a b r ha hb hr, Bool.false_eq_true]
    try rfl
  | four a b c r ha hb hc hr hv =>
    have t1 := ofNat_toNat_lt (x := 240 + a) (by omega)
    have t2 := ofNat_toNat_lt (x := 128 + b) (by omega)
    have t3 := ofNat_toNat_lt (x := 128 + c) (by omega)
    have t4 := ofNat_toNat_lt (x := 128 + r) (by omega)
    have z1 := ofNat_ne_zero (x := 240 + a) (by omega) (by omega)
    have z2 := ofNat_ne_zero (x := 128 + b) (by omega) (by omega)
    have z3 := ofNat_ne_zero (x := 128 + c) (by omega) (by omega)
    have z4 := ofNat_ne_zero (x := 128 + r) (by omega) (by omega)
    conv => lhs; rw [List.cons_append, List.cons_append, List.cons_append, List.cons_append, List.nil_append,
      enumAll.eq_def]
    simp only [z1, z2, z3, z4, if_false, t1, t2, t3, t4, is1_false (x := 240 + a) (by omega) (by omega),
      is2_false (x := 240 + a) (by omega) (by omega), is3_false (x := 240 + a) (by omega) (by omega),
      is4_true (x := 240 + a) (by omega) (by omega), if_true, code4_eq a b c r ha hb hc hr, Bool.false_eq_true]
    try rfl

theorem count_enc {v : Nat} {bs : List UInt8} (h : Enc v bs) :
    countFrom (bs ++ rest) = (countFrom rest).map (· + 1) := by
  cases h with
  | one v h0 h =>
    have t1 := ofNat_toNat_lt (x := v) (by omega)
    have z1 := ofNat_ne_zero (x := v) (by omega) h0
    conv => lhs; rw [List.cons_append, List.nil_append, countFrom.eq_def]
    simp only [z1, if_false, t1, is1_true h, if_true]
  | two a r ha hr hv =>
    have t1 := ofNat_toNat_lt (x := 192 + a) (by omega)
    have t2 := ofNat_toNat_lt (x := 128 + r) (by omega)
    have z1 := ofNat_ne_zero (x := 192 + a) (by omega) (by omega)
    have z2 := ofNat_ne_zero (x := 128 + r) (by omega) (by omega)
    conv => lhs; rw [List.cons_append, List.cons_append, List.nil_append, countFrom.eq_def]
    simp only [z1, z2, if_false, t1, t2, is1_false (x := 192 + a) (by omega) (by omega),
      is2_true (x := 192 + a) (by omega) (by omega), if_true, code2_eq a r ha hr, Bool.false_eq_true]
  | three a b r ha hb hr hv =>
    have t1 := ofNat_toNat_lt (x := 224 + a) (by omega)
    have t2 := ofNat_toNat_lt (x := 128 + b) (by omega)
    have t3 := ofNat_toNat_lt (x := 128 + r) (by omega)
    have z1 := ofNat_ne_zero (x := 224 + a) (by omega) (by omega)
    have z2 := ofNat_ne_zero (x := 128 + b) (by omega) (by omega)
    have z3 := ofNat_ne_zero (x := 128 + r) (by omega) (by omega)
    conv => lhs; rw [List.cons_append, List.cons_append, List.cons_append, List.nil_append, countFrom.eq_def]
    simp only [z1, z2, z3, if_false, t1, t2, t3, is1_false (x := 224 + a) (by omega) (by omega),
      is2_false (x := 224 + a) (by omega) (by omega), is3_true (x := 224 + a) (by omega) (by omega), if_true,
      code3_eq a b r ha hb hr, Bool.false_eq_true]
  | four a b c r ha hb hc hr hv =>
    have t1 := ofNat_toNat_lt (x := 240 + a) (by omega)
    have t2 := ofNat_toNat_lt (x := 128 + b) (by omega)
    have t3 := ofNat_toNat_lt (x := 128 + c) (by omega)
    have t4 := ofNat_toNat_lt (x := 128 + r) (by omega)
    have z1 := ofNat_ne_zero (x := 240 + a) (by omega) (by omega)
    have z2 := ofNat_ne_zero (x := 128 + b) (by omega) (by omega)
    have z3 := ofNat_ne_zero (x := 128 + c) (by omega) (by omega)
    have z4 := ofNat_ne_zero (x := 128 + r) (by omega) (by omega)
    conv => lhs; rw [List.cons_append, List.cons_append, List.cons_append, List.cons_append, List.nil_append,
      countFrom.eq_def]
    simp only [z1, z2, z3, z4, if_false, t1, t2, t3, t4, is1_false (x := 240 + a) (by omega) (by omega),
      is2_false (x := 240 + a) (by omega) (by omega), is3_false (x := 240 + a) (by omega) (by omega),
      is4_true (x := 240 + a) (by omega) (by omega), if_true, code4_eq a b c r ha hb hc hr, Bool.false_eq_true]

end steps

/-! ### encoders on scalar values -/

theorem e32_char (ch : Char) (h0 : ch.toNat ≠ 0) (p : List Int) (n : Int) :
    utf32toUtf8 ((ch.toNat : Int) :: p) n = contB (String.utf8EncodeChar ch) n (utf32toUtf8 p (n - 1)) := by
  rw [utf32toUtf8]
  have : ¬ ((ch.toNat : Int) = 0) := by omega
  simp only [this, if_false, enc32_char]

theorem surrogates_std (v : Nat) (h1 : 0x10000 ≤ v) (h2 : v < 4294967296) :
    surrogates v = [(v - 0x10000) / 1024 + 0xd800, (v - 0x10000) % 1024 + 0xdc00] := by
  unfold surrogates
  have : (v + 4294967296 - 0x10000) % 4294967296 = v - 0x10000 := by omega
  simp only [this, shr10, and1023]

theorem pairCode_std (v : Nat) (h1 : 0x10000 ≤ v) (h2 : v < 0x110000) :
    pairCode ((v - 0x10000) / 1024 + 0xd800) ((v - 0x10000) % 1024 + 0xdc00) = v := by
  unfold pairCode
  have e1 : (v - 0x10000) / 1024 + 0xd800 - 0xd800 = (v - 0x10000) / 1024 := Nat.add_sub_cancel _ _
  have e2 : (v - 0x10000) % 1024 + 0xdc00 - 0xdc00 = (v - 0x10000) % 1024 := Nat.add_sub_cancel _ _
  rw [e1, e2, shl_or _ _ 10 (by omega)]
  omega

/-- a scalar value below 0x10000 as one UTF-16 unit -/
theorem e16_bmp (ch : Char) (h0 : ch.toNat ≠ 0) (hb : ch.toNat < 0x10000) (p : List Int) (n : Int) :
    utf16toUtf8 ((ch.toNat : Int) :: p) n = contB (String.utf8EncodeChar ch) n (utf16toUtf8 p (n - 1)) := by
  have hs : ch.toNat < 0xd800 ∨ 0xdfff < ch.toNat := by
    have := ch.valid
    simp only [Char.toNat, UInt32.isValidChar, Nat.isValidChar] at *
    omega
  rw [← enc32_char]
  conv => lhs; rw [utf16toUtf8.eq_def]
  unfold enc32
  generalize ch.toNat = v at *
  have z : ¬ ((v : Int) = 0) := by omega
  simp only [z, if_false]
  by_cases h1 : (v : Int) < 0x80
  · simp only [h1, if_true]
  · by_cases h2 : (v : Int) < 0x800
    · simp only [h1, h2, if_true, if_false]
    · have h3 : (v : Int) < 0xd800 ∨ (v : Int) > 0xdfff := by omega
      have h4 : (v : Int) < 0x10000 := by omega
      simp only [h1, h2, h3, h4, if_true, if_false]

/-- a scalar value from 0x10000 as a surrogate pair -/
theorem e16_pair (ch : Char) (hb : 0x10000 ≤ ch.toNat) (p : List Int) (n : Int) :
    utf16toUtf8 ((((ch.toNat - 0x10000) / 1024 + 0xd800 : Nat) : Int) ::
        (((ch.toNat - 0x10000) % 1024 + 0xdc00 : Nat) : Int) :: p) n
      = contB (String.utf8EncodeChar ch) n (utf16toUtf8 p (n - 1)) := by
  have hv := char_lt ch
  rw [← enc32_char]
  conv => lhs; rw [utf16toUtf8.eq_def]
  unfold enc32
  generalize ch.toNat = v at *
  have hq : (v - 0x10000) / 1024 < 1024 := by omega
  have hr : (v - 0x10000) % 1024 < 1024 := by omega
  generalize hqd : (v - 0x10000) / 1024 = q at *
  generalize hrd : (v - 0x10000) % 1024 = r at *
  have a0 : ¬ (((q + 0xd800 : Nat) : Int) = 0) := by omega
  have a1 : ¬ (((q + 0xd800 : Nat) : Int) < 0x80) := by omega
  have a2 : ¬ (((q + 0xd800 : Nat) : Int) < 0x800) := by omega
  have a3 : ¬ ((((q + 0xd800 : Nat) : Int) < 0xd800) ∨ (((q + 0xd800 : Nat) : Int) > 0xdfff)) := by omega
  have a4 : (((q + 0xd800 : Nat) : Int) < 0xdc00) := by omega
  have a5 : ¬ ((((r + 0xdc00 : Nat) : Int) < 0xdc00) ∨ (((r + 0xdc00 : Nat) : Int) > 0xdfff)) := by omega
  have b1 : ¬ ((v : Int) < 0x80) := by omega
  have b2 : ¬ ((v : Int) < 0x800) := by omega
  have b3 : ¬ ((v : Int) < 0x10000) := by omega
  simp only [a0, a1, a2, a3, a4, a5, b1, b2, b3, if_true, if_false, Int.toNat_natCast]
  have := pairCode_std v hb hv
  rw [hqd, hrd] at this
  rw [this]

/-! ## the regenerated case tables: one linear pass per fact -/

/-- `p i a b` for every complete pair `(a, b)` at pair index `i` -/
def allPairs (p : Nat → UInt8 → UInt8 → Bool) : Nat → List UInt8 → Bool
  | i, a :: b :: t => p i a b && allPairs p (i + 1) t
  | _, _ => true

theorem allPairs_get (p : Nat → UInt8 → UInt8 → Bool) : ∀ (l : List UInt8) (i : Nat), allPairs p i l = true →
    ∀ c, c * 2 + 1 < l.length → p (i + c) (l.getD (c * 2) 0) (l.getD (c * 2 + 1) 0) = true
  | [], _, _, c, hc => by simp at hc
  | [_], _, _, c, hc => by simp at hc
  | a :: b :: t, i, h, c, hc => by
    simp only [allPairs, Bool.and_eq_true] at h
    cases c with
    | zero => simpa using h.1
    | succ c =>
      have := allPairs_get p t (i + 1) h.2 c (by simp only [List.length_cons] at hc; omega)
      have e1 : (c + 1) * 2 = c * 2 + 1 + 1 := by omega
      have e2 : i + (c + 1) = i + 1 + c := by omega
      rw [e1, e2]
      simpa using this

theorem array_getD (t : Array UInt8) (i : Nat) : t.getD i 0 = t.toList.getD i 0 := by
  simp [Array.getD_eq_getD_getElem?, List.getD_eq_getElem?_getD]

/-- the fact `p` holds for the entry of every code point whose two bytes lie inside the table -/
theorem table_fact (p : Nat → UInt8 → UInt8 → Bool) (t : Array UInt8) (h : allPairs p 0 t.toList = true)
    (c : Nat) (hc : c * 2 + 1 < t.size) : p c (t.getD (c * 2) 0) (t.getD (c * 2 + 1) 0) = true := by
  have := allPairs_get p t.toList 0 h c (by simpa using hc)
  simpa [array_getD] using this

/-- entry shape: a code point below 128 has a one-byte entry; a one-byte entry is ASCII; the first byte of
    a two-byte entry is a lead byte (never 0x80–0xBF) -/
def shapeOK (i : Nat) (a b : UInt8) : Bool :=
  (decide (128 ≤ i) || b == 0) && (if b == 0 then decide (a < 0x80) else decide (0xC0 ≤ a))

/-- no two-byte entry of the lower-case table equals the re-encoding of a code point above the cut-over -/
def lowOrdOK (i : Nat) (a b : UInt8) : Bool :=
  decide (1415 < i) || (decide (a < 0xD6) || (a == 0xD6 && decide (b ≤ 0x87)) || decide (0xE0 ≤ a))

theorem reencode_eq (code : Nat) (h : code ≠ 0) : reencode code = enc32 (code : Int) := by
  unfold reencode
  rw [utf32toUtf8]
  simp [contB, h]

theorem enc32_len2 (c : Nat) (h : c < 2048) : (enc32 (c : Int)).length ≤ 2 := by
  unfold enc32 enc2; split <;> (try split) <;> (try split) <;> simp <;> omega
theorem enc32_len3 (c : Nat) (h : c < 65536) : (enc32 (c : Int)).length ≤ 3 := by
  unfold enc32 enc2 enc3; split <;> (try split) <;> (try split) <;> simp <;> omega

theorem tableBytes_len (t : Array UInt8) (c : Nat) : (tableBytes t c).length ≤ 2 := by
  simp only [tableBytes]; split <;> simp

/-- one code point: the mapped bytes are never more than the bytes the enumerator consumed for it -/
theorem mapCode_len (t : Array UInt8) (cut : Nat) (hs : allPairs shapeOK 0 t.toList = true)
    (hcut : 128 ≤ cut) (hsz : cut * 2 ≤ t.size) (p : Nat × Nat) (hp : okPair p) :
    (mapCode t cut p.1).length ≤ p.2 := by
  obtain ⟨code, n⟩ := p
  simp only [okPair] at hp
  dsimp only at *
  unfold mapCode
  split
  · rename_i hlt
    have hl2 := tableBytes_len t code
    rcases hp with ⟨rfl, h1⟩ | ⟨rfl, _⟩ | ⟨rfl, _⟩ | ⟨rfl, _⟩
    · have := table_fact shapeOK t hs code (by omega)
      unfold shapeOK at this
      have hd : decide (128 ≤ code) = false := decide_eq_false (by omega)
      simp only [hd, Bool.false_or, Bool.and_eq_true] at this
      have h2 : t.getD (code * 2 + 1) 0 = 0 := by simpa using this.1
      simp only [tableBytes, h2]
      simp
    · omega
    · omega
    · omega
  · rename_i hge
    have h0 : code ≠ 0 := by omega
    rw [reencode_eq code h0]
    rcases hp with ⟨rfl, h1⟩ | ⟨rfl, h2⟩ | ⟨rfl, h3⟩ | ⟨rfl, _⟩
    · omega
    · exact enc32_len2 code h2
    · exact enc32_len3 code h3
    · exact enc32_len _

/-- ASCII text enumerates byte by byte -/
theorem enum_ascii (s : List UInt8) (h : ∀ b ∈ s, b ≠ 0 ∧ b.toNat < 128) :
    enumAll (mem s) = some (s.map fun b => (b.toNat, 1)) := by
  unfold mem
  induction s with
  | nil => simp [enumAll]
  | cons b t ih =>
    have hb := h b (by simp)
    rw [List.cons_append, enumAll.eq_def]
    simp only [hb.1, if_false, is1_true hb.2, if_true]
    rw [ih (fun c hc => h c (by simp [hc]))]
    simp

theorem ofNat_inj {x y : Nat} (hx : x < 256) (hy : y < 256) (h : UInt8.ofNat x = UInt8.ofNat y) : x = y := by
  have := congrArg UInt8.toNat h
  rwa [ofNat_toNat_lt hx, ofNat_toNat_lt hy] at this

/-- the encoder's arithmetic form from 128 up to 2^21 -/
theorem enc32_nat (c : Nat) (h : 128 ≤ c) (h' : c < 2097152) :
    enc32 (c : Int) =
      if c < 0x800 then [UInt8.ofNat (c / 64 + 192), UInt8.ofNat (c % 64 + 128)]
      else if c < 0x10000 then
        [UInt8.ofNat (c / 4096 + 224), UInt8.ofNat (c / 64 % 64 + 128), UInt8.ofNat (c % 64 + 128)]
      else [UInt8.ofNat (c / 262144 + 240), UInt8.ofNat (c / 4096 % 64 + 128), UInt8.ofNat (c / 64 % 64 + 128),
        UInt8.ofNat (c % 64 + 128)] := by
  unfold enc32
  have a1 : ¬ ((c : Int) < 0x80) := by omega
  simp only [a1, if_false, Int.toNat_natCast]
  by_cases h2 : c < 0x800
  · have : (c : Int) < 0x800 := by omega
    simp only [this, h2, if_true, enc2_arith c h2]
  · have b2 : ¬ ((c : Int) < 0x800) := by omega
    by_cases h3 : c < 0x10000
    · have : (c : Int) < 0x10000 := by omega
      simp only [b2, this, h2, h3, if_true, if_false, enc3_arith c h3]
    · have b3 : ¬ ((c : Int) < 0x10000) := by omega
      simp only [b2, b3, h2, h3, if_false, enc4_arith c h']

theorem enc32_inj (c d : Nat) (hc : 128 ≤ c) (hc' : c < 2097152) (hd : 128 ≤ d) (hd' : d < 2097152)
    (e : enc32 (c : Int) = enc32 (d : Int)) : c = d := by
  rw [enc32_nat c hc hc', enc32_nat d hd hd'] at e
  split at e <;> split at e <;> (try split at e) <;> (try split at e) <;>
    simp only [List.cons.injEq, and_true, reduceCtorEq, List.ne_cons_self, and_false] at e
  · have e1 := ofNat_inj (by omega) (by omega) e.1
    have e2 := ofNat_inj (by omega) (by omega) e.2
    omega
  · have e1 := ofNat_inj (by omega) (by omega) e.1
    have e2 := ofNat_inj (by omega) (by omega) e.2.1
    have e3 := ofNat_inj (by omega) (by omega) e.2.2
    omega
  · have e1 := ofNat_inj (by omega) (by omega) e.1
    have e2 := ofNat_inj (by omega) (by omega) e.2.1
    have e3 := ofNat_inj (by omega) (by omega) e.2.2.1
    have e4 := ofNat_inj (by omega) (by omega) e.2.2.2
    omega

/-- `tableBytes` determines both table bytes -/
theorem tableBytes_eq_iff (t : Array UInt8) (c d : Nat) :
    tableBytes t c = tableBytes t d ↔
      (t.getD (c * 2) 0 = t.getD (d * 2) 0 ∧ t.getD (c * 2 + 1) 0 = t.getD (d * 2 + 1) 0) := by
  simp only [tableBytes]
  by_cases h1 : t.getD (c * 2 + 1) 0 = 0 <;> by_cases h2 : t.getD (d * 2 + 1) 0 = 0
  · simp [h1, h2]
  · have : (t.getD (d * 2 + 1) 0 != 0) = true := by simpa using h2
    rw [if_neg (by simp [h1]), if_pos this]
    constructor
    · intro h; simp at h
    · intro h; exact absurd (by rw [← h.2]; exact h1) h2
  · have : (t.getD (c * 2 + 1) 0 != 0) = true := by simpa using h1
    rw [if_pos this, if_neg (by simp [h2])]
    constructor
    · intro h; simp at h
    · intro h; exact absurd (by rw [h.2]; exact h2) h1
  · have a : (t.getD (c * 2 + 1) 0 != 0) = true := by simpa using h1
    have b : (t.getD (d * 2 + 1) 0 != 0) = true := by simpa using h2
    rw [if_pos a, if_pos b]
    simp


/-- bytes `toLowerCase` emits for one code point -/
def lowerOf (code : Nat) : List UInt8 := mapCode toLowercaseU8 lowerCut code

section nocase
set_option linter.unusedSectionVars false
variable (hs : allPairs shapeOK 0 toLowercaseU8.toList = true)
  (ho : allPairs lowOrdOK 0 toLowercaseU8.toList = true)
  (hce : toLowercaseU8.getD (1415 * 2) 0 = 0xD6 ∧ toLowercaseU8.getD (1415 * 2 + 1) 0 = 0x87)
  (hsz : toLowercaseU8.size = 2887)
include hs ho hce hsz

theorem lowerOf_le (c : Nat) (h : c ≤ 1415) : lowerOf c = tableBytes toLowercaseU8 c := by
  unfold lowerOf mapCode
  have hcut : lowerCut = 1415 := rfl
  rw [hcut]
  by_cases h1 : c < 1415
  · simp [h1]
  · have : c = 1415 := by omega
    subst this
    have hr : reencode 1415 = [0xD6, 0x87] := by decide +kernel
    simp only [Nat.lt_irrefl, if_false, hr, tableBytes, hce.1, hce.2]
    decide

theorem lowerOf_gt (c : Nat) (h : 1415 < c) : lowerOf c = enc32 (c : Int) := by
  unfold lowerOf mapCode
  have hcut : lowerCut = 1415 := rfl
  rw [hcut, if_neg (by omega), reencode_eq c (by omega)]

theorem enc_ne_table (c d : Nat) (hc : 1415 < c) (hc' : c < 2097152) (hd : d ≤ 1415) :
    enc32 (c : Int) ≠ tableBytes toLowercaseU8 d := by
  intro e
  rw [enc32_nat c (by omega) hc'] at e
  have hl := tableBytes_len toLowercaseU8 d
  by_cases h2 : c < 0x800
  · simp only [h2, if_true, tableBytes] at e
    have hf := table_fact lowOrdOK toLowercaseU8 ho d (by omega)
    unfold lowOrdOK at hf
    have hd' : decide (1415 < d) = false := decide_eq_false (by omega)
    simp only [hd', Bool.false_or] at hf
    split at e
    · simp only [List.cons.injEq, and_true] at e
      obtain ⟨e1, e2⟩ := e
      have t1 : (toLowercaseU8.getD (d * 2) 0).toNat = c / 64 + 192 := by
        rw [← e1, ofNat_toNat_lt (by omega)]
      have t2 : (toLowercaseU8.getD (d * 2 + 1) 0).toNat = c % 64 + 128 := by
        rw [← e2, ofNat_toNat_lt (by omega)]
      simp only [Bool.or_eq_true, Bool.and_eq_true, decide_eq_true_eq, beq_iff_eq] at hf
      rcases hf with (hf | ⟨hf1, hf2⟩) | hf
      · have := UInt8.lt_iff_toNat_lt.mp hf
        rw [t1] at this
        have : (0xD6 : UInt8).toNat = 214 := by decide
        omega
      · have a := congrArg UInt8.toNat hf1
        rw [t1] at a
        have b := UInt8.le_iff_toNat_le.mp hf2
        rw [t2] at b
        have : (0xD6 : UInt8).toNat = 214 := by decide
        have : (0x87 : UInt8).toNat = 135 := by decide
        omega
      · have := UInt8.le_iff_toNat_le.mp hf
        rw [t1] at this
        have : (0xE0 : UInt8).toNat = 224 := by decide
        omega
    · simp at e
  · rw [← e] at hl
    simp only [h2, if_false] at hl
    split at hl <;> simp at hl

theorem step_iff (c d : Nat) (hc : c < 2097152) (hd : d < 2097152) :
    nocaseStep c d = true ↔ lowerOf c = lowerOf d := by
  unfold nocaseStep
  have k1 : nocaseCut1 = 1415 := rfl
  have k2 : nocaseCut2 = 1415 := rfl
  rw [k1, k2]
  by_cases hgt : c > 1415 ∨ d > 1415
  · simp only [hgt, if_true, beq_iff_eq]
    constructor
    · intro h; rw [h]
    · intro e
      by_cases h1 : 1415 < c <;> by_cases h2 : 1415 < d
      · rw [lowerOf_gt hs ho hce hsz c h1, lowerOf_gt hs ho hce hsz d h2] at e
        exact enc32_inj c d (by omega) hc (by omega) hd e
      · rw [lowerOf_gt hs ho hce hsz c h1, lowerOf_le hs ho hce hsz d (by omega)] at e
        exact absurd e (enc_ne_table hs ho hce hsz c d h1 hc (by omega))
      · rw [lowerOf_le hs ho hce hsz c (by omega), lowerOf_gt hs ho hce hsz d h2] at e
        exact absurd e.symm (enc_ne_table hs ho hce hsz d c h2 hd (by omega))
      · omega
  · simp only [hgt, if_false, Bool.and_eq_true, beq_iff_eq]
    rw [lowerOf_le hs ho hce hsz c (by omega), lowerOf_le hs ho hce hsz d (by omega), tableBytes_eq_iff]

end nocase

/-! ## `fixW()`: the in-place conversion never faults and equals the out-of-place one -/

/-- what the out-of-place converter says, as a result of the in-place model -/
def liftOpt (o : Option (List UInt8)) : Except Fault (List UInt8) :=
  match o with
  | some out => .ok out
  | none => .error .oobRead

theorem storeFault_none {off size k w cnt : Nat} (h1 : w + cnt ≤ size) (h2 : w + cnt ≤ off + 4 * k) :
    storeFault off size k w cnt = none := by
  unfold storeFault
  rw [if_neg (by omega), if_neg (by omega)]

theorem contF_eq (off size k w : Nat) (out : List UInt8) (n : Int) (rest : Except Fault (List UInt8))
    (r : Option (List UInt8)) (hr : rest = liftOpt r)
    (h1 : w + out.length + 1 ≤ size) (h2 : w + out.length + 1 ≤ off + 4 * k) :
    contF off size k w out n rest = liftOpt (contB out n r) := by
  unfold contF contB finish
  rw [storeFault_none (by omega) (by omega)]
  by_cases hn : n - 1 = 0
  · simp only [hn, if_true]
    rw [storeFault_none (by omega) (by omega)]
    simp [liftOpt, Except.map]
  · simp only [hn, if_false, hr]
    cases r <;> simp [liftOpt, Except.map]

theorem finish_ok (off size k w : Nat) (h1 : w + 1 ≤ size) (h2 : w + 1 ≤ off + 4 * k) :
    finish off size k w = .ok [] := by
  unfold finish
  rw [storeFault_none h1 h2]

theorem fixWLoop_eq (off size : Nat) (units : List Int) (n : Int) :
    ∀ k w, w ≤ 3 * k → off + 4 * (k + units.length) ≤ size →
      fixWLoop off size units k w n = liftOpt (utf16toUtf8 units n) := by
  fun_induction utf16toUtf8 units n <;> intro k w hw hs <;> rw [fixWLoop.eq_def] <;>
    simp only [List.length_cons, List.length_nil] at hs
  all_goals simp only [*, if_true, if_false]
  all_goals first
    | rfl
    | (rw [finish_ok _ _ _ _ (by omega) (by omega)]; rfl)
    | (rename_i ih; refine contF_eq _ _ _ _ _ _ _ _ (ih _ _ (by omega) (by omega)) ?_ ?_ <;>
        simp only [enc2, enc3, enc4, List.length_cons, List.length_nil] <;> omega)

theorem capOf_resize_ge (size0 n : Nat) : n + 1 ≤ capOf (sizeResize size0 n) := by
  unfold capOf sizeResize
  split <;> split <;> (try split) <;> omega

theorem wideOffset_le (len : Nat) : wideOffset len ≤ len + 4 ∧ len + 1 ≤ wideOffset len := by
  unfold wideOffset
  rw [and3, and3]
  omega

/-- the scratch area the harness fills lies inside the buffer, terminator included -/
theorem scratch_fits (size0 len : Nat) (units : List Int) :
    wideOffset len + 4 * (scratch (wideOffset len) (capOf (sizeResize size0 (datawNeed len))) units).length
      ≤ capOf (sizeResize size0 (datawNeed len)) := by
  have h1 := capOf_resize_ge size0 (datawNeed len)
  have h2 := wideOffset_le len
  generalize capOf (sizeResize size0 (datawNeed len)) = cap at *
  generalize wideOffset len = off at *
  unfold datawNeed at h1
  unfold scratch
  simp only [List.length_append, List.length_take, List.length_cons, List.length_nil]
  omega

theorem scratch_hasZero (off cap : Nat) (units : List Int) : hasZero (scratch off cap units) = true := by
  simp [hasZero, scratch]

end AslProofs.Utf
