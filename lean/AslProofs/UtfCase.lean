import AslProofs.Utf
/-!
# C08 — case mapping and `equalsNocase` over the enumeration *with* the source bytes (`enumRaw`):
copy-through of undecodable bytes, no NUL in the result, unique decodability of the lower-cased form.
-/
namespace AslProofs.Utf
open AslModel.Utf AslProofs.Bits Gen.Unicode

/-! ## `enumRaw` is `enumAll` plus the bytes -/

theorem enumRaw_all (m : List UInt8) :
    (enumRaw m).map (List.map fun g => (g.1, g.2.length)) = enumAll m := by
  fun_induction enumAll m <;> rw [enumRaw.eq_def] <;> simp_all [Option.map_map, Function.comp_def]
  all_goals (rename_i ih; rw [← ih]; cases enumRaw _ <;> simp)

theorem raw_some (m : List UInt8) (h : hasNul m = true) : (enumRaw m).isSome = true := by
  have := enum_some m h
  rw [← enumRaw_all] at this
  simpa using this

theorem raw_ok (m : List UInt8) (l : List (Nat × List UInt8)) (h : enumRaw m = some l) :
    ∀ g ∈ l, okPair (g.1, g.2.length) := by
  have e := enumRaw_all m
  rw [h] at e
  intro g hg
  exact enum_ok m _ e.symm (g.1, g.2.length) (by simp only [List.mem_map]; exact ⟨g, hg, rfl⟩)

theorem raw_sum (m : List UInt8) (l : List (Nat × List UInt8)) (h : enumRaw m = some l) :
    (l.map (·.2.length)).sum = strlen m := by
  have e := enumRaw_all m
  rw [h] at e
  have := enum_sum m _ e.symm
  simpa [List.map_map, Function.comp_def] using this

/-! ## what each step of the enumeration looks like -/

/-- the code `operator*` computes from the bytes it stands on -/
def rd : List UInt8 → Nat
  | [b] => b.toNat
  | [b, b2] => code2 b.toNat b2.toNat
  | [b, b2, b3] => code3 b.toNat b2.toNat b3.toNat
  | [b, b2, b3, b4] => code4 b.toNat b2.toNat b3.toNat b4.toNat
  | _ => 0

/-- the number of bytes `operator*` consumes for a lead byte when no terminator intervenes -/
def implied (b : UInt8) : Nat :=
  if is1 b.toNat then 1 else if is2 b.toNat then 2 else if is3 b.toNat then 3 else 4

def headImplied : List UInt8 → Nat
  | [] => 0
  | b :: _ => implied b

/-- a complete step: all implied bytes present, code = `rd` of them -/
def FullOK (g : Nat × List UInt8) : Prop :=
  g.1 = rd g.2 ∧ g.2 ≠ [] ∧ g.2.length = headImplied g.2 ∧ ∀ b ∈ g.2, b ≠ 0

/-- a step cut short by the terminator: code 0, fewer bytes than implied -/
def TruncOK (g : Nat × List UInt8) : Prop :=
  g.1 = 0 ∧ g.2 ≠ [] ∧ g.2.length < headImplied g.2 ∧ ∀ b ∈ g.2, b ≠ 0

/-- complete steps, possibly ended by one truncated step -/
inductive Groups : List (Nat × List UInt8) → Prop
  | nil : Groups []
  | full (g : Nat × List UInt8) (l : List (Nat × List UInt8)) : FullOK g → Groups l → Groups (g :: l)
  | trunc (g : Nat × List UInt8) : TruncOK g → Groups [g]

theorem lead_ne_zero {b : UInt8} (h : is1 b.toNat = false) : b ≠ 0 := by
  intro e; subst e; revert h; decide

theorem raw_groups (m : List UInt8) : ∀ l, enumRaw m = some l → Groups l := by
  fun_induction enumRaw m <;> simp_all
  all_goals first
    | exact Groups.nil
    | (apply Groups.trunc; simp [TruncOK, headImplied, implied, *])
    | (intro a ha; rename_i ih
       exact Groups.full _ _ (by simp [FullOK, rd, headImplied, implied, *]) (ih a ha))

/-! ## case mapping: length, ASCII, no NUL -/

theorem mapGroup_len (t : Array UInt8) (cut : Nat) (hs : allPairs shapeOK 0 t.toList = true)
    (hcut : 128 ≤ cut) (hsz : cut * 2 ≤ t.size) (g : Nat × List UInt8) (hg : okPair (g.1, g.2.length)) :
    (mapGroup t cut g).length ≤ g.2.length := by
  unfold mapGroup
  split
  · exact Nat.le_refl _
  · exact mapCode_len t cut hs hcut hsz (g.1, g.2.length) hg

theorem flatMap_groups_len (f : Nat × List UInt8 → List UInt8) (l : List (Nat × List UInt8))
    (h : ∀ g ∈ l, (f g).length ≤ g.2.length) : (l.flatMap f).length ≤ (l.map (·.2.length)).sum := by
  induction l with
  | nil => simp
  | cons p t ih =>
    simp only [List.flatMap_cons, List.length_append, List.map_cons, List.sum_cons]
    have := h p (by simp)
    have := ih (fun q hq => h q (by simp [hq]))
    omega

/-- `toUpperCase`/`toLowerCase` on any byte string: inside the allocation, and never longer than the input -/
theorem caseMap_len (t : Array UInt8) (cut : Nat) (hs : allPairs shapeOK 0 t.toList = true)
    (hcut : 128 ≤ cut) (hsz : cut * 2 ≤ t.size) (s : List UInt8) :
    ∃ out, caseMap t cut s = some out ∧ out.length ≤ s.length := by
  have h1 := raw_some (mem s) (hasNul_mem s)
  cases hr : enumRaw (mem s) with
  | none => simp [hr] at h1
  | some l =>
    refine ⟨l.flatMap (mapGroup t cut), by simp [caseMap, hr], ?_⟩
    have hok := raw_ok (mem s) l hr
    have hsum := raw_sum (mem s) l hr
    have := flatMap_groups_len (mapGroup t cut) l (fun g hg => mapGroup_len t cut hs hcut hsz g (hok g hg))
    have := strlen_mem s
    omega

/-- ASCII text enumerates byte by byte -/
theorem raw_ascii (s : List UInt8) (h : ∀ b ∈ s, b ≠ 0 ∧ b.toNat < 128) :
    enumRaw (mem s) = some (s.map fun b => (b.toNat, [b])) := by
  unfold mem
  induction s with
  | nil => simp [enumRaw]
  | cons b t ih =>
    have hb := h b (by simp)
    rw [List.cons_append, enumRaw.eq_def]
    simp only [hb.1, if_false, is1_true hb.2, if_true]
    rw [ih (fun c hc => h c (by simp [hc]))]
    simp

/-- second table fact: a one-byte entry of a non-zero code point is not NUL; the first byte of a two-byte entry
    is a 2-byte lead C2–DF and its second byte a continuation byte 80–BF (every entry is well-formed UTF-8 of one
    code point below U+0800; in particular no entry is a cut-off longer sequence) -/
def shape2OK (i : Nat) (a b : UInt8) : Bool :=
  if b == 0 then (i == 0 || a != 0)
  else (decide (0xC2 ≤ a) && (decide (a < 0xE0) && (decide (0x80 ≤ b) && decide (b < 0xC0))))

theorem enc32_no_nul (c : Nat) (h : 128 ≤ c) (h' : c < 2097152) : ∀ b ∈ enc32 (c : Int), b ≠ 0 := by
  rw [enc32_nat c h h']
  intro b hb
  split at hb
  · simp only [List.mem_cons, List.not_mem_nil, or_false] at hb
    rcases hb with rfl | rfl <;> exact ofNat_ne_zero (by omega) (by omega)
  · split at hb
    · simp only [List.mem_cons, List.not_mem_nil, or_false] at hb
      rcases hb with rfl | rfl | rfl <;> exact ofNat_ne_zero (by omega) (by omega)
    · simp only [List.mem_cons, List.not_mem_nil, or_false] at hb
      rcases hb with rfl | rfl | rfl | rfl <;> exact ofNat_ne_zero (by omega) (by omega)

theorem mapCode_no_nul (t : Array UInt8) (cut : Nat) (h2 : allPairs shape2OK 0 t.toList = true)
    (hcut : 128 ≤ cut) (hsz : cut * 2 ≤ t.size) (c : Nat) (h0 : c ≠ 0) (hc : c < 2097152) :
    ∀ b ∈ mapCode t cut c, b ≠ 0 := by
  unfold mapCode
  split
  · have f := table_fact shape2OK t h2 c (by omega)
    unfold shape2OK at f
    simp only [tableBytes]
    by_cases hz : t.getD (c * 2 + 1) 0 = 0
    · have hne : ¬ ((t.getD (c * 2 + 1) 0 != 0) = true) := by simp [hz]
      rw [if_neg hne]
      simp only [hz, beq_self_eq_true, if_true, Bool.or_eq_true, beq_iff_eq, bne_iff_ne, ne_eq] at f
      intro b hb
      simp only [List.mem_cons, List.not_mem_nil, or_false] at hb
      subst hb
      rcases f with f | f
      · exact absurd f h0
      · exact f
    · have hne : (t.getD (c * 2 + 1) 0 != 0) = true := by simpa using hz
      have hb0 : (t.getD (c * 2 + 1) 0 == 0) = false := by simpa using hz
      rw [if_pos hne]
      simp only [hb0, Bool.false_eq_true, if_false, Bool.and_eq_true, decide_eq_true_eq] at f
      intro b hb
      simp only [List.mem_cons, List.not_mem_nil, or_false] at hb
      rcases hb with rfl | rfl
      · intro e; rw [e] at f; exact absurd f.1 (by decide)
      · exact hz
  · rw [reencode_eq c h0]
    exact enc32_no_nul c (by omega) hc

theorem groups_no_nul {l : List (Nat × List UInt8)} (hg : Groups l) : ∀ g ∈ l, ∀ x ∈ g.2, x ≠ 0 := by
  induction hg with
  | nil => intro g hgl; simp at hgl
  | full g' l' hf _ ih =>
    intro g hgl
    simp only [List.mem_cons] at hgl
    rcases hgl with rfl | hgl
    · exact hf.2.2.2
    · exact ih g hgl
  | trunc g' ht =>
    intro g hgl
    simp only [List.mem_cons, List.not_mem_nil, or_false] at hgl
    subst hgl; exact ht.2.2.2

/-- the case functions never emit a NUL byte: `length()` of the result is its `strlen` -/
theorem caseMap_no_nul (t : Array UInt8) (cut : Nat) (h2 : allPairs shape2OK 0 t.toList = true)
    (hcut : 128 ≤ cut) (hsz : cut * 2 ≤ t.size) (s out : List UInt8) (h : caseMap t cut s = some out) :
    ∀ b ∈ out, b ≠ 0 := by
  unfold caseMap at h
  cases hr : enumRaw (mem s) with
  | none => simp [hr] at h
  | some l =>
    simp only [hr, Option.map_some, Option.some.injEq] at h
    subst h
    have hok := raw_ok (mem s) l hr
    have hg := raw_groups (mem s) l hr
    intro b hb
    simp only [List.mem_flatMap] at hb
    obtain ⟨g, hgl, hb⟩ := hb
    have hnz := groups_no_nul hg g hgl
    unfold mapGroup at hb
    split at hb
    · exact hnz b hb
    · rename_i hc0
      have := hok g hgl
      have hlt : g.1 < 2097152 := by unfold okPair at this; simp only at this; omega
      exact mapCode_no_nul t cut h2 hcut hsz g.1 hc0 hlt b hb

/-! ## unique decodability of the lower-cased form

Every emitted group has the length its first byte implies, except a truncated group, which is the last one. -/

def FullW (w : List UInt8) : Prop := w ≠ [] ∧ w.length = headImplied w
def TruncW (w : List UInt8) : Prop := w ≠ [] ∧ w.length < headImplied w

inductive WChain : List (List UInt8) → Prop
  | nil : WChain []
  | full (w : List UInt8) (l : List (List UInt8)) : FullW w → WChain l → WChain (w :: l)
  | trunc (w : List UInt8) : TruncW w → WChain [w]

theorem headImplied_append {w1 w2 a b : List UInt8} (h1 : w1 ≠ []) (h2 : w2 ≠ []) (e : w1 ++ a = w2 ++ b) :
    headImplied w1 = headImplied w2 := by
  match w1, w2, h1, h2 with
  | x :: _, y :: _, _, _ =>
    simp only [List.cons_append, List.cons.injEq] at e
    simp [headImplied, e.1]

theorem flatten_inj2 {A B : List (List UInt8)} (hA : WChain A) (hB : WChain B) (e : A.flatten = B.flatten) : A = B := by
  induction hA generalizing B with
  | nil =>
    cases hB with
    | nil => rfl
    | full w l hw _ =>
      exfalso; simp only [List.flatten_nil, List.flatten_cons] at e
      have := hw.1
      cases w with
      | nil => exact this rfl
      | cons _ _ => simp at e
    | trunc w hw =>
      exfalso; simp only [List.flatten_nil, List.flatten_cons, List.append_nil] at e
      exact hw.1 e.symm
  | full w1 A' hw1 _ ih =>
    cases hB with
    | nil =>
      exfalso; simp only [List.flatten_nil, List.flatten_cons] at e
      have := hw1.1
      cases w1 with
      | nil => exact this rfl
      | cons _ _ => simp at e
    | full w2 B' hw2 hB' =>
      simp only [List.flatten_cons] at e
      have hh := headImplied_append hw1.1 hw2.1 e
      have hl : w1.length = w2.length := by rw [hw1.2, hw2.2, hh]
      obtain ⟨e1, e2⟩ := List.append_inj e hl
      rw [e1, ih hB' e2]
    | trunc w2 hw2 =>
      exfalso
      simp only [List.flatten_cons, List.flatten_nil, List.append_nil] at e
      have hh := headImplied_append hw1.1 hw2.1 (b := []) (by simpa using e)
      have : w2.length = w1.length + A'.flatten.length := by rw [← e]; simp
      have := hw1.2; have := hw2.2
      omega
  | trunc w1 hw1 =>
    cases hB with
    | nil =>
      exfalso; simp only [List.flatten_nil, List.flatten_cons, List.append_nil] at e
      exact hw1.1 e
    | full w2 B' hw2 _ =>
      exfalso
      simp only [List.flatten_cons, List.flatten_nil, List.append_nil] at e
      have hh := headImplied_append hw1.1 hw2.1 (a := []) (by simpa using e)
      have : w1.length = w2.length + B'.flatten.length := by rw [e]; simp
      have := hw1.2; have := hw2.2
      omega
    | trunc w2 hw2 =>
      simp only [List.flatten_cons, List.flatten_nil, List.append_nil] at e
      rw [e]

section nocase
set_option linter.unusedSectionVars false
variable (hs : allPairs shapeOK 0 toLowercaseU8.toList = true)
  (h2 : allPairs shape2OK 0 toLowercaseU8.toList = true)
  (ho : allPairs lowOrdOK 0 toLowercaseU8.toList = true)
  (hce : toLowercaseU8.getD (1415 * 2) 0 = 0xD6 ∧ toLowercaseU8.getD (1415 * 2 + 1) 0 = 0x87)
  (hsz : toLowercaseU8.size = 2887)
include hs h2 ho hce hsz

/-- the bytes emitted for a decodable non-zero code point form a complete group that decodes to a non-zero code -/
theorem lowerOf_full (c : Nat) (h0 : c ≠ 0) (hc : c < 2097152) : FullW (lowerOf c) ∧ rd (lowerOf c) ≠ 0 := by
  by_cases hle : c ≤ 1415
  · rw [lowerOf_le hs ho hce hsz c hle]
    have f1 := table_fact shapeOK toLowercaseU8 hs c (by omega)
    have f2 := table_fact shape2OK toLowercaseU8 h2 c (by omega)
    unfold shapeOK at f1
    unfold shape2OK at f2
    simp only [tableBytes]
    generalize toLowercaseU8.getD (c * 2) 0 = a at *
    generalize toLowercaseU8.getD (c * 2 + 1) 0 = b at *
    by_cases hz : b = 0
    · subst hz
      simp only [Bool.and_eq_true, beq_self_eq_true, if_true, decide_eq_true_eq, Bool.or_eq_true, beq_iff_eq,
        bne_iff_ne, ne_eq] at f1 f2
      have ha : a.toNat < 128 := UInt8.lt_iff_toNat_lt.mp f1.2
      have hne : a ≠ 0 := by rcases f2 with f | f; exact absurd f h0; exact f
      have hn : a.toNat ≠ 0 := fun e => hne (UInt8.toNat_inj.mp (by simpa using e))
      simp [FullW, headImplied, implied, is1_true ha, rd, hn]
    · have hb0 : (b == 0) = false := by simpa using hz
      simp only [hb0, Bool.false_eq_true, if_false, Bool.and_eq_true, decide_eq_true_eq] at f2
      have l1 : 194 ≤ a.toNat := UInt8.le_iff_toNat_le.mp f2.1
      have l2 : a.toNat < 224 := UInt8.lt_iff_toNat_lt.mp f2.2.1
      have hne : (b != 0) = true := by simpa using hz
      rw [if_pos hne]
      have : code2 a.toNat b.toNat ≠ 0 := by rw [code2_arith]; omega
      simp [FullW, headImplied, implied, is1_false (x := a.toNat) (by omega) (by omega),
        is2_true (x := a.toNat) (by omega) l2, rd, this]
  · rw [lowerOf_gt hs ho hce hsz c (by omega), enc32_nat c (by omega) hc]
    by_cases c2 : c < 0x800
    · simp only [c2, if_true]
      have t1 : (c / 64 + 192) % 256 = c / 64 + 192 := by omega
      have t2 : (c % 64 + 128) % 256 = c % 64 + 128 := by omega
      have e := code2_eq (c / 64) (c % 64) (by omega) (by omega)
      have : code2 (c / 64 + 192) (c % 64 + 128) ≠ 0 := by
        rw [Nat.add_comm (c / 64), Nat.add_comm (c % 64), e]; omega
      simp [FullW, headImplied, implied, t1, t2, is1_false (x := c / 64 + 192) (by omega) (by omega),
        is2_true (x := c / 64 + 192) (by omega) (by omega), rd, this]
    · by_cases c3 : c < 0x10000
      · simp only [c2, c3, if_true, if_false]
        have t1 : (c / 4096 + 224) % 256 = c / 4096 + 224 := by omega
        have t2 : (c / 64 % 64 + 128) % 256 = c / 64 % 64 + 128 := by omega
        have t3 : (c % 64 + 128) % 256 = c % 64 + 128 := by omega
        have e := code3_eq (c / 4096) (c / 64 % 64) (c % 64) (by omega) (by omega) (by omega)
        have : code3 (c / 4096 + 224) (c / 64 % 64 + 128) (c % 64 + 128) ≠ 0 := by
          rw [Nat.add_comm (c / 4096), Nat.add_comm (c / 64 % 64), Nat.add_comm (c % 64), e]; omega
        simp [FullW, headImplied, implied, t1, t2, t3, is1_false (x := c / 4096 + 224) (by omega) (by omega),
          is2_false (x := c / 4096 + 224) (by omega) (by omega), is3_true (x := c / 4096 + 224) (by omega) (by omega),
          rd, this]
      · simp only [c2, c3, if_false]
        have t1 : (c / 262144 + 240) % 256 = c / 262144 + 240 := by omega
        have t2 : (c / 4096 % 64 + 128) % 256 = c / 4096 % 64 + 128 := by omega
        have t3 : (c / 64 % 64 + 128) % 256 = c / 64 % 64 + 128 := by omega
        have t4 : (c % 64 + 128) % 256 = c % 64 + 128 := by omega
        have e := code4_eq (c / 262144) (c / 4096 % 64) (c / 64 % 64) (c % 64) (by omega) (by omega) (by omega) (by omega)
        have : code4 (c / 262144 + 240) (c / 4096 % 64 + 128) (c / 64 % 64 + 128) (c % 64 + 128) ≠ 0 := by
          rw [Nat.add_comm (c / 262144), Nat.add_comm (c / 4096 % 64), Nat.add_comm (c / 64 % 64),
            Nat.add_comm (c % 64), e]; omega
        simp [FullW, headImplied, implied, t1, t2, t3, t4, is1_false (x := c / 262144 + 240) (by omega) (by omega),
          is2_false (x := c / 262144 + 240) (by omega) (by omega),
          is3_false (x := c / 262144 + 240) (by omega) (by omega), rd, this]

/-- what `toLowerCase` emits for one enumeration step -/
def wordL (g : Nat × List UInt8) : List UInt8 := mapGroup toLowercaseU8 lowerCut g

omit hs h2 ho hce hsz in
theorem wordL_zero (g : Nat × List UInt8) (h : g.1 = 0) : wordL g = g.2 := by simp [wordL, mapGroup, h]
omit hs h2 ho hce hsz in
theorem wordL_ne (g : Nat × List UInt8) (h : g.1 ≠ 0) : wordL g = lowerOf g.1 := by simp [wordL, mapGroup, h, lowerOf]

/-- one step of `equalsNocase` decides equality of the two emitted groups -/
theorem stepG_iff (g1 g2 : Nat × List UInt8) (k1 : FullOK g1 ∨ TruncOK g1) (k2 : FullOK g2 ∨ TruncOK g2)
    (b1 : g1.1 < 2097152) (b2 : g2.1 < 2097152) :
    nocaseStepG g1 g2 = true ↔ wordL g1 = wordL g2 := by
  -- a raw group never equals the bytes of a decodable non-zero code point
  have raw_ne : ∀ g g' : Nat × List UInt8, (FullOK g ∨ TruncOK g) → g.1 = 0 → g'.1 ≠ 0 → g'.1 < 2097152 →
      g.2 ≠ lowerOf g'.1 := by
    intro g g' k hz hnz hb e
    obtain ⟨hfw, hrd⟩ := lowerOf_full hs h2 ho hce hsz g'.1 hnz hb
    rcases k with k | k
    · have : rd g.2 = 0 := by rw [← k.1, hz]
      rw [e] at this; exact hrd this
    · have := k.2.2.1
      rw [e, hfw.2] at this; omega
  unfold nocaseStepG
  by_cases z1 : g1.1 = 0 <;> by_cases z2 : g2.1 = 0
  · simp only [z1, z2, true_or, if_true, beq_self_eq_true, Bool.true_and, beq_iff_eq]
    rw [wordL_zero g1 z1, wordL_zero g2 z2]
  · rw [if_pos (Or.inl z1), wordL_zero g1 z1, wordL_ne g2 z2]
    have hne : (g1.1 == g2.1) = false := by
      rw [z1]; exact beq_false_of_ne (fun e => z2 e.symm)
    rw [hne, Bool.false_and]
    constructor
    · intro h; cases h
    · intro e; exact absurd e (raw_ne g1 g2 k1 z1 z2 b2)
  · rw [if_pos (Or.inr z2), wordL_ne g1 z1, wordL_zero g2 z2]
    have hne : (g1.1 == g2.1) = false := by
      rw [z2]; exact beq_false_of_ne z1
    rw [hne, Bool.false_and]
    constructor
    · intro h; cases h
    · intro e; exact absurd e.symm (raw_ne g2 g1 k2 z2 z1 b1)
  · simp only [z1, z2, or_self, if_false]
    rw [wordL_ne g1 z1, wordL_ne g2 z2]
    exact step_iff hs ho hce hsz g1.1 g2.1 b1 b2

omit hs h2 ho hce hsz in
theorem groups_each {l : List (Nat × List UInt8)} (hg : Groups l) : ∀ g ∈ l, FullOK g ∨ TruncOK g := by
  induction hg with
  | nil => intro g h; simp at h
  | full g' l' hf _ ih =>
    intro g h
    simp only [List.mem_cons] at h
    rcases h with rfl | h
    · exact Or.inl hf
    · exact ih g h
  | trunc g' ht =>
    intro g h
    simp only [List.mem_cons, List.not_mem_nil, or_false] at h
    subst h; exact Or.inr ht

theorem groups_chain {l : List (Nat × List UInt8)} (hg : Groups l) (hb : ∀ g ∈ l, g.1 < 2097152) :
    WChain (l.map wordL) := by
  induction hg with
  | nil => exact WChain.nil
  | full g l' hf _ ih =>
    simp only [List.map_cons]
    refine WChain.full _ _ ?_ (ih (fun x hx => hb x (by simp [hx])))
    by_cases z : g.1 = 0
    · rw [wordL_zero g z]; exact ⟨hf.2.1, hf.2.2.1⟩
    · rw [wordL_ne g z]; exact (lowerOf_full hs h2 ho hce hsz g.1 z (hb g (by simp))).1
  | trunc g ht =>
    simp only [List.map_cons, List.map_nil]
    refine WChain.trunc _ ?_
    rw [wordL_zero g ht.1]; exact ⟨ht.2.1, ht.2.2.1⟩

/-- the comparison loop of `equalsNocase` decides equality of the concatenated lower-cased groups -/
theorem nocaseLoop_iff (A B : List (Nat × List UInt8)) (gA : Groups A) (gB : Groups B)
    (hA : ∀ g ∈ A, g.1 < 2097152) (hB : ∀ g ∈ B, g.1 < 2097152) :
    nocaseLoop A B = true ↔ A.flatMap wordL = B.flatMap wordL := by
  have eA := groups_each gA
  have eB := groups_each gB
  have key : nocaseLoop A B = true ↔ A.map wordL = B.map wordL := by
    clear gA gB
    induction A generalizing B with
    | nil => cases B <;> simp [nocaseLoop]
    | cons a A' ih =>
      cases B with
      | nil => simp [nocaseLoop]
      | cons b B' =>
        have hstep := stepG_iff hs h2 ho hce hsz a b (eA a (by simp)) (eB b (by simp)) (hA a (by simp)) (hB b (by simp))
        have ih' := ih B' (fun p hp => hA p (by simp [hp])) (fun p hp => hB p (by simp [hp]))
          (fun p hp => eA p (by simp [hp])) (fun p hp => eB p (by simp [hp]))
        simp only [nocaseLoop, List.map_cons, List.cons.injEq]
        by_cases hst : nocaseStepG a b = true
        · simp only [hst, if_true]
          rw [ih']
          constructor
          · intro h; exact ⟨hstep.mp hst, h⟩
          · intro h; exact h.2
        · simp only [hst, Bool.false_eq_true, if_false, false_iff]
          intro h; exact hst (hstep.mpr h.1)
  rw [key, List.flatMap_def, List.flatMap_def]
  constructor
  · intro h; rw [h]
  · intro h
    exact flatten_inj2 (groups_chain hs h2 ho hce hsz gA hA) (groups_chain hs h2 ho hce hsz gB hB) h

end nocase

end AslProofs.Utf
