import AslModel.Var
/-!
# Specification vocabulary and helper lemmas for the `asl::Var` model (`AslModel/Var.lean`) — core Lean only

* `Tree`, `content`: the abstract JSON-like tree a Var denotes in a heap (numbers by value, strings by bytes).
* `WF`: the reference-count invariant of a heap with respect to a list of root values.
-/
namespace AslModel.Var

/-- abstract content of a Var: a JSON-like tree; numbers by value, strings by bytes -/
inductive Tree
  | none | null
  | bool (b : Bool)
  | num (d : Dy)
  | str (s : Bytes)
  | arr (l : List Tree)
  | obj (l : List (Bytes × Tree))

def mapO {α β : Type} : List α → (α → Option β) → Option (List β)
  | [], _ => some []
  | x :: xs, g =>
    match g x with
    | none => none
    | some y => match mapO xs g with
      | none => none
      | some ys => some (y :: ys)

/-- the tree a value denotes in a heap (`none`: dangling handle or nesting deeper than `fuel`) -/
def content : Nat → Heap → V → Option Tree
  | 0, _, _ => none
  | f + 1, h, v =>
    match v with
    | .none => some .none
    | .null => some .null
    | .bool b => some (.bool b)
    | .int i => some (.num (Dy.ofInt i))
    | .num d => some (.num d)
    | .flt d => some (.num d)
    | .sstr s => some (.str s)
    | .str s => some (.str s)
    | .arr id =>
      match getB h id with
      | .ok b => (mapO b.items (fun kv => content f h kv.2)).map Tree.arr
      | .error _ => none
    | .obj id =>
      match getB h id with
      | .ok b => (mapO b.items (fun kv => (content f h kv.2).map (fun t => (kv.1, t)))).map Tree.obj
      | .error _ => none

theorem mapO_length {α β : Type} (g : α → Option β) : ∀ (xs : List α) (ys : List β), mapO xs g = some ys → ys.length = xs.length
  | [], ys, h => by simp [mapO] at h; subst h; rfl
  | x :: xs, ys, h => by
    simp only [mapO] at h
    split at h
    · cases h
    · split at h
      · cases h
      · rename_i y _ ys' h2
        cases h
        simp [mapO_length g xs ys' h2]

/-- pairwise comparison of two element lists against the equality of their contents -/
theorem allE_zip_spec {α τ : Type} (c : α → Option τ) (p : α × α → Except Err Bool) :
    ∀ (xs ys : List α) (txs tys : List τ), xs.length = ys.length →
      mapO xs c = some txs → mapO ys c = some tys →
      (∀ x ∈ xs, ∀ y ∈ ys, ∀ tx ty, c x = some tx → c y = some ty → ∃ b, p (x, y) = .ok b ∧ (b = true ↔ tx = ty)) →
      ∃ b, allE (xs.zip ys) p = .ok b ∧ (b = true ↔ txs = tys)
  | [], [], txs, tys, _, h1, h2, _ => by
    simp [mapO] at h1 h2; subst h1; subst h2
    exact ⟨true, by simp [allE], by simp⟩
  | [], _ :: _, _, _, hl, _, _, _ => by simp at hl
  | _ :: _, [], _, _, hl, _, _, _ => by simp at hl
  | x :: xs, y :: ys, txs, tys, hl, h1, h2, hp => by
    simp only [mapO] at h1 h2
    split at h1
    · cases h1
    rename_i tx hx
    split at h1
    · cases h1
    rename_i txs' hxs
    cases h1
    split at h2
    · cases h2
    rename_i ty hy
    split at h2
    · cases h2
    rename_i tys' hys
    cases h2
    obtain ⟨b, hb, hbiff⟩ := hp x (by simp) y (by simp) tx ty hx hy
    have ih := allE_zip_spec c p xs ys txs' tys' (by simpa using hl) hxs hys
      (fun x' hx' y' hy' => hp x' (by simp [hx']) y' (by simp [hy']))
    obtain ⟨b', hb', hb'iff⟩ := ih
    simp only [List.zip_cons_cons, allE, hb]
    cases b with
    | false =>
      refine ⟨false, rfl, ?_⟩
      constructor
      · intro h; cases h
      · intro h; injection h with h1 h2; exact absurd (hbiff.mpr h1) (by simp)
    | true =>
      refine ⟨b', hb', ?_⟩
      have htx : tx = ty := hbiff.mp rfl
      subst htx
      constructor
      · intro h; rw [hb'iff.mp h]
      · intro h; injection h with _ h2; exact hb'iff.mpr h2


theorem content_arr_inv {f : Nat} {h : Heap} {id : Nat} {t : Tree} (hc : content (f + 1) h (.arr id) = some t) :
    ∃ b l, getB h id = .ok b ∧ mapO b.items (fun kv => content f h kv.2) = some l ∧ t = Tree.arr l := by
  simp only [content] at hc
  split at hc
  · rename_i b hb
    cases hm : mapO b.items (fun kv => content f h kv.2) with
    | none => simp [hm] at hc
    | some l => simp [hm] at hc; exact ⟨b, l, hb, hm, hc.symm⟩
  · cases hc

theorem content_obj_inv {f : Nat} {h : Heap} {id : Nat} {t : Tree} (hc : content (f + 1) h (.obj id) = some t) :
    ∃ b l, getB h id = .ok b ∧
      mapO b.items (fun kv => (content f h kv.2).map (fun t => (kv.1, t))) = some l ∧ t = Tree.obj l := by
  simp only [content] at hc
  split at hc
  · rename_i b hb
    cases hm : mapO b.items (fun kv => (content f h kv.2).map (fun t => (kv.1, t))) with
    | none => simp [hm] at hc
    | some l => simp [hm] at hc; exact ⟨b, l, hb, hm, hc.symm⟩
  · cases hc

/-- a scalar Var denotes a scalar tree -/
theorem content_scalar {f : Nat} {h : Heap} {v : V} {t : Tree} (hv : handleOf v = none) (hc : content (f + 1) h v = some t) :
    (∀ l, t ≠ Tree.arr l) ∧ (∀ l, t ≠ Tree.obj l) := by
  cases v <;> simp [handleOf] at hv <;> simp only [content] at hc <;> cases hc <;> simp

theorem eq_iff_content_aux : ∀ (f : Nat) (h : Heap) (v w : V) (tv tw : Tree),
    content f h v = some tv → content f h w = some tw →
    ∃ b, eqV f h v w = .ok b ∧ (b = true ↔ tv = tw) := by
  intro f
  induction f with
  | zero => intro h v w tv tw hv; simp [content] at hv
  | succ f ih =>
    intro h v w tv tw hv hw
    by_cases hcv : handleOf v = none
    · by_cases hcw : handleOf w = none
      · -- two scalars
        cases v <;> simp [handleOf] at hcv <;> cases w <;> simp [handleOf] at hcw <;>
          simp only [content, eqV, numOf] at hv hw ⊢ <;> cases hv <;> cases hw <;> simp [Dy.ofInt] <;> (try exact eq_comm)
      · -- scalar against container: unequal
        have hs := content_scalar hcv hv
        cases w <;> simp [handleOf] at hcw
        · obtain ⟨b, l, _, _, rfl⟩ := content_arr_inv hw
          refine ⟨false, ?_, by simp [hs.1 l]⟩
          cases v <;> simp [handleOf] at hcv <;> simp [eqV, numOf]
        · obtain ⟨b, l, _, _, rfl⟩ := content_obj_inv hw
          refine ⟨false, ?_, by simp [hs.2 l]⟩
          cases v <;> simp [handleOf] at hcv <;> simp [eqV, numOf]
    · cases v <;> simp [handleOf] at hcv
      · -- v is an array
        rename_i a
        obtain ⟨ba, la, hba, hla, rfl⟩ := content_arr_inv hv
        by_cases hcw : handleOf w = none
        · have hs := content_scalar hcw hw
          refine ⟨false, ?_, by simp; exact fun e => (hs.1 la) e.symm⟩
          cases w <;> simp [handleOf] at hcw <;> simp [eqV]
        · cases w <;> simp [handleOf] at hcw
          · rename_i b
            obtain ⟨bb, lb, hbb, hlb, rfl⟩ := content_arr_inv hw
            simp only [eqV, hba, hbb]
            by_cases hlen : ba.items.length = bb.items.length
            · simp only [hlen, ne_eq, not_true_eq_false, if_false]
              obtain ⟨r, hr, hriff⟩ := allE_zip_spec (fun kv => content f h kv.2) (fun p => eqV f h p.1.2 p.2.2)
                bb.items ba.items lb la hlen.symm hlb hla
                (fun x _ y _ tx ty hx hy => ih h x.2 y.2 tx ty hx hy)
              refine ⟨r, hr, ?_⟩
              rw [hriff]
              constructor
              · intro e; rw [e]
              · intro e; injection e with e; exact e.symm
            · simp only [ne_eq, hlen, not_false_eq_true, if_true]
              refine ⟨false, rfl, ?_⟩
              simp
              intro e
              have h1 := mapO_length _ _ _ hla
              have h2 := mapO_length _ _ _ hlb
              rw [e] at h1; omega
          · obtain ⟨bb, lb, hbb, hlb, rfl⟩ := content_obj_inv hw
            exact ⟨false, by simp [eqV], by simp⟩
      · -- v is an object
        rename_i a
        obtain ⟨ba, la, hba, hla, rfl⟩ := content_obj_inv hv
        by_cases hcw : handleOf w = none
        · have hs := content_scalar hcw hw
          refine ⟨false, ?_, by simp; exact fun e => (hs.2 la) e.symm⟩
          cases w <;> simp [handleOf] at hcw <;> simp [eqV]
        · cases w <;> simp [handleOf] at hcw
          · obtain ⟨bb, lb, hbb, hlb, rfl⟩ := content_arr_inv hw
            exact ⟨false, by simp [eqV], by simp⟩
          · rename_i b
            obtain ⟨bb, lb, hbb, hlb, rfl⟩ := content_obj_inv hw
            simp only [eqV, hba, hbb]
            by_cases hlen : ba.items.length = bb.items.length
            · simp only [hlen, ne_eq, not_true_eq_false, if_false]
              obtain ⟨r, hr, hriff⟩ := allE_zip_spec (α := Bytes × V) (τ := Bytes × Tree)
                (fun kv => (content f h kv.2).map (fun t => (kv.1, t)))
                (fun p => if p.1.1 ≠ p.2.1 then Except.ok false else eqV f h p.1.2 p.2.2)
                ba.items bb.items la lb hlen hla hlb
                (fun x _ y _ tx ty hx hy => by
                  cases hcx : content f h x.2 with
                  | none => simp [hcx] at hx
                  | some cx =>
                    cases hcy : content f h y.2 with
                    | none => simp [hcy] at hy
                    | some cy =>
                      simp [hcx] at hx; simp [hcy] at hy
                      subst hx; subst hy
                      by_cases hk : x.1 = y.1
                      · obtain ⟨r, hr, hriff⟩ := ih h x.2 y.2 cx cy hcx hcy
                        refine ⟨r, by simp [hk, hr], ?_⟩
                        rw [hriff]; simp [hk]
                      · exact ⟨false, by simp [hk], by simp [hk]⟩)
              refine ⟨r, hr, ?_⟩
              rw [hriff]
              constructor
              · intro e; rw [e]
              · intro e; injection e
            · simp only [ne_eq, hlen, not_false_eq_true, if_true]
              refine ⟨false, rfl, ?_⟩
              simp
              intro e
              have h1 := mapO_length _ _ _ hla
              have h2 := mapO_length _ _ _ hlb
              rw [e] at h1; omega

end AslModel.Var
