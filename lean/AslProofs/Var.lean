import AslModel.Var
import AslProofs.Map
/-!
# Specification vocabulary and helper lemmas for the `asl::Var` model (`AslModel/Var.lean`) — core Lean only

* `Tree`, `content`: the abstract JSON-like tree a Var denotes in a heap (numbers by value, strings by bytes).
* `WF`: the reference-count invariant of a heap with respect to a list of root values.
-/
namespace AslModel.Var

/-- abstract content of a Var: a JSON-like tree; numbers by value, strings by bytes -/
inductive Tree
  | none | null
  | bool (b : Bool)
  | num (d : Dy)
  | str (s : Bytes)
  | arr (l : List Tree)
  | obj (l : List (Bytes × Tree))

def mapO {α β : Type} : List α → (α → Option β) → Option (List β)
  | [], _ => some []
  | x :: xs, g =>
    match g x with
    | none => none
    | some y => match mapO xs g with
      | none => none
      | some ys => some (y :: ys)

/-- the tree a value denotes in a heap (`none`: dangling handle or nesting deeper than `fuel`) -/
def content : Nat → Heap → V → Option Tree
  | 0, _, _ => none
  | f + 1, h, v =>
    match v with
    | .none => some .none
    | .null => some .null
    | .bool b => some (.bool b)
    | .int i => some (.num (Dy.ofInt i))
    | .num d => some (.num d)
    | .flt d => some (.num d)
    | .sstr s => some (.str s)
    | .str s => some (.str s)
    | .arr id =>
      match getB h id with
      | .ok b => (mapO b.items (fun kv => content f h kv.2)).map Tree.arr
      | .error _ => none
    | .obj id =>
      match getB h id with
      | .ok b => (mapO b.items (fun kv => (content f h kv.2).map (fun t => (kv.1, t)))).map Tree.obj
      | .error _ => none

theorem mapO_length {α β : Type} (g : α → Option β) : ∀ (xs : List α) (ys : List β), mapO xs g = some ys → ys.length = xs.length
  | [], ys, h => by simp [mapO] at h; subst h; rfl
  | x :: xs, ys, h => by
    simp only [mapO] at h
    split at h
    · cases h
    · split at h
      · cases h
      · rename_i y _ ys' h2
        cases h
        simp [mapO_length g xs ys' h2]

/-- pairwise comparison of two element lists against the equality of their contents -/
theorem allE_zip_spec {α τ : Type} (c : α → Option τ) (p : α × α → Except Err Bool) :
    ∀ (xs ys : List α) (txs tys : List τ), xs.length = ys.length →
      mapO xs c = some txs → mapO ys c = some tys →
      (∀ x ∈ xs, ∀ y ∈ ys, ∀ tx ty, c x = some tx → c y = some ty → ∃ b, p (x, y) = .ok b ∧ (b = true ↔ tx = ty)) →
      ∃ b, allE (xs.zip ys) p = .ok b ∧ (b = true ↔ txs = tys)
  | [], [], txs, tys, _, h1, h2, _ => by
    simp [mapO] at h1 h2; subst h1; subst h2
    exact ⟨true, by simp [allE], by simp⟩
  | [], _ :: _, _, _, hl, _, _, _ => by simp at hl
  | _ :: _, [], _, _, hl, _, _, _ => by simp at hl
  | x :: xs, y :: ys, txs, tys, hl, h1, h2, hp => by
    simp only [mapO] at h1 h2
    split at h1
    · cases h1
    rename_i tx hx
    split at h1
    · cases h1
    rename_i txs' hxs
    cases h1
    split at h2
    · cases h2
    rename_i ty hy
    split at h2
    · cases h2
    rename_i tys' hys
    cases h2
    obtain ⟨b, hb, hbiff⟩ := hp x (by simp) y (by simp) tx ty hx hy
    have ih := allE_zip_spec c p xs ys txs' tys' (by simpa using hl) hxs hys
      (fun x' hx' y' hy' => hp x' (by simp [hx']) y' (by simp [hy']))
    obtain ⟨b', hb', hb'iff⟩ := ih
    simp only [List.zip_cons_cons, allE, hb]
    cases b with
    | false =>
      refine ⟨false, rfl, ?_⟩
      constructor
      · intro h; cases h
      · intro h; injection h with h1 h2; exact absurd (hbiff.mpr h1) (by simp)
    | true =>
      refine ⟨b', hb', ?_⟩
      have htx : tx = ty := hbiff.mp rfl
      subst htx
      constructor
      · intro h; rw [hb'iff.mp h]
      · intro h; injection h with _ h2; exact hb'iff.mpr h2


theorem content_arr_inv {f : Nat} {h : Heap} {id : Nat} {t : Tree} (hc : content (f + 1) h (.arr id) = some t) :
    ∃ b l, getB h id = .ok b ∧ mapO b.items (fun kv => content f h kv.2) = some l ∧ t = Tree.arr l := by
  simp only [content] at hc
  split at hc
  · rename_i b hb
    cases hm : mapO b.items (fun kv => content f h kv.2) with
    | none => simp [hm] at hc
    | some l => simp [hm] at hc; exact ⟨b, l, hb, hm, hc.symm⟩
  · cases hc

theorem content_obj_inv {f : Nat} {h : Heap} {id : Nat} {t : Tree} (hc : content (f + 1) h (.obj id) = some t) :
    ∃ b l, getB h id = .ok b ∧
      mapO b.items (fun kv => (content f h kv.2).map (fun t => (kv.1, t))) = some l ∧ t = Tree.obj l := by
  simp only [content] at hc
  split at hc
  · rename_i b hb
    cases hm : mapO b.items (fun kv => (content f h kv.2).map (fun t => (kv.1, t))) with
    | none => simp [hm] at hc
    | some l => simp [hm] at hc; exact ⟨b, l, hb, hm, hc.symm⟩
  · cases hc

/-- a scalar Var denotes a scalar tree -/
theorem content_scalar {f : Nat} {h : Heap} {v : V} {t : Tree} (hv : handleOf v = none) (hc : content (f + 1) h v = some t) :
    (∀ l, t ≠ Tree.arr l) ∧ (∀ l, t ≠ Tree.obj l) := by
  cases v <;> simp [handleOf] at hv <;> simp only [content] at hc <;> cases hc <;> simp

theorem eq_iff_content_aux : ∀ (f : Nat) (h : Heap) (v w : V) (tv tw : Tree),
    content f h v = some tv → content f h w = some tw →
    ∃ b, eqV f h v w = .ok b ∧ (b = true ↔ tv = tw) := by
  intro f
  induction f with
  | zero => intro h v w tv tw hv; simp [content] at hv
  | succ f ih =>
    intro h v w tv tw hv hw
    by_cases hcv : handleOf v = none
    · by_cases hcw : handleOf w = none
      · -- two scalars
        cases v <;> simp [handleOf] at hcv <;> cases w <;> simp [handleOf] at hcw <;>
          simp only [content, eqV, numOf] at hv hw ⊢ <;> cases hv <;> cases hw <;> simp [Dy.ofInt] <;> (try exact eq_comm)
      · -- scalar against container: unequal
        have hs := content_scalar hcv hv
        cases w <;> simp [handleOf] at hcw
        · obtain ⟨b, l, _, _, rfl⟩ := content_arr_inv hw
          refine ⟨false, ?_, by simp [hs.1 l]⟩
          cases v <;> simp [handleOf] at hcv <;> simp [eqV, numOf]
        · obtain ⟨b, l, _, _, rfl⟩ := content_obj_inv hw
          refine ⟨false, ?_, by simp [hs.2 l]⟩
          cases v <;> simp [handleOf] at hcv <;> simp [eqV, numOf]
    · cases v <;> simp [handleOf] at hcv
      · -- v is an array
        rename_i a
        obtain ⟨ba, la, hba, hla, rfl⟩ := content_arr_inv hv
        by_cases hcw : handleOf w = none
        · have hs := content_scalar hcw hw
          refine ⟨false, ?_, by simp; exact fun e => (hs.1 la) e.symm⟩
          cases w <;> simp [handleOf] at hcw <;> simp [eqV]
        · cases w <;> simp [handleOf] at hcw
          · rename_i b
            obtain ⟨bb, lb, hbb, hlb, rfl⟩ := content_arr_inv hw
            simp only [eqV, hba, hbb]
            by_cases hlen : ba.items.length = bb.items.length
            · simp only [hlen, ne_eq, not_true_eq_false, if_false]
              obtain ⟨r, hr, hriff⟩ := allE_zip_spec (fun kv => content f h kv.2) (fun p => eqV f h p.1.2 p.2.2)
                bb.items ba.items lb la hlen.symm hlb hla
                (fun x _ y _ tx ty hx hy => ih h x.2 y.2 tx ty hx hy)
              refine ⟨r, hr, ?_⟩
              rw [hriff]
              constructor
              · intro e; rw [e]
              · intro e; injection e with e; exact e.symm
            · simp only [ne_eq, hlen, not_false_eq_true, if_true]
              refine ⟨false, rfl, ?_⟩
              simp
              intro e
              have h1 := mapO_length _ _ _ hla
              have h2 := mapO_length _ _ _ hlb
              rw [e] at h1; omega
          · obtain ⟨bb, lb, hbb, hlb, rfl⟩ := content_obj_inv hw
            exact ⟨false, by simp [eqV], by simp⟩
      · -- v is an object
        rename_i a
        obtain ⟨ba, la, hba, hla, rfl⟩ := content_obj_inv hv
        by_cases hcw : handleOf w = none
        · have hs := content_scalar hcw hw
          refine ⟨false, ?_, by simp; exact fun e => (hs.2 la) e.symm⟩
          cases w <;> simp [handleOf] at hcw <;> simp [eqV]
        · cases w <;> simp [handleOf] at hcw
          · obtain ⟨bb, lb, hbb, hlb, rfl⟩ := content_arr_inv hw
            exact ⟨false, by simp [eqV], by simp⟩
          · rename_i b
            obtain ⟨bb, lb, hbb, hlb, rfl⟩ := content_obj_inv hw
            simp only [eqV, hba, hbb]
            by_cases hlen : ba.items.length = bb.items.length
            · simp only [hlen, ne_eq, not_true_eq_false, if_false]
              obtain ⟨r, hr, hriff⟩ := allE_zip_spec (α := Bytes × V) (τ := Bytes × Tree)
                (fun kv => (content f h kv.2).map (fun t => (kv.1, t)))
                (fun p => if p.1.1 ≠ p.2.1 then Except.ok false else eqV f h p.1.2 p.2.2)
                ba.items bb.items la lb hlen hla hlb
                (fun x _ y _ tx ty hx hy => by
                  cases hcx : content f h x.2 with
                  | none => simp [hcx] at hx
                  | some cx =>
                    cases hcy : content f h y.2 with
                    | none => simp [hcy] at hy
                    | some cy =>
                      simp [hcx] at hx; simp [hcy] at hy
                      subst hx; subst hy
                      by_cases hk : x.1 = y.1
                      · obtain ⟨r, hr, hriff⟩ := ih h x.2 y.2 cx cy hcx hcy
                        refine ⟨r, by simp [hk, hr], ?_⟩
                        rw [hriff]; simp [hk]
                      · exact ⟨false, by simp [hk], by simp [hk]⟩)
              refine ⟨r, hr, ?_⟩
              rw [hriff]
              constructor
              · intro e; rw [e]
              · intro e; injection e
            · simp only [ne_eq, hlen, not_false_eq_true, if_true]
              refine ⟨false, rfl, ?_⟩
              simp
              intro e
              have h1 := mapO_length _ _ _ hla
              have h2 := mapO_length _ _ _ hlb
              rw [e] at h1; omega



/-! ## counting handle occurrences -/

def occ (id : Nat) (vs : List V) : Nat := vs.countP (fun v => handleOf v == some id)

def bvals (b : Block) : List V := b.items.map (·.2)

def ovals : Option Block → List V
  | some b => bvals b
  | none => []

def hvals (h : Heap) : List V := h.flatMap ovals

theorem occ_nil (id : Nat) : occ id [] = 0 := rfl
theorem occ_cons (id : Nat) (v : V) (vs : List V) :
    occ id (v :: vs) = occ id vs + (if handleOf v = some id then 1 else 0) := by
  simp [occ, List.countP_cons]
theorem occ_append (id : Nat) (a b : List V) : occ id (a ++ b) = occ id a + occ id b := by
  simp [occ, List.countP_append]

theorem occ_pos_iff (id : Nat) (vs : List V) : 0 < occ id vs ↔ ∃ v ∈ vs, handleOf v = some id := by
  simp [occ, List.countP_pos_iff]

theorem occ_eq_zero_iff (id : Nat) (vs : List V) : occ id vs = 0 ↔ ∀ v ∈ vs, handleOf v ≠ some id := by
  simp [occ, List.countP_eq_zero]

theorem hvals_nil : hvals [] = [] := rfl
theorem hvals_cons (ob : Option Block) (h : Heap) : hvals (ob :: h) = ovals ob ++ hvals h := by
  simp [hvals]
theorem hvals_append (a b : Heap) : hvals (a ++ b) = hvals a ++ hvals b := by
  simp [hvals]

/-- replacing entry `i` of the heap moves the values of the old entry out and those of the new entry in -/
theorem occ_hvals_set (id : Nat) : ∀ (h : Heap) (i : Nat) (ob : Option Block), i < h.length →
    occ id (hvals (h.set i ob)) + occ id (ovals (h[i]?.getD none)) = occ id (hvals h) + occ id (ovals ob)
  | [], i, ob, hi => by simp at hi
  | x :: h, 0, ob, _ => by
    simp [hvals_cons, occ_append]; omega
  | x :: h, i + 1, ob, hi => by
    have := occ_hvals_set id h i ob (by simpa using hi)
    simp [hvals_cons, occ_append] at this ⊢; omega

theorem mem_hvals_set {h : Heap} {i : Nat} {ob : Option Block} {v : V} (hv : v ∈ hvals (h.set i ob)) :
    v ∈ hvals h ∨ v ∈ ovals ob := by
  induction h generalizing i with
  | nil => simp [hvals] at hv
  | cons x h ih =>
    cases i with
    | zero =>
      simp [hvals_cons] at hv ⊢
      rcases hv with hv | hv
      · exact Or.inr hv
      · exact Or.inl (Or.inr hv)
    | succ i =>
      simp [hvals_cons] at hv ⊢
      rcases hv with hv | hv
      · exact Or.inl (Or.inl hv)
      · rcases ih hv with h1 | h1
        · exact Or.inl (Or.inr h1)
        · exact Or.inr h1

theorem mem_hvals_of_getB {h : Heap} {id : Nat} {b : Block} (hb : getB h id = .ok b) {v : V} (hv : v ∈ bvals b) :
    v ∈ hvals h := by
  unfold getB at hb
  split at hb
  · rename_i b' hb'
    cases hb
    simp only [hvals, List.mem_flatMap]
    exact ⟨some b, List.mem_of_getElem? hb', hv⟩
  · cases hb

theorem getB_lt {h : Heap} {id : Nat} {b : Block} (hb : getB h id = .ok b) : id < h.length := by
  unfold getB at hb
  split at hb
  · rename_i b' hb'
    exact (List.getElem?_eq_some_iff.mp hb').1
  · cases hb

theorem getB_eq {h : Heap} {id : Nat} {b : Block} : getB h id = .ok b ↔ h[id]? = some (some b) := by
  unfold getB
  constructor
  · intro hb
    split at hb
    · rename_i b' hb'; cases hb; exact hb'
    · cases hb
  · intro hb; simp [hb]

theorem getB_setB_same {h : Heap} {id : Nat} (b : Block) (hi : id < h.length) : getB (setB h id b) id = .ok b := by
  simp [getB_eq, setB, hi]

theorem getB_set_ne {h : Heap} {id id' : Nat} (ob : Option Block) (hne : id' ≠ id) : getB (h.set id ob) id' = getB h id' := by
  unfold getB
  rw [List.getElem?_set_ne (Ne.symm hne)]

theorem getB_freeB_same {h : Heap} {id : Nat} : ∀ b, getB (freeB h id) id ≠ .ok b := by
  intro b hb
  rw [getB_eq, freeB] at hb
  by_cases hi : id < h.length
  · simp [hi] at hb
  · rw [List.getElem?_eq_none (by simp; omega)] at hb; cases hb

theorem getB_append_left {h : Heap} {id : Nat} (x : Heap) (hi : id < h.length) : getB (h ++ x) id = getB h id := by
  unfold getB; rw [List.getElem?_append_left hi]

theorem getB_alloc_new (h : Heap) (b : Block) : getB (h ++ [some b]) h.length = .ok b := by
  simp [getB_eq]


theorem hvals_set_same : ∀ (h : Heap) (i : Nat) (ob : Option Block), ovals ob = ovals (h[i]?.getD none) →
    hvals (h.set i ob) = hvals h
  | [], _, _, _ => rfl
  | x :: h, 0, ob, e => by simp at e; simp [hvals_cons, e]
  | x :: h, i + 1, ob, e => by
    simp at e
    simp [hvals_cons, hvals_set_same h i ob (by simpa using e)]

theorem hvals_setB_rc {h : Heap} {id : Nat} {b : Block} (hb : getB h id = .ok b) (r : Nat) :
    hvals (setB h id { b with rc := r }) = hvals h := by
  apply hvals_set_same
  rw [getB_eq] at hb
  simp [hb, ovals, bvals]

/-! ## the reference-count invariant -/

def isObjV : V → Bool
  | .obj _ => true
  | _ => false

/-- `R` = the values held outside the heap (root variables and the temporaries of the running operation) -/
structure WF (h : Heap) (R : List V) : Prop where
  /-- every handle points to a live block of its kind -/
  live : ∀ v, (v ∈ R ∨ v ∈ hvals h) → ∀ id, handleOf v = some id → ∃ b, getB h id = .ok b ∧ b.isObj = isObjV v
  /-- the count of a live block is the number of handles to it -/
  counted : ∀ id b, getB h id = .ok b → b.rc = occ id R + occ id (hvals h)
  pos : ∀ id b, getB h id = .ok b → 0 < b.rc

/-- `WF` only looks at the roots through membership and counts -/
theorem WF.congr {h : Heap} {R R' : List V} (wf : WF h R) (hm : ∀ v, v ∈ R' → v ∈ R) (hc : ∀ id, occ id R' = occ id R) :
    WF h R' :=
  { live := fun v hv => wf.live v (hv.elim (fun h1 => Or.inl (hm v h1)) Or.inr)
    counted := fun id b hb => by rw [hc]; exact wf.counted id b hb
    pos := wf.pos }

/-- a root that is not a handle can be added or dropped -/
theorem WF.cons_scalar {h : Heap} {R : List V} {v : V} (hv : handleOf v = none) : WF h (v :: R) ↔ WF h R := by
  constructor
  · intro wf
    exact wf.congr (fun x hx => List.mem_cons_of_mem _ hx) (fun id => by simp [occ_cons, hv])
  · intro wf
    refine ⟨fun x hx id hid => ?_, fun id b hb => by simp [occ_cons, hv]; exact wf.counted id b hb, wf.pos⟩
    rcases hx with hx | hx
    · rcases List.mem_cons.mp hx with rfl | hx
      · simp [hv] at hid
      · exact wf.live x (Or.inl hx) id hid
    · exact wf.live x (Or.inr hx) id hid

/-- heaps that differ only in reference counts -/
def eraseRc (b : Block) : Block := { b with rc := 0 }
def SameItems (h h' : Heap) : Prop := h.map (Option.map eraseRc) = h'.map (Option.map eraseRc)

theorem SameItems.refl (h : Heap) : SameItems h h := rfl
theorem SameItems.trans {a b c : Heap} (h1 : SameItems a b) (h2 : SameItems b c) : SameItems a c := Eq.trans h1 h2
theorem SameItems.length {h h' : Heap} (e : SameItems h h') : h.length = h'.length := by
  have := congrArg List.length e; simpa using this

theorem SameItems.get {h h' : Heap} (e : SameItems h h') {id : Nat} {b : Block} (hb : Var.getB h id = .ok b) :
    ∃ b', Var.getB h' id = .ok b' ∧ b'.items = b.items ∧ b'.isObj = b.isObj ∧ b'.cap = b.cap := by
  rw [getB_eq] at hb
  have := congrArg (fun l => l[id]?) e
  simp [hb] at this
  cases hx : h'[id]? with
  | none => simp [hx] at this
  | some ob =>
    cases ob with
    | none => simp [hx] at this
    | some b' =>
      simp [hx, eraseRc] at this
      refine ⟨b', getB_eq.mpr hx, ?_⟩
      cases b; cases b'; simp_all

theorem SameItems.setRc {h : Heap} {id : Nat} {b : Block} (hb : Var.getB h id = .ok b) (r : Nat) :
    SameItems h (Var.setB h id { b with rc := r }) := by
  rw [getB_eq] at hb
  unfold SameItems Var.setB
  rw [List.map_set]
  apply List.ext_getElem?
  intro i
  by_cases hi : i = id
  · subst hi
    obtain ⟨hlt, hget⟩ := List.getElem?_eq_some_iff.mp hb
    simp [hlt, hget, eraseRc]
  · simp [List.getElem?_set_ne (Ne.symm hi)]

/-- `Var(const Var&)` of a value that is held somewhere: succeeds, and the copy is one more root -/
theorem WF.copyV {h : Heap} {R : List V} {v : V} (wf : WF h R) (hv : v ∈ R ∨ v ∈ hvals h) :
    ∃ h', copyV h v = .ok h' ∧ WF h' (v :: R) ∧ SameItems h h' := by
  unfold Var.copyV
  cases hh : handleOf v with
  | none => exact ⟨h, rfl, (WF.cons_scalar hh).mpr wf, SameItems.refl h⟩
  | some id =>
    obtain ⟨b, hb, hk⟩ := wf.live v hv id hh
    simp only [hb]
    refine ⟨_, rfl, ?_, SameItems.setRc hb _⟩
    have hlt := getB_lt hb
    have hvals_eq := hvals_setB_rc hb (b.rc + 1)
    refine ⟨?_, ?_, ?_⟩
    · intro x hx id' hid'
      rw [hvals_eq] at hx
      have hx' : x ∈ R ∨ x ∈ hvals h := by
        rcases hx with hx | hx
        · rcases List.mem_cons.mp hx with rfl | hx
          · exact hv
          · exact Or.inl hx
        · exact Or.inr hx
      obtain ⟨b', hb', hk'⟩ := wf.live x hx' id' hid'
      by_cases he : id' = id
      · subst he
        rw [hb] at hb'; cases hb'
        exact ⟨_, getB_setB_same _ hlt, hk'⟩
      · exact ⟨b', by rw [setB, getB_set_ne _ he]; exact hb', hk'⟩
    · intro id' b' hb'
      rw [hvals_eq, occ_cons]
      by_cases he : id' = id
      · subst he
        rw [getB_setB_same _ hlt] at hb'; cases hb'
        simp [hh]
        have := wf.counted id' b hb
        omega
      · rw [setB, getB_set_ne _ he] at hb'
        have := wf.counted id' b' hb'
        have hne : ¬ handleOf v = some id' := by rw [hh]; intro e; cases e; exact he rfl
        simp [hne]; exact this
    · intro id' b' hb'
      by_cases he : id' = id
      · subst he
        rw [getB_setB_same _ hlt] at hb'; cases hb'
        simp
      · rw [setB, getB_set_ne _ he] at hb'
        exact wf.pos id' b' hb'


/-! ## destruction -/

def osize : Option Block → Nat
  | some b => b.items.length + 1
  | none => 0

theorem heapSize_eq (h : Heap) : heapSize h = (h.map osize).sum := by
  unfold heapSize
  congr 1

theorem heapSize_set : ∀ (h : Heap) (i : Nat) (ob : Option Block), i < h.length →
    heapSize (h.set i ob) + osize (h[i]?.getD none) = heapSize h + osize ob
  | [], i, ob, hi => by simp at hi
  | x :: h, 0, ob, _ => by simp [heapSize_eq]; omega
  | x :: h, i + 1, ob, hi => by
    have := heapSize_set h i ob (by simpa using hi)
    simp [heapSize_eq] at this ⊢; omega

/-- `h'` is `h` with some blocks released and some reference counts changed -/
def SubItems (h h' : Heap) : Prop :=
  h'.length = h.length ∧
  ∀ id b', getB h' id = .ok b' → ∃ b, getB h id = .ok b ∧ b'.items = b.items ∧ b'.isObj = b.isObj ∧ b'.cap = b.cap

theorem SubItems.refl (h : Heap) : SubItems h h := ⟨rfl, fun _ b' hb => ⟨b', hb, rfl, rfl, rfl⟩⟩
theorem SubItems.trans {a b c : Heap} (h1 : SubItems a b) (h2 : SubItems b c) : SubItems a c :=
  ⟨h2.1.trans h1.1, fun id b' hb => by
    obtain ⟨b1, hb1, e1, e2, e3⟩ := h2.2 id b' hb
    obtain ⟨b0, hb0, f1, f2, f3⟩ := h1.2 id b1 hb1
    exact ⟨b0, hb0, e1.trans f1, e2.trans f2, e3.trans f3⟩⟩

theorem SubItems.of_same {h h' : Heap} (e : SameItems h h') : SubItems h h' :=
  ⟨e.length.symm, fun id b' hb => by
    have e' : SameItems h' h := Eq.symm e
    obtain ⟨b, hb2, e1, e2, e3⟩ := e'.get hb
    exact ⟨b, hb2, e1.symm, e2.symm, e3.symm⟩⟩

theorem SubItems.freeB {h : Heap} (id : Nat) : SubItems h (freeB h id) :=
  ⟨by simp [Var.freeB], fun id' b' hb => by
    by_cases he : id' = id
    · subst he; exact absurd hb (getB_freeB_same b')
    · rw [Var.freeB, getB_set_ne _ he] at hb; exact ⟨b', hb, rfl, rfl, rfl⟩⟩

/-- destroying owned values: never touches a released block, and leaves a well-counted heap -/
theorem WF.release {R : List V} : ∀ (fuel : Nat) (h : Heap) (wl : List V), WF h (wl ++ R) → heapSize h + wl.length < fuel →
    ∃ h', release fuel h wl = .ok h' ∧ WF h' R ∧ SubItems h h' := by
  intro fuel
  induction fuel with
  | zero => intro h wl _ hf; omega
  | succ f ih =>
    intro h wl wf hf
    cases wl with
    | nil => exact ⟨h, rfl, by simpa using wf, SubItems.refl h⟩
    | cons v rest =>
      simp only [Var.release]
      cases hh : handleOf v with
      | none =>
        exact ih h rest ((WF.cons_scalar hh).mp (by simpa using wf)) (by simp at hf; omega)
      | some id =>
        obtain ⟨b, hb, _⟩ := wf.live v (Or.inl (by simp)) id hh
        simp only [hb]
        have hpos := wf.pos id b hb
        have hcnt := wf.counted id b hb
        have hlt := getB_lt hb
        have hbe := getB_eq.mp hb
        simp only [List.cons_append, occ_cons, hh, if_true] at hcnt
        by_cases h0 : b.rc = 0
        · omega
        simp only [h0, if_false]
        by_cases h1 : b.rc = 1
        · -- the last reference: the block is released, its elements are destroyed next
          simp only [h1, if_true]
          have hz1 : occ id (rest ++ R) = 0 := by omega
          have hz2 : occ id (hvals h) = 0 := by omega
          have hset := fun x => occ_hvals_set x h id none hlt
          simp only [hbe, Option.getD_some, ovals, occ_nil] at hset
          have wf1 : WF (freeB h id) ((b.items.map (·.2) ++ rest) ++ R) := by
            refine ⟨?_, ?_, ?_⟩
            · intro x hx id' hid'
              have hx' : (x ∈ rest ++ R ∨ x ∈ hvals h) := by
                rcases hx with hx | hx
                · simp only [List.append_assoc, List.mem_append] at hx
                  rcases hx with hx | hx | hx
                  · exact Or.inr (mem_hvals_of_getB hb hx)
                  · exact Or.inl (by simp [hx])
                  · exact Or.inl (by simp [hx])
                · rcases mem_hvals_set hx with h2 | h2
                  · exact Or.inr h2
                  · simp [ovals] at h2
              have hne : id' ≠ id := by
                intro e; subst e
                rcases hx' with hx' | hx'
                · exact (occ_eq_zero_iff _ _).mp hz1 x hx' hid'
                · exact (occ_eq_zero_iff _ _).mp hz2 x hx' hid'
              obtain ⟨b', hb', hk'⟩ := wf.live x (hx'.elim (fun h3 => Or.inl (by
                simp only [List.cons_append, List.mem_cons]; exact Or.inr h3)) Or.inr) id' hid'
              exact ⟨b', by rw [Var.freeB, getB_set_ne _ hne]; exact hb', hk'⟩
            · intro id' b' hb'
              have hne : id' ≠ id := by
                intro e; subst e; exact getB_freeB_same b' hb'
              rw [Var.freeB, getB_set_ne _ hne] at hb'
              have hc := wf.counted id' b' hb'
              have hs := hset id'
              have hvne : ¬ handleOf v = some id' := by rw [hh]; intro e; cases e; exact hne rfl
              simp only [List.cons_append, occ_cons, hvne, if_false] at hc
              simp only [List.append_assoc, occ_append] at hc ⊢
              simp only [bvals] at hs
              unfold Var.freeB
              omega
            · intro id' b' hb'
              have hne : id' ≠ id := by
                intro e; subst e; exact getB_freeB_same b' hb'
              rw [Var.freeB, getB_set_ne _ hne] at hb'
              exact wf.pos id' b' hb'
          have hsz := heapSize_set h id none hlt
          simp only [hbe, Option.getD_some, osize] at hsz
          obtain ⟨h', hr, wf', sub⟩ := ih (freeB h id) (b.items.map (·.2) ++ rest) wf1 (by
            unfold Var.freeB; simp at hf ⊢; omega)
          exact ⟨h', hr, wf', (SubItems.freeB id).trans sub⟩
        · -- other references remain
          simp only [h1, if_false]
          have hvals_eq := hvals_setB_rc hb (b.rc - 1)
          have wf1 : WF (setB h id { b with rc := b.rc - 1 }) (rest ++ R) := by
            refine ⟨?_, ?_, ?_⟩
            · intro x hx id' hid'
              rw [hvals_eq] at hx
              obtain ⟨b', hb', hk'⟩ := wf.live x (hx.elim (fun h3 => Or.inl (by
                simp only [List.cons_append, List.mem_cons]; exact Or.inr h3)) Or.inr) id' hid'
              by_cases he : id' = id
              · subst he
                rw [hb] at hb'; cases hb'
                exact ⟨_, getB_setB_same _ hlt, hk'⟩
              · exact ⟨b', by rw [Var.setB, getB_set_ne _ he]; exact hb', hk'⟩
            · intro id' b' hb'
              rw [hvals_eq]
              by_cases he : id' = id
              · subst he
                rw [getB_setB_same _ hlt] at hb'; cases hb'
                simp only []
                omega
              · rw [Var.setB, getB_set_ne _ he] at hb'
                have hc := wf.counted id' b' hb'
                have hvne : ¬ handleOf v = some id' := by rw [hh]; intro e; cases e; exact he rfl
                simp only [List.cons_append, occ_cons, hvne, if_false] at hc
                omega
            · intro id' b' hb'
              by_cases he : id' = id
              · subst he
                rw [getB_setB_same _ hlt] at hb'; cases hb'
                simp only []; omega
              · rw [Var.setB, getB_set_ne _ he] at hb'
                exact wf.pos id' b' hb'
          have hsz := heapSize_set h id (some { b with rc := b.rc - 1 }) hlt
          simp only [hbe, Option.getD_some, osize] at hsz
          obtain ⟨h', hr, wf', sub⟩ := ih _ rest wf1 (by unfold Var.setB; simp at hf ⊢; omega)
          exact ⟨h', hr, wf', (SubItems.of_same (SameItems.setRc hb _)).trans sub⟩

theorem WF.drop {h : Heap} {R wl : List V} (wf : WF h (wl ++ R)) :
    ∃ h', drop h wl = .ok h' ∧ WF h' R ∧ SubItems h h' :=
  WF.release (relFuel h wl) h wl wf (by unfold relFuel; omega)


/-! ## `strcmp` order on keys (for the ascending `KeyVal` arrays of objects) -/
open AslProofs.Map in
theorem cmpB_eq_iff : ∀ a b : List UInt8, Map.cmpBytes a b = .eq ↔ a = b
  | [], [] => by simp [Map.cmpBytes]
  | [], _ :: _ => by simp [Map.cmpBytes]
  | _ :: _, [] => by simp [Map.cmpBytes]
  | a :: s, b :: t => by
    simp only [Map.cmpBytes, List.cons.injEq]
    by_cases h1 : a < b
    · have : a ≠ b := fun e => by subst e; exact absurd h1 (UInt8.lt_irrefl a)
      simp [h1, this]
    · by_cases h2 : a = b
      · simp [h2, cmpB_eq_iff s t]
      · simp [h1, h2]

theorem cmpB_gt_iff : ∀ a b : List UInt8, Map.cmpBytes a b = .gt ↔ Map.cmpBytes b a = .lt
  | [], [] => by simp [Map.cmpBytes]
  | [], _ :: _ => by simp [Map.cmpBytes]
  | _ :: _, [] => by simp [Map.cmpBytes]
  | a :: s, b :: t => by
    simp only [Map.cmpBytes]
    by_cases h1 : a < b
    · have h3 : ¬ b < a := by rw [UInt8.lt_iff_toNat_lt] at *; omega
      have h4 : ¬ b = a := by intro e; subst e; exact absurd h1 (UInt8.lt_irrefl b)
      simp [h1, h3, h4]
    · by_cases h2 : a = b
      · subst h2; simp [h1, cmpB_gt_iff s t]
      · have h3 : b < a := by
          rw [UInt8.lt_iff_toNat_lt] at *
          have : a.toNat ≠ b.toNat := fun e => h2 (UInt8.toNat_inj.mp e)
          omega
        have h4 : ¬ b = a := fun e => h2 e.symm
        simp [h1, h2, h3]

theorem cmpB_trans : ∀ a b c : List UInt8, Map.cmpBytes a b = .lt → Map.cmpBytes b c = .lt → Map.cmpBytes a c = .lt
  | [], [], _ => by simp [Map.cmpBytes]
  | [], _ :: _, [] => by simp [Map.cmpBytes]
  | [], _ :: _, _ :: _ => by simp [Map.cmpBytes]
  | _ :: _, [], _ => by simp [Map.cmpBytes]
  | _ :: _, _ :: _, [] => by simp [Map.cmpBytes]
  | a :: s, b :: t, c :: u => by
    simp only [Map.cmpBytes]
    intro h1 h2
    by_cases ab : a < b
    · by_cases bc : b < c
      · have : a < c := by rw [UInt8.lt_iff_toNat_lt] at *; omega
        simp [this]
      · by_cases e : b = c
        · subst e; simp [ab]
        · simp [bc, e] at h2
    · by_cases e1 : a = b
      · subst e1
        simp only [ab, if_false, if_true] at h1
        by_cases bc : a < c
        · simp [bc]
        · by_cases e : a = c
          · subst e
            simp only [bc, if_false, if_true] at h2 ⊢
            exact cmpB_trans s t u h1 h2
          · simp [bc, e] at h2
      · simp [ab, e1] at h1

theorem cmpB_strict : AslProofs.Map.StrictOrder Map.cmpBytes := ⟨cmpB_eq_iff, cmpB_gt_iff, cmpB_trans⟩

abbrev SortedItems (l : List (Bytes × V)) : Prop := AslProofs.Map.Sorted Map.cmpBytes l

/-! ## the invariant of a state -/

/-- objects keep their `KeyVal` array strictly ascending -/
def SortedHeap (h : Heap) : Prop := ∀ id b, getB h id = .ok b → b.isObj = true → SortedItems b.items

/-- no block holds a handle to itself -/
def NoSelf (h : Heap) : Prop := ∀ id b, getB h id = .ok b → ∀ v ∈ bvals b, handleOf v ≠ some id

/-- `T`: the values owned by the running operation (temporaries) -/
structure Inv (σ : State) (T : List V) : Prop where
  wf : WF σ.heap (σ.slots ++ T)
  sorted : SortedHeap σ.heap
  noself : NoSelf σ.heap

def ValidLoc (σ : State) : Loc → Prop
  | .slot k => k < σ.slots.length
  | .item id i => ∃ b, getB σ.heap id = .ok b ∧ i < b.items.length

/-- a value that some live Var of the state holds (a `const Var&` into the state) -/
def HeldIn (σ : State) (T : List V) (v : V) : Prop := v ∈ σ.slots ++ T ∨ v ∈ hvals σ.heap

theorem readLoc_valid {σ : State} {l : Loc} (hl : ValidLoc σ l) (T : List V) :
    ∃ v, readLoc σ l = .ok v ∧ HeldIn σ T v := by
  cases l with
  | slot k =>
    simp only [ValidLoc] at hl
    refine ⟨σ.slots[k], by simp [readLoc, hl], Or.inl ?_⟩
    exact List.mem_append_left _ (List.getElem_mem hl)
  | item id i =>
    obtain ⟨b, hb, hi⟩ := hl
    refine ⟨b.items[i].2, by simp [readLoc, hb, hi], Or.inr ?_⟩
    exact mem_hvals_of_getB hb (List.mem_map_of_mem (List.getElem_mem hi))


/-! ## writing a Var -/

theorem occ_set (id : Nat) : ∀ (l : List V) (k : Nat) (v : V) (hk : k < l.length),
    occ id (l.set k v) + occ id [l[k]] = occ id l + occ id [v]
  | [], k, v, hk => by simp at hk
  | x :: l, 0, v, _ => by simp [occ_cons, occ_nil]; omega
  | x :: l, k + 1, v, hk => by
    have := occ_set id l k v (by simpa using hk)
    simp [occ_cons, occ_nil] at this ⊢; omega

theorem map_snd_setValAt : ∀ (l : List (Bytes × V)) (i : Nat) (v : V),
    (Map.setValAt l i v).map (·.2) = (l.map (·.2)).set i v
  | [], _, _ => by simp [Map.setValAt]
  | (k, x) :: t, 0, v => by simp [Map.setValAt]
  | kv :: t, i + 1, v => by simp [Map.setValAt, map_snd_setValAt t i v]

/-- heaps/states with the same blocks alive and the same shapes (lengths, kinds, keys, counts) -/
def SameDom (σ σ' : State) : Prop :=
  σ'.slots.length = σ.slots.length ∧ σ'.heap.length = σ.heap.length ∧
  ∀ id b, getB σ.heap id = .ok b → ∃ b', getB σ'.heap id = .ok b' ∧ b'.items.length = b.items.length ∧
    b'.isObj = b.isObj ∧ b'.cap = b.cap

theorem SameDom.validLoc {σ σ' : State} (d : SameDom σ σ') {l : Loc} (hl : ValidLoc σ l) : ValidLoc σ' l := by
  cases l with
  | slot k => simp only [ValidLoc] at hl ⊢; rw [d.1]; exact hl
  | item id i =>
    obtain ⟨b, hb, hi⟩ := hl
    obtain ⟨b', hb', hlen, _⟩ := d.2.2 id b hb
    exact ⟨b', hb', by omega⟩

theorem Inv.writeLoc {σ : State} {T : List V} {v : V} {l : Loc} (inv : Inv σ (v :: T)) (hl : ValidLoc σ l)
    (hself : ∀ id, parentOf l = some id → handleOf v ≠ some id) :
    ∃ σ' old, readLoc σ l = .ok old ∧ Var.writeLoc σ l v = .ok σ' ∧ Inv σ' (old :: T) ∧ SameDom σ σ' ∧
      readLoc σ' l = .ok v := by
  cases l with
  | slot k =>
    simp only [ValidLoc] at hl
    refine ⟨{ σ with slots := σ.slots.set k v }, σ.slots[k], by simp [readLoc, hl], by simp [Var.writeLoc, hl], ?_, ?_, ?_⟩
    · refine ⟨?_, inv.sorted, inv.noself⟩
      apply inv.wf.congr
      · intro x hx
        simp only [List.mem_append, List.mem_cons] at hx ⊢
        rcases hx with hx | rfl | hx
        · rcases List.mem_or_eq_of_mem_set hx with h1 | rfl
          · exact Or.inl h1
          · exact Or.inr (Or.inl rfl)
        · exact Or.inl (List.getElem_mem hl)
        · exact Or.inr (Or.inr hx)
      · intro id
        have := occ_set id σ.slots k v hl
        simp only [occ_append, occ_cons, occ_nil] at this ⊢
        omega
    · exact ⟨by simp, rfl, fun id b hb => ⟨b, hb, rfl, rfl, rfl⟩⟩
    · simp [readLoc, hl]
  | item id i =>
    obtain ⟨b, hb, hi⟩ := hl
    have hlt := getB_lt hb
    have hbe := getB_eq.mp hb
    let b' : Block := { b with items := Map.setValAt b.items i v }
    have hbv : bvals b' = (bvals b).set i v := by simp [bvals, b', map_snd_setValAt]
    have hold : (bvals b)[i]'(by simp [bvals, hi]) = b.items[i].2 := by simp [bvals]
    have hcset := fun x => occ_set x (bvals b) i v (by simp [bvals, hi])
    have hhset := fun x => occ_hvals_set x σ.heap id (some b') hlt
    simp only [hbe, Option.getD_some, ovals, hbv] at hhset
    refine ⟨{ σ with heap := setB σ.heap id b' }, b.items[i].2, by simp [readLoc, hb, hi],
      by simp [Var.writeLoc, hb, hi, b'], ?_, ?_, ?_⟩
    · refine ⟨⟨?_, ?_, ?_⟩, ?_, ?_⟩
      · intro x hx id' hid'
        have hx' : x ∈ σ.slots ++ v :: T ∨ x ∈ hvals σ.heap := by
          rcases hx with hx | hx
          · simp only [List.mem_append, List.mem_cons] at hx ⊢
            rcases hx with hx | rfl | hx
            · exact Or.inl (Or.inl hx)
            · exact Or.inr (mem_hvals_of_getB hb (List.mem_map_of_mem (List.getElem_mem hi)))
            · exact Or.inl (Or.inr (Or.inr hx))
          · rcases mem_hvals_set hx with h1 | h1
            · exact Or.inr h1
            · simp only [ovals, hbv] at h1
              rcases List.mem_or_eq_of_mem_set h1 with h2 | rfl
              · exact Or.inr (mem_hvals_of_getB hb h2)
              · exact Or.inl (by simp)
        obtain ⟨b2, hb2, hk2⟩ := inv.wf.live x hx' id' hid'
        by_cases he : id' = id
        · subst he
          rw [hb] at hb2; cases hb2
          exact ⟨b', getB_setB_same _ hlt, hk2⟩
        · exact ⟨b2, by rw [setB, getB_set_ne _ he]; exact hb2, hk2⟩
      · intro id' b2 hb2
        have h1 := hcset id'
        have h2 := hhset id'
        simp only [hold] at h1
        by_cases he : id' = id
        · subst he
          rw [getB_setB_same _ hlt] at hb2; cases hb2
          have hc := inv.wf.counted id' b hb
          simp only [occ_append, occ_cons, occ_nil] at hc h1 h2 ⊢
          show b.rc = _
          unfold setB
          omega
        · rw [setB, getB_set_ne _ he] at hb2
          have hc := inv.wf.counted id' b2 hb2
          simp only [occ_append, occ_cons, occ_nil] at hc h1 h2 ⊢
          unfold setB
          omega
      · intro id' b2 hb2
        by_cases he : id' = id
        · subst he
          rw [getB_setB_same _ hlt] at hb2; cases hb2
          exact inv.wf.pos id' b hb
        · rw [setB, getB_set_ne _ he] at hb2
          exact inv.wf.pos id' b2 hb2
      · intro id' b2 hb2 ho
        by_cases he : id' = id
        · subst he
          rw [getB_setB_same _ hlt] at hb2; cases hb2
          exact AslProofs.Map.setValAt_sorted (inv.sorted id' b hb ho) i v
        · rw [setB, getB_set_ne _ he] at hb2
          exact inv.sorted id' b2 hb2 ho
      · intro id' b2 hb2 x hx
        by_cases he : id' = id
        · subst he
          rw [getB_setB_same _ hlt] at hb2; cases hb2
          rw [hbv] at hx
          rcases List.mem_or_eq_of_mem_set hx with h2 | rfl
          · exact inv.noself id' b hb x h2
          · exact hself id' rfl
        · rw [setB, getB_set_ne _ he] at hb2
          exact inv.noself id' b2 hb2 x hx
    · refine ⟨rfl, by simp [setB], fun id' b2 hb2 => ?_⟩
      by_cases he : id' = id
      · subst he
        rw [hb] at hb2; cases hb2
        exact ⟨b', getB_setB_same _ hlt, by simp [b', AslProofs.Map.setValAt_length], rfl, rfl⟩
      · exact ⟨b2, by rw [setB, getB_set_ne _ he]; exact hb2, rfl, rfl, rfl⟩
    · have hi' : i < (Map.setValAt b.items i v).length := by rw [AslProofs.Map.setValAt_length]; exact hi
      have : ((Map.setValAt b.items i v)[i]'hi').2 = v := by
        have := congrArg (fun l => l[i]?) (map_snd_setValAt b.items i v)
        simp [hi, hi'] at this
        exact this
      simp [readLoc, getB_setB_same _ hlt, b', hi', this]


/-! ## the invariant through copy, destruction, assignment -/

theorem SortedHeap.of_sub {h h' : Heap} (sub : SubItems h h') (sh : SortedHeap h) : SortedHeap h' := by
  intro id b' hb' ho
  obtain ⟨b, hb, e1, e2, _⟩ := sub.2 id b' hb'
  rw [e1]; exact sh id b hb (by rw [← e2]; exact ho)

theorem NoSelf.of_sub {h h' : Heap} (sub : SubItems h h') (ns : NoSelf h) : NoSelf h' := by
  intro id b' hb' v hv
  obtain ⟨b, hb, e1, _, _⟩ := sub.2 id b' hb'
  exact ns id b hb v (by simpa [bvals, e1] using hv)

/-- a value that may be the argument of a copy: a scalar, or a handle some Var of the state holds -/
def Held (σ : State) (T : List V) (v : V) : Prop := handleOf v = none ∨ v ∈ σ.slots ++ T ∨ v ∈ hvals σ.heap

theorem Inv.copyV {σ : State} {T : List V} {v : V} (inv : Inv σ T) (hv : Held σ T v) :
    ∃ h', Var.copyV σ.heap v = .ok h' ∧ Inv { σ with heap := h' } (v :: T) ∧ SameItems σ.heap h' := by
  rcases hv with hv | hv
  · refine ⟨σ.heap, by simp [Var.copyV, hv], ⟨?_, inv.sorted, inv.noself⟩, SameItems.refl _⟩
    apply ((WF.cons_scalar (h := σ.heap) (R := σ.slots ++ T) hv).mpr inv.wf).congr
    · intro x hx; simp only [List.mem_append, List.mem_cons] at hx ⊢; rcases hx with h1 | h1 | h1 <;> simp [h1]
    · intro id; simp only [occ_append, occ_cons]; omega
  · obtain ⟨h', hc, wf', same⟩ := inv.wf.copyV hv
    refine ⟨h', hc, ⟨?_, SortedHeap.of_sub (SubItems.of_same same) inv.sorted, NoSelf.of_sub (SubItems.of_same same) inv.noself⟩, same⟩
    apply wf'.congr
    · intro x hx; simp only [List.mem_append, List.mem_cons] at hx ⊢; rcases hx with h1 | h1 | h1 <;> simp [h1]
    · intro id; simp only [occ_append, occ_cons]; omega

theorem Inv.drop {σ : State} {T wl : List V} (inv : Inv σ (wl ++ T)) :
    ∃ h', Var.drop σ.heap wl = .ok h' ∧ Inv { σ with heap := h' } T ∧ SubItems σ.heap h' := by
  have wf0 : WF σ.heap (wl ++ (σ.slots ++ T)) := by
    apply inv.wf.congr
    · intro x hx; simp only [List.mem_append] at hx ⊢; rcases hx with h1 | h1 | h1 <;> simp [h1]
    · intro id; simp only [occ_append]; omega
  obtain ⟨h', hd, wf', sub⟩ := wf0.drop
  exact ⟨h', hd, ⟨wf', SortedHeap.of_sub sub inv.sorted, NoSelf.of_sub sub inv.noself⟩, sub⟩

theorem Inv.perm {σ : State} {T T' : List V} (inv : Inv σ T) (hm : ∀ v, v ∈ T' → v ∈ T) (hc : ∀ id, occ id T' = occ id T) :
    Inv σ T' :=
  ⟨inv.wf.congr (fun x hx => by simp only [List.mem_append] at hx ⊢; rcases hx with h1 | h1; exact Or.inl h1; exact Or.inr (hm x h1))
    (fun id => by simp only [occ_append, hc]), inv.sorted, inv.noself⟩

theorem Inv.scalar {σ : State} {T : List V} {v : V} (hv : handleOf v = none) : Inv σ (v :: T) ↔ Inv σ T := by
  constructor
  · intro inv; exact inv.perm (fun x hx => List.mem_cons_of_mem _ hx) (fun id => by simp [occ_cons, hv])
  · intro inv
    refine ⟨?_, inv.sorted, inv.noself⟩
    have := (WF.cons_scalar (h := σ.heap) (R := σ.slots ++ T) hv).mpr inv.wf
    apply this.congr
    · intro x hx; simp only [List.mem_append, List.mem_cons] at hx ⊢; rcases hx with h1 | h1 | h1 <;> simp [h1]
    · intro id; simp only [occ_append, occ_cons]; omega

/-- `storeV`: write, then release what the Var held -/
theorem Inv.storeV {σ : State} {T : List V} {v : V} {t : Loc} (inv : Inv σ (v :: T)) (hl : ValidLoc σ t)
    (hself : ∀ id, parentOf t = some id → handleOf v ≠ some id) :
    ∃ σ', Var.storeV σ t v = .ok σ' ∧ Inv σ' T ∧ σ'.slots.length = σ.slots.length := by
  obtain ⟨σ1, old, hr, hw, inv1, dom, _⟩ := inv.writeLoc hl hself
  obtain ⟨h', hd, inv2, _⟩ := Inv.drop (σ := σ1) (wl := [old]) (T := T) (by simpa using inv1)
  refine ⟨{ σ1 with heap := h' }, ?_, inv2, dom.1⟩
  simp [Var.storeV, hr, hw, hd]

theorem Inv.assignScalar {σ : State} {T : List V} {v : V} {t : Loc} (inv : Inv σ T) (hl : ValidLoc σ t)
    (hv : handleOf v = none) :
    ∃ σ', Var.assignScalar σ t v = .ok σ' ∧ Inv σ' T ∧ σ'.slots.length = σ.slots.length :=
  Inv.storeV ((Inv.scalar hv).mpr inv) hl (fun _ _ => by simp [hv])

theorem Inv.assignString {σ : State} {T : List V} {s : Bytes} {t : Loc} (inv : Inv σ T) (hl : ValidLoc σ t) :
    ∃ σ', Var.assignString σ t s = .ok σ' ∧ Inv σ' T ∧ σ'.slots.length = σ.slots.length := by
  obtain ⟨old, hr, _⟩ := readLoc_valid hl T
  have inplace : ∀ nv : V, handleOf nv = none → handleOf old = none →
      ∃ σ', Var.writeLoc σ t nv = .ok σ' ∧ Inv σ' T ∧ σ'.slots.length = σ.slots.length := by
    intro nv hnv hold
    obtain ⟨σ1, old', hr', hw, inv1, dom, _⟩ := ((Inv.scalar hnv).mpr inv).writeLoc hl (fun _ _ => by simp [hnv])
    rw [hr] at hr'; cases hr'
    exact ⟨σ1, hw, (Inv.scalar hold).mp inv1, dom.1⟩
  unfold Var.assignString
  rw [hr]
  cases old with
  | str x => exact inplace _ rfl rfl
  | sstr x =>
    simp only []
    split
    · exact inplace _ rfl rfl
    · exact inplace _ rfl rfl
  | none => exact Inv.storeV ((Inv.scalar (by split <;> rfl)).mpr inv) hl (fun _ _ => by split <;> simp [handleOf])
  | null => exact Inv.storeV ((Inv.scalar (by split <;> rfl)).mpr inv) hl (fun _ _ => by split <;> simp [handleOf])
  | bool _ => exact Inv.storeV ((Inv.scalar (by split <;> rfl)).mpr inv) hl (fun _ _ => by split <;> simp [handleOf])
  | int _ => exact Inv.storeV ((Inv.scalar (by split <;> rfl)).mpr inv) hl (fun _ _ => by split <;> simp [handleOf])
  | num _ => exact Inv.storeV ((Inv.scalar (by split <;> rfl)).mpr inv) hl (fun _ _ => by split <;> simp [handleOf])
  | flt _ => exact Inv.storeV ((Inv.scalar (by split <;> rfl)).mpr inv) hl (fun _ _ => by split <;> simp [handleOf])
  | arr _ => exact Inv.storeV ((Inv.scalar (by split <;> rfl)).mpr inv) hl (fun _ _ => by split <;> simp [handleOf])
  | obj _ => exact Inv.storeV ((Inv.scalar (by split <;> rfl)).mpr inv) hl (fun _ _ => by split <;> simp [handleOf])


theorem SameDom.of_same {σ : State} {h' : Heap} (e : SameItems σ.heap h') : SameDom σ { σ with heap := h' } :=
  ⟨rfl, e.length.symm, fun id b hb => by
    obtain ⟨b', hb', e1, e2, e3⟩ := e.get hb
    exact ⟨b', hb', by rw [e1], e2, e3⟩⟩

theorem readLoc_same {σ : State} {h' : Heap} (e : SameItems σ.heap h') (l : Loc) {v : V} (hr : readLoc σ l = .ok v) :
    readLoc { σ with heap := h' } l = .ok v := by
  cases l with
  | slot k => simpa [readLoc] using hr
  | item id i =>
    simp only [readLoc] at hr ⊢
    cases hb : getB σ.heap id with
    | error e => simp [hb] at hr
    | ok b =>
      obtain ⟨b', hb', e1, _, _⟩ := e.get hb
      simp only [hb] at hr
      simp only [hb', e1]
      exact hr

theorem isPod_handle {v : V} (h : isPod v = true) : handleOf v = none := by
  cases v <;> simp [isPod] at h <;> rfl

/-- `operator=(const Var&)`: safe for every held source, also one stored inside the target -/
theorem Inv.assignV {σ : State} {T : List V} {t : Loc} {src : V} (inv : Inv σ T) (hl : ValidLoc σ t) (hs : Held σ T src)
    (hself : ∀ id, parentOf t = some id → handleOf src ≠ some id) :
    ∃ σ', Var.assignV σ t src = .ok σ' ∧ Inv σ' T ∧ σ'.slots.length = σ.slots.length := by
  obtain ⟨old, hr, _⟩ := readLoc_valid hl T
  have inplace : ∀ s : Bytes, handleOf old = none →
      ∃ σ', Var.writeLoc σ t (V.str s) = .ok σ' ∧ Inv σ' T ∧ σ'.slots.length = σ.slots.length := by
    intro s hold
    obtain ⟨σ1, old', hr', hw, inv1, dom, _⟩ := ((Inv.scalar (v := V.str s) rfl).mpr inv).writeLoc hl (fun _ _ => by simp [handleOf])
    rw [hr] at hr'; cases hr'
    exact ⟨σ1, hw, (Inv.scalar hold).mp inv1, dom.1⟩
  unfold Var.assignV
  rw [hr]
  dsimp only
  split
  · -- STRING := STRING in place
    exact inplace _ rfl
  · obtain ⟨h1, hc, inv1, same⟩ := inv.copyV hs
    simp only [hc]
    have hl1 : ValidLoc { σ with heap := h1 } t := (SameDom.of_same same).validLoc hl
    obtain ⟨σ2, old', hr', hw, inv2, dom, _⟩ := inv1.writeLoc hl1 hself
    rw [readLoc_same same t hr] at hr'; cases hr'
    simp only [hw]
    by_cases hp : isPod old = true
    · simp only [hp, if_true]
      exact ⟨σ2, rfl, (Inv.scalar (isPod_handle hp)).mp inv2, dom.1⟩
    · simp only [hp]
      obtain ⟨h3, hd, inv3, _⟩ := Inv.drop (σ := σ2) (wl := [old]) (T := T) (by simpa using inv2)
      simp only [hd]
      exact ⟨_, rfl, inv3, dom.1⟩


/-! ## changing the elements of one block -/

/-- Replace the elements of block `id`: the operation gives up the owned values `A` (they go into the block) and
receives `B` (they come out of it); handles are neither created nor lost. -/
theorem Inv.reitems {σ : State} {T A B : List V} {id : Nat} {b : Block} {items' : List (Bytes × V)} {cap' : Nat}
    (inv : Inv σ (A ++ T)) (hb : getB σ.heap id = .ok b)
    (hcount : ∀ j, occ j (items'.map (·.2)) + occ j B = occ j (bvals b) + occ j A)
    (hmem : ∀ v, v ∈ items'.map (·.2) ++ B → v ∈ bvals b ++ A)
    (hsorted : b.isObj = true → SortedItems items')
    (hnoself : ∀ v ∈ items'.map (·.2), handleOf v ≠ some id) :
    Inv { σ with heap := setB σ.heap id { b with items := items', cap := cap' } } (B ++ T) := by
  have hlt := getB_lt hb
  have hbe := getB_eq.mp hb
  have hhset := fun x => occ_hvals_set x σ.heap id (some { b with items := items', cap := cap' }) hlt
  simp only [hbe, Option.getD_some, ovals] at hhset
  have hbv : bvals { b with items := items', cap := cap' } = items'.map (·.2) := rfl
  refine ⟨⟨?_, ?_, ?_⟩, ?_, ?_⟩
  · intro x hx id' hid'
    have hx' : x ∈ σ.slots ++ (A ++ T) ∨ x ∈ hvals σ.heap := by
      rcases hx with hx | hx
      · simp only [List.mem_append] at hx ⊢
        rcases hx with hx | hx | hx
        · exact Or.inl (Or.inl hx)
        · have := hmem x (by simp [hx])
          simp only [List.mem_append] at this
          rcases this with h1 | h1
          · exact Or.inr (mem_hvals_of_getB hb h1)
          · exact Or.inl (Or.inr (Or.inl h1))
        · exact Or.inl (Or.inr (Or.inr hx))
      · rcases mem_hvals_set hx with h1 | h1
        · exact Or.inr h1
        · simp only [ovals, hbv] at h1
          have := hmem x (by simp [h1])
          simp only [List.mem_append] at this
          rcases this with h2 | h2
          · exact Or.inr (mem_hvals_of_getB hb h2)
          · exact Or.inl (by simp [h2])
    obtain ⟨b2, hb2, hk2⟩ := inv.wf.live x hx' id' hid'
    by_cases he : id' = id
    · subst he
      rw [hb] at hb2; cases hb2
      exact ⟨_, getB_setB_same _ hlt, hk2⟩
    · exact ⟨b2, by rw [setB, getB_set_ne _ he]; exact hb2, hk2⟩
  · intro id' b2 hb2
    have h1 := hcount id'
    have h2 := hhset id'
    by_cases he : id' = id
    · subst he
      rw [getB_setB_same _ hlt] at hb2; cases hb2
      have hc := inv.wf.counted id' b hb
      simp only [occ_append, hbv] at hc h1 h2 ⊢
      show b.rc = _
      unfold setB
      omega
    · rw [setB, getB_set_ne _ he] at hb2
      have hc := inv.wf.counted id' b2 hb2
      simp only [occ_append, hbv] at hc h1 h2 ⊢
      unfold setB
      omega
  · intro id' b2 hb2
    by_cases he : id' = id
    · subst he
      rw [getB_setB_same _ hlt] at hb2; cases hb2
      exact inv.wf.pos id' b hb
    · rw [setB, getB_set_ne _ he] at hb2
      exact inv.wf.pos id' b2 hb2
  · intro id' b2 hb2 ho
    by_cases he : id' = id
    · subst he
      rw [getB_setB_same _ hlt] at hb2; cases hb2
      exact hsorted ho
    · rw [setB, getB_set_ne _ he] at hb2
      exact inv.sorted id' b2 hb2 ho
  · intro id' b2 hb2 x hx
    by_cases he : id' = id
    · subst he
      rw [getB_setB_same _ hlt] at hb2; cases hb2
      exact hnoself x hx
    · rw [setB, getB_set_ne _ he] at hb2
      exact inv.noself id' b2 hb2 x hx

theorem handleOf_mkHandle (o : Bool) (n : Nat) : handleOf (mkHandle o n) = some n := by
  unfold mkHandle; split <;> rfl

theorem isObjV_mkHandle (o : Bool) (n : Nat) : isObjV (mkHandle o n) = o := by
  unfold mkHandle; cases o <;> rfl

theorem occ_zero_of_lt {N : Nat} {l : List V} (hl : ∀ v ∈ l, ∀ id, handleOf v = some id → id < N) : occ N l = 0 := by
  rw [occ_eq_zero_iff]
  intro v hv e
  have := hl v hv N e
  omega

theorem WF.handle_lt {h : Heap} {R : List V} (wf : WF h R) {v : V} (hv : v ∈ R ∨ v ∈ hvals h) {id : Nat}
    (hid : handleOf v = some id) : id < h.length := by
  obtain ⟨b, hb, _⟩ := wf.live v hv id hid
  exact getB_lt hb

/-- a new block takes over the owned values `bvals b`; its handle is a new owned value -/
theorem Inv.alloc {σ : State} {T : List V} {b : Block} (inv : Inv σ (bvals b ++ T)) (hrc : b.rc = 1)
    (hs : b.isObj = true → SortedItems b.items) :
    Inv { σ with heap := σ.heap ++ [some b] } (mkHandle b.isObj σ.heap.length :: T) := by
  have hlive : ∀ x, (x ∈ σ.slots ++ (bvals b ++ T) ∨ x ∈ hvals σ.heap) → ∀ id, handleOf x = some id → id < σ.heap.length :=
    fun x hx id hid => inv.wf.handle_lt hx hid
  refine ⟨⟨?_, ?_, ?_⟩, ?_, ?_⟩
  · intro x hx id' hid'
    simp only [hvals_append, hvals_cons, hvals_nil, ovals, List.append_nil] at hx
    by_cases hx0 : x = mkHandle b.isObj σ.heap.length
    · subst hx0
      rw [handleOf_mkHandle] at hid'; cases hid'
      exact ⟨b, getB_alloc_new _ _, (isObjV_mkHandle _ _).symm⟩
    · have hx' : x ∈ σ.slots ++ (bvals b ++ T) ∨ x ∈ hvals σ.heap := by
        simp only [List.mem_append, List.mem_cons] at hx ⊢
        rcases hx with (h1 | h1 | h1) | h1 | h1
        · exact Or.inl (Or.inl h1)
        · exact absurd h1 hx0
        · exact Or.inl (Or.inr (Or.inr h1))
        · exact Or.inr h1
        · exact Or.inl (Or.inr (Or.inl h1))
      obtain ⟨b2, hb2, hk2⟩ := inv.wf.live x hx' id' hid'
      exact ⟨b2, by rw [getB_append_left _ (getB_lt hb2)]; exact hb2, hk2⟩
  · intro id' b2 hb2
    simp only [hvals_append, hvals_cons, hvals_nil, ovals, List.append_nil, occ_append, occ_cons, handleOf_mkHandle]
    by_cases he : id' = σ.heap.length
    · subst he
      rw [getB_alloc_new] at hb2; cases hb2
      have z1 : occ σ.heap.length σ.slots = 0 := occ_zero_of_lt (fun v hv => hlive v (Or.inl (by simp [hv])))
      have z2 : occ σ.heap.length T = 0 := occ_zero_of_lt (fun v hv => hlive v (Or.inl (by simp [hv])))
      have z3 : occ σ.heap.length (hvals σ.heap) = 0 := occ_zero_of_lt (fun v hv => hlive v (Or.inr hv))
      have z4 : occ σ.heap.length (bvals b) = 0 := occ_zero_of_lt (fun v hv => hlive v (Or.inl (by simp [hv])))
      simp [z1, z2, z3, z4, hrc]
    · have hlt : id' < σ.heap.length := by
        have := getB_lt hb2
        simp at this; omega
      rw [getB_append_left _ hlt] at hb2
      have hc := inv.wf.counted id' b2 hb2
      simp only [occ_append] at hc
      have : ¬ (some σ.heap.length = some id') := by intro e; cases e; exact he rfl
      simp only [this, if_false]
      omega
  · intro id' b2 hb2
    by_cases he : id' = σ.heap.length
    · subst he
      rw [getB_alloc_new] at hb2; cases hb2; omega
    · have hlt : id' < σ.heap.length := by
        have := getB_lt hb2
        simp at this; omega
      rw [getB_append_left _ hlt] at hb2
      exact inv.wf.pos id' b2 hb2
  · intro id' b2 hb2 ho
    by_cases he : id' = σ.heap.length
    · subst he
      rw [getB_alloc_new] at hb2; cases hb2; exact hs ho
    · have hlt : id' < σ.heap.length := by
        have := getB_lt hb2
        simp at this; omega
      rw [getB_append_left _ hlt] at hb2
      exact inv.sorted id' b2 hb2 ho
  · intro id' b2 hb2 x hx
    by_cases he : id' = σ.heap.length
    · subst he
      rw [getB_alloc_new] at hb2; cases hb2
      intro e
      have := hlive x (Or.inl (by simp [hx])) _ e
      omega
    · have hlt : id' < σ.heap.length := by
        have := getB_lt hb2
        simp at this; omega
      rw [getB_append_left _ hlt] at hb2
      exact inv.noself id' b2 hb2 x hx


end AslModel.Var
