import AslModel.Var
import AslProofs.Map
/-!
# Specification vocabulary and helper lemmas for the `asl::Var` model (`AslModel/Var.lean`) — core Lean only

* `Tree`, `content`: the abstract JSON-like tree a Var denotes in a heap (numbers by value, strings by bytes).
* `WF`: the reference-count invariant of a heap with respect to a list of root values.
-/
namespace AslModel.Var

/-- abstract content of a Var: a JSON-like tree; numbers by value, strings by bytes -/
inductive Tree
  | none | null
  | bool (b : Bool)
  | num (d : Dy)
  | str (s : Bytes)
  | arr (l : List Tree)
  | obj (l : List (Bytes × Tree))

def mapO {α β : Type} : List α → (α → Option β) → Option (List β)
  | [], _ => some []
  | x :: xs, g =>
    match g x with
    | none => none
    | some y => match mapO xs g with
      | none => none
      | some ys => some (y :: ys)

/-- the tree a value denotes in a heap (`none`: dangling handle or nesting deeper than `fuel`) -/
def content : Nat → Heap → V → Option Tree
  | 0, _, _ => none
  | f + 1, h, v =>
    match v with
    | .none => some .none
    | .null => some .null
    | .bool b => some (.bool b)
    | .int i => some (.num (Dy.ofInt i))
    | .num d => some (.num (Dy.norm d.m d.e))
    | .flt d => some (.num (Dy.norm d.m d.e))
    | .sstr s => some (.str s)
    | .str s => some (.str s)
    | .arr id =>
      match getB h id with
      | .ok b => (mapO b.items (fun kv => content f h kv.2)).map Tree.arr
      | .error _ => none
    | .obj id =>
      match getB h id with
      | .ok b => (mapO b.items (fun kv => (content f h kv.2).map (fun t => (kv.1, t)))).map Tree.obj
      | .error _ => none

theorem mapO_length {α β : Type} (g : α → Option β) : ∀ (xs : List α) (ys : List β), mapO xs g = some ys → ys.length = xs.length
  | [], ys, h => by simp [mapO] at h; subst h; rfl
  | x :: xs, ys, h => by
    simp only [mapO] at h
    split at h
    · cases h
    · split at h
      · cases h
      · rename_i y _ ys' h2
        cases h
        simp [mapO_length g xs ys' h2]

/-- pairwise comparison of two element lists against the equality of their contents -/
theorem allE_zip_spec {α τ : Type} (c : α → Option τ) (p : α × α → Except Err Bool) :
    ∀ (xs ys : List α) (txs tys : List τ), xs.length = ys.length →
      mapO xs c = some txs → mapO ys c = some tys →
      (∀ x ∈ xs, ∀ y ∈ ys, ∀ tx ty, c x = some tx → c y = some ty → ∃ b, p (x, y) = .ok b ∧ (b = true ↔ tx = ty)) →
      ∃ b, allE (xs.zip ys) p = .ok b ∧ (b = true ↔ txs = tys)
  | [], [], txs, tys, _, h1, h2, _ => by
    simp [mapO] at h1 h2; subst h1; subst h2
    exact ⟨true, by simp [allE], by simp⟩
  | [], _ :: _, _, _, hl, _, _, _ => by simp at hl
  | _ :: _, [], _, _, hl, _, _, _ => by simp at hl
  | x :: xs, y :: ys, txs, tys, hl, h1, h2, hp => by
    simp only [mapO] at h1 h2
    split at h1
    · cases h1
    rename_i tx hx
    split at h1
    · cases h1
    rename_i txs' hxs
    cases h1
    split at h2
    · cases h2
    rename_i ty hy
    split at h2
    · cases h2
    rename_i tys' hys
    cases h2
    obtain ⟨b, hb, hbiff⟩ := hp x (by simp) y (by simp) tx ty hx hy
    have ih := allE_zip_spec c p xs ys txs' tys' (by simpa using hl) hxs hys
      (fun x' hx' y' hy' => hp x' (by simp [hx']) y' (by simp [hy']))
    obtain ⟨b', hb', hb'iff⟩ := ih
    simp only [List.zip_cons_cons, allE, hb]
    cases b with
    | false =>
      refine ⟨false, rfl, ?_⟩
      constructor
      · intro h; cases h
      · intro h; injection h with h1 h2; exact absurd (hbiff.mpr h1) (by simp)
    | true =>
      refine ⟨b', hb', ?_⟩
      have htx : tx = ty := hbiff.mp rfl
      subst htx
      constructor
      · intro h; rw [hb'iff.mp h]
      · intro h; injection h with _ h2; exact hb'iff.mpr h2


theorem content_arr_inv {f : Nat} {h : Heap} {id : Nat} {t : Tree} (hc : content (f + 1) h (.arr id) = some t) :
    ∃ b l, getB h id = .ok b ∧ mapO b.items (fun kv => content f h kv.2) = some l ∧ t = Tree.arr l := by
  simp only [content] at hc
  split at hc
  · rename_i b hb
    cases hm : mapO b.items (fun kv => content f h kv.2) with
    | none => simp [hm] at hc
    | some l => simp [hm] at hc; exact ⟨b, l, hb, hm, hc.symm⟩
  · cases hc

theorem content_obj_inv {f : Nat} {h : Heap} {id : Nat} {t : Tree} (hc : content (f + 1) h (.obj id) = some t) :
    ∃ b l, getB h id = .ok b ∧
      mapO b.items (fun kv => (content f h kv.2).map (fun t => (kv.1, t))) = some l ∧ t = Tree.obj l := by
  simp only [content] at hc
  split at hc
  · rename_i b hb
    cases hm : mapO b.items (fun kv => (content f h kv.2).map (fun t => (kv.1, t))) with
    | none => simp [hm] at hc
    | some l => simp [hm] at hc; exact ⟨b, l, hb, hm, hc.symm⟩
  · cases hc

/-- a scalar Var denotes a scalar tree -/
theorem content_scalar {f : Nat} {h : Heap} {v : V} {t : Tree} (hv : handleOf v = none) (hc : content (f + 1) h v = some t) :
    (∀ l, t ≠ Tree.arr l) ∧ (∀ l, t ≠ Tree.obj l) := by
  cases v <;> simp [handleOf] at hv <;> simp only [content] at hc <;> cases hc <;> simp

theorem eq_iff_content_aux : ∀ (f : Nat) (h : Heap) (v w : V) (tv tw : Tree),
    content f h v = some tv → content f h w = some tw →
    ∃ b, eqV f h v w = .ok b ∧ (b = true ↔ tv = tw) := by
  intro f
  induction f with
  | zero => intro h v w tv tw hv; simp [content] at hv
  | succ f ih =>
    intro h v w tv tw hv hw
    by_cases hcv : handleOf v = none
    · by_cases hcw : handleOf w = none
      · -- two scalars
        cases v <;> simp [handleOf] at hcv <;> cases w <;> simp [handleOf] at hcw <;>
          simp only [content, eqV, numOf] at hv hw ⊢ <;> cases hv <;> cases hw <;> simp [Dy.ofInt] <;> (try exact eq_comm)
      · -- scalar against container: unequal
        have hs := content_scalar hcv hv
        cases w <;> simp [handleOf] at hcw
        · obtain ⟨b, l, _, _, rfl⟩ := content_arr_inv hw
          refine ⟨false, ?_, by simp [hs.1 l]⟩
          cases v <;> simp [handleOf] at hcv <;> simp [eqV, numOf]
        · obtain ⟨b, l, _, _, rfl⟩ := content_obj_inv hw
          refine ⟨false, ?_, by simp [hs.2 l]⟩
          cases v <;> simp [handleOf] at hcv <;> simp [eqV, numOf]
    · cases v <;> simp [handleOf] at hcv
      · -- v is an array
        rename_i a
        obtain ⟨ba, la, hba, hla, rfl⟩ := content_arr_inv hv
        by_cases hcw : handleOf w = none
        · have hs := content_scalar hcw hw
          refine ⟨false, ?_, by simp; exact fun e => (hs.1 la) e.symm⟩
          cases w <;> simp [handleOf] at hcw <;> simp [eqV]
        · cases w <;> simp [handleOf] at hcw
          · rename_i b
            obtain ⟨bb, lb, hbb, hlb, rfl⟩ := content_arr_inv hw
            simp only [eqV, hba, hbb]
            by_cases hlen : ba.items.length = bb.items.length
            · simp only [hlen, ne_eq, not_true_eq_false, if_false]
              obtain ⟨r, hr, hriff⟩ := allE_zip_spec (fun kv => content f h kv.2) (fun p => eqV f h p.1.2 p.2.2)
                bb.items ba.items lb la hlen.symm hlb hla
                (fun x _ y _ tx ty hx hy => ih h x.2 y.2 tx ty hx hy)
              refine ⟨r, hr, ?_⟩
              rw [hriff]
              constructor
              · intro e; rw [e]
              · intro e; injection e with e; exact e.symm
            · simp only [ne_eq, hlen, not_false_eq_true, if_true]
              refine ⟨false, rfl, ?_⟩
              simp
              intro e
              have h1 := mapO_length _ _ _ hla
              have h2 := mapO_length _ _ _ hlb
              rw [e] at h1; omega
          · obtain ⟨bb, lb, hbb, hlb, rfl⟩ := content_obj_inv hw
            exact ⟨false, by simp [eqV], by simp⟩
      · -- v is an object
        rename_i a
        obtain ⟨ba, la, hba, hla, rfl⟩ := content_obj_inv hv
        by_cases hcw : handleOf w = none
        · have hs := content_scalar hcw hw
          refine ⟨false, ?_, by simp; exact fun e => (hs.2 la) e.symm⟩
          cases w <;> simp [handleOf] at hcw <;> simp [eqV]
        · cases w <;> simp [handleOf] at hcw
          · obtain ⟨bb, lb, hbb, hlb, rfl⟩ := content_arr_inv hw
            exact ⟨false, by simp [eqV], by simp⟩
          · rename_i b
            obtain ⟨bb, lb, hbb, hlb, rfl⟩ := content_obj_inv hw
            simp only [eqV, hba, hbb]
            by_cases hlen : ba.items.length = bb.items.length
            · simp only [hlen, ne_eq, not_true_eq_false, if_false]
              obtain ⟨r, hr, hriff⟩ := allE_zip_spec (α := Bytes × V) (τ := Bytes × Tree)
                (fun kv => (content f h kv.2).map (fun t => (kv.1, t)))
                (fun p => if p.1.1 ≠ p.2.1 then Except.ok false else eqV f h p.1.2 p.2.2)
                ba.items bb.items la lb hlen hla hlb
                (fun x _ y _ tx ty hx hy => by
                  cases hcx : content f h x.2 with
                  | none => simp [hcx] at hx
                  | some cx =>
                    cases hcy : content f h y.2 with
                    | none => simp [hcy] at hy
                    | some cy =>
                      simp [hcx] at hx; simp [hcy] at hy
                      subst hx; subst hy
                      by_cases hk : x.1 = y.1
                      · obtain ⟨r, hr, hriff⟩ := ih h x.2 y.2 cx cy hcx hcy
                        refine ⟨r, by simp [hk, hr], ?_⟩
                        rw [hriff]; simp [hk]
                      · exact ⟨false, by simp [hk], by simp [hk]⟩)
              refine ⟨r, hr, ?_⟩
              rw [hriff]
              constructor
              · intro e; rw [e]
              · intro e; injection e
            · simp only [ne_eq, hlen, not_false_eq_true, if_true]
              refine ⟨false, rfl, ?_⟩
              simp
              intro e
              have h1 := mapO_length _ _ _ hla
              have h2 := mapO_length _ _ _ hlb
              rw [e] at h1; omega



/-! ## counting handle occurrences -/

def occ (id : Nat) (vs : List V) : Nat := vs.countP (fun v => handleOf v == some id)

def bvals (b : Block) : List V := b.items.map (·.2)

def ovals : Option Block → List V
  | some b => bvals b
  | none => []

def hvals (h : Heap) : List V := h.flatMap ovals

theorem occ_nil (id : Nat) : occ id [] = 0 := rfl
theorem occ_cons (id : Nat) (v : V) (vs : List V) :
    occ id (v :: vs) = occ id vs + (if handleOf v = some id then 1 else 0) := by
  simp [occ, List.countP_cons]
theorem occ_append (id : Nat) (a b : List V) : occ id (a ++ b) = occ id a + occ id b := by
  simp [occ, List.countP_append]

theorem occ_pos_iff (id : Nat) (vs : List V) : 0 < occ id vs ↔ ∃ v ∈ vs, handleOf v = some id := by
  simp [occ, List.countP_pos_iff]

theorem occ_eq_zero_iff (id : Nat) (vs : List V) : occ id vs = 0 ↔ ∀ v ∈ vs, handleOf v ≠ some id := by
  simp [occ, List.countP_eq_zero]

theorem hvals_nil : hvals [] = [] := rfl
theorem hvals_cons (ob : Option Block) (h : Heap) : hvals (ob :: h) = ovals ob ++ hvals h := by
  simp [hvals]
theorem hvals_append (a b : Heap) : hvals (a ++ b) = hvals a ++ hvals b := by
  simp [hvals]

/-- replacing entry `i` of the heap moves the values of the old entry out and those of the new entry in -/
theorem occ_hvals_set (id : Nat) : ∀ (h : Heap) (i : Nat) (ob : Option Block), i < h.length →
    occ id (hvals (h.set i ob)) + occ id (ovals (h[i]?.getD none)) = occ id (hvals h) + occ id (ovals ob)
  | [], i, ob, hi => by simp at hi
  | x :: h, 0, ob, _ => by
    simp [hvals_cons, occ_append]; omega
  | x :: h, i + 1, ob, hi => by
    have := occ_hvals_set id h i ob (by simpa using hi)
    simp [hvals_cons, occ_append] at this ⊢; omega

theorem mem_hvals_set {h : Heap} {i : Nat} {ob : Option Block} {v : V} (hv : v ∈ hvals (h.set i ob)) :
    v ∈ hvals h ∨ v ∈ ovals ob := by
  induction h generalizing i with
  | nil => simp [hvals] at hv
  | cons x h ih =>
    cases i with
    | zero =>
      simp [hvals_cons] at hv ⊢
      rcases hv with hv | hv
      · exact Or.inr hv
      · exact Or.inl (Or.inr hv)
    | succ i =>
      simp [hvals_cons] at hv ⊢
      rcases hv with hv | hv
      · exact Or.inl (Or.inl hv)
      · rcases ih hv with h1 | h1
        · exact Or.inl (Or.inr h1)
        · exact Or.inr h1

theorem mem_hvals_of_getB {h : Heap} {id : Nat} {b : Block} (hb : getB h id = .ok b) {v : V} (hv : v ∈ bvals b) :
    v ∈ hvals h := by
  unfold getB at hb
  split at hb
  · rename_i b' hb'
    cases hb
    simp only [hvals, List.mem_flatMap]
    exact ⟨some b, List.mem_of_getElem? hb', hv⟩
  · cases hb

theorem getB_lt {h : Heap} {id : Nat} {b : Block} (hb : getB h id = .ok b) : id < h.length := by
  unfold getB at hb
  split at hb
  · rename_i b' hb'
    exact (List.getElem?_eq_some_iff.mp hb').1
  · cases hb

theorem getB_eq {h : Heap} {id : Nat} {b : Block} : getB h id = .ok b ↔ h[id]? = some (some b) := by
  unfold getB
  constructor
  · intro hb
    split at hb
    · rename_i b' hb'; cases hb; exact hb'
    · cases hb
  · intro hb; simp [hb]

theorem getB_setB_same {h : Heap} {id : Nat} (b : Block) (hi : id < h.length) : getB (setB h id b) id = .ok b := by
  simp [getB_eq, setB, hi]

theorem getB_set_ne {h : Heap} {id id' : Nat} (ob : Option Block) (hne : id' ≠ id) : getB (h.set id ob) id' = getB h id' := by
  unfold getB
  rw [List.getElem?_set_ne (Ne.symm hne)]

theorem getB_freeB_same {h : Heap} {id : Nat} : ∀ b, getB (freeB h id) id ≠ .ok b := by
  intro b hb
  rw [getB_eq, freeB] at hb
  by_cases hi : id < h.length
  · simp [hi] at hb
  · rw [List.getElem?_eq_none (by simp; omega)] at hb; cases hb

theorem getB_append_left {h : Heap} {id : Nat} (x : Heap) (hi : id < h.length) : getB (h ++ x) id = getB h id := by
  unfold getB; rw [List.getElem?_append_left hi]

theorem getB_alloc_new (h : Heap) (b : Block) : getB (h ++ [some b]) h.length = .ok b := by
  simp [getB_eq]


theorem hvals_set_same : ∀ (h : Heap) (i : Nat) (ob : Option Block), ovals ob = ovals (h[i]?.getD none) →
    hvals (h.set i ob) = hvals h
  | [], _, _, _ => rfl
  | x :: h, 0, ob, e => by simp at e; simp [hvals_cons, e]
  | x :: h, i + 1, ob, e => by
    simp at e
    simp [hvals_cons, hvals_set_same h i ob (by simpa using e)]

theorem hvals_setB_rc {h : Heap} {id : Nat} {b : Block} (hb : getB h id = .ok b) (r : Nat) :
    hvals (setB h id { b with rc := r }) = hvals h := by
  apply hvals_set_same
  rw [getB_eq] at hb
  simp [hb, ovals, bvals]

/-! ## the reference-count invariant -/

/-- `R` = the values held outside the heap (root variables and the temporaries of the running operation) -/
structure WF (h : Heap) (R : List V) : Prop where
  /-- every handle points to a live block of its kind -/
  live : ∀ v, (v ∈ R ∨ v ∈ hvals h) → ∀ id, handleOf v = some id → ∃ b, getB h id = .ok b ∧ b.isObj = isObjV v
  /-- the count of a live block is the number of handles to it -/
  counted : ∀ id b, getB h id = .ok b → b.rc = occ id R + occ id (hvals h)
  pos : ∀ id b, getB h id = .ok b → 0 < b.rc

/-- `WF` only looks at the roots through membership and counts -/
theorem WF.congr {h : Heap} {R R' : List V} (wf : WF h R) (hm : ∀ v, v ∈ R' → v ∈ R) (hc : ∀ id, occ id R' = occ id R) :
    WF h R' :=
  { live := fun v hv => wf.live v (hv.elim (fun h1 => Or.inl (hm v h1)) Or.inr)
    counted := fun id b hb => by rw [hc]; exact wf.counted id b hb
    pos := wf.pos }

/-- a root that is not a handle can be added or dropped -/
theorem WF.cons_scalar {h : Heap} {R : List V} {v : V} (hv : handleOf v = none) : WF h (v :: R) ↔ WF h R := by
  constructor
  · intro wf
    exact wf.congr (fun x hx => List.mem_cons_of_mem _ hx) (fun id => by simp [occ_cons, hv])
  · intro wf
    refine ⟨fun x hx id hid => ?_, fun id b hb => by simp [occ_cons, hv]; exact wf.counted id b hb, wf.pos⟩
    rcases hx with hx | hx
    · rcases List.mem_cons.mp hx with rfl | hx
      · simp [hv] at hid
      · exact wf.live x (Or.inl hx) id hid
    · exact wf.live x (Or.inr hx) id hid

/-- heaps that differ only in reference counts -/
def eraseRc (b : Block) : Block := { b with rc := 0 }
def SameItems (h h' : Heap) : Prop := h.map (Option.map eraseRc) = h'.map (Option.map eraseRc)

theorem SameItems.refl (h : Heap) : SameItems h h := rfl
theorem SameItems.trans {a b c : Heap} (h1 : SameItems a b) (h2 : SameItems b c) : SameItems a c := Eq.trans h1 h2
theorem SameItems.length {h h' : Heap} (e : SameItems h h') : h.length = h'.length := by
  have := congrArg List.length e; simpa using this

theorem SameItems.get {h h' : Heap} (e : SameItems h h') {id : Nat} {b : Block} (hb : Var.getB h id = .ok b) :
    ∃ b', Var.getB h' id = .ok b' ∧ b'.items = b.items ∧ b'.isObj = b.isObj ∧ b'.cap = b.cap := by
  rw [getB_eq] at hb
  have := congrArg (fun l => l[id]?) e
  simp [hb] at this
  cases hx : h'[id]? with
  | none => simp [hx] at this
  | some ob =>
    cases ob with
    | none => simp [hx] at this
    | some b' =>
      simp [hx, eraseRc] at this
      refine ⟨b', getB_eq.mpr hx, ?_⟩
      cases b; cases b'; simp_all

theorem SameItems.setRc {h : Heap} {id : Nat} {b : Block} (hb : Var.getB h id = .ok b) (r : Nat) :
    SameItems h (Var.setB h id { b with rc := r }) := by
  rw [getB_eq] at hb
  unfold SameItems Var.setB
  rw [List.map_set]
  apply List.ext_getElem?
  intro i
  by_cases hi : i = id
  · subst hi
    obtain ⟨hlt, hget⟩ := List.getElem?_eq_some_iff.mp hb
    simp [hlt, hget, eraseRc]
  · simp [List.getElem?_set_ne (Ne.symm hi)]

/-- the block a value points to (if any) is live and of the value's kind -/
def LiveV (h : Heap) (v : V) : Prop := ∀ id, handleOf v = some id → ∃ b, getB h id = .ok b ∧ b.isObj = isObjV v

theorem WF.liveV {h : Heap} {R : List V} (wf : WF h R) {v : V} (hv : v ∈ R ∨ v ∈ hvals h) : LiveV h v :=
  fun id hid => wf.live v hv id hid

/-- `Var(const Var&)` of a value whose block is live: succeeds, and the copy is one more root -/
theorem WF.copyV {h : Heap} {R : List V} {v : V} (wf : WF h R) (hv : LiveV h v) :
    ∃ h', copyV h v = .ok h' ∧ WF h' (v :: R) ∧ SameItems h h' := by
  unfold Var.copyV
  cases hh : handleOf v with
  | none => exact ⟨h, rfl, (WF.cons_scalar hh).mpr wf, SameItems.refl h⟩
  | some id =>
    obtain ⟨b, hb, hk⟩ := hv id hh
    simp only [hb]
    refine ⟨_, rfl, ?_, SameItems.setRc hb _⟩
    have hlt := getB_lt hb
    have hvals_eq := hvals_setB_rc hb (b.rc + 1)
    refine ⟨?_, ?_, ?_⟩
    · intro x hx id' hid'
      rw [hvals_eq] at hx
      have hx' : LiveV h x := by
        rcases hx with hx | hx
        · rcases List.mem_cons.mp hx with rfl | hx
          · exact hv
          · exact wf.liveV (Or.inl hx)
        · exact wf.liveV (Or.inr hx)
      obtain ⟨b', hb', hk'⟩ := hx' id' hid'
      by_cases he : id' = id
      · subst he
        rw [hb] at hb'; cases hb'
        exact ⟨_, getB_setB_same _ hlt, hk'⟩
      · exact ⟨b', by rw [setB, getB_set_ne _ he]; exact hb', hk'⟩
    · intro id' b' hb'
      rw [hvals_eq, occ_cons]
      by_cases he : id' = id
      · subst he
        rw [getB_setB_same _ hlt] at hb'; cases hb'
        simp [hh]
        have := wf.counted id' b hb
        omega
      · rw [setB, getB_set_ne _ he] at hb'
        have := wf.counted id' b' hb'
        have hne : ¬ handleOf v = some id' := by rw [hh]; intro e; cases e; exact he rfl
        simp [hne]; exact this
    · intro id' b' hb'
      by_cases he : id' = id
      · subst he
        rw [getB_setB_same _ hlt] at hb'; cases hb'
        simp
      · rw [setB, getB_set_ne _ he] at hb'
        exact wf.pos id' b' hb'


/-! ## destruction -/

def osize : Option Block → Nat
  | some b => b.items.length + 1
  | none => 0

theorem heapSize_eq (h : Heap) : heapSize h = (h.map osize).sum := by
  unfold heapSize
  congr 1

theorem heapSize_set : ∀ (h : Heap) (i : Nat) (ob : Option Block), i < h.length →
    heapSize (h.set i ob) + osize (h[i]?.getD none) = heapSize h + osize ob
  | [], i, ob, hi => by simp at hi
  | x :: h, 0, ob, _ => by simp [heapSize_eq]; omega
  | x :: h, i + 1, ob, hi => by
    have := heapSize_set h i ob (by simpa using hi)
    simp [heapSize_eq] at this ⊢; omega

/-- `h'` is `h` with some blocks released and some reference counts changed -/
def SubItems (h h' : Heap) : Prop :=
  h'.length = h.length ∧
  ∀ id b', getB h' id = .ok b' → ∃ b, getB h id = .ok b ∧ b'.items = b.items ∧ b'.isObj = b.isObj ∧ b'.cap = b.cap

theorem SubItems.refl (h : Heap) : SubItems h h := ⟨rfl, fun _ b' hb => ⟨b', hb, rfl, rfl, rfl⟩⟩
theorem SubItems.trans {a b c : Heap} (h1 : SubItems a b) (h2 : SubItems b c) : SubItems a c :=
  ⟨h2.1.trans h1.1, fun id b' hb => by
    obtain ⟨b1, hb1, e1, e2, e3⟩ := h2.2 id b' hb
    obtain ⟨b0, hb0, f1, f2, f3⟩ := h1.2 id b1 hb1
    exact ⟨b0, hb0, e1.trans f1, e2.trans f2, e3.trans f3⟩⟩

theorem SubItems.of_same {h h' : Heap} (e : SameItems h h') : SubItems h h' :=
  ⟨e.length.symm, fun id b' hb => by
    have e' : SameItems h' h := Eq.symm e
    obtain ⟨b, hb2, e1, e2, e3⟩ := e'.get hb
    exact ⟨b, hb2, e1.symm, e2.symm, e3.symm⟩⟩

theorem SubItems.freeB {h : Heap} (id : Nat) : SubItems h (freeB h id) :=
  ⟨by simp [Var.freeB], fun id' b' hb => by
    by_cases he : id' = id
    · subst he; exact absurd hb (getB_freeB_same b')
    · rw [Var.freeB, getB_set_ne _ he] at hb; exact ⟨b', hb, rfl, rfl, rfl⟩⟩

/-- destroying owned values: never touches a released block, and leaves a well-counted heap -/
theorem WF.release {R : List V} : ∀ (fuel : Nat) (h : Heap) (wl : List V), WF h (wl ++ R) → heapSize h + wl.length < fuel →
    ∃ h', release fuel h wl = .ok h' ∧ WF h' R ∧ SubItems h h' := by
  intro fuel
  induction fuel with
  | zero => intro h wl _ hf; omega
  | succ f ih =>
    intro h wl wf hf
    cases wl with
    | nil => exact ⟨h, rfl, by simpa using wf, SubItems.refl h⟩
    | cons v rest =>
      simp only [Var.release]
      cases hh : handleOf v with
      | none =>
        exact ih h rest ((WF.cons_scalar hh).mp (by simpa using wf)) (by simp at hf; omega)
      | some id =>
        obtain ⟨b, hb, _⟩ := wf.live v (Or.inl (by simp)) id hh
        simp only [hb]
        have hpos := wf.pos id b hb
        have hcnt := wf.counted id b hb
        have hlt := getB_lt hb
        have hbe := getB_eq.mp hb
        simp only [List.cons_append, occ_cons, hh, if_true] at hcnt
        by_cases h0 : b.rc = 0
        · omega
        simp only [h0, if_false]
        by_cases h1 : b.rc = 1
        · -- the last reference: the block is released, its elements are destroyed next
          simp only [h1, if_true]
          have hz1 : occ id (rest ++ R) = 0 := by omega
          have hz2 : occ id (hvals h) = 0 := by omega
          have hset := fun x => occ_hvals_set x h id none hlt
          simp only [hbe, Option.getD_some, ovals, occ_nil] at hset
          have wf1 : WF (freeB h id) ((b.items.map (·.2) ++ rest) ++ R) := by
            refine ⟨?_, ?_, ?_⟩
            · intro x hx id' hid'
              have hx' : (x ∈ rest ++ R ∨ x ∈ hvals h) := by
                rcases hx with hx | hx
                · simp only [List.append_assoc, List.mem_append] at hx
                  rcases hx with hx | hx | hx
                  · exact Or.inr (mem_hvals_of_getB hb hx)
                  · exact Or.inl (by simp [hx])
                  · exact Or.inl (by simp [hx])
                · rcases mem_hvals_set hx with h2 | h2
                  · exact Or.inr h2
                  · simp [ovals] at h2
              have hne : id' ≠ id := by
                intro e; subst e
                rcases hx' with hx' | hx'
                · exact (occ_eq_zero_iff _ _).mp hz1 x hx' hid'
                · exact (occ_eq_zero_iff _ _).mp hz2 x hx' hid'
              obtain ⟨b', hb', hk'⟩ := wf.live x (hx'.elim (fun h3 => Or.inl (by
                simp only [List.cons_append, List.mem_cons]; exact Or.inr h3)) Or.inr) id' hid'
              exact ⟨b', by rw [Var.freeB, getB_set_ne _ hne]; exact hb', hk'⟩
            · intro id' b' hb'
              have hne : id' ≠ id := by
                intro e; subst e; exact getB_freeB_same b' hb'
              rw [Var.freeB, getB_set_ne _ hne] at hb'
              have hc := wf.counted id' b' hb'
              have hs := hset id'
              have hvne : ¬ handleOf v = some id' := by rw [hh]; intro e; cases e; exact hne rfl
              simp only [List.cons_append, occ_cons, hvne, if_false] at hc
              simp only [List.append_assoc, occ_append] at hc ⊢
              simp only [bvals] at hs
              unfold Var.freeB
              omega
            · intro id' b' hb'
              have hne : id' ≠ id := by
                intro e; subst e; exact getB_freeB_same b' hb'
              rw [Var.freeB, getB_set_ne _ hne] at hb'
              exact wf.pos id' b' hb'
          have hsz := heapSize_set h id none hlt
          simp only [hbe, Option.getD_some, osize] at hsz
          obtain ⟨h', hr, wf', sub⟩ := ih (freeB h id) (b.items.map (·.2) ++ rest) wf1 (by
            unfold Var.freeB; simp at hf ⊢; omega)
          exact ⟨h', hr, wf', (SubItems.freeB id).trans sub⟩
        · -- other references remain
          simp only [h1, if_false]
          have hvals_eq := hvals_setB_rc hb (b.rc - 1)
          have wf1 : WF (setB h id { b with rc := b.rc - 1 }) (rest ++ R) := by
            refine ⟨?_, ?_, ?_⟩
            · intro x hx id' hid'
              rw [hvals_eq] at hx
              obtain ⟨b', hb', hk'⟩ := wf.live x (hx.elim (fun h3 => Or.inl (by
                simp only [List.cons_append, List.mem_cons]; exact Or.inr h3)) Or.inr) id' hid'
              by_cases he : id' = id
              · subst he
                rw [hb] at hb'; cases hb'
                exact ⟨_, getB_setB_same _ hlt, hk'⟩
              · exact ⟨b', by rw [Var.setB, getB_set_ne _ he]; exact hb', hk'⟩
            · intro id' b' hb'
              rw [hvals_eq]
              by_cases he : id' = id
              · subst he
                rw [getB_setB_same _ hlt] at hb'; cases hb'
                simp only []
                omega
              · rw [Var.setB, getB_set_ne _ he] at hb'
                have hc := wf.counted id' b' hb'
                have hvne : ¬ handleOf v = some id' := by rw [hh]; intro e; cases e; exact he rfl
                simp only [List.cons_append, occ_cons, hvne, if_false] at hc
                omega
            · intro id' b' hb'
              by_cases he : id' = id
              · subst he
                rw [getB_setB_same _ hlt] at hb'; cases hb'
                simp only []; omega
              · rw [Var.setB, getB_set_ne _ he] at hb'
                exact wf.pos id' b' hb'
          have hsz := heapSize_set h id (some { b with rc := b.rc - 1 }) hlt
          simp only [hbe, Option.getD_some, osize] at hsz
          obtain ⟨h', hr, wf', sub⟩ := ih _ rest wf1 (by unfold Var.setB; simp at hf ⊢; omega)
          exact ⟨h', hr, wf', (SubItems.of_same (SameItems.setRc hb _)).trans sub⟩

theorem WF.drop {h : Heap} {R wl : List V} (wf : WF h (wl ++ R)) :
    ∃ h', drop h wl = .ok h' ∧ WF h' R ∧ SubItems h h' :=
  WF.release (relFuel h wl) h wl wf (by unfold relFuel; omega)


/-! ## `strcmp` order on keys (for the ascending `KeyVal` arrays of objects) -/
open AslProofs.Map in
theorem cmpB_eq_iff : ∀ a b : List UInt8, Map.cmpBytes a b = .eq ↔ a = b
  | [], [] => by simp [Map.cmpBytes]
  | [], _ :: _ => by simp [Map.cmpBytes]
  | _ :: _, [] => by simp [Map.cmpBytes]
  | a :: s, b :: t => by
    simp only [Map.cmpBytes, List.cons.injEq]
    by_cases h1 : a < b
    · have : a ≠ b := fun e => by subst e; exact absurd h1 (UInt8.lt_irrefl a)
      simp [h1, this]
    · by_cases h2 : a = b
      · simp [h2, cmpB_eq_iff s t]
      · simp [h1, h2]

theorem cmpB_gt_iff : ∀ a b : List UInt8, Map.cmpBytes a b = .gt ↔ Map.cmpBytes b a = .lt
  | [], [] => by simp [Map.cmpBytes]
  | [], _ :: _ => by simp [Map.cmpBytes]
  | _ :: _, [] => by simp [Map.cmpBytes]
  | a :: s, b :: t => by
    simp only [Map.cmpBytes]
    by_cases h1 : a < b
    · have h3 : ¬ b < a := by rw [UInt8.lt_iff_toNat_lt] at *; omega
      have h4 : ¬ b = a := by intro e; subst e; exact absurd h1 (UInt8.lt_irrefl b)
      simp [h1, h3, h4]
    · by_cases h2 : a = b
      · subst h2; simp [h1, cmpB_gt_iff s t]
      · have h3 : b < a := by
          rw [UInt8.lt_iff_toNat_lt] at *
          have : a.toNat ≠ b.toNat := fun e => h2 (UInt8.toNat_inj.mp e)
          omega
        have h4 : ¬ b = a := fun e => h2 e.symm
        simp [h1, h2, h3]

theorem cmpB_trans : ∀ a b c : List UInt8, Map.cmpBytes a b = .lt → Map.cmpBytes b c = .lt → Map.cmpBytes a c = .lt
  | [], [], _ => by simp [Map.cmpBytes]
  | [], _ :: _, [] => by simp [Map.cmpBytes]
  | [], _ :: _, _ :: _ => by simp [Map.cmpBytes]
  | _ :: _, [], _ => by simp [Map.cmpBytes]
  | _ :: _, _ :: _, [] => by simp [Map.cmpBytes]
  | a :: s, b :: t, c :: u => by
    simp only [Map.cmpBytes]
    intro h1 h2
    by_cases ab : a < b
    · by_cases bc : b < c
      · have : a < c := by rw [UInt8.lt_iff_toNat_lt] at *; omega
        simp [this]
      · by_cases e : b = c
        · subst e; simp [ab]
        · simp [bc, e] at h2
    · by_cases e1 : a = b
      · subst e1
        simp only [ab, if_false, if_true] at h1
        by_cases bc : a < c
        · simp [bc]
        · by_cases e : a = c
          · subst e
            simp only [bc, if_false, if_true] at h2 ⊢
            exact cmpB_trans s t u h1 h2
          · simp [bc, e] at h2
      · simp [ab, e1] at h1

theorem cmpB_strict : AslProofs.Map.StrictOrder Map.cmpBytes := ⟨cmpB_eq_iff, cmpB_gt_iff, cmpB_trans⟩

abbrev SortedItems (l : List (Bytes × V)) : Prop := AslProofs.Map.Sorted Map.cmpBytes l

/-! ## the invariant of a state -/

/-- objects keep their `KeyVal` array strictly ascending -/
def SortedHeap (h : Heap) : Prop := ∀ id b, getB h id = .ok b → b.isObj = true → SortedItems b.items

/-- no block holds a handle to itself -/
def NoSelf (h : Heap) : Prop := ∀ id b, getB h id = .ok b → ∀ v ∈ bvals b, handleOf v ≠ some id

/-! ## acyclicity -/

/-- block `x` stores a handle to block `y` -/
def Edge (h : Heap) (x y : Nat) : Prop := ∃ b, getB h x = .ok b ∧ ∃ v ∈ bvals b, handleOf v = some y

/-- the handle graph has a rank function that decreases along every edge: no cycles -/
def Ranked (h : Heap) : Prop := ∃ rank : Nat → Nat, ∀ x y, Edge h x y → rank y < rank x

inductive Reach (h : Heap) : Nat → Nat → Prop
  | refl (x : Nat) : Reach h x x
  | step {x y z : Nat} : Edge h x y → Reach h y z → Reach h x z

theorem Reach.trans {h : Heap} {x y z : Nat} (h1 : Reach h x y) (h2 : Reach h y z) : Reach h x z := by
  induction h1 with
  | refl _ => exact h2
  | step e _ ih => exact Reach.step e (ih h2)

theorem Reach.single {h : Heap} {x y : Nat} (e : Edge h x y) : Reach h x y := Reach.step e (Reach.refl y)

theorem Reach.rank_le {h : Heap} {rank : Nat → Nat} (hr : ∀ x y, Edge h x y → rank y < rank x) {x y : Nat}
    (r : Reach h x y) : rank y ≤ rank x := by
  induction r with
  | refl _ => exact Nat.le_refl _
  | step e _ ih => have := hr _ _ e; omega

/-- a renaming of ids that maps the edges of `h'` to edges of `h` maps paths to paths -/
theorem Reach.rename {h h' : Heap} (rn : Nat → Nat) (he : ∀ x y, Edge h' x y → Edge h (rn x) (rn y)) {x y : Nat}
    (r : Reach h' x y) : Reach h (rn x) (rn y) := by
  induction r with
  | refl _ => exact Reach.refl _
  | step e _ ih => exact Reach.step (he _ _ e) ih

theorem Reach.mono {h h' : Heap} (he : ∀ x y, Edge h' x y → Edge h x y) {x y : Nat} (r : Reach h' x y) : Reach h x y :=
  Reach.rename (fun x => x) he r

theorem Ranked.noself {h : Heap} (rk : Ranked h) : NoSelf h := by
  obtain ⟨rank, hr⟩ := rk
  intro id b hb v hv hid
  have := hr id id ⟨b, hb, v, hv, hid⟩
  omega

theorem Ranked.rename {h h' : Heap} (rn : Nat → Nat) (he : ∀ x y, Edge h' x y → Edge h (rn x) (rn y)) (rk : Ranked h) :
    Ranked h' := by
  obtain ⟨rank, hr⟩ := rk
  exact ⟨fun x => rank (rn x), fun x y e => hr _ _ (he x y e)⟩

theorem Ranked.mono {h h' : Heap} (he : ∀ x y, Edge h' x y → Edge h x y) (rk : Ranked h) : Ranked h' :=
  Ranked.rename (fun x => x) he rk

/-- adding the edge `B → c` keeps the graph acyclic when `c` does not reach `B` -/
theorem Ranked.addEdge {h h' : Heap} {B c : Nat} (he : ∀ x y, Edge h' x y → Edge h x y ∨ (x = B ∧ y = c))
    (hn : ¬ Reach h c B) (rk : Ranked h) : Ranked h' := by
  obtain ⟨rank, hr⟩ := rk
  classical
  refine ⟨fun x => if Reach h x B then rank x + (rank c + 1) else rank x, ?_⟩
  intro x y e
  rcases he x y e with e0 | ⟨rfl, rfl⟩
  · have hlt := hr x y e0
    by_cases hy : Reach h y B
    · have hx : Reach h x B := Reach.step e0 hy
      simp only [hx, hy, if_true]; omega
    · by_cases hx : Reach h x B
      · simp only [hx, hy, if_true, if_false]; omega
      · simp only [hx, hy, if_false]; exact hlt
  · have hx : Reach h x x := Reach.refl x
    simp only [hx, hn, if_true, if_false]; omega

theorem Edge.of_sub {h h' : Heap} (sub : SubItems h h') {x y : Nat} (e : Edge h' x y) : Edge h x y := by
  obtain ⟨b', hb', v, hv, hid⟩ := e
  obtain ⟨b, hb, e1, _, _⟩ := sub.2 x b' hb'
  exact ⟨b, hb, v, by simpa [bvals, e1] using hv, hid⟩

theorem Edge.of_same {h h' : Heap} (e : SameItems h h') {x y : Nat} : Edge h' x y ↔ Edge h x y :=
  ⟨Edge.of_sub (SubItems.of_same e), Edge.of_sub (SubItems.of_same (Eq.symm e : SameItems h' h))⟩

theorem Ranked.of_sub {h h' : Heap} (sub : SubItems h h') (rk : Ranked h) : Ranked h' :=
  rk.mono (fun _ _ e => Edge.of_sub sub e)

theorem Reach.of_same {h h' : Heap} (e : SameItems h h') {x y : Nat} : Reach h' x y ↔ Reach h x y :=
  ⟨Reach.mono (fun _ _ => (Edge.of_same e).mp), Reach.mono (fun _ _ => (Edge.of_same e).mpr)⟩

/-- the edges out of a block whose elements were replaced -/
theorem Edge.setB {h : Heap} {id : Nat} {b b' : Block} (hb : getB h id = .ok b) {x y : Nat}
    (e : Edge (setB h id b') x y) : (x ≠ id ∧ Edge h x y) ∨ (x = id ∧ ∃ v ∈ bvals b', handleOf v = some y) := by
  obtain ⟨bx, hbx, v, hv, hid⟩ := e
  by_cases hx : x = id
  · subst hx
    rw [getB_setB_same _ (getB_lt hb)] at hbx; cases hbx
    exact Or.inr ⟨rfl, v, hv, hid⟩
  · rw [Var.setB, getB_set_ne _ hx] at hbx
    exact Or.inl ⟨hx, bx, hbx, v, hv, hid⟩

/-- an upper bound of the ranks of the handles in a list of values -/
def rankBound (rank : Nat → Nat) : List V → Nat
  | [] => 0
  | v :: vs => max (match handleOf v with | some c => rank c + 1 | none => 0) (rankBound rank vs)

theorem rankBound_lt (rank : Nat → Nat) : ∀ (l : List V) (v : V) (c : Nat), v ∈ l → handleOf v = some c → rank c < rankBound rank l
  | [], _, _, hv, _ => by cases hv
  | w :: ws, v, c, hv, hc => by
    simp only [rankBound]
    rcases List.mem_cons.mp hv with rfl | hv
    · simp only [hc]; omega
    · have := rankBound_lt rank ws v c hv hc; omega

/-- a new block at the end of the heap whose handles all point to older blocks -/
theorem Ranked.fresh {h : Heap} {b : Block} (rk : Ranked h) (hold : ∀ v ∈ bvals b, ∀ c, handleOf v = some c → c < h.length)
    (hin : ∀ x y, Edge h x y → y < h.length) : Ranked (h ++ [some b]) := by
  obtain ⟨rank, hr⟩ := rk
  refine ⟨fun x => if x = h.length then rankBound rank (bvals b) else rank x, ?_⟩
  intro x y e
  obtain ⟨bx, hbx, v, hv, hid⟩ := e
  by_cases hx : x = h.length
  · subst hx
    rw [getB_alloc_new] at hbx; cases hbx
    have hy := hold v hv y hid
    have : y ≠ h.length := by omega
    simp only [this, if_false, if_true]
    exact rankBound_lt rank _ v y hv hid
  · have hxl : x < h.length := by
      have := getB_lt hbx
      simp at this; omega
    rw [getB_append_left _ hxl] at hbx
    have e0 : Edge h x y := ⟨bx, hbx, v, hv, hid⟩
    have hy := hin x y e0
    have : y ≠ h.length := by omega
    simp only [hx, this, if_false]
    exact hr x y e0


/-- `T`: the values owned by the running operation (temporaries) -/
structure Inv (σ : State) (T : List V) : Prop where
  wf : WF σ.heap (σ.slots ++ T)
  sorted : SortedHeap σ.heap
  ranked : Ranked σ.heap

theorem Inv.noself {σ : State} {T : List V} (inv : Inv σ T) : NoSelf σ.heap := inv.ranked.noself

def ValidLoc (σ : State) : Loc → Prop
  | .slot k => k < σ.slots.length
  | .item id i => ∃ b, getB σ.heap id = .ok b ∧ i < b.items.length

/-- a value that some live Var of the state holds (a `const Var&` into the state) -/
def HeldIn (σ : State) (T : List V) (v : V) : Prop := v ∈ σ.slots ++ T ∨ v ∈ hvals σ.heap

theorem readLoc_valid {σ : State} {l : Loc} (hl : ValidLoc σ l) (T : List V) :
    ∃ v, readLoc σ l = .ok v ∧ HeldIn σ T v := by
  cases l with
  | slot k =>
    simp only [ValidLoc] at hl
    refine ⟨σ.slots[k], by simp [readLoc, hl], Or.inl ?_⟩
    exact List.mem_append_left _ (List.getElem_mem hl)
  | item id i =>
    obtain ⟨b, hb, hi⟩ := hl
    refine ⟨b.items[i].2, by simp [readLoc, hb, hi], Or.inr ?_⟩
    exact mem_hvals_of_getB hb (List.mem_map_of_mem (List.getElem_mem hi))


/-! ## writing a Var -/

theorem occ_set (id : Nat) : ∀ (l : List V) (k : Nat) (v : V) (hk : k < l.length),
    occ id (l.set k v) + occ id [l[k]] = occ id l + occ id [v]
  | [], k, v, hk => by simp at hk
  | x :: l, 0, v, _ => by simp [occ_cons, occ_nil]; omega
  | x :: l, k + 1, v, hk => by
    have := occ_set id l k v (by simpa using hk)
    simp [occ_cons, occ_nil] at this ⊢; omega

theorem map_snd_setValAt : ∀ (l : List (Bytes × V)) (i : Nat) (v : V),
    (Map.setValAt l i v).map (·.2) = (l.map (·.2)).set i v
  | [], _, _ => by simp [Map.setValAt]
  | (k, x) :: t, 0, v => by simp [Map.setValAt]
  | kv :: t, i + 1, v => by simp [Map.setValAt, map_snd_setValAt t i v]

/-- heaps/states with the same blocks alive and the same shapes (lengths, kinds, keys, counts) -/
def SameDom (σ σ' : State) : Prop :=
  σ'.slots.length = σ.slots.length ∧ σ'.heap.length = σ.heap.length ∧
  ∀ id b, getB σ.heap id = .ok b → ∃ b', getB σ'.heap id = .ok b' ∧ b'.items.length = b.items.length ∧
    b'.isObj = b.isObj ∧ b'.cap = b.cap

theorem SameDom.liveV {σ σ' : State} (d : SameDom σ σ') {v : V} (hv : LiveV σ.heap v) : LiveV σ'.heap v := by
  intro id hid
  obtain ⟨b, hb, hk⟩ := hv id hid
  obtain ⟨b', hb', _, e2, _⟩ := d.2.2 id b hb
  exact ⟨b', hb', by rw [e2]; exact hk⟩

theorem SameDom.validLoc {σ σ' : State} (d : SameDom σ σ') {l : Loc} (hl : ValidLoc σ l) : ValidLoc σ' l := by
  cases l with
  | slot k => simp only [ValidLoc] at hl ⊢; rw [d.1]; exact hl
  | item id i =>
    obtain ⟨b, hb, hi⟩ := hl
    obtain ⟨b', hb', hlen, _⟩ := d.2.2 id b hb
    exact ⟨b', hb', by omega⟩

theorem Inv.writeLoc {σ : State} {T : List V} {v : V} {l : Loc} (inv : Inv σ (v :: T)) (hl : ValidLoc σ l)
    (hacyc : ∀ id c, parentOf l = some id → handleOf v = some c → ¬ Reach σ.heap c id) :
    ∃ σ' old, readLoc σ l = .ok old ∧ Var.writeLoc σ l v = .ok σ' ∧ Inv σ' (old :: T) ∧ SameDom σ σ' ∧
      readLoc σ' l = .ok v := by
  cases l with
  | slot k =>
    simp only [ValidLoc] at hl
    refine ⟨{ σ with slots := σ.slots.set k v }, σ.slots[k], by simp [readLoc, hl], by simp [Var.writeLoc, hl], ?_, ?_, ?_⟩
    · refine ⟨?_, inv.sorted, inv.ranked⟩
      apply inv.wf.congr
      · intro x hx
        simp only [List.mem_append, List.mem_cons] at hx ⊢
        rcases hx with hx | rfl | hx
        · rcases List.mem_or_eq_of_mem_set hx with h1 | rfl
          · exact Or.inl h1
          · exact Or.inr (Or.inl rfl)
        · exact Or.inl (List.getElem_mem hl)
        · exact Or.inr (Or.inr hx)
      · intro id
        have := occ_set id σ.slots k v hl
        simp only [occ_append, occ_cons, occ_nil] at this ⊢
        omega
    · exact ⟨by simp, rfl, fun id b hb => ⟨b, hb, rfl, rfl, rfl⟩⟩
    · simp [readLoc, hl]
  | item id i =>
    obtain ⟨b, hb, hi⟩ := hl
    have hlt := getB_lt hb
    have hbe := getB_eq.mp hb
    let b' : Block := { b with items := Map.setValAt b.items i v }
    have hbv : bvals b' = (bvals b).set i v := by simp [bvals, b', map_snd_setValAt]
    have hold : (bvals b)[i]'(by simp [bvals, hi]) = b.items[i].2 := by simp [bvals]
    have hcset := fun x => occ_set x (bvals b) i v (by simp [bvals, hi])
    have hhset := fun x => occ_hvals_set x σ.heap id (some b') hlt
    simp only [hbe, Option.getD_some, ovals, hbv] at hhset
    refine ⟨{ σ with heap := setB σ.heap id b' }, b.items[i].2, by simp [readLoc, hb, hi],
      by simp [Var.writeLoc, hb, hi, b'], ?_, ?_, ?_⟩
    · refine ⟨⟨?_, ?_, ?_⟩, ?_, ?_⟩
      · intro x hx id' hid'
        have hx' : x ∈ σ.slots ++ v :: T ∨ x ∈ hvals σ.heap := by
          rcases hx with hx | hx
          · simp only [List.mem_append, List.mem_cons] at hx ⊢
            rcases hx with hx | rfl | hx
            · exact Or.inl (Or.inl hx)
            · exact Or.inr (mem_hvals_of_getB hb (List.mem_map_of_mem (List.getElem_mem hi)))
            · exact Or.inl (Or.inr (Or.inr hx))
          · rcases mem_hvals_set hx with h1 | h1
            · exact Or.inr h1
            · simp only [ovals, hbv] at h1
              rcases List.mem_or_eq_of_mem_set h1 with h2 | rfl
              · exact Or.inr (mem_hvals_of_getB hb h2)
              · exact Or.inl (by simp)
        obtain ⟨b2, hb2, hk2⟩ := inv.wf.live x hx' id' hid'
        by_cases he : id' = id
        · subst he
          rw [hb] at hb2; cases hb2
          exact ⟨b', getB_setB_same _ hlt, hk2⟩
        · exact ⟨b2, by rw [setB, getB_set_ne _ he]; exact hb2, hk2⟩
      · intro id' b2 hb2
        have h1 := hcset id'
        have h2 := hhset id'
        simp only [hold] at h1
        by_cases he : id' = id
        · subst he
          rw [getB_setB_same _ hlt] at hb2; cases hb2
          have hc := inv.wf.counted id' b hb
          simp only [occ_append, occ_cons, occ_nil] at hc h1 h2 ⊢
          show b.rc = _
          unfold setB
          omega
        · rw [setB, getB_set_ne _ he] at hb2
          have hc := inv.wf.counted id' b2 hb2
          simp only [occ_append, occ_cons, occ_nil] at hc h1 h2 ⊢
          unfold setB
          omega
      · intro id' b2 hb2
        by_cases he : id' = id
        · subst he
          rw [getB_setB_same _ hlt] at hb2; cases hb2
          exact inv.wf.pos id' b hb
        · rw [setB, getB_set_ne _ he] at hb2
          exact inv.wf.pos id' b2 hb2
      · intro id' b2 hb2 ho
        by_cases he : id' = id
        · subst he
          rw [getB_setB_same _ hlt] at hb2; cases hb2
          exact AslProofs.Map.setValAt_sorted (inv.sorted id' b hb ho) i v
        · rw [setB, getB_set_ne _ he] at hb2
          exact inv.sorted id' b2 hb2 ho
      · -- acyclicity: the only new edge is `id → handle of v`
        cases hv : handleOf v with
        | none =>
          apply inv.ranked.mono
          intro x y e
          rcases Edge.setB hb e with ⟨_, e0⟩ | ⟨rfl, w, hw, hwy⟩
          · exact e0
          · rw [hbv] at hw
            rcases List.mem_or_eq_of_mem_set hw with h2 | rfl
            · exact ⟨b, hb, w, h2, hwy⟩
            · rw [hv] at hwy; cases hwy
        | some c =>
          apply Ranked.addEdge (B := id) (c := c) _ (hacyc id c rfl hv) inv.ranked
          intro x y e
          rcases Edge.setB hb e with ⟨_, e0⟩ | ⟨rfl, w, hw, hwy⟩
          · exact Or.inl e0
          · rw [hbv] at hw
            rcases List.mem_or_eq_of_mem_set hw with h2 | rfl
            · exact Or.inl ⟨b, hb, w, h2, hwy⟩
            · rw [hv] at hwy; cases hwy; exact Or.inr ⟨rfl, rfl⟩
    · refine ⟨rfl, by simp [setB], fun id' b2 hb2 => ?_⟩
      by_cases he : id' = id
      · subst he
        rw [hb] at hb2; cases hb2
        exact ⟨b', getB_setB_same _ hlt, by simp [b', AslProofs.Map.setValAt_length], rfl, rfl⟩
      · exact ⟨b2, by rw [setB, getB_set_ne _ he]; exact hb2, rfl, rfl, rfl⟩
    · have hi' : i < (Map.setValAt b.items i v).length := by rw [AslProofs.Map.setValAt_length]; exact hi
      have : ((Map.setValAt b.items i v)[i]'hi').2 = v := by
        have := congrArg (fun l => l[i]?) (map_snd_setValAt b.items i v)
        simp [hi, hi'] at this
        exact this
      simp [readLoc, getB_setB_same _ hlt, b', hi', this]


/-! ## the invariant through copy, destruction, assignment -/

theorem SortedHeap.of_sub {h h' : Heap} (sub : SubItems h h') (sh : SortedHeap h) : SortedHeap h' := by
  intro id b' hb' ho
  obtain ⟨b, hb, e1, e2, _⟩ := sub.2 id b' hb'
  rw [e1]; exact sh id b hb (by rw [← e2]; exact ho)

theorem NoSelf.of_sub {h h' : Heap} (sub : SubItems h h') (ns : NoSelf h) : NoSelf h' := by
  intro id b' hb' v hv
  obtain ⟨b, hb, e1, _, _⟩ := sub.2 id b' hb'
  exact ns id b hb v (by simpa [bvals, e1] using hv)

/-- a value that may be the argument of a copy: a scalar, or a handle some Var of the state holds -/
def Held (σ : State) (T : List V) (v : V) : Prop := handleOf v = none ∨ v ∈ σ.slots ++ T ∨ v ∈ hvals σ.heap

theorem Held.live {σ : State} {T : List V} {v : V} (inv : Inv σ T) (hv : Held σ T v) : LiveV σ.heap v := by
  rcases hv with hv | hv
  · intro id hid; rw [hv] at hid; cases hid
  · exact inv.wf.liveV hv

theorem Inv.copyLive {σ : State} {T : List V} {v : V} (inv : Inv σ T) (hv : LiveV σ.heap v) :
    ∃ h', Var.copyV σ.heap v = .ok h' ∧ Inv { σ with heap := h' } (v :: T) ∧ SameItems σ.heap h' := by
  obtain ⟨h', hc, wf', same⟩ := inv.wf.copyV hv
  refine ⟨h', hc, ⟨?_, SortedHeap.of_sub (SubItems.of_same same) inv.sorted, Ranked.of_sub (SubItems.of_same same) inv.ranked⟩, same⟩
  apply wf'.congr
  · intro x hx; simp only [List.mem_append, List.mem_cons] at hx ⊢; rcases hx with h1 | h1 | h1 <;> simp [h1]
  · intro id; simp only [occ_append, occ_cons]; omega

theorem Inv.copyV {σ : State} {T : List V} {v : V} (inv : Inv σ T) (hv : Held σ T v) :
    ∃ h', Var.copyV σ.heap v = .ok h' ∧ Inv { σ with heap := h' } (v :: T) ∧ SameItems σ.heap h' := by
  rcases hv with hv | hv
  · refine ⟨σ.heap, by simp [Var.copyV, hv], ⟨?_, inv.sorted, inv.ranked⟩, SameItems.refl _⟩
    apply ((WF.cons_scalar (h := σ.heap) (R := σ.slots ++ T) hv).mpr inv.wf).congr
    · intro x hx; simp only [List.mem_append, List.mem_cons] at hx ⊢; rcases hx with h1 | h1 | h1 <;> simp [h1]
    · intro id; simp only [occ_append, occ_cons]; omega
  · obtain ⟨h', hc, wf', same⟩ := inv.wf.copyV (inv.wf.liveV hv)
    refine ⟨h', hc, ⟨?_, SortedHeap.of_sub (SubItems.of_same same) inv.sorted, Ranked.of_sub (SubItems.of_same same) inv.ranked⟩, same⟩
    apply wf'.congr
    · intro x hx; simp only [List.mem_append, List.mem_cons] at hx ⊢; rcases hx with h1 | h1 | h1 <;> simp [h1]
    · intro id; simp only [occ_append, occ_cons]; omega

theorem Inv.drop {σ : State} {T wl : List V} (inv : Inv σ (wl ++ T)) :
    ∃ h', Var.drop σ.heap wl = .ok h' ∧ Inv { σ with heap := h' } T ∧ SubItems σ.heap h' := by
  have wf0 : WF σ.heap (wl ++ (σ.slots ++ T)) := by
    apply inv.wf.congr
    · intro x hx; simp only [List.mem_append] at hx ⊢; rcases hx with h1 | h1 | h1 <;> simp [h1]
    · intro id; simp only [occ_append]; omega
  obtain ⟨h', hd, wf', sub⟩ := wf0.drop
  exact ⟨h', hd, ⟨wf', SortedHeap.of_sub sub inv.sorted, Ranked.of_sub sub inv.ranked⟩, sub⟩

theorem Inv.perm {σ : State} {T T' : List V} (inv : Inv σ T) (hm : ∀ v, v ∈ T' → v ∈ T) (hc : ∀ id, occ id T' = occ id T) :
    Inv σ T' :=
  ⟨inv.wf.congr (fun x hx => by simp only [List.mem_append] at hx ⊢; rcases hx with h1 | h1; exact Or.inl h1; exact Or.inr (hm x h1))
    (fun id => by simp only [occ_append, hc]), inv.sorted, inv.ranked⟩

theorem Inv.scalar {σ : State} {T : List V} {v : V} (hv : handleOf v = none) : Inv σ (v :: T) ↔ Inv σ T := by
  constructor
  · intro inv; exact inv.perm (fun x hx => List.mem_cons_of_mem _ hx) (fun id => by simp [occ_cons, hv])
  · intro inv
    refine ⟨?_, inv.sorted, inv.ranked⟩
    have := (WF.cons_scalar (h := σ.heap) (R := σ.slots ++ T) hv).mpr inv.wf
    apply this.congr
    · intro x hx; simp only [List.mem_append, List.mem_cons] at hx ⊢; rcases hx with h1 | h1 | h1 <;> simp [h1]
    · intro id; simp only [occ_append, occ_cons]; omega

/-- `storeV`: write, then release what the Var held -/
theorem Inv.storeV {σ : State} {T : List V} {v : V} {t : Loc} (inv : Inv σ (v :: T)) (hl : ValidLoc σ t)
    (hacyc : ∀ id c, parentOf t = some id → handleOf v = some c → ¬ Reach σ.heap c id) :
    ∃ σ', Var.storeV σ t v = .ok σ' ∧ Inv σ' T ∧ σ'.slots.length = σ.slots.length := by
  obtain ⟨σ1, old, hr, hw, inv1, dom, _⟩ := inv.writeLoc hl hacyc
  obtain ⟨h', hd, inv2, _⟩ := Inv.drop (σ := σ1) (wl := [old]) (T := T) (by simpa using inv1)
  refine ⟨{ σ1 with heap := h' }, ?_, inv2, dom.1⟩
  simp [Var.storeV, hr, hw, hd]

theorem Inv.assignScalar {σ : State} {T : List V} {v : V} {t : Loc} (inv : Inv σ T) (hl : ValidLoc σ t)
    (hv : handleOf v = none) :
    ∃ σ', Var.assignScalar σ t v = .ok σ' ∧ Inv σ' T ∧ σ'.slots.length = σ.slots.length :=
  Inv.storeV ((Inv.scalar hv).mpr inv) hl (fun _ _ _ h => by rw [hv] at h; cases h)

theorem Inv.assignString {σ : State} {T : List V} {s : Bytes} {t : Loc} (inv : Inv σ T) (hl : ValidLoc σ t) :
    ∃ σ', Var.assignString σ t s = .ok σ' ∧ Inv σ' T ∧ σ'.slots.length = σ.slots.length := by
  obtain ⟨old, hr, _⟩ := readLoc_valid hl T
  have inplace : ∀ nv : V, handleOf nv = none → handleOf old = none →
      ∃ σ', Var.writeLoc σ t nv = .ok σ' ∧ Inv σ' T ∧ σ'.slots.length = σ.slots.length := by
    intro nv hnv hold
    obtain ⟨σ1, old', hr', hw, inv1, dom, _⟩ := ((Inv.scalar hnv).mpr inv).writeLoc hl (fun _ _ _ h => by rw [hnv] at h; cases h)
    rw [hr] at hr'; cases hr'
    exact ⟨σ1, hw, (Inv.scalar hold).mp inv1, dom.1⟩
  unfold Var.assignString
  rw [hr]
  cases old with
  | str x => exact inplace _ rfl rfl
  | sstr x =>
    simp only []
    split
    · exact inplace _ rfl rfl
    · exact inplace _ rfl rfl
  | none => exact Inv.storeV ((Inv.scalar (by split <;> rfl)).mpr inv) hl (fun _ _ _ h => by split at h <;> cases h)
  | null => exact Inv.storeV ((Inv.scalar (by split <;> rfl)).mpr inv) hl (fun _ _ _ h => by split at h <;> cases h)
  | bool _ => exact Inv.storeV ((Inv.scalar (by split <;> rfl)).mpr inv) hl (fun _ _ _ h => by split at h <;> cases h)
  | int _ => exact Inv.storeV ((Inv.scalar (by split <;> rfl)).mpr inv) hl (fun _ _ _ h => by split at h <;> cases h)
  | num _ => exact Inv.storeV ((Inv.scalar (by split <;> rfl)).mpr inv) hl (fun _ _ _ h => by split at h <;> cases h)
  | flt _ => exact Inv.storeV ((Inv.scalar (by split <;> rfl)).mpr inv) hl (fun _ _ _ h => by split at h <;> cases h)
  | arr _ => exact Inv.storeV ((Inv.scalar (by split <;> rfl)).mpr inv) hl (fun _ _ _ h => by split at h <;> cases h)
  | obj _ => exact Inv.storeV ((Inv.scalar (by split <;> rfl)).mpr inv) hl (fun _ _ _ h => by split at h <;> cases h)


theorem SameDom.of_same {σ : State} {h' : Heap} (e : SameItems σ.heap h') : SameDom σ { σ with heap := h' } :=
  ⟨rfl, e.length.symm, fun id b hb => by
    obtain ⟨b', hb', e1, e2, e3⟩ := e.get hb
    exact ⟨b', hb', by rw [e1], e2, e3⟩⟩

theorem readLoc_same {σ : State} {h' : Heap} (e : SameItems σ.heap h') (l : Loc) {v : V} (hr : readLoc σ l = .ok v) :
    readLoc { σ with heap := h' } l = .ok v := by
  cases l with
  | slot k => simpa [readLoc] using hr
  | item id i =>
    simp only [readLoc] at hr ⊢
    cases hb : getB σ.heap id with
    | error e => simp [hb] at hr
    | ok b =>
      obtain ⟨b', hb', e1, _, _⟩ := e.get hb
      simp only [hb] at hr
      simp only [hb', e1]
      exact hr

theorem isPod_handle {v : V} (h : isPod v = true) : handleOf v = none := by
  cases v <;> simp [isPod] at h <;> rfl

/-- `operator=(const Var&)`: safe for every held source, also one stored inside the target -/
theorem Inv.assignV {σ : State} {T : List V} {t : Loc} {src : V} (inv : Inv σ T) (hl : ValidLoc σ t) (hs : LiveV σ.heap src)
    (hacyc : ∀ id c, parentOf t = some id → handleOf src = some c → ¬ Reach σ.heap c id) :
    ∃ σ', Var.assignV σ t src = .ok σ' ∧ Inv σ' T ∧ σ'.slots.length = σ.slots.length := by
  obtain ⟨old, hr, _⟩ := readLoc_valid hl T
  have inplace : ∀ s : Bytes, handleOf old = none →
      ∃ σ', Var.writeLoc σ t (V.str s) = .ok σ' ∧ Inv σ' T ∧ σ'.slots.length = σ.slots.length := by
    intro s hold
    obtain ⟨σ1, old', hr', hw, inv1, dom, _⟩ := ((Inv.scalar (v := V.str s) rfl).mpr inv).writeLoc hl (fun _ _ _ h => by cases h)
    rw [hr] at hr'; cases hr'
    exact ⟨σ1, hw, (Inv.scalar hold).mp inv1, dom.1⟩
  unfold Var.assignV
  rw [hr]
  dsimp only
  split
  · -- STRING := STRING in place
    exact inplace _ rfl
  · obtain ⟨h1, hc, inv1, same⟩ := inv.copyLive hs
    simp only [hc]
    have hl1 : ValidLoc { σ with heap := h1 } t := (SameDom.of_same same).validLoc hl
    obtain ⟨σ2, old', hr', hw, inv2, dom, _⟩ := inv1.writeLoc hl1
      (fun id c hp hc r => hacyc id c hp hc ((Reach.of_same same).mp r))
    rw [readLoc_same same t hr] at hr'; cases hr'
    simp only [hw]
    by_cases hp : isPod old = true
    · simp only [hp, if_true]
      exact ⟨σ2, rfl, (Inv.scalar (isPod_handle hp)).mp inv2, dom.1⟩
    · simp only [hp]
      obtain ⟨h3, hd, inv3, _⟩ := Inv.drop (σ := σ2) (wl := [old]) (T := T) (by simpa using inv2)
      simp only [hd]
      exact ⟨_, rfl, inv3, dom.1⟩


/-! ## changing the elements of one block -/

/-- Replace the elements of block `id`: the operation gives up the owned values `A` (they go into the block) and
receives `B` (they come out of it); handles are neither created nor lost. -/
theorem Inv.reitems {σ : State} {T A B : List V} {id : Nat} {b : Block} {items' : List (Bytes × V)} {cap' : Nat}
    (inv : Inv σ (A ++ T)) (hb : getB σ.heap id = .ok b)
    (hcount : ∀ j, occ j (items'.map (·.2)) + occ j B = occ j (bvals b) + occ j A)
    (hmem : ∀ v, v ∈ items'.map (·.2) ++ B → handleOf v = none ∨ v ∈ bvals b ++ A)
    (hsorted : b.isObj = true → SortedItems items')
    (a : V)
    (hnew : ∀ v ∈ items'.map (·.2), v ∈ bvals b ∨ handleOf v = none ∨ v = a)
    (hacyc : ∀ c, handleOf a = some c → ¬ Reach σ.heap c id) :
    Inv { σ with heap := setB σ.heap id { b with items := items', cap := cap' } } (B ++ T) := by
  have hlt := getB_lt hb
  have hbe := getB_eq.mp hb
  have hhset := fun x => occ_hvals_set x σ.heap id (some { b with items := items', cap := cap' }) hlt
  simp only [hbe, Option.getD_some, ovals] at hhset
  have hbv : bvals { b with items := items', cap := cap' } = items'.map (·.2) := rfl
  refine ⟨⟨?_, ?_, ?_⟩, ?_, ?_⟩
  · intro x hx id' hid'
    have hx' : x ∈ σ.slots ++ (A ++ T) ∨ x ∈ hvals σ.heap := by
      rcases hx with hx | hx
      · simp only [List.mem_append] at hx ⊢
        rcases hx with hx | hx | hx
        · exact Or.inl (Or.inl hx)
        · have := hmem x (by simp [hx])
          simp only [List.mem_append] at this
          rcases this with h0 | h1 | h1
          · rw [h0] at hid'; cases hid'
          · exact Or.inr (mem_hvals_of_getB hb h1)
          · exact Or.inl (Or.inr (Or.inl h1))
        · exact Or.inl (Or.inr (Or.inr hx))
      · rcases mem_hvals_set hx with h1 | h1
        · exact Or.inr h1
        · simp only [ovals, hbv] at h1
          have := hmem x (by simp [h1])
          simp only [List.mem_append] at this
          rcases this with h0 | h2 | h2
          · rw [h0] at hid'; cases hid'
          · exact Or.inr (mem_hvals_of_getB hb h2)
          · exact Or.inl (by simp [h2])
    obtain ⟨b2, hb2, hk2⟩ := inv.wf.live x hx' id' hid'
    by_cases he : id' = id
    · subst he
      rw [hb] at hb2; cases hb2
      exact ⟨_, getB_setB_same _ hlt, hk2⟩
    · exact ⟨b2, by rw [setB, getB_set_ne _ he]; exact hb2, hk2⟩
  · intro id' b2 hb2
    have h1 := hcount id'
    have h2 := hhset id'
    by_cases he : id' = id
    · subst he
      rw [getB_setB_same _ hlt] at hb2; cases hb2
      have hc := inv.wf.counted id' b hb
      simp only [occ_append, hbv] at hc h1 h2 ⊢
      show b.rc = _
      unfold setB
      omega
    · rw [setB, getB_set_ne _ he] at hb2
      have hc := inv.wf.counted id' b2 hb2
      simp only [occ_append, hbv] at hc h1 h2 ⊢
      unfold setB
      omega
  · intro id' b2 hb2
    by_cases he : id' = id
    · subst he
      rw [getB_setB_same _ hlt] at hb2; cases hb2
      exact inv.wf.pos id' b hb
    · rw [setB, getB_set_ne _ he] at hb2
      exact inv.wf.pos id' b2 hb2
  · intro id' b2 hb2 ho
    by_cases he : id' = id
    · subst he
      rw [getB_setB_same _ hlt] at hb2; cases hb2
      exact hsorted ho
    · rw [setB, getB_set_ne _ he] at hb2
      exact inv.sorted id' b2 hb2 ho
  · have hedges : ∀ x y, Edge (setB σ.heap id { b with items := items', cap := cap' }) x y →
        Edge σ.heap x y ∨ (x = id ∧ handleOf a = some y) := by
      intro x y e
      rcases Edge.setB hb e with ⟨_, e0⟩ | ⟨rfl, w, hw, hwy⟩
      · exact Or.inl e0
      · rcases hnew w hw with h1 | h1 | h1
        · exact Or.inl ⟨b, hb, w, h1, hwy⟩
        · rw [h1] at hwy; cases hwy
        · subst h1; exact Or.inr ⟨rfl, hwy⟩
    cases ha : handleOf a with
    | none =>
      apply inv.ranked.mono
      intro x y e
      rcases hedges x y e with e0 | ⟨_, h1⟩
      · exact e0
      · rw [ha] at h1; cases h1
    | some c =>
      apply Ranked.addEdge (B := id) (c := c) _ (hacyc c ha) inv.ranked
      intro x y e
      rcases hedges x y e with e0 | ⟨h0, h1⟩
      · exact Or.inl e0
      · rw [ha] at h1; cases h1; exact Or.inr ⟨h0, rfl⟩

theorem handleOf_mkHandle (o : Bool) (n : Nat) : handleOf (mkHandle o n) = some n := by
  unfold mkHandle; split <;> rfl

theorem isObjV_mkHandle (o : Bool) (n : Nat) : isObjV (mkHandle o n) = o := by
  unfold mkHandle; cases o <;> rfl

theorem occ_zero_of_lt {N : Nat} {l : List V} (hl : ∀ v ∈ l, ∀ id, handleOf v = some id → id < N) : occ N l = 0 := by
  rw [occ_eq_zero_iff]
  intro v hv e
  have := hl v hv N e
  omega

theorem WF.handle_lt {h : Heap} {R : List V} (wf : WF h R) {v : V} (hv : v ∈ R ∨ v ∈ hvals h) {id : Nat}
    (hid : handleOf v = some id) : id < h.length := by
  obtain ⟨b, hb, _⟩ := wf.live v hv id hid
  exact getB_lt hb

/-- a new block takes over the owned values `bvals b`; its handle is a new owned value -/
theorem Inv.alloc {σ : State} {T : List V} {b : Block} (inv : Inv σ (bvals b ++ T)) (hrc : b.rc = 1)
    (hs : b.isObj = true → SortedItems b.items) :
    Inv { σ with heap := σ.heap ++ [some b] } (mkHandle b.isObj σ.heap.length :: T) := by
  have hlive : ∀ x, (x ∈ σ.slots ++ (bvals b ++ T) ∨ x ∈ hvals σ.heap) → ∀ id, handleOf x = some id → id < σ.heap.length :=
    fun x hx id hid => inv.wf.handle_lt hx hid
  refine ⟨⟨?_, ?_, ?_⟩, ?_, ?_⟩
  · intro x hx id' hid'
    simp only [hvals_append, hvals_cons, hvals_nil, ovals, List.append_nil] at hx
    by_cases hx0 : x = mkHandle b.isObj σ.heap.length
    · subst hx0
      rw [handleOf_mkHandle] at hid'; cases hid'
      exact ⟨b, getB_alloc_new _ _, (isObjV_mkHandle _ _).symm⟩
    · have hx' : x ∈ σ.slots ++ (bvals b ++ T) ∨ x ∈ hvals σ.heap := by
        simp only [List.mem_append, List.mem_cons] at hx ⊢
        rcases hx with (h1 | h1 | h1) | h1 | h1
        · exact Or.inl (Or.inl h1)
        · exact absurd h1 hx0
        · exact Or.inl (Or.inr (Or.inr h1))
        · exact Or.inr h1
        · exact Or.inl (Or.inr (Or.inl h1))
      obtain ⟨b2, hb2, hk2⟩ := inv.wf.live x hx' id' hid'
      exact ⟨b2, by rw [getB_append_left _ (getB_lt hb2)]; exact hb2, hk2⟩
  · intro id' b2 hb2
    simp only [hvals_append, hvals_cons, hvals_nil, ovals, List.append_nil, occ_append, occ_cons, handleOf_mkHandle]
    by_cases he : id' = σ.heap.length
    · subst he
      rw [getB_alloc_new] at hb2; cases hb2
      have z1 : occ σ.heap.length σ.slots = 0 := occ_zero_of_lt (fun v hv => hlive v (Or.inl (by simp [hv])))
      have z2 : occ σ.heap.length T = 0 := occ_zero_of_lt (fun v hv => hlive v (Or.inl (by simp [hv])))
      have z3 : occ σ.heap.length (hvals σ.heap) = 0 := occ_zero_of_lt (fun v hv => hlive v (Or.inr hv))
      have z4 : occ σ.heap.length (bvals b) = 0 := occ_zero_of_lt (fun v hv => hlive v (Or.inl (by simp [hv])))
      simp [z1, z2, z3, z4, hrc]
    · have hlt : id' < σ.heap.length := by
        have := getB_lt hb2
        simp at this; omega
      rw [getB_append_left _ hlt] at hb2
      have hc := inv.wf.counted id' b2 hb2
      simp only [occ_append] at hc
      have : ¬ (some σ.heap.length = some id') := by intro e; cases e; exact he rfl
      simp only [this, if_false]
      omega
  · intro id' b2 hb2
    by_cases he : id' = σ.heap.length
    · subst he
      rw [getB_alloc_new] at hb2; cases hb2; omega
    · have hlt : id' < σ.heap.length := by
        have := getB_lt hb2
        simp at this; omega
      rw [getB_append_left _ hlt] at hb2
      exact inv.wf.pos id' b2 hb2
  · intro id' b2 hb2 ho
    by_cases he : id' = σ.heap.length
    · subst he
      rw [getB_alloc_new] at hb2; cases hb2; exact hs ho
    · have hlt : id' < σ.heap.length := by
        have := getB_lt hb2
        simp at this; omega
      rw [getB_append_left _ hlt] at hb2
      exact inv.sorted id' b2 hb2 ho
  · apply inv.ranked.fresh
    · intro v hv c hc
      exact hlive v (Or.inl (by simp [hv])) c hc
    · intro x y e
      obtain ⟨bx, hbx, v, hv, hid⟩ := e
      exact hlive v (Or.inr (mem_hvals_of_getB hbx hv)) y hid




/-! ## a block that moves -/

theorem hvals_snoc (h : Heap) (ob : Option Block) : hvals (h ++ [ob]) = hvals h ++ ovals ob := by
  simp [hvals_append, hvals_cons, hvals_nil]

/-- the block `id`, referenced only by the owned handle `hd`, moves to a new id (same elements, new capacity) -/
theorem Inv.moveBlock {σ : State} {T : List V} {id : Nat} {b : Block} (newcap : Nat)
    (inv : Inv σ (mkHandle b.isObj id :: T)) (hb : getB σ.heap id = .ok b) (hrc : b.rc = 1) :
    Inv { σ with heap := (σ.heap.set id none) ++ [some { b with cap := newcap }] }
      (mkHandle b.isObj σ.heap.length :: T) := by
  have hlt := getB_lt hb
  have hbe := getB_eq.mp hb
  have hcnt := inv.wf.counted id b hb
  simp only [occ_append, occ_cons, handleOf_mkHandle, if_true] at hcnt
  have z1 : occ id σ.slots = 0 := by omega
  have z2 : occ id T = 0 := by omega
  have z3 : occ id (hvals σ.heap) = 0 := by omega
  have hset := fun x => occ_hvals_set x σ.heap id none hlt
  simp only [hbe, Option.getD_some, ovals, occ_nil] at hset
  have hlive : ∀ x, (x ∈ σ.slots ++ (mkHandle b.isObj id :: T) ∨ x ∈ hvals σ.heap) → ∀ j, handleOf x = some j → j < σ.heap.length :=
    fun x hx j hj => inv.wf.handle_lt hx hj
  have hlen : (σ.heap.set id none).length = σ.heap.length := by simp
  -- every remaining handle differs from `id`
  have hne : ∀ x, (x ∈ σ.slots ∨ x ∈ T ∨ x ∈ hvals σ.heap) → handleOf x ≠ some id := by
    intro x hx
    rcases hx with hx | hx | hx
    · exact (occ_eq_zero_iff _ _).mp z1 x hx
    · exact (occ_eq_zero_iff _ _).mp z2 x hx
    · exact (occ_eq_zero_iff _ _).mp z3 x hx
  have getOld : ∀ j, j ≠ id → j < σ.heap.length →
      getB ((σ.heap.set id none) ++ [some { b with cap := newcap }]) j = getB σ.heap j := by
    intro j hj hjl
    rw [getB_append_left _ (by simpa using hjl), getB_set_ne _ hj]
  have getNew : getB ((σ.heap.set id none) ++ [some { b with cap := newcap }]) σ.heap.length = .ok { b with cap := newcap } := by
    have := getB_alloc_new (σ.heap.set id none) { b with cap := newcap }
    rwa [hlen] at this
  have liveCases : ∀ j b2, getB ((σ.heap.set id none) ++ [some { b with cap := newcap }]) j = .ok b2 →
      (j = σ.heap.length ∧ b2 = { b with cap := newcap }) ∨ (j ≠ id ∧ j < σ.heap.length ∧ getB σ.heap j = .ok b2) := by
    intro j b2 hb2
    by_cases hj : j = σ.heap.length
    · subst hj; rw [getNew] at hb2; cases hb2; exact Or.inl ⟨rfl, rfl⟩
    · have hjl : j < σ.heap.length := by
        have := getB_lt hb2
        simp at this; omega
      by_cases hji : j = id
      · subst hji
        rw [getB_append_left _ (by simpa using hjl)] at hb2
        exact absurd hb2 (getB_freeB_same b2)
      · rw [getOld j hji hjl] at hb2
        exact Or.inr ⟨hji, hjl, hb2⟩
  refine ⟨⟨?_, ?_, ?_⟩, ?_, ?_⟩
  · intro x hx j hj
    simp only [hvals_snoc, ovals] at hx
    by_cases hx0 : x = mkHandle b.isObj σ.heap.length
    · subst hx0
      rw [handleOf_mkHandle] at hj; cases hj
      exact ⟨_, getNew, (isObjV_mkHandle _ _).symm⟩
    · have hx' : x ∈ σ.slots ∨ x ∈ T ∨ x ∈ hvals σ.heap := by
        simp only [List.mem_append, List.mem_cons] at hx
        rcases hx with (h1 | h1 | h1) | h1 | h1
        · exact Or.inl h1
        · exact absurd h1 hx0
        · exact Or.inr (Or.inl h1)
        · rcases mem_hvals_set h1 with h2 | h2
          · exact Or.inr (Or.inr h2)
          · simp [ovals] at h2
        · exact Or.inr (Or.inr (mem_hvals_of_getB hb h1))
      have hx'' : x ∈ σ.slots ++ (mkHandle b.isObj id :: T) ∨ x ∈ hvals σ.heap := by
        rcases hx' with h1 | h1 | h1
        · exact Or.inl (by simp [h1])
        · exact Or.inl (by simp [h1])
        · exact Or.inr h1
      obtain ⟨b2, hb2, hk2⟩ := inv.wf.live x hx'' j hj
      have hji : j ≠ id := by intro e; subst e; exact hne x hx' hj
      exact ⟨b2, by rw [getOld j hji (getB_lt hb2)]; exact hb2, hk2⟩
  · intro j b2 hb2
    simp only [hvals_snoc, ovals, occ_append, occ_cons, handleOf_mkHandle]
    rcases liveCases j b2 hb2 with ⟨hj, hb2e⟩ | ⟨hji, hjl, hb2o⟩
    · subst hj; subst hb2e
      have y1 : occ σ.heap.length σ.slots = 0 := occ_zero_of_lt (fun v hv => hlive v (Or.inl (by simp [hv])))
      have y2 : occ σ.heap.length T = 0 := occ_zero_of_lt (fun v hv => hlive v (Or.inl (by simp [hv])))
      have y3 : occ σ.heap.length (hvals σ.heap) = 0 := occ_zero_of_lt (fun v hv => hlive v (Or.inr hv))
      have y4 := hset σ.heap.length
      have y5 : occ σ.heap.length (bvals b) = 0 :=
        occ_zero_of_lt (fun v hv => hlive v (Or.inr (mem_hvals_of_getB hb hv)))
      have y6 : bvals { b with cap := newcap } = bvals b := rfl
      simp only [y6]
      simp [y1, y2, y5, hrc]
      omega
    · have hc := inv.wf.counted j b2 hb2o
      have h4 := hset j
      have y6 : bvals { b with cap := newcap } = bvals b := rfl
      simp only [occ_append, occ_cons, handleOf_mkHandle, y6] at hc ⊢
      have e1 : ¬ (some id = some j) := by intro e; cases e; exact hji rfl
      have e2 : ¬ (some σ.heap.length = some j) := by intro e; cases e; omega
      simp only [e1, e2, if_false] at hc ⊢
      omega
  · intro j b2 hb2
    rcases liveCases j b2 hb2 with ⟨hj, hb2e⟩ | ⟨hji, hjl, hb2o⟩
    · subst hb2e; simp [hrc]
    · exact inv.wf.pos j b2 hb2o
  · intro j b2 hb2 ho
    rcases liveCases j b2 hb2 with ⟨hj, hb2e⟩ | ⟨hji, hjl, hb2o⟩
    · subst hb2e; exact inv.sorted id b hb ho
    · exact inv.sorted j b2 hb2o ho
  · -- the moved block keeps its rank; nothing else changes
    apply inv.ranked.rename (fun x => if x = σ.heap.length then id else x)
    intro x y e
    obtain ⟨bx, hbx, v, hv, hid⟩ := e
    rcases liveCases x bx hbx with ⟨hj, hb2e⟩ | ⟨hji, hjl, hb2o⟩
    · subst hb2e; subst hj
      have hy := hlive v (Or.inr (mem_hvals_of_getB hb hv)) y hid
      have hyn : y ≠ σ.heap.length := by omega
      simp only [if_true, hyn, if_false]
      exact ⟨b, hb, v, hv, hid⟩
    · have hy := hlive v (Or.inr (mem_hvals_of_getB hb2o hv)) y hid
      have hyn : y ≠ σ.heap.length := by omega
      have hxn : x ≠ σ.heap.length := by omega
      simp only [hxn, hyn, if_false]
      exact ⟨bx, hb2o, v, hv, hid⟩


theorem setValAt_setValAt : ∀ (l : List (Bytes × V)) (i : Nat) (a c : V),
    Map.setValAt (Map.setValAt l i a) i c = Map.setValAt l i c
  | [], _, _, _ => rfl
  | (k, _) :: t, 0, _, _ => rfl
  | kv :: t, i + 1, a, c => by simp [Map.setValAt, setValAt_setValAt t i a c]

theorem ValidLoc.parent_ne {σ : State} {T : List V} (inv : Inv σ T) {l : Loc} {v : V} {id : Nat}
    (hr : readLoc σ l = .ok v) (hv : handleOf v = some id) : parentOf l ≠ some id := by
  cases l with
  | slot k => simp [parentOf]
  | item P i =>
    simp only [parentOf, ne_eq, Option.some.injEq]
    intro e; subst e
    simp only [readLoc] at hr
    cases hb : getB σ.heap P with
    | error e => simp [hb] at hr
    | ok bP =>
      simp only [hb] at hr
      cases hi : bP.items[i]? with
      | none => simp [hi] at hr
      | some kv =>
        simp only [hi, Except.ok.injEq] at hr
        have hm : v ∈ bvals bP := by
          rw [← hr]; exact List.mem_map_of_mem (List.mem_of_getElem? hi)
        exact inv.noself P bP hb v hm hv

/-- edges of a heap in which block `id` was moved to the end -/
theorem edge_moved {h0 : Heap} {id newcap : Nat} {b : Block} (hb : getB h0 id = .ok b) {x y : Nat}
    (e : Edge ((h0.set id none) ++ [some { b with cap := newcap }]) x y) :
    (x = h0.length ∧ Edge h0 id y) ∨ (x ≠ id ∧ x < h0.length ∧ Edge h0 x y) := by
  obtain ⟨bx, hbx, v, hv, hid⟩ := e
  have hlen : (h0.set id none).length = h0.length := by simp
  by_cases hx : x = h0.length
  · subst hx
    have := getB_alloc_new (h0.set id none) { b with cap := newcap }
    rw [hlen] at this
    rw [this] at hbx; cases hbx
    exact Or.inl ⟨rfl, b, hb, v, hv, hid⟩
  · have hxl : x < h0.length := by
      have := getB_lt hbx
      simp at this; omega
    rw [getB_append_left _ (by simpa using hxl)] at hbx
    by_cases hxi : x = id
    · subst hxi; exact absurd hbx (getB_freeB_same bx)
    · rw [getB_set_ne _ hxi] at hbx
      exact Or.inr ⟨hxi, hxl, bx, hbx, v, hv, hid⟩

/-- overwriting an element with a value that is not a handle removes edges only -/
theorem edge_setScalar {h : Heap} {P i : Nat} {bP : Block} {w : V} (hbP : getB h P = .ok bP) (hw : handleOf w = none)
    {x y : Nat} (e : Edge (setB h P { bP with items := Map.setValAt bP.items i w }) x y) : Edge h x y := by
  rcases Edge.setB hbP e with ⟨_, e0⟩ | ⟨rfl, v, hv, hvy⟩
  · exact e0
  · simp only [bvals, map_snd_setValAt] at hv
    rcases List.mem_or_eq_of_mem_set hv with h2 | rfl
    · exact ⟨bP, hbP, v, h2, hvy⟩
    · rw [hw] at hvy; cases hvy

theorem relocate_unfold {σ : State} {l : Loc} {id newcap : Nat} {b : Block} (guard : Bool)
    (hb : getB σ.heap id = .ok b) (hrc : b.rc = 1) :
    Var.relocate guard σ l id newcap =
      match Var.writeLoc { σ with heap := (σ.heap.set id none) ++ [some { b with cap := newcap }] } l (mkHandle b.isObj σ.heap.length) with
      | .error e => .error e
      | .ok σ' => .ok (σ', σ.heap.length) := by
  have hlt := getB_lt hb
  have hg : (guard && decide (b.rc > 1)) = false := by simp [hrc]
  unfold Var.relocate
  simp only [hb, hg, allocB, freeB]
  rw [List.set_append_left _ _ hlt]
  rfl

/-- growth of a block that has a single handle: the block moves, the handle (the Var at `l`) follows -/
theorem Inv.relocate {σ : State} {T : List V} {l : Loc} {id newcap : Nat} {b : Block} (guard : Bool)
    (inv : Inv σ T) (hl : ValidLoc σ l) (hr : readLoc σ l = .ok (mkHandle b.isObj id))
    (hb : getB σ.heap id = .ok b) (hrc : b.rc = 1) :
    ∃ σ', Var.relocate guard σ l id newcap = .ok (σ', σ.heap.length) ∧ Inv σ' T ∧
      σ'.slots.length = σ.slots.length ∧ ValidLoc σ' l ∧
      readLoc σ' l = .ok (mkHandle b.isObj σ.heap.length) ∧
      getB σ'.heap σ.heap.length = .ok { b with cap := newcap } ∧
      (∀ v, LiveV σ.heap v → handleOf v ≠ some id → LiveV σ'.heap v) ∧
      (∀ x y, Edge σ'.heap x y →
        Edge σ.heap (if x = σ.heap.length then id else x) (if y = σ.heap.length then id else y)) := by
  have hliveE : ∀ x y, Edge σ.heap x y → y < σ.heap.length := by
    intro x y e
    obtain ⟨bx, hbx, v, hv, hid⟩ := e
    exact inv.wf.handle_lt (Or.inr (mem_hvals_of_getB hbx hv)) hid
  have hlt := getB_lt hb
  have hpar := ValidLoc.parent_ne inv hr (handleOf_mkHandle _ _)
  have moved : ∀ (h0 : Heap) (v : V), h0.length = σ.heap.length → LiveV h0 v → handleOf v ≠ some id →
      LiveV ((h0.set id none) ++ [some { b with cap := newcap }]) v := by
    intro h0 v hlen hv hne j hj
    obtain ⟨bj, hbj, hk⟩ := hv j hj
    have hji : j ≠ id := by intro e; subst e; exact hne hj
    exact ⟨bj, by rw [getB_append_left _ (by simpa using getB_lt hbj), getB_set_ne _ hji]; exact hbj, hk⟩
  rw [relocate_unfold guard hb hrc]
  cases l with
  | slot k =>
    simp only [ValidLoc] at hl
    -- 1. take the handle out of the Var, 2. move the block, 3. put the new handle in
    obtain ⟨σa, old, hra, hwa, inva, doma, _⟩ :=
      ((Inv.scalar (v := V.none) rfl).mpr inv).writeLoc (l := .slot k) hl (fun _ _ _ h => by cases h)
    rw [hr] at hra; cases hra
    simp only [Var.writeLoc, hl, if_true, Except.ok.injEq] at hwa
    subst hwa
    have invb := Inv.moveBlock newcap inva hb hrc
    have hlb : ValidLoc { heap := (σ.heap.set id none) ++ [some { b with cap := newcap }], slots := σ.slots.set k V.none } (.slot k) := by
      simp [ValidLoc, hl]
    obtain ⟨σc, old2, hrc2, hwc, invc, domc, hrc3⟩ := invb.writeLoc hlb (fun _ _ hP => by simp [parentOf] at hP)
    simp only [readLoc, List.getElem?_set_self hl, Except.ok.injEq] at hrc2
    subst hrc2
    simp only [Var.writeLoc, List.length_set, hl, if_true, List.set_set, Except.ok.injEq] at hwc
    subst hwc
    simp only [Var.writeLoc, hl, if_true]
    refine ⟨_, rfl, (Inv.scalar rfl).mp invc, by simp, by simp [ValidLoc, hl], by simp [readLoc, hl], ?_, ?_, ?_⟩
    · have := getB_alloc_new (σ.heap.set id none) { b with cap := newcap }
      simpa using this
    · intro v hv hne
      exact moved σ.heap v rfl hv hne
    · intro x y e
      rcases edge_moved hb e with ⟨hx, e0⟩ | ⟨_, hxl, e0⟩
      · have hy := hliveE _ _ e0
        have hyn : y ≠ σ.heap.length := by omega
        simp only [hx, if_true, hyn, if_false]; exact e0
      · have hy := hliveE _ _ e0
        have hyn : y ≠ σ.heap.length := by omega
        have hxn : x ≠ σ.heap.length := by omega
        simp only [hxn, hyn, if_false]; exact e0
  | item P i =>
    have hPi : P ≠ id := by intro e; exact hpar (by simp [parentOf, e])
    obtain ⟨bP, hbP, hi⟩ := hl
    have hPlt := getB_lt hbP
    obtain ⟨σa, old, hra, hwa, inva, doma, _⟩ :=
      ((Inv.scalar (v := V.none) rfl).mpr inv).writeLoc (l := .item P i) ⟨bP, hbP, hi⟩ (fun _ _ _ h => by cases h)
    rw [hr] at hra; cases hra
    simp only [Var.writeLoc, hbP, hi, if_true, Except.ok.injEq] at hwa
    subst hwa
    have hba : getB (setB σ.heap P { bP with items := Map.setValAt bP.items i V.none }) id = .ok b := by
      simp only [setB]; rw [getB_set_ne _ (Ne.symm hPi)]; exact hb
    have invb := Inv.moveBlock newcap inva hba hrc
    have g2 : getB (((setB σ.heap P { bP with items := Map.setValAt bP.items i V.none }).set id none) ++
        [some { b with cap := newcap }]) P = .ok { bP with items := Map.setValAt bP.items i V.none } := by
      rw [getB_append_left _ (by simp [setB]; exact hPlt), getB_set_ne _ hPi]
      exact getB_setB_same _ hPlt
    have hi2 : i < (Map.setValAt bP.items i V.none).length := by rw [AslProofs.Map.setValAt_length]; exact hi
    obtain ⟨σc, old2, hrc2, hwc, invc, domc, hrc3⟩ := invb.writeLoc (l := .item P i) ⟨_, g2, hi2⟩ (by
      -- a path from the moved block back to the block of `l` would be, in the original heap, a cycle through `l`
      intro P' c hP' hc r
      rw [handleOf_mkHandle] at hc
      simp only [parentOf, Option.some.injEq] at hP'; subst hP'
      have hc' := Option.some.inj hc
      have hlen1' : (setB σ.heap P { bP with items := Map.setValAt bP.items i V.none }).length = σ.heap.length := by simp [setB]
      have hlive : ∀ x y, Edge σ.heap x y → y < σ.heap.length := by
        intro x y e
        obtain ⟨bx, hbx, v, hv, hid⟩ := e
        exact inv.wf.handle_lt (Or.inr (mem_hvals_of_getB hbx hv)) hid
      have hmap : ∀ x y, Edge ((setB σ.heap P { bP with items := Map.setValAt bP.items i V.none }).set id none ++
            [some { b with cap := newcap }]) x y →
          Edge σ.heap (if x = σ.heap.length then id else x) (if y = σ.heap.length then id else y) := by
        intro x y e
        rcases edge_moved hba e with ⟨hx, e0⟩ | ⟨_, hxl, e0⟩
        · have e1 := edge_setScalar hbP rfl e0
          have hy := hlive _ _ e1
          have hyn : y ≠ σ.heap.length := by omega
          rw [hlen1'] at hx
          simp only [hx, if_true, hyn, if_false]
          exact e1
        · have e1 := edge_setScalar hbP rfl e0
          have hy := hlive _ _ e1
          have hyn : y ≠ σ.heap.length := by omega
          have hxn : x ≠ σ.heap.length := by rw [hlen1'] at hxl; omega
          simp only [hxn, hyn, if_false]
          exact e1
      have r' := Reach.rename _ hmap r
      rw [← hc'] at r'
      have hPn : P ≠ σ.heap.length := by omega
      simp only [hlen1', if_true, hPn, if_false] at r'
      obtain ⟨rank, hrk⟩ := inv.ranked
      have h1 := Reach.rank_le hrk r'
      have hedge : Edge σ.heap P id := by
        refine ⟨bP, hbP, mkHandle b.isObj id, ?_, handleOf_mkHandle _ _⟩
        simp only [readLoc, hbP] at hr
        cases hi' : bP.items[i]? with
        | none => simp [hi'] at hr
        | some kv =>
          simp only [hi', Except.ok.injEq] at hr
          rw [← hr]; exact List.mem_map_of_mem (List.mem_of_getElem? hi')
      have h2 := hrk _ _ hedge
      omega)
    have hold2 : old2 = V.none := by
      simp only [readLoc, g2] at hrc2
      have hx : ((Map.setValAt bP.items i V.none)[i]'hi2).2 = V.none := by
        have := congrArg (fun l => l[i]?) (map_snd_setValAt bP.items i V.none)
        simp [hi, hi2] at this
        exact this
      simp only [List.getElem?_eq_getElem hi2, hx, Except.ok.injEq] at hrc2
      exact hrc2.symm
    subst hold2
    simp only [Var.writeLoc, g2, hi2, if_true, setValAt_setValAt, Except.ok.injEq] at hwc
    have g1 : getB ((σ.heap.set id none) ++ [some { b with cap := newcap }]) P = .ok bP := by
      rw [getB_append_left _ (by simpa using hPlt), getB_set_ne _ hPi]; exact hbP
    simp only [Var.writeLoc, g1, hi, if_true]
    have hlen1 : (setB σ.heap P { bP with items := Map.setValAt bP.items i V.none }).length = σ.heap.length := by simp [setB]
    have hσc : σc = State.mk (setB ((σ.heap.set id none) ++ [some { b with cap := newcap }]) P
        { bP with items := Map.setValAt bP.items i (mkHandle b.isObj σ.heap.length) }) σ.slots := by
      rw [← hwc]
      simp only [hlen1]
      congr 1
      simp only [setB]
      apply List.ext_getElem?
      intro j
      by_cases hjP : j = P
      · subst hjP
        rw [List.getElem?_set_self (by simp; omega), List.getElem?_set_self (by simp; omega)]
      · rw [List.getElem?_set_ne (Ne.symm hjP), List.getElem?_set_ne (Ne.symm hjP)]
        by_cases hjl : j < σ.heap.length
        · rw [List.getElem?_append_left (by simpa using hjl), List.getElem?_append_left (by simpa using hjl)]
          by_cases hji : j = id
          · subst hji; simp [hjl]
          · rw [List.getElem?_set_ne (Ne.symm hji), List.getElem?_set_ne (Ne.symm hji), List.getElem?_set_ne (Ne.symm hjP)]
        · rw [List.getElem?_append_right (by simp; omega), List.getElem?_append_right (by simp; omega)]
          simp
    rw [← hσc]
    refine ⟨σc, rfl, (Inv.scalar rfl).mp invc, ?_, ?_, ?_, ?_, ?_, ?_⟩
    · rw [domc.1]
    · exact domc.validLoc ⟨_, g2, hi2⟩
    · rw [hlen1] at hrc3; exact hrc3
    · rw [hσc]
      have hNP : σ.heap.length ≠ P := by omega
      simp only [setB]
      rw [getB_set_ne _ hNP]
      have := getB_alloc_new (σ.heap.set id none) { b with cap := newcap }
      simpa using this
    · intro v hv hne
      exact domc.liveV (moved _ v hlen1 (doma.liveV hv) hne)
    · intro x y e
      rw [hσc] at e
      have hedgeP : Edge σ.heap P id := by
        refine ⟨bP, hbP, mkHandle b.isObj id, ?_, handleOf_mkHandle _ _⟩
        simp only [readLoc, hbP] at hr
        cases hi' : bP.items[i]? with
        | none => simp [hi'] at hr
        | some kv =>
          simp only [hi', Except.ok.injEq] at hr
          rw [← hr]; exact List.mem_map_of_mem (List.mem_of_getElem? hi')
      have hPn : P ≠ σ.heap.length := by omega
      rcases Edge.setB g1 e with ⟨hxP, e0⟩ | ⟨rfl, w, hw, hwy⟩
      · rcases edge_moved hb e0 with ⟨hx, e1⟩ | ⟨_, hxl, e1⟩
        · have hy := hliveE _ _ e1
          have hyn : y ≠ σ.heap.length := by omega
          simp only [hx, if_true, hyn, if_false]; exact e1
        · have hy := hliveE _ _ e1
          have hyn : y ≠ σ.heap.length := by omega
          have hxn : x ≠ σ.heap.length := by omega
          simp only [hxn, hyn, if_false]; exact e1
      · simp only [bvals, map_snd_setValAt] at hw
        simp only [hPn, if_false]
        rcases List.mem_or_eq_of_mem_set hw with h2 | rfl
        · have e1 : Edge σ.heap x y := ⟨bP, hbP, w, h2, hwy⟩
          have hy := hliveE _ _ e1
          have hyn : y ≠ σ.heap.length := by omega
          simp only [hyn, if_false]; exact e1
        · rw [handleOf_mkHandle] at hwy
          have := Option.some.inj hwy
          subst this
          simp only [if_true]; exact hedgeP


/-! ## growth: reserve, insert, resize -/

/-- outcome of an operation that may have moved block `b` (found at `id` through the Var at `l`) -/
structure Grown (σ σ' : State) (l : Loc) (b : Block) (id id' : Nat) : Prop where
  slots : σ'.slots.length = σ.slots.length
  valid : ValidLoc σ' l
  read : readLoc σ' l = .ok (mkHandle b.isObj id')
  blk : ∃ b', getB σ'.heap id' = .ok b' ∧ b'.items = b.items ∧ b'.isObj = b.isObj
  keeps : ∀ v, LiveV σ.heap v → handleOf v ≠ some id → LiveV σ'.heap v
  fresh : id' = id ∨ id' = σ.heap.length
  edges : ∀ x y, Edge σ'.heap x y → Edge σ.heap (if x = id' then id else x) (if y = id' then id else y)

theorem relocate_refused {σ : State} {l : Loc} {id newcap : Nat} {b : Block}
    (hb : getB σ.heap id = .ok b) (hrc : b.rc > 1) : Var.relocate true σ l id newcap = .error .sharedGrowth := by
  unfold Var.relocate
  simp [hb, hrc]

theorem Inv.growTo {σ : State} {T : List V} {l : Loc} {id newcap : Nat} {b : Block}
    (inv : Inv σ T) (hl : ValidLoc σ l) (hr : readLoc σ l = .ok (mkHandle b.isObj id)) (hb : getB σ.heap id = .ok b) :
    Var.relocate true σ l id newcap = .error .sharedGrowth ∨
    ∃ σ' id', Var.relocate true σ l id newcap = .ok (σ', id') ∧ Inv σ' T ∧ Grown σ σ' l b id id' ∧
      ∃ b', getB σ'.heap id' = .ok b' ∧ b'.items = b.items ∧ b'.cap = newcap := by
  by_cases hrc : b.rc > 1
  · exact Or.inl (relocate_refused hb hrc)
  · have hpos := inv.wf.pos id b hb
    have hrc1 : b.rc = 1 := by omega
    obtain ⟨σ', hrel, inv', hs, hv, hrd, hg, hkeep, hedges⟩ := inv.relocate (newcap := newcap) true hl hr hb hrc1
    exact Or.inr ⟨σ', _, hrel, inv', ⟨hs, hv, hrd, ⟨_, hg, rfl, rfl⟩, hkeep, Or.inr rfl, hedges⟩, _, hg, rfl, rfl⟩

theorem Grown.refl {σ : State} {l : Loc} {b : Block} {id : Nat} (hl : ValidLoc σ l)
    (hr : readLoc σ l = .ok (mkHandle b.isObj id)) (hb : getB σ.heap id = .ok b) : Grown σ σ l b id id :=
  ⟨rfl, hl, hr, ⟨b, hb, rfl, rfl⟩, fun _ hv _ => hv, Or.inl rfl, fun x y e => by
    have hx : (if x = id then id else x) = x := by split <;> simp_all
    have hy : (if y = id then id else y) = y := by split <;> simp_all
    rw [hx, hy]; exact e⟩

theorem Inv.reserveAt {σ : State} {T : List V} {l : Loc} {id m : Nat} {b : Block}
    (inv : Inv σ T) (hl : ValidLoc σ l) (hr : readLoc σ l = .ok (mkHandle b.isObj id)) (hb : getB σ.heap id = .ok b) :
    (b.cap < m ∧ Var.reserveAt true σ l id m = .error .sharedGrowth) ∨
    ∃ σ' id', Var.reserveAt true σ l id m = .ok (σ', id') ∧ Inv σ' T ∧ Grown σ σ' l b id id' ∧
      ∃ b', getB σ'.heap id' = .ok b' ∧ b'.items = b.items ∧ m ≤ b'.cap := by
  unfold Var.reserveAt
  simp only [hb]
  by_cases hm : m ≤ b.cap
  · simp only [hm, if_true]
    exact Or.inr ⟨σ, id, rfl, inv, Grown.refl hl hr hb, b, hb, rfl, hm⟩
  · simp only [hm, if_false]
    rcases inv.growTo (newcap := max (2 * b.cap) m) hl hr hb with h1 | ⟨σ', id', h1, inv', g, b', hb', e1, e2⟩
    · exact Or.inl ⟨by omega, h1⟩
    · exact Or.inr ⟨σ', id', h1, inv', g, b', hb', e1, by rw [e2]; omega⟩

theorem Inv.growInsertAt {σ : State} {T : List V} {l : Loc} {id : Nat} {b : Block}
    (inv : Inv σ T) (hl : ValidLoc σ l) (hr : readLoc σ l = .ok (mkHandle b.isObj id)) (hb : getB σ.heap id = .ok b) :
    Var.growInsertAt true σ l id = .error .sharedGrowth ∨
    ∃ σ' id', Var.growInsertAt true σ l id = .ok (σ', id') ∧ Inv σ' T ∧ Grown σ σ' l b id id' := by
  unfold Var.growInsertAt
  simp only [hb]
  by_cases hm : b.items.length < b.cap
  · simp only [hm, if_true]
    exact Or.inr ⟨σ, id, rfl, inv, Grown.refl hl hr hb⟩
  · simp only [hm, if_false]
    rcases inv.growTo (newcap := 2 * b.cap) hl hr hb with h1 | ⟨σ', id', h1, inv', g, _⟩
    · exact Or.inl h1
    · exact Or.inr ⟨σ', id', h1, inv', g⟩

theorem occ_replicate_none (j k : Nat) : occ j ((List.replicate k (([] : Bytes), V.none)).map (·.2)) = 0 := by
  rw [occ_eq_zero_iff]
  intro v hv
  simp only [List.map_replicate, List.mem_replicate] at hv
  rw [hv.2]; simp [handleOf]

theorem readLoc_setB_ne {σ : State} {l : Loc} {id : Nat} (b' : Block) (h : parentOf l ≠ some id) :
    readLoc { σ with heap := setB σ.heap id b' } l = readLoc σ l := by
  cases l with
  | slot k => rfl
  | item P i =>
    have hP : P ≠ id := by intro e; exact h (by simp [parentOf, e])
    simp only [readLoc, setB, getB_set_ne _ hP]

theorem validLoc_setB_ne {σ : State} {l : Loc} {id : Nat} (b' : Block) (h : parentOf l ≠ some id) (hl : ValidLoc σ l) :
    ValidLoc { σ with heap := setB σ.heap id b' } l := by
  cases l with
  | slot k => exact hl
  | item P i =>
    have hP : P ≠ id := by intro e; exact h (by simp [parentOf, e])
    obtain ⟨bP, hbP, hi⟩ := hl
    exact ⟨bP, by simp only [setB, getB_set_ne _ hP]; exact hbP, hi⟩

theorem liveV_setB {h : Heap} {id : Nat} {b b' : Block} (hb : getB h id = .ok b) (hk : b'.isObj = b.isObj) {v : V}
    (hv : LiveV h v) : LiveV (setB h id b') v := by
  intro j hj
  obtain ⟨bj, hbj, hkj⟩ := hv j hj
  by_cases he : j = id
  · subst he
    rw [hb] at hbj; cases hbj
    exact ⟨b', getB_setB_same _ (getB_lt hb), by rw [hk]; exact hkj⟩
  · exact ⟨bj, by rw [setB, getB_set_ne _ he]; exact hbj, hkj⟩

theorem noself_of_block {σ : State} {T : List V} (inv : Inv σ T) {id : Nat} {b : Block} (hb : getB σ.heap id = .ok b) :
    ∀ v ∈ b.items.map (·.2), handleOf v ≠ some id := fun v hv => inv.noself id b hb v hv

/-- `resize(m)` that does not shrink an array: default-constructed (NONE) elements are appended -/
theorem Inv.resizeGrow {σ : State} {T : List V} {l : Loc} {id m : Nat} {b : Block}
    (inv : Inv σ T) (hl : ValidLoc σ l) (hr : readLoc σ l = .ok (mkHandle b.isObj id)) (hb : getB σ.heap id = .ok b)
    (harr : b.isObj = false) (hm : b.items.length ≤ m) :
    (b.cap < m ∧ Var.resizeAt true σ l id m = .error .sharedGrowth) ∨
    ∃ σ' id', Var.resizeAt true σ l id m = .ok (σ', id') ∧ Inv σ' T ∧ σ'.slots.length = σ.slots.length ∧
      ValidLoc σ' l ∧ readLoc σ' l = .ok (mkHandle b.isObj id') ∧
      ∃ b', getB σ'.heap id' = .ok b' ∧ b'.items = b.items ++ List.replicate (m - b.items.length) ([], V.none) ∧
        b'.isObj = false := by
  unfold Var.resizeAt
  rcases inv.reserveAt (m := m) hl hr hb with ⟨hc, h1⟩ | ⟨σ1, id1, h1, inv1, g, b1, hb1, e1, _⟩
  · left; exact ⟨hc, by simp [h1, bind, Except.bind]⟩
  · right
    obtain ⟨b1', hb1', e1', e2'⟩ := g.blk
    rw [hb1] at hb1'; cases hb1'
    simp only [h1, bind, Except.bind, hb1, e1]
    have hlt1 := getB_lt hb1
    have hpar := ValidLoc.parent_ne inv1 g.read (handleOf_mkHandle _ _)
    by_cases hgt : m > b.items.length
    · simp only [hgt, if_true, pure, Except.pure]
      have invr := Inv.reitems (σ := σ1) (T := T) (A := []) (B := []) (id := id1) (b := b1)
        (items' := b1.items ++ List.replicate (m - b.items.length) ([], V.none)) (cap' := b1.cap)
        (by simpa using inv1) hb1
        (by intro j; simp only [List.map_append, occ_append, occ_replicate_none, occ_nil, bvals])
        (by
          intro v hv
          simp only [List.map_append, List.append_nil, List.mem_append] at hv ⊢
          rcases hv with h2 | h2
          · exact Or.inr h2
          · simp only [List.map_replicate, List.mem_replicate] at h2
            left; rw [h2.2]; rfl)
        (by intro ho; rw [e2', harr] at ho; cases ho)
        V.none
        (by
          intro v hv
          simp only [List.map_append, List.mem_append] at hv
          rcases hv with h2 | h2
          · exact Or.inl h2
          · simp only [List.map_replicate, List.mem_replicate] at h2
            right; left; rw [h2.2]; rfl)
        (by intro c hc; cases hc)
      rw [e1] at invr
      refine ⟨_, id1, rfl, by simpa using invr, g.slots, validLoc_setB_ne _ hpar g.valid, ?_, _, getB_setB_same _ hlt1, ?_, ?_⟩
      · rw [readLoc_setB_ne _ hpar]; exact g.read
      · simp
      · simp [e2', harr]
    · have hmn : ¬ m < b.items.length := by omega
      simp only [hgt, hmn, if_false, pure, Except.pure]
      have hz : m - b.items.length = 0 := by omega
      refine ⟨σ1, id1, rfl, inv1, g.slots, g.valid, g.read, b1, hb1, by simp [hz, e1], by rw [e2', harr]⟩

/-- any `resize(m)` of the block behind the Var at `l` (shrinking destroys the cut elements) -/
theorem Inv.resizeAny {σ : State} {T : List V} {l : Loc} {id m : Nat} {b : Block}
    (inv : Inv σ T) (hl : ValidLoc σ l) (hr : readLoc σ l = .ok (mkHandle b.isObj id)) (hb : getB σ.heap id = .ok b)
    (hgrow : b.items.length < m → b.isObj = false) :
    (b.cap < m ∧ Var.resizeAt true σ l id m = .error .sharedGrowth) ∨
    ∃ σ' id', Var.resizeAt true σ l id m = .ok (σ', id') ∧ Inv σ' T ∧ σ'.slots.length = σ.slots.length := by
  by_cases hge : b.items.length ≤ m
  · by_cases hlt : b.items.length < m
    · rcases inv.resizeGrow hl hr hb (hgrow hlt) hge with h1 | ⟨σ', id', h1, inv', hs, _⟩
      · exact Or.inl h1
      · exact Or.inr ⟨σ', id', h1, inv', hs⟩
    · -- m = n: only the reserve step
      have hm : m = b.items.length := by omega
      subst hm
      unfold Var.resizeAt
      rcases inv.reserveAt (m := b.items.length) hl hr hb with ⟨hc, h1⟩ | ⟨σ1, id1, h1, inv1, g, b1, hb1, e1, _⟩
      · left; exact ⟨hc, by simp [h1, bind, Except.bind]⟩
      · right
        simp only [h1, bind, Except.bind, hb1, e1, Nat.lt_irrefl, if_false, pure, Except.pure, gt_iff_lt]
        exact ⟨σ1, id1, rfl, inv1, g.slots⟩
  · -- shrink
    have hlt : m < b.items.length := by omega
    unfold Var.resizeAt
    rcases inv.reserveAt (m := m) hl hr hb with ⟨hc, h1⟩ | ⟨σ1, id1, h1, inv1, g, b1, hb1, e1, _⟩
    · left; exact ⟨hc, by simp [h1, bind, Except.bind]⟩
    · right
      obtain ⟨b1', hb1', e1', e2'⟩ := g.blk
      rw [hb1] at hb1'; cases hb1'
      have hng : ¬ m > b.items.length := by omega
      simp only [h1, bind, Except.bind, hb1, e1, hng, hlt, if_false, if_true]
      have invr := Inv.reitems (σ := σ1) (T := T) (A := []) (B := (b1.items.drop m).map (·.2)) (id := id1) (b := b1)
        (items' := b1.items.take m) (cap' := b1.cap)
        (by simpa using inv1) hb1
        (by
          intro j
          have : bvals b1 = (b1.items.take m).map (·.2) ++ (b1.items.drop m).map (·.2) := by
            rw [← List.map_append, List.take_append_drop]; rfl
          rw [this]; simp only [occ_append, occ_nil, Nat.add_zero])
        (by
          intro v hv
          right
          have : bvals b1 = (b1.items.take m).map (·.2) ++ (b1.items.drop m).map (·.2) := by
            rw [← List.map_append, List.take_append_drop]; rfl
          rw [this]; simpa using hv)
        (by
          intro ho
          exact List.Pairwise.sublist (List.take_sublist m b1.items) (inv1.sorted id1 b1 hb1 ho))
        V.none
        (by
          intro v hv
          left
          rw [List.mem_map] at hv
          obtain ⟨kv, hkv, e⟩ := hv
          rw [← e]; exact List.mem_map_of_mem (List.mem_of_mem_take hkv))
        (by intro c hc; cases hc)
      obtain ⟨h', hd, inv', _⟩ := Inv.drop (wl := (b1.items.drop m).map (·.2)) (T := T) invr
      rw [e1] at hd
      simp only [hd, pure, Except.pure]
      exact ⟨_, id1, rfl, inv', g.slots⟩


/-! ## `operator[]` (non-const) -/

/-- errors that refuse an operation without touching released storage -/
def Benign (e : Err) : Prop := e = .sharedGrowth ∨ e = .cyclic ∨ e = .nopath ∨ e = .badarg ∨ e = .fuel

theorem occ_insertAt (j : Nat) (l : List (Bytes × V)) (p : Nat) (x : Bytes × V) :
    occ j ((Map.insertAt l p x).map (·.2)) = occ j (l.map (·.2)) + occ j [x.2] := by
  unfold Map.insertAt
  have : l.map (·.2) = (l.take p).map (·.2) ++ (l.drop p).map (·.2) := by
    rw [← List.map_append, List.take_append_drop]
  rw [this]
  simp only [List.map_append, List.map_cons, occ_append, occ_cons, occ_nil]
  omega

theorem mem_insertAt {l : List (Bytes × V)} {p : Nat} {x y : Bytes × V} (h : y ∈ Map.insertAt l p x) : y = x ∨ y ∈ l := by
  unfold Map.insertAt at h
  simp only [List.mem_append, List.mem_cons] at h
  rcases h with h | h | h
  · exact Or.inr (List.mem_of_mem_take h)
  · exact Or.inl h
  · exact Or.inr (List.mem_of_mem_drop h)

theorem mkHandle_true (id : Nat) : mkHandle true id = V.obj id := rfl
theorem mkHandle_false (id : Nat) : mkHandle false id = V.arr id := rfl

/-- `T& Map::operator[](key)` on the object behind the Var at `l` -/
theorem Inv.indexKey {σ : State} {T : List V} {l : Loc} {id : Nat} {k : Bytes} {b : Block}
    (inv : Inv σ T) (hl : ValidLoc σ l) (hr : readLoc σ l = .ok (.obj id)) (hb : getB σ.heap id = .ok b)
    (ho : b.isObj = true) :
    Var.indexKey true σ l id k = .error .sharedGrowth ∨
    ∃ σ' id' p, Var.indexKey true σ l id k = .ok (σ', .item id' p) ∧ Inv σ' T ∧ σ'.slots.length = σ.slots.length ∧
      ValidLoc σ' l ∧ readLoc σ' l = .ok (.obj id') ∧ ValidLoc σ' (.item id' p) ∧
      (∀ v, LiveV σ.heap v → handleOf v ≠ some id → LiveV σ'.heap v) ∧ (id' = id ∨ id' = σ.heap.length) ∧
      (∀ x y, Edge σ'.heap x y → Edge σ.heap (if x = id' then id else x) (if y = id' then id else y)) := by
  have hsort := inv.sorted id b hb ho
  obtain ⟨r, hidx, hspec⟩ := AslProofs.Map.indexOf_spec cmpB_strict b.items k hsort
  have hr' : readLoc σ l = .ok (mkHandle b.isObj id) := by rw [ho]; exact hr
  unfold Var.indexKey
  simp only [bind, Except.bind, hb, hidx]
  by_cases hr0 : r ≥ 0
  · right
    simp only [hr0, if_true, pure, Except.pure]
    obtain ⟨hlt, _⟩ := hspec.1 hr0
    exact ⟨σ, id, r.toNat, rfl, inv, rfl, hl, hr, ⟨b, hb, hlt⟩, fun _ hv _ => hv, Or.inl rfl, fun x y e => by
      have hx : (if x = id then id else x) = x := by split <;> simp_all
      have hy : (if y = id then id else y) = y := by split <;> simp_all
      rw [hx, hy]; exact e⟩
  · simp only [hr0, if_false]
    obtain ⟨hp, hlo, hhi⟩ := hspec.2 (by omega)
    rcases inv.growInsertAt hl hr' hb with h1 | ⟨σ1, id1, h1, inv1, g⟩
    · left; simp [h1]
    · right
      obtain ⟨b1, hb1, e1, e2⟩ := g.blk
      simp only [h1, hb1, pure, Except.pure]
      have hlt1 := getB_lt hb1
      have hread1 : readLoc σ1 l = .ok (.obj id1) := by rw [g.read, ho]; rfl
      have hpar := ValidLoc.parent_ne inv1 hread1 rfl
      have invr := Inv.reitems (σ := σ1) (T := T) (A := []) (B := []) (id := id1) (b := b1)
        (items' := Map.insertAt b1.items (-r - 1).toNat (k, V.none)) (cap' := b1.cap)
        (by simpa using inv1) hb1
        (by intro j; rw [occ_insertAt]; simp [occ_cons, occ_nil, handleOf, bvals])
        (by
          intro v hv
          simp only [List.append_nil, List.mem_map] at hv ⊢
          obtain ⟨y, hy, e⟩ := hv
          rcases mem_insertAt hy with h2 | h2
          · left; rw [← e, h2]; rfl
          · right; rw [← e]; exact List.mem_map_of_mem h2)
        (by
          intro _
          rw [e1]
          exact AslProofs.Map.insertAt_sorted cmpB_strict hsort _ k V.none hlo hhi)
        V.none
        (by
          intro v hv
          simp only [List.mem_map] at hv
          obtain ⟨y, hy, e⟩ := hv
          rcases mem_insertAt hy with h2 | h2
          · right; left; rw [← e, h2]; rfl
          · left; rw [← e]; exact List.mem_map_of_mem h2)
        (by intro c hc; cases hc)
      refine ⟨_, id1, (-r - 1).toNat, rfl, by simpa using invr, g.slots, validLoc_setB_ne _ hpar g.valid, ?_, ?_, ?_, g.fresh, ?_⟩
      · rw [readLoc_setB_ne _ hpar]; exact hread1
      · refine ⟨_, getB_setB_same _ hlt1, ?_⟩
        simp only []
        rw [AslProofs.Map.insertAt_length _ _ (by rw [e1]; exact hp)]
        rw [e1]; omega
      · intro v hv hne
        exact liveV_setB (b' := { b1 with items := Map.insertAt b1.items (-r - 1).toNat (k, V.none) }) hb1 rfl (g.keeps v hv hne)
      · intro x y e
        apply g.edges
        rcases Edge.setB hb1 e with ⟨_, e0⟩ | ⟨rfl, w, hw, hwy⟩
        · exact e0
        · simp only [bvals, List.mem_map] at hw
          obtain ⟨kv, hkv, rfl⟩ := hw
          rcases mem_insertAt hkv with h2 | h2
          · rw [h2] at hwy; cases hwy
          · exact ⟨b1, hb1, kv.2, List.mem_map_of_mem h2, hwy⟩




theorem validLoc_append {σ : State} {l : Loc} (x : Heap) (hl : ValidLoc σ l) : ValidLoc { σ with heap := σ.heap ++ x } l := by
  cases l with
  | slot k => exact hl
  | item P i =>
    obtain ⟨bP, hbP, hi⟩ := hl
    exact ⟨bP, by rw [getB_append_left _ (getB_lt hbP)]; exact hbP, hi⟩

theorem readLoc_append {σ : State} {l : Loc} (x : Heap) (hl : ValidLoc σ l) :
    readLoc { σ with heap := σ.heap ++ x } l = readLoc σ l := by
  cases l with
  | slot k => rfl
  | item P i =>
    obtain ⟨bP, hbP, hi⟩ := hl
    simp only [readLoc]
    rw [getB_append_left _ (getB_lt hbP)]

/-- nothing is reachable from a block without elements except the block itself -/
theorem reach_from_leaf {h : Heap} {N z : Nat} {b : Block} (hb : getB h N = .ok b) (he : b.items = [])
    (r : Reach h N z) : z = N := by
  cases r with
  | refl _ => rfl
  | step e _ =>
    obtain ⟨b', hb', v, hv, _⟩ := e
    rw [hb] at hb'; cases hb'
    simp [bvals, he] at hv

/-- an undefined Var becomes an empty array / object -/
theorem Inv.vivify {σ : State} {T : List V} {l : Loc} (o : Bool) (inv : Inv σ T) (hl : ValidLoc σ l)
    (hr : readLoc σ l = .ok V.none) :
    ∃ σ1, Var.writeLoc { σ with heap := σ.heap ++ [some (emptyBlock o)] } l (mkHandle o σ.heap.length) = .ok σ1 ∧
      Inv σ1 T ∧ σ1.slots.length = σ.slots.length ∧ ValidLoc σ1 l ∧
      readLoc σ1 l = .ok (mkHandle o σ.heap.length) ∧ getB σ1.heap σ.heap.length = .ok (emptyBlock o) ∧
      (∀ v, LiveV σ.heap v → LiveV σ1.heap v) ∧
      (∀ x y, Edge σ1.heap x y → Edge σ.heap x y ∨ (parentOf l = some x ∧ y = σ.heap.length)) := by
  have inv0 := Inv.alloc (σ := σ) (T := T) (b := emptyBlock o) (by simpa [bvals, emptyBlock] using inv) rfl
    (by intro _; simp [emptyBlock, SortedItems, AslProofs.Map.Sorted])
  have hl0 := validLoc_append [some (emptyBlock o)] hl
  have e0 : (emptyBlock o).isObj = o := rfl
  rw [e0] at inv0
  obtain ⟨σ1, old, hr1, hw, inv1, dom, hr2⟩ := inv0.writeLoc hl0 (by
    -- the new block has no elements: nothing is reachable from it
    intro P c hP hc r
    rw [handleOf_mkHandle] at hc
    have hc' := Option.some.inj hc
    subst hc'
    have := reach_from_leaf (getB_alloc_new σ.heap (emptyBlock o)) rfl r
    cases l with
    | slot k => simp [parentOf] at hP
    | item P' i =>
      simp only [parentOf, Option.some.injEq] at hP; subst hP
      obtain ⟨bP, hbP, _⟩ := hl
      have := getB_lt hbP
      omega)
  rw [readLoc_append _ hl, hr] at hr1; cases hr1
  have hkeep : ∀ v, LiveV σ.heap v → LiveV σ1.heap v := by
    intro v hv
    apply dom.liveV
    intro j hj
    obtain ⟨bj, hbj, hk⟩ := hv j hj
    exact ⟨bj, by show getB (σ.heap ++ _) j = _; rw [getB_append_left _ (getB_lt hbj)]; exact hbj, hk⟩
  have hedge0 : ∀ x y, Edge (σ.heap ++ [some (emptyBlock o)]) x y → Edge σ.heap x y := by
    intro x y e
    obtain ⟨bx, hbx, v, hv, hid⟩ := e
    by_cases hx : x = σ.heap.length
    · subst hx
      rw [getB_alloc_new] at hbx; cases hbx
      simp [bvals, emptyBlock] at hv
    · have hxl : x < σ.heap.length := by
        have := getB_lt hbx
        simp at this; omega
      rw [getB_append_left _ hxl] at hbx
      exact ⟨bx, hbx, v, hv, hid⟩
  refine ⟨σ1, hw, (Inv.scalar rfl).mp inv1, dom.1, dom.validLoc hl0, hr2, ?_, hkeep, ?_⟩
  -- the new block is not the one written to
  · cases l with
    | slot k =>
      simp only [Var.writeLoc] at hw
      split at hw
      · cases hw; exact getB_alloc_new _ _
      · cases hw
    | item P i =>
      obtain ⟨bP, hbP, hi⟩ := hl
      have hPlt := getB_lt hbP
      simp only [Var.writeLoc, getB_append_left _ hPlt, hbP, hi, if_true] at hw
      cases hw
      simp only [setB]
      rw [getB_set_ne _ (by omega)]
      exact getB_alloc_new _ _
  · intro x y e
    cases l with
    | slot k =>
      simp only [Var.writeLoc] at hw
      split at hw
      · cases hw; exact Or.inl (hedge0 x y e)
      · cases hw
    | item P i =>
      obtain ⟨bP, hbP, hi⟩ := hl
      have hPlt := getB_lt hbP
      have hbP0 : getB (σ.heap ++ [some (emptyBlock o)]) P = .ok bP := by rw [getB_append_left _ hPlt]; exact hbP
      simp only [Var.writeLoc, hbP0, hi, if_true] at hw
      cases hw
      rcases Edge.setB hbP0 e with ⟨_, e0⟩ | ⟨rfl, w, hw', hwy⟩
      · exact Or.inl (hedge0 x y e0)
      · simp only [bvals, map_snd_setValAt] at hw'
        rcases List.mem_or_eq_of_mem_set hw' with h2 | rfl
        · exact Or.inl ⟨bP, hbP, w, h2, hwy⟩
        · rw [handleOf_mkHandle] at hwy
          exact Or.inr ⟨rfl, (Option.some.inj hwy).symm⟩

/-- one application of the non-const `operator[]` -/
theorem Inv.stepMut {σ : State} {T : List V} {l : Loc} (s : Step) (inv : Inv σ T) (hl : ValidLoc σ l) :
    (∃ e, Var.stepMut true σ l s = .error e ∧ (e = .sharedGrowth ∨ e = .badarg)) ∨
    ∃ σ' t, Var.stepMut true σ l s = .ok (σ', t) ∧ Inv σ' T ∧ σ'.slots.length = σ.slots.length ∧ ValidLoc σ' t := by
  obtain ⟨v, hr, hheld⟩ := readLoc_valid hl T
  unfold Var.stepMut
  simp only [bind, Except.bind, hr]
  cases s with
  | idx i =>
    simp only []
    cases v with
    | arr id =>
      simp only []
      obtain ⟨b, hb, hk⟩ := inv.wf.live _ hheld id rfl
      simp only [isObjV] at hk
      simp only [hb]
      by_cases hi : i ≥ b.items.length
      · simp only [hi, if_true]
        rcases inv.resizeGrow (m := i + 1) hl (by rw [hk]; exact hr) hb hk (by omega) with ⟨_, h1⟩ | ⟨σ', id', h1, inv', hs, _, _, b', hb', e1, _⟩
        · left; exact ⟨_, by simp [h1], Or.inl rfl⟩
        · right
          refine ⟨σ', .item id' i, by simp [h1, pure, Except.pure], inv', hs, b', hb', ?_⟩
          rw [e1]; simp; omega
      · simp only [hi, if_false, pure, Except.pure]
        right
        exact ⟨σ, .item id i, rfl, inv, rfl, b, hb, by omega⟩
    | obj id =>
      simp only []
      obtain ⟨b, hb, hk⟩ := inv.wf.live _ hheld id rfl
      simp only [isObjV] at hk
      rcases inv.indexKey (k := natDigits i) hl hr hb hk with h1 | ⟨σ', id', p, h1, inv', hs, _, _, hv, _, _, _⟩
      · left; exact ⟨_, h1, Or.inl rfl⟩
      · right; exact ⟨σ', _, h1, inv', hs, hv⟩
    | none =>
      simp only [allocB]
      obtain ⟨σ1, hw, inv1, hs1, hl1, hr1, hb1, _⟩ := inv.vivify false hl hr
      rw [mkHandle_false] at hw hr1
      simp only [hw]
      rcases inv1.resizeGrow (m := i + 1) (b := emptyBlock false) hl1 hr1 hb1 rfl (by simp [emptyBlock]) with
        ⟨_, h1⟩ | ⟨σ', id', h1, inv', hs, _, _, b', hb', e1, _⟩
      · left; exact ⟨_, by simp [h1], Or.inl rfl⟩
      · right
        refine ⟨σ', .item id' i, by simp [h1, pure, Except.pure], inv', by rw [hs, hs1], b', hb', ?_⟩
        rw [e1]; simp [emptyBlock]
    | null => right; exact ⟨σ, l, rfl, inv, rfl, hl⟩
    | bool _ => right; exact ⟨σ, l, rfl, inv, rfl, hl⟩
    | int _ => right; exact ⟨σ, l, rfl, inv, rfl, hl⟩
    | num _ => right; exact ⟨σ, l, rfl, inv, rfl, hl⟩
    | flt _ => right; exact ⟨σ, l, rfl, inv, rfl, hl⟩
    | sstr _ => right; exact ⟨σ, l, rfl, inv, rfl, hl⟩
    | str _ => right; exact ⟨σ, l, rfl, inv, rfl, hl⟩
  | key k =>
    simp only []
    cases v with
    | none =>
      simp only [allocB]
      obtain ⟨σ1, hw, inv1, hs1, hl1, hr1, hb1, _⟩ := inv.vivify true hl hr
      rw [mkHandle_true] at hw hr1
      simp only [hw]
      rcases inv1.indexKey (k := k) hl1 hr1 hb1 rfl with h1 | ⟨σ', id', p, h1, inv', hs, _, _, hv, _, _, _⟩
      · left; exact ⟨_, h1, Or.inl rfl⟩
      · right; exact ⟨σ', _, h1, inv', by rw [hs, hs1], hv⟩
    | obj id =>
      simp only []
      obtain ⟨b, hb, hk⟩ := inv.wf.live _ hheld id rfl
      simp only [isObjV] at hk
      rcases inv.indexKey (k := k) hl hr hb hk with h1 | ⟨σ', id', p, h1, inv', hs, _, _, hv, _, _, _⟩
      · left; exact ⟨_, h1, Or.inl rfl⟩
      · right; exact ⟨σ', _, h1, inv', hs, hv⟩
    | arr _ => left; exact ⟨_, rfl, Or.inr rfl⟩
    | null => right; exact ⟨σ, l, rfl, inv, rfl, hl⟩
    | bool _ => right; exact ⟨σ, l, rfl, inv, rfl, hl⟩
    | int _ => right; exact ⟨σ, l, rfl, inv, rfl, hl⟩
    | num _ => right; exact ⟨σ, l, rfl, inv, rfl, hl⟩
    | flt _ => right; exact ⟨σ, l, rfl, inv, rfl, hl⟩
    | sstr _ => right; exact ⟨σ, l, rfl, inv, rfl, hl⟩
    | str _ => right; exact ⟨σ, l, rfl, inv, rfl, hl⟩


/-- a whole mutable path: the invariant holds whether or not a step is refused -/
theorem Inv.resolveMut {T : List V} (src : Option Loc) : ∀ (steps : List Step) (σ : State) (l : Loc), Inv σ T → ValidLoc σ l →
    ∃ σ' r, Var.resolveMut true src σ l steps = (σ', r) ∧ Inv σ' T ∧ σ'.slots.length = σ.slots.length ∧
      ((∃ e, r = .error e ∧ (e = .sharedGrowth ∨ e = .badarg ∨ e = .srcMoved)) ∨ (∃ t, r = .ok t ∧ ValidLoc σ' t))
  | [], σ, l, inv, hl => ⟨σ, .ok l, rfl, inv, rfl, Or.inr ⟨l, rfl, hl⟩⟩
  | s0 :: rest, σ, l, inv, hl => by
    simp only [Var.resolveMut]
    cases hn : normStep σ l s0 with
    | none =>
      simp only []
      exact Inv.resolveMut src rest σ l inv hl
    | some s =>
    simp only []
    by_cases hinv : invalidates σ l s src = true
    · simp only [hinv, Bool.true_and, if_true]
      exact ⟨σ, .error .srcMoved, rfl, inv, rfl, Or.inl ⟨_, rfl, Or.inr (Or.inr rfl)⟩⟩
    · simp only [hinv, Bool.and_false, Bool.false_eq_true, if_false]
      rcases inv.stepMut s hl with ⟨e, h1, he⟩ | ⟨σ1, t1, h1, inv1, hs1, hl1⟩
      · simp only [h1]
        refine ⟨σ, .error e, rfl, inv, rfl, Or.inl ⟨e, rfl, ?_⟩⟩
        rcases he with he | he
        · exact Or.inl he
        · exact Or.inr (Or.inl he)
      · simp only [h1]
        obtain ⟨σ', r, h2, inv', hs', hr'⟩ := Inv.resolveMut src rest σ1 t1 inv1 hl1
        exact ⟨σ', r, h2, inv', by rw [hs', hs1], hr'⟩

/-! ## const paths -/

theorem Held.of_mem_block {σ : State} {T : List V} {id : Nat} {b : Block} (hb : getB σ.heap id = .ok b) {v : V}
    (hv : v ∈ bvals b) : Held σ T v := Or.inr (Or.inr (mem_hvals_of_getB hb hv))

/-- the value a const path denotes is a scalar or held by the state; the walk never touches released storage -/
theorem Inv.resolveConst {σ : State} {T : List V} (inv : Inv σ T) : ∀ (steps : List Step) (v : V), Held σ T v →
    (∃ e, Var.resolveConst σ.heap v steps = .error e ∧ e = .nopath) ∨
    ∃ w, Var.resolveConst σ.heap v steps = .ok w ∧ Held σ T w
  | [], v, hv => Or.inr ⟨v, rfl, hv⟩
  | s :: rest, v, hv => by
    simp only [Var.resolveConst]
    have key : (∃ e, stepConst σ.heap v s = .error e ∧ e = .nopath) ∨ ∃ w, stepConst σ.heap v s = .ok w ∧ Held σ T w := by
      unfold stepConst
      cases s with
      | idx i =>
        cases v with
        | arr id =>
          have hin : V.arr id ∈ σ.slots ++ T ∨ V.arr id ∈ hvals σ.heap := by
            rcases hv with h0 | h0
            · simp [handleOf] at h0
            · exact h0
          obtain ⟨b, hb, _⟩ := inv.wf.live _ hin id rfl
          simp only [hb]
          cases hi : b.items[i]? with
          | none => right; exact ⟨V.none, rfl, Or.inl rfl⟩
          | some kv =>
            right
            exact ⟨kv.2, rfl, Held.of_mem_block hb (List.mem_map_of_mem (List.mem_of_getElem? hi))⟩
        | obj _ => right; exact ⟨V.none, rfl, Or.inl rfl⟩
        | none => right; exact ⟨V.none, rfl, Or.inl rfl⟩
        | null => right; exact ⟨V.none, rfl, Or.inl rfl⟩
        | bool _ => right; exact ⟨V.none, rfl, Or.inl rfl⟩
        | int _ => right; exact ⟨V.none, rfl, Or.inl rfl⟩
        | num _ => right; exact ⟨V.none, rfl, Or.inl rfl⟩
        | flt _ => right; exact ⟨V.none, rfl, Or.inl rfl⟩
        | sstr _ => right; exact ⟨V.none, rfl, Or.inl rfl⟩
        | str _ => right; exact ⟨V.none, rfl, Or.inl rfl⟩
      | key k =>
        cases v with
        | obj id =>
          have hin : V.obj id ∈ σ.slots ++ T ∨ V.obj id ∈ hvals σ.heap := by
            rcases hv with h0 | h0
            · simp [handleOf] at h0
            · exact h0
          obtain ⟨b, hb, hk⟩ := inv.wf.live _ hin id rfl
          simp only [isObjV] at hk
          simp only [hb]
          have hfind := AslProofs.Map.find_spec cmpB_strict (inv.sorted id b hb hk) k
          right
          rw [hfind]
          cases hlk : AslProofs.Map.lookup k b.items with
          | none => exact ⟨V.none, rfl, Or.inl rfl⟩
          | some x =>
            refine ⟨x, rfl, Held.of_mem_block hb ?_⟩
            have := AslProofs.Map.lookup_mem hlk
            exact List.mem_map_of_mem (f := (·.2)) this
        | arr _ => right; exact ⟨V.none, rfl, Or.inl rfl⟩
        | none => right; exact ⟨V.none, rfl, Or.inl rfl⟩
        | null => right; exact ⟨V.none, rfl, Or.inl rfl⟩
        | bool _ => right; exact ⟨V.none, rfl, Or.inl rfl⟩
        | int _ => right; exact ⟨V.none, rfl, Or.inl rfl⟩
        | num _ => right; exact ⟨V.none, rfl, Or.inl rfl⟩
        | flt _ => right; exact ⟨V.none, rfl, Or.inl rfl⟩
        | sstr _ => right; exact ⟨V.none, rfl, Or.inl rfl⟩
        | str _ => right; exact ⟨V.none, rfl, Or.inl rfl⟩
    rcases key with ⟨e, h1, he⟩ | ⟨w, h1, hw⟩
    · left; exact ⟨e, by simp [h1], he⟩
    · simp only [h1]
      exact Inv.resolveConst inv rest w hw

theorem slotV_held {σ : State} (T : List V) (k : Nat) : Held σ T (slotV σ k) := by
  unfold slotV
  by_cases hk : k < σ.slots.length
  · right; left
    simp only [List.getD_eq_getElem?_getD, List.getElem?_eq_getElem hk, Option.getD_some]
    exact List.mem_append_left _ (List.getElem_mem hk)
  · left
    have : σ.slots[k]? = none := List.getElem?_eq_none (by omega)
    simp [this, handleOf]

theorem Inv.cget {σ : State} {T : List V} (inv : Inv σ T) (q : Path) :
    (∃ e, Var.cget σ q = .error e ∧ e = .nopath) ∨ ∃ w, Var.cget σ q = .ok w ∧ Held σ T w :=
  inv.resolveConst q.steps _ (slotV_held T q.root)


/-! ## append, resize, remove, clear -/

/-- push an owned value at the end of array block `id` -/
theorem Inv.push {σ : State} {T : List V} {id : Nat} {b : Block} {src : V} (inv : Inv σ (src :: T))
    (hb : getB σ.heap id = .ok b) (harr : b.isObj = false) (hacyc : ∀ c, handleOf src = some c → ¬ Reach σ.heap c id) :
    Inv { σ with heap := setB σ.heap id { b with items := b.items ++ [([], src)] } } T := by
  have := Inv.reitems (σ := σ) (T := T) (A := [src]) (B := []) (id := id) (b := b)
    (items' := b.items ++ [([], src)]) (cap' := b.cap) (by simpa using inv) hb
    (by intro j; simp only [List.map_append, List.map_cons, List.map_nil, occ_append, occ_nil, bvals]; omega)
    (by intro v hv; right; simpa [bvals] using hv)
    (by intro ho; rw [harr] at ho; cases ho)
    src
    (by
      intro v hv
      simp only [List.map_append, List.map_cons, List.map_nil, List.mem_append, List.mem_singleton] at hv
      rcases hv with h1 | h1
      · exact Or.inl h1
      · exact Or.inr (Or.inr h1))
    hacyc
  simpa using this

/-- in a heap where the only new edge goes from the parent of `l` to the new block `N` (which has no elements),
a path into `N` from an older block passes through the parent -/
theorem reach_into_fresh {h h1 : Heap} {l : Loc} {N : Nat} {bN : Block}
    (hedges : ∀ x y, Edge h1 x y → Edge h x y ∨ (parentOf l = some x ∧ y = N))
    (hN : getB h1 N = .ok bN) (hempty : bN.items = []) (hold : ∀ x y, Edge h x y → y ≠ N) :
    ∀ {x z : Nat}, Reach h1 x z → (z ≠ N → Reach h x z) ∧ (z = N → x = N ∨ ∃ P, parentOf l = some P ∧ Reach h x P) := by
  intro x z r
  induction r with
  | refl x => exact ⟨fun _ => Reach.refl x, fun e => Or.inl e⟩
  | @step x y z e r ih =>
    rcases hedges x y e with e0 | ⟨hp, hy⟩
    · refine ⟨fun hz => Reach.step e0 (ih.1 hz), fun hz => ?_⟩
      rcases ih.2 hz with h1' | ⟨P, hP, hr⟩
      · exact absurd h1' (hold x y e0)
      · exact Or.inr ⟨P, hP, Reach.step e0 hr⟩
    · subst hy
      refine ⟨fun hz => ?_, fun _ => Or.inr ⟨x, hp, Reach.refl x⟩⟩
      exact absurd (reach_from_leaf hN hempty r) hz

/-- `operator<<(const Var&)` -/
theorem Inv.appendAt {σ : State} {T : List V} {l : Loc} {src : V} (inv : Inv σ T) (hl : ValidLoc σ l)
    (hsrc : LiveV σ.heap src)
    (hcyc : ∀ id c, readLoc σ l = .ok (.arr id) → handleOf src = some c → ¬ Reach σ.heap c id)
    (hcycN : readLoc σ l = .ok V.none → ∀ P c, parentOf l = some P → handleOf src = some c → ¬ Reach σ.heap c P) :
    Var.appendAt true σ l src = .error .sharedGrowth ∨
    ∃ σ', Var.appendAt true σ l src = .ok σ' ∧ Inv σ' T ∧ σ'.slots.length = σ.slots.length := by
  obtain ⟨v, hr, hheld⟩ := readLoc_valid hl T
  have hliveE : ∀ x y, Edge σ.heap x y → y < σ.heap.length := by
    intro x y e
    obtain ⟨bx, hbx, w, hw, hid⟩ := e
    exact inv.wf.handle_lt (Or.inr (mem_hvals_of_getB hbx hw)) hid
  unfold Var.appendAt
  simp only [bind, Except.bind, hr]
  cases v with
  | arr id =>
    simp only []
    obtain ⟨b, hb, hk⟩ := inv.wf.live _ hheld id rfl
    simp only [isObjV] at hk
    have hne : handleOf src ≠ some id := fun h0 => hcyc id id hr h0 (Reach.refl id)
    rcases inv.growInsertAt hl (by rw [hk]; exact hr) hb with h1 | ⟨σ1, id1, h1, inv1, g⟩
    · left; simp [h1]
    · right
      simp only [h1]
      obtain ⟨b1, hb1, e1, e2⟩ := g.blk
      have hsrc1 := g.keeps src hsrc hne
      obtain ⟨h2, hc, inv2, same⟩ := inv1.copyLive hsrc1
      simp only [hc]
      obtain ⟨b2, hb2, e3, e4, _⟩ := same.get hb1
      simp only [hb2, pure, Except.pure]
      have hacyc2 : ∀ c, handleOf src = some c → ¬ Reach h2 c id1 := by
        intro c hc' r
        have r1 : Reach σ1.heap c id1 := (Reach.of_same same).mp r
        have r0 := Reach.rename _ g.edges r1
        have hcl : c < σ.heap.length := by
          obtain ⟨bs, hbs, _⟩ := hsrc c hc'
          exact getB_lt hbs
        have hcn : (if c = id1 then id else c) = c := by
          rcases g.fresh with e | e
          · rw [e]; split <;> simp_all
          · have : c ≠ id1 := by omega
            simp [this]
        simp only [hcn, if_true] at r0
        exact hcyc id c hr hc' r0
      have := Inv.push (σ := { σ1 with heap := h2 }) (T := T) (id := id1) (b := b2) (src := src) inv2 hb2
        (by rw [e4, e2, hk]) hacyc2
      exact ⟨_, rfl, this, g.slots⟩
  | none =>
    simp only [allocB]
    right
    obtain ⟨σ1, hw, inv1, hs1, hl1, hr1, hb1, hkeep, hedges⟩ := inv.vivify false hl hr
    rw [mkHandle_false] at hw
    simp only [hw]
    obtain ⟨h2, hc, inv2, same⟩ := inv1.copyLive (hkeep src hsrc)
    simp only [hc]
    obtain ⟨b2, hb2, e3, e4, _⟩ := same.get hb1
    simp only [hb2, pure, Except.pure]
    have hacyc2 : ∀ c, handleOf src = some c → ¬ Reach h2 c σ.heap.length := by
      intro c hc' r
      have r1 : Reach σ1.heap c σ.heap.length := (Reach.of_same same).mp r
      have hcl : c < σ.heap.length := by
        obtain ⟨bs, hbs, _⟩ := hsrc c hc'
        exact getB_lt hbs
      have key := (reach_into_fresh (l := l) hedges hb1 rfl (fun x y e => by have := hliveE x y e; omega) r1).2 rfl
      rcases key with h0 | ⟨P, hP, hrP⟩
      · omega
      · exact hcycN hr P c hP hc' hrP
    have := Inv.push (σ := { σ1 with heap := h2 }) (T := T) (id := σ.heap.length) (b := b2) (src := src) inv2 hb2
      (by rw [e4]; rfl) hacyc2
    exact ⟨_, rfl, this, hs1⟩
  | null => right; exact ⟨σ, rfl, inv, rfl⟩
  | bool _ => right; exact ⟨σ, rfl, inv, rfl⟩
  | int _ => right; exact ⟨σ, rfl, inv, rfl⟩
  | num _ => right; exact ⟨σ, rfl, inv, rfl⟩
  | flt _ => right; exact ⟨σ, rfl, inv, rfl⟩
  | sstr _ => right; exact ⟨σ, rfl, inv, rfl⟩
  | str _ => right; exact ⟨σ, rfl, inv, rfl⟩
  | obj _ => right; exact ⟨σ, rfl, inv, rfl⟩

/-- `resize(n)` -/
theorem Inv.resizeV {σ : State} {T : List V} {l : Loc} {n : Nat} (inv : Inv σ T) (hl : ValidLoc σ l) :
    Var.resizeV true σ l n = .error .sharedGrowth ∨
    ∃ σ', Var.resizeV true σ l n = .ok σ' ∧ Inv σ' T ∧ σ'.slots.length = σ.slots.length := by
  obtain ⟨v, hr, hheld⟩ := readLoc_valid hl T
  unfold Var.resizeV
  simp only [bind, Except.bind, hr]
  cases v with
  | arr id =>
    simp only []
    obtain ⟨b, hb, hk⟩ := inv.wf.live _ hheld id rfl
    simp only [isObjV] at hk
    rcases inv.resizeAny (m := n) hl (by rw [hk]; exact hr) hb (fun _ => hk) with ⟨_, h1⟩ | ⟨σ', id', h1, inv', hs⟩
    · left; simp [h1]
    · right; exact ⟨σ', by simp [h1, pure, Except.pure], inv', hs⟩
  | none =>
    simp only [allocB]
    obtain ⟨σ1, hw, inv1, hs1, hl1, hr1, hb1, _⟩ := inv.vivify false hl hr
    rw [mkHandle_false] at hw hr1
    simp only [hw]
    rcases inv1.resizeAny (m := n) (b := emptyBlock false) hl1 hr1 hb1 (fun _ => rfl) with ⟨_, h1⟩ | ⟨σ', id', h1, inv', hs⟩
    · left; simp [h1]
    · right; exact ⟨σ', by simp [h1, pure, Except.pure], inv', by rw [hs, hs1]⟩
  | null => right; exact ⟨σ, rfl, inv, rfl⟩
  | bool _ => right; exact ⟨σ, rfl, inv, rfl⟩
  | int _ => right; exact ⟨σ, rfl, inv, rfl⟩
  | num _ => right; exact ⟨σ, rfl, inv, rfl⟩
  | flt _ => right; exact ⟨σ, rfl, inv, rfl⟩
  | sstr _ => right; exact ⟨σ, rfl, inv, rfl⟩
  | str _ => right; exact ⟨σ, rfl, inv, rfl⟩
  | obj _ => right; exact ⟨σ, rfl, inv, rfl⟩

/-- `Array::remove(i, n)` -/
theorem Inv.removeItems {σ : State} {T : List V} {id i n : Nat} {b : Block} (inv : Inv σ T) (hb : getB σ.heap id = .ok b) :
    ∃ σ', Var.removeItems σ id i n = .ok σ' ∧ Inv σ' T ∧ σ'.slots.length = σ.slots.length := by
  unfold Var.removeItems
  simp only [bind, Except.bind, hb]
  by_cases hin : i + n > b.items.length
  · simp only [hin, if_true, pure, Except.pure]; exact ⟨σ, rfl, inv, rfl⟩
  · simp only [hin, if_false]
    have hsplit : b.items = b.items.take i ++ ((b.items.drop i).take n ++ b.items.drop (i + n)) := by
      rw [← List.drop_drop, List.take_append_drop, List.take_append_drop]
    have hsub : (b.items.take i ++ b.items.drop (i + n)).Sublist b.items := by
      conv => rhs; rw [hsplit]
      exact List.Sublist.append (List.Sublist.refl _) (List.sublist_append_right _ _)
    have hbv : bvals b = (b.items.take i).map (·.2) ++ (((b.items.drop i).take n).map (·.2) ++ (b.items.drop (i + n)).map (·.2)) := by
      unfold bvals
      conv => lhs; rw [hsplit]
      simp only [List.map_append]
    have invr := Inv.reitems (σ := σ) (T := T) (A := []) (B := ((b.items.drop i).take n).map (·.2)) (id := id) (b := b)
      (items' := b.items.take i ++ b.items.drop (i + n)) (cap' := b.cap) (by simpa using inv) hb
      (by intro j; rw [hbv]; simp only [List.map_append, occ_append, occ_nil]; omega)
      (by
        intro v hv; right
        rw [hbv]
        simp only [List.map_append, List.mem_append, List.append_nil] at hv ⊢
        rcases hv with (h1 | h1) | h1
        · exact Or.inl h1
        · exact Or.inr (Or.inr h1)
        · exact Or.inr (Or.inl h1))
      (by intro ho; exact List.Pairwise.sublist hsub (inv.sorted id b hb ho))
      V.none
      (by
        intro v hv
        left
        rw [List.mem_map] at hv
        obtain ⟨kv, hkv, e⟩ := hv
        rw [← e]; exact List.mem_map_of_mem (hsub.subset hkv))
      (by intro c hc; cases hc)
    obtain ⟨h', hd, inv', _⟩ := Inv.drop (wl := ((b.items.drop i).take n).map (·.2)) (T := T) invr
    simp only [hd, pure, Except.pure]
    exact ⟨_, rfl, inv', rfl⟩

theorem Inv.removeAtV {σ : State} {T : List V} {l : Loc} {i n : Nat} (inv : Inv σ T) (hl : ValidLoc σ l) :
    ∃ σ', Var.removeAtV σ l i n = .ok σ' ∧ Inv σ' T ∧ σ'.slots.length = σ.slots.length := by
  obtain ⟨v, hr, hheld⟩ := readLoc_valid hl T
  unfold Var.removeAtV
  simp only [bind, Except.bind, hr]
  cases v with
  | arr id =>
    simp only []
    obtain ⟨b, hb, _⟩ := inv.wf.live _ hheld id rfl
    simp only [hb]
    split
    · exact inv.removeItems hb
    · exact ⟨σ, rfl, inv, rfl⟩
  | none => exact ⟨σ, rfl, inv, rfl⟩
  | null => exact ⟨σ, rfl, inv, rfl⟩
  | bool _ => exact ⟨σ, rfl, inv, rfl⟩
  | int _ => exact ⟨σ, rfl, inv, rfl⟩
  | num _ => exact ⟨σ, rfl, inv, rfl⟩
  | flt _ => exact ⟨σ, rfl, inv, rfl⟩
  | sstr _ => exact ⟨σ, rfl, inv, rfl⟩
  | str _ => exact ⟨σ, rfl, inv, rfl⟩
  | obj _ => exact ⟨σ, rfl, inv, rfl⟩

theorem Inv.removeKeyV {σ : State} {T : List V} {l : Loc} {k : Bytes} (inv : Inv σ T) (hl : ValidLoc σ l) :
    ∃ σ', Var.removeKeyV σ l k = .ok σ' ∧ Inv σ' T ∧ σ'.slots.length = σ.slots.length := by
  obtain ⟨v, hr, hheld⟩ := readLoc_valid hl T
  unfold Var.removeKeyV
  simp only [bind, Except.bind, hr]
  cases v with
  | obj id =>
    simp only []
    obtain ⟨b, hb, hk⟩ := inv.wf.live _ hheld id rfl
    simp only [isObjV] at hk
    obtain ⟨r, hidx, _⟩ := AslProofs.Map.indexOf_spec cmpB_strict b.items k (inv.sorted id b hb hk)
    simp only [hb, hidx]
    split
    · exact inv.removeItems hb
    · exact ⟨σ, rfl, inv, rfl⟩
  | none => exact ⟨σ, rfl, inv, rfl⟩
  | null => exact ⟨σ, rfl, inv, rfl⟩
  | bool _ => exact ⟨σ, rfl, inv, rfl⟩
  | int _ => exact ⟨σ, rfl, inv, rfl⟩
  | num _ => exact ⟨σ, rfl, inv, rfl⟩
  | flt _ => exact ⟨σ, rfl, inv, rfl⟩
  | sstr _ => exact ⟨σ, rfl, inv, rfl⟩
  | str _ => exact ⟨σ, rfl, inv, rfl⟩
  | arr _ => exact ⟨σ, rfl, inv, rfl⟩

theorem mkHandle_of_live {h : Heap} {v : V} {id : Nat} {b : Block} (hid : handleOf v = some id) (hk : b.isObj = isObjV v) :
    v = mkHandle b.isObj id := by
  cases v <;> simp [handleOf] at hid <;> subst hid <;> simp [isObjV] at hk <;> simp [hk, mkHandle]

theorem Inv.clearV {σ : State} {T : List V} {l : Loc} (inv : Inv σ T) (hl : ValidLoc σ l) :
    ∃ σ', Var.clearV σ l = .ok σ' ∧ Inv σ' T ∧ σ'.slots.length = σ.slots.length := by
  obtain ⟨v, hr, hheld⟩ := readLoc_valid hl T
  unfold Var.clearV
  simp only [bind, Except.bind, hr]
  cases hh : handleOf v with
  | none => exact ⟨σ, rfl, inv, rfl⟩
  | some id =>
    simp only []
    obtain ⟨b, hb, hk⟩ := inv.wf.live _ hheld id hh
    have hv : v = mkHandle b.isObj id := mkHandle_of_live (h := σ.heap) hh hk
    rcases inv.resizeAny (m := 0) hl (by rw [← hv]; exact hr) hb (fun h0 => absurd h0 (by omega)) with ⟨hc, _⟩ | ⟨σ', id', h1, inv', hs⟩
    · omega
    · exact ⟨σ', by simp [h1, pure, Except.pure], inv', hs⟩


/-! ## root variables, `Var(Type)` -/

theorem Inv.replaceSlot {σ : State} {T : List V} {k : Nat} {v : V} (inv : Inv σ (v :: T)) (hk : k < σ.slots.length) :
    ∃ σ', Var.replaceSlot σ k v = .ok σ' ∧ Inv σ' T ∧ σ'.slots.length = σ.slots.length := by
  obtain ⟨σ1, old, hr, hw, inv1, dom, _⟩ := inv.writeLoc (l := .slot k) hk (fun _ _ h => by simp [parentOf] at h)
  simp only [Var.writeLoc, hk, if_true, Except.ok.injEq] at hw
  subst hw
  have hold : slotV σ k = old := by
    simp only [readLoc, List.getElem?_eq_getElem hk, Except.ok.injEq] at hr
    simp [slotV, List.getD_eq_getElem?_getD, List.getElem?_eq_getElem hk, hr]
  obtain ⟨h', hd, inv2, _⟩ := Inv.drop (wl := [old]) (T := T) (by simpa using inv1)
  refine ⟨_, ?_, inv2, by simp⟩
  unfold Var.replaceSlot
  simp only [hk, if_true, hold]
  simp only [] at hd
  rw [hd]

theorem Inv.mkType {σ : State} {T : List V} (ty : Nat) (inv : Inv σ T) :
    Var.mkType σ.heap ty = .error .badarg ∨
    ∃ h' v, Var.mkType σ.heap ty = .ok (h', v) ∧ Inv { σ with heap := h' } (v :: T) ∧
      (∃ x, h' = σ.heap ++ x) ∧ (∀ id, handleOf v = some id → σ.heap.length ≤ id) ∧
      (∀ id, handleOf v = some id → ∃ b, getB h' id = .ok b ∧ b.items = []) := by
  unfold Var.mkType
  by_cases h0 : ty = tNONE
  · right; simp only [h0, if_true]
    exact ⟨σ.heap, V.none, rfl, (Inv.scalar rfl).mpr inv, ⟨[], by simp⟩, (fun id h => nomatch h), (fun id h => nomatch h)⟩
  by_cases h1 : ty = tNUL
  · right; simp only [h0, h1, if_true, if_false]
    exact ⟨σ.heap, V.null, rfl, (Inv.scalar rfl).mpr inv, ⟨[], by simp⟩, (fun id h => nomatch h), (fun id h => nomatch h)⟩
  by_cases h2 : ty = tSSTRING
  · right; simp only [h0, h1, h2, if_true, if_false]
    exact ⟨σ.heap, V.sstr [], rfl, (Inv.scalar rfl).mpr inv, ⟨[], by simp⟩, (fun id h => nomatch h), (fun id h => nomatch h)⟩
  by_cases h3 : ty = tSTRING
  · right; simp only [h0, h1, h2, h3, if_true, if_false]
    exact ⟨σ.heap, V.str [], rfl, (Inv.scalar rfl).mpr inv, ⟨[], by simp⟩, (fun id h => nomatch h), (fun id h => nomatch h)⟩
  by_cases h4 : ty = tARRAY
  · right; simp only [h0, h1, h2, h3, h4, if_true, if_false, allocB]
    have := Inv.alloc (σ := σ) (T := T) (b := emptyBlock false) (by simpa [bvals, emptyBlock] using inv) rfl
      (by intro h; cases h)
    exact ⟨_, _, rfl, this, ⟨_, rfl⟩, by intro id h; simp [handleOf] at h; omega,
      by intro id h; simp [handleOf] at h; subst h; exact ⟨_, getB_alloc_new _ _, rfl⟩⟩
  by_cases h5 : ty = tOBJ
  · right; simp only [h0, h1, h2, h3, h4, h5, if_true, if_false, allocB]
    have := Inv.alloc (σ := σ) (T := T) (b := emptyBlock true) (by simpa [bvals, emptyBlock] using inv) rfl
      (by intro _; simp [emptyBlock, SortedItems, AslProofs.Map.Sorted])
    exact ⟨_, _, rfl, this, ⟨_, rfl⟩, by intro id h; simp [handleOf] at h; omega,
      by intro id h; simp [handleOf] at h; subst h; exact ⟨_, getB_alloc_new _ _, rfl⟩⟩
  by_cases h6 : ty = tINT
  · right; simp only [h0, h1, h2, h3, h4, h5, h6, if_true, if_false]
    exact ⟨σ.heap, V.int 0, rfl, (Inv.scalar rfl).mpr inv, ⟨[], by simp⟩, (fun id h => nomatch h), (fun id h => nomatch h)⟩
  by_cases h7 : ty = tNUMBER
  · right; simp only [h0, h1, h2, h3, h4, h5, h6, h7, if_true, if_false]
    exact ⟨σ.heap, V.num (Dy.ofInt 0), rfl, (Inv.scalar rfl).mpr inv, ⟨[], by simp⟩, (fun id h => nomatch h), (fun id h => nomatch h)⟩
  by_cases h8 : ty = tFLOAT
  · right; simp only [h0, h1, h2, h3, h4, h5, h6, h7, h8, if_true, if_false]
    exact ⟨σ.heap, V.flt (Dy.ofInt 0), rfl, (Inv.scalar rfl).mpr inv, ⟨[], by simp⟩, (fun id h => nomatch h), (fun id h => nomatch h)⟩
  by_cases h9 : ty = tBOOL
  · right; simp only [h0, h1, h2, h3, h4, h5, h6, h7, h8, h9, if_true, if_false]
    exact ⟨σ.heap, V.bool false, rfl, (Inv.scalar rfl).mpr inv, ⟨[], by simp⟩, (fun id h => nomatch h), (fun id h => nomatch h)⟩
  left; simp only [h0, h1, h2, h3, h4, h5, h6, h7, h8, h9, if_false]

theorem Inv.assignType {σ : State} {T : List V} {t : Loc} {ty : Nat} (inv : Inv σ T) (hl : ValidLoc σ t) :
    Var.assignType σ t ty = .error .badarg ∨
    ∃ σ', Var.assignType σ t ty = .ok σ' ∧ Inv σ' T ∧ σ'.slots.length = σ.slots.length := by
  unfold Var.assignType
  rcases inv.mkType ty with h1 | ⟨h', v, h1, inv1, ⟨x, hx⟩, hfresh, hleaf⟩
  · left; simp [h1, bind, Except.bind]
  · right
    simp only [h1, bind, Except.bind]
    have hl1 : ValidLoc { σ with heap := h' } t := by rw [hx]; exact validLoc_append x hl
    obtain ⟨σ2, ha, inv2, hs2⟩ := Inv.assignV (T := v :: T) (src := v) inv1 hl1 (Held.live inv1 (Or.inr (Or.inl (by simp)))) (by
      -- the new block has no elements: nothing is reachable from it
      intro P c hP hv r
      have hge := hfresh c hv
      obtain ⟨bc, hbc, hempty⟩ := hleaf c hv
      have := reach_from_leaf hbc hempty r
      cases t with
      | slot k => simp [parentOf] at hP
      | item P' i =>
        simp only [parentOf, Option.some.injEq] at hP; subst hP
        obtain ⟨bP, hbP, _⟩ := hl
        have := getB_lt hbP
        omega)
    simp only [ha]
    obtain ⟨h3, hd, inv3, _⟩ := Inv.drop (σ := σ2) (wl := [v]) (T := T) (by simpa using inv2)
    simp only [hd, pure, Except.pure]
    exact ⟨_, rfl, inv3, hs2⟩




/-! ## reachability guard -/

theorem reaches_false_ne {f : Nat} {h : Heap} {t : Nat} {v : V} (hr : reaches (f + 1) h t v = .ok false) :
    handleOf v ≠ some t := by
  intro hv
  simp only [reaches, hv, if_true] at hr
  cases hr

theorem anyE_benign {α : Type} (p : α → Except Err Bool) : ∀ (l : List α),
    (∀ x ∈ l, (∃ b, p x = .ok b) ∨ p x = .error .fuel) → (∃ b, anyE l p = .ok b) ∨ anyE l p = .error .fuel
  | [], _ => Or.inl ⟨false, rfl⟩
  | x :: xs, hp => by
    simp only [anyE]
    rcases hp x (by simp) with ⟨b, hb⟩ | hb
    · rw [hb]
      cases b with
      | true => exact Or.inl ⟨true, rfl⟩
      | false => exact anyE_benign p xs (fun y hy => hp y (by simp [hy]))
    · rw [hb]; exact Or.inr rfl

/-- the walk of the guard only visits live blocks -/
theorem Inv.reaches_benign {σ : State} {T : List V} (inv : Inv σ T) (t : Nat) : ∀ (f : Nat) (v : V), LiveV σ.heap v →
    (∃ b, reaches f σ.heap t v = .ok b) ∨ reaches f σ.heap t v = .error .fuel
  | 0, _, _ => Or.inr rfl
  | f + 1, v, hv => by
    simp only [reaches]
    cases hh : handleOf v with
    | none => exact Or.inl ⟨false, rfl⟩
    | some id =>
      simp only []
      by_cases he : id = t
      · simp only [he, if_true]; exact Or.inl ⟨true, rfl⟩
      · simp only [he, if_false]
        obtain ⟨b, hb, _⟩ := hv id hh
        simp only [hb]
        apply anyE_benign
        intro kv hkv
        exact Inv.reaches_benign inv t f kv.2 (inv.wf.liveV (Or.inr (mem_hvals_of_getB hb (List.mem_map_of_mem hkv))))

theorem travFuel_pos (h : Heap) : ∃ f, travFuel h = f + 1 := ⟨h.length + 1, rfl⟩

theorem anyE_false {α : Type} {p : α → Except Err Bool} : ∀ {l : List α}, anyE l p = .ok false → ∀ x ∈ l, p x = .ok false
  | [], _, x, hx => by cases hx
  | y :: ys, h, x, hx => by
    simp only [anyE] at h
    cases hy : p y with
    | error e => simp [hy] at h
    | ok b =>
      cases b with
      | true => simp [hy] at h
      | false =>
        simp only [hy] at h
        rcases List.mem_cons.mp hx with rfl | hx
        · exact hy
        · exact anyE_false h x hx


/-- a negative verdict of the executable guard is a proof that there is no path -/
theorem reaches_false_not_reach {h : Heap} {B : Nat} : ∀ (f : Nat) (v : V) (c : Nat), reaches f h B v = .ok false →
    handleOf v = some c → ¬ Reach h c B
  | 0, _, _, hr, _ => by simp [reaches] at hr
  | f + 1, v, c, hr, hc => by
    simp only [reaches, hc] at hr
    by_cases he : c = B
    · simp [he] at hr
    · simp only [he, if_false] at hr
      cases hb : getB h c with
      | error e => simp [hb] at hr
      | ok b =>
        simp only [hb] at hr
        have hch := anyE_false hr
        intro r
        cases r with
        | refl _ => exact he rfl
        | step e r' =>
          obtain ⟨b', hb', w, hw, hid⟩ := e
          rw [hb] at hb'; cases hb'
          simp only [bvals, List.mem_map] at hw
          obtain ⟨kv, hkv, rfl⟩ := hw
          exact reaches_false_not_reach f kv.2 _ (hch kv hkv) hid r'



/-- outcome of `wouldCycle`: refused for depth, or a verdict; a negative verdict means the value is not the
handle of the parent block itself -/
theorem Inv.wouldCycle {σ : State} {T : List V} (inv : Inv σ T) (t : Loc) {src : V} (hs : LiveV σ.heap src) :
    Var.wouldCycle σ.heap (parentOf t) src = .error .fuel ∨ Var.wouldCycle σ.heap (parentOf t) src = .ok true ∨
    (Var.wouldCycle σ.heap (parentOf t) src = .ok false ∧
      ∀ id c, parentOf t = some id → handleOf src = some c → ¬ Reach σ.heap c id) := by
  unfold Var.wouldCycle
  cases hp : parentOf t with
  | none => right; right; exact ⟨rfl, fun id c h => by cases h⟩
  | some P =>
    simp only []
    obtain ⟨f, hf⟩ := travFuel_pos σ.heap
    rcases inv.reaches_benign P (travFuel σ.heap) src hs with ⟨b, hb⟩ | hb
    · cases b with
      | true => right; left; exact hb
      | false =>
        right; right
        refine ⟨hb, fun id c hid hc => ?_⟩
        cases hid
        exact reaches_false_not_reach _ src c hb hc
    · left; exact hb


/-! ## clone -/

theorem liveV_append {h : Heap} (x : Heap) {v : V} (hv : LiveV h v) : LiveV (h ++ x) v := by
  intro j hj
  obtain ⟨bj, hbj, hk⟩ := hv j hj
  exact ⟨bj, by rw [getB_append_left _ (getB_lt hbj)]; exact hbj, hk⟩

/-- outcome of cloning with recursion bound `f` from a state satisfying the invariant -/
def CloneOK (f : Nat) : Prop :=
  ∀ (σ : State) (v : V) (T : List V), Inv σ T → LiveV σ.heap v →
    cloneV f σ.heap v = .error .fuel ∨
    ∃ h' c, cloneV f σ.heap v = .ok (h', c) ∧ Inv { σ with heap := h' } (c :: T) ∧ ∃ x, h' = σ.heap ++ x

theorem cloneItems {f : Nat} (ih : CloneOK f) : ∀ (items : List (Bytes × V)) (σ : State) (T : List V), Inv σ T →
    (∀ kv ∈ items, LiveV σ.heap kv.2) →
    mapHeapE (cloneV f) σ.heap items = .error .fuel ∨
    ∃ h' items', mapHeapE (cloneV f) σ.heap items = .ok (h', items') ∧
      Inv { σ with heap := h' } (items'.map (·.2) ++ T) ∧ (∃ x, h' = σ.heap ++ x) ∧ items'.map (·.1) = items.map (·.1)
  | [], σ, T, inv, _ => Or.inr ⟨σ.heap, [], rfl, by simpa using inv, ⟨[], by simp⟩, rfl⟩
  | (k, x) :: rest, σ, T, inv, hlive => by
    simp only [mapHeapE]
    rcases ih σ x T inv (hlive (k, x) (by simp)) with h1 | ⟨h1, x', hc, inv1, ⟨y, hy⟩⟩
    · left; simp [h1]
    · simp only [hc]
      rcases cloneItems ih rest { σ with heap := h1 } (x' :: T) inv1 (by
          intro kv hkv
          show LiveV h1 kv.2
          rw [hy]; exact liveV_append y (hlive kv (by simp [hkv]))) with h2 | ⟨h2, rest', hm, inv2, ⟨z, hz⟩, hkeys⟩
      · left; simp only [] at h2; simp [h2]
      · right
        simp only [] at hm
        simp only [hm]
        refine ⟨h2, (k, x') :: rest', rfl, ?_, ⟨y ++ z, by rw [hz, hy, List.append_assoc]⟩, by simp [hkeys]⟩
        apply inv2.perm
        · intro v hv
          simp only [List.map_cons, List.cons_append, List.mem_cons, List.mem_append] at hv ⊢
          rcases hv with h3 | h3 | h3
          · exact Or.inr (Or.inl h3)
          · exact Or.inl h3
          · exact Or.inr (Or.inr h3)
        · intro id
          simp only [List.map_cons, List.cons_append, occ_cons, occ_append]
          omega

theorem cloneOK : ∀ f, CloneOK f
  | 0 => fun _ _ _ _ _ => Or.inl rfl
  | f + 1 => by
    intro σ v T inv hv
    simp only [cloneV]
    cases hh : handleOf v with
    | none => exact Or.inr ⟨σ.heap, v, rfl, (Inv.scalar hh).mpr inv, ⟨[], by simp⟩⟩
    | some id =>
      simp only []
      obtain ⟨b, hb, hk⟩ := hv id hh
      simp only [hb]
      rcases cloneItems (cloneOK f) b.items σ T inv (fun kv hkv =>
          inv.wf.liveV (Or.inr (mem_hvals_of_getB hb (List.mem_map_of_mem hkv)))) with h1 | ⟨h1, items', hm, inv1, ⟨y, hy⟩, hkeys⟩
      · left; simp [h1]
      · right
        simp only [hm, allocB]
        have hsorted : b.isObj = true → SortedItems items' := by
          intro ho
          have := inv.sorted id b hb ho
          rw [SortedItems, AslProofs.Map.sorted_iff_keys, hkeys, ← AslProofs.Map.sorted_iff_keys]
          exact this
        have := Inv.alloc (σ := { σ with heap := h1 }) (T := T)
          (b := { isObj := b.isObj, items := items', cap := max items'.length 3, rc := 1 }) (by simpa [bvals] using inv1) rfl hsorted
        simp only [] at this
        rw [← hk]
        exact ⟨_, _, rfl, this, ⟨y ++ [_], by rw [hy, List.append_assoc]⟩⟩


theorem writeLoc_frame {σ σ' : State} {l : Loc} {v : V} (hw : Var.writeLoc σ l v = .ok σ') :
    ∀ id, parentOf l ≠ some id → getB σ'.heap id = getB σ.heap id := by
  intro id hne
  cases l with
  | slot k =>
    simp only [Var.writeLoc] at hw
    split at hw
    · cases hw; rfl
    · cases hw
  | item P i =>
    have hP : id ≠ P := by intro e; exact hne (by simp [parentOf, e])
    simp only [Var.writeLoc] at hw
    cases hb : getB σ.heap P with
    | error e => simp [hb] at hw
    | ok b =>
      simp only [hb] at hw
      split at hw
      · cases hw
        simp only [setB]; rw [getB_set_ne _ hP]
      · cases hw


/-! ## what a release leaves untouched -/

theorem Edge.freeB {h : Heap} {c x y : Nat} (e : Edge (freeB h c) x y) : Edge h x y :=
  Edge.of_sub (SubItems.freeB c) e

/-- destroying values never changes a block that none of them can reach -/
theorem release_frame : ∀ (fuel : Nat) (h h' : Heap) (wl : List V) (id : Nat), release fuel h wl = .ok h' →
    (∀ v ∈ wl, ∀ c, handleOf v = some c → ¬ Reach h c id) → h'[id]? = h[id]?
  | 0, _, _, _, _, hr, _ => by simp [release] at hr
  | f + 1, h, h', [], id, hr, _ => by simp only [release, Except.ok.injEq] at hr; rw [hr]
  | f + 1, h, h', v :: rest, id, hr, hno => by
    simp only [release] at hr
    cases hh : handleOf v with
    | none =>
      simp only [hh] at hr
      exact release_frame f h h' rest id hr (fun w hw => hno w (by simp [hw]))
    | some c =>
      simp only [hh] at hr
      cases hb : getB h c with
      | error e => simp [hb] at hr
      | ok b =>
        simp only [hb] at hr
        have hcid : c ≠ id := fun e => hno v (by simp) c hh (e ▸ Reach.refl c)
        by_cases h0 : b.rc = 0
        · simp [h0] at hr
        · simp only [h0, if_false] at hr
          by_cases h1 : b.rc = 1
          · simp only [h1, if_true] at hr
            have := release_frame f (freeB h c) h' (b.items.map (·.2) ++ rest) id hr (by
              intro w hw c' hc' r
              have r' : Reach h c' id := Reach.mono (fun _ _ e => Edge.freeB e) r
              rcases List.mem_append.mp hw with hw1 | hw1
              · exact hno v (by simp) c hh (Reach.step ⟨b, hb, w, hw1, hc'⟩ r')
              · exact hno w (by simp [hw1]) c' hc' r')
            rw [this, Var.freeB, List.getElem?_set_ne hcid]
          · simp only [h1, if_false] at hr
            have := release_frame f (setB h c { b with rc := b.rc - 1 }) h' rest id hr (by
              intro w hw c' hc' r
              have r' : Reach h c' id := (Reach.of_same (SameItems.setRc hb _)).mp r
              exact hno w (by simp [hw]) c' hc' r')
            rw [this, Var.setB, List.getElem?_set_ne hcid]

/-- a path in a heap with one more edge `B → c` is a path of the old heap, or passes through `B` -/
theorem reach_addEdge_split {h h' : Heap} {B c : Nat} (he : ∀ x y, Edge h' x y → Edge h x y ∨ (x = B ∧ y = c))
    {x z : Nat} (r : Reach h' x z) : Reach h x z ∨ Reach h x B := by
  induction r with
  | refl x => exact Or.inl (Reach.refl x)
  | @step x y z e _ ih =>
    rcases he x y e with e0 | ⟨rfl, _⟩
    · rcases ih with h1 | h1
      · exact Or.inl (Reach.step e0 h1)
      · exact Or.inr (Reach.step e0 h1)
    · exact Or.inr (Reach.refl x)


/-- **ancestors survive an assignment**: after `target = src` with the target stored in block `B`, every other block
from which `B` is reachable still exists with the same elements (only blocks reachable from the old content of
the target can be released, and none of them reaches an ancestor of `B`, the heap being acyclic) -/
theorem Inv.assignV_ancestors {σ σ' : State} {T : List V} {B p : Nat} {src : V} (inv : Inv σ T)
    (hl : ValidLoc σ (.item B p)) (hs : LiveV σ.heap src)
    (hacyc : ∀ c, handleOf src = some c → ¬ Reach σ.heap c B)
    (ha : Var.assignV σ (.item B p) src = .ok σ') :
    σ'.slots = σ.slots ∧
    ∀ P bP, getB σ.heap P = .ok bP → P ≠ B → Reach σ.heap P B → ∃ bP', getB σ'.heap P = .ok bP' ∧ bP'.items = bP.items := by
  obtain ⟨old, hr, hheld⟩ := readLoc_valid hl T
  clear hheld
  obtain ⟨bB, hbB, hp⟩ := hl
  have hslots : ∀ {τ τ' : State} {v : V}, Var.writeLoc τ (.item B p) v = .ok τ' → τ'.slots = τ.slots := by
    intro τ τ' v hw
    simp only [Var.writeLoc] at hw
    cases hb : getB τ.heap B with
    | error e => simp [hb] at hw
    | ok b =>
      simp only [hb] at hw
      split at hw
      · cases hw; rfl
      · cases hw
  have hparent : ∀ P, P ≠ B → parentOf (Loc.item B p) ≠ some P := by
    intro P hP e; simp only [parentOf, Option.some.injEq] at e; exact hP e.symm
  unfold Var.assignV at ha
  rw [hr] at ha
  dsimp only at ha
  split at ha
  · -- STRING := STRING in place: only block B changes
    refine ⟨hslots ha, fun P bP hbP hPB _ => ⟨bP, ?_, rfl⟩⟩
    rw [writeLoc_frame ha P (hparent P hPB)]; exact hbP
  · obtain ⟨h1, hc, inv1, same⟩ := inv.copyLive hs
    simp only [hc] at ha
    cases hw : Var.writeLoc { σ with heap := h1 } (.item B p) src with
    | error e => simp [hw] at ha
    | ok σ2 =>
      simp only [hw] at ha
      have hs2 : σ2.slots = σ.slots := hslots (τ := { σ with heap := h1 }) hw
      -- block P after the copy and the write
      have hP2 : ∀ P bP, getB σ.heap P = .ok bP → P ≠ B → ∃ bP', getB σ2.heap P = .ok bP' ∧ bP'.items = bP.items := by
        intro P bP hbP hPB
        obtain ⟨b1, hb1, e1, _, _⟩ := same.get hbP
        exact ⟨b1, by rw [writeLoc_frame hw P (hparent P hPB)]; exact hb1, e1⟩
      by_cases hpod : isPod old = true
      · simp only [hpod, if_true] at ha
        cases ha
        exact ⟨hs2, fun P bP hbP hPB _ => hP2 P bP hbP hPB⟩
      · simp only [hpod] at ha
        cases hd : Var.drop σ2.heap [old] with
        | error e => simp [hd] at ha
        | ok h3 =>
          simp only [hd] at ha
          cases ha
          refine ⟨hs2, fun P bP hbP hPB hreach => ?_⟩
          obtain ⟨b2, hb2, e2⟩ := hP2 P bP hbP hPB
          -- the old content cannot reach P
          obtain ⟨rank, hrk⟩ := inv.ranked
          have hedgeOld : ∀ c, handleOf old = some c → Edge σ.heap B c := by
            intro c hc
            refine ⟨bB, hbB, old, ?_, hc⟩
            simp only [readLoc, hbB] at hr
            cases hi' : bB.items[p]? with
            | none => simp [hi'] at hr
            | some kv =>
              simp only [hi', Except.ok.injEq] at hr
              rw [← hr]; exact List.mem_map_of_mem (List.mem_of_getElem? hi')
          have hb1B : ∃ b1, getB h1 B = .ok b1 ∧ b1.items = bB.items := by
            obtain ⟨b1, hb1, e1, _, _⟩ := same.get hbB
            exact ⟨b1, hb1, e1⟩
          obtain ⟨b1B, hb1B, e1B⟩ := hb1B
          have hedges2 : ∀ x y, Edge σ2.heap x y → Edge h1 x y ∨ (x = B ∧ handleOf src = some y) := by
            intro x y e
            simp only [Var.writeLoc, hb1B] at hw
            split at hw
            · cases hw
              rcases Edge.setB hb1B e with ⟨_, e0⟩ | ⟨rfl, w, hw', hwy⟩
              · exact Or.inl e0
              · simp only [bvals, map_snd_setValAt] at hw'
                rcases List.mem_or_eq_of_mem_set hw' with h2 | rfl
                · exact Or.inl ⟨b1B, hb1B, w, h2, hwy⟩
                · exact Or.inr ⟨rfl, hwy⟩
            · cases hw
          have hno : ∀ v ∈ [old], ∀ c, handleOf v = some c → ¬ Reach σ2.heap c P := by
            intro v hv c hc r
            simp only [List.mem_singleton] at hv; subst hv
            have hlt := hrk B c (hedgeOld c hc)
            have hle := Reach.rank_le hrk hreach
            have key : Reach σ.heap c P ∨ Reach σ.heap c B := by
              cases hsrc : handleOf src with
              | none =>
                left
                apply (Reach.of_same same).mp
                exact Reach.mono (fun x y e => by
                  rcases hedges2 x y e with e0 | ⟨_, h0⟩
                  · exact e0
                  · rw [hsrc] at h0; cases h0) r
              | some cs =>
                have := reach_addEdge_split (h := h1) (B := B) (c := cs) (fun x y e => by
                  rcases hedges2 x y e with e0 | ⟨h0, h0'⟩
                  · exact Or.inl e0
                  · rw [hsrc] at h0'; exact Or.inr ⟨h0, (Option.some.inj h0').symm⟩) r
                rcases this with h0 | h0
                · exact Or.inl ((Reach.of_same same).mp h0)
                · exact Or.inr ((Reach.of_same same).mp h0)
            rcases key with h0 | h0
            · have := Reach.rank_le hrk h0; omega
            · have := Reach.rank_le hrk h0; omega
          have hfr := release_frame _ σ2.heap h3 [old] P hd hno
          refine ⟨b2, ?_, e2⟩
          rw [getB_eq] at hb2 ⊢
          rw [hfr]; exact hb2


/-! ## extend -/

theorem Inv.extendLoop {l : Loc} {sid : Nat} : ∀ (n : Nat) (σ : State) (T : List V) (i : Nat), Inv σ T → V.obj sid ∈ T →
    ValidLoc σ l →
    (∃ e, Var.extendLoop true sid n σ l i = .error e ∧ (e = .sharedGrowth ∨ e = .badarg ∨ e = .cyclic ∨ e = .fuel)) ∨
    ∃ σ', Var.extendLoop true sid n σ l i = .ok σ' ∧ Inv σ' T ∧ σ'.slots.length = σ.slots.length
  | 0, σ, T, i, inv, _, _ => Or.inr ⟨σ, rfl, inv, rfl⟩
  | n + 1, σ, T, i, inv, hsid, hl => by
    simp only [Var.extendLoop]
    obtain ⟨sb, hsb, _⟩ := inv.wf.live (V.obj sid) (Or.inl (by simp [hsid])) sid rfl
    simp only [hsb]
    cases hi : sb.items[i]? with
    | none => exact Or.inr ⟨σ, rfl, inv, rfl⟩
    | some kv =>
      obtain ⟨key, x⟩ := kv
      simp only []
      by_cases hx : x = V.none
      · simp only [hx, if_true]
        exact Inv.extendLoop n σ T (i + 1) inv hsid hl
      · simp only [hx, if_false]
        have hxlive : LiveV σ.heap x :=
          inv.wf.liveV (Or.inr (mem_hvals_of_getB hsb (List.mem_map_of_mem (f := (·.2)) (List.mem_of_getElem? hi))))
        obtain ⟨v, hr, hheld⟩ := readLoc_valid hl T
        simp only [hr]
        cases v with
        | obj id =>
          simp only []
          rcases inv.reaches_benign id (travFuel σ.heap) x hxlive with ⟨rb, hrb⟩ | hrb
          · rw [hrb]
            cases rb with
            | true => exact Or.inl ⟨_, rfl, Or.inr (Or.inr (Or.inl rfl))⟩
            | false =>
              simp only []
              have hnoreach : ∀ c, handleOf x = some c → ¬ Reach σ.heap c id :=
                fun c hc => reaches_false_not_reach _ x c hrb hc
              have hself : handleOf x ≠ some id := fun h0 => hnoreach id h0 (Reach.refl id)
              obtain ⟨b, hb, hkind⟩ := inv.wf.live _ hheld id rfl
              simp only [isObjV] at hkind
              rcases inv.indexKey (k := key) hl hr hb hkind with h1 | ⟨σ1, id', p, h1, inv1, hs1, hl1, hr1, hv1, hkeep, hfresh, hedges⟩
              · simp only [h1]; exact Or.inl ⟨_, rfl, Or.inl rfl⟩
              · simp only [h1]
                have hacyc1 : ∀ c, handleOf x = some c → ¬ Reach σ1.heap c id' := by
                  intro c hc r
                  have r0 := Reach.rename _ hedges r
                  have hcl : c < σ.heap.length := by
                    obtain ⟨bs, hbs, _⟩ := hxlive c hc
                    exact getB_lt hbs
                  have hcn : (if c = id' then id else c) = c := by
                    rcases hfresh with e | e
                    · rw [e]; split <;> simp_all
                    · have : c ≠ id' := by omega
                      simp [this]
                  simp only [hcn, if_true] at r0
                  exact hnoreach c hc r0
                have hxlive1 := hkeep x hxlive hself
                obtain ⟨σ2, ha, inv2, hs2⟩ := Inv.assignV (src := x) inv1 hv1 hxlive1 (by
                  intro P c hP hc
                  simp only [parentOf, Option.some.injEq] at hP; subst hP
                  exact hacyc1 c hc)
                simp only [ha]
                -- the Var that holds the object outlives the assignment
                have hl2 : ValidLoc σ2 l := by
                  obtain ⟨hslots, hanc⟩ := inv1.assignV_ancestors hv1 hxlive1 hacyc1 ha
                  cases l with
                  | slot k => show k < σ2.slots.length; rw [hslots]; exact hl1
                  | item P j =>
                    obtain ⟨bP, hbP, hj⟩ := hl1
                    have hPid : P ≠ id' := ValidLoc.parent_ne inv1 hr1 rfl |> fun hne e => hne (by simp [parentOf, e])
                    have hedge : Edge σ1.heap P id' := by
                      refine ⟨bP, hbP, V.obj id', ?_, rfl⟩
                      simp only [readLoc, hbP] at hr1
                      cases hj' : bP.items[j]? with
                      | none => simp [hj'] at hr1
                      | some kv =>
                        simp only [hj', Except.ok.injEq] at hr1
                        rw [← hr1]; exact List.mem_map_of_mem (List.mem_of_getElem? hj')
                    obtain ⟨bP', hbP', e⟩ := hanc P bP hbP hPid (Reach.single hedge)
                    exact ⟨bP', hbP', by rw [e]; exact hj⟩
                rcases Inv.extendLoop n σ2 T (i + 1) inv2 hsid hl2 with ⟨e, h2, he⟩ | ⟨σ', h2, inv', hs'⟩
                · exact Or.inl ⟨e, h2, he⟩
                · exact Or.inr ⟨σ', h2, inv', by rw [hs', hs2, hs1]⟩
          · rw [hrb]; exact Or.inl ⟨_, rfl, Or.inr (Or.inr (Or.inr rfl))⟩
        | none => exact Or.inl ⟨_, rfl, Or.inr (Or.inl rfl)⟩
        | null => exact Or.inl ⟨_, rfl, Or.inr (Or.inl rfl)⟩
        | bool _ => exact Or.inl ⟨_, rfl, Or.inr (Or.inl rfl)⟩
        | int _ => exact Or.inl ⟨_, rfl, Or.inr (Or.inl rfl)⟩
        | num _ => exact Or.inl ⟨_, rfl, Or.inr (Or.inl rfl)⟩
        | flt _ => exact Or.inl ⟨_, rfl, Or.inr (Or.inl rfl)⟩
        | sstr _ => exact Or.inl ⟨_, rfl, Or.inr (Or.inl rfl)⟩
        | str _ => exact Or.inl ⟨_, rfl, Or.inr (Or.inl rfl)⟩
        | arr _ => exact Or.inl ⟨_, rfl, Or.inr (Or.inl rfl)⟩

theorem Inv.toObjIfNone {σ : State} {T : List V} {l : Loc} (inv : Inv σ T) (hl : ValidLoc σ l) :
    ∃ σ0, Var.toObjIfNone σ l = .ok σ0 ∧ Inv σ0 T ∧ σ0.slots.length = σ.slots.length ∧ ValidLoc σ0 l ∧
      (∀ v, LiveV σ.heap v → LiveV σ0.heap v) := by
  obtain ⟨v, hr, _⟩ := readLoc_valid hl T
  unfold Var.toObjIfNone
  rw [hr]
  cases v with
  | none =>
    obtain ⟨σ1, hw, inv1, hs1, hl1, _, _, hkeep, _⟩ := inv.vivify true hl hr
    rw [mkHandle_true] at hw
    exact ⟨σ1, by simp only [allocB]; exact hw, inv1, hs1, hl1, hkeep⟩
  | null => exact ⟨σ, rfl, inv, rfl, hl, fun _ h => h⟩
  | bool _ => exact ⟨σ, rfl, inv, rfl, hl, fun _ h => h⟩
  | int _ => exact ⟨σ, rfl, inv, rfl, hl, fun _ h => h⟩
  | num _ => exact ⟨σ, rfl, inv, rfl, hl, fun _ h => h⟩
  | flt _ => exact ⟨σ, rfl, inv, rfl, hl, fun _ h => h⟩
  | sstr _ => exact ⟨σ, rfl, inv, rfl, hl, fun _ h => h⟩
  | str _ => exact ⟨σ, rfl, inv, rfl, hl, fun _ h => h⟩
  | arr _ => exact ⟨σ, rfl, inv, rfl, hl, fun _ h => h⟩
  | obj _ => exact ⟨σ, rfl, inv, rfl, hl, fun _ h => h⟩

theorem Inv.extendObj {σ0 : State} {T : List V} {l : Loc} {src : V} (inv0 : Inv σ0 T) (hl0 : ValidLoc σ0 l)
    (hsrc0 : LiveV σ0.heap src) :
    (∃ e, Var.extendObj true σ0 l src = .error e ∧ (e = .sharedGrowth ∨ e = .badarg ∨ e = .cyclic ∨ e = .fuel)) ∨
    ∃ σ', Var.extendObj true σ0 l src = .ok σ' ∧ Inv σ' T ∧ σ'.slots.length = σ0.slots.length := by
  obtain ⟨v0, hr0, _⟩ := readLoc_valid hl0 T
  unfold Var.extendObj
  rw [hr0]
  by_cases hobj : (∃ id, v0 = V.obj id) ∧ (∃ sid, src = V.obj sid)
  · obtain ⟨⟨id, rfl⟩, ⟨sid, rfl⟩⟩ := hobj
    simp only []
    obtain ⟨h1, hc, inv1, same⟩ := inv0.copyLive hsrc0
    simp only [hc]
    obtain ⟨sb, hsb, _⟩ := inv1.wf.live (V.obj sid) (Or.inl (by simp)) sid rfl
    simp only [] at hsb
    simp only [hsb]
    have hl1 : ValidLoc { σ0 with heap := h1 } l := (SameDom.of_same same).validLoc hl0
    rcases Inv.extendLoop (l := l) (sid := sid) sb.items.length { σ0 with heap := h1 } (V.obj sid :: T) 0 inv1 (by simp) hl1 with
      ⟨e, h2, he⟩ | ⟨σ', h2, inv', hs'⟩
    · simp only [h2]; exact Or.inl ⟨e, rfl, he⟩
    · simp only [h2]
      obtain ⟨h3, hd, inv3, _⟩ := Inv.drop (σ := σ') (wl := [V.obj sid]) (T := T) (by simpa using inv')
      simp only [hd]
      exact Or.inr ⟨_, rfl, inv3, hs'⟩
  · right
    refine ⟨σ0, ?_, inv0, rfl⟩
    cases v0 <;> cases src <;> first | rfl | (exfalso; exact hobj ⟨⟨_, rfl⟩, ⟨_, rfl⟩⟩)

/-- `extend` -/
theorem Inv.extendV {σ : State} {T : List V} {l : Loc} {src : V} (inv : Inv σ T) (hl : ValidLoc σ l)
    (hsrc : LiveV σ.heap src) :
    (∃ e, Var.extendV true σ l src = .error e ∧ (e = .sharedGrowth ∨ e = .badarg ∨ e = .cyclic ∨ e = .fuel)) ∨
    ∃ σ', Var.extendV true σ l src = .ok σ' ∧ Inv σ' T ∧ σ'.slots.length = σ.slots.length := by
  obtain ⟨σ0, h0, inv0, hs0, hl0, hkeep⟩ := inv.toObjIfNone hl
  unfold Var.extendV
  rw [h0]
  rcases inv0.extendObj (src := src) hl0 (hkeep src hsrc) with ⟨e, h1, he⟩ | ⟨σ', h1, inv', hs'⟩
  · exact Or.inl ⟨e, h1, he⟩
  · exact Or.inr ⟨σ', h1, inv', by rw [hs', hs0]⟩

/-! ## statements -/

/-- the const walk that also reports the Var it ends at: total on states satisfying the invariant -/
theorem Inv.resolveConstLoc {σ : State} {T : List V} (inv : Inv σ T) : ∀ (steps : List Step) (l : Option Loc) (v : V),
    Held σ T v →
    (∃ e, Var.resolveConstLoc σ.heap l v steps = .error e ∧ e = .nopath) ∨
    ∃ r, Var.resolveConstLoc σ.heap l v steps = .ok r
  | [], l, v, _ => Or.inr ⟨(l, v), rfl⟩
  | s :: rest, l, v, hv => by
    simp only [Var.resolveConstLoc]
    have key : (∃ e, stepConstLoc σ.heap v s = .error e ∧ e = .nopath) ∨
        ∃ l1 w, stepConstLoc σ.heap v s = .ok (l1, w) ∧ Held σ T w := by
      unfold stepConstLoc
      cases s with
      | idx i =>
        cases v with
        | arr id =>
          have hin : V.arr id ∈ σ.slots ++ T ∨ V.arr id ∈ hvals σ.heap := by
            rcases hv with h0 | h0
            · simp [handleOf] at h0
            · exact h0
          obtain ⟨b, hb, _⟩ := inv.wf.live _ hin id rfl
          simp only [hb]
          cases hi : b.items[i]? with
          | none => right; exact ⟨none, V.none, rfl, Or.inl rfl⟩
          | some kv =>
            right
            exact ⟨_, kv.2, rfl, Held.of_mem_block hb (List.mem_map_of_mem (List.mem_of_getElem? hi))⟩
        | obj _ => right; exact ⟨none, V.none, rfl, Or.inl rfl⟩
        | none => right; exact ⟨none, V.none, rfl, Or.inl rfl⟩
        | null => right; exact ⟨none, V.none, rfl, Or.inl rfl⟩
        | bool _ => right; exact ⟨none, V.none, rfl, Or.inl rfl⟩
        | int _ => right; exact ⟨none, V.none, rfl, Or.inl rfl⟩
        | num _ => right; exact ⟨none, V.none, rfl, Or.inl rfl⟩
        | flt _ => right; exact ⟨none, V.none, rfl, Or.inl rfl⟩
        | sstr _ => right; exact ⟨none, V.none, rfl, Or.inl rfl⟩
        | str _ => right; exact ⟨none, V.none, rfl, Or.inl rfl⟩
      | key k =>
        cases v with
        | obj id =>
          have hin : V.obj id ∈ σ.slots ++ T ∨ V.obj id ∈ hvals σ.heap := by
            rcases hv with h0 | h0
            · simp [handleOf] at h0
            · exact h0
          obtain ⟨b, hb, hk⟩ := inv.wf.live _ hin id rfl
          simp only [isObjV] at hk
          simp only [hb]
          obtain ⟨r, hidx, hspec⟩ := AslProofs.Map.indexOf_spec cmpB_strict b.items k (inv.sorted id b hb hk)
          right
          simp only [keyPos, hidx]
          by_cases hr0 : r ≥ 0
          · simp only [hr0, if_true]
            obtain ⟨hlt, _⟩ := hspec.1 hr0
            simp only [List.getElem?_eq_getElem hlt]
            exact ⟨_, _, rfl, Held.of_mem_block hb (List.mem_map_of_mem (List.getElem_mem hlt))⟩
          · simp only [hr0, if_false]
            exact ⟨none, V.none, rfl, Or.inl rfl⟩
        | arr _ => right; exact ⟨none, V.none, rfl, Or.inl rfl⟩
        | none => right; exact ⟨none, V.none, rfl, Or.inl rfl⟩
        | null => right; exact ⟨none, V.none, rfl, Or.inl rfl⟩
        | bool _ => right; exact ⟨none, V.none, rfl, Or.inl rfl⟩
        | int _ => right; exact ⟨none, V.none, rfl, Or.inl rfl⟩
        | num _ => right; exact ⟨none, V.none, rfl, Or.inl rfl⟩
        | flt _ => right; exact ⟨none, V.none, rfl, Or.inl rfl⟩
        | sstr _ => right; exact ⟨none, V.none, rfl, Or.inl rfl⟩
        | str _ => right; exact ⟨none, V.none, rfl, Or.inl rfl⟩
    rcases key with ⟨e, h1, he⟩ | ⟨l1, w, h1, hw⟩
    · left; exact ⟨e, by simp [h1], he⟩
    · simp only [h1]
      exact Inv.resolveConstLoc inv rest l1 w hw

theorem Inv.cloc {σ : State} {T : List V} (inv : Inv σ T) (q : Path) :
    (∃ e, Var.cloc σ q = .error e ∧ e = .nopath) ∨ ∃ r, Var.cloc σ q = .ok r := by
  unfold Var.cloc
  rcases inv.resolveConstLoc q.steps (some (.slot q.root)) _ (slotV_held T q.root) with ⟨e, h1, he⟩ | ⟨r, h1⟩
  · left; exact ⟨e, by simp [h1, Except.map], he⟩
  · right; exact ⟨r.1, by simp [h1, Except.map]⟩

theorem Inv.cycleGuard {σ : State} {T : List V} (inv : Inv σ T) (t : Loc) {src : V} (hs : LiveV σ.heap src) :
    (∃ e, Var.cycleGuard σ.heap (parentOf t) src = .error e ∧ (e = .fuel ∨ e = .cyclic)) ∨
    (Var.cycleGuard σ.heap (parentOf t) src = .ok () ∧
      ∀ id c, parentOf t = some id → handleOf src = some c → ¬ Reach σ.heap c id) := by
  unfold Var.cycleGuard
  rcases inv.wouldCycle t hs with h1 | h1 | ⟨h1, h2⟩
  · left; exact ⟨_, by rw [h1], Or.inl rfl⟩
  · left; exact ⟨_, by rw [h1], Or.inr rfl⟩
  · right; exact ⟨by rw [h1], h2⟩

/-- the errors with which a statement may be refused -/
def Refusal (e : Err) : Prop :=
  e = .sharedGrowth ∨ e = .cyclic ∨ e = .nopath ∨ e = .badarg ∨ e = .fuel ∨ e = .srcMoved

/-- outcome of a statement body on a state satisfying the invariant -/
def BodyOK (σ : State) (r : Except Err State) : Prop :=
  (∃ e, r = .error e ∧ Refusal e) ∨ ∃ σ', r = .ok σ' ∧ Inv σ' [] ∧ σ'.slots.length = σ.slots.length

theorem readLoc_held {σ : State} {l : Loc} {v : V} (hr : readLoc σ l = .ok v) : v ∈ σ.slots ∨ v ∈ hvals σ.heap := by
  cases l with
  | slot k =>
    simp only [readLoc] at hr
    cases hk : σ.slots[k]? with
    | none => simp [hk] at hr
    | some x => simp only [hk, Except.ok.injEq] at hr; subst hr; exact Or.inl (List.mem_of_getElem? hk)
  | item P i =>
    simp only [readLoc] at hr
    cases hb : getB σ.heap P with
    | error e => simp [hb] at hr
    | ok b =>
      simp only [hb] at hr
      cases hi : b.items[i]? with
      | none => simp [hi] at hr
      | some kv =>
        simp only [hi, Except.ok.injEq] at hr; subst hr
        exact Or.inr (mem_hvals_of_getB hb (List.mem_map_of_mem (List.mem_of_getElem? hi)))

theorem srcMovedR : Refusal .srcMoved := Or.inr (Or.inr (Or.inr (Or.inr (Or.inr rfl))))

/-- reading through the source reference: a value held by the state (or the refusal that is never taken) -/
theorem Inv.srcVal {σ : State} {T : List V} (sl : Option Loc) :
    (Var.srcVal σ sl = .error .srcMoved) ∨ ∃ src, Var.srcVal σ sl = .ok src ∧ Held σ T src := by
  unfold Var.srcVal
  cases sl with
  | none => exact Or.inr ⟨V.none, rfl, Or.inl rfl⟩
  | some l =>
    simp only []
    cases hr : readLoc σ l with
    | error e => exact Or.inl rfl
    | ok v =>
      refine Or.inr ⟨v, rfl, Or.inr ?_⟩
      rcases readLoc_held hr with h | h
      · exact Or.inl (List.mem_append_left _ h)
      · exact Or.inr h

theorem Inv.opSetV {σ : State} {t : Loc} (sl : Option Loc) (inv : Inv σ []) (hl : ValidLoc σ t) : BodyOK σ (Var.opSetV σ t sl) := by
  unfold Var.opSetV
  rcases Inv.srcVal (σ := σ) (T := []) sl with h1 | ⟨src, h1, hsrc⟩
  · left; exact ⟨_, by rw [h1], srcMovedR⟩
  · rw [h1]
    have hlive := Held.live inv hsrc
    rcases inv.cycleGuard t hlive with ⟨e, h2, he⟩ | ⟨h2, hne⟩
    · left; refine ⟨e, by simp only [h2], ?_⟩
      rcases he with he | he <;> subst he
      · exact Or.inr (Or.inr (Or.inr (Or.inr (Or.inl rfl))))
      · exact Or.inr (Or.inl rfl)
    · simp only [h2]
      obtain ⟨σ', ha, inv', hs⟩ := inv.assignV hl hlive hne
      right; exact ⟨σ', ha, inv', hs⟩


theorem Inv.appGuard {σ : State} {t : Loc} (sl : Option Loc) {src v : V} (inv : Inv σ []) (hs : LiveV σ.heap src) :
    (∃ e, Var.appGuard σ t sl src v = .error e ∧ Refusal e) ∨
    (Var.appGuard σ t sl src v = .ok () ∧
      (∀ id c, v = .arr id → handleOf src = some c → ¬ Reach σ.heap c id) ∧
      (v = .none → ∀ P c, parentOf t = some P → handleOf src = some c → ¬ Reach σ.heap c P)) := by
  unfold Var.appGuard
  cases v with
  | arr id =>
    simp only []
    obtain ⟨f, hf⟩ := travFuel_pos σ.heap
    rcases inv.reaches_benign id (travFuel σ.heap) src hs with ⟨b, hb⟩ | hb
    · rw [hb]
      cases b with
      | true => left; exact ⟨_, rfl, Or.inr (Or.inl rfl)⟩
      | false =>
        right
        refine ⟨rfl, ⟨(fun id' c hid' hc => ?_), (fun h0 => nomatch h0)⟩⟩
        cases hid'
        exact reaches_false_not_reach _ src c hb hc
    · rw [hb]; left; exact ⟨_, rfl, Or.inr (Or.inr (Or.inr (Or.inr (Or.inl rfl))))⟩
  | none =>
    simp only []
    rcases inv.cycleGuard t hs with ⟨e, h2, he⟩ | ⟨h2, hcg⟩
    · left; refine ⟨e, by simp only [h2], ?_⟩
      rcases he with he | he <;> subst he
      · exact Or.inr (Or.inr (Or.inr (Or.inr (Or.inl rfl))))
      · exact Or.inr (Or.inl rfl)
    · simp only [h2]
      by_cases hsl : sl = some t
      · left; simp only [hsl, if_true]; exact ⟨_, rfl, Or.inr (Or.inl rfl)⟩
      · right; exact ⟨by simp only [hsl, if_false], ⟨(fun id c h => nomatch h), (fun _ => hcg)⟩⟩
  | null => right; exact ⟨rfl, ⟨(fun id c h => nomatch h), (fun h => nomatch h)⟩⟩
  | bool _ => right; exact ⟨rfl, ⟨(fun id c h => nomatch h), (fun h => nomatch h)⟩⟩
  | int _ => right; exact ⟨rfl, ⟨(fun id c h => nomatch h), (fun h => nomatch h)⟩⟩
  | num _ => right; exact ⟨rfl, ⟨(fun id c h => nomatch h), (fun h => nomatch h)⟩⟩
  | flt _ => right; exact ⟨rfl, ⟨(fun id c h => nomatch h), (fun h => nomatch h)⟩⟩
  | sstr _ => right; exact ⟨rfl, ⟨(fun id c h => nomatch h), (fun h => nomatch h)⟩⟩
  | str _ => right; exact ⟨rfl, ⟨(fun id c h => nomatch h), (fun h => nomatch h)⟩⟩
  | obj _ => right; exact ⟨rfl, ⟨(fun id c h => nomatch h), (fun h => nomatch h)⟩⟩

theorem Inv.opApp {σ : State} {t : Loc} (sl : Option Loc) (inv : Inv σ []) (hl : ValidLoc σ t) : BodyOK σ (Var.opApp true σ t sl) := by
  unfold Var.opApp
  rcases Inv.srcVal (σ := σ) (T := []) sl with h1 | ⟨src, h1, hsrc⟩
  · left; exact ⟨_, by rw [h1], srcMovedR⟩
  · rw [h1]
    have hlive := Held.live inv hsrc
    obtain ⟨v, hr, _⟩ := readLoc_valid hl []
    simp only [hr]
    rcases inv.appGuard (t := t) sl (v := v) hlive with ⟨e, h2, he⟩ | ⟨h2, hne, hneN⟩
    · left; exact ⟨e, by simp only [h2], he⟩
    · simp only [h2]
      rcases inv.appendAt hl hlive
          (fun id c hid hc => hne id c (by rw [hr] at hid; exact (Except.ok.inj hid)) hc)
          (fun hid => hneN (by rw [hr] at hid; exact (Except.ok.inj hid))) with h3 | ⟨σ', h3, inv', hs⟩
      · left; exact ⟨_, h3, Or.inl rfl⟩
      · right; exact ⟨σ', h3, inv', hs⟩

theorem Inv.anyReaches_benign {σ : State} {T : List V} (inv : Inv σ T) (t : Nat) {id : Nat} {b : Block}
    (hb : getB σ.heap id = .ok b) :
    (∃ r, anyReaches σ.heap t b.items = .ok r) ∨ anyReaches σ.heap t b.items = .error .fuel := by
  unfold anyReaches
  apply anyE_benign
  intro kv hkv
  by_cases hx : kv.2 = V.none
  · simp only [hx, if_true]; exact Or.inl ⟨false, rfl⟩
  · simp only [hx, if_false]
    exact inv.reaches_benign t _ kv.2 (inv.wf.liveV (Or.inr (mem_hvals_of_getB hb (List.mem_map_of_mem hkv))))

theorem Inv.extGuard {σ : State} {t : Loc} {src v : V} (inv : Inv σ []) (hs : LiveV σ.heap src) (hv : LiveV σ.heap v) :
    (∃ e, Var.extGuard true σ t src v = .error e ∧ Refusal e) ∨ Var.extGuard true σ t src v = .ok () := by
  have fuelR : Refusal .fuel := Or.inr (Or.inr (Or.inr (Or.inr (Or.inl rfl))))
  have cycR : Refusal .cyclic := Or.inr (Or.inl rfl)
  unfold Var.extGuard
  by_cases hobj : ∃ sid, src = V.obj sid
  · obtain ⟨sid, rfl⟩ := hobj
    obtain ⟨sb, hsb, _⟩ := hs sid rfl
    cases v with
    | obj id =>
      obtain ⟨b, hb, _⟩ := hv id rfl
      simp only [hb, hsb]
      rcases inv.anyReaches_benign id hsb with ⟨r, h1⟩ | h1
      · rw [h1]
        cases r with
        | true => left; exact ⟨_, rfl, cycR⟩
        | false =>
          simp only []
          split
          · left; exact ⟨_, rfl, Or.inl rfl⟩
          · right; rfl
      · rw [h1]; left; exact ⟨_, rfl, fuelR⟩
    | none =>
      simp only []
      cases hp : parentOf t with
      | none => right; rfl
      | some pid =>
        simp only []
        by_cases he : pid = sid
        · left; simp only [he, if_true]; exact ⟨_, rfl, cycR⟩
        · simp only [he, if_false, hsb]
          rcases inv.anyReaches_benign pid hsb with ⟨r, h1⟩ | h1
          · rw [h1]
            cases r with
            | true => left; exact ⟨_, rfl, cycR⟩
            | false => right; rfl
          · rw [h1]; left; exact ⟨_, rfl, fuelR⟩
    | null => right; rfl
    | bool _ => right; rfl
    | int _ => right; rfl
    | num _ => right; rfl
    | flt _ => right; rfl
    | sstr _ => right; rfl
    | str _ => right; rfl
    | arr _ => right; rfl
  · right
    cases v <;> cases src <;> first | rfl | (exfalso; exact hobj ⟨_, rfl⟩)

theorem Inv.opExtend {σ : State} {t : Loc} (sl : Option Loc) (inv : Inv σ []) (hl : ValidLoc σ t) :
    BodyOK σ (Var.opExtend true σ t sl) := by
  unfold Var.opExtend
  rcases Inv.srcVal (σ := σ) (T := []) sl with h1 | ⟨src, h1, hsrc⟩
  · left; exact ⟨_, by rw [h1], srcMovedR⟩
  · rw [h1]
    have hlive := Held.live inv hsrc
    obtain ⟨v, hr, hheld⟩ := readLoc_valid hl []
    simp only [hr]
    rcases inv.extGuard (t := t) hlive (inv.wf.liveV hheld) with ⟨e, h2, he⟩ | h2
    · left; exact ⟨e, by simp only [h2], he⟩
    · simp only [h2]
      rcases inv.extendV hl hlive with ⟨e, h3, he⟩ | ⟨σ', h3, inv', hs⟩
      · left; refine ⟨e, h3, ?_⟩
        rcases he with he | he | he | he <;> subst he
        · exact Or.inl rfl
        · exact Or.inr (Or.inr (Or.inr (Or.inl rfl)))
        · exact Or.inr (Or.inl rfl)
        · exact Or.inr (Or.inr (Or.inr (Or.inr (Or.inl rfl))))
      · right; exact ⟨σ', h3, inv', hs⟩

theorem Lit.toV_scalar (l : Lit) : handleOf l.toV = none := by
  cases l with
  | int i => rfl
  | uns u => simp only [Lit.toV, mkUnsigned]; split <;> rfl
  | long i => rfl
  | dbl d => rfl
  | flt d => rfl
  | bool b => rfl
  | str s => simp only [Lit.toV, mkString]; split <;> rfl
  | nlong i => simp only [Lit.toV, mkNativeLong]; split <;> rfl
  | nulong u => simp only [Lit.toV, mkNativeULong]; split <;> rfl
  | ulong u => rfl


theorem BodyOK.of_ok {σ : State} {r : Except Err State}
    (h : ∃ σ', r = .ok σ' ∧ Inv σ' [] ∧ σ'.slots.length = σ.slots.length) : BodyOK σ r := Or.inr h


/-- the body of a statement whose target is resolved -/
theorem Inv.opBody {σ : State} {t : Loc} (sl : Option Loc) (op : Op) (inv : Inv σ []) (hl : ValidLoc σ t) :
    BodyOK σ (Var.opBody true σ t sl op) := by
  have sg : Refusal .sharedGrowth := Or.inl rfl
  have ba : Refusal .badarg := Or.inr (Or.inr (Or.inr (Or.inl rfl)))
  cases op with
  | setLit p l =>
    cases l with
    | str s => exact Or.inr (inv.assignString hl)
    | int i => exact Or.inr (inv.assignScalar hl rfl)
    | uns u => exact Or.inr (inv.assignScalar hl (Lit.toV_scalar (.uns u)))
    | long i => exact Or.inr (inv.assignScalar hl rfl)
    | dbl d => exact Or.inr (inv.assignScalar hl rfl)
    | flt d => exact Or.inr (inv.assignScalar hl rfl)
    | bool b => exact Or.inr (inv.assignScalar hl rfl)
    | nlong i => exact Or.inr (inv.assignScalar hl (Lit.toV_scalar (.nlong i)))
    | nulong u => exact Or.inr (inv.assignScalar hl (Lit.toV_scalar (.nulong u)))
    | ulong u => exact Or.inr (inv.assignScalar hl rfl)
  | setType p ty =>
    rcases inv.assignType (ty := ty) hl with h | h
    · exact Or.inl ⟨_, h, ba⟩
    · exact Or.inr h
  | setV p q => exact inv.opSetV sl hl
  | app p q => exact inv.opApp sl hl
  | appLit p l =>
    rcases inv.appendAt (src := l.toV) hl (fun id hid => by rw [Lit.toV_scalar] at hid; cases hid)
      (fun id c _ hc => by rw [Lit.toV_scalar] at hc; cases hc)
      (fun _ P c _ hc => by rw [Lit.toV_scalar] at hc; cases hc) with h | h
    · exact Or.inl ⟨_, h, sg⟩
    · exact Or.inr h
  | resize p n =>
    rcases inv.resizeV (n := n) hl with h | h
    · exact Or.inl ⟨_, h, sg⟩
    · exact Or.inr h
  | removeAt p i n =>
    simp only [Var.opBody]
    split
    · exact Or.inr ⟨σ, rfl, inv, rfl⟩
    · exact Or.inr (inv.removeAtV hl)
  | removeKey p k => exact Or.inr (inv.removeKeyV hl)
  | clear p => exact Or.inr (inv.clearV hl)
  | extend p q => exact inv.opExtend sl hl
  | setSub p off =>
    simp only [Var.opBody, Var.assignSuffix]
    obtain ⟨old, hr, _⟩ := readLoc_valid hl []
    rw [hr]
    cases old with
    | str s =>
      simp only []
      split
      · exact Or.inr (inv.assignString hl)
      · exact Or.inl ⟨_, rfl, ba⟩
    | sstr s =>
      simp only []
      split
      · exact Or.inr (inv.assignString hl)
      · exact Or.inl ⟨_, rfl, ba⟩
    | none => exact Or.inl ⟨_, rfl, ba⟩
    | null => exact Or.inl ⟨_, rfl, ba⟩
    | bool _ => exact Or.inl ⟨_, rfl, ba⟩
    | int _ => exact Or.inl ⟨_, rfl, ba⟩
    | num _ => exact Or.inl ⟨_, rfl, ba⟩
    | flt _ => exact Or.inl ⟨_, rfl, ba⟩
    | arr _ => exact Or.inl ⟨_, rfl, ba⟩
    | obj _ => exact Or.inl ⟨_, rfl, ba⟩
  | setCs p q off =>
    simp only [Var.opBody, Var.assignCs]
    rcases Inv.srcVal (σ := σ) (T := []) sl with h1 | ⟨src, h1, _⟩
    · rw [h1]; exact Or.inl ⟨_, rfl, srcMovedR⟩
    · rw [h1]
      cases src with
      | str s =>
        simp only []
        split
        · exact Or.inr (inv.assignString hl)
        · exact Or.inl ⟨_, rfl, ba⟩
      | sstr s =>
        simp only []
        split
        · exact Or.inr (inv.assignString hl)
        · exact Or.inl ⟨_, rfl, ba⟩
      | none => exact Or.inl ⟨_, rfl, ba⟩
      | null => exact Or.inl ⟨_, rfl, ba⟩
      | bool _ => exact Or.inl ⟨_, rfl, ba⟩
      | int _ => exact Or.inl ⟨_, rfl, ba⟩
      | num _ => exact Or.inl ⟨_, rfl, ba⟩
      | flt _ => exact Or.inl ⟨_, rfl, ba⟩
      | arr _ => exact Or.inl ⟨_, rfl, ba⟩
      | obj _ => exact Or.inl ⟨_, rfl, ba⟩
  | setKey p q i =>
    simp only [Var.opBody, Var.assignKey]
    rcases Inv.srcVal (σ := σ) (T := []) sl with h1 | ⟨src, h1, hsrc⟩
    · rw [h1]; exact Or.inl ⟨_, rfl, srcMovedR⟩
    · rw [h1]
      cases src with
      | obj id =>
        simp only []
        obtain ⟨b, hb, _⟩ := Held.live inv hsrc id rfl
        rw [hb]
        simp only []
        cases b.items[i]? with
        | some kv => exact Or.inr (inv.assignString hl)
        | none => exact Or.inl ⟨_, rfl, ba⟩
      | str _ => exact Or.inl ⟨_, rfl, ba⟩
      | sstr _ => exact Or.inl ⟨_, rfl, ba⟩
      | none => exact Or.inl ⟨_, rfl, ba⟩
      | null => exact Or.inl ⟨_, rfl, ba⟩
      | bool _ => exact Or.inl ⟨_, rfl, ba⟩
      | int _ => exact Or.inl ⟨_, rfl, ba⟩
      | num _ => exact Or.inl ⟨_, rfl, ba⟩
      | flt _ => exact Or.inl ⟨_, rfl, ba⟩
      | arr _ => exact Or.inl ⟨_, rfl, ba⟩
  | clone k q => exact Or.inl ⟨_, rfl, ba⟩
  | copy k q => exact Or.inl ⟨_, rfl, ba⟩
  | drop k => exact Or.inl ⟨_, rfl, ba⟩
  | ctorLit k l => exact Or.inl ⟨_, rfl, ba⟩
  | ctorType k ty => exact Or.inl ⟨_, rfl, ba⟩
  | ctorKV k key q => exact Or.inl ⟨_, rfl, ba⟩
  | ctorArr k lits => exact Or.inl ⟨_, rfl, ba⟩
  | ctorDic k pairs => exact Or.inl ⟨_, rfl, ba⟩
  | ctorVars k qs => exact Or.inl ⟨_, rfl, ba⟩

theorem replaceSlot_badarg {σ : State} {k : Nat} {v : V} (hk : ¬ k < σ.slots.length) :
    Var.replaceSlot σ k v = .error .badarg := by
  unfold Var.replaceSlot; simp [hk]

/-- replacing a root by an owned value -/
theorem Inv.replaceRoot {σ σ0 : State} {k : Nat} {v : V} (inv : Inv σ [v]) (hs : σ.slots.length = σ0.slots.length) :
    BodyOK σ0 (Var.replaceSlot σ k v) := by
  by_cases hk : k < σ.slots.length
  · obtain ⟨σ', h1, inv', hs'⟩ := inv.replaceSlot hk
    exact Or.inr ⟨σ', h1, inv', by rw [hs', hs]⟩
  · exact Or.inl ⟨_, replaceSlot_badarg hk, Or.inr (Or.inr (Or.inr (Or.inl rfl)))⟩

theorem Inv.scalars {σ : State} {T : List V} (inv : Inv σ T) : ∀ (l : List V), (∀ v ∈ l, handleOf v = none) → Inv σ (l ++ T)
  | [], _ => by simpa using inv
  | v :: rest, h => by
    have := Inv.scalars inv rest (fun w hw => h w (by simp [hw]))
    exact (Inv.scalar (T := rest ++ T) (h v (by simp))).mpr this

/-- what `replaceSlot` does to the state -/
theorem replaceSlot_spec {σ σ' : State} {k : Nat} {v : V} {T : List V} (inv : Inv σ (v :: T)) (h : Var.replaceSlot σ k v = .ok σ') :
    σ'.slots = σ.slots.set k v ∧ k < σ.slots.length ∧ SubItems σ.heap σ'.heap := by
  unfold Var.replaceSlot at h
  by_cases hk : k < σ.slots.length
  · simp only [hk, if_true] at h
    cases hd : Var.drop σ.heap [slotV σ k] with
    | error e => simp [hd] at h
    | ok h' =>
      simp only [hd, Except.ok.injEq] at h
      subst h
      refine ⟨rfl, hk, ?_⟩
      obtain ⟨σ1, old, hr, hw, inv1, _, _⟩ := inv.writeLoc (l := .slot k) hk (fun _ _ hp => by simp [parentOf] at hp)
      simp only [Var.writeLoc, hk, if_true, Except.ok.injEq] at hw
      subst hw
      have hold : slotV σ k = old := by
        simp only [readLoc, List.getElem?_eq_getElem hk, Except.ok.injEq] at hr
        simp [slotV, List.getD_eq_getElem?_getD, List.getElem?_eq_getElem hk, hr]
      obtain ⟨h'', hd', _, sub⟩ := Inv.drop (σ := { σ with slots := σ.slots.set k v }) (wl := [old]) (T := T) (by simpa using inv1)
      rw [hold] at hd
      simp only [] at hd'
      rw [hd] at hd'; cases hd'
      exact sub
  · simp [hk] at h

theorem Inv.copyAll {T : List V} : ∀ (vals : List V) (σ : State), Inv σ T → (∀ v ∈ vals, LiveV σ.heap v) →
    ∃ h', Var.copyAll σ.heap vals = .ok h' ∧ Inv { σ with heap := h' } (vals ++ T) ∧ SameItems σ.heap h'
  | [], σ, inv, _ => ⟨σ.heap, rfl, by simpa using inv, SameItems.refl _⟩
  | v :: rest, σ, inv, hl => by
    obtain ⟨h1, hc, inv1, same1⟩ := inv.copyLive (hl v (by simp))
    simp only [Var.copyAll, hc]
    obtain ⟨h2, hc2, inv2, same2⟩ := Inv.copyAll (T := v :: T) rest { σ with heap := h1 } inv1 (by
      intro w hw
      exact (SameDom.of_same same1).liveV (hl w (by simp [hw])))
    refine ⟨h2, hc2, ?_, same1.trans same2⟩
    apply inv2.perm
    · intro x hx; simp only [List.cons_append, List.mem_cons, List.mem_append] at hx ⊢
      rcases hx with h0 | h0 | h0
      · exact Or.inr (Or.inl h0)
      · exact Or.inl h0
      · exact Or.inr (Or.inr h0)
    · intro id; simp only [List.cons_append, occ_cons, occ_append]; omega

theorem mapE_held {σ : State} {T : List V} (inv : Inv σ T) : ∀ (qs : List Path),
    (∃ e, mapE qs (cget σ) = .error e ∧ e = .nopath) ∨ ∃ vals, mapE qs (cget σ) = .ok vals ∧ ∀ v ∈ vals, Held σ T v
  | [] => Or.inr ⟨[], rfl, fun _ h => by cases h⟩
  | q :: rest => by
    simp only [mapE]
    rcases inv.cget q with ⟨e, h1, he⟩ | ⟨v, h1, hv⟩
    · left; exact ⟨e, by rw [h1], he⟩
    · rw [h1]
      rcases mapE_held inv rest with ⟨e, h2, he⟩ | ⟨vals, h2, hvals⟩
      · left; exact ⟨e, by simp only [h2], he⟩
      · right; refine ⟨v :: vals, by simp only [h2], ?_⟩
        intro w hw
        rcases List.mem_cons.mp hw with rfl | hw
        · exact hv
        · exact hvals w hw

/-- the entries of a `Dic` built from pairs: ascending keys, and no value that was not given -/
theorem dicOfPairs_spec : ∀ (pairs acc : List (Bytes × V)), SortedItems acc →
    ∃ items, dicOfPairs acc pairs = .ok items ∧ SortedItems items ∧
      ∀ v ∈ items.map (·.2), v ∈ acc.map (·.2) ∨ v ∈ pairs.map (·.2)
  | [], acc, hs => ⟨acc, rfl, hs, fun v hv => Or.inl hv⟩
  | (k, x) :: rest, acc, hs => by
    obtain ⟨acc', hset, hs', _⟩ := AslProofs.Map.set_spec cmpB_strict hs k x
    simp only [dicOfPairs, hset]
    obtain ⟨items, h1, h2, h3⟩ := dicOfPairs_spec rest acc' hs'
    refine ⟨items, h1, h2, fun v hv => ?_⟩
    have hmem : ∀ w ∈ acc'.map (·.2), w ∈ acc.map (·.2) ∨ w = x := by
      intro w hw
      unfold Map.set at hset
      cases hi : Map.indexOf Map.cmpBytes acc k with
      | none => simp [hi] at hset
      | some r =>
        simp only [hi] at hset
        split at hset
        · simp only [Option.some.injEq] at hset; subst hset
          rw [map_snd_setValAt] at hw
          rcases List.mem_or_eq_of_mem_set hw with h0 | h0
          · exact Or.inl h0
          · exact Or.inr h0
        · simp only [Option.some.injEq] at hset; subst hset
          rw [List.mem_map] at hw
          obtain ⟨kv, hkv, e⟩ := hw
          rcases mem_insertAt hkv with h0 | h0
          · right; rw [← e, h0]
          · left; rw [← e]; exact List.mem_map_of_mem h0
    rcases h3 v hv with h0 | h0
    · rcases hmem v h0 with h4 | h4
      · exact Or.inl h4
      · right; simp [h4]
    · right; simp only [List.map_cons, List.mem_cons]; exact Or.inr h0

theorem Inv.rootOp {σ : State} (op : Op) (inv : Inv σ []) : BodyOK σ (Var.rootOp σ op) := by
  have ba : Refusal .badarg := Or.inr (Or.inr (Or.inr (Or.inl rfl)))
  have np : Refusal .nopath := Or.inr (Or.inr (Or.inl rfl))
  cases op with
  | clone k q =>
    simp only [Var.rootOp, Var.opClone]
    rcases inv.cget q with ⟨e, h1, he⟩ | ⟨src, h1, hsrc⟩
    · rw [h1]; subst he; exact Or.inl ⟨_, rfl, np⟩
    · rw [h1]
      rcases cloneOK (travFuel σ.heap) σ src [] inv (Held.live inv hsrc) with h2 | ⟨h', c, h2, inv2, _⟩
      · simp only [h2]; exact Or.inl ⟨_, rfl, Or.inr (Or.inr (Or.inr (Or.inr (Or.inl rfl))))⟩
      · simp only [h2]
        exact Inv.replaceRoot inv2 rfl
  | copy k q =>
    simp only [Var.rootOp, Var.opCopy]
    rcases inv.cget q with ⟨e, h1, he⟩ | ⟨src, h1, hsrc⟩
    · rw [h1]; subst he; exact Or.inl ⟨_, rfl, np⟩
    · rw [h1]
      obtain ⟨h', h2, inv2, _⟩ := inv.copyV hsrc
      simp only [h2]
      exact Inv.replaceRoot inv2 rfl
  | drop k =>
    simp only [Var.rootOp]
    exact Inv.replaceRoot ((Inv.scalar rfl).mpr inv) rfl
  | ctorLit k l =>
    simp only [Var.rootOp]
    exact Inv.replaceRoot ((Inv.scalar (Lit.toV_scalar l)).mpr inv) rfl
  | ctorType k ty =>
    simp only [Var.rootOp, Var.opCtorType]
    rcases inv.mkType ty with h1 | ⟨h', v, h1, inv1, _, _⟩
    · rw [h1]; exact Or.inl ⟨_, rfl, ba⟩
    · rw [h1]
      exact Inv.replaceRoot inv1 rfl
  | ctorKV k key q =>
    simp only [Var.rootOp, Var.opCtorKV]
    rcases inv.cget q with ⟨e, h1, he⟩ | ⟨src, h1, hsrc⟩
    · rw [h1]; subst he; exact Or.inl ⟨_, rfl, np⟩
    · rw [h1]
      obtain ⟨h', h2, inv2, _⟩ := inv.copyV hsrc
      simp only [h2, allocB]
      have inv3 := Inv.alloc (σ := { σ with heap := h' }) (T := [])
        (b := { emptyBlock true with items := [(key, src)] }) (by simpa [bvals] using inv2) rfl
        (by intro _; simp [SortedItems, AslProofs.Map.Sorted])
      exact Inv.replaceRoot inv3 rfl
  | ctorArr k lits =>
    simp only [Var.rootOp, Var.opCtorArr, allocB]
    have hb : bvals { isObj := false, items := lits.map (fun l => (([] : Bytes), l.toV)), cap := litCap lits.length, rc := 1 } = lits.map Lit.toV := by
      simp [bvals, List.map_map, Function.comp_def]
    have inv3 := Inv.alloc (σ := σ) (T := [])
      (b := { isObj := false, items := lits.map (fun l => (([] : Bytes), l.toV)), cap := litCap lits.length, rc := 1 })
      (by rw [hb]; exact Inv.scalars inv _ (by intro v hv; obtain ⟨l, _, rfl⟩ := List.mem_map.mp hv; exact Lit.toV_scalar l)) rfl
      (by intro h; cases h)
    exact Inv.replaceRoot inv3 rfl
  | ctorDic k pairs =>
    simp only [Var.rootOp, Var.opCtorDic]
    obtain ⟨items, h1, hs, hv⟩ := dicOfPairs_spec (pairs.map fun kl => (kl.1, kl.2.toV)) [] (by simp [SortedItems, AslProofs.Map.Sorted])
    rw [h1]; simp only [allocB]
    have inv3 := Inv.alloc (σ := σ) (T := []) (b := { isObj := true, items := items, cap := litCap items.length, rc := 1 })
      (by
        have := Inv.scalars inv (items.map (·.2)) (fun v hv' => by
          rcases hv v hv' with h0 | h0
          · simp at h0
          · simp only [List.map_map, List.mem_map] at h0; obtain ⟨kl, _, rfl⟩ := h0; exact Lit.toV_scalar _)
        exact this) rfl (fun _ => hs)
    exact Inv.replaceRoot inv3 rfl
  | ctorVars k qs =>
    simp only [Var.rootOp, Var.opCtorVars]
    rcases mapE_held inv qs with ⟨e, h1, he⟩ | ⟨vals, h1, hvals⟩
    · rw [h1]; subst he; exact Or.inl ⟨_, rfl, np⟩
    · rw [h1]
      obtain ⟨h', h2, inv2, _⟩ := Inv.copyAll vals σ inv (fun v hv => Held.live inv (hvals v hv))
      simp only [h2, allocB]
      have hb : bvals { isObj := false, items := vals.map (fun v => (([] : Bytes), v)), cap := max vals.length 3, rc := 1 } = vals := by
        simp [bvals, List.map_map, Function.comp_def]
      have inv3 := Inv.alloc (σ := { σ with heap := h' }) (T := [])
        (b := { isObj := false, items := vals.map (fun v => (([] : Bytes), v)), cap := max vals.length 3, rc := 1 })
        (by rw [hb]; exact inv2) rfl (by intro h; cases h)
      exact Inv.replaceRoot inv3 rfl
  | setLit p l => exact Or.inl ⟨_, rfl, ba⟩
  | setType p ty => exact Or.inl ⟨_, rfl, ba⟩
  | setV p q => exact Or.inl ⟨_, rfl, ba⟩
  | app p q => exact Or.inl ⟨_, rfl, ba⟩
  | appLit p l => exact Or.inl ⟨_, rfl, ba⟩
  | resize p n => exact Or.inl ⟨_, rfl, ba⟩
  | removeAt p i n => exact Or.inl ⟨_, rfl, ba⟩
  | removeKey p k => exact Or.inl ⟨_, rfl, ba⟩
  | clear p => exact Or.inl ⟨_, rfl, ba⟩
  | extend p q => exact Or.inl ⟨_, rfl, ba⟩
  | setSub p off => exact Or.inl ⟨_, rfl, ba⟩
  | setCs p q off => exact Or.inl ⟨_, rfl, ba⟩
  | setKey p q i => exact Or.inl ⟨_, rfl, ba⟩

/-- result of a statement: executed, or refused by one of the guards -/
def Safe : Except Err Unit → Prop
  | .ok _ => True
  | .error e => Refusal e

/-- **one statement**: from a state satisfying the invariant, a statement never touches released or out-of-range
storage (it is executed, or refused by a guard), and the invariant holds afterwards -/
theorem Inv.applyOp {σ : State} (op : Op) (inv : Inv σ []) :
    Inv (Var.applyOp true σ op).1 [] ∧ (Var.applyOp true σ op).1.slots.length = σ.slots.length ∧
    Safe (Var.applyOp true σ op).2 := by
  unfold Var.applyOp
  cases htgt : targetOf op with
  | none =>
    simp only []
    rcases inv.rootOp op with ⟨e, h1, he⟩ | ⟨σ', h1, inv', hs⟩
    · rw [h1]; exact ⟨inv, rfl, he⟩
    · rw [h1]; exact ⟨inv', hs, trivial⟩
  | some p =>
    simp only []
    by_cases hroot : p.root < σ.slots.length
    · simp only [hroot, if_true]
      have hsl : (∃ e, srcLoc σ op = .error e ∧ e = .nopath) ∨ ∃ sl, srcLoc σ op = .ok sl := by
        unfold srcLoc
        cases srcOf op with
        | none => exact Or.inr ⟨none, rfl⟩
        | some q => exact inv.cloc q
      rcases hsl with ⟨e, h0, he⟩ | ⟨sl, h0⟩
      · rw [h0]; subst he
        exact ⟨inv, rfl, Or.inr (Or.inr (Or.inl rfl))⟩
      · rw [h0]
        simp only []
        obtain ⟨σ1, r, h1, inv1, hs1, hr⟩ := Inv.resolveMut (T := []) sl p.steps σ (.slot p.root) inv hroot
        rw [h1]
        rcases hr with ⟨e, rfl, he⟩ | ⟨t, rfl, hl⟩
        · refine ⟨inv1, hs1, ?_⟩
          rcases he with he | he | he <;> subst he
          · exact Or.inl rfl
          · exact Or.inr (Or.inr (Or.inr (Or.inl rfl)))
          · exact srcMovedR
        · simp only []
          rcases inv1.opBody sl op hl with ⟨e, h2, he⟩ | ⟨σ2, h2, inv2, hs2⟩
          · rw [h2]; exact ⟨inv1, hs1, he⟩
          · rw [h2]; exact ⟨inv2, by rw [hs2, hs1], trivial⟩
    · simp only [hroot, if_false]
      refine ⟨inv, ?_, Or.inr (Or.inr (Or.inr (Or.inl rfl)))⟩
      trivial

/-- results of the statements of a history, in order -/
def results (guard : Bool) : State → List Op → List (Except Err Unit)
  | _, [] => []
  | σ, op :: rest => (Var.applyOp guard σ op).2 :: results guard (Var.applyOp guard σ op).1 rest

theorem Inv.run {σ : State} (inv : Inv σ []) : ∀ (ops : List Op) (σ0 : State), σ0 = σ →
    Inv (run true σ0 ops) [] ∧ (run true σ0 ops).slots.length = σ0.slots.length ∧ ∀ r ∈ results true σ0 ops, Safe r := by
  intro ops
  induction ops generalizing σ with
  | nil => intro σ0 h; subst h; exact ⟨inv, rfl, by simp [results]⟩
  | cons op rest ih =>
    intro σ0 h
    subst h
    obtain ⟨inv1, hs1, hsafe⟩ := inv.applyOp op
    obtain ⟨inv2, hs2, hall⟩ := ih inv1 _ rfl
    refine ⟨inv2, by rw [Var.run, hs2, hs1], ?_⟩
    intro r hr
    simp only [results, List.mem_cons] at hr
    rcases hr with rfl | hr
    · exact hsafe
    · exact hall r hr

theorem Inv.init (n : Nat) : Inv (initState n) [] := by
  refine ⟨⟨?_, ?_, ?_⟩, ?_, ?_⟩
  · intro v hv id hid
    simp only [initState, List.append_nil, hvals_nil] at hv
    rcases hv with hv | hv
    · rw [List.eq_of_mem_replicate hv] at hid; cases hid
    · cases hv
  · intro id b hb; simp [initState, getB] at hb
  · intro id b hb; simp [initState, getB] at hb
  · intro id b hb; simp [initState, getB] at hb
  · exact ⟨fun _ => 0, fun x y e => by obtain ⟨b, hb, _⟩ := e; simp [initState, getB] at hb⟩




/-! ## content is a function of the reachable blocks -/

theorem mapO_congr_some {α β : Type} {g g' : α → Option β} : ∀ {l : List α} {ys : List β}, mapO l g = some ys →
    (∀ x ∈ l, ∀ y, g x = some y → g' x = some y) → mapO l g' = some ys
  | [], ys, h, _ => by simpa [mapO] using h
  | x :: xs, ys, h, hg => by
    simp only [mapO] at h ⊢
    cases hx : g x with
    | none => simp [hx] at h
    | some y =>
      simp only [hx] at h
      cases hxs : mapO xs g with
      | none => simp [hxs] at h
      | some ys' =>
        simp only [hxs] at h
        rw [hg x (by simp) y hx, mapO_congr_some hxs (fun z hz => hg z (by simp [hz]))]
        exact h

theorem content_scalar_indep {v : V} (hv : handleOf v = none) (f : Nat) (h h1 : Heap) : content f h1 v = content f h v := by
  cases f with
  | zero => rfl
  | succ f => cases v <;> simp [handleOf] at hv <;> rfl

/-- the two heaps hold the same elements in every block other than `B` -/
def AgreeOutside (B : Nat) (h h1 : Heap) : Prop :=
  ∀ id, id ≠ B → ∀ b, getB h id = .ok b → ∃ b1, getB h1 id = .ok b1 ∧ b1.items = b.items ∧ b1.isObj = b.isObj

/-- unfolding of `content` at a handle -/
theorem content_handle {f : Nat} {h : Heap} {v : V} {id : Nat} {b : Block} (hid : handleOf v = some id)
    (hb : getB h id = .ok b) :
    content (f + 1) h v =
      if isObjV v then (mapO b.items (fun kv => (content f h kv.2).map (fun t => (kv.1, t)))).map Tree.obj
      else (mapO b.items (fun kv => content f h kv.2)).map Tree.arr := by
  cases v <;> simp [handleOf] at hid <;> subst hid <;> simp [content, hb, isObjV]

theorem content_handle_none {f : Nat} {h : Heap} {v : V} {id : Nat} (hid : handleOf v = some id)
    (hb : ∀ b, getB h id ≠ .ok b) : content (f + 1) h v = none := by
  cases hg : getB h id with
  | ok b => exact absurd hg (hb b)
  | error e => cases v <;> simp [handleOf] at hid <;> subst hid <;> simp [content, hg]

/-- **frame**: a value that does not reach block `B` denotes the same tree in any heap that agrees outside `B` -/
theorem content_frame {B : Nat} {h h1 : Heap} (ag : AgreeOutside B h h1) : ∀ (f' f : Nat) (v : V) (t : Tree),
    reaches f' h B v = .ok false → content f h v = some t → content f h1 v = some t
  | 0, _, _, _, hr, _ => by simp [reaches] at hr
  | f' + 1, 0, _, _, _, hc => by simp [content] at hc
  | f' + 1, f + 1, v, t, hr, hc => by
    cases hh : handleOf v with
    | none => rw [content_scalar_indep hh]; exact hc
    | some id =>
      simp only [reaches, hh] at hr
      by_cases he : id = B
      · simp [he] at hr
      · simp only [he, if_false] at hr
        cases hb : getB h id with
        | error e => simp [hb] at hr
        | ok b =>
          simp only [hb] at hr
          have hch := anyE_false hr
          obtain ⟨b1, hb1, e1, e2⟩ := ag id he b hb
          rw [content_handle hh hb] at hc
          rw [content_handle hh hb1, e1]
          by_cases ho : isObjV v = true
          · simp only [ho, if_true] at hc ⊢
            cases hm : mapO b.items (fun kv => (content f h kv.2).map (fun t => (kv.1, t))) with
            | none => simp [hm] at hc
            | some ys =>
              simp only [hm] at hc
              rw [mapO_congr_some hm (fun kv hkv y hy => by
                cases hck : content f h kv.2 with
                | none => simp [hck] at hy
                | some tk =>
                  simp only [hck, Option.map_some] at hy
                  rw [content_frame ag f' f kv.2 tk (hch kv hkv) hck]
                  exact hy)]
              exact hc
          · simp only [ho] at hc ⊢
            cases hm : mapO b.items (fun kv => content f h kv.2) with
            | none => simp [hm] at hc
            | some ys =>
              simp only [hm] at hc
              rw [mapO_congr_some hm (fun kv hkv y hy => content_frame ag f' f kv.2 y (hch kv hkv) hy)]
              exact hc

/-- heaps that differ only in reference counts denote the same trees -/
theorem content_same {h h1 : Heap} (e : SameItems h h1) : ∀ (f : Nat) (v : V) (t : Tree),
    content f h v = some t → content f h1 v = some t
  | 0, _, _, hc => by simp [content] at hc
  | f + 1, v, t, hc => by
    cases hh : handleOf v with
    | none => rw [content_scalar_indep hh]; exact hc
    | some id =>
      cases hb : getB h id with
      | error e' =>
        rw [content_handle_none hh (by intro b hb'; rw [hb] at hb'; cases hb')] at hc; cases hc
      | ok b =>
        obtain ⟨b1, hb1, e1, _, _⟩ := e.get hb
        rw [content_handle hh hb] at hc
        rw [content_handle hh hb1, e1]
        by_cases ho : isObjV v = true
        · simp only [ho, if_true] at hc ⊢
          cases hm : mapO b.items (fun kv => (content f h kv.2).map (fun t => (kv.1, t))) with
          | none => simp [hm] at hc
          | some ys =>
            simp only [hm] at hc
            rw [mapO_congr_some hm (fun kv _ y hy => by
              cases hck : content f h kv.2 with
              | none => simp [hck] at hy
              | some tk =>
                simp only [hck, Option.map_some] at hy
                rw [content_same e f kv.2 tk hck]
                exact hy)]
            exact hc
        · simp only [ho] at hc ⊢
          cases hm : mapO b.items (fun kv => content f h kv.2) with
          | none => simp [hm] at hc
          | some ys =>
            simp only [hm] at hc
            rw [mapO_congr_some hm (fun kv _ y hy => content_same e f kv.2 y hy)]
            exact hc

/-- releases elsewhere do not change what a still-held value denotes -/
theorem content_sub {h h' : Heap} {R : List V} (sub : SubItems h h') (wf : WF h' R) : ∀ (f : Nat) (v : V) (t : Tree),
    (v ∈ R ∨ v ∈ hvals h') → content f h v = some t → content f h' v = some t
  | 0, _, _, _, hc => by simp [content] at hc
  | f + 1, v, t, hv, hc => by
    cases hh : handleOf v with
    | none => rw [content_scalar_indep hh]; exact hc
    | some id =>
      obtain ⟨b', hb', _⟩ := wf.live v hv id hh
      obtain ⟨b, hb, e1, _, _⟩ := sub.2 id b' hb'
      rw [content_handle hh hb] at hc
      rw [content_handle hh hb', e1]
      have hmem : ∀ kv ∈ b.items, kv.2 ∈ R ∨ kv.2 ∈ hvals h' := fun kv hkv =>
        Or.inr (mem_hvals_of_getB hb' (by rw [bvals, e1]; exact List.mem_map_of_mem hkv))
      by_cases ho : isObjV v = true
      · simp only [ho, if_true] at hc ⊢
        cases hm : mapO b.items (fun kv => (content f h kv.2).map (fun t => (kv.1, t))) with
        | none => simp [hm] at hc
        | some ys =>
          simp only [hm] at hc
          rw [mapO_congr_some hm (fun kv hkv y hy => by
            cases hck : content f h kv.2 with
            | none => simp [hck] at hy
            | some tk =>
              simp only [hck, Option.map_some] at hy
              rw [content_sub sub wf f kv.2 tk (hmem kv hkv) hck]
              exact hy)]
          exact hc
      · simp only [ho] at hc ⊢
        cases hm : mapO b.items (fun kv => content f h kv.2) with
        | none => simp [hm] at hc
        | some ys =>
          simp only [hm] at hc
          rw [mapO_congr_some hm (fun kv hkv y hy => content_sub sub wf f kv.2 y (hmem kv hkv) hy)]
          exact hc


/-! ## assign_spec -/

/-- reading a location after a heap change that keeps (when it is still alive) the block of the location -/
theorem readLoc_sub {σ : State} {h' : Heap} (sub : SubItems σ.heap h') {l : Loc} {v v' : V}
    (hr : readLoc σ l = .ok v) (hr' : readLoc { σ with heap := h' } l = .ok v') : v' = v := by
  cases l with
  | slot k => simp only [readLoc] at hr hr'; rw [hr] at hr'; cases hr'; rfl
  | item P i =>
    simp only [readLoc] at hr hr'
    cases hb' : getB h' P with
    | error e => simp [hb'] at hr'
    | ok b' =>
      obtain ⟨b, hb, e1, _, _⟩ := sub.2 P b' hb'
      simp only [hb] at hr
      simp only [hb', e1] at hr'
      rw [hr] at hr'; cases hr'; rfl

/-- **assign_spec**, at the level of `operator=(const Var&)`: after `target = src` — for any held source, in
particular one stored inside the target — the target Var (if it survives the release of its old content, which it
always does when it is a root variable) holds `src`, and `src` denotes the same tree as before. -/
theorem Inv.assignV_spec {σ σ' : State} {t : Loc} {src : V} (inv : Inv σ []) (hl : ValidLoc σ t) (hs : LiveV σ.heap src)
    (hreach : ∀ B, parentOf t = some B → ∃ f', reaches f' σ.heap B src = .ok false)
    (ha : Var.assignV σ t src = .ok σ') :
    (∀ v', readLoc σ' t = .ok v' → v' = src) ∧
    (∀ k, t = .slot k → readLoc σ' t = .ok src) ∧
    (∀ f tr, content f σ.heap src = some tr → readLoc σ' t = .ok src → content f σ'.heap src = some tr) := by
  obtain ⟨old, hr, hheld⟩ := readLoc_valid hl []
  clear hheld
  unfold Var.assignV at ha
  rw [hr] at ha
  dsimp only at ha
  split at ha
  · -- STRING := STRING in place
    rename_i s0 s
    obtain ⟨σ1, old', _, hw, _, _, hrd⟩ := ((Inv.scalar (v := V.str s) rfl).mpr inv).writeLoc hl (fun _ _ _ h => nomatch h)
    rw [hw] at ha; cases ha
    refine ⟨fun v' hv' => by rw [hrd] at hv'; cases hv'; rfl, fun _ _ => hrd, fun f tr hc _ => ?_⟩
    rw [content_scalar_indep (v := V.str s) rfl]; exact hc
  · obtain ⟨h1, hc, inv1, same⟩ := inv.copyLive hs
    simp only [hc] at ha
    have hl1 : ValidLoc { σ with heap := h1 } t := (SameDom.of_same same).validLoc hl
    obtain ⟨σ2, old', hr', hw, inv2, dom, hrd2⟩ := inv1.writeLoc hl1 (fun id c hp hc r => by
      obtain ⟨f', hf'⟩ := hreach id hp
      exact reaches_false_not_reach f' src c hf' hc ((Reach.of_same same).mp r))
    rw [readLoc_same same t hr] at hr'; cases hr'
    simp only [hw] at ha
    -- what `src` denotes after the copy and the write
    have hcont2 : ∀ f tr, content f σ.heap src = some tr → content f σ2.heap src = some tr := by
      intro f tr hct
      cases hp : parentOf t with
      | none =>
        -- a root variable: only reference counts changed
        have : σ2.heap = h1 := by
          cases t with
          | slot k =>
            simp only [Var.writeLoc] at hw
            split at hw
            · cases hw; rfl
            · cases hw
          | item P i => simp [parentOf] at hp
        rw [this]; exact content_same same f src tr hct
      | some B =>
        obtain ⟨f', hf'⟩ := hreach B hp
        have ag : AgreeOutside B σ.heap σ2.heap := by
          intro id hne b hb
          obtain ⟨b1, hb1, e1, e2, _⟩ := same.get hb
          refine ⟨b1, ?_, e1, e2⟩
          rw [writeLoc_frame hw id (by rw [hp]; intro e; cases e; exact hne rfl)]
          exact hb1
        exact content_frame ag f' f src tr hf' hct
    by_cases hpod : isPod old = true
    · simp only [hpod, if_true] at ha
      cases ha
      exact ⟨fun v' hv' => by rw [hrd2] at hv'; cases hv'; rfl, fun _ _ => hrd2, fun f tr hct _ => hcont2 f tr hct⟩
    · simp only [hpod] at ha
      obtain ⟨h3, hd, inv3, sub⟩ := Inv.drop (σ := σ2) (wl := [old]) (T := []) (by simpa using inv2)
      simp only [hd] at ha
      cases ha
      refine ⟨fun v' hv' => readLoc_sub sub hrd2 hv', ?_, ?_⟩
      · intro k hk; subst hk
        simp only [readLoc] at hrd2 ⊢
        exact hrd2
      · intro f tr hct hrd3
        have hheld := readLoc_held hrd3
        exact content_sub sub inv3.wf f src tr (hheld.elim (fun h => Or.inl (by simpa using h)) Or.inr) (hcont2 f tr hct)


theorem cycleGuard_ok {h : Heap} {p : Option Nat} {src : V} (hg : cycleGuard h p src = .ok ()) :
    wouldCycle h p src = .ok false := by
  unfold cycleGuard at hg
  cases hw : wouldCycle h p src with
  | error e => simp [hw] at hg
  | ok b => cases b with
    | true => simp [hw] at hg
    | false => rfl

/-! ## clone_deep -/

/-- every block of `h` is also (identically) in `h1` -/
theorem content_mono {h h1 : Heap} (hm : ∀ id b, getB h id = .ok b → getB h1 id = .ok b) : ∀ (f : Nat) (v : V) (t : Tree),
    content f h v = some t → content f h1 v = some t
  | 0, _, _, hc => by simp [content] at hc
  | f + 1, v, t, hc => by
    cases hh : handleOf v with
    | none => rw [content_scalar_indep hh]; exact hc
    | some id =>
      cases hb : getB h id with
      | error e' =>
        rw [content_handle_none hh (by intro b hb'; rw [hb] at hb'; cases hb')] at hc; cases hc
      | ok b =>
        rw [content_handle hh hb] at hc
        rw [content_handle hh (hm id b hb)]
        by_cases ho : isObjV v = true
        · simp only [ho, if_true] at hc ⊢
          cases hmm : mapO b.items (fun kv => (content f h kv.2).map (fun t => (kv.1, t))) with
          | none => simp [hmm] at hc
          | some ys =>
            simp only [hmm] at hc
            rw [mapO_congr_some hmm (fun kv _ y hy => by
              cases hck : content f h kv.2 with
              | none => simp [hck] at hy
              | some tk =>
                simp only [hck, Option.map_some] at hy
                rw [content_mono hm f kv.2 tk hck]
                exact hy)]
            exact hc
        · simp only [ho] at hc ⊢
          cases hmm : mapO b.items (fun kv => content f h kv.2) with
          | none => simp [hmm] at hc
          | some ys =>
            simp only [hmm] at hc
            rw [mapO_congr_some hmm (fun kv _ y hy => content_mono hm f kv.2 y hy)]
            exact hc

theorem getB_append_mono {h : Heap} (x : Heap) : ∀ id b, getB h id = .ok b → getB (h ++ x) id = .ok b := by
  intro id b hb
  rw [getB_append_left _ (getB_lt hb)]; exact hb

/-- `h''` still has every block of `h'` whose id is at least `N`, with the same elements -/
def KeepsFrom (N : Nat) (h' h'' : Heap) : Prop :=
  ∀ id, N ≤ id → ∀ b, getB h' id = .ok b → ∃ b'', getB h'' id = .ok b'' ∧ b''.items = b.items ∧ b''.isObj = b.isObj

/-- the object form of the element contents from the array form and the keys -/
theorem mapO_pair {g : V → Option Tree} : ∀ (l : List (Bytes × V)),
    mapO l (fun kv => (g kv.2).map (fun t => (kv.1, t))) = (mapO l (fun kv => g kv.2)).map (fun ys => (l.map (·.1)).zip ys)
  | [] => rfl
  | (k, x) :: rest => by
    simp only [mapO, mapO_pair rest]
    cases g x with
    | none => rfl
    | some y =>
      simp only [Option.map_some]
      cases mapO rest (fun kv => g kv.2) with
      | none => rfl
      | some ys => rfl

/-- what a clone denotes, in every heap that keeps the blocks allocated from `N` on -/
def CloneSpec (f : Nat) : Prop :=
  ∀ (N : Nat) (h h' : Heap) (v c : V) (t : Tree), N ≤ h.length → cloneV f h v = .ok (h', c) → content f h v = some t →
    (∃ y, h' = h ++ y) ∧ ∀ h'', KeepsFrom N h' h'' → content f h'' c = some t

theorem cloneItems_spec {f : Nat} (ih : CloneSpec f) (N : Nat) : ∀ (items : List (Bytes × V)) (h0 h' : Heap)
    (items' : List (Bytes × V)) (ts : List Tree), N ≤ h0.length →
    mapHeapE (cloneV f) h0 items = .ok (h', items') → mapO items (fun kv => content f h0 kv.2) = some ts →
    (∃ y, h' = h0 ++ y) ∧ items'.map (·.1) = items.map (·.1) ∧
      ∀ h'', KeepsFrom N h' h'' → mapO items' (fun kv => content f h'' kv.2) = some ts
  | [], h0, h', items', ts, _, hm, hc => by
    simp only [mapHeapE, Except.ok.injEq, Prod.mk.injEq] at hm
    obtain ⟨rfl, rfl⟩ := hm
    simp only [mapO, Option.some.injEq] at hc
    subst hc
    exact ⟨⟨[], by simp⟩, rfl, fun _ _ => rfl⟩
  | (k, x) :: rest, h0, h', items', ts, hN, hm, hc => by
    simp only [mapHeapE] at hm
    cases hcx : cloneV f h0 x with
    | error e => simp [hcx] at hm
    | ok r =>
      obtain ⟨h1, x'⟩ := r
      simp only [hcx] at hm
      cases hcr : mapHeapE (cloneV f) h1 rest with
      | error e => simp [hcr] at hm
      | ok r2 =>
        obtain ⟨h2, rest'⟩ := r2
        simp only [hcr, Except.ok.injEq, Prod.mk.injEq] at hm
        obtain ⟨rfl, rfl⟩ := hm
        simp only [mapO] at hc
        cases hx0 : content f h0 x with
        | none => simp [hx0] at hc
        | some t0 =>
          simp only [hx0] at hc
          cases hr0 : mapO rest (fun kv => content f h0 kv.2) with
          | none => simp [hr0] at hc
          | some ts' =>
            simp only [hr0, Option.some.injEq] at hc
            subst hc
            obtain ⟨⟨y1, hy1⟩, hx'⟩ := ih N h0 h1 x x' t0 hN hcx hx0
            have hr1 : mapO rest (fun kv => content f h1 kv.2) = some ts' := by
              rw [hy1]
              exact mapO_congr_some hr0 (fun kv _ y hy => content_mono (getB_append_mono y1) f kv.2 y hy)
            obtain ⟨⟨y2, hy2⟩, hkeys, hrest⟩ := cloneItems_spec ih N rest h1 h2 rest' ts' (by rw [hy1]; simp; omega) hcr hr1
            refine ⟨⟨y1 ++ y2, by rw [hy2, hy1, List.append_assoc]⟩, by simp [hkeys], ?_⟩
            intro h'' hk
            have hk1 : KeepsFrom N h1 h'' := by
              intro id hid b hb
              exact hk id hid b (by rw [hy2]; exact getB_append_mono y2 id b hb)
            simp only [mapO, hx' h'' hk1, hrest h'' hk]

theorem cloneSpec : ∀ f, CloneSpec f
  | 0 => by intro N h h' v c t _ hc; simp [cloneV] at hc
  | f + 1 => by
    intro N h h' v c t hN hcl hct
    simp only [cloneV] at hcl
    cases hh : handleOf v with
    | none =>
      simp only [hh, Except.ok.injEq, Prod.mk.injEq] at hcl
      obtain ⟨rfl, rfl⟩ := hcl
      exact ⟨⟨[], by simp⟩, fun h'' _ => by rw [content_scalar_indep hh]; exact hct⟩
    | some id =>
      simp only [hh] at hcl
      cases hb : getB h id with
      | error e => simp [hb] at hcl
      | ok b =>
        simp only [hb] at hcl
        cases hm : mapHeapE (cloneV f) h b.items with
        | error e => simp [hm] at hcl
        | ok r =>
          obtain ⟨h1, items'⟩ := r
          simp only [hm, allocB, Except.ok.injEq, Prod.mk.injEq] at hcl
          obtain ⟨rfl, rfl⟩ := hcl
          rw [content_handle hh hb] at hct
          -- the element contents in array form
          have harr : ∃ ts, mapO b.items (fun kv => content f h kv.2) = some ts ∧
              t = (if isObjV v then Tree.obj ((b.items.map (·.1)).zip ts) else Tree.arr ts) := by
            by_cases ho : isObjV v = true
            · simp only [ho, if_true] at hct ⊢
              rw [mapO_pair] at hct
              cases hmm : mapO b.items (fun kv => content f h kv.2) with
              | none => simp [hmm] at hct
              | some ts => simp only [hmm, Option.map_some, Option.some.injEq] at hct; exact ⟨ts, rfl, hct.symm⟩
            · simp only [ho] at hct ⊢
              cases hmm : mapO b.items (fun kv => content f h kv.2) with
              | none => simp [hmm] at hct
              | some ts => simp only [hmm, Option.map_some, Option.some.injEq] at hct; exact ⟨ts, rfl, by simpa using hct.symm⟩
          obtain ⟨ts, hts, ht⟩ := harr
          obtain ⟨⟨y, hy⟩, hkeys, hitems⟩ := cloneItems_spec (cloneSpec f) N b.items h h1 items' ts hN hm hts
          refine ⟨⟨y ++ [some { isObj := b.isObj, items := items', cap := max items'.length 3, rc := 1 }], by rw [hy, List.append_assoc]⟩, ?_⟩
          intro h'' hk
          have hN1 : N ≤ h1.length := by rw [hy]; simp; omega
          obtain ⟨b'', hb'', e1, e2⟩ := hk h1.length hN1 _ (getB_alloc_new h1 _)
          have hk1 : KeepsFrom N h1 h'' := by
            intro id hid b0 hb0
            exact hk id hid b0 (getB_append_mono _ id b0 hb0)
          have hcont := hitems h'' hk1
          have hhid : handleOf (mkHandle (isObjV v) h1.length) = some h1.length := handleOf_mkHandle _ _
          rw [content_handle hhid hb'', e1, isObjV_mkHandle, ht]
          by_cases ho : isObjV v = true
          · simp only [ho, if_true]
            rw [mapO_pair, hcont, hkeys]; rfl
          · simp only [ho]
            rw [hcont]; rfl




/-! ## exact dyadic numbers: normal forms are unique -/

/-- `m / 2^e` in normal form -/
def Dy.Normal (d : Dy) : Prop := d.e = 0 ∨ d.m % 2 = 1

/-- numeric equality of two dyadic rationals: `m1 / 2^e1 = m2 / 2^e2` -/
def Dy.ValEq (a b : Dy) : Prop := a.m * 2 ^ b.e = b.m * 2 ^ a.e

theorem Dy.norm_normal : ∀ (m : Int) (e : Nat), (Dy.norm m e).Normal
  | m, 0 => Or.inl rfl
  | m, e + 1 => by
    unfold Dy.norm
    by_cases h : m % 2 = 0
    · simp only [h, if_true]; exact Dy.norm_normal (m / 2) e
    · simp only [h, if_false]; right; show m % 2 = 1; omega

theorem Dy.norm_valEq : ∀ (m : Int) (e : Nat), (Dy.norm m e).ValEq ⟨m, e⟩
  | m, 0 => rfl
  | m, e + 1 => by
    unfold Dy.norm
    by_cases h : m % 2 = 0
    · simp only [h, if_true]
      have ih := Dy.norm_valEq (m / 2) e
      unfold Dy.ValEq at ih ⊢
      simp only at ih ⊢
      have hm : m = 2 * (m / 2) := by omega
      rw [Int.pow_succ]
      calc (Dy.norm (m / 2) e).m * (2 ^ e * 2) = ((Dy.norm (m / 2) e).m * 2 ^ e) * 2 := by ac_rfl
        _ = (m / 2 * 2 ^ (Dy.norm (m / 2) e).e) * 2 := by rw [ih]
        _ = (2 * (m / 2)) * 2 ^ (Dy.norm (m / 2) e).e := by ac_rfl
        _ = m * 2 ^ (Dy.norm (m / 2) e).e := by rw [← hm]
    · simp only [h, if_false]; rfl


theorem pow2_pos (n : Nat) : (0 : Int) < 2 ^ n := Int.pow_pos (by decide)

theorem odd_mul_pow2 {m : Int} {k : Nat} (hm : m % 2 = 1) (x : Int) (h : m = x * 2 ^ (k + 1)) : False := by
  rw [Int.pow_succ, ← Int.mul_assoc] at h
  omega

/-- two normal forms with the same numeric value are the same pair — so `=` on `Dy` (what the model's `==` uses)
IS numeric equality -/
theorem Dy.normal_unique {a b : Dy} (ha : a.Normal) (hb : b.Normal) (hv : a.ValEq b) : a = b := by
  obtain ⟨m1, e1⟩ := a
  obtain ⟨m2, e2⟩ := b
  unfold Dy.ValEq at hv
  simp only [Dy.Normal] at ha hb hv
  -- compare the exponents
  rcases Nat.lt_trichotomy e1 e2 with hlt | heq | hgt
  · -- e1 < e2: m1 * 2^e2 = m2 * 2^e1 makes m2 even, but e2 > 0 forces m2 odd
    exfalso
    have hb' : m2 % 2 = 1 := by rcases hb with h | h; omega; exact h
    obtain ⟨k, hk⟩ : ∃ k, e2 = e1 + (k + 1) := ⟨e2 - e1 - 1, by omega⟩
    rw [hk, Int.pow_add] at hv
    have h2 : m1 * 2 ^ (k + 1) * 2 ^ e1 = m2 * 2 ^ e1 := by rw [← hv]; ac_rfl
    have h3 := Int.eq_of_mul_eq_mul_right (Int.ne_of_gt (pow2_pos e1)) h2
    exact odd_mul_pow2 hb' m1 h3.symm
  · subst heq
    have h3 := Int.eq_of_mul_eq_mul_right (Int.ne_of_gt (pow2_pos e1)) hv
    rw [h3]
  · exfalso
    have ha' : m1 % 2 = 1 := by rcases ha with h | h; omega; exact h
    obtain ⟨k, hk⟩ : ∃ k, e1 = e2 + (k + 1) := ⟨e1 - e2 - 1, by omega⟩
    rw [hk, Int.pow_add] at hv
    have h2 : m2 * 2 ^ (k + 1) * 2 ^ e2 = m1 * 2 ^ e2 := by rw [hv]; ac_rfl
    have h3 := Int.eq_of_mul_eq_mul_right (Int.ne_of_gt (pow2_pos e2)) h2
    exact odd_mul_pow2 ha' m2 h3.symm


/-- **the target survives its own assignment**: after an executed `target = src` the Var at the target location
(root variable or element/property at any depth) is readable and holds `src` -/
theorem Inv.assignV_target {σ σ' : State} {T : List V} {t : Loc} {src : V} (inv : Inv σ T)
    (hl : ValidLoc σ t) (hs : LiveV σ.heap src)
    (hacyc : ∀ B c, parentOf t = some B → handleOf src = some c → ¬ Reach σ.heap c B)
    (ha : Var.assignV σ t src = .ok σ') : readLoc σ' t = .ok src := by
  obtain ⟨old, hr, hheld⟩ := readLoc_valid hl T
  clear hheld
  unfold Var.assignV at ha
  rw [hr] at ha
  dsimp only at ha
  split at ha
  · rename_i s0 s
    obtain ⟨σ1, old', _, hw, _, _, hrd⟩ := ((Inv.scalar (v := V.str s) rfl).mpr inv).writeLoc hl (fun _ _ _ h => nomatch h)
    rw [hw] at ha; cases ha; exact hrd
  · obtain ⟨h1, hc, inv1, same⟩ := inv.copyLive hs
    simp only [hc] at ha
    have hl1 : ValidLoc { σ with heap := h1 } t := (SameDom.of_same same).validLoc hl
    obtain ⟨σ2, old', hr', hw, inv2, dom, hrd2⟩ := inv1.writeLoc hl1
      (fun id c hp hc' r => hacyc id c hp hc' ((Reach.of_same same).mp r))
    rw [readLoc_same same t hr] at hr'; cases hr'
    simp only [hw] at ha
    by_cases hpod : isPod old = true
    · simp only [hpod, if_true] at ha; cases ha; exact hrd2
    · simp only [hpod] at ha
      cases hd : Var.drop σ2.heap [old] with
      | error e => simp [hd] at ha
      | ok h3 =>
        simp only [hd] at ha
        cases ha
        cases t with
        | slot k => simp only [readLoc] at hrd2 ⊢; exact hrd2
        | item B p =>
          obtain ⟨bB, hbB, hp⟩ := hl
          obtain ⟨rank, hrk⟩ := inv.ranked
          have hedgeOld : ∀ c, handleOf old = some c → Edge σ.heap B c := by
            intro c hc'
            refine ⟨bB, hbB, old, ?_, hc'⟩
            simp only [readLoc, hbB] at hr
            cases hi' : bB.items[p]? with
            | none => simp [hi'] at hr
            | some kv =>
              simp only [hi', Except.ok.injEq] at hr
              rw [← hr]; exact List.mem_map_of_mem (List.mem_of_getElem? hi')
          obtain ⟨b1B, hb1B, e1B, _, _⟩ := same.get hbB
          have hedges2 : ∀ x y, Edge σ2.heap x y → Edge h1 x y ∨ (x = B ∧ handleOf src = some y) := by
            intro x y e
            simp only [Var.writeLoc, hb1B] at hw
            split at hw
            · cases hw
              rcases Edge.setB hb1B e with ⟨_, e0⟩ | ⟨rfl, w, hw', hwy⟩
              · exact Or.inl e0
              · simp only [bvals, map_snd_setValAt] at hw'
                rcases List.mem_or_eq_of_mem_set hw' with h2 | rfl
                · exact Or.inl ⟨b1B, hb1B, w, h2, hwy⟩
                · exact Or.inr ⟨rfl, hwy⟩
            · cases hw
          have hno : ∀ v ∈ [old], ∀ c, handleOf v = some c → ¬ Reach σ2.heap c B := by
            intro v hv c hc' r
            simp only [List.mem_singleton] at hv; subst hv
            have hlt := hrk B c (hedgeOld c hc')
            have key : Reach σ.heap c B := by
              cases hsrc : handleOf src with
              | none =>
                apply (Reach.of_same same).mp
                exact Reach.mono (fun x y e => by
                  rcases hedges2 x y e with e0 | ⟨_, h0⟩
                  · exact e0
                  · rw [hsrc] at h0; cases h0) r
              | some cs =>
                have := reach_addEdge_split (h := h1) (B := B) (c := cs) (fun x y e => by
                  rcases hedges2 x y e with e0 | ⟨h0, h0'⟩
                  · exact Or.inl e0
                  · rw [hsrc] at h0'; exact Or.inr ⟨h0, (Option.some.inj h0').symm⟩) r
                rcases this with h0 | h0 <;> exact (Reach.of_same same).mp h0
            have := Reach.rank_le hrk key; omega
          have hfr := release_frame _ σ2.heap h3 [old] B hd hno
          simp only [readLoc] at hrd2 ⊢
          have : getB h3 B = getB σ2.heap B := by unfold getB; rw [hfr]
          rw [this]; exact hrd2


/-! ## no leak -/

def rankMax (rank : Nat → Nat) : Nat → Nat
  | 0 => 0
  | n + 1 => max (rank n) (rankMax rank n)

theorem rankMax_ge (rank : Nat → Nat) : ∀ (n id : Nat), id < n → rank id ≤ rankMax rank n
  | 0, _, h => by omega
  | n + 1, id, h => by
    simp only [rankMax]
    by_cases he : id = n
    · subst he; omega
    · have := rankMax_ge rank n id (by omega); omega

/-- when no root variable (and no temporary) holds a handle, no block is live: everything was released -/
theorem Inv.no_leak {σ : State} (inv : Inv σ []) (hroots : ∀ v ∈ σ.slots, handleOf v = none) :
    ∀ id b, getB σ.heap id ≠ .ok b := by
  obtain ⟨rank, hrk⟩ := inv.ranked
  -- every live block has a live parent of larger rank
  have parent : ∀ id b, getB σ.heap id = .ok b → ∃ p bp, getB σ.heap p = .ok bp ∧ rank id < rank p := by
    intro id b hb
    have hc := inv.wf.counted id b hb
    have hp := inv.wf.pos id b hb
    have hz : occ id (σ.slots ++ []) = 0 := by
      rw [occ_eq_zero_iff]
      intro v hv hid
      simp only [List.append_nil] at hv
      rw [hroots v hv] at hid; cases hid
    have hpos : 0 < occ id (hvals σ.heap) := by omega
    obtain ⟨v, hv, hid⟩ := (occ_pos_iff _ _).mp hpos
    simp only [hvals, List.mem_flatMap] at hv
    obtain ⟨ob, hob, hvo⟩ := hv
    cases ob with
    | none => simp [ovals] at hvo
    | some bp =>
      obtain ⟨p, hp1, hp2⟩ := List.getElem_of_mem hob
      have hgp : getB σ.heap p = .ok bp := getB_eq.mpr (by rw [List.getElem?_eq_getElem hp1, hp2])
      exact ⟨p, bp, hgp, hrk p id ⟨bp, hgp, v, hvo, hid⟩⟩
  -- hence live blocks of arbitrarily large rank
  have climb : ∀ k id b, getB σ.heap id = .ok b → ∃ p bp, getB σ.heap p = .ok bp ∧ rank id + k ≤ rank p := by
    intro k
    induction k with
    | zero => intro id b hb; exact ⟨id, b, hb, by omega⟩
    | succ k ih =>
      intro id b hb
      obtain ⟨p, bp, hp, hlt⟩ := parent id b hb
      obtain ⟨p', bp', hp', hle⟩ := ih p bp hp
      exact ⟨p', bp', hp', by omega⟩
  intro id b hb
  obtain ⟨p, bp, hp, hle⟩ := climb (rankMax rank σ.heap.length + 1) id b hb
  have := rankMax_ge rank σ.heap.length p (getB_lt hp)
  omega




theorem Dy.valEq_symm {a b : Dy} (h : a.ValEq b) : b.ValEq a := by unfold Dy.ValEq at *; exact h.symm

theorem Dy.valEq_trans {a b c : Dy} (h1 : a.ValEq b) (h2 : b.ValEq c) : a.ValEq c := by
  unfold Dy.ValEq at *
  have hpos := pow2_pos b.e
  apply Int.eq_of_mul_eq_mul_right (Int.ne_of_gt hpos)
  calc a.m * 2 ^ c.e * 2 ^ b.e = (a.m * 2 ^ b.e) * 2 ^ c.e := by ac_rfl
    _ = (b.m * 2 ^ a.e) * 2 ^ c.e := by rw [h1]
    _ = (b.m * 2 ^ c.e) * 2 ^ a.e := by ac_rfl
    _ = (c.m * 2 ^ b.e) * 2 ^ a.e := by rw [h2]
    _ = c.m * 2 ^ a.e * 2 ^ b.e := by ac_rfl

/-- the normal forms of two pairs coincide exactly when the pairs denote the same number -/
theorem Dy.norm_eq_iff (a b : Dy) : Dy.norm a.m a.e = Dy.norm b.m b.e ↔ a.ValEq b := by
  constructor
  · intro h
    have ha := Dy.norm_valEq a.m a.e
    have hb := Dy.norm_valEq b.m b.e
    rw [h] at ha
    exact Dy.valEq_trans (Dy.valEq_symm ha) hb
  · intro h
    apply Dy.normal_unique (Dy.norm_normal _ _) (Dy.norm_normal _ _)
    exact Dy.valEq_trans (Dy.norm_valEq a.m a.e) (Dy.valEq_trans h (Dy.valEq_symm (Dy.norm_valEq b.m b.e)))

theorem Dy.norm_ofInt (i : Int) : Dy.norm (Dy.ofInt i).m (Dy.ofInt i).e = Dy.ofInt i := rfl




/-- a typed assignment leaves the target readable with the new value (the Var survives the release of what it held) -/
theorem Inv.storeV_target {σ σ' : State} {T : List V} {t : Loc} {nv : V} (inv : Inv σ T) (hl : ValidLoc σ t)
    (hnv : handleOf nv = none) (hs : Var.storeV σ t nv = .ok σ') : readLoc σ' t = .ok nv := by
  obtain ⟨old, hr, _⟩ := readLoc_valid hl T
  obtain ⟨σ1, old', hr', hw, inv1, dom, hrd⟩ := ((Inv.scalar hnv).mpr inv).writeLoc hl (fun _ _ _ h => by rw [hnv] at h; cases h)
  rw [hr] at hr'; cases hr'
  unfold Var.storeV at hs
  simp only [hr, hw] at hs
  cases hd : Var.drop σ1.heap [old] with
  | error e => simp [hd] at hs
  | ok h3 =>
    simp only [hd, Except.ok.injEq] at hs
    subst hs
    cases t with
    | slot k => simp only [readLoc] at hrd ⊢; exact hrd
    | item B p =>
      obtain ⟨bB, hbB, hp⟩ := hl
      obtain ⟨rank, hrk⟩ := inv.ranked
      have hedgeOld : ∀ c, handleOf old = some c → Edge σ.heap B c := by
        intro c hc'
        refine ⟨bB, hbB, old, ?_, hc'⟩
        simp only [readLoc, hbB] at hr
        cases hi' : bB.items[p]? with
        | none => simp [hi'] at hr
        | some kv =>
          simp only [hi', Except.ok.injEq] at hr
          rw [← hr]; exact List.mem_map_of_mem (List.mem_of_getElem? hi')
      have hsub : ∀ x y, Edge σ1.heap x y → Edge σ.heap x y := by
        intro x y e
        simp only [Var.writeLoc, hbB, hp, if_true, Except.ok.injEq] at hw
        subst hw
        exact edge_setScalar hbB hnv e
      have hno : ∀ v ∈ [old], ∀ c, handleOf v = some c → ¬ Reach σ1.heap c B := by
        intro v hv c hc' r
        simp only [List.mem_singleton] at hv; subst hv
        have hlt := hrk B c (hedgeOld c hc')
        have := Reach.rank_le hrk (Reach.mono hsub r)
        omega
      have hfr := release_frame _ σ1.heap h3 [old] B hd hno
      simp only [readLoc] at hrd ⊢
      have : getB h3 B = getB σ1.heap B := by unfold getB; rw [hfr]
      rw [this]; exact hrd

/-! ## every held value denotes a finite tree -/

theorem mapO_some {α β : Type} {g : α → Option β} : ∀ (l : List α), (∀ x ∈ l, ∃ y, g x = some y) → ∃ ys, mapO l g = some ys
  | [], _ => ⟨[], rfl⟩
  | x :: xs, h => by
    obtain ⟨y, hy⟩ := h x (by simp)
    obtain ⟨ys, hys⟩ := mapO_some xs (fun z hz => h z (by simp [hz]))
    exact ⟨y :: ys, by simp [mapO, hy, hys]⟩

/-- in a state satisfying the invariant (acyclic, no dangling handle) every value whose block is live denotes a tree:
`content` is defined for a sufficiently large recursion bound — the equality and assignment theorems are never
vacuous -/
theorem Inv.content_defined {σ : State} {T : List V} (inv : Inv σ T) : ∀ v, LiveV σ.heap v → ∃ f tr, content f σ.heap v = some tr := by
  obtain ⟨rank, hrk⟩ := inv.ranked
  have key : ∀ n v, LiveV σ.heap v → (∀ c, handleOf v = some c → rank c < n) → ∃ tr, content (n + 1) σ.heap v = some tr := by
    intro n
    induction n with
    | zero =>
      intro v _ hr
      cases hh : handleOf v with
      | some c => exact absurd (hr c hh) (by omega)
      | none => cases v <;> simp [handleOf] at hh <;> exact ⟨_, rfl⟩
    | succ n ih =>
      intro v hv hr
      cases hh : handleOf v with
      | none => cases v <;> simp [handleOf] at hh <;> exact ⟨_, rfl⟩
      | some c =>
        obtain ⟨b, hb, _⟩ := hv c hh
        have hch : ∀ kv ∈ b.items, ∃ tr, content (n + 1) σ.heap kv.2 = some tr := by
          intro kv hkv
          have hmem : kv.2 ∈ bvals b := List.mem_map_of_mem hkv
          apply ih kv.2 (inv.wf.liveV (Or.inr (mem_hvals_of_getB hb hmem)))
          intro c' hc'
          have := hrk c c' ⟨b, hb, kv.2, hmem, hc'⟩
          have := hr c hh
          omega
        rw [content_handle hh hb]
        by_cases ho : isObjV v = true
        · simp only [ho, if_true]
          obtain ⟨ys, hys⟩ := mapO_some (g := fun kv : Bytes × V => (content (n + 1) σ.heap kv.2).map (fun t => (kv.1, t))) b.items
            (fun kv hkv => by obtain ⟨tr, h⟩ := hch kv hkv; exact ⟨(kv.1, tr), by simp [h]⟩)
          exact ⟨_, by rw [hys]; rfl⟩
        · simp only [ho]
          obtain ⟨ys, hys⟩ := mapO_some (g := fun kv : Bytes × V => content (n + 1) σ.heap kv.2) b.items hch
          exact ⟨_, by rw [hys]; rfl⟩
  intro v hv
  cases hh : handleOf v with
  | none => obtain ⟨tr, h⟩ := key 0 v hv (fun c hc => by rw [hh] at hc; cases hc); exact ⟨_, tr, h⟩
  | some c => obtain ⟨tr, h⟩ := key (rank c + 1) v hv (fun c' hc' => by rw [hh] at hc'; cases hc'; omega); exact ⟨_, tr, h⟩


/-! ## construction from containers -/

/-- the tree a scalar value denotes (no heap involved) -/
def scalarTree : V → Tree
  | .null => .null
  | .bool b => .bool b
  | .int i => .num (Dy.ofInt i)
  | .num d => .num (Dy.norm d.m d.e)
  | .flt d => .num (Dy.norm d.m d.e)
  | .sstr s => .str s
  | .str s => .str s
  | _ => .none

theorem content_scalarTree {v : V} (hv : handleOf v = none) (f : Nat) (h : Heap) : content (f + 1) h v = some (scalarTree v) := by
  cases v <;> simp [handleOf] at hv <;> rfl

theorem mapO_scalar_arr (f : Nat) (h : Heap) : ∀ (items : List (Bytes × V)), (∀ kv ∈ items, handleOf kv.2 = none) →
    mapO items (fun kv => content (f + 1) h kv.2) = some (items.map fun kv => scalarTree kv.2)
  | [], _ => rfl
  | kv :: rest, hs => by
    simp only [mapO, content_scalarTree (hs kv (by simp)), mapO_scalar_arr f h rest (fun x hx => hs x (by simp [hx])), List.map_cons]

theorem mapO_scalar_obj (f : Nat) (h : Heap) : ∀ (items : List (Bytes × V)), (∀ kv ∈ items, handleOf kv.2 = none) →
    mapO items (fun kv => (content (f + 1) h kv.2).map (fun t => (kv.1, t))) = some (items.map fun kv => (kv.1, scalarTree kv.2))
  | [], _ => rfl
  | kv :: rest, hs => by
    simp only [mapO, content_scalarTree (hs kv (by simp)), Option.map_some, mapO_scalar_obj f h rest (fun x hx => hs x (by simp [hx])), List.map_cons]

theorem content_arr_of {f : Nat} {h : Heap} {id : Nat} {b : Block} (hb : getB h id = .ok b) :
    content (f + 1) h (.arr id) = (mapO b.items (fun kv => content f h kv.2)).map Tree.arr := by
  simp only [content, hb]

theorem content_obj_of {f : Nat} {h : Heap} {id : Nat} {b : Block} (hb : getB h id = .ok b) :
    content (f + 1) h (.obj id) = (mapO b.items (fun kv => (content f h kv.2).map (fun t => (kv.1, t)))).map Tree.obj := by
  simp only [content, hb]

/-- a root replaced by a handle to a freshly built block: the root holds the handle, the block is alive with exactly
the elements it was built with, the invariant holds -/
theorem ctor_block_spec (σ σ' : State) (k : Nat) (b : Block) (inv : Inv σ (bvals b)) (hrc : b.rc = 1)
    (hs : b.isObj = true → SortedItems b.items)
    (h : replaceSlot { σ with heap := σ.heap ++ [some b] } k (mkHandle b.isObj σ.heap.length) = .ok σ') :
    σ'.slots[k]? = some (mkHandle b.isObj σ.heap.length) ∧ σ'.slots.length = σ.slots.length ∧
    (∃ b', getB σ'.heap σ.heap.length = .ok b' ∧ b'.items = b.items ∧ b'.cap = b.cap) ∧ Inv σ' [] ∧
    SubItems (σ.heap ++ [some b]) σ'.heap := by
  have inv3 := Inv.alloc (σ := σ) (T := []) (b := b) (by simpa using inv) hrc hs
  obtain ⟨hsl, hk, sub⟩ := replaceSlot_spec inv3 h
  obtain ⟨σ'', h2, inv', hlen⟩ := inv3.replaceSlot hk
  rw [h] at h2; cases h2
  have hget : σ'.slots[k]? = some (mkHandle b.isObj σ.heap.length) := by
    rw [hsl]; simp only [List.getElem?_set_self hk]
  refine ⟨hget, hlen, ?_, inv', sub⟩
  obtain ⟨b', hb', _⟩ := inv'.wf.live (mkHandle b.isObj σ.heap.length)
    (Or.inl (by simp only [List.append_nil]; exact List.mem_of_getElem? hget)) _ (handleOf_mkHandle _ _)
  obtain ⟨b0, hb0, e1, _, e3⟩ := sub.2 _ b' hb'
  rw [getB_alloc_new] at hb0; cases hb0
  exact ⟨b', hb', e1, e3⟩

theorem mapO_map_snd {g : V → Option Tree} : ∀ (vals : List V),
    mapO (vals.map (fun v => (([] : Bytes), v))) (fun kv => g kv.2) = mapO vals g
  | [] => rfl
  | v :: rest => by simp only [List.map_cons, mapO, mapO_map_snd rest]

/-! ## accessors: helper lemmas of the conversion table (C04 extension round) -/

theorem anyE_spec {α : Type} {p : α → Except Err Bool} : ∀ (l : List α), (∀ x ∈ l, ∃ b, p x = .ok b) →
    ∃ r, anyE l p = .ok r ∧ (r = true ↔ ∃ x ∈ l, p x = .ok true)
  | [], _ => ⟨false, rfl, by simp⟩
  | y :: ys, hall => by
    obtain ⟨b, hb⟩ := hall y (by simp)
    obtain ⟨r, hr, hiff⟩ := anyE_spec ys (fun x hx => hall x (by simp [hx]))
    cases b with
    | true => exact ⟨true, by simp [anyE, hb], by simp [hb]⟩
    | false =>
      refine ⟨r, by simp [anyE, hb, hr], ?_⟩
      rw [hiff]
      constructor
      · rintro ⟨x, hx, hp⟩; exact ⟨x, by simp [hx], hp⟩
      · rintro ⟨x, hx, hp⟩
        rcases List.mem_cons.mp hx with rfl | hx
        · rw [hb] at hp; cases hp
        · exact ⟨x, hx, hp⟩

theorem mapO_mem {α β : Type} {g : α → Option β} : ∀ {l : List α} {ys : List β}, mapO l g = some ys →
    (∀ x ∈ l, ∃ y ∈ ys, g x = some y) ∧ (∀ y ∈ ys, ∃ x ∈ l, g x = some y)
  | [], ys, h => by simp [mapO] at h; subst h; simp
  | x :: xs, ys, h => by
    simp only [mapO] at h
    cases hx : g x with
    | none => simp [hx] at h
    | some y =>
      simp only [hx] at h
      cases hm : mapO xs g with
      | none => simp [hm] at h
      | some ys' =>
        simp only [hm, Option.some.injEq] at h
        subst h
        obtain ⟨h1, h2⟩ := mapO_mem hm
        constructor
        · intro a ha
          rcases List.mem_cons.mp ha with rfl | ha
          · exact ⟨y, by simp, hx⟩
          · obtain ⟨y', hy', hg⟩ := h1 a ha; exact ⟨y', by simp [hy'], hg⟩
        · intro b hb
          rcases List.mem_cons.mp hb with rfl | hb
          · exact ⟨x, by simp, hx⟩
          · obtain ⟨a, ha, hg⟩ := h2 b hb; exact ⟨a, by simp [ha], hg⟩

theorem trunc_ofInt (i : Int) : Dy.trunc ⟨i, 0⟩ = i := by
  simp [Dy.trunc]


/-! ## clone_deep: content of a closed block set; histories (C04 extension round) -/

/-- a value whose blocks all lie in a set `S` closed under the handles stored in its blocks denotes the same tree in
every heap that has the same cells at the ids of `S` -/
theorem content_closed {S : Nat → Prop} {h h1 : Heap}
    (hcl : ∀ id b, S id → getB h id = .ok b → ∀ v ∈ bvals b, ∀ c, handleOf v = some c → S c)
    (hag : ∀ id, S id → h1[id]? = h[id]?) : ∀ (f : Nat) (v : V) (t : Tree),
    (∀ id, handleOf v = some id → S id) → content f h v = some t → content f h1 v = some t
  | 0, _, _, _, hc => by simp [content] at hc
  | f + 1, v, t, hv, hc => by
    cases hh : handleOf v with
    | none => rw [content_scalar_indep hh]; exact hc
    | some id =>
      have hS := hv id hh
      cases hb : getB h id with
      | error e =>
        rw [content_handle_none hh (by intro b hb'; rw [hb] at hb'; cases hb')] at hc; cases hc
      | ok b =>
        have hb1 : getB h1 id = .ok b := by rw [getB_eq, hag id hS, ← getB_eq]; exact hb
        rw [content_handle hh hb] at hc
        rw [content_handle hh hb1]
        have hitems : ∀ kv ∈ b.items, ∀ t', content f h kv.2 = some t' → content f h1 kv.2 = some t' := by
          intro kv hkv t' ht'
          refine content_closed hcl hag f kv.2 t' ?_ ht'
          intro c hc'
          exact hcl id b hS hb kv.2 (List.mem_map.mpr ⟨kv, hkv, rfl⟩) c hc'
        by_cases ho : isObjV v = true
        · simp only [ho, if_true] at hc ⊢
          cases hm : mapO b.items (fun kv => (content f h kv.2).map (fun t => (kv.1, t))) with
          | none => simp [hm] at hc
          | some ys =>
            rw [hm] at hc
            rw [mapO_congr_some (g' := fun kv => (content f h1 kv.2).map (fun t => (kv.1, t))) hm ?_]
            · exact hc
            · intro kv hkv y hy
              cases hx : content f h kv.2 with
              | none => simp [hx] at hy
              | some t' => rw [hitems kv hkv t' hx]; rw [hx] at hy; exact hy
        · simp only [ho] at hc ⊢
          cases hm : mapO b.items (fun kv => content f h kv.2) with
          | none => simp [hm] at hc
          | some ys =>
            rw [hm] at hc
            rw [mapO_congr_some (g' := fun kv => content f h1 kv.2) hm ?_]
            · exact hc
            · intro kv hkv y hy
              exact hitems kv hkv y hy

theorem run_append (g : Bool) : ∀ (a b : List Op) (σ : State), run g σ (a ++ b) = run g (run g σ a) b
  | [], _, _ => rfl
  | x :: a, b, σ => by simp only [List.cons_append, run]; exact run_append g a b _

/-- every handle of `v` lies in `[N, M)` -/
def HB (N M : Nat) (v : V) : Prop := ∀ c, handleOf v = some c → N ≤ c ∧ c < M

theorem HB.mono {N M M' : Nat} {v : V} (h : HB N M v) (hm : M ≤ M') : HB N M' v :=
  fun c hc => ⟨(h c hc).1, Nat.lt_of_lt_of_le (h c hc).2 hm⟩

/-- `clone()` appends blocks only, and the result and every appended block hold handles to appended blocks only -/
def CloneFresh (f : Nat) : Prop :=
  ∀ (N : Nat) (h h' : Heap) (v c : V), N ≤ h.length → cloneV f h v = .ok (h', c) →
    ∃ y, h' = h ++ y ∧ HB N h'.length c ∧ ∀ ob ∈ y, ∀ w ∈ ovals ob, HB N h'.length w

theorem cloneItems_fresh {f : Nat} (ih : CloneFresh f) (N : Nat) : ∀ (items : List (Bytes × V)) (h0 h1 : Heap)
    (items' : List (Bytes × V)), N ≤ h0.length → mapHeapE (cloneV f) h0 items = .ok (h1, items') →
    ∃ y, h1 = h0 ++ y ∧ (∀ kv ∈ items', HB N h1.length kv.2) ∧ ∀ ob ∈ y, ∀ w ∈ ovals ob, HB N h1.length w
  | [], h0, h1, items', _, hm => by
    simp only [mapHeapE, Except.ok.injEq, Prod.mk.injEq] at hm
    obtain ⟨rfl, rfl⟩ := hm
    exact ⟨[], by simp, by simp, by simp⟩
  | (k, x) :: rest, h0, h1, items', hN, hm => by
    simp only [mapHeapE] at hm
    cases hcx : cloneV f h0 x with
    | error e => simp [hcx] at hm
    | ok r =>
      obtain ⟨ha, x'⟩ := r
      simp only [hcx] at hm
      cases hr : mapHeapE (cloneV f) ha rest with
      | error e => simp [hr] at hm
      | ok r2 =>
        obtain ⟨hb, rest'⟩ := r2
        simp only [hr, Except.ok.injEq, Prod.mk.injEq] at hm
        obtain ⟨rfl, rfl⟩ := hm
        obtain ⟨ya, hya, hx', hfa⟩ := ih N h0 ha x x' hN hcx
        have hNa : N ≤ ha.length := by rw [hya, List.length_append]; omega
        obtain ⟨yb, hyb, hrest, hfb⟩ := cloneItems_fresh ih N rest ha hb rest' hNa hr
        have hle : ha.length ≤ hb.length := by rw [hyb, List.length_append]; omega
        refine ⟨ya ++ yb, by rw [hyb, hya, List.append_assoc], ?_, ?_⟩
        · intro kv hkv
          rcases List.mem_cons.mp hkv with rfl | hkv
          · exact hx'.mono hle
          · exact hrest kv hkv
        · intro ob hob w hw
          rcases List.mem_append.mp hob with hob | hob
          · exact (hfa ob hob w hw).mono hle
          · exact hfb ob hob w hw

theorem cloneFresh : ∀ f, CloneFresh f
  | 0 => by intro N h h' v c _ hc; simp [cloneV] at hc
  | f + 1 => by
    intro N h h' v c hN hcl
    simp only [cloneV] at hcl
    cases hh : handleOf v with
    | none =>
      simp only [hh, Except.ok.injEq, Prod.mk.injEq] at hcl
      obtain ⟨rfl, rfl⟩ := hcl
      exact ⟨[], by simp, (fun c hc => by rw [hh] at hc; cases hc), by simp⟩
    | some id =>
      simp only [hh] at hcl
      cases hb : getB h id with
      | error e => simp [hb] at hcl
      | ok b =>
        simp only [hb] at hcl
        cases hm : mapHeapE (cloneV f) h b.items with
        | error e => simp [hm] at hcl
        | ok r =>
          obtain ⟨h1, items'⟩ := r
          simp only [hm, allocB, Except.ok.injEq, Prod.mk.injEq] at hcl
          obtain ⟨rfl, rfl⟩ := hcl
          obtain ⟨y, hy, hitems, hfy⟩ := cloneItems_fresh (cloneFresh f) N b.items h h1 items' hN hm
          have hlen : (h1 ++ [some ({ isObj := b.isObj, items := items', cap := max items'.length 3, rc := 1 } : Block)]).length = h1.length + 1 := by simp
          have hN1 : N ≤ h1.length := by rw [hy, List.length_append]; omega
          refine ⟨y ++ [some ({ isObj := b.isObj, items := items', cap := max items'.length 3, rc := 1 } : Block)], by rw [hy, List.append_assoc], ?_, ?_⟩
          · intro c hc
            rw [handleOf_mkHandle] at hc
            cases hc
            rw [hlen]; omega
          · intro ob hob w hw
            rw [hlen]
            rcases List.mem_append.mp hob with hob | hob
            · exact (hfy ob hob w hw).mono (by omega)
            · simp only [List.mem_singleton] at hob
              subst hob
              simp only [ovals, bvals, List.mem_map] at hw
              obtain ⟨kv, hkv, rfl⟩ := hw
              exact (hitems kv hkv).mono (by omega)

/-! ## container assignment rebinds the target only (C04-r4) -/

/-- root `j` is not written and every block that was live keeps its elements (blocks may be appended, released, recounted) -/
def KeepsRoot (j : Nat) (σ σ' : State) : Prop :=
  σ'.slots[j]? = σ.slots[j]? ∧ ∃ y, SubItems (σ.heap ++ y) σ'.heap

theorem KeepsRoot.refl (j : Nat) (σ : State) : KeepsRoot j σ σ := ⟨rfl, [], by simpa using SubItems.refl σ.heap⟩

/-- a root that a statement keeps denotes afterwards the tree it denoted before -/
theorem KeepsRoot.content {j : Nat} {σ σ' : State} (k : KeepsRoot j σ σ') (inv' : Inv σ' []) :
    slotV σ' j = slotV σ j ∧ ∀ f tr, content f σ.heap (slotV σ j) = some tr → content f σ'.heap (slotV σ' j) = some tr := by
  obtain ⟨hs, y, sub⟩ := k
  have hsl : slotV σ' j = slotV σ j := by simp [slotV, List.getD_eq_getElem?_getD, hs]
  refine ⟨hsl, fun f tr hc => ?_⟩
  rw [hsl]
  cases hh : handleOf (slotV σ j) with
  | none => rw [content_scalar_indep hh f σ.heap σ'.heap]; exact hc
  | some id =>
    have hmem : slotV σ j ∈ σ'.slots := by
      rw [← hsl]
      have : handleOf (slotV σ' j) = some id := by rw [hsl]; exact hh
      unfold slotV at this ⊢
      rw [List.getD_eq_getElem?_getD] at this ⊢
      cases hg : σ'.slots[j]? with
      | none => rw [hg] at this; cases this
      | some w => exact List.mem_of_getElem? hg
    have h1 := content_mono (getB_append_mono (h := σ.heap) y) f _ tr hc
    exact content_sub sub inv'.wf f _ tr (Or.inl (by simpa using hmem)) h1

theorem replaceSlot_keepsRoot {σ σ' : State} {k j : Nat} {v : V} {T : List V} (inv : Inv σ (v :: T))
    (h : replaceSlot σ k v = .ok σ') (hj : j ≠ k) : σ'.slots[j]? = σ.slots[j]? ∧ SubItems σ.heap σ'.heap := by
  obtain ⟨hslots, _, hsub⟩ := replaceSlot_spec inv h
  exact ⟨by rw [hslots, List.getElem?_set_ne (Ne.symm hj)], hsub⟩

/-- `operator=(const Var&)` on a root variable: only that root is written, live blocks keep their elements -/
theorem assignV_slot_keeps {σ σ' : State} {x : Nat} {src : V} (inv : Inv σ []) (hx : x < σ.slots.length) (hs : LiveV σ.heap src)
    (ha : assignV σ (.slot x) src = .ok σ') : σ'.slots = σ.slots.set x src ∧ SubItems σ.heap σ'.heap := by
  have hl : ValidLoc σ (.slot x) := hx
  obtain ⟨old, hr, _⟩ := readLoc_valid hl []
  unfold assignV at ha
  rw [hr] at ha
  dsimp only at ha
  split at ha
  · simp only [writeLoc, hx, if_true, Except.ok.injEq] at ha
    subst ha
    exact ⟨rfl, SubItems.refl _⟩
  · obtain ⟨h1, hc, inv1, same⟩ := inv.copyLive hs
    simp only [hc] at ha
    have hl1 : ValidLoc { σ with heap := h1 } (.slot x) := hx
    obtain ⟨σ2, old', hr', hw, inv2, _, _⟩ := inv1.writeLoc hl1 (fun id c hp _ _ => by simp [parentOf] at hp)
    rw [readLoc_same same (.slot x) hr] at hr'; cases hr'
    have hw2 := hw
    simp only [writeLoc, hx, if_true, Except.ok.injEq] at hw2
    simp only [hw] at ha
    by_cases hp : isPod old = true
    · simp only [hp, if_true, Except.ok.injEq] at ha
      subst ha; subst hw2
      exact ⟨rfl, SubItems.of_same same⟩
    · simp only [hp] at ha
      obtain ⟨h3, hd, _, sub⟩ := Inv.drop (σ := σ2) (wl := [old]) (T := []) (by simpa using inv2)
      simp only [hd, Bool.false_eq_true, if_false, Except.ok.injEq] at ha
      subst ha; subst hw2
      exact ⟨rfl, (SubItems.of_same same).trans sub⟩


theorem applyOp_ctorArr_keeps {σ : State} (inv : Inv σ []) (t j : Nat) (lits : List Lit) (hj : j ≠ t) :
    KeepsRoot j σ (applyOp true σ (.ctorArr t lits)).1 := by
  simp only [applyOp, targetOf, rootOp, opCtorArr, allocB]
  cases h : replaceSlot { σ with heap := σ.heap ++ [some { isObj := false, items := lits.map (fun l => (([] : Bytes), l.toV)), cap := litCap lits.length, rc := 1 }] } t (.arr σ.heap.length) with
  | error e => exact KeepsRoot.refl j σ
  | ok σ' =>
    have hb : bvals { isObj := false, items := lits.map (fun l => (([] : Bytes), l.toV)), cap := litCap lits.length, rc := 1 } = lits.map Lit.toV := by
      simp [bvals, List.map_map, Function.comp_def]
    have inv3 := Inv.alloc (σ := σ) (T := [])
      (b := { isObj := false, items := lits.map (fun l => (([] : Bytes), l.toV)), cap := litCap lits.length, rc := 1 })
      (by rw [hb]; exact Inv.scalars inv _ (by intro v hv; obtain ⟨l, _, rfl⟩ := List.mem_map.mp hv; exact Lit.toV_scalar l)) rfl
      (by intro h; cases h)
    obtain ⟨h1, h2⟩ := replaceSlot_keepsRoot inv3 h hj
    exact ⟨h1, _, h2⟩

theorem applyOp_ctorDic_keeps {σ : State} (inv : Inv σ []) (t j : Nat) (pairs : List (Bytes × Lit)) (hj : j ≠ t) :
    KeepsRoot j σ (applyOp true σ (.ctorDic t pairs)).1 := by
  simp only [applyOp, targetOf, rootOp, opCtorDic]
  obtain ⟨items, h1, hs, hv⟩ := dicOfPairs_spec (pairs.map fun kl => (kl.1, kl.2.toV)) [] (by simp [SortedItems, AslProofs.Map.Sorted])
  rw [h1]; simp only [allocB]
  cases h : replaceSlot { σ with heap := σ.heap ++ [some { isObj := true, items := items, cap := litCap items.length, rc := 1 }] } t (.obj σ.heap.length) with
  | error e => exact KeepsRoot.refl j σ
  | ok σ' =>
    have inv3 := Inv.alloc (σ := σ) (T := []) (b := { isObj := true, items := items, cap := litCap items.length, rc := 1 })
      (by
        have := Inv.scalars inv (items.map (·.2)) (fun v hv' => by
          rcases hv v hv' with h0 | h0
          · simp at h0
          · simp only [List.map_map, List.mem_map] at h0; obtain ⟨kl, _, rfl⟩ := h0; exact Lit.toV_scalar _)
        exact this) rfl (fun _ => hs)
    obtain ⟨h1, h2⟩ := replaceSlot_keepsRoot inv3 h hj
    exact ⟨h1, _, h2⟩

theorem applyOp_drop_keeps {σ : State} (inv : Inv σ []) (t j : Nat) (hj : j ≠ t) :
    KeepsRoot j σ (applyOp true σ (.drop t)).1 := by
  simp only [applyOp, targetOf, rootOp]
  cases h : replaceSlot σ t V.none with
  | error e => exact KeepsRoot.refl j σ
  | ok σ' =>
    obtain ⟨h1, h2⟩ := replaceSlot_keepsRoot (T := []) ((Inv.scalar rfl).mpr inv) h hj
    exact ⟨h1, [], by simpa using h2⟩

/-- `root x = root t` (Var assignment between two root variables) -/
theorem applyOp_setV_roots_keeps {σ : State} (inv : Inv σ []) (x t j : Nat) (hj : j ≠ x) :
    KeepsRoot j σ (applyOp true σ (.setV ⟨x, []⟩ ⟨t, []⟩)).1 := by
  simp only [applyOp, targetOf]
  by_cases hx : x < σ.slots.length
  · simp only [hx, if_true, srcLoc, srcOf, cloc, resolveConstLoc, Except.map, resolveMut, opBody, opSetV, srcVal, readLoc]
    cases ht : σ.slots[t]? with
    | none => exact KeepsRoot.refl j σ
    | some src =>
      simp only [parentOf, cycleGuard, wouldCycle]
      cases ha : assignV σ (.slot x) src with
      | error e => exact KeepsRoot.refl j σ
      | ok σ' =>
        have hlive : LiveV σ.heap src := inv.wf.liveV (Or.inl (by simpa using List.mem_of_getElem? ht))
        obtain ⟨hslots, sub⟩ := assignV_slot_keeps inv hx hlive ha
        exact ⟨by rw [hslots, List.getElem?_set_ne (Ne.symm hj)], [], by simpa using sub⟩
  · simp only [hx, if_false]; exact KeepsRoot.refl j σ

end AslModel.Var
