import AslModel.WebSocket
import AslProofs.Bits
import AslProofs.WebSocketSpec
/-!
# C11 — helper lemmas for the WebSocket model (core Lean only)

Bit-level facts (little-endian words, `swapBytes`, XOR of words = XOR of bytes), the word-wise masking
loop against byte-wise RFC masking, header encode/decode against the RFC 6455 framing of
`AslProofs/WebSocketSpec.lean`, and the frame-by-frame behaviour of `recvLoop`/`receiveAll`.
-/
namespace AslProofs.WebSocket
open AslModel.WebSocket AslProofs.Bits Gen.Ws

/-! ## bytes and words -/

theorem ofNat_mod (n : Nat) : UInt8.ofNat (n % 256) = UInt8.ofNat n := by
  apply UInt8.toNat_inj.mp
  simp

theorem byte_eq (n : Nat) : byte n = UInt8.ofNat n := ofNat_mod n
theorem leWord_arith (a b c d : UInt8) :
    leWord a b c d = a.toNat + 256 * b.toNat + 65536 * c.toNat + 16777216 * d.toNat := by
  have ha := a.toNat_lt; have hb := b.toNat_lt; have hc := c.toNat_lt; have hd := d.toNat_lt
  unfold leWord
  have h1 : a.toNat ||| (b.toNat <<< 8) = (b.toNat <<< 8) ||| a.toNat := Nat.or_comm ..
  rw [h1, shl_or _ _ 8 (by omega)]
  have h2 : ∀ x y : Nat, x < 2 ^ 16 → x ||| (y <<< 16) = y * 2 ^ 16 + x := by
    intro x y hx; rw [Nat.or_comm, shl_or _ _ 16 hx]
  rw [h2 _ _ (by omega)]
  have h3 : ∀ x y : Nat, x < 2 ^ 24 → x ||| (y <<< 24) = y * 2 ^ 24 + x := by
    intro x y hx; rw [Nat.or_comm, shl_or _ _ 24 hx]
  rw [h3 _ _ (by omega)]
  omega

theorem xbyte (X Y i : Nat) (x y : UInt8) (hx : (X >>> i) % 256 = x.toNat) (hy : (Y >>> i) % 256 = y.toNat) :
    byte ((X ^^^ Y) >>> i) = x ^^^ y := by
  apply UInt8.toNat_inj.mp
  rw [UInt8.toNat_xor, ← hx, ← hy]
  simp only [byte, UInt8.toNat_ofNat']
  rw [Nat.shiftRight_xor_distrib]
  have : (256 : Nat) = 2 ^ 8 := rfl
  rw [this, Nat.mod_mod, Nat.xor_mod_two_pow]

theorem pushWord_xor (a b c d k0 k1 k2 k3 : UInt8) (acc : List UInt8) :
    pushWord (leWord a b c d ^^^ leWord k0 k1 k2 k3) acc
      = (d ^^^ k3) :: (c ^^^ k2) :: (b ^^^ k1) :: (a ^^^ k0) :: acc := by
  have ha := a.toNat_lt; have hb := b.toNat_lt; have hc := c.toNat_lt; have hd := d.toNat_lt
  have h0 := k0.toNat_lt; have h1 := k1.toNat_lt; have h2 := k2.toNat_lt; have h3 := k3.toNat_lt
  unfold pushWord
  have e : ∀ X : Nat, byte X = byte (X >>> 0) := fun _ => rfl
  rw [e (leWord a b c d ^^^ leWord k0 k1 k2 k3)]
  rw [xbyte _ _ 24 d k3, xbyte _ _ 16 c k2, xbyte _ _ 8 b k1, xbyte _ _ 0 a k0] <;>
    (rw [leWord_arith, Nat.shiftRight_eq_div_pow]; omega)
theorem or4be (a b c d : Nat) (hb : b < 256) (hc : c < 256) (hd : d < 256) :
    (a <<< 24) ||| (b <<< 16) ||| (c <<< 8) ||| d = a * 16777216 + b * 65536 + c * 256 + d := by
  have h1 : (a <<< 24) ||| (b <<< 16) = ((a <<< 8) ||| b) <<< 16 := by
    rw [Nat.shiftLeft_or_distrib, ← Nat.shiftLeft_add]
  have h2 : ∀ x, (x <<< 16) ||| (c <<< 8) = ((x <<< 8) ||| c) <<< 8 := by
    intro x; rw [Nat.shiftLeft_or_distrib, ← Nat.shiftLeft_add]
  rw [h1, h2, shl_or a b 8 (by omega), shl_or _ c 8 (by omega), shl_or _ d 8 (by omega)]
  omega

theorem swap32_be (k0 k1 k2 k3 : UInt8) : swap32 (beVal [k0, k1, k2, k3]) = leWord k0 k1 k2 k3 := by
  have h0 := k0.toNat_lt; have h1 := k1.toNat_lt; have h2 := k2.toNat_lt; have h3 := k3.toNat_lt
  rw [leWord_arith]
  unfold swap32
  simp only [and255, Nat.shiftRight_eq_div_pow]
  rw [or4be _ _ _ _ (Nat.mod_lt _ (by omega)) (Nat.mod_lt _ (by omega)) (Nat.mod_lt _ (by omega))]
  simp only [beVal, List.length_cons, List.length_nil]
  omega

/-! ## the masking loop -/

/-- byte `j` of the stream XOR key byte `(i + j) mod 4` -/
def xorKey (k0 k1 k2 k3 : UInt8) : Nat → List UInt8 → List UInt8
  | _, [] => []
  | i, b :: t => (b ^^^ [k0, k1, k2, k3].getD (i % 4) 0) :: xorKey k0 k1 k2 k3 (i + 1) t

theorem xorKey_length (k0 k1 k2 k3 : UInt8) (i : Nat) (l : List UInt8) : (xorKey k0 k1 k2 k3 i l).length = l.length := by
  induction l generalizing i with
  | nil => rfl
  | cons b t ih => simp [xorKey, ih]

theorem xorKey_four (k0 k1 k2 k3 a b c d : UInt8) (i : Nat) (h : i % 4 = 0) (t : List UInt8) :
    xorKey k0 k1 k2 k3 i (a :: b :: c :: d :: t)
      = (a ^^^ k0) :: (b ^^^ k1) :: (c ^^^ k2) :: (d ^^^ k3) :: xorKey k0 k1 k2 k3 (i + 4) t := by
  have h1 : (i + 1) % 4 = 1 := by omega
  have h2 : (i + 1 + 1) % 4 = 2 := by omega
  have h3 : (i + 1 + 1 + 1) % 4 = 3 := by omega
  simp [xorKey, h, h1, h2, h3]

theorem xorKey_take (k0 k1 k2 k3 : UInt8) (i j : Nat) (l : List UInt8) :
    (xorKey k0 k1 k2 k3 i l).take j = xorKey k0 k1 k2 k3 i (l.take j) := by
  induction l generalizing i j with
  | nil => simp [xorKey]
  | cons b t ih =>
    cases j with
    | zero => simp [xorKey]
    | succ j => simp [xorKey, ih]

theorem xorKey_append (k0 k1 k2 k3 : UInt8) (i : Nat) (l m : List UInt8) :
    xorKey k0 k1 k2 k3 i (l ++ m) = xorKey k0 k1 k2 k3 i l ++ xorKey k0 k1 k2 k3 (i + l.length) m := by
  induction l generalizing i with
  | nil => simp [xorKey]
  | cons b t ih => simp [xorKey, ih, Nat.add_assoc, Nat.add_comm 1]

theorem xorKey_invol (k0 k1 k2 k3 : UInt8) (i : Nat) (l : List UInt8) :
    xorKey k0 k1 k2 k3 i (xorKey k0 k1 k2 k3 i l) = l := by
  induction l generalizing i with
  | nil => rfl
  | cons b t ih => simp [xorKey, ih, UInt8.xor_assoc]

theorem xorWordsAux_eq (k0 k1 k2 k3 : UInt8) (n : Nat) (mem acc : List UInt8) (i : Nat)
    (hi : i % 4 = 0) (hlen : 4 * n ≤ mem.length) :
    xorWordsAux (leWord k0 k1 k2 k3) n mem acc
      = some (acc.reverse ++ xorKey k0 k1 k2 k3 i (mem.take (4 * n)) ++ mem.drop (4 * n)) := by
  induction n generalizing mem acc i with
  | zero => simp [xorWordsAux, xorKey, List.reverseAux_eq]
  | succ n ih =>
    match mem, hlen with
    | a :: b :: c :: d :: t, hlen =>
      have hl : 4 * n ≤ t.length := by simp at hlen; omega
      rw [xorWordsAux, pushWord_xor, ih t _ (i + 4) (by omega) hl]
      have : 4 * (n + 1) = 4 * n + 4 := by omega
      rw [this]
      simp only [List.take_succ_cons, List.drop_succ_cons, xorKey_four _ _ _ _ _ _ _ _ i hi]
      simp
    | [], hlen => simp at hlen <;> omega
    | [_], hlen => simp at hlen <;> omega
    | [_, _], hlen => simp at hlen <;> omega
    | [_, _, _], hlen => simp at hlen <;> omega

theorem xorWordsAux_isSome (m n : Nat) (mem acc : List UInt8) (hlen : 4 * n ≤ mem.length) :
    (xorWordsAux m n mem acc).isSome = true := by
  induction n generalizing mem acc with
  | zero => simp [xorWordsAux]
  | succ n ih =>
    match mem, hlen with
    | a :: b :: c :: d :: t, hlen =>
      rw [xorWordsAux]; exact ih _ _ (by simp at hlen; omega)
    | [], hlen => simp at hlen <;> omega
    | [_], hlen => simp at hlen <;> omega
    | [_, _], hlen => simp at hlen <;> omega
    | [_, _, _], hlen => simp at hlen <;> omega

/-! ## integers on the wire -/

theorem be16_eq (n : Nat) : be16 n = Rfc6455.net16 n := by
  simp only [be16, Rfc6455.net16, byte_eq, Nat.shiftRight_eq_div_pow]
  rw [ofNat_mod, ofNat_mod]

theorem be64_eq (n : Nat) : be64 n = Rfc6455.net64 n := by
  simp only [be64, Rfc6455.net64, byte_eq, Nat.shiftRight_eq_div_pow, ofNat_mod]

theorem be32_eq (n : Nat) : be32 n = (Rfc6455.Key.ofValue n).bytes := by
  simp only [be32, Rfc6455.Key.ofValue, Rfc6455.Key.bytes, byte_eq, Nat.shiftRight_eq_div_pow, ofNat_mod]

theorem or128 (x : Nat) (h : x < 128) : 128 ||| x = 128 + x := by
  have := shl_or 1 x 7 (by omega)
  simpa using this

theorem and128 : ∀ x, x < 256 → (x &&& 128 != 0) = decide (128 ≤ x) := by decide +kernel

theorem and127 (x : Nat) : x &&& 127 = x % 128 := Nat.and_two_pow_sub_one_eq_mod x 7

theorem beVal_net16 (n : Nat) (h : n < 65536) : beVal (Rfc6455.net16 n) = n := by
  simp [beVal, Rfc6455.net16]; omega

theorem beVal_net64 (n : Nat) (h : n < 2 ^ 64) : beVal (Rfc6455.net64 n) = n := by
  simp [beVal, Rfc6455.net64]; omega

theorem beVal_key (k : Rfc6455.Key) : beVal k.bytes = k.value := by
  simp [beVal, Rfc6455.Key.bytes, Rfc6455.Key.value]; omega

theorem toInt32_small (n : Nat) (h : n ≤ 2147483632) : toInt32 n = (n : Int) := by
  unfold toInt32
  have : n % 2 ^ 32 = n := Nat.mod_eq_of_lt (by omega)
  simp only [this]
  rw [if_pos (by omega)]; rfl

theorem sendHeader_eq (isClient : Bool) (opcode len : Nat) (hop : opcode < 16) :
    sendHeader isClient opcode len = UInt8.ofNat (128 + opcode) :: Rfc6455.lengthField isClient len := by
  unfold sendHeader Rfc6455.lengthField
  simp only [finBit, maskBit, sendSmall, sendMedium, sendCode16, sendCode64, byte_eq, or128 opcode (by omega)]
  by_cases h1 : len < 126
  · have h1' : len ≤ 125 := by omega
    simp only [h1, h1', if_true]
    cases isClient
    · simp
    · simp [or128 len (by omega)]
  · have h1' : ¬ len ≤ 125 := by omega
    simp only [h1, h1', if_false]
    by_cases h2 : len < 65536
    · have h2' : len ≤ 65535 := by omega
      simp only [h2, h2', if_true, be16_eq]
      cases isClient <;> simp
    · have h2' : ¬ len ≤ 65535 := by omega
      simp only [h2, h2', if_false, be64_eq]
      cases isClient <;> simp

theorem and15' (x : Nat) : x &&& 15 = x % 16 := Nat.and_two_pow_sub_one_eq_mod x 4

/-! ## reading a header written by the RFC framer -/

/-- the header fields of a frame, as the mask-key reader sees them -/
def keyBytes : Option Rfc6455.Key → List UInt8
  | some k => k.bytes
  | none => []
def keyValue : Option Rfc6455.Key → Nat
  | some k => k.value
  | none => 0

theorem parseExt_b0 (fin : Bool) (opcode : Nat) (hop : opcode < 16) :
    ((UInt8.ofNat ((if fin then 128 else 0) + opcode)).toNat &&& recvFinBit != 0) = fin ∧
    (UInt8.ofNat ((if fin then 128 else 0) + opcode)).toNat &&& opMask = opcode := by
  have hlt : (if fin then 128 else 0) + opcode < 256 := by cases fin <;> simp <;> omega
  have e : (UInt8.ofNat ((if fin then 128 else 0) + opcode)).toNat = (if fin then 128 else 0) + opcode := by
    simp [Nat.mod_eq_of_lt hlt]
  rw [e]
  simp only [recvFinBit, opMask, and15', and128 _ hlt]
  cases fin <;> simp <;> omega

theorem parseExt_key (fin : Bool) (opcode : Nat) (len : Int) (key : Option Rfc6455.Key) (tail : List UInt8) :
    (if key.isSome then
      if (keyBytes key ++ tail).length < 4 then Hdr.close
      else Hdr.ok fin opcode true len (beVal ((keyBytes key ++ tail).take 4)) ((keyBytes key ++ tail).drop 4)
    else Hdr.ok fin opcode false len 0 (keyBytes key ++ tail))
    = Hdr.ok fin opcode key.isSome len (keyValue key) tail := by
  cases key with
  | none => simp [keyBytes, keyValue]
  | some k =>
    have : (keyBytes (some k) ++ tail) = k.k0 :: k.k1 :: k.k2 :: k.k3 :: tail := rfl
    rw [this]
    simp [keyValue, ← beVal_key, Rfc6455.Key.bytes]

theorem parseExt_frame (fin : Bool) (opcode : Nat) (hop : opcode < 16) (key : Option Rfc6455.Key)
    (n : Nat) (hn : n ≤ 2147483632) (tail : List UInt8) (b1 : UInt8) (ext : List UInt8)
    (hl : Rfc6455.lengthField key.isSome n = b1 :: ext) :
    parseExt (UInt8.ofNat ((if fin then 128 else 0) + opcode)) b1 (ext ++ keyBytes key ++ tail)
      = .ok fin opcode key.isSome (n : Int) (keyValue key) tail := by
  obtain ⟨hf, ho⟩ := parseExt_b0 fin opcode hop
  unfold parseExt
  simp only [hf, ho]
  unfold Rfc6455.lengthField at hl
  by_cases h1 : n ≤ 125
  · simp only [h1, if_true, List.cons.injEq] at hl
    obtain ⟨hb, he⟩ := hl
    subst he
    have hlt : (if key.isSome = true then 128 else 0) + n < 256 := by split <;> omega
    have e : b1.toNat = (if key.isSome = true then 128 else 0) + n := by
      rw [← hb]; simp [Nat.mod_eq_of_lt hlt]
    have hm : (b1.toNat &&& recvMaskBit != 0) = key.isSome := by
      rw [e]; simp only [recvMaskBit, and128 _ hlt]; cases key.isSome <;> simp <;> omega
    have h7 : b1.toNat &&& lenMask = n := by
      rw [e]; simp only [lenMask, and127]; split <;> omega
    simp only [hm, h7, recvCode16, recvCode64]
    rw [if_neg (by omega), if_neg (by omega)]
    simp only [List.nil_append]
    exact parseExt_key fin opcode n key tail
  · simp only [h1, if_false] at hl
    by_cases h2 : n ≤ 65535
    · simp only [h2, if_true, List.cons.injEq] at hl
      obtain ⟨hb, he⟩ := hl
      subst he
      have hlt : (if key.isSome = true then 128 else 0) + 126 < 256 := by split <;> omega
      have e : b1.toNat = (if key.isSome = true then 128 else 0) + 126 := by
        rw [← hb]; simp [Nat.mod_eq_of_lt hlt]
      have hm : (b1.toNat &&& recvMaskBit != 0) = key.isSome := by
        rw [e]; simp only [recvMaskBit, and128 _ hlt]; cases key.isSome <;> simp
      have h7 : b1.toNat &&& lenMask = 126 := by
        rw [e]; simp only [lenMask, and127]; split <;> omega
      simp only [hm, h7, recvCode16, if_true]
      have hx : Rfc6455.net16 n ++ keyBytes key ++ tail
          = UInt8.ofNat (n / 256 % 256) :: UInt8.ofNat (n % 256) :: (keyBytes key ++ tail) := by
        simp [Rfc6455.net16]
      rw [hx]
      have hv : beVal [UInt8.ofNat (n / 256 % 256), UInt8.ofNat (n % 256)] = n := beVal_net16 n (by omega)
      simp only [List.length_cons, List.take_succ_cons, List.take_zero, List.drop_succ_cons, List.drop_zero, hv]
      rw [if_neg (by omega)]
      exact parseExt_key fin opcode n key tail
    · simp only [h2, if_false, List.cons.injEq] at hl
      obtain ⟨hb, he⟩ := hl
      subst he
      have hlt : (if key.isSome = true then 128 else 0) + 127 < 256 := by split <;> omega
      have e : b1.toNat = (if key.isSome = true then 128 else 0) + 127 := by
        rw [← hb]; simp [Nat.mod_eq_of_lt hlt]
      have hm : (b1.toNat &&& recvMaskBit != 0) = key.isSome := by
        rw [e]; simp only [recvMaskBit, and128 _ hlt]; cases key.isSome <;> simp
      have h7 : b1.toNat &&& lenMask = 127 := by
        rw [e]; simp only [lenMask, and127]; split <;> omega
      simp only [hm, h7, recvCode16, recvCode64, if_true]
      rw [if_neg (by omega)]
      have hx : ∃ a0 a1 a2 a3 a4 a5 a6 a7, Rfc6455.net64 n = [a0, a1, a2, a3, a4, a5, a6, a7] := ⟨_, _, _, _, _, _, _, _, rfl⟩
      obtain ⟨a0, a1, a2, a3, a4, a5, a6, a7, ha⟩ := hx
      have hv : beVal [a0, a1, a2, a3, a4, a5, a6, a7] = n := by rw [← ha]; exact beVal_net64 n (by omega)
      rw [ha]
      simp only [List.cons_append, List.nil_append, List.length_cons, List.take_succ_cons, List.take_zero,
        List.drop_succ_cons, List.drop_zero, hv, recvMaxLen]
      rw [if_neg (by omega), if_neg (by omega), toInt32_small n hn]
      exact parseExt_key fin opcode n key tail

/-! ## RFC masking, whole frames, `send` -/

theorem zipIdx_xorKey (k : Rfc6455.Key) (i : Nat) (d : List UInt8) :
    (d.zipIdx i).map (fun p => p.1 ^^^ k.bytes.getD (p.2 % 4) 0) = xorKey k.k0 k.k1 k.k2 k.k3 i d := by
  induction d generalizing i with
  | nil => rfl
  | cons b t ih =>
    rw [List.zipIdx_cons, List.map_cons, ih, xorKey]
    rfl

theorem mask_eq_xorKey (k : Rfc6455.Key) (d : List UInt8) :
    Rfc6455.mask k d = xorKey k.k0 k.k1 k.k2 k.k3 0 d := zipIdx_xorKey k 0 d

theorem mask_length (k : Rfc6455.Key) (d : List UInt8) : (Rfc6455.mask k d).length = d.length := by
  rw [mask_eq_xorKey, xorKey_length]

theorem mask_invol (k : Rfc6455.Key) (d : List UInt8) : Rfc6455.mask k (Rfc6455.mask k d) = d := by
  rw [mask_eq_xorKey, mask_eq_xorKey, xorKey_invol]

theorem maskBuffer_isSome (m : Nat) (data slack : List UInt8) (hs : 4 ≤ slack.length) :
    (maskBuffer m data slack).isSome = true := by
  unfold maskBuffer xorWords
  simp only [Option.isSome_map]
  apply xorWordsAux_isSome
  simp only [maskPad, maskDiv, maskExtra, List.length_append, List.length_take]
  omega

theorem maskBuffer_eq (k : Rfc6455.Key) (data slack : List UInt8) (hs : 4 ≤ slack.length) :
    maskBuffer k.value data slack = some (Rfc6455.mask k data) := by
  unfold maskBuffer xorWords
  have hk : swap32 k.value = leWord k.k0 k.k1 k.k2 k.k3 := by
    rw [← beVal_key]; exact swap32_be ..
  simp only [hk, maskPad, maskDiv, maskExtra]
  rw [xorWordsAux_eq k.k0 k.k1 k.k2 k.k3 _ _ [] 0 rfl (by simp; omega)]
  simp only [Option.map_some, List.reverse_nil, List.nil_append, mask_eq_xorKey]
  congr 1
  have h1 : data.length ≤ (xorKey k.k0 k.k1 k.k2 k.k3 0 (List.take (4 * (data.length / 4 + 1)) (data ++ List.take 4 slack))).length := by
    simp [xorKey_length]; omega
  rw [List.take_append_of_le_length h1, xorKey_take, List.take_take]
  have : min data.length (4 * (data.length / 4 + 1)) = data.length := by omega
  rw [this, List.take_left']
  rfl

theorem lengthField_cons (m : Bool) (n : Nat) : ∃ b1 ext, Rfc6455.lengthField m n = b1 :: ext := by
  unfold Rfc6455.lengthField
  dsimp only
  split
  · exact ⟨_, _, rfl⟩
  · split <;> exact ⟨_, _, rfl⟩

/-- body of a frame after the length field -/
def bodyBytes (key : Option Rfc6455.Key) (payload : List UInt8) : List UInt8 :=
  match key with
  | some k => Rfc6455.mask k payload
  | none => payload

theorem frame_split (fin : Bool) (opcode : Nat) (key : Option Rfc6455.Key) (payload : List UInt8) :
    Rfc6455.frame fin opcode key payload
      = UInt8.ofNat ((if fin then 128 else 0) + opcode) :: (Rfc6455.lengthField key.isSome payload.length
          ++ keyBytes key ++ bodyBytes key payload) := by
  unfold Rfc6455.frame
  cases key <;> simp [keyBytes, bodyBytes]

theorem bodyBytes_length (key : Option Rfc6455.Key) (payload : List UInt8) :
    (bodyBytes key payload).length = payload.length := by
  cases key <;> simp [bodyBytes, mask_length]

theorem recvChunk_pos : 0 < recvChunk := by decide

/-- the growing payload loop: succeeds exactly when the announced bytes are there, and never asks for more
    memory than twice what has arrived plus the first step (nor more than the announced length) -/
theorem readPayload_spec : ∀ (fuel len got avail peak : Nat), got ≤ len → got ≤ avail → len - got < fuel →
    (readPayload fuel len got avail peak).1 = decide (len ≤ avail) ∧
    (readPayload fuel len got avail peak).2 ≤ max peak (min len (2 * avail + recvChunk)) ∧
    peak ≤ (readPayload fuel len got avail peak).2 := by
  intro fuel
  induction fuel with
  | zero => intro len got avail peak _ _ h; omega
  | succ fuel ih =>
    intro len got avail peak hgl hga hf
    have hpos := recvChunk_pos
    rw [readPayload]
    by_cases hlt : got < len
    · simp only [hlt, if_true]
      -- the step is positive and at most max(recvChunk, got)
      generalize hstep : (if got < recvChunk then recvChunk else got) = step
      have hs1 : 0 < step := by rw [← hstep]; split <;> omega
      have hs2 : step ≤ recvChunk ∨ step ≤ got := by rw [← hstep]; split <;> omega
      by_cases hc : len - got < step
      · simp only [hc, if_true]
        by_cases ha : avail < got + (len - got)
        · simp only [ha, if_true]
          refine ⟨by simp; omega, by omega, by omega⟩
        · simp only [ha, if_false]
          obtain ⟨h1, h2, h3⟩ := ih len (got + (len - got)) avail (max peak (got + (len - got))) (by omega) (by omega) (by omega)
          exact ⟨h1, by omega, by omega⟩
      · simp only [hc, if_false]
        by_cases ha : avail < got + step
        · simp only [ha, if_true]
          refine ⟨by simp; omega, by omega, by omega⟩
        · simp only [ha, if_false]
          obtain ⟨h1, h2, h3⟩ := ih len (got + step) avail (max peak (got + step)) (by omega) (by omega) (by omega)
          exact ⟨h1, by omega, by omega⟩
    · simp only [hlt, if_false]
      have : len = got := by omega
      refine ⟨by simp; omega, by omega, by omega⟩

theorem readPayload_ok (len avail : Nat) : (readPayload (len + 1) len 0 avail 0).1 = decide (len ≤ avail) :=
  (readPayload_spec (len + 1) len 0 avail 0 (by omega) (by omega) (by omega)).1

theorem readFrame_frame (fin : Bool) (opcode : Nat) (hop : opcode < 16) (key : Option Rfc6455.Key)
    (payload : List UInt8) (hlen : payload.length ≤ 2147483632) (rest : List UInt8) (msgLen : Nat)
    (hsum : opcode < 3 → msgLen + payload.length ≤ 2147483632) :
    readFrame msgLen (Rfc6455.frame fin opcode key payload ++ rest) = .ok fin opcode payload rest := by
  obtain ⟨b1, ext, hl⟩ := lengthField_cons key.isSome payload.length
  rw [frame_split, hl]
  simp only [List.cons_append, List.append_assoc]
  unfold readFrame
  have hp := parseExt_frame fin opcode hop key payload.length hlen (bodyBytes key payload ++ rest) b1 ext hl
  rw [← List.append_assoc ext] at *
  simp only [hp]
  have hc : ¬ (opcode < recvDataOps ∧ ((payload.length : Nat) : Int) > ((recvMaxMsg : Nat) : Int) - ((msgLen : Nat) : Int)) := by
    intro ⟨h1, h2⟩
    have := hsum h1
    simp only [recvMaxMsg] at h2
    omega
  simp only [hc, if_false, Int.toNat_natCast, List.length_append, bodyBytes_length, readPayload_ok]
  rw [if_neg (by simp)]
  have ht : List.take payload.length (bodyBytes key payload ++ rest) = bodyBytes key payload := by
    rw [← bodyBytes_length key payload]; exact List.take_left' rfl
  have hd : List.drop payload.length (bodyBytes key payload ++ rest) = rest := by
    rw [← bodyBytes_length key payload]; exact List.drop_left' rfl
  rw [ht, hd]
  cases key with
  | none => simp [bodyBytes]
  | some k =>
    simp only [Option.isSome_some, if_true, keyValue, bodyBytes]
    rw [maskBuffer_eq k _ zeroSlack (by decide), mask_invol]

theorem opcodeOf_lt (type : Nat) : opcodeOf type < 16 := by
  have hall : ∀ e ∈ opcodeTable, e.2 < 16 := by decide
  unfold opcodeOf
  split
  · next e h => exact hall e (List.mem_of_find?_eq_some h)
  · decide

theorem get_lt (r : Rng) : r.get.1 < 2 ^ 32 := by
  simp only [Rng.get]
  have := (r.getLong.1).toNat_lt
  rw [UInt64.toNat_shiftRight]
  simp [Nat.shiftRight_eq_div_pow]
  omega

theorem ofValue_value (m : Nat) (h : m < 2 ^ 32) : (Rfc6455.Key.ofValue m).value = m := by
  simp [Rfc6455.Key.ofValue, Rfc6455.Key.value]
  omega

theorem mask_zero (p : List UInt8) : Rfc6455.mask (Rfc6455.Key.ofValue 0) p = p := by
  rw [mask_eq_xorKey]
  have : ∀ i, xorKey (Rfc6455.Key.ofValue 0).k0 (Rfc6455.Key.ofValue 0).k1 (Rfc6455.Key.ofValue 0).k2 (Rfc6455.Key.ofValue 0).k3 i p = p := by
    induction p with
    | nil => intro i; rfl
    | cons b t ih =>
      intro i
      rw [xorKey, ih]
      have h4 : i % 4 < 4 := Nat.mod_lt _ (by omega)
      have : [(Rfc6455.Key.ofValue 0).k0, (Rfc6455.Key.ofValue 0).k1, (Rfc6455.Key.ofValue 0).k2, (Rfc6455.Key.ofValue 0).k3].getD (i % 4) 0 = 0 := by
        generalize i % 4 = j at h4
        match j, h4 with
        | 0, _ => rfl
        | 1, _ => rfl
        | 2, _ => rfl
        | 3, _ => rfl
      rw [this]; simp
  exact this 0

theorem sendFrame_server (rng : Rng) (type : Nat) (p : List UInt8) (hp : p ≠ []) :
    sendFrame false rng type p = some (Rfc6455.frame true (opcodeOf type) none p, rng) := by
  unfold sendFrame
  have : p.length ≠ 0 := fun h => hp (List.length_eq_zero_iff.mp h)
  simp only [this, if_false, sendHeader_eq false _ _ (opcodeOf_lt type)]
  simp [Rfc6455.frame]

theorem sendFrame_client (rng : Rng) (type : Nat) (p : List UInt8) (hp : p ≠ []) :
    sendFrame true rng type p
      = some (Rfc6455.frame true (opcodeOf type) (some (Rfc6455.Key.ofValue rng.get.1)) p, rng.get.2) := by
  unfold sendFrame
  have : p.length ≠ 0 := fun h => hp (List.length_eq_zero_iff.mp h)
  simp only [this, if_false, if_true, sendHeader_eq true _ _ (opcodeOf_lt type), be32_eq]
  by_cases h0 : rng.get.1 = 0
  · simp only [h0, ne_eq, not_true_eq_false, if_false]
    simp [Rfc6455.frame, mask_zero]
  · simp only [ne_eq, h0, not_false_eq_true, if_true]
    have hv := ofValue_value rng.get.1 (get_lt rng)
    have hm := maskBuffer_eq (Rfc6455.Key.ofValue rng.get.1) p zeroSlack (by decide)
    rw [hv] at hm
    rw [hm]
    simp [Rfc6455.frame]

/-! ## `receive()` frame by frame, then whole conversations -/

theorem sendFrame_isSome (ic : Bool) (rng : Rng) (t : Nat) (p : List UInt8) : (sendFrame ic rng t p).isSome = true := by
  by_cases hp : p = []
  · subst hp; simp [sendFrame]
  · cases ic
    · rw [sendFrame_server rng t p hp]; rfl
    · rw [sendFrame_client rng t p hp]; rfl

theorem frame_ne_nil (fin : Bool) (op : Nat) (key : Option Rfc6455.Key) (p : List UInt8) :
    Rfc6455.frame fin op key p ≠ [] := by
  simp [Rfc6455.frame]

/-- a connection on which `receive()` can still work -/
structure Live (c : Conn) : Prop where
  open_ : c.closed = false
  sound : c.fault = false

theorem isClosed_frame (c : Conn) (hc : Live c) (f rest : List UInt8) (hf : f ≠ []) (hi : c.inp = f ++ rest) :
    c.isClosed = false := by
  unfold Conn.isClosed
  rw [hc.open_, hi]
  cases f with
  | nil => exact absurd rfl hf
  | cons a t => rfl

/-- a final data frame completes the message -/
theorem recv_data_fin (fuel : Nat) (c : Conn) (hc : Live c) (msg : List UInt8) (pm : Bool)
    (op : Nat) (hop : op ≤ 2) (key : Option Rfc6455.Key) (p rest : List UInt8) (hl : p.length ≤ 2147483632)
    (hsum : msg.length + p.length ≤ 2147483632)
    (hi : c.inp = Rfc6455.frame true op key p ++ rest) :
    recvLoop (fuel + 1) c msg pm = (msg ++ p, { c with inp := rest }) := by
  rw [recvLoop, isClosed_frame c hc _ rest (frame_ne_nil true op key p) hi, hi,
    readFrame_frame true op (by omega) key p hl rest msg.length (fun _ => hsum)]
  simp [hop]

/-- a non-final data frame is appended and the loop goes on, now inside a fragmented message -/
theorem recv_data_more (fuel : Nat) (c : Conn) (hc : Live c) (msg : List UInt8) (pm : Bool)
    (op : Nat) (hop : op ≤ 2) (key : Option Rfc6455.Key) (p rest : List UInt8) (hl : p.length ≤ 2147483632)
    (hsum : msg.length + p.length ≤ 2147483632)
    (hi : c.inp = Rfc6455.frame false op key p ++ rest) :
    recvLoop (fuel + 1) c msg pm = recvLoop fuel { c with inp := rest } (msg ++ p) true := by
  rw [recvLoop, isClosed_frame c hc _ rest (frame_ne_nil false op key p) hi, hi,
    readFrame_frame false op (by omega) key p hl rest msg.length (fun _ => hsum)]
  simp [hop]

/-- the connection after a ping/pong frame: input advanced, a pong possibly written -/
def afterCtl (c : Conn) (pong : Bool) (p rest : List UInt8) : Conn :=
  if pong then { c with inp := rest }
  else match sendFrame c.isClient c.rng 10 p with
    | some (bytes, rng) => { c with inp := rest, out := c.out ++ bytes, rng := rng }
    | none => { c with inp := rest, fault := true }

theorem afterCtl_props (c : Conn) (hc : Live c) (pong : Bool) (p rest : List UInt8) :
    Live (afterCtl c pong p rest) ∧ (afterCtl c pong p rest).inp = rest ∧ (afterCtl c pong p rest).isClient = c.isClient := by
  unfold afterCtl
  cases pong
  · have h := sendFrame_isSome c.isClient c.rng 10 p
    match hs : sendFrame c.isClient c.rng 10 p with
    | some (bytes, rng) => simp; exact ⟨hc.open_, hc.sound⟩
    | none => rw [hs] at h; simp at h
  · simp; exact ⟨hc.open_, hc.sound⟩

theorem recv_ctl (fuel : Nat) (c : Conn) (hc : Live c) (msg : List UInt8) (pm : Bool)
    (x : Rfc6455.Ctl) (rest : List UInt8) (hl : x.payload.length ≤ 2147483632)
    (hi : c.inp = x.bytes ++ rest) :
    recvLoop (fuel + 1) c msg pm =
      if pm then recvLoop fuel (afterCtl c x.pong x.payload rest) msg true else (msg, afterCtl c x.pong x.payload rest) := by
  unfold Rfc6455.Ctl.bytes at hi
  rw [recvLoop, isClosed_frame c hc _ rest (frame_ne_nil true _ x.key x.payload) hi, hi,
    readFrame_frame true _ (by cases x.pong <;> decide) x.key x.payload hl rest msg.length
      (fun h => by cases hx : x.pong <;> simp [hx, Rfc6455.opPing, Rfc6455.opPong] at h)]
  unfold afterCtl
  cases hx : x.pong
  · simp only [Rfc6455.opPing, Bool.false_eq_true, if_false]
    have h := sendFrame_isSome c.isClient c.rng 10 x.payload
    match hs : sendFrame c.isClient c.rng 10 x.payload with
    | some (bytes, rng) => cases pm <;> simp
    | none => rw [hs] at h; simp at h
  · simp only [Rfc6455.opPong, if_true]
    cases pm <;> simp

/-- payload sizes the library can hold in an `int`-indexed array (its 64-bit length limit) -/
def Fits (p : List UInt8) : Prop := p.length ≤ 2147483632

def CtlsFit (cs : List Rfc6455.Ctl) : Prop := ∀ x ∈ cs, Fits x.payload
def FragFits (f : Rfc6455.Frag) : Prop := Fits f.payload ∧ CtlsFit f.before
/-- every frame fits, and so does the reassembled message (the library's limit on `msg`) -/
def MsgFits (m : Rfc6455.Msg) : Prop := FragFits m.first ∧ (∀ f ∈ m.more, FragFits f) ∧ Fits m.payload

theorem frame_length_ge (fin : Bool) (op : Nat) (key : Option Rfc6455.Key) (p : List UInt8) :
    2 ≤ (Rfc6455.frame fin op key p).length := by
  obtain ⟨b1, ext, hl⟩ := lengthField_cons key.isSome p.length
  rw [frame_split, hl]; simp

theorem ctlBytes_cons (x : Rfc6455.Ctl) (cs : List Rfc6455.Ctl) :
    Rfc6455.ctlBytes (x :: cs) = x.bytes ++ Rfc6455.ctlBytes cs := by
  simp [Rfc6455.ctlBytes]

theorem ctlBytes_length (cs : List Rfc6455.Ctl) : cs.length ≤ (Rfc6455.ctlBytes cs).length := by
  induction cs with
  | nil => simp
  | cons x cs ih =>
    rw [ctlBytes_cons, List.length_append, List.length_cons]
    have := frame_length_ge true (if x.pong then Rfc6455.opPong else Rfc6455.opPing) x.key x.payload
    unfold Rfc6455.Ctl.bytes; omega

/-- control frames inside a fragmented message: skipped (pings answered), the message goes on -/
theorem recv_ctls_partial (cs : List Rfc6455.Ctl) : ∀ (fuel : Nat) (c : Conn) (msg rest : List UInt8),
    Live c → CtlsFit cs → rest ≠ [] → c.inp = Rfc6455.ctlBytes cs ++ rest →
    ∃ c', Live c' ∧ c'.inp = rest ∧ c'.isClient = c.isClient ∧
      recvLoop (fuel + cs.length) c msg true = recvLoop fuel c' msg true := by
  induction cs with
  | nil =>
    intro fuel c msg rest hc _ _ hi
    exact ⟨c, hc, by simpa [Rfc6455.ctlBytes] using hi, rfl, rfl⟩
  | cons x cs ih =>
    intro fuel c msg rest hc hf hr hi
    rw [ctlBytes_cons, List.append_assoc] at hi
    have hx : Fits x.payload := hf x (List.mem_cons_self ..)
    have hne : Rfc6455.ctlBytes cs ++ rest ≠ [] := by simp [hr]
    have hstep := recv_ctl (fuel + cs.length) c hc msg true x _ hx hi
    obtain ⟨hl, hin, hcl⟩ := afterCtl_props c hc x.pong x.payload (Rfc6455.ctlBytes cs ++ rest)
    obtain ⟨c', h1, h2, h3, h4⟩ := ih fuel _ msg rest hl (fun y hy => hf y (List.mem_cons_of_mem _ hy)) hr hin
    refine ⟨c', h1, h2, h3.trans hcl, ?_⟩
    rw [List.length_cons, ← Nat.add_assoc, hstep]
    simpa using h4

/-- number of frames of the continuation part -/
def moreSize : List Rfc6455.Frag → Nat
  | [] => 0
  | f :: t => f.before.length + 1 + moreSize t

theorem moreSize_le (t : List Rfc6455.Frag) : moreSize t ≤ (Rfc6455.moreBytes t).length := by
  induction t with
  | nil => simp [moreSize]
  | cons f t ih =>
    simp only [moreSize, Rfc6455.moreBytes, List.length_append]
    have := ctlBytes_length f.before
    have := frame_length_ge t.isEmpty Rfc6455.opCont f.key f.payload
    omega

theorem moreBytes_ne_nil (t : List Rfc6455.Frag) (h : t ≠ []) : Rfc6455.moreBytes t ≠ [] := by
  cases t with
  | nil => exact absurd rfl h
  | cons f t =>
    intro h0
    have := congrArg List.length h0
    simp only [Rfc6455.moreBytes, List.length_append, List.length_nil] at this
    have := frame_length_ge t.isEmpty Rfc6455.opCont f.key f.payload
    omega

/-- the continuation frames of a message, with control frames anywhere between them -/
theorem recv_more (t : List Rfc6455.Frag) : ∀ (fuel : Nat) (c : Conn) (msg rest : List UInt8),
    t ≠ [] → Live c → (∀ f ∈ t, FragFits f) → msg.length + (t.flatMap (·.payload)).length ≤ 2147483632 →
    c.inp = Rfc6455.moreBytes t ++ rest →
    ∃ c', c'.fault = false ∧ c'.inp = rest ∧ (c'.closed = true → rest = []) ∧ c'.isClient = c.isClient ∧
      recvLoop (fuel + moreSize t) c msg true = (msg ++ t.flatMap (·.payload), c') := by
  induction t with
  | nil => intro _ _ _ _ h; exact absurd rfl h
  | cons f t ih =>
    intro fuel c msg rest _ hc hf htot hi
    have hff : FragFits f := hf f (List.mem_cons_self ..)
    have hsum : msg.length + f.payload.length ≤ 2147483632 := by
      simp only [List.flatMap_cons, List.length_append] at htot; omega
    simp only [Rfc6455.moreBytes, List.append_assoc] at hi
    have hne1 : Rfc6455.frame t.isEmpty Rfc6455.opCont f.key f.payload ++ (Rfc6455.moreBytes t ++ rest) ≠ [] := by
      simp [frame_ne_nil]
    obtain ⟨c1, hl1, hi1, hc1, hr1⟩ := recv_ctls_partial f.before (fuel + moreSize t + 1) c msg _ hc hff.2 hne1 hi
    have hfuel : fuel + moreSize (f :: t) = fuel + moreSize t + 1 + f.before.length := by simp [moreSize]; omega
    rw [hfuel, hr1]
    cases t with
    | nil =>
      simp only [List.isEmpty_nil, Rfc6455.moreBytes, List.nil_append] at hi1
      simp only [moreSize, Nat.add_zero, List.flatMap_cons, List.flatMap_nil, List.append_nil]
      rw [recv_data_fin fuel c1 hl1 msg true Rfc6455.opCont (by decide) f.key f.payload rest hff.1 hsum hi1]
      exact ⟨{ c1 with inp := rest }, hl1.sound, rfl, fun h => by simp [hl1.open_] at h, hc1, rfl⟩
    | cons g t =>
      simp only [List.isEmpty_cons] at hi1
      have hne2 : Rfc6455.moreBytes (g :: t) ++ rest ≠ [] := by
        simp [moreBytes_ne_nil (g :: t) (by simp)]
      rw [recv_data_more (fuel + moreSize (g :: t)) c1 hl1 msg true Rfc6455.opCont (by decide) f.key f.payload _ hff.1
        hsum hi1]
      obtain ⟨c', h1, h2, h3, h4, h5⟩ := ih fuel { c1 with inp := Rfc6455.moreBytes (g :: t) ++ rest } (msg ++ f.payload) rest
        (by simp) ⟨hl1.open_, hl1.sound⟩ (fun y hy => hf y (List.mem_cons_of_mem _ hy))
        (by simp only [List.flatMap_cons, List.length_append] at htot ⊢; omega) rfl
      refine ⟨c', h1, h2, h3, h4.trans hc1, ?_⟩
      rw [h5]; simp

def msgOp (m : Rfc6455.Msg) : Nat := if m.binary then Rfc6455.opBinary else Rfc6455.opText

/-- the data frames of one message, read by a single `receive()` -/
theorem receive_body (m : Rfc6455.Msg) (c : Conn) (rest : List UInt8) (hc : Live c)
    (hf : Fits m.first.payload) (hm : ∀ f ∈ m.more, FragFits f) (htot : Fits m.payload)
    (hi : c.inp = Rfc6455.frame m.more.isEmpty (msgOp m) m.first.key m.first.payload ++ (Rfc6455.moreBytes m.more ++ rest)) :
    ∃ c', c'.fault = false ∧ c'.inp = rest ∧ (c'.closed = true → rest = []) ∧ c'.isClient = c.isClient ∧
      receive c = (m.payload, c') := by
  have hop : msgOp m ≤ 2 := by unfold msgOp; split <;> decide
  have hf0 : ([] : List UInt8).length + m.first.payload.length ≤ 2147483632 := by
    have : m.first.payload.length ≤ 2147483632 := hf
    simpa using this
  unfold Fits Rfc6455.Msg.payload at htot
  unfold receive Rfc6455.Msg.payload
  cases hmore : m.more with
  | nil =>
    rw [hmore] at hi
    simp only [List.isEmpty_nil, Rfc6455.moreBytes, List.nil_append] at hi
    simp only [List.flatMap_nil, List.append_nil]
    rw [recv_data_fin _ c hc [] false (msgOp m) hop m.first.key m.first.payload rest hf hf0 hi]
    exact ⟨{ c with inp := rest }, hc.sound, rfl, fun h => by simp [hc.open_] at h, rfl, by simp⟩
  | cons g t =>
    rw [hmore] at hi hm htot
    simp only [List.isEmpty_cons] at hi
    have hne2 : Rfc6455.moreBytes (g :: t) ++ rest ≠ [] := by
      simp [moreBytes_ne_nil (g :: t) (by simp)]
    have hlen : moreSize (g :: t) ≤ c.inp.length := by
      rw [hi]; simp only [List.length_append]
      have := moreSize_le (g :: t); omega
    obtain ⟨fuel, hfu⟩ : ∃ fuel, c.inp.length = fuel + moreSize (g :: t) := ⟨c.inp.length - moreSize (g :: t), by omega⟩
    rw [recv_data_more c.inp.length c hc [] false (msgOp m) hop m.first.key m.first.payload _ hf hf0 hi, hfu]
    obtain ⟨c', h1, h2, h3, h4, h5⟩ := recv_more (g :: t) fuel { c with inp := Rfc6455.moreBytes (g :: t) ++ rest } ([] ++ m.first.payload) rest
      (by simp) ⟨hc.open_, hc.sound⟩ hm (by simp only [List.length_append] at htot ⊢; simpa using htot) rfl
    exact ⟨c', h1, h2, h3, h4, by rw [h5]; simp⟩

/-- control frames between messages: each ends one `receive()` with an empty result -/
theorem receiveAll_ctls (cs : List Rfc6455.Ctl) : ∀ (fuel : Nat) (c : Conn) (acc : List (List UInt8)) (rest : List UInt8),
    Live c → CtlsFit cs → rest ≠ [] → c.inp = Rfc6455.ctlBytes cs ++ rest →
    ∃ c', Live c' ∧ c'.inp = rest ∧ c'.isClient = c.isClient ∧
      receiveAll (fuel + cs.length) c acc = receiveAll fuel c' (List.replicate cs.length [] ++ acc) := by
  induction cs with
  | nil =>
    intro fuel c acc rest hc _ _ hi
    exact ⟨c, hc, by simpa [Rfc6455.ctlBytes] using hi, rfl, by simp⟩
  | cons x cs ih =>
    intro fuel c acc rest hc hf hr hi
    rw [ctlBytes_cons, List.append_assoc] at hi
    have hx : Fits x.payload := hf x (List.mem_cons_self ..)
    have hne : Rfc6455.ctlBytes cs ++ rest ≠ [] := by simp [hr]
    have hcl : c.isClosed = false := by
      unfold Rfc6455.Ctl.bytes at hi
      exact isClosed_frame c hc _ _ (frame_ne_nil true _ x.key x.payload) hi
    have hstep : receive c = ([], afterCtl c x.pong x.payload (Rfc6455.ctlBytes cs ++ rest)) := by
      unfold receive
      rw [recv_ctl _ c hc [] false x _ hx hi]; simp
    obtain ⟨hl, hin, hcc⟩ := afterCtl_props c hc x.pong x.payload (Rfc6455.ctlBytes cs ++ rest)
    obtain ⟨c', h1, h2, h3, h4⟩ := ih fuel _ ([] :: acc) rest hl (fun y hy => hf y (List.mem_cons_of_mem _ hy)) hr hin
    refine ⟨c', h1, h2, h3.trans hcc, ?_⟩
    rw [List.length_cons, ← Nat.add_assoc, receiveAll, hcl]
    simp only [Bool.false_eq_true, if_false, hstep, h4]
    congr 1
    simp [List.replicate_succ']

/-- a connection between two `receive()` calls: sound, and if already closed then fully read -/
structure Ok (c : Conn) : Prop where
  sound : c.fault = false
  done : c.closed = true → c.inp = []

theorem Ok.live {c : Conn} (h : Ok c) (hi : c.inp ≠ []) : Live c :=
  ⟨by cases hc : c.closed with
      | false => rfl
      | true => exact absurd (h.done hc) hi, h.sound⟩

theorem ctl_bytes_ne_nil (x : Rfc6455.Ctl) : x.bytes ≠ [] := frame_ne_nil true _ x.key x.payload

theorem filter_replicate_nil (k : Nat) : (List.replicate k ([] : List UInt8)).filter (· ≠ []) = [] := by
  induction k with
  | zero => rfl
  | succ k ih => simp [List.replicate_succ]

/-- control frames at the very end of the stream -/
theorem receiveAll_trailing (cs : List Rfc6455.Ctl) : ∀ (fuel : Nat) (c : Conn) (acc : List (List UInt8)),
    Ok c → CtlsFit cs → c.inp = Rfc6455.ctlBytes cs →
    ∃ c', receiveAll (fuel + cs.length + 1) c acc = ((List.replicate cs.length [] ++ acc).reverse, c') ∧
      c'.closed = true ∧ c'.fault = false := by
  induction cs with
  | nil =>
    intro fuel c acc hc _ hi
    have : c.isClosed = true := by simp [Conn.isClosed, hi, Rfc6455.ctlBytes]
    refine ⟨{ c with closed := true }, ?_, rfl, hc.sound⟩
    rw [List.length_nil, Nat.add_zero, receiveAll, this]; simp
  | cons x cs ih =>
    intro fuel c acc hc hf hi
    rw [ctlBytes_cons] at hi
    have hl : Live c := hc.live (by rw [hi]; simp [ctl_bytes_ne_nil])
    have hx : Fits x.payload := hf x (List.mem_cons_self ..)
    have hcl : c.isClosed = false := isClosed_frame c hl _ _ (ctl_bytes_ne_nil x) hi
    have hfu : fuel + (x :: cs).length + 1 = (fuel + cs.length + 1) + 1 := by simp; omega
    rw [hfu, receiveAll, hcl]
    simp only [Bool.false_eq_true, if_false]
    have hstep : receive c = ([], afterCtl c x.pong x.payload (Rfc6455.ctlBytes cs)) := by
      unfold receive
      rw [recv_ctl _ c hl [] false x _ hx hi]; simp
    obtain ⟨hl', hin, _⟩ := afterCtl_props c hl x.pong x.payload (Rfc6455.ctlBytes cs)
    obtain ⟨c', h1, h2, h3⟩ := ih fuel _ ([] :: acc) ⟨hl'.sound, fun h => by simp [hl'.open_] at h⟩
      (fun y hy => hf y (List.mem_cons_of_mem _ hy)) hin
    refine ⟨c', ?_, h2, h3⟩
    simp only [hstep, h1]
    simp [List.replicate_succ']

theorem msg_bytes_ne_nil (m : Rfc6455.Msg) : m.bytes ≠ [] := by
  unfold Rfc6455.Msg.bytes
  simp [frame_ne_nil]

theorem wire_cons (m : Rfc6455.Msg) (ms : List Rfc6455.Msg) (tr : List Rfc6455.Ctl) :
    Rfc6455.wire (m :: ms) tr = m.bytes ++ Rfc6455.wire ms tr := by
  simp [Rfc6455.wire]

/-- the whole conversation: every message once, in order, whole; empty results only from control frames -/
theorem receiveAll_wire (ms : List Rfc6455.Msg) : ∀ (tr : List Rfc6455.Ctl) (fuel : Nat) (c : Conn) (acc : List (List UInt8)),
    Ok c → (∀ m ∈ ms, MsgFits m) → CtlsFit tr → c.inp = Rfc6455.wire ms tr → c.inp.length < fuel →
    ∃ extra c', receiveAll fuel c acc = (acc.reverse ++ extra, c') ∧
      extra.filter (· ≠ []) = (ms.map (·.payload)).filter (· ≠ []) ∧ c'.closed = true ∧ c'.fault = false := by
  induction ms with
  | nil =>
    intro tr fuel c acc hc _ hf hi hfu
    simp only [Rfc6455.wire, List.flatMap_nil, List.nil_append] at hi
    have hlen := ctlBytes_length tr
    obtain ⟨f0, hf0⟩ : ∃ f0, fuel = f0 + tr.length + 1 := ⟨fuel - tr.length - 1, by rw [hi] at hfu; omega⟩
    obtain ⟨c', h1, h2, h3⟩ := receiveAll_trailing tr f0 c acc hc hf hi
    refine ⟨List.replicate tr.length [], c', ?_, ?_, h2, h3⟩
    · rw [hf0, h1]; simp
    · simp
  | cons m ms ih =>
    intro tr fuel c acc hc hm hf hi hfu
    have hmf : MsgFits m := hm m (List.mem_cons_self ..)
    rw [wire_cons] at hi
    have hl : Live c := hc.live (by rw [hi]; simp [msg_bytes_ne_nil])
    unfold Rfc6455.Msg.bytes at hi
    simp only [List.append_assoc] at hi
    -- sizes
    have hb := ctlBytes_length m.first.before
    have hfr := frame_length_ge m.more.isEmpty (msgOp m) m.first.key m.first.payload
    have hilen : c.inp.length = (Rfc6455.ctlBytes m.first.before).length +
        ((Rfc6455.frame m.more.isEmpty (msgOp m) m.first.key m.first.payload).length +
          ((Rfc6455.moreBytes m.more).length + (Rfc6455.wire ms tr).length)) := by
      rw [hi]; simp [msgOp]
    obtain ⟨f2, hf2⟩ : ∃ f2, fuel = (f2 + 1) + m.first.before.length := ⟨fuel - m.first.before.length - 1, by omega⟩
    have hne1 : Rfc6455.frame m.more.isEmpty (msgOp m) m.first.key m.first.payload ++ (Rfc6455.moreBytes m.more ++ Rfc6455.wire ms tr) ≠ [] := by
      simp [frame_ne_nil]
    obtain ⟨c1, hl1, hi1, _, hr1⟩ := receiveAll_ctls m.first.before (f2 + 1) c acc _ hl hmf.1.2 hne1 hi
    obtain ⟨c2, hs2, hi2, hd2, _, hr2⟩ := receive_body m c1 (Rfc6455.wire ms tr) hl1 hmf.1.1 hmf.2.1 hmf.2.2 hi1
    have hcl1 : c1.isClosed = false := isClosed_frame c1 hl1 _ _ (frame_ne_nil _ (msgOp m) m.first.key m.first.payload) hi1
    obtain ⟨extra, c', h1, h2, h3, h4⟩ := ih tr f2 c2 (m.payload :: (List.replicate m.first.before.length [] ++ acc))
      ⟨hs2, fun h => by rw [hi2]; exact hd2 h⟩ (fun y hy => hm y (List.mem_cons_of_mem _ hy)) hf hi2 (by rw [hi2]; omega)
    refine ⟨List.replicate m.first.before.length [] ++ [m.payload] ++ extra, c', ?_, ?_, h3, h4⟩
    · rw [hf2, hr1, receiveAll, hcl1]
      simp only [Bool.false_eq_true, if_false, hr2, h1]
      simp
    · simp only [List.filter_append, filter_replicate_nil, List.nil_append, List.map_cons, h2]
      by_cases hp : m.payload = [] <;> simp [hp]

/-! ## arbitrary (hostile) input -/

/-- what `parseExt` returns is a suffix of what it was given, and the length it reports is the declared
    one, non-negative and at most 2 GiB − 16 (so `len + 4` still fits an `int`) -/
theorem parseExt_ok (b0 mlen : UInt8) (inp : List UInt8) (fin : Bool) (op : Nat) (masked : Bool) (len : Int)
    (mask : Nat) (rest : List UInt8) (h : parseExt b0 mlen inp = .ok fin op masked len mask rest) :
    0 ≤ len ∧ len ≤ 2147483632 ∧ rest.length ≤ inp.length ∧
      len = (let l7 := mlen.toNat &&& lenMask
             if l7 = recvCode16 then (beVal (inp.take 2) : Int) else if l7 = recvCode64 then (beVal (inp.take 8) : Int) else (l7 : Int)) := by
  unfold parseExt at h
  simp only at h
  have hl7 : mlen.toNat &&& lenMask < 128 := by
    simp only [lenMask, and127]; omega
  split at h
  · exact absurd h (by simp)
  · next len' inp' hext =>
    have hrest : rest.length ≤ inp'.length ∧ len = len' := by
      split at h
      · split at h
        · exact absurd h (by simp)
        · simp only [Hdr.ok.injEq] at h
          obtain ⟨_, _, _, hl, _, hr⟩ := h
          rw [← hr]; simp; omega
      · simp only [Hdr.ok.injEq] at h
        obtain ⟨_, _, _, hl, _, hr⟩ := h
        rw [← hr]; simp; omega
    obtain ⟨hr, hlen⟩ := hrest
    subst hlen
    split at hext
    · next h16 =>
      split at hext
      · exact absurd hext (by simp)
      · simp only [Option.some.injEq, Prod.mk.injEq] at hext
        obtain ⟨hl, hi⟩ := hext
        subst hl hi
        have hb : beVal (inp.take 2) < 65536 := by
          match inp with
          | [] => simp [beVal]
          | [a] => have := a.toNat_lt; simp [beVal]; omega
          | a :: b :: t => have := a.toNat_lt; have := b.toNat_lt; simp [beVal]; omega
        simp only [h16, if_true]
        refine ⟨by omega, by omega, by simp at hr ⊢; omega, trivial⟩
    · next h16 =>
      split at hext
      · next h64 =>
        split at hext
        · exact absurd hext (by simp)
        · split at hext
          · exact absurd hext (by simp)
          · next hbad =>
            simp only [Option.some.injEq, Prod.mk.injEq] at hext
            obtain ⟨hl, hi⟩ := hext
            subst hl hi
            simp only [recvMaxLen] at hbad
            have hv : beVal (inp.take 8) ≤ 2147483632 := by omega
            rw [toInt32_small _ hv]
            simp only [h16, h64, if_true, if_false]
            refine ⟨by omega, by omega, by simp at hr ⊢; omega, rfl⟩
      · next h64 =>
        simp only [Option.some.injEq, Prod.mk.injEq] at hext
        obtain ⟨hl, hi⟩ := hext
        subst hl hi
        simp only [h16, h64, if_false]
        refine ⟨by omega, by omega, hr, trivial⟩

theorem readFrame_no_fault (msgLen : Nat) (inp : List UInt8) : readFrame msgLen inp ≠ .fault := by
  unfold readFrame
  split
  · simp
  · simp
  · split
    · simp
    · next fin opcode masked len mask rest _ =>
      simp only
      split
      · simp
      · split
        · simp
        · cases masked
          · simp
          · simp only [if_true]
            have := maskBuffer_isSome mask (List.take len.toNat rest) zeroSlack (by decide)
            match hm : maskBuffer mask (List.take len.toNat rest) zeroSlack with
            | some b => simp
            | none => rw [hm] at this; simp at this

theorem xorWordsAux_length (m : Nat) : ∀ (n : Nat) (mem acc r : List UInt8),
    xorWordsAux m n mem acc = some r → r.length = acc.length + mem.length := by
  intro n
  induction n with
  | zero => intro mem acc r h; simp [xorWordsAux, List.reverseAux_eq] at h; rw [← h]; simp
  | succ n ih =>
    intro mem acc r h
    match mem, h with
    | a :: b :: c :: d :: t, h =>
      rw [xorWordsAux] at h
      have := ih _ _ _ h
      simp [pushWord] at this ⊢; omega
    | [], h => simp [xorWordsAux] at h
    | [_], h => simp [xorWordsAux] at h
    | [_, _], h => simp [xorWordsAux] at h
    | [_, _, _], h => simp [xorWordsAux] at h

theorem maskBuffer_length (m : Nat) (data slack b : List UInt8) (h : maskBuffer m data slack = some b) :
    b.length = data.length := by
  unfold maskBuffer xorWords at h
  simp only [Option.map_eq_some_iff] at h
  obtain ⟨r, hr, hb⟩ := h
  have := xorWordsAux_length _ _ _ _ _ hr
  rw [← hb]; simp [this]

/-- what the frame reader hands on: a suffix of the input, a buffer that fits an `int`-indexed array, and
    — for data frames — one that still fits after being appended to the `msgLen` bytes already there -/
theorem readFrame_ok_props (msgLen : Nat) (inp : List UInt8) (fin : Bool) (op : Nat) (buf rest : List UInt8)
    (h : readFrame msgLen inp = .ok fin op buf rest) :
    rest.length + 2 ≤ inp.length ∧ buf.length ≤ 2147483632 ∧ (op < 3 → msgLen + buf.length ≤ 2147483632) := by
  unfold readFrame at h
  split at h
  · simp at h
  · simp at h
  · next b0 mlen r =>
    split at h
    · simp at h
    · next fin' opcode masked len mask rest' hp =>
      obtain ⟨h0, hmax, hr, _⟩ := parseExt_ok b0 mlen r fin' opcode masked len mask rest' hp
      simp only at h
      split at h
      · simp at h
      · next hsum =>
        split at h
        · simp at h
        · next hpay =>
          have hn : len.toNat ≤ rest'.length := by
            rw [readPayload_ok] at hpay; simpa using hpay
          split at h
          · simp at h
          · next b hb =>
            simp only [Frame.ok.injEq] at h
            obtain ⟨_, hop, hbuf, hrest⟩ := h
            have hblen : b.length = len.toNat := by
              cases masked
              · simp only [Bool.false_eq_true, if_false, Option.some.injEq] at hb
                rw [← hb]; simp; omega
              · simp only [if_true] at hb
                rw [maskBuffer_length _ _ _ _ hb]; simp; omega
            subst hop hbuf hrest
            refine ⟨by simp; omega, by omega, fun h3 => ?_⟩
            simp only [recvDataOps, recvMaxMsg, not_and, Int.not_lt] at hsum
            have := hsum h3
            omega

theorem readFrame_ok_shorter (msgLen : Nat) (inp : List UInt8) (fin : Bool) (op : Nat) (buf rest : List UInt8)
    (h : readFrame msgLen inp = .ok fin op buf rest) : rest.length + 2 ≤ inp.length :=
  (readFrame_ok_props msgLen inp fin op buf rest h).1

/-- one `receive()` on any input: no fault, nothing is un-read, and it either closes or consumes input -/
theorem recvLoop_progress : ∀ (fuel : Nat) (c : Conn) (msg : List UInt8) (pm : Bool), c.fault = false →
    (recvLoop fuel c msg pm).2.fault = false ∧ (recvLoop fuel c msg pm).2.inp.length ≤ c.inp.length ∧
    (0 < fuel → (recvLoop fuel c msg pm).2.closed = true ∨ (recvLoop fuel c msg pm).2.inp.length < c.inp.length) := by
  intro fuel
  induction fuel with
  | zero => intro c msg pm hf; simp [recvLoop, hf]
  | succ fuel ih =>
    intro c msg pm hf
    rw [recvLoop]
    split
    · simp [hf]
    · split
      · simp [hf]
      · next hrf => exact absurd hrf (readFrame_no_fault _ _)
      · next fin opcode buffer rest hrf =>
        have hsh := readFrame_ok_shorter _ _ _ _ _ _ hrf
        simp only
        split
        · split
          · simp [hf]; omega
          · have := ih { c with inp := rest } (msg ++ buffer) true hf
            simp only at this
            refine ⟨this.1, by omega, fun _ => Or.inr (by omega)⟩
        · split
          · split
            · simp [hf]; omega
            · simp [hf]; omega
          · split
            case isFalse => simp [hf]; omega      -- reserved opcode: closed, nothing delivered
            -- ping / pong
            have hc' : ∀ c' : Conn, c'.fault = false → c'.inp = rest →
                (if (fin && (decide (opcode < 8) || !pm)) = true then (msg, c') else recvLoop fuel c' msg pm).2.fault = false ∧
                (if (fin && (decide (opcode < 8) || !pm)) = true then (msg, c') else recvLoop fuel c' msg pm).2.inp.length ≤ c.inp.length ∧
                (0 < fuel + 1 → (if (fin && (decide (opcode < 8) || !pm)) = true then (msg, c') else recvLoop fuel c' msg pm).2.closed = true ∨
                  (if (fin && (decide (opcode < 8) || !pm)) = true then (msg, c') else recvLoop fuel c' msg pm).2.inp.length < c.inp.length) := by
              intro c' hf' hi'
              split
              · simp [hf', hi']; omega
              · have := ih c' msg pm hf'
                rw [hi'] at this
                refine ⟨this.1, by omega, fun _ => Or.inr (by omega)⟩
            have hs := sendFrame_isSome c.isClient c.rng 10 buffer
            refine hc' _ ?_ ?_
            · split
              · match hm : sendFrame c.isClient c.rng 10 buffer with
                | some (bytes, rng) => exact hf
                | none => rw [hm] at hs; simp at hs
              · exact hf
            · split
              · match hm : sendFrame c.isClient c.rng 10 buffer with
                | some (bytes, rng) => rfl
                | none => rfl
              · rfl

/-- reading until closed: on *every* byte stream the loop ends with the connection closed and no fault -/
theorem receiveAll_closes : ∀ (fuel : Nat) (c : Conn) (acc : List (List UInt8)), c.fault = false →
    (c.inp.length < fuel ∨ c.closed = true) →
    (receiveAll fuel c acc).2.closed = true ∧ (receiveAll fuel c acc).2.fault = false := by
  intro fuel
  induction fuel with
  | zero =>
    intro c acc hf h
    rcases h with h | h
    · omega
    · simp [receiveAll, h, hf]
  | succ fuel ih =>
    intro c acc hf h
    rw [receiveAll]
    split
    · simp [hf]
    · next hcl =>
      have hp := recvLoop_progress (c.inp.length + 1) c [] false hf
      have hopen : c.closed = false := by
        cases hc : c.closed with
        | false => rfl
        | true => simp [Conn.isClosed, hc] at hcl
      have hlt : c.inp.length < fuel + 1 := by
        rcases h with h | h
        · exact h
        · rw [hopen] at h; exact absurd h (by simp)
      simp only [receive]
      apply ih _ _ hp.1
      rcases hp.2.2 (by omega) with h1 | h1
      · exact Or.inr h1
      · exact Or.inl (by omega)

/-! ## fuel never runs out; results fit an `int` -/

/-- **fuel is irrelevant**: `receive()`'s loop started with more fuel than input bytes never runs out of it -/
theorem recvLoop_fuel : ∀ (fuel : Nat) (c : Conn) (msg : List UInt8) (pm : Bool), c.inp.length < fuel →
    recvLoop fuel c msg pm = recvLoop (fuel + 1) c msg pm := by
  intro fuel
  induction fuel with
  | zero => intro c msg pm h; omega
  | succ fuel ih =>
    intro c msg pm hlt
    rw [recvLoop, recvLoop]
    split
    · rfl
    · split
      · rfl
      · rfl
      · next fin opcode buffer rest hrf =>
        have hsh := readFrame_ok_shorter _ _ _ _ _ _ hrf
        have hr : ∀ c' : Conn, c'.inp = rest → ∀ m p, recvLoop fuel c' m p = recvLoop (fuel + 1) c' m p :=
          fun c' hc' m p => ih c' m p (by rw [hc']; omega)
        simp only
        split
        · split
          · rfl
          · exact hr _ rfl _ _
        · split
          · rfl
          · split
            · split
              · rfl
              · apply hr
                split
                · split <;> rfl
                · rfl
            · rfl

theorem closed_eta (c : Conn) (h : c.closed = true) : { c with closed := true } = c := by
  cases c; simp at h; simp [h]

/-- … and so is the fuel of the application loop -/
theorem receiveAll_fuel : ∀ (fuel : Nat) (c : Conn) (acc : List (List UInt8)), c.fault = false →
    (c.inp.length < fuel ∨ c.closed = true) → receiveAll fuel c acc = receiveAll (fuel + 1) c acc := by
  intro fuel
  induction fuel with
  | zero =>
    intro c acc _ h
    rcases h with h | h
    · omega
    · rw [receiveAll, receiveAll]
      simp [Conn.isClosed, h, closed_eta c h]
  | succ fuel ih =>
    intro c acc hf h
    conv => lhs; rw [receiveAll]
    conv => rhs; rw [receiveAll]
    split
    · rfl
    · next hcl =>
      have hopen : c.closed = false := by
        cases hc : c.closed with
        | false => rfl
        | true => simp [Conn.isClosed, hc] at hcl
      have hlt : c.inp.length < fuel + 1 := by
        rcases h with h | h
        · exact h
        · rw [hopen] at h; exact absurd h (by simp)
      have hp := recvLoop_progress (c.inp.length + 1) c [] false hf
      simp only [receive]
      apply ih _ _ hp.1
      rcases hp.2.2 (by omega) with h1 | h1
      · exact Or.inr h1
      · exact Or.inl (by omega)

/-- whatever the peer sends, no `receive()` result is longer than the library's array limit -/
theorem recvLoop_bounded : ∀ (fuel : Nat) (c : Conn) (msg : List UInt8) (pm : Bool), msg.length ≤ 2147483632 →
    (recvLoop fuel c msg pm).1.length ≤ 2147483632 := by
  intro fuel
  induction fuel with
  | zero => intro c msg pm h; simpa [recvLoop] using h
  | succ fuel ih =>
    intro c msg pm hm
    rw [recvLoop]
    split
    · exact Nat.zero_le _
    · split
      · exact Nat.zero_le _
      · exact Nat.zero_le _
      · next fin opcode buffer rest hrf =>
        obtain ⟨_, hb, hs⟩ := readFrame_ok_props _ _ _ _ _ _ hrf
        simp only
        split
        · next hop =>
          have : (msg ++ buffer).length ≤ 2147483632 := by
            have := hs (by omega); simpa using this
          split
          · exact this
          · exact ih _ _ _ this
        · split
          · split
            · simp; omega
            · exact Nat.zero_le _
          · split
            · split
              · exact hm
              · exact ih _ _ _ hm
            · exact Nat.zero_le _

theorem receiveAll_bounded : ∀ (fuel : Nat) (c : Conn) (acc : List (List UInt8)),
    (∀ m ∈ acc, m.length ≤ 2147483632) → ∀ m ∈ (receiveAll fuel c acc).1, m.length ≤ 2147483632 := by
  intro fuel
  induction fuel with
  | zero => intro c acc h m hm; simp [receiveAll] at hm; exact h m hm
  | succ fuel ih =>
    intro c acc h
    rw [receiveAll]
    split
    · intro m hm; simp at hm; exact h m hm
    · have hrecv : (receive c).1.length ≤ 2147483632 := by
        unfold receive; exact recvLoop_bounded _ _ [] false (Nat.zero_le _)
      apply ih
      intro m hm
      rcases List.mem_cons.mp hm with h1 | h1
      · rw [h1]; exact hrecv
      · exact h m h1

/-! ## library sender → wire -/

/-- the keys a client-role sender draws for successive non-empty messages -/
def singleMsgs (isClient : Bool) : Rng → List (Nat × List UInt8) → List Rfc6455.Msg
  | _, [] => []
  | rng, (t, p) :: rest =>
    if p = [] then singleMsgs isClient rng rest
    else
      let key := if isClient then some (Rfc6455.Key.ofValue rng.get.1) else none
      ⟨t == 2, ⟨[], p, key⟩, []⟩ :: singleMsgs isClient (if isClient then rng.get.2 else rng) rest

theorem sendAll_eq (isClient : Bool) (msgs : List (Nat × List UInt8)) : ∀ (rng : Rng) (acc : List UInt8),
    (∀ e ∈ msgs, e.1 = 1 ∨ e.1 = 2) →
    sendAll isClient rng msgs acc = some (acc ++ Rfc6455.wire (singleMsgs isClient rng msgs) []) := by
  induction msgs with
  | nil => intro rng acc _; simp [sendAll, singleMsgs, Rfc6455.wire, Rfc6455.ctlBytes]
  | cons e msgs ih =>
    intro rng acc ht
    obtain ⟨t, p⟩ := e
    have hty : t = 1 ∨ t = 2 := ht (t, p) (List.mem_cons_self ..)
    have hrest : ∀ e ∈ msgs, e.1 = 1 ∨ e.1 = 2 := fun y hy => ht y (List.mem_cons_of_mem _ hy)
    have hop : opcodeOf t = if (t == 2) = true then Rfc6455.opBinary else Rfc6455.opText := by
      rcases hty with h | h <;> subst h <;> decide
    rw [sendAll, singleMsgs]
    by_cases hp : p = []
    · subst hp
      simp only [sendFrame, List.length_nil, if_true]
      rw [ih rng _ hrest]; simp
    · simp only [hp, if_false]
      cases isClient
      · rw [sendFrame_server rng t p hp]
        simp only [Bool.false_eq_true, if_false]
        rw [ih rng _ hrest, wire_cons]
        simp [Rfc6455.Msg.bytes, Rfc6455.ctlBytes, Rfc6455.moreBytes, hop]
      · rw [sendFrame_client rng t p hp]
        simp only [if_true]
        rw [ih _ _ hrest, wire_cons]
        simp [Rfc6455.Msg.bytes, Rfc6455.ctlBytes, Rfc6455.moreBytes, hop]

theorem singleMsgs_payload (isClient : Bool) (msgs : List (Nat × List UInt8)) : ∀ rng : Rng,
    (singleMsgs isClient rng msgs).map (·.payload) = (msgs.map (·.2)).filter (· ≠ []) := by
  induction msgs with
  | nil => intro _; rfl
  | cons e msgs ih =>
    intro rng
    obtain ⟨t, p⟩ := e
    rw [singleMsgs]
    by_cases hp : p = []
    · simp [hp, ih]
    · simp only [hp, if_false, List.map_cons, ih]
      simp [hp, Rfc6455.Msg.payload]

theorem singleMsgs_fit (isClient : Bool) (msgs : List (Nat × List UInt8)) : ∀ rng : Rng,
    (∀ e ∈ msgs, Fits e.2) → ∀ m ∈ singleMsgs isClient rng msgs, MsgFits m := by
  induction msgs with
  | nil => intro _ _ m hm; simp [singleMsgs] at hm
  | cons e msgs ih =>
    intro rng hf m hm
    obtain ⟨t, p⟩ := e
    rw [singleMsgs] at hm
    have hrest : ∀ e ∈ msgs, Fits e.2 := fun y hy => hf y (List.mem_cons_of_mem _ hy)
    by_cases hp : p = []
    · simp only [hp, if_true] at hm; exact ih rng hrest m hm
    · simp only [hp, if_false, List.mem_cons] at hm
      rcases hm with rfl | hm
      · refine ⟨⟨hf (t, p) (List.mem_cons_self ..), fun x hx => by simp at hx⟩, fun f hf' => by simp at hf', ?_⟩
        have := hf (t, p) (List.mem_cons_self ..)
        simpa [Fits, Rfc6455.Msg.payload] using this
      · exact ih _ hrest m hm

/-! ## frames are self-delimiting; a frame cut short is not delivered -/

theorem take_append_ge (n : Nat) (l m : List UInt8) (h : n ≤ l.length) : (l ++ m).take n = l.take n :=
  List.take_append_of_le_length h

theorem drop_append_ge (n : Nat) (l m : List UInt8) (h : n ≤ l.length) : (l ++ m).drop n = l.drop n ++ m :=
  List.drop_append_of_le_length h

/-- what `parseExt` reads does not depend on what follows -/
theorem parseExt_append (b0 mlen : UInt8) (inp more : List UInt8) (fin : Bool) (op : Nat) (masked : Bool) (len : Int)
    (mask : Nat) (rest : List UInt8) (h : parseExt b0 mlen inp = .ok fin op masked len mask rest) :
    parseExt b0 mlen (inp ++ more) = .ok fin op masked len mask (rest ++ more) := by
  unfold parseExt at h ⊢
  simp only at h ⊢
  -- the extended-length step
  have key : ∀ (ext : Option (Int × List UInt8)) (ext' : Option (Int × List UInt8)),
      (∀ l i, ext = some (l, i) → ext' = some (l, i ++ more)) →
      (match ext with
        | none => Hdr.close
        | some (len, inp) =>
          if (mlen.toNat &&& recvMaskBit != 0) = true then
            if inp.length < 4 then Hdr.close
            else Hdr.ok (b0.toNat &&& recvFinBit != 0) (b0.toNat &&& opMask) true len (beVal (inp.take 4)) (inp.drop 4)
          else Hdr.ok (b0.toNat &&& recvFinBit != 0) (b0.toNat &&& opMask) false len 0 inp) = .ok fin op masked len mask rest →
      (match ext' with
        | none => Hdr.close
        | some (len, inp) =>
          if (mlen.toNat &&& recvMaskBit != 0) = true then
            if inp.length < 4 then Hdr.close
            else Hdr.ok (b0.toNat &&& recvFinBit != 0) (b0.toNat &&& opMask) true len (beVal (inp.take 4)) (inp.drop 4)
          else Hdr.ok (b0.toNat &&& recvFinBit != 0) (b0.toNat &&& opMask) false len 0 inp) = .ok fin op masked len mask (rest ++ more) := by
    intro ext ext' hrel hm
    cases ext with
    | none => simp at hm
    | some p =>
      obtain ⟨l, i⟩ := p
      rw [hrel l i rfl]
      simp only at hm ⊢
      split at hm
      · split at hm
        · simp at hm
        · next hlen =>
          have h4 : 4 ≤ i.length := by omega
          simp only [Hdr.ok.injEq] at hm
          obtain ⟨h1, h2, h3, h4', h5, h6⟩ := hm
          rw [if_pos (by assumption), if_neg (by simp; omega), take_append_ge 4 i more h4, drop_append_ge 4 i more h4]
          subst h1 h2 h3 h4' h5 h6
          rfl
      · simp only [Hdr.ok.injEq] at hm
        obtain ⟨h1, h2, h3, h4', h5, h6⟩ := hm
        rw [if_neg (by assumption)]
        subst h1 h2 h3 h4' h5 h6
        rfl
  refine key _ _ ?_ h
  intro l i hext
  split at hext
  · next h16 =>
    rw [if_pos h16]
    split at hext
    · simp at hext
    · next hl =>
      have h2 : 2 ≤ inp.length := by omega
      simp only [Option.some.injEq, Prod.mk.injEq] at hext
      obtain ⟨e1, e2⟩ := hext
      rw [if_neg (by simp; omega), take_append_ge 2 inp more h2, drop_append_ge 2 inp more h2, e1, e2]
  · next h16 =>
    rw [if_neg h16]
    split at hext
    · next h64 =>
      rw [if_pos h64]
      split at hext
      · simp at hext
      · next hl =>
        have h8 : 8 ≤ inp.length := by omega
        rw [if_neg (by simp; omega), take_append_ge 8 inp more h8, drop_append_ge 8 inp more h8]
        split at hext
        · simp at hext
        · next hok =>
          simp only [Option.some.injEq, Prod.mk.injEq] at hext
          obtain ⟨e1, e2⟩ := hext
          rw [if_neg hok, e1, e2]
    · next h64 =>
      rw [if_neg h64]
      simp only [Option.some.injEq, Prod.mk.injEq] at hext
      obtain ⟨e1, e2⟩ := hext
      rw [e1, e2]

/-- frames are self-delimiting: what `readFrame` returns does not depend on the bytes after the frame -/
theorem readFrame_append (msgLen : Nat) (inp more : List UInt8) (fin : Bool) (op : Nat) (buf rest : List UInt8)
    (h : readFrame msgLen inp = .ok fin op buf rest) : readFrame msgLen (inp ++ more) = .ok fin op buf (rest ++ more) := by
  unfold readFrame at h
  split at h
  · simp at h
  · simp at h
  · next b0 mlen r =>
    split at h
    · simp at h
    · next fin' opcode masked len mask rest' hp =>
      simp only at h
      split at h
      · simp at h
      · next hsum =>
        split at h
        · simp at h
        · next hpay =>
          have hn : len.toNat ≤ rest'.length := by
            rw [readPayload_ok] at hpay; simpa using hpay
          show readFrame msgLen (b0 :: mlen :: (r ++ more)) = _
          unfold readFrame
          simp only [parseExt_append b0 mlen r more fin' opcode masked len mask rest' hp]
          rw [if_neg hsum, if_neg (by rw [readPayload_ok]; simp; omega),
            take_append_ge _ rest' more hn, drop_append_ge _ rest' more hn]
          split at h
          · simp at h
          · next b hb =>
            simp only [Frame.ok.injEq] at h
            obtain ⟨h1, h2, h3, h4⟩ := h
            subst h1 h2 h3 h4
            rfl

/-- the bytes already accumulated can only turn an accepted frame into "close" -/
theorem readFrame_mono (m : Nat) (inp : List UInt8) : readFrame m inp = .close ∨ readFrame m inp = readFrame 0 inp := by
  unfold readFrame
  split
  · exact Or.inl rfl
  · exact Or.inl rfl
  · split
    · exact Or.inl rfl
    · next fin opcode masked len mask rest _ =>
      simp only
      by_cases hm : opcode < recvDataOps ∧ len > (recvMaxMsg : Int) - (m : Int)
      · exact Or.inl (by rw [if_pos hm])
      · have h0 : ¬ (opcode < recvDataOps ∧ len > (recvMaxMsg : Int) - ((0 : Nat) : Int)) := by
          intro ⟨h1, h2⟩; apply hm; exact ⟨h1, by omega⟩
        exact Or.inr (by rw [if_neg hm, if_neg h0])

/-- **A frame cut short is never delivered**: for every proper prefix of an RFC frame the frame reader
    answers "close" — no buffer, no garbage — whatever has been accumulated before. -/
theorem truncated_frame_close (fin : Bool) (op : Nat) (hop : op < 16) (key : Option Rfc6455.Key) (p : List UInt8)
    (hl : p.length ≤ 2147483632) (k : Nat) (hk : k < (Rfc6455.frame fin op key p).length) (msgLen : Nat) :
    readFrame msgLen ((Rfc6455.frame fin op key p).take k) = .close := by
  rcases readFrame_mono msgLen ((Rfc6455.frame fin op key p).take k) with h | h
  · exact h
  rw [h]
  cases hr : readFrame 0 ((Rfc6455.frame fin op key p).take k) with
  | close => rfl
  | fault => exact absurd hr (readFrame_no_fault _ _)
  | ok f o b rest =>
    exfalso
    have happ := readFrame_append 0 _ ((Rfc6455.frame fin op key p).drop k) f o b rest hr
    rw [List.take_append_drop] at happ
    have hfull := readFrame_frame fin op hop key p hl [] 0 (fun _ => by omega)
    rw [List.append_nil] at hfull
    rw [hfull] at happ
    simp only [Frame.ok.injEq] at happ
    have : rest ++ (Rfc6455.frame fin op key p).drop k = [] := happ.2.2.2.symm
    have : ((Rfc6455.frame fin op key p).drop k).length = 0 := by
      have := congrArg List.length this; simp at this; omega
    simp at this; omega

/-! ## a stream cut between complete messages and the next frame -/

/-- complete messages followed by more input: all delivered, the reader is then exactly at `rest` -/
theorem receiveAll_msgs (ms : List Rfc6455.Msg) : ∀ (fuel : Nat) (c : Conn) (acc : List (List UInt8)) (rest : List UInt8),
    Live c → (∀ m ∈ ms, MsgFits m) → rest ≠ [] → c.inp = ms.flatMap Rfc6455.Msg.bytes ++ rest → c.inp.length < fuel →
    ∃ (extra : List (List UInt8)) (c' : Conn) (fuel' : Nat), Live c' ∧ c'.inp = rest ∧ c'.isClient = c.isClient ∧ rest.length < fuel' ∧
      receiveAll fuel c acc = receiveAll fuel' c' (extra.reverse ++ acc) ∧
      extra.filter (· ≠ []) = (ms.map (·.payload)).filter (· ≠ []) := by
  induction ms with
  | nil =>
    intro fuel c acc rest hc _ _ hi hfu
    refine ⟨[], c, fuel, hc, by simpa using hi, rfl, ?_, by simp, by simp⟩
    rw [hi] at hfu; simpa using hfu
  | cons m ms ih =>
    intro fuel c acc rest hc hm hr hi hfu
    have hmf : MsgFits m := hm m (List.mem_cons_self ..)
    have hmb : m.bytes = Rfc6455.ctlBytes m.first.before ++ Rfc6455.frame m.more.isEmpty (msgOp m) m.first.key m.first.payload ++
        Rfc6455.moreBytes m.more := rfl
    simp only [List.flatMap_cons] at hi
    rw [hmb] at hi
    simp only [List.append_assoc] at hi
    have hb := ctlBytes_length m.first.before
    have hfr := frame_length_ge m.more.isEmpty (msgOp m) m.first.key m.first.payload
    have hilen : c.inp.length = (Rfc6455.ctlBytes m.first.before).length +
        ((Rfc6455.frame m.more.isEmpty (msgOp m) m.first.key m.first.payload).length +
          ((Rfc6455.moreBytes m.more).length + (ms.flatMap Rfc6455.Msg.bytes ++ rest).length)) := by
      rw [hi]; simp [msgOp]
    obtain ⟨f2, hf2⟩ : ∃ f2, fuel = (f2 + 1) + m.first.before.length := ⟨fuel - m.first.before.length - 1, by omega⟩
    have hne1 : Rfc6455.frame m.more.isEmpty (msgOp m) m.first.key m.first.payload ++
        (Rfc6455.moreBytes m.more ++ (ms.flatMap Rfc6455.Msg.bytes ++ rest)) ≠ [] := by
      simp [frame_ne_nil]
    obtain ⟨c1, hl1, hi1, hcl1', hr1⟩ := receiveAll_ctls m.first.before (f2 + 1) c acc _ hc hmf.1.2 hne1 hi
    obtain ⟨c2, hs2, hi2, hd2, hcc2, hr2⟩ := receive_body m c1 (ms.flatMap Rfc6455.Msg.bytes ++ rest) hl1 hmf.1.1 hmf.2.1 hmf.2.2 hi1
    have hcl1 : c1.isClosed = false := isClosed_frame c1 hl1 _ _ (frame_ne_nil _ (msgOp m) m.first.key m.first.payload) hi1
    have hrest' : ms.flatMap Rfc6455.Msg.bytes ++ rest ≠ [] := by simp [hr]
    have hl2 : Live c2 := ⟨by
      cases hc2 : c2.closed with
      | false => rfl
      | true => exact absurd (hd2 hc2) hrest', hs2⟩
    obtain ⟨extra, c', fuel', h1, h2, h3, h4, h5, h6⟩ := ih f2 c2 (m.payload :: (List.replicate m.first.before.length [] ++ acc)) rest
      hl2 (fun y hy => hm y (List.mem_cons_of_mem _ hy)) hr hi2 (by rw [hi2]; omega)
    refine ⟨List.replicate m.first.before.length [] ++ [m.payload] ++ extra, c', fuel', h1, h2, (h3.trans hcc2).trans hcl1', h4, ?_, ?_⟩
    · rw [hf2, hr1, receiveAll, hcl1]
      simp only [Bool.false_eq_true, if_false, hr2, h5]
      congr 1
      simp
    · simp only [List.filter_append, filter_replicate_nil, List.nil_append, List.map_cons, h6]
      by_cases hp : m.payload = [] <;> simp [hp]

/-- **The stream is cut inside the first frame of a message or inside a control frame between messages**:
    the complete messages before the cut are delivered intact, the cut frame yields nothing, the
    connection ends closed. -/
theorem receiveAll_cut (ms : List Rfc6455.Msg) (cs : List Rfc6455.Ctl) (fin : Bool) (op : Nat) (hop : op < 16)
    (key : Option Rfc6455.Key) (p : List UInt8) (k : Nat) (c : Conn)
    (hc : Live c) (hm : ∀ m ∈ ms, MsgFits m) (hcs : CtlsFit cs) (hp : Fits p)
    (hk0 : 0 < k) (hk : k < (Rfc6455.frame fin op key p).length)
    (hi : c.inp = ms.flatMap Rfc6455.Msg.bytes ++ (Rfc6455.ctlBytes cs ++ (Rfc6455.frame fin op key p).take k)) :
    ∃ extra c', receiveAll (c.inp.length + 1) c [] = (extra, c') ∧
      extra.filter (· ≠ []) = (ms.map (·.payload)).filter (· ≠ []) ∧ c'.closed = true ∧ c'.fault = false := by
  have hcut : (Rfc6455.frame fin op key p).take k ≠ [] := by
    intro h0
    have := congrArg List.length h0
    simp only [List.length_take, List.length_nil] at this; omega
  have hrest : Rfc6455.ctlBytes cs ++ (Rfc6455.frame fin op key p).take k ≠ [] := by simp [hcut]
  obtain ⟨extra, c1, f1, hl1, hi1, _, hf1, hr1, hx1⟩ := receiveAll_msgs ms (c.inp.length + 1) c [] _ hc hm hrest hi (by omega)
  have hcl := ctlBytes_length cs
  obtain ⟨f2, hf2⟩ : ∃ f2, f1 = (f2 + 1) + cs.length := ⟨f1 - cs.length - 1, by simp at hf1; omega⟩
  obtain ⟨c2, hl2, hi2, _, hr2⟩ := receiveAll_ctls cs (f2 + 1) c1 (extra.reverse ++ []) _ hl1 hcs hcut hi1
  have hclosed2 : c2.isClosed = false := by
    unfold Conn.isClosed; rw [hl2.open_, hi2]
    cases hh : (Rfc6455.frame fin op key p).take k with
    | nil => exact absurd hh hcut
    | cons a t => rfl
  have hrecv : receive c2 = ([], { c2 with closed := true, inp := [] }) := by
    unfold receive
    rw [recvLoop, hclosed2, hi2, truncated_frame_close fin op hop key p hp k hk]
    simp
  refine ⟨(([] : List UInt8) :: (List.replicate cs.length [] ++ (extra.reverse ++ []))).reverse, { c2 with closed := true, inp := [] }, ?_, ?_, rfl, hl2.sound⟩
  · rw [hr1, hf2, hr2, receiveAll, hclosed2]
    simp only [Bool.false_eq_true, if_false, hrecv]
    cases f2 with
    | zero => simp [receiveAll]
    | succ f => simp [receiveAll, Conn.isClosed]
  · simp only [List.reverse_cons, List.reverse_append, List.reverse_reverse, List.reverse_nil, List.nil_append,
      List.append_nil, List.reverse_replicate, List.filter_append, filter_replicate_nil, hx1]
    simp

/-! ## a stream cut inside a message, after its first frame -/

theorem openBytes_size_le (t : List Rfc6455.Frag) : moreSize t ≤ (Rfc6455.openBytes t).length := by
  induction t with
  | nil => simp [moreSize]
  | cons f t ih =>
    simp only [moreSize, Rfc6455.openBytes, List.length_append]
    have := ctlBytes_length f.before
    have := frame_length_ge false Rfc6455.opCont f.key f.payload
    omega

/-- continuation frames that do not end the message: all appended, the loop is then at `rest`, still inside the message -/
theorem recv_open (t : List Rfc6455.Frag) : ∀ (fuel : Nat) (c : Conn) (msg rest : List UInt8),
    Live c → (∀ f ∈ t, FragFits f) → msg.length + (t.flatMap (·.payload)).length ≤ 2147483632 → rest ≠ [] →
    c.inp = Rfc6455.openBytes t ++ rest →
    ∃ c', Live c' ∧ c'.inp = rest ∧ c'.isClient = c.isClient ∧
      recvLoop (fuel + moreSize t) c msg true = recvLoop fuel c' (msg ++ t.flatMap (·.payload)) true := by
  induction t with
  | nil =>
    intro fuel c msg rest hc _ _ _ hi
    exact ⟨c, hc, by simpa [Rfc6455.openBytes] using hi, rfl, by simp [moreSize]⟩
  | cons f t ih =>
    intro fuel c msg rest hc hf htot hr hi
    have hff : FragFits f := hf f (List.mem_cons_self ..)
    have hsum : msg.length + f.payload.length ≤ 2147483632 := by
      simp only [List.flatMap_cons, List.length_append] at htot; omega
    simp only [Rfc6455.openBytes, List.append_assoc] at hi
    have hne1 : Rfc6455.frame false Rfc6455.opCont f.key f.payload ++ (Rfc6455.openBytes t ++ rest) ≠ [] := by
      simp [frame_ne_nil]
    obtain ⟨c1, hl1, hi1, hc1, hr1⟩ := recv_ctls_partial f.before (fuel + moreSize t + 1) c msg _ hc hff.2 hne1 hi
    have hfuel : fuel + moreSize (f :: t) = fuel + moreSize t + 1 + f.before.length := by simp [moreSize]; omega
    have hne2 : Rfc6455.openBytes t ++ rest ≠ [] := by simp [hr]
    rw [hfuel, hr1, recv_data_more (fuel + moreSize t) c1 hl1 msg true Rfc6455.opCont (by decide) f.key f.payload _ hff.1
      hsum hi1]
    obtain ⟨c', h1, h2, h3, h4⟩ := ih fuel { c1 with inp := Rfc6455.openBytes t ++ rest } (msg ++ f.payload) rest
      ⟨hl1.open_, hl1.sound⟩ (fun y hy => hf y (List.mem_cons_of_mem _ hy))
      (by simp only [List.flatMap_cons, List.length_append] at htot ⊢; omega) hr rfl
    refine ⟨c', h1, h2, h3.trans hc1, ?_⟩
    rw [h4]; simp

/-- inside a message: control frames, then a frame cut short — the loop gives up, closed, and delivers nothing -/
theorem recv_cut_partial (cs : List Rfc6455.Ctl) (fin : Bool) (op : Nat) (hop : op < 16) (key : Option Rfc6455.Key)
    (p : List UInt8) (hp : Fits p) (k : Nat) (hk0 : 0 < k) (hk : k < (Rfc6455.frame fin op key p).length)
    (fuel : Nat) (c : Conn) (msg : List UInt8) (hc : Live c) (hcs : CtlsFit cs)
    (hi : c.inp = Rfc6455.ctlBytes cs ++ (Rfc6455.frame fin op key p).take k) :
    ∃ c', c'.closed = true ∧ c'.fault = false ∧ recvLoop (fuel + 1 + cs.length) c msg true = ([], c') := by
  have hcut : (Rfc6455.frame fin op key p).take k ≠ [] := by
    intro h0
    have := congrArg List.length h0
    simp only [List.length_take, List.length_nil] at this; omega
  obtain ⟨c1, hl1, hi1, _, hr1⟩ := recv_ctls_partial cs (fuel + 1) c msg _ hc hcs hcut hi
  have hclosed : c1.isClosed = false := by
    unfold Conn.isClosed; rw [hl1.open_, hi1]
    cases hh : (Rfc6455.frame fin op key p).take k with
    | nil => exact absurd hh hcut
    | cons a t => rfl
  refine ⟨{ c1 with closed := true, inp := [] }, rfl, hl1.sound, ?_⟩
  rw [hr1, recvLoop, hclosed, hi1, truncated_frame_close fin op hop key p hp k hk]
  simp

/-- **The stream is cut inside a message, after its first frame** (inside a continuation frame or inside
    a control frame between fragments, at any offset): the complete messages before it are delivered
    intact; nothing of the interrupted message is delivered; the connection ends closed. -/
theorem receiveAll_cut_inside (ms : List Rfc6455.Msg) (m : Rfc6455.Msg) (t1 : List Rfc6455.Frag) (cs : List Rfc6455.Ctl)
    (fin : Bool) (op : Nat) (hop : op < 16) (key : Option Rfc6455.Key) (p : List UInt8) (k : Nat) (c : Conn)
    (hc : Live c) (hm : ∀ x ∈ ms, MsgFits x) (hfirst : FragFits m.first) (ht1 : ∀ f ∈ t1, FragFits f)
    (htot : m.first.payload.length + (t1.flatMap (·.payload)).length ≤ 2147483632)
    (hcs : CtlsFit cs) (hp : Fits p) (hk0 : 0 < k) (hk : k < (Rfc6455.frame fin op key p).length)
    (hi : c.inp = ms.flatMap Rfc6455.Msg.bytes ++ (Rfc6455.ctlBytes m.first.before ++
            (Rfc6455.frame false (msgOp m) m.first.key m.first.payload ++ (Rfc6455.openBytes t1 ++
              (Rfc6455.ctlBytes cs ++ (Rfc6455.frame fin op key p).take k))))) :
    ∃ extra c', receiveAll (c.inp.length + 1) c [] = (extra, c') ∧
      extra.filter (· ≠ []) = (ms.map (·.payload)).filter (· ≠ []) ∧
      c'.closed = true ∧ c'.fault = false := by
  have hcut : (Rfc6455.frame fin op key p).take k ≠ [] := by
    intro h0
    have := congrArg List.length h0
    simp only [List.length_take, List.length_nil] at this; omega
  have hcutlen : 1 ≤ ((Rfc6455.frame fin op key p).take k).length := by
    cases hh : (Rfc6455.frame fin op key p).take k with
    | nil => exact absurd hh hcut
    | cons a t => simp
  have hop2 : msgOp m ≤ 2 := by unfold msgOp; split <;> decide
  -- the complete messages
  have hrest0 : Rfc6455.ctlBytes m.first.before ++ (Rfc6455.frame false (msgOp m) m.first.key m.first.payload ++
      (Rfc6455.openBytes t1 ++ (Rfc6455.ctlBytes cs ++ (Rfc6455.frame fin op key p).take k))) ≠ [] := by
    simp [frame_ne_nil]
  obtain ⟨extra, c1, f1, hl1, hi1, _, hf1, hr1, hx1⟩ := receiveAll_msgs ms (c.inp.length + 1) c [] _ hc hm hrest0 hi (by omega)
  -- control frames before the first fragment
  have hb := ctlBytes_length m.first.before
  have hfr := frame_length_ge false (msgOp m) m.first.key m.first.payload
  simp only [List.length_append] at hf1
  obtain ⟨f2, hf2⟩ : ∃ f2, f1 = (f2 + 1) + m.first.before.length := ⟨f1 - m.first.before.length - 1, by omega⟩
  have hne1 : Rfc6455.frame false (msgOp m) m.first.key m.first.payload ++
      (Rfc6455.openBytes t1 ++ (Rfc6455.ctlBytes cs ++ (Rfc6455.frame fin op key p).take k)) ≠ [] := by
    simp [frame_ne_nil]
  obtain ⟨c2, hl2, hi2, _, hr2⟩ := receiveAll_ctls m.first.before (f2 + 1) c1 (extra.reverse ++ []) _ hl1 hfirst.2 hne1 hi1
  have hcl2 : c2.isClosed = false := isClosed_frame c2 hl2 _ _ (frame_ne_nil false (msgOp m) m.first.key m.first.payload) hi2
  -- the interrupted receive()
  have hne3 : Rfc6455.openBytes t1 ++ (Rfc6455.ctlBytes cs ++ (Rfc6455.frame fin op key p).take k) ≠ [] := by simp [hcut]
  have hne4 : Rfc6455.ctlBytes cs ++ (Rfc6455.frame fin op key p).take k ≠ [] := by simp [hcut]
  have hsz := openBytes_size_le t1
  have hcsl := ctlBytes_length cs
  have hlen2 : c2.inp.length = (Rfc6455.frame false (msgOp m) m.first.key m.first.payload).length +
      ((Rfc6455.openBytes t1).length + ((Rfc6455.ctlBytes cs).length + ((Rfc6455.frame fin op key p).take k).length)) := by
    rw [hi2]; simp only [List.length_append]
  obtain ⟨f3, hf3⟩ : ∃ f3, c2.inp.length = (f3 + 1 + cs.length) + moreSize t1 :=
    ⟨c2.inp.length - moreSize t1 - cs.length - 1, by omega⟩
  have hrecv : ∃ c3, c3.closed = true ∧ c3.fault = false ∧ receive c2 = ([], c3) := by
    unfold receive
    rw [recv_data_more c2.inp.length c2 hl2 [] false (msgOp m) hop2 m.first.key m.first.payload _ hfirst.1
      (by have : m.first.payload.length ≤ 2147483632 := hfirst.1; simpa using this) hi2, hf3]
    obtain ⟨c', h1, h2, _, h4⟩ := recv_open t1 (f3 + 1 + cs.length) { c2 with inp := Rfc6455.openBytes t1 ++ (Rfc6455.ctlBytes cs ++ (Rfc6455.frame fin op key p).take k) }
      ([] ++ m.first.payload) _ ⟨hl2.open_, hl2.sound⟩ ht1 (by simpa using htot) hne4 rfl
    rw [h4]
    obtain ⟨c3, g1, g2, g3⟩ := recv_cut_partial cs fin op hop key p hp k hk0 hk f3 c' ([] ++ m.first.payload ++ t1.flatMap (·.payload)) h1 hcs h2
    exact ⟨c3, g1, g2, g3⟩
  obtain ⟨c3, hc3, hf3', hrecv⟩ := hrecv
  refine ⟨(([] : List UInt8) :: (List.replicate m.first.before.length [] ++ (extra.reverse ++ []))).reverse, { c3 with closed := true }, ?_, ?_, rfl, hf3'⟩
  · rw [hr1, hf2, hr2, receiveAll, hcl2]
    simp only [Bool.false_eq_true, if_false, hrecv]
    cases f2 with
    | zero => simp [receiveAll, closed_eta c3 hc3]
    | succ f => simp [receiveAll, Conn.isClosed, hc3]
  · simp only [List.reverse_cons, List.reverse_append, List.reverse_reverse, List.reverse_nil, List.nil_append,
      List.append_nil, List.reverse_replicate, List.filter_append, filter_replicate_nil, hx1]
    simp

/-! ## a frame that fails the connection (cut short, reserved opcode, short Close) anywhere in a conversation -/

/-- a tail of the stream at which `receive()` gives up: whatever has been accumulated, the call returns an empty
    message and leaves the connection closed -/
def Terminal (tail : List UInt8) : Prop :=
  tail ≠ [] ∧ ∀ (fuel : Nat) (c : Conn) (msg : List UInt8) (pm : Bool), Live c → c.inp = tail →
    ∃ c', c'.closed = true ∧ c'.fault = false ∧ recvLoop (fuel + 1) c msg pm = ([], c')

theorem terminal_cut (fin : Bool) (op : Nat) (hop : op < 16) (key : Option Rfc6455.Key) (p : List UInt8) (hp : Fits p)
    (k : Nat) (hk0 : 0 < k) (hk : k < (Rfc6455.frame fin op key p).length) : Terminal ((Rfc6455.frame fin op key p).take k) := by
  have hcut : (Rfc6455.frame fin op key p).take k ≠ [] := by
    intro h0
    have := congrArg List.length h0
    simp only [List.length_take, List.length_nil] at this; omega
  refine ⟨hcut, fun fuel c msg pm hc hi => ⟨{ c with closed := true, inp := [] }, rfl, hc.sound, ?_⟩⟩
  have hclosed : c.isClosed = false := by
    unfold Conn.isClosed; rw [hc.open_, hi]
    cases hh : (Rfc6455.frame fin op key p).take k with
    | nil => exact absurd hh hcut
    | cons a t => rfl
  rw [recvLoop, hclosed, hi, truncated_frame_close fin op hop key p hp k hk]
  simp

/-- a frame with a reserved opcode fails the connection (3e00d94) -/
theorem terminal_reserved (fin : Bool) (op : Nat) (hop : op < 16)
    (hres : op ≠ 0 ∧ op ≠ 1 ∧ op ≠ 2 ∧ op ≠ 8 ∧ op ≠ 9 ∧ op ≠ 10) (key : Option Rfc6455.Key) (p : List UInt8) (hp : Fits p)
    (rest : List UInt8) : Terminal (Rfc6455.frame fin op key p ++ rest) := by
  refine ⟨by simp [frame_ne_nil], fun fuel c msg pm hc hi => ⟨{ c with closed := true, inp := rest }, rfl, hc.sound, ?_⟩⟩
  rw [recvLoop, isClosed_frame c hc _ rest (frame_ne_nil fin op key p) hi, hi,
    readFrame_frame fin op hop key p hp rest msg.length (fun h => by omega)]
  have h2 : ¬ op ≤ 2 := by omega
  have h8 : ¬ op = 8 := hres.2.2.2.1
  have h9 : (op = 9 || op = 10) = false := by simp [hres.2.2.2.2.1, hres.2.2.2.2.2]
  simp [h2, h8, h9]

/-- a Close frame with fewer than two payload bytes closes the connection and delivers nothing, whatever had
    been accumulated (10948e4) -/
theorem terminal_short_close (fin : Bool) (key : Option Rfc6455.Key) (p : List UInt8) (hp : p.length < 2)
    (rest : List UInt8) : Terminal (Rfc6455.frame fin 8 key p ++ rest) := by
  refine ⟨by simp [frame_ne_nil], fun fuel c msg pm hc hi => ⟨{ c with closed := true, inp := rest }, rfl, hc.sound, ?_⟩⟩
  rw [recvLoop, isClosed_frame c hc _ rest (frame_ne_nil fin 8 key p) hi, hi,
    readFrame_frame fin 8 (by decide) key p (by omega) rest msg.length (fun h => by omega)]
  have : ¬ p.length ≥ 2 := by omega
  simp [this]

theorem recv_terminal_partial (cs : List Rfc6455.Ctl) (tail : List UInt8) (ht : Terminal tail)
    (fuel : Nat) (c : Conn) (msg : List UInt8) (hc : Live c) (hcs : CtlsFit cs)
    (hi : c.inp = Rfc6455.ctlBytes cs ++ tail) :
    ∃ c', c'.closed = true ∧ c'.fault = false ∧ recvLoop (fuel + 1 + cs.length) c msg true = ([], c') := by
  have hcut : tail ≠ [] := ht.1
  obtain ⟨c1, hl1, hi1, _, hr1⟩ := recv_ctls_partial cs (fuel + 1) c msg _ hc hcs hcut hi
  obtain ⟨c3, g1, g2, g3⟩ := ht.2 fuel c1 msg true hl1 hi1
  exact ⟨c3, g1, g2, by rw [hr1, g3]⟩

theorem receiveAll_terminal (ms : List Rfc6455.Msg) (cs : List Rfc6455.Ctl) (tail : List UInt8) (ht : Terminal tail) (c : Conn)
    (hc : Live c) (hm : ∀ m ∈ ms, MsgFits m) (hcs : CtlsFit cs)
    (hi : c.inp = ms.flatMap Rfc6455.Msg.bytes ++ (Rfc6455.ctlBytes cs ++ tail)) :
    ∃ extra c', receiveAll (c.inp.length + 1) c [] = (extra, c') ∧
      extra.filter (· ≠ []) = (ms.map (·.payload)).filter (· ≠ []) ∧ c'.closed = true ∧ c'.fault = false := by
  have hcut : tail ≠ [] := ht.1
  have hrest : Rfc6455.ctlBytes cs ++ tail ≠ [] := by simp [hcut]
  obtain ⟨extra, c1, f1, hl1, hi1, _, hf1, hr1, hx1⟩ := receiveAll_msgs ms (c.inp.length + 1) c [] _ hc hm hrest hi (by omega)
  have hcl := ctlBytes_length cs
  obtain ⟨f2, hf2⟩ : ∃ f2, f1 = (f2 + 1) + cs.length := ⟨f1 - cs.length - 1, by simp at hf1; omega⟩
  obtain ⟨c2, hl2, hi2, _, hr2⟩ := receiveAll_ctls cs (f2 + 1) c1 (extra.reverse ++ []) _ hl1 hcs hcut hi1
  have hclosed2 : c2.isClosed = false := by
    unfold Conn.isClosed; rw [hl2.open_, hi2]
    cases hh : tail with
    | nil => exact absurd hh hcut
    | cons a t => rfl
  obtain ⟨c3, hc3, hf3, hrecv0⟩ := ht.2 c2.inp.length c2 [] false hl2 hi2
  have hrecv : receive c2 = ([], c3) := by unfold receive; exact hrecv0
  refine ⟨(([] : List UInt8) :: (List.replicate cs.length [] ++ (extra.reverse ++ []))).reverse, { c3 with closed := true }, ?_, ?_, rfl, hf3⟩
  · rw [hr1, hf2, hr2, receiveAll, hclosed2]
    simp only [Bool.false_eq_true, if_false, hrecv]
    cases f2 with
    | zero => simp [receiveAll, closed_eta c3 hc3]
    | succ f => simp [receiveAll, Conn.isClosed, hc3]
  · simp only [List.reverse_cons, List.reverse_append, List.reverse_reverse, List.reverse_nil, List.nil_append,
      List.append_nil, List.reverse_replicate, List.filter_append, filter_replicate_nil, hx1]
    simp


theorem receiveAll_terminal_inside (ms : List Rfc6455.Msg) (m : Rfc6455.Msg) (t1 : List Rfc6455.Frag) (cs : List Rfc6455.Ctl)
    (tail : List UInt8) (ht : Terminal tail) (c : Conn)
    (hc : Live c) (hm : ∀ x ∈ ms, MsgFits x) (hfirst : FragFits m.first) (ht1 : ∀ f ∈ t1, FragFits f)
    (htot : m.first.payload.length + (t1.flatMap (·.payload)).length ≤ 2147483632)
    (hcs : CtlsFit cs)
    (hi : c.inp = ms.flatMap Rfc6455.Msg.bytes ++ (Rfc6455.ctlBytes m.first.before ++
            (Rfc6455.frame false (msgOp m) m.first.key m.first.payload ++ (Rfc6455.openBytes t1 ++
              (Rfc6455.ctlBytes cs ++ tail))))) :
    ∃ extra c', receiveAll (c.inp.length + 1) c [] = (extra, c') ∧
      extra.filter (· ≠ []) = (ms.map (·.payload)).filter (· ≠ []) ∧
      c'.closed = true ∧ c'.fault = false := by
  have hcut : tail ≠ [] := ht.1
  have hcutlen : 1 ≤ (tail).length := by
    cases hh : tail with
    | nil => exact absurd hh hcut
    | cons a t => simp
  have hop2 : msgOp m ≤ 2 := by unfold msgOp; split <;> decide
  -- the complete messages
  have hrest0 : Rfc6455.ctlBytes m.first.before ++ (Rfc6455.frame false (msgOp m) m.first.key m.first.payload ++
      (Rfc6455.openBytes t1 ++ (Rfc6455.ctlBytes cs ++ tail))) ≠ [] := by
    simp [frame_ne_nil]
  obtain ⟨extra, c1, f1, hl1, hi1, _, hf1, hr1, hx1⟩ := receiveAll_msgs ms (c.inp.length + 1) c [] _ hc hm hrest0 hi (by omega)
  -- control frames before the first fragment
  have hb := ctlBytes_length m.first.before
  have hfr := frame_length_ge false (msgOp m) m.first.key m.first.payload
  simp only [List.length_append] at hf1
  obtain ⟨f2, hf2⟩ : ∃ f2, f1 = (f2 + 1) + m.first.before.length := ⟨f1 - m.first.before.length - 1, by omega⟩
  have hne1 : Rfc6455.frame false (msgOp m) m.first.key m.first.payload ++
      (Rfc6455.openBytes t1 ++ (Rfc6455.ctlBytes cs ++ tail)) ≠ [] := by
    simp [frame_ne_nil]
  obtain ⟨c2, hl2, hi2, _, hr2⟩ := receiveAll_ctls m.first.before (f2 + 1) c1 (extra.reverse ++ []) _ hl1 hfirst.2 hne1 hi1
  have hcl2 : c2.isClosed = false := isClosed_frame c2 hl2 _ _ (frame_ne_nil false (msgOp m) m.first.key m.first.payload) hi2
  -- the interrupted receive()
  have hne3 : Rfc6455.openBytes t1 ++ (Rfc6455.ctlBytes cs ++ tail) ≠ [] := by simp [hcut]
  have hne4 : Rfc6455.ctlBytes cs ++ tail ≠ [] := by simp [hcut]
  have hsz := openBytes_size_le t1
  have hcsl := ctlBytes_length cs
  have hlen2 : c2.inp.length = (Rfc6455.frame false (msgOp m) m.first.key m.first.payload).length +
      ((Rfc6455.openBytes t1).length + ((Rfc6455.ctlBytes cs).length + (tail).length)) := by
    rw [hi2]; simp only [List.length_append]
  obtain ⟨f3, hf3⟩ : ∃ f3, c2.inp.length = (f3 + 1 + cs.length) + moreSize t1 :=
    ⟨c2.inp.length - moreSize t1 - cs.length - 1, by omega⟩
  have hrecv : ∃ c3, c3.closed = true ∧ c3.fault = false ∧ receive c2 = ([], c3) := by
    unfold receive
    rw [recv_data_more c2.inp.length c2 hl2 [] false (msgOp m) hop2 m.first.key m.first.payload _ hfirst.1
      (by have : m.first.payload.length ≤ 2147483632 := hfirst.1; simpa using this) hi2, hf3]
    obtain ⟨c', h1, h2, _, h4⟩ := recv_open t1 (f3 + 1 + cs.length) { c2 with inp := Rfc6455.openBytes t1 ++ (Rfc6455.ctlBytes cs ++ tail) }
      ([] ++ m.first.payload) _ ⟨hl2.open_, hl2.sound⟩ ht1 (by simpa using htot) hne4 rfl
    rw [h4]
    obtain ⟨c3, g1, g2, g3⟩ := recv_terminal_partial cs tail ht f3 c' ([] ++ m.first.payload ++ t1.flatMap (·.payload)) h1 hcs h2
    exact ⟨c3, g1, g2, g3⟩
  obtain ⟨c3, hc3, hf3', hrecv⟩ := hrecv
  refine ⟨(([] : List UInt8) :: (List.replicate m.first.before.length [] ++ (extra.reverse ++ []))).reverse, { c3 with closed := true }, ?_, ?_, rfl, hf3'⟩
  · rw [hr1, hf2, hr2, receiveAll, hcl2]
    simp only [Bool.false_eq_true, if_false, hrecv]
    cases f2 with
    | zero => simp [receiveAll, closed_eta c3 hc3]
    | succ f => simp [receiveAll, Conn.isClosed, hc3]
  · simp only [List.reverse_cons, List.reverse_append, List.reverse_reverse, List.reverse_nil, List.nil_append,
      List.append_nil, List.reverse_replicate, List.filter_append, filter_replicate_nil, hx1]
    simp


/-! ## handshake header lines -/

theorem dropWhile_all_append {α} (p : α → Bool) (a b : List α) (h : ∀ x ∈ a, p x = true) :
    (a ++ b).dropWhile p = b.dropWhile p := by
  induction a with
  | nil => rfl
  | cons x t ih =>
    have hx := h x (List.mem_cons_self ..)
    simp only [List.cons_append, List.dropWhile_cons, hx, if_true]
    exact ih (fun y hy => h y (List.mem_cons_of_mem _ hy))

theorem dropWhile_head_false {α} (p : α → Bool) (l : List α) (h : ∀ x, l.head? = some x → p x = false) :
    l.dropWhile p = l := by
  cases l with
  | nil => rfl
  | cons x t => simp [List.dropWhile_cons, h x rfl]

theorem takeWhile_all_append {α} (p : α → Bool) (a b : List α) (h : ∀ x ∈ a, p x = true) :
    (a ++ b).takeWhile p = a ++ b.takeWhile p := by
  induction a with
  | nil => rfl
  | cons x t ih =>
    have hx := h x (List.mem_cons_self ..)
    simp only [List.cons_append, List.takeWhile_cons, hx, if_true]
    rw [ih (fun y hy => h y (List.mem_cons_of_mem _ hy))]

/-- trimming removes exactly the blanks around a text that neither starts nor ends with one -/
theorem trimB_pad (a v b : List UInt8) (ha : ∀ x ∈ a, isSp x = true) (hb : ∀ x ∈ b, isSp x = true)
    (hv1 : ∀ x, v.head? = some x → isSp x = false) (hv2 : ∀ x, v.getLast? = some x → isSp x = false) :
    trimB (a ++ v ++ b) = v := by
  unfold trimB
  rw [List.append_assoc, dropWhile_all_append _ _ _ ha]
  by_cases hve : v = []
  · subst hve
    simp only [List.nil_append]
    have : b.dropWhile isSp = [] := by
      have := dropWhile_all_append isSp b [] hb
      simpa using this
    rw [this]; rfl
  · have h1 : (v ++ b).dropWhile isSp = v ++ b := by
      apply dropWhile_head_false
      intro x hx
      cases v with
      | nil => exact absurd rfl hve
      | cons y t => exact hv1 x (by simpa using hx)
    rw [h1, List.reverse_append, dropWhile_all_append _ _ _ (fun x hx => hb x (List.mem_reverse.mp hx))]
    rw [dropWhile_head_false _ v.reverse (fun x hx => hv2 x (by simpa [List.head?_reverse] using hx))]
    simp

/-- **The header value is the field value of RFC 7230 §3.2** (`field-name ":" OWS field-value OWS`), however
    many blanks surround it — none included (the defect repaired in c7d7110 dropped the first byte then) -/
theorem headerField_ows (name ows1 v ows2 : List UInt8)
    (hn : ∀ x ∈ name, x ≠ 58 ∧ isSp x = false)
    (h1 : ∀ x ∈ ows1, isSp x = true) (h2 : ∀ x ∈ ows2, isSp x = true) (hv : v ≠ [])
    (hv1 : ∀ x, v.head? = some x → isSp x = false) (hv2 : ∀ x, v.getLast? = some x → isSp x = false) :
    headerField (name ++ [58] ++ ows1 ++ v ++ ows2) = some (capName true name, v) := by
  unfold headerField
  have hl : trimB (name ++ [58] ++ ows1 ++ v ++ ows2) = name ++ [58] ++ ows1 ++ v := by
    have := trimB_pad [] (name ++ [58] ++ ows1 ++ v) ows2 (by simp) h2
      (by intro x hx
          cases name with
          | nil => simp at hx; subst hx; decide
          | cons y t => simp at hx; subst hx; exact (hn _ (List.mem_cons_self ..)).2)
      (by intro x hx
          rw [List.getLast?_append] at hx
          cases hg : v.getLast? with
          | none => exact absurd (List.getLast?_eq_none_iff.mp hg) hv
          | some y => rw [hg] at hx; simp at hx; subst hx; exact hv2 y hg)
    simpa using this
  simp only [hl]
  have htw : (name ++ [58] ++ ows1 ++ v).takeWhile (· != 58) = name := by
    rw [List.append_assoc, List.append_assoc, takeWhile_all_append _ _ _ (fun x hx => by simpa using (hn x hx).1)]
    simp
  rw [htw]
  have hne : name.length ≠ (name ++ [58] ++ ows1 ++ v).length := by simp
  rw [if_neg hne]
  have hd : (name ++ [58] ++ ows1 ++ v).drop (name.length + 1) = ows1 ++ v := by
    have : name ++ [58] ++ ows1 ++ v = (name ++ [58]) ++ (ows1 ++ v) := by simp
    rw [this]
    exact List.drop_left' (by simp)
  rw [hd]
  have := trimB_pad ows1 v [] h1 (by simp) hv1 hv2
  simp only [List.append_nil] at this
  rw [this]

end AslProofs.WebSocket
