import AslModel.WebSocket
import AslProofs.WebSocket
import AslProofs.Codec
/-!
# C11 — helper lemmas for the client side of the handshake (`WebSocket::connect`) and for the pong / close replies
-/
namespace AslProofs.WebSocket
open AslModel AslModel.WebSocket AslModel.Codec Gen.Ws

/-! ## lines -/

theorem readLine_line (l rest : List UInt8) (h : ∀ b ∈ l, b ≠ 10) : readLine (l ++ 10 :: rest) = (l, rest) := by
  unfold readLine
  induction l with
  | nil => simp
  | cons a t ih =>
    have ha : (a != 10) = true := by simpa using h a (List.mem_cons_self ..)
    have ht : ∀ b ∈ t, b ≠ 10 := fun b hb => h b (List.mem_cons_of_mem _ hb)
    have := ih ht
    simp only [List.cons_append, List.takeWhile_cons, List.dropWhile_cons, ha, if_true]
    simp only [Prod.mk.injEq] at this ⊢
    exact ⟨by rw [this.1], this.2⟩

/-- `"Sec-WebSocket-Accept:"` -/
def acceptName : List UInt8 := [83, 101, 99, 45, 87, 101, 98, 83, 111, 99, 107, 101, 116, 45, 65, 99, 99, 101, 112, 116]

theorem dropWhile_rev_tail (x : List UInt8) (p : List UInt8) (a : UInt8) (ha : isSp a = false) :
    (x.reverse ++ a :: p).dropWhile isSp = (x.reverse.dropWhile isSp) ++ a :: p := by
  rw [List.dropWhile_append]
  split
  · rename_i h
    have : x.reverse.dropWhile isSp = [] := by simpa using h
    rw [this, List.dropWhile_cons]; simp [ha]
  · rfl

/-- a header line whose name is written exactly `Sec-WebSocket-Accept` yields that name, whatever follows the colon -/
theorem headerFieldRaw_accept (x : List UInt8) :
    ∃ v, headerFieldRaw (acceptName ++ 58 :: x) = some (acceptName, v) := by
  unfold headerFieldRaw trimB
  have h1 : (acceptName ++ 58 :: x).dropWhile isSp = acceptName ++ 58 :: x := by
    simp [acceptName, isSp]
  rw [h1]
  have h2 : (acceptName ++ 58 :: x).reverse = x.reverse ++ 58 :: acceptName.reverse := by simp
  rw [h2, dropWhile_rev_tail x acceptName.reverse 58 (by decide)]
  have h3 : (x.reverse.dropWhile isSp ++ 58 :: acceptName.reverse).reverse = acceptName ++ 58 :: (x.reverse.dropWhile isSp).reverse := by simp
  rw [h3]
  have h4 : (acceptName ++ 58 :: (x.reverse.dropWhile isSp).reverse).takeWhile (· != 58) = acceptName := by
    simp [acceptName, List.takeWhile]
  simp only [h4]
  have h5 : acceptName.length ≠ (acceptName ++ 58 :: (x.reverse.dropWhile isSp).reverse).length := by
    simp [acceptName]
  simp

/-! ## base64 text has no line feed -/

theorem encGroups_no_lf : ∀ (d : List UInt8), ∀ b ∈ encGroups d, b ≠ 10
  | a :: b :: c :: t => by
    intro x hx
    rw [encGroups] at hx
    rcases List.mem_append.mp hx with h | h
    · simp only [quad, List.mem_cons, List.not_mem_nil, or_false] at h
      have key : ∀ k, k < 64 → chr k ≠ 10 := fun k hk => by
        have := (AslProofs.Codec.chr_props k hk).2.1
        intro he; rw [he] at this; simp [isSpace] at this
      rcases h with h | h | h | h <;> rw [h] <;> apply key <;> rw [Nat.and_two_pow_sub_one_eq_mod _ 6] <;> omega
    · exact encGroups_no_lf t x h
  | [a, b] => by
    intro x hx
    simp only [encGroups, quad, List.mem_cons, List.not_mem_nil, or_false] at hx
    have key : ∀ k, k < 64 → chr k ≠ 10 := fun k hk => by
      have := (AslProofs.Codec.chr_props k hk).2.1
      intro he; rw [he] at this; simp [isSpace] at this
    rcases hx with h | h | h | h <;> rw [h] <;> apply key <;> rw [Nat.and_two_pow_sub_one_eq_mod _ 6] <;> omega
  | [a] => by
    intro x hx
    simp only [encGroups, quad, List.mem_cons, List.not_mem_nil, or_false] at hx
    have key : ∀ k, k < 64 → chr k ≠ 10 := fun k hk => by
      have := (AslProofs.Codec.chr_props k hk).2.1
      intro he; rw [he] at this; simp [isSpace] at this
    rcases hx with h | h | h | h <;> rw [h] <;> apply key <;> rw [Nat.and_two_pow_sub_one_eq_mod _ 6] <;> omega
  | [] => by intro x hx; simp [encGroups] at hx

theorem mem_set_cases (l : List UInt8) (i : Nat) (v x : UInt8) (h : x ∈ l.set i v) : x ∈ l ∨ x = v := by
  induction l generalizing i with
  | nil => simp at h
  | cons a t ih =>
    cases i with
    | zero =>
      simp only [List.set_cons_zero, List.mem_cons] at h
      rcases h with h | h
      · exact Or.inr h
      · exact Or.inl (List.mem_cons_of_mem _ h)
    | succ j =>
      simp only [List.set_cons_succ, List.mem_cons] at h
      rcases h with h | h
      · exact Or.inl (by rw [h]; exact List.mem_cons_self ..)
      · rcases ih j h with h' | h'
        · exact Or.inl (List.mem_cons_of_mem _ h')
        · exact Or.inr h'

theorem encodeBase64_no_lf (d : List UInt8) : ∀ b ∈ encodeBase64 d, b ≠ 10 := by
  intro b hb
  unfold encodeBase64 at hb
  simp only at hb
  have hq : (61 : UInt8) ≠ 10 := by decide
  split at hb <;> split at hb
  all_goals
    first
    | (rcases mem_set_cases _ _ _ _ hb with h | h
       · rcases mem_set_cases _ _ _ _ h with h' | h'
         · exact encGroups_no_lf d b h'
         · rw [h']; exact hq
       · rw [h]; exact hq)
    | (rcases mem_set_cases _ _ _ _ hb with h | h
       · exact encGroups_no_lf d b h
       · rw [h]; exact hq)
    | exact encGroups_no_lf d b hb

/-! ## the nonce -/

theorem clientNonce_length (n : Nat) : ∀ r : Rng, (clientNonce n r).1.length = n := by
  induction n with
  | zero => intro r; rfl
  | succ k ih => intro r; simp [clientNonce, ih]

/-! ## the answer of the library's server, read by `connect` -/

def strProtocolRaw : List UInt8 := [83, 101, 99, 45, 87, 101, 98, 115, 111, 99, 107, 101, 116, 45, 80, 114, 111, 116, 111, 99, 111, 108]

/-- the answer of `WebSocketServer::process` with `acc` in the place of the accept key -/
def answerWith (acc : List UInt8) (proto : Bool) : List UInt8 :=
  responseHead ++ acc ++ [13, 10] ++ (if proto then responseProtocol else []) ++ [13, 10]

def L0 : List UInt8 := [72, 84, 84, 80, 47, 49, 46, 49, 32, 49, 48, 49, 32, 83, 119, 105, 116, 99, 104, 105, 110, 103, 32, 80, 114, 111, 116, 111, 99, 111, 108, 115, 13]
def L1 : List UInt8 := [85, 112, 103, 114, 97, 100, 101, 58, 32, 119, 101, 98, 115, 111, 99, 107, 101, 116, 13]
def L2 : List UInt8 := [67, 111, 110, 110, 101, 99, 116, 105, 111, 110, 58, 32, 85, 112, 103, 114, 97, 100, 101, 13]
def LP : List UInt8 := [83, 101, 99, 45, 87, 101, 98, 115, 111, 99, 107, 101, 116, 45, 80, 114, 111, 116, 111, 99, 111, 108, 58, 32, 99, 104, 97, 116, 13]

theorem responseHead_lines : responseHead = L0 ++ 10 :: (L1 ++ 10 :: (L2 ++ 10 :: (acceptName ++ [58, 32]))) := by decide
theorem responseProtocol_line : responseProtocol = LP ++ [10] := by decide

theorem readHeadersRaw_step (fuel : Nat) (l rest : List UInt8) (h : Headers) (k v : List UInt8)
    (hl : ∀ b ∈ l, b ≠ 10) (hne : (l == [13]) = false) (hf : headerFieldRaw l = some (k, v)) :
    readHeadersRaw (fuel + 1) (l ++ 10 :: rest) h = readHeadersRaw fuel rest (setHeader h k v) := by
  rw [readHeadersRaw, readLine_line l rest hl]
  simp only [hne, hf, Bool.false_eq_true, if_false]

theorem readHeadersRaw_end (fuel : Nat) (rest : List UInt8) (h : Headers) :
    readHeadersRaw (fuel + 1) ([13] ++ 10 :: rest) h = some h := by
  rw [readHeadersRaw, readLine_line [13] rest (by decide)]
  simp

theorem answerWith_lines (acc : List UInt8) (proto : Bool) :
    answerWith acc proto = L0 ++ 10 :: (L1 ++ 10 :: (L2 ++ 10 :: ((acceptName ++ 58 :: (32 :: acc ++ [13])) ++ 10 ::
      (if proto then LP ++ 10 :: ([13] ++ 10 :: []) else [13] ++ 10 :: [])))) := by
  unfold answerWith
  rw [responseHead_lines, responseProtocol_line]
  cases proto <;> simp

theorem client_accepts_any_accept_value (acc : List UInt8) (proto : Bool) (hacc : ∀ b ∈ acc, b ≠ 10) :
    clientAccepts (answerWith acc proto) = true := by
  obtain ⟨n, hn⟩ : ∃ n, (answerWith acc proto).length + 2 = n + 1 + 1 + 1 + 1 + 1 + 1 := ⟨(answerWith acc proto).length - 4, by
    rw [answerWith_lines]; simp [L0]⟩
  unfold clientAccepts
  rw [hn, answerWith_lines, readLine_line L0 _ (by decide)]
  simp only
  rw [if_neg (by decide), if_neg (by decide), if_neg (by decide)]
  obtain ⟨v, hv⟩ := headerFieldRaw_accept (32 :: acc ++ [13])
  have hl3 : ∀ b ∈ acceptName ++ 58 :: (32 :: acc ++ [13]), b ≠ 10 := by
    intro b hb
    simp only [List.mem_append, List.mem_cons, List.not_mem_nil, or_false] at hb
    rcases hb with hb | hb | (hb | hb) | hb
    · revert b; decide
    · rw [hb]; decide
    · rw [hb]; decide
    · exact hacc b hb
    · rw [hb]; decide
  have hne3 : ((acceptName ++ 58 :: (32 :: acc ++ [13])) == [13]) = false := by simp [acceptName]
  rw [readHeadersRaw_step _ L1 _ [] strUpgrade strWebsocket (by decide) (by decide) (by decide),
      readHeadersRaw_step _ L2 _ _ strConnection strUpgrade (by decide) (by decide) (by decide),
      readHeadersRaw_step _ _ _ _ acceptName v hl3 hne3 hv]
  cases proto
  · simp only [Bool.false_eq_true, if_false]
    rw [readHeadersRaw_end]
    simp [setHeader, getHeader, acceptName, strUpgrade, strConnection, strWebsocket, splitCommaSp]
  · simp only [if_true]
    rw [readHeadersRaw_step _ LP _ _ strProtocolRaw [99, 104, 97, 116] (by decide) (by decide) (by decide), readHeadersRaw_end]
    simp [setHeader, getHeader, acceptName, strUpgrade, strConnection, strWebsocket, splitCommaSp, strProtocolRaw]

end AslProofs.WebSocket
