import AslModel.WebSocket
import AslProofs.WebSocket
/-!
# C11 — a connection cut exactly at a frame boundary inside a fragmented message

`Terminal` (AslProofs/WebSocket.lean) describes a tail on which `receive()` gives up at once.  A *complete* frame that is
followed by the end of the stream is different: it is consumed, and the loop gives up one iteration later, when `closed()`
sees the end of the stream.  `TerminalP` is that notion (for a reader that is inside a message, `partial = true`, with at least
two iterations of fuel); the proofs below repeat `recv_terminal_partial` / `receiveAll_terminal_inside` for it.
-/
namespace AslProofs.WebSocket
open AslModel AslModel.WebSocket Gen.Ws

/-- a tail (at least one whole frame header long) after which a reader that is inside a message gives up within two iterations -/
def TerminalP (tail : List UInt8) : Prop :=
  2 ≤ tail.length ∧ ∀ (fuel : Nat) (c : Conn) (msg : List UInt8), 1 ≤ fuel → Live c → c.inp = tail →
    ∃ c', c'.closed = true ∧ c'.fault = false ∧ recvLoop (fuel + 1) c msg true = ([], c')

theorem recvLoop_eof (fuel : Nat) (c : Conn) (msg : List UInt8) (pm : Bool) (hi : c.inp = []) :
    recvLoop (fuel + 1) c msg pm = ([], { c with closed := true }) := by
  rw [recvLoop]
  simp [Conn.isClosed, hi]

theorem readFrame_oversized (fin : Bool) (op : Nat) (hop : op < 3) (key : Option Rfc6455.Key) (p rest : List UInt8)
    (hp : Fits p) (msgLen : Nat) (hsum : msgLen + p.length > 2147483632) :
    readFrame msgLen (Rfc6455.frame fin op key p ++ rest) = .close := by
  cases h : readFrame msgLen (Rfc6455.frame fin op key p ++ rest) with
  | close => rfl
  | fault => exact absurd h (readFrame_no_fault _ _)
  | ok f o b r =>
    exfalso
    obtain ⟨_, _, hs⟩ := readFrame_ok_props _ _ _ _ _ _ h
    -- the frame that was read is this frame: compare with the reader that has nothing accumulated
    rcases readFrame_mono msgLen (Rfc6455.frame fin op key p ++ rest) with h0 | h0
    · rw [h0] at h; exact absurd h (by simp)
    · rw [h] at h0
      have hfull := readFrame_frame fin op (by omega) key p hp rest 0 (fun _ => by have : p.length ≤ 2147483632 := hp; omega)
      rw [hfull] at h0
      simp only [Frame.ok.injEq] at h0
      obtain ⟨_, ho, hbb, _⟩ := h0
      rw [ho] at hs
      have := hs hop
      rw [hbb] at this
      omega

/-- an open data frame (FIN clear) followed by the end of the stream, whatever the reader had accumulated -/
theorem recv_open_frame_eof (op : Nat) (hop : op ≤ 2) (key : Option Rfc6455.Key) (p : List UInt8) (hp : Fits p)
    (fuel : Nat) (c : Conn) (msg : List UInt8) (pm : Bool) (hfu : 1 ≤ fuel) (hc : Live c) (hi : c.inp = Rfc6455.frame false op key p) :
    ∃ c', c'.closed = true ∧ c'.fault = false ∧ recvLoop (fuel + 1) c msg pm = ([], c') := by
  obtain ⟨f, rfl⟩ : ∃ f, fuel = f + 1 := ⟨fuel - 1, by omega⟩
  by_cases hsum : msg.length + p.length ≤ 2147483632
  · rw [recv_data_more (f + 1) c hc msg pm op hop key p [] hp hsum (by simpa using hi)]
    rw [recvLoop_eof f _ _ _ rfl]
    refine ⟨_, ?_, ?_, rfl⟩
    · rfl
    · exact hc.sound
  · have hrf := readFrame_oversized false op (by omega) key p [] hp msg.length (by omega)
    rw [List.append_nil] at hrf
    rw [recvLoop, isClosed_frame c hc _ [] (frame_ne_nil false op key p) (by simpa using hi), hi, hrf]
    refine ⟨_, ?_, ?_, rfl⟩
    · rfl
    · exact hc.sound

theorem terminalP_open_frame (op : Nat) (hop : op ≤ 2) (key : Option Rfc6455.Key) (p : List UInt8) (hp : Fits p) :
    TerminalP (Rfc6455.frame false op key p) :=
  ⟨frame_length_ge false op key p, fun fuel c msg hfu hc hi => recv_open_frame_eof op hop key p hp fuel c msg true hfu hc hi⟩

/-- a ping or pong frame followed by the end of the stream -/
theorem terminalP_ctl (x : Rfc6455.Ctl) (hx : Fits x.payload) : TerminalP x.bytes := by
  refine ⟨frame_length_ge true _ x.key x.payload, ?_⟩
  intro fuel c msg hfu hc hi
  obtain ⟨f, rfl⟩ : ∃ f, fuel = f + 1 := ⟨fuel - 1, by omega⟩
  rw [recv_ctl (f + 1) c hc msg true x [] hx (by simpa using hi)]
  simp only [if_true]
  obtain ⟨hl, hin, _⟩ := afterCtl_props c hc x.pong x.payload []
  rw [recvLoop_eof f _ _ _ hin]
  refine ⟨_, ?_, ?_, rfl⟩
  · rfl
  · exact hl.sound

theorem recv_terminalP_partial (cs : List Rfc6455.Ctl) (tail : List UInt8) (ht : TerminalP tail)
    (fuel : Nat) (hfu : 1 ≤ fuel) (c : Conn) (msg : List UInt8) (hc : Live c) (hcs : CtlsFit cs)
    (hi : c.inp = Rfc6455.ctlBytes cs ++ tail) :
    ∃ c', c'.closed = true ∧ c'.fault = false ∧ recvLoop (fuel + 1 + cs.length) c msg true = ([], c') := by
  have hcut : tail ≠ [] := by intro h; have := ht.1; rw [h] at this; simp at this
  obtain ⟨c1, hl1, hi1, _, hr1⟩ := recv_ctls_partial cs (fuel + 1) c msg _ hc hcs hcut hi
  obtain ⟨c3, g1, g2, g3⟩ := ht.2 fuel c1 msg hfu hl1 hi1
  exact ⟨c3, g1, g2, by rw [hr1, g3]⟩

theorem receiveAll_terminalP_inside (ms : List Rfc6455.Msg) (m : Rfc6455.Msg) (t1 : List Rfc6455.Frag) (cs : List Rfc6455.Ctl)
    (tail : List UInt8) (ht : TerminalP tail) (c : Conn)
    (hc : Live c) (hm : ∀ x ∈ ms, MsgFits x) (hfirst : FragFits m.first) (ht1 : ∀ f ∈ t1, FragFits f)
    (htot : m.first.payload.length + (t1.flatMap (·.payload)).length ≤ 2147483632)
    (hcs : CtlsFit cs)
    (hi : c.inp = ms.flatMap Rfc6455.Msg.bytes ++ (Rfc6455.ctlBytes m.first.before ++
            (Rfc6455.frame false (msgOp m) m.first.key m.first.payload ++ (Rfc6455.openBytes t1 ++
              (Rfc6455.ctlBytes cs ++ tail))))) :
    ∃ extra c', receiveAll (c.inp.length + 1) c [] = (extra, c') ∧
      extra.filter (· ≠ []) = (ms.map (·.payload)).filter (· ≠ []) ∧
      c'.closed = true ∧ c'.fault = false := by
  have hcut : tail ≠ [] := by intro h; have := ht.1; rw [h] at this; simp at this
  have hcutlen : 2 ≤ (tail).length := ht.1
  have hop2 : msgOp m ≤ 2 := by unfold msgOp; split <;> decide
  -- the complete messages
  have hrest0 : Rfc6455.ctlBytes m.first.before ++ (Rfc6455.frame false (msgOp m) m.first.key m.first.payload ++
      (Rfc6455.openBytes t1 ++ (Rfc6455.ctlBytes cs ++ tail))) ≠ [] := by
    simp [frame_ne_nil]
  obtain ⟨extra, c1, f1, hl1, hi1, _, hf1, hr1, hx1⟩ := receiveAll_msgs ms (c.inp.length + 1) c [] _ hc hm hrest0 hi (by omega)
  -- control frames before the first fragment
  have hb := ctlBytes_length m.first.before
  have hfr := frame_length_ge false (msgOp m) m.first.key m.first.payload
  simp only [List.length_append] at hf1
  obtain ⟨f2, hf2⟩ : ∃ f2, f1 = (f2 + 1) + m.first.before.length := ⟨f1 - m.first.before.length - 1, by omega⟩
  have hne1 : Rfc6455.frame false (msgOp m) m.first.key m.first.payload ++
      (Rfc6455.openBytes t1 ++ (Rfc6455.ctlBytes cs ++ tail)) ≠ [] := by
    simp [frame_ne_nil]
  obtain ⟨c2, hl2, hi2, _, hr2⟩ := receiveAll_ctls m.first.before (f2 + 1) c1 (extra.reverse ++ []) _ hl1 hfirst.2 hne1 hi1
  have hcl2 : c2.isClosed = false := isClosed_frame c2 hl2 _ _ (frame_ne_nil false (msgOp m) m.first.key m.first.payload) hi2
  -- the interrupted receive()
  have hne3 : Rfc6455.openBytes t1 ++ (Rfc6455.ctlBytes cs ++ tail) ≠ [] := by simp [hcut]
  have hne4 : Rfc6455.ctlBytes cs ++ tail ≠ [] := by simp [hcut]
  have hsz := openBytes_size_le t1
  have hcsl := ctlBytes_length cs
  have hlen2 : c2.inp.length = (Rfc6455.frame false (msgOp m) m.first.key m.first.payload).length +
      ((Rfc6455.openBytes t1).length + ((Rfc6455.ctlBytes cs).length + (tail).length)) := by
    rw [hi2]; simp only [List.length_append]
  obtain ⟨f3, hf3⟩ : ∃ f3, c2.inp.length = (f3 + 1 + cs.length) + moreSize t1 :=
    ⟨c2.inp.length - moreSize t1 - cs.length - 1, by omega⟩
  have hrecv : ∃ c3, c3.closed = true ∧ c3.fault = false ∧ receive c2 = ([], c3) := by
    unfold receive
    rw [recv_data_more c2.inp.length c2 hl2 [] false (msgOp m) hop2 m.first.key m.first.payload _ hfirst.1
      (by have : m.first.payload.length ≤ 2147483632 := hfirst.1; simpa using this) hi2, hf3]
    obtain ⟨c', h1, h2, _, h4⟩ := recv_open t1 (f3 + 1 + cs.length) { c2 with inp := Rfc6455.openBytes t1 ++ (Rfc6455.ctlBytes cs ++ tail) }
      ([] ++ m.first.payload) _ ⟨hl2.open_, hl2.sound⟩ ht1 (by simpa using htot) hne4 rfl
    rw [h4]
    obtain ⟨c3, g1, g2, g3⟩ := recv_terminalP_partial cs tail ht f3 (by omega) c' ([] ++ m.first.payload ++ t1.flatMap (·.payload)) h1 hcs h2
    exact ⟨c3, g1, g2, g3⟩
  obtain ⟨c3, hc3, hf3', hrecv⟩ := hrecv
  refine ⟨(([] : List UInt8) :: (List.replicate m.first.before.length [] ++ (extra.reverse ++ []))).reverse, { c3 with closed := true }, ?_, ?_, rfl, hf3'⟩
  · rw [hr1, hf2, hr2, receiveAll, hcl2]
    simp only [Bool.false_eq_true, if_false, hrecv]
    cases f2 with
    | zero => simp [receiveAll, closed_eta c3 hc3]
    | succ f => simp [receiveAll, Conn.isClosed, hc3]
  · simp only [List.reverse_cons, List.reverse_append, List.reverse_reverse, List.reverse_nil, List.nil_append,
      List.append_nil, List.reverse_replicate, List.filter_append, filter_replicate_nil, hx1]
    simp

theorem receiveAll_first_frame_eof (ms : List Rfc6455.Msg) (cs : List Rfc6455.Ctl) (op : Nat) (hop : op ≤ 2) (key : Option Rfc6455.Key) (p : List UInt8) (hp : Fits p) (c : Conn)
    (hc : Live c) (hm : ∀ m ∈ ms, MsgFits m) (hcs : CtlsFit cs)
    (hi : c.inp = ms.flatMap Rfc6455.Msg.bytes ++ (Rfc6455.ctlBytes cs ++ (Rfc6455.frame false op key p))) :
    ∃ extra c', receiveAll (c.inp.length + 1) c [] = (extra, c') ∧
      extra.filter (· ≠ []) = (ms.map (·.payload)).filter (· ≠ []) ∧ c'.closed = true ∧ c'.fault = false := by
  have hcut : (Rfc6455.frame false op key p) ≠ [] := frame_ne_nil false op key p
  have hrest : Rfc6455.ctlBytes cs ++ (Rfc6455.frame false op key p) ≠ [] := by simp [hcut]
  obtain ⟨extra, c1, f1, hl1, hi1, _, hf1, hr1, hx1⟩ := receiveAll_msgs ms (c.inp.length + 1) c [] _ hc hm hrest hi (by omega)
  have hcl := ctlBytes_length cs
  obtain ⟨f2, hf2⟩ : ∃ f2, f1 = (f2 + 1) + cs.length := ⟨f1 - cs.length - 1, by simp at hf1; omega⟩
  obtain ⟨c2, hl2, hi2, _, hr2⟩ := receiveAll_ctls cs (f2 + 1) c1 (extra.reverse ++ []) _ hl1 hcs hcut hi1
  have hclosed2 : c2.isClosed = false := by
    unfold Conn.isClosed; rw [hl2.open_, hi2]
    cases hh : (Rfc6455.frame false op key p) with
    | nil => exact absurd hh hcut
    | cons a t => rfl
  obtain ⟨c3, hc3, hf3, hrecv0⟩ := recv_open_frame_eof op hop key p hp c2.inp.length c2 [] false (by rw [hi2]; have := frame_length_ge false op key p; omega) hl2 hi2
  have hrecv : receive c2 = ([], c3) := by unfold receive; exact hrecv0
  refine ⟨(([] : List UInt8) :: (List.replicate cs.length [] ++ (extra.reverse ++ []))).reverse, { c3 with closed := true }, ?_, ?_, rfl, hf3⟩
  · rw [hr1, hf2, hr2, receiveAll, hclosed2]
    simp only [Bool.false_eq_true, if_false, hrecv]
    cases f2 with
    | zero => simp [receiveAll, closed_eta c3 hc3]
    | succ f => simp [receiveAll, Conn.isClosed, hc3]
  · simp only [List.reverse_cons, List.reverse_append, List.reverse_reverse, List.reverse_nil, List.nil_append,
      List.append_nil, List.reverse_replicate, List.filter_append, filter_replicate_nil, hx1]
    simp

end AslProofs.WebSocket
