import AslModel.WebSocket
import AslProofs.WebSocket
/-!
# C11 — prefix monotonicity of the reader

For *every* byte stream `s` and continuation `t`: what `receive()` does on `s` followed by the end of the stream is either to give up
(empty result, closed) or exactly what it does on `s ++ t` (`recvLoop_ext`, by `readFrame_append`: frames are self-delimiting); hence
the non-empty results of reading `s` until `closed()` are a prefix of those of reading `s ++ t` (`receiveAll_ext`).
-/
namespace AslProofs.WebSocket
open AslModel AslModel.WebSocket Gen.Ws

/-- the same connection with more bytes to come before the end of the stream -/
def ext (c : Conn) (t : List UInt8) : Conn := { c with inp := c.inp ++ t }

theorem recvLoop_ext : ∀ (fuel : Nat) (c : Conn) (msg : List UInt8) (pm : Bool) (t : List UInt8),
    ((recvLoop fuel c msg pm).1 = [] ∧ (recvLoop fuel c msg pm).2.closed = true) ∨
    recvLoop fuel (ext c t) msg pm = ((recvLoop fuel c msg pm).1, ext (recvLoop fuel c msg pm).2 t) := by
  intro fuel
  induction fuel with
  | zero => intro c msg pm t; right; simp [recvLoop]
  | succ fuel ih =>
    intro c msg pm t
    by_cases hcl : c.isClosed = true
    · left; rw [recvLoop]; simp [hcl]
    · have hcl' : c.isClosed = false := by simpa using hcl
      have hopen : c.closed = false ∧ c.inp ≠ [] := by
        unfold Conn.isClosed at hcl'
        simp at hcl'
        exact ⟨hcl'.1, by intro h; simp [h] at hcl'⟩
      have hecl : (ext c t).isClosed = false := by
        unfold Conn.isClosed ext
        simp [hopen.1, hopen.2]
      cases hrf : readFrame msg.length c.inp with
      | close => left; rw [recvLoop]; simp [hcl', hrf]
      | fault => left; rw [recvLoop]; simp [hcl', hrf]
      | ok fin op buf rest =>
        have happ := readFrame_append msg.length c.inp t fin op buf rest hrf
        have hx : ext { c with inp := rest } t = { (ext c t) with inp := rest ++ t } := rfl
        rw [recvLoop, recvLoop]
        simp only [hcl', hecl, hrf, Bool.false_eq_true, if_false]
        have happ' : readFrame msg.length (ext c t).inp = .ok fin op buf (rest ++ t) := happ
        simp only [happ']
        by_cases h2 : op ≤ 2
        · simp only [h2, if_true]
          cases fin
          · simp only [Bool.false_eq_true, if_false]
            exact ih { c with inp := rest } (msg ++ buf) true t
          · right; simp [ext]
        · simp only [h2, if_false]
          by_cases h8 : op = 8
          · right; simp only [h8, if_true]; split <;> simp [ext]
          · simp only [h8, if_false]
            by_cases h9 : (op = 9 || op = 10) = true
            · simp only [h9, if_true]
              have e1 : (ext c t).isClient = c.isClient := rfl
              have e2 : (ext c t).rng = c.rng := rfl
              have e3 : (ext c t).closed = c.closed := rfl
              have e4 : (ext c t).code = c.code := rfl
              have e5 : (ext c t).out = c.out := rfl
              have e6 : (ext c t).fault = c.fault := rfl
              simp only [e1, e2, e3, e4, e5, e6]
              by_cases h9' : op = 9
              · simp only [h9', if_true]
                cases hs : sendFrame c.isClient c.rng 10 buf with
                | none =>
                  simp only []
                  by_cases hfin : (fin && (decide (9 < 8) || !pm)) = true
                  · right; simp only [hfin, if_true]; rfl
                  · simp only [hfin, if_false]
                    exact ih { c with inp := rest, fault := true } msg pm t
                | some pr =>
                  obtain ⟨bytes, rng⟩ := pr
                  simp only []
                  by_cases hfin : (fin && (decide (9 < 8) || !pm)) = true
                  · right; simp only [hfin, if_true]; rfl
                  · simp only [hfin, if_false]
                    exact ih { c with inp := rest, out := c.out ++ bytes, rng := rng } msg pm t
              · simp only [h9', if_false]
                by_cases hfin : (fin && (decide (op < 8) || !pm)) = true
                · right; simp only [hfin, if_true]; rfl
                · simp only [hfin, if_false]
                  exact ih { c with inp := rest } msg pm t
            · left; simp [h9]

theorem receiveAll_acc : ∀ (F : Nat) (c : Conn) (acc : List (List UInt8)),
    ∃ more, (receiveAll F c acc).1 = acc.reverse ++ more := by
  intro F
  induction F with
  | zero => intro c acc; exact ⟨[], by simp [receiveAll]⟩
  | succ F ih =>
    intro c acc
    rw [receiveAll]
    by_cases hcl : c.isClosed = true
    · exact ⟨[], by simp [hcl]⟩
    · have hcl' : c.isClosed = false := by simpa using hcl
      simp only [hcl', Bool.false_eq_true, if_false]
      cases hr : receive c with
      | mk m c' =>
        simp only []
        obtain ⟨more, hm⟩ := ih c' (m :: acc)
        exact ⟨[m] ++ more, by rw [hm]; simp⟩

theorem receiveAll_closed (F : Nat) (c : Conn) (acc : List (List UInt8)) (h : c.closed = true) :
    (receiveAll F c acc).1 = acc.reverse := by
  cases F with
  | zero => simp [receiveAll]
  | succ F => rw [receiveAll]; simp [Conn.isClosed, h]

theorem recvLoop_more_fuel (c : Conn) (extra : Nat) : recvLoop (c.inp.length + 1 + extra) c [] false = receive c := by
  induction extra with
  | zero => rfl
  | succ n ih => rw [← ih, ← Nat.add_assoc, ← recvLoop_fuel _ c [] false (by omega)]

theorem receiveAll_ext : ∀ (F : Nat) (c : Conn) (acc : List (List UInt8)) (t : List UInt8), c.fault = false →
    ∃ more, ((receiveAll F (ext c t) acc).1).filter (· ≠ []) = ((receiveAll F c acc).1).filter (· ≠ []) ++ more := by
  intro F
  induction F with
  | zero => intro c acc t _; exact ⟨[], by simp [receiveAll]⟩
  | succ F ih =>
    intro c acc t hf
    by_cases hcl : c.isClosed = true
    · obtain ⟨more, hm⟩ := receiveAll_acc (F + 1) (ext c t) acc
      refine ⟨more.filter (· ≠ []), ?_⟩
      rw [hm, receiveAll]
      simp [hcl]
    · have hcl' : c.isClosed = false := by simpa using hcl
      have hopen : c.closed = false ∧ c.inp ≠ [] := by
        unfold Conn.isClosed at hcl'
        simp at hcl'
        exact ⟨hcl'.1, by intro h; simp [h] at hcl'⟩
      have hecl : (ext c t).isClosed = false := by
        unfold Conn.isClosed ext
        simp [hopen.1, hopen.2]
      have hG := recvLoop_more_fuel c t.length
      have hGe : receive (ext c t) = recvLoop (c.inp.length + 1 + t.length) (ext c t) [] false := by
        unfold receive
        have : (ext c t).inp.length + 1 = c.inp.length + 1 + t.length := by simp [ext]; omega
        rw [this]
      have hprog := recvLoop_progress (c.inp.length + 1) c [] false hf
      rw [receiveAll, receiveAll]
      simp only [hcl', hecl, Bool.false_eq_true, if_false]
      rcases recvLoop_ext (c.inp.length + 1 + t.length) c [] false t with h | h
      · rw [hG] at h
        cases hr : receive c with
        | mk m c' =>
          rw [hr] at h
          simp only at h
          cases hre : receive (ext c t) with
          | mk m2 c2 =>
            simp only []
            obtain ⟨more, hm⟩ := receiveAll_acc F c2 (m2 :: acc)
            rw [receiveAll_closed F c' (m :: acc) h.2, hm, h.1]
            exact ⟨([m2] ++ more).filter (· ≠ []), by simp⟩
      · rw [hG, ← hGe] at h
        cases hr : receive c with
        | mk m c' =>
          rw [hr] at h
          rw [h]
          simp only []
          have hf' : c'.fault = false := by
            have := hprog.1
            unfold receive at hr
            rw [hr] at this
            exact this
          exact ih c' (m :: acc) t hf'

end AslProofs.WebSocket
