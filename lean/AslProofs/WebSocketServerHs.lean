import AslModel.WebSocket
import AslProofs.WebSocket
/-!
# C11 — the server handshake on every well-formed upgrade request (helpers)

`serverHandshake` (the model of `WebSocketServer::serve(Socket)` + `process`) reads a request line and header
lines; here the request is described by its parts (`ReqLine`: field name, optional blanks, field value, optional
blanks) and the header loop is shown to store exactly the field values, a later line replacing an earlier one.
-/
namespace AslProofs.WebSocketServerHs
open AslModel.WebSocket AslProofs.WebSocket Gen.Ws

/-- one header line of a request: `name ":" OWS value OWS CRLF` -/
structure ReqLine where
  name : List UInt8
  ows1 : List UInt8
  value : List UInt8
  ows2 : List UInt8

/-- blanks allowed around a field value: space and tab (RFC 7230 OWS) -/
def isOws (c : UInt8) : Bool := c == 32 || c == 9

/-- RFC 7230 §3.2 shape: the name has no colon and no blank, the value is non-empty, has no line feed and no
    blank at either end, the optional whitespace is spaces and tabs -/
def ReqLine.WF (l : ReqLine) : Prop :=
  (∀ x ∈ l.name, x ≠ 58 ∧ isSp x = false) ∧ (∀ x ∈ l.ows1, isOws x = true) ∧ (∀ x ∈ l.ows2, isOws x = true) ∧
  l.value ≠ [] ∧ (∀ x ∈ l.value, x ≠ 10) ∧
  (∀ x, l.value.head? = some x → isSp x = false) ∧ (∀ x, l.value.getLast? = some x → isSp x = false)

/-- the bytes of the line without its LF -/
def ReqLine.body (l : ReqLine) : List UInt8 := l.name ++ [58] ++ l.ows1 ++ l.value ++ (l.ows2 ++ [13])
def ReqLine.bytes (l : ReqLine) : List UInt8 := l.body ++ [10]

/-- what the header loop stores for the line -/
def ReqLine.field (l : ReqLine) : List UInt8 × List UInt8 := (capName true l.name, l.value)

def headerBytes (ls : List ReqLine) : List UInt8 := (ls.map ReqLine.bytes).flatten

/-- the header table after the lines: `headers[name] = value` for each, in order -/
def table (ls : List ReqLine) (h : Headers) : Headers := ls.foldl (fun h l => setHeader h l.field.1 l.field.2) h

theorem isOws_isSp {x : UInt8} (h : isOws x = true) : isSp x = true := by
  simp only [isOws, Bool.or_eq_true, beq_iff_eq] at h
  rcases h with h | h <;> subst h <;> decide

theorem isOws_ne10 {x : UInt8} (h : isOws x = true) : x ≠ 10 := by
  intro h'; subst h'; revert h; decide

theorem readLine_of (a rest : List UInt8) (ha : ∀ x ∈ a, x ≠ 10) : readLine (a ++ 10 :: rest) = (a, rest) := by
  unfold readLine
  have h1 : ∀ x ∈ a, (x != 10) = true := fun x hx => by simpa using ha x hx
  rw [List.takeWhile_append_of_pos h1, List.dropWhile_append_of_pos h1]
  simp

theorem body_no_lf (l : ReqLine) (hl : l.WF) : ∀ x ∈ l.body, x ≠ 10 := by
  obtain ⟨hn, h1, h2, _, hv, _, _⟩ := hl
  intro x hx
  simp only [ReqLine.body, List.mem_append, List.mem_cons, List.not_mem_nil, or_false] at hx
  rcases hx with (((hx | hx) | hx) | hx) | (hx | hx)
  · intro h; subst h; have := (hn _ hx).2; revert this; decide
  · subst hx; decide
  · exact isOws_ne10 (h1 _ hx)
  · exact hv _ hx
  · exact isOws_ne10 (h2 _ hx)
  · subst hx; decide

theorem body_ne_cr (l : ReqLine) : (l.body == [13]) = false := by
  have : l.body ≠ [13] := by
    intro h
    have := congrArg List.length h
    simp [ReqLine.body] at this
    omega
  simpa using this

theorem headerField_body (l : ReqLine) (hl : l.WF) : headerField l.body = some l.field := by
  obtain ⟨hn, h1, h2, hv, _, hv1, hv2⟩ := hl
  have := headerField_ows l.name l.ows1 l.value (l.ows2 ++ [13]) hn (fun x hx => isOws_isSp (h1 x hx))
    (by intro x hx
        simp only [List.mem_append, List.mem_singleton] at hx
        rcases hx with hx | hx
        · exact isOws_isSp (h2 x hx)
        · subst hx; decide) hv hv1 hv2
  simpa [ReqLine.body, ReqLine.field] using this

/-- **the header loop stores exactly the field values of the lines**, in order, and stops at the empty line,
    whatever follows it -/
theorem readHeaders_lines : ∀ (ls : List ReqLine) (fuel : Nat) (h : Headers) (tail : List UInt8),
    (∀ l ∈ ls, l.WF) → ls.length < fuel →
    readHeaders fuel (headerBytes ls ++ [13, 10] ++ tail) h = some (table ls h)
  | [], fuel, h, tail, _, hf => by
    obtain ⟨f, rfl⟩ : ∃ f, fuel = f + 1 := ⟨fuel - 1, by simp at hf; omega⟩
    have : readLine ([13] ++ 10 :: tail) = ([13], tail) := readLine_of [13] tail (by decide)
    simp only [headerBytes, List.map_nil, List.flatten_nil, List.nil_append, table, List.foldl_nil]
    unfold readHeaders
    have e : ([13, 10] ++ tail : List UInt8) = [13] ++ 10 :: tail := rfl
    rw [e, this]
    simp
  | l :: ls, fuel, h, tail, hwf, hf => by
    obtain ⟨f, rfl⟩ : ∃ f, fuel = f + 1 := ⟨fuel - 1, by simp at hf; omega⟩
    have hl := hwf l (List.mem_cons_self ..)
    have e : headerBytes (l :: ls) ++ [13, 10] ++ tail = l.body ++ 10 :: (headerBytes ls ++ [13, 10] ++ tail) := by
      simp [headerBytes, ReqLine.bytes]
    have hr := readLine_of l.body (headerBytes ls ++ [13, 10] ++ tail) (body_no_lf l hl)
    rw [e]
    unfold readHeaders
    rw [hr]
    simp only [body_ne_cr, Bool.false_eq_true, if_false, headerField_body l hl]
    have ih := readHeaders_lines ls f (setHeader h l.field.1 l.field.2) tail
      (fun x hx => hwf x (List.mem_cons_of_mem _ hx)) (by simp at hf; omega)
    simpa [table] using ih

/-- the last line with a given (capitalised) name -/
def lastField (ls : List ReqLine) (k : List UInt8) : Option (List UInt8) :=
  (ls.reverse.find? (fun l => l.field.1 == k)).map (fun l => l.field.2)

theorem find_setHeader (h : Headers) (k v k' : List UInt8) :
    (setHeader h k v).find? (·.1 == k') = if k == k' then some (k, v) else h.find? (·.1 == k') := by
  unfold setHeader
  by_cases hk : k = k'
  · subst hk; simp
  · have hk' : (k == k') = false := by simpa using hk
    simp only [List.find?_cons, hk', if_false, Bool.false_eq_true]
    induction h with
    | nil => simp
    | cons a t ih =>
      by_cases ha : a.1 = k
      · have : (a.1 == k') = false := by rw [ha]; exact hk'
        simp [ha, hk', ih]
      · have hne : (a.1 != k) = true := by simpa using ha
        simp only [List.filter_cons, hne, if_true, List.find?_cons]
        split
        · rfl
        · exact ih

/-- **a later line replaces an earlier one**: looking a name up in the table gives the value of the last line
    carrying it (compared after capitalisation), or what was there before -/
theorem find_table : ∀ (ls : List ReqLine) (h : Headers) (k : List UInt8),
    ((table ls h).find? (·.1 == k)).map (·.2) =
      (match lastField ls k with | some v => some v | none => (h.find? (·.1 == k)).map (·.2))
  | [], h, k => by simp [table, lastField]
  | l :: ls, h, k => by
    have ih := find_table ls (setHeader h l.field.1 l.field.2) k
    have e : table (l :: ls) h = table ls (setHeader h l.field.1 l.field.2) := rfl
    rw [e, ih]
    simp only [lastField, List.reverse_cons, List.find?_append, find_setHeader]
    cases hfind : ls.reverse.find? (fun l => l.field.1 == k) with
    | some x => simp
    | none =>
      by_cases hk : l.field.1 = k
      · simp [hk]
      · have : (l.field.1 == k) = false := by simpa using hk
        simp [this]

theorem getHeader_table (ls : List ReqLine) (k : List UInt8) :
    getHeader (table ls []) k = (lastField ls k).getD [] := by
  unfold getHeader
  rw [find_table]
  cases lastField ls k <;> simp

theorem hasHeader_table (ls : List ReqLine) (k : List UInt8) :
    hasHeader (table ls []) k = (lastField ls k).isSome := by
  unfold hasHeader
  rw [← Option.isSome_map (f := (·.2)), find_table]
  cases lastField ls k <;> simp

/-- an upgrade request: request line `method SP target SP version` (the version ends with CR), LF, the header
    lines, the empty line, then anything (the first frames) -/
def upgradeRequest (method target version : List UInt8) (ls : List ReqLine) (tail : List UInt8) : List UInt8 :=
  (method ++ [32] ++ target ++ [32] ++ version) ++ 10 :: (headerBytes ls ++ [13, 10] ++ tail)

theorem length_le_headerBytes : ∀ ls : List ReqLine, ls.length ≤ (headerBytes ls).length
  | [] => by simp [headerBytes]
  | l :: ls => by
    have := length_le_headerBytes ls
    simp only [headerBytes, List.map_cons, List.flatten_cons, List.length_append, List.length_cons] at this ⊢
    simp only [ReqLine.bytes, List.length_append, List.length_cons, List.length_nil]
    omega

theorem takeWhile_sp (a b : List UInt8) (ha : ∀ x ∈ a, x ≠ 32) :
    (a ++ 32 :: b).takeWhile (· != 32) = a ∧ (a ++ 32 :: b).dropWhile (· != 32) = 32 :: b := by
  have h1 : ∀ x ∈ a, (x != 32) = true := fun x hx => by simpa using ha x hx
  rw [List.takeWhile_append_of_pos h1, List.dropWhile_append_of_pos h1]
  simp

/-- **the whole server handshake on a well-formed request**: the answer depends only on the last `Upgrade`,
    `Connection`, `Sec-WebSocket-Key` and `Sec-WebSocket-Protocol` lines (names compared after capitalisation,
    so in any case; any optional whitespace) -/
theorem serverHandshake_wellformed (method target version : List UInt8) (ls : List ReqLine) (tail : List UInt8)
    (hm : ∀ x ∈ method, x ≠ 32 ∧ x ≠ 10) (ht : ∀ x ∈ target, x ≠ 32 ∧ x ≠ 10) (hv : ∀ x ∈ version, x ≠ 10)
    (hwf : ∀ l ∈ ls, l.WF) :
    serverHandshake (upgradeRequest method target version ls tail) =
      if !(lastField ls strUpgrade).isSome || (lastField ls strUpgrade).getD [] != strWebsocket ||
          !(splitCommaSp [] ((lastField ls strConnection).getD [])).contains strUpgrade then response400
      else serverResponse ((lastField ls strKey).getD []) (lastField ls strProtocol).isSome := by
  have hhead : ∀ x ∈ method ++ [32] ++ target ++ [32] ++ version, x ≠ 10 := by
    intro x hx
    simp only [List.mem_append, List.mem_cons, List.not_mem_nil, or_false] at hx
    rcases hx with (((hx | hx) | hx) | hx) | hx
    · exact (hm x hx).2
    · subst hx; decide
    · exact (ht x hx).2
    · subst hx; decide
    · exact hv x hx
  have hr := readLine_of _ (headerBytes ls ++ [13, 10] ++ tail) hhead
  have e1 : method ++ [32] ++ target ++ [32] ++ version = method ++ 32 :: (target ++ 32 :: version) := by simp
  obtain ⟨t1, d1⟩ := takeWhile_sp method (target ++ 32 :: version) (fun x hx => (hm x hx).1)
  obtain ⟨t2, d2⟩ := takeWhile_sp target version (fun x hx => (ht x hx).1)
  have hfuel : ls.length < (upgradeRequest method target version ls tail).length + 2 := by
    have := length_le_headerBytes ls
    simp only [upgradeRequest, List.length_append, List.length_cons]
    omega
  have hh := readHeaders_lines ls _ [] tail hwf hfuel
  unfold serverHandshake
  simp only [show readLine (upgradeRequest method target version ls tail) = _ from hr]
  rw [e1, t1, d1]
  simp only [List.drop_one, List.tail_cons, t2]
  rw [if_neg (by simp), if_neg (by simp)]
  rw [hh]
  simp only [getHeader_table, hasHeader_table, serverResponse]

/-! ### the request `WebSocket::connect` writes is such a request -/

/-- the header lines of the request `connect` writes -/
def clientLines (host port key : List UInt8) : List ReqLine :=
  [⟨[72, 111, 115, 116], [32], host ++ [58] ++ port, []⟩,
   ⟨strUpgrade, [32], strWebsocket, []⟩,
   ⟨strConnection, [32], strUpgrade, []⟩,
   ⟨[83, 101, 99, 45, 87, 101, 98, 83, 111, 99, 107, 101, 116, 45, 75, 101, 121], [32], key, []⟩,
   ⟨[83, 101, 99, 45, 87, 101, 98, 83, 111, 99, 107, 101, 116, 45, 80, 114, 111, 116, 111, 99, 111, 108], [32], [99, 104, 97, 116], []⟩,
   ⟨[83, 101, 99, 45, 87, 101, 98, 83, 111, 99, 107, 101, 116, 45, 86, 101, 114, 115, 105, 111, 110], [32], [49, 51], []⟩,
   ⟨[80, 114, 97, 103, 109, 97], [32], [110, 111, 45, 99, 97, 99, 104, 101], []⟩]

theorem clientRequest_eq (path host port key : List UInt8) :
    clientRequest path host port key = upgradeRequest [71, 69, 84] path [72, 84, 84, 80, 47, 49, 46, 49, 13] (clientLines host port key) [] := by
  simp [clientRequest, upgradeRequest, clientLines, headerBytes, ReqLine.bytes, ReqLine.body, reqGet, reqHost, reqColon, reqKey, reqTail,
    strUpgrade, strWebsocket, strConnection]

theorem clientLines_last (host port key : List UInt8) :
    lastField (clientLines host port key) strUpgrade = some strWebsocket ∧
    lastField (clientLines host port key) strConnection = some strUpgrade ∧
    lastField (clientLines host port key) strKey = some key ∧
    (lastField (clientLines host port key) strProtocol).isSome = true := by
  refine ⟨?_, ?_, ?_, ?_⟩ <;>
  simp [lastField, clientLines, ReqLine.field, List.find?, capName, strUpgrade, strWebsocket, strConnection, strKey, strProtocol, isAlnum, toUpperB, toLowerB]

/-- a value the request can carry: non-empty, no line feed, no blank at either end -/
def ValueOk (v : List UInt8) : Prop :=
  v ≠ [] ∧ (∀ x ∈ v, x ≠ 10) ∧ (∀ x, v.head? = some x → isSp x = false) ∧ (∀ x, v.getLast? = some x → isSp x = false)

theorem wf_of (n v : List UInt8) (hn : ∀ x ∈ n, x ≠ 58 ∧ isSp x = false) (hv : ValueOk v) : (⟨n, [32], v, []⟩ : ReqLine).WF :=
  ⟨hn, by intro x hx; simp at hx; subst hx; decide, by simp, hv.1, hv.2.1, hv.2.2.1, hv.2.2.2⟩

theorem valueOk_const (v : List UInt8) (h : v ≠ [] ∧ (∀ x ∈ v, x ≠ 10) ∧ (∀ x ∈ v, isSp x = false)) : ValueOk v :=
  ⟨h.1, h.2.1, fun x hx => h.2.2 x (List.mem_of_mem_head? hx), fun x hx => h.2.2 x (List.mem_of_getLast? hx)⟩

theorem clientLines_wf (host port key : List UInt8) (hh : ValueOk (host ++ [58] ++ port)) (hk : ValueOk key) :
    ∀ l ∈ clientLines host port key, l.WF := by
  intro l hl
  simp only [clientLines, List.mem_cons, List.not_mem_nil, or_false] at hl
  rcases hl with rfl | rfl | rfl | rfl | rfl | rfl | rfl
  · exact wf_of _ _ (by decide) hh
  · exact wf_of _ _ (by decide) (valueOk_const _ (by decide))
  · exact wf_of _ _ (by decide) (valueOk_const _ (by decide))
  · exact wf_of _ _ (by decide) hk
  · exact wf_of _ _ (by decide) (valueOk_const _ (by decide))
  · exact wf_of _ _ (by decide) (valueOk_const _ (by decide))
  · exact wf_of _ _ (by decide) (valueOk_const _ (by decide))

end AslProofs.WebSocketServerHs
