/-!
# RFC 6455 — the specification side of C11 (definitions only, written from the RFC, not from the code)

* §5.2 base framing: `FIN RSV1-3 opcode | MASK payload-len | extended length | masking key | payload`,
  lengths in network byte order, "the minimal number of bytes MUST be used to encode the length";
* §5.3 masking: `transformed-octet-i = original-octet-i XOR masking-key-octet-(i MOD 4)`;
* §5.4 fragmentation: first frame carries the opcode, the others opcode 0, the last one FIN;
  "control frames MAY be injected in the middle of a fragmented message";
* §1.3 / §4.2.2 accept key: base64(SHA-1(key ‖ "258EAFA5-E914-47DA-95CA-C5AB0DC85B11")).

Core Lean only (no arithmetic on machine words: bytes are `UInt8`, numbers `Nat` with `/` and `%`).
-/
namespace Rfc6455

/-- a masking key: four octets -/
structure Key where
  k0 : UInt8
  k1 : UInt8
  k2 : UInt8
  k3 : UInt8
deriving Repr, DecidableEq

def Key.bytes (k : Key) : List UInt8 := [k.k0, k.k1, k.k2, k.k3]

/-- the 32-bit value the four key octets spell in network byte order -/
def Key.value (k : Key) : Nat := k.k0.toNat * 2 ^ 24 + k.k1.toNat * 2 ^ 16 + k.k2.toNat * 2 ^ 8 + k.k3.toNat

/-- the key whose network-order octets spell `v` -/
def Key.ofValue (v : Nat) : Key :=
  ⟨UInt8.ofNat (v / 2 ^ 24 % 256), UInt8.ofNat (v / 2 ^ 16 % 256), UInt8.ofNat (v / 2 ^ 8 % 256), UInt8.ofNat (v % 256)⟩

/-- §5.3: octet `i` of the payload XOR octet `i mod 4` of the key (the same map masks and unmasks) -/
def mask (k : Key) (d : List UInt8) : List UInt8 :=
  d.zipIdx.map fun p => p.1 ^^^ k.bytes.getD (p.2 % 4) 0

/-- unsigned 16-bit, network byte order -/
def net16 (n : Nat) : List UInt8 := [UInt8.ofNat (n / 256 % 256), UInt8.ofNat (n % 256)]

/-- unsigned 64-bit, network byte order -/
def net64 (n : Nat) : List UInt8 :=
  [UInt8.ofNat (n / 2 ^ 56 % 256), UInt8.ofNat (n / 2 ^ 48 % 256), UInt8.ofNat (n / 2 ^ 40 % 256), UInt8.ofNat (n / 2 ^ 32 % 256),
   UInt8.ofNat (n / 2 ^ 24 % 256), UInt8.ofNat (n / 2 ^ 16 % 256), UInt8.ofNat (n / 2 ^ 8 % 256), UInt8.ofNat (n % 256)]

/-- §5.2: MASK bit + 7-bit length, or 126 + 16 bits, or 127 + 64 bits — the shortest form that fits -/
def lengthField (masked : Bool) (n : Nat) : List UInt8 :=
  let m := if masked then 128 else 0
  if n ≤ 125 then [UInt8.ofNat (m + n)]
  else if n ≤ 65535 then UInt8.ofNat (m + 126) :: net16 n
  else UInt8.ofNat (m + 127) :: net64 n

def opCont : Nat := 0
def opText : Nat := 1
def opBinary : Nat := 2
def opClose : Nat := 8
def opPing : Nat := 9
def opPong : Nat := 10

/-- one frame (RSV1-3 = 0) -/
def frame (fin : Bool) (opcode : Nat) (key : Option Key) (payload : List UInt8) : List UInt8 :=
  UInt8.ofNat ((if fin then 128 else 0) + opcode) :: lengthField key.isSome payload.length ++
    (match key with
     | some k => k.bytes ++ mask k payload
     | none => payload)

/-- a ping or pong frame injected somewhere -/
structure Ctl where
  pong : Bool
  payload : List UInt8
  key : Option Key
deriving Repr

def Ctl.bytes (c : Ctl) : List UInt8 := frame true (if c.pong then opPong else opPing) c.key c.payload

/-- a piece of a data message, preceded by any number of control frames -/
structure Frag where
  before : List Ctl
  payload : List UInt8
  key : Option Key
deriving Repr

/-- a text or binary message split into `first :: more` -/
structure Msg where
  binary : Bool
  first : Frag
  more : List Frag
deriving Repr

/-- the application data of the message -/
def Msg.payload (m : Msg) : List UInt8 := m.first.payload ++ m.more.flatMap (·.payload)

def ctlBytes (cs : List Ctl) : List UInt8 := cs.flatMap Ctl.bytes

/-- continuation frames: opcode 0, FIN on the last one only -/
def moreBytes : List Frag → List UInt8
  | [] => []
  | f :: t => ctlBytes f.before ++ frame t.isEmpty opCont f.key f.payload ++ moreBytes t

/-- continuation frames none of which is the last one of its message (FIN clear on all) -/
def openBytes : List Frag → List UInt8
  | [] => []
  | f :: t => ctlBytes f.before ++ frame false opCont f.key f.payload ++ openBytes t

def Msg.bytes (m : Msg) : List UInt8 :=
  ctlBytes m.first.before ++ frame m.more.isEmpty (if m.binary then opBinary else opText) m.first.key m.first.payload ++
    moreBytes m.more

/-- a whole conversation in one direction: messages, then possibly more control frames -/
def wire (ms : List Msg) (trailing : List Ctl) : List UInt8 := ms.flatMap Msg.bytes ++ ctlBytes trailing

/-- §1.3: the GUID appended to the client's key -/
def guid : List UInt8 := [
  50, 53, 56, 69, 65, 70, 65, 53, 45, 69, 57, 49, 52, 45, 52, 55, 68, 65,
  45, 57, 53, 67, 65, 45, 67, 53, 65, 66, 48, 68, 67, 56, 53, 66, 49, 49]

end Rfc6455
