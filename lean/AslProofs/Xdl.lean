import AslModel.Xdl
/-!
# Helper lemmas for C06: the parser invariant (stack safety), chunk independence
-/
set_option linter.unusedSimpArgs false
set_option linter.unusedVariables false
namespace AslProofs.Xdl
open AslModel.Xdl

/-- `_lists` mirrors the container contexts: one open array/object per ARRAY/OBJECT, the root array at the bottom -/
def Shape : List Ctx → List Open → Prop
  | [.ROOT], [.arr _] => True
  | .ARRAY :: t, .arr _ :: l => Shape t l
  | .OBJECT :: t, .obj _ :: l => Shape t l
  | _, _ => False

def countObj : List Ctx → Nat
  | [] => 0
  | .OBJECT :: t => countObj t + 1
  | _ :: t => countObj t

/-- states in which the innermost OBJECT context has a pending property name on `_props` -/
def needsProp (s prev : St) : Bool :=
  match s with
  | .WAIT_EQUAL | .WAIT_VALUE | .WAIT_COMMA_OR_VALUE | .INT | .MINUS | .NUMBER | .NUMBER_DOT | .NUMBER_E
  | .NUMBER_ES | .NUMBER_EV | .STRING | .IDENTIFIER | .WAIT_OBJ => true
  | .ESCAPE | .UNICODECHAR => prev == .STRING
  | _ => false

/-- states that only occur directly inside an object -/
def propState (s prev : St) : Bool :=
  match s with
  | .WAIT_PROPERTY | .WAIT_COMMA_OR_PROPERTY | .PROPERTY | .QPROPERTY | .WAIT_EQUAL => true
  | .ESCAPE | .UNICODECHAR => prev == .QPROPERTY
  | _ => false

def escOK (s prev : St) : Bool :=
  match s with
  | .ESCAPE | .UNICODECHAR => prev == .STRING || prev == .QPROPERTY
  | _ => true

def topObj : List Ctx → Bool
  | .OBJECT :: _ => true
  | _ => false

structure Good (p : PState) : Prop where
  shape : Shape p.ctx p.lists
  props : countObj p.ctx.tail + (if topObj p.ctx && needsProp p.state p.prev then 1 else 0) ≤ p.props.length
  objTop : propState p.state p.prev = true → topObj p.ctx = true
  esc : escOK p.state p.prev = true

def BaseOK : List Ctx → Prop
  | h :: _ => isCommentCtx h = false
  | [] => False

/-- invariant outside comments -/
def GE (p : PState) : Prop := BaseOK p.ctx ∧ (p.state ≠ .ERR → Good p)

def againSt (s : St) : Bool :=
  match s with
  | .WAIT_VALUE | .WAIT_SEP | .WAIT_OBJ | .WAIT_EQUAL => true
  | _ => false

def Post (p : PState) : Res → Prop
  | none => False
  | some (f, q) => GE q ∧ q.inComment = p.inComment ∧ (f = .ret → q.state = .ERR) ∧ (f = .again → againSt q.state = true)

theorem shape_last (c : List Ctx) (l : List Open) (h : Shape c l) : ∃ rev, l.getLast? = some (.arr rev) := by
  fun_induction Shape c l with
  | case1 r => exact ⟨r, rfl⟩
  | case2 t r l ih =>
    obtain ⟨rev, hr⟩ := ih h
    cases l with
    | nil => simp at hr
    | cons a b => exact ⟨rev, by simpa [List.getLast?_cons_cons] using hr⟩
  | case3 t r l ih =>
    obtain ⟨rev, hr⟩ := ih h
    cases l with
    | nil => simp at hr
    | cons a b => exact ⟨rev, by simpa [List.getLast?_cons_cons] using hr⟩
  | case4 => exact h.elim

theorem shape_baseOK {c : List Ctx} {l : List Open} (h : Shape c l) : BaseOK c := by
  unfold Shape at h
  split at h <;> simp_all [BaseOK, isCommentCtx]

theorem post_errRet (p : PState) (h : BaseOK p.ctx) : Post p (errRet p) := by
  simp [errRet, Post, GE, h]

theorem post_errBrk (p : PState) (h : BaseOK p.ctx) : Post p (errBrk p) := by
  simp [errBrk, Post, GE, h]

/-- a pure state change that keeps the stacks -/
theorem post_next_state (p q : PState) (hg : Good p)
    (hc : q.ctx = p.ctx) (hl : q.lists = p.lists) (hp : q.props = p.props) (hi : q.inComment = p.inComment)
    (h1 : topObj p.ctx = true → needsProp q.state q.prev = true → needsProp p.state p.prev = true)
    (h2 : propState q.state q.prev = true → topObj p.ctx = true)
    (h3 : escOK q.state q.prev = true) : Post p (next q) := by
  refine ⟨⟨?_, fun _ => ⟨?_, ?_, ?_, h3⟩⟩, hi, by simp, by simp⟩
  · rw [hc]; exact shape_baseOK hg.shape
  · rw [hc, hl]; exact hg.shape
  · rw [hc, hp]
    have := hg.props
    cases ht : topObj p.ctx <;> simp_all
    by_cases hn : needsProp q.state q.prev = true
    · simp_all
    · simp_all; omega
  · rw [hc]; exact h2


theorem scalar_ok (p : PState) (v : JV) (hg : Good p) (hn : needsProp p.state p.prev = true) :
    ∃ q, scalar p v = some q ∧ Good q ∧ q.inComment = p.inComment ∧ againSt q.state = true ∧ q.state ≠ .ERR := by
  obtain ⟨st, pv, ctx, lists, props, buffer, ic, uc, ub, wc⟩ := p
  obtain ⟨hs, hp, ho, he⟩ := hg
  simp only at hs hp ho he hn
  unfold Shape at hs
  split at hs
  · simp [scalar, put, valueEnd, againSt]
    exact ⟨by simp [Shape], by simp_all [topObj, countObj], by simp [propState], by simp [escOK]⟩
  · simp [scalar, put, valueEnd, againSt]
    refine ⟨by simpa [Shape] using hs, by simp_all [topObj, countObj], by simp [propState], by simp [escOK]⟩
  · simp [topObj, hn, countObj] at hp
    match props, hp with
    | k :: ps, hp =>
      simp [scalar, put, valueEnd, againSt]
      refine ⟨by simpa [Shape] using hs, ?_, by simp [propState], by simp [escOK]⟩
      simp [topObj, needsProp, countObj] at hp ⊢
      omega
  · exact hs.elim


theorem countObj_split (c : List Ctx) : countObj c = countObj c.tail + (if topObj c then 1 else 0) := by
  cases c with
  | nil => simp [countObj, topObj]
  | cons h t => cases h <;> simp [countObj, topObj]

theorem post_next_good (p q : PState) (hq : Good q) (hi : q.inComment = p.inComment) : Post p (next q) :=
  ⟨⟨shape_baseOK hq.shape, fun _ => hq⟩, hi, by simp, by simp⟩

theorem post_again_good (p q : PState) (hq : Good q) (hi : q.inComment = p.inComment) (ha : againSt q.state = true) :
    Post p (some (.again, q)) :=
  ⟨⟨shape_baseOK hq.shape, fun _ => hq⟩, hi, by simp, fun _ => ha⟩

theorem closeContainer_ok (p : PState) (hg : Good p) (k : Ctx) (t : List Ctx) (hc : p.ctx = k :: t)
    (hk : k = .ARRAY ∨ k = .OBJECT) :
    ∃ q, closeContainer p = some q ∧ Good q ∧ q.inComment = p.inComment ∧ againSt q.state = true := by
  obtain ⟨st, pv, ctx, lists, props, buffer, ic, uc, ub, wc⟩ := p
  obtain ⟨hs, hp, ho, he⟩ := hg
  simp only at hs hp ho he hc
  subst hc
  simp only [List.tail_cons] at hp
  have hcs := countObj_split t
  -- the container being closed
  have : ∃ o l, lists = o :: l ∧ Shape t l := by
    rcases hk with rfl | rfl
    · match lists, hs with
      | .arr _ :: l, hs => exact ⟨_, l, rfl, by simpa [Shape] using hs⟩
    · match lists, hs with
      | .obj _ :: l, hs => exact ⟨_, l, rfl, by simpa [Shape] using hs⟩
  obtain ⟨o, l, rfl, hs2⟩ := this
  unfold Shape at hs2
  split at hs2
  · simp [closeContainer, valueEnd, endContainer, put, againSt]
    exact ⟨by simp [Shape], by simp_all [topObj, countObj], by simp [propState], by simp [escOK]⟩
  · simp [closeContainer, valueEnd, endContainer, put, againSt]
    exact ⟨by simpa [Shape] using hs2, by simp_all [topObj, countObj]; omega, by simp [propState], by simp [escOK]⟩
  · simp [topObj] at hcs
    match props, hp, hcs with
    | kk :: ps, hp, hcs =>
      simp [closeContainer, valueEnd, endContainer, put, againSt]
      refine ⟨by simpa [Shape] using hs2, ?_, by simp [propState], by simp [escOK]⟩
      simp [topObj, needsProp] at hp ⊢
      omega
    | [], hp, hcs => simp at hp; omega
  · exact hs2.elim


theorem cAt_zero (b : Bytes) : ∃ x, cAt b 0 = some x := by
  cases b <;> simp [cAt, leadingZeroBad]

theorem leadingZeroBad_some (b : Bytes) (hne : b ≠ [45]) : ∃ bad, leadingZeroBad b = some bad := by
  match b, hne with
  | [], _ => exact ⟨false, by simp [leadingZeroBad, cAt]⟩
  | [x], hne =>
    have hx : x ≠ 45 := by intro h; simp [h] at hne
    by_cases h48 : x = 48
    · exact ⟨false, by simp [leadingZeroBad, cAt, h48]⟩
    · exact ⟨false, by simp [leadingZeroBad, cAt, hx, h48]⟩
  | x :: y :: t, _ =>
    by_cases h45 : x = 45
    · by_cases hy : y = 48
      · cases t with
        | nil => exact ⟨false, by simp [leadingZeroBad, cAt, h45, hy]⟩
        | cons z t' => exact ⟨decide (z ≠ 0), by simp [leadingZeroBad, cAt, h45, hy]⟩
      · exact ⟨false, by simp [leadingZeroBad, cAt, h45, hy]⟩
    · by_cases h48 : x = 48
      · exact ⟨decide (y ≠ 0), by simp [leadingZeroBad, cAt, h48]⟩
      · exact ⟨false, by simp [leadingZeroBad, cAt, h45, h48]⟩

theorem intEnd_ok (p : PState) (hg : Good p) (hn : needsProp p.state p.prev = true) : Post p (intEnd p) := by
  have hb := shape_baseOK hg.shape
  unfold intEnd
  simp only []
  split
  · rename_i hne
    obtain ⟨bad, hbad⟩ := leadingZeroBad_some (buf p) hne
    rw [hbad]
    simp only [Option.bind_some]
    cases bad with
    | true => simp only [if_true]; exact post_errRet _ hb
    | false =>
      simp only [Bool.false_eq_true, if_false]
      generalize (if (buf p).length > Gen.Xdl.intSplit then JV.num (buf p) else JV.int (myatoiz (buf p))) = v
      obtain ⟨q, hq, hgq, hi, ha, _⟩ := scalar_ok p v hg hn
      rw [hq]
      exact post_again_good _ q hgq hi ha
  · exact post_errRet _ hb


@[simp] theorem topObj_array (t : List Ctx) : topObj (.ARRAY :: t) = false := rfl
@[simp] theorem topObj_object (t : List Ctx) : topObj (.OBJECT :: t) = true := rfl

/-- a change of `state`/`prev`/`buffer` only -/
theorem post_upd (p : PState) (s pv : St) (b : Bytes) (hg : Good p)
    (h1 : topObj p.ctx = true → needsProp s pv = true → needsProp p.state p.prev = true)
    (h2 : propState s pv = true → topObj p.ctx = true)
    (h3 : escOK s pv = true) : Post p (next { p with state := s, prev := pv, buffer := b }) :=
  post_next_state p _ hg rfl rfl rfl rfl h1 h2 h3

theorem open_array_good (p : PState) (hg : Good p) (hn : needsProp p.state p.prev = true)
    (hps : propState p.state p.prev = false) :
    Good { p with lists := .arr [] :: p.lists, ctx := .ARRAY :: p.ctx } := by
  have hcs := countObj_split p.ctx
  have hp := hg.props
  refine ⟨by simpa [Shape] using hg.shape, ?_, by simp [hps], hg.esc⟩
  simp [hn] at hp ⊢
  omega

theorem open_object_good (p : PState) (hg : Good p) (hn : needsProp p.state p.prev = true) (cls : Bytes) :
    Good { beginObject p cls with state := .WAIT_PROPERTY, ctx := .OBJECT :: p.ctx, buffer := [] } := by
  have hcs := countObj_split p.ctx
  have hp := hg.props
  refine ⟨by simpa [Shape, beginObject] using hg.shape, ?_, by simp, by simp [escOK]⟩
  simp only [hn, Bool.and_true] at hp
  simp [needsProp, beginObject]
  omega
theorem waitValue_ok (p : PState) (c : UInt8) (hg : Good p)
    (hst : p.state = .WAIT_VALUE ∨ p.state = .WAIT_COMMA_OR_VALUE) (ctx : Ctx) (t : List Ctx)
    (hc : p.ctx = ctx :: t) : Post p (waitValue p ctx c) := by
  have hb := shape_baseOK hg.shape
  have hn : needsProp p.state p.prev = true := by rcases hst with h | h <;> simp [h, needsProp]
  have hps : propState p.state p.prev = false := by rcases hst with h | h <;> simp [h, propState]
  obtain ⟨st, pv, cx, lists, props, buffer, ic, uc, ub, wc⟩ := p
  simp only at hst hc hn hps
  unfold waitValue
  split
  · refine post_upd _ _ _ _ hg ?_ ?_ ?_ <;> rcases hst with rfl | rfl <;> simp [needsProp, propState, escOK]
  split
  · refine post_upd _ _ _ _ hg ?_ ?_ ?_ <;> rcases hst with rfl | rfl <;> simp [needsProp, propState, escOK]
  split
  · refine post_upd _ _ _ _ hg ?_ ?_ ?_ <;> rcases hst with rfl | rfl <;> simp [needsProp, propState, escOK]
  split
  · split
    · exact post_errRet _ hb
    · exact post_next_good _ _ (open_array_good _ hg hn hps) rfl
  split
  · split
    · exact post_errRet _ hb
    · exact post_next_good _ _ (open_object_good _ hg hn _) rfl
  split
  · rename_i h
    obtain ⟨q, hq, hgq, hi, ha⟩ := closeContainer_ok _ hg ctx t hc (Or.inr h.2)
    simp [hq]
    exact post_next_good _ q hgq hi
  split
  · refine post_upd _ _ _ _ hg ?_ ?_ ?_ <;> rcases hst with rfl | rfl <;> simp [needsProp, propState, escOK]
  split
  · rename_i h
    obtain ⟨q, hq, hgq, hi, ha⟩ := closeContainer_ok _ hg ctx t hc (Or.inl h.2)
    simp [hq]
    exact post_next_good _ q hgq hi
  split
  · exact post_errRet _ hb
  · exact post_next_good _ _ hg rfl

theorem waitProperty_ok (p : PState) (c : UInt8) (hg : Good p)
    (hst : p.state = .WAIT_PROPERTY ∨ p.state = .WAIT_COMMA_OR_PROPERTY) : Post p (waitProperty p c) := by
  have hb := shape_baseOK hg.shape
  have hps : propState p.state p.prev = true := by rcases hst with h | h <;> simp [h, propState]
  have hto := hg.objTop hps
  obtain ⟨st, pv, cx, lists, props, buffer, ic, uc, ub, wc⟩ := p
  simp only at hst hto hps
  unfold waitProperty
  split
  · refine post_upd _ _ _ _ hg ?_ ?_ ?_ <;> rcases hst with rfl | rfl <;> simp [needsProp, propState, escOK, hto]
  split
  · refine post_upd _ _ _ _ hg ?_ ?_ ?_ <;> rcases hst with rfl | rfl <;> simp [needsProp, propState, escOK, hto]
  split
  · match cx, hto, hg with
    | .OBJECT :: t, _, hg =>
      obtain ⟨q, hq, hgq, hi, ha⟩ := closeContainer_ok _ hg _ t rfl (Or.inr rfl)
      simp [hq]
      exact post_next_good _ q hgq hi
  split
  · exact post_errRet _ hb
  · exact post_next_good _ _ hg rfl


/-- as `post_upd`, for the push-back flag -/
theorem post_upd_again (p : PState) (s pv : St) (b : Bytes) (hg : Good p)
    (h1 : topObj p.ctx = true → needsProp s pv = true → needsProp p.state p.prev = true)
    (h2 : propState s pv = true → topObj p.ctx = true)
    (h3 : escOK s pv = true) (ha : againSt s = true) :
    Post p (some (.again, { p with state := s, prev := pv, buffer := b })) := by
  have := post_upd p s pv b hg h1 h2 h3
  exact ⟨this.1, this.2.1, by simp, fun _ => ha⟩

theorem numEnd_ok (p : PState) (hg : Good p) (hn : needsProp p.state p.prev = true) : Post p (numEnd p) := by
  obtain ⟨q, hq, hgq, hi, ha, _⟩ := scalar_ok p (.num (buf p)) hg hn
  simp [numEnd, hq]
  exact post_again_good _ q hgq hi ha

theorem scalar_next_ok (p : PState) (v : JV) (hg : Good p) (hn : needsProp p.state p.prev = true) :
    Post p (do let p1 ← scalar p v; next p1) := by
  obtain ⟨q, hq, hgq, hi, ha, _⟩ := scalar_ok p v hg hn
  simp [hq]
  exact post_next_good _ q hgq hi

theorem scalar_again_ok (p : PState) (v : JV) (hg : Good p) (hn : needsProp p.state p.prev = true) :
    Post p (do let p1 ← scalar p v; some (Flag.again, p1)) := by
  obtain ⟨q, hq, hgq, hi, ha, _⟩ := scalar_ok p v hg hn
  simp [hq]
  exact post_again_good _ q hgq hi ha

theorem new_prop_good (p : PState) (hg : Good p) (hto : topObj p.ctx = true) (k : Bytes) :
    Good { p with props := k :: p.props, state := .WAIT_EQUAL, buffer := [] } := by
  have hp := hg.props
  refine ⟨hg.shape, ?_, fun _ => hto, by simp [escOK]⟩
  simp [needsProp, hto]
  split at hp <;> omega

theorem unicodeChar_ok (p : PState) (c : UInt8) (hg : Good p) (hs : p.state = .UNICODECHAR) :
    Post p (unicodeChar p c) := by
  obtain ⟨st, pv, cx, lists, props, buffer, ic, uc, ub, wc⟩ := p
  simp only at hs
  subst hs
  have he := hg.esc
  have ho := hg.objTop
  simp only [escOK, Bool.or_eq_true, beq_iff_eq] at he
  unfold unicodeChar
  simp only []
  repeat' split
  all_goals
    refine post_next_state _ _ hg ?_ ?_ ?_ ?_ ?_ ?_ ?_
    all_goals first
      | rfl
      | (rcases he with rfl | rfl <;> simp_all [pushStr, needsProp, propState, escOK])


theorem dispatch_ok (p : PState) (c : UInt8) (h : GE p) (ctx : Ctx) (t : List Ctx) (hc : p.ctx = ctx :: t) :
    Post p (dispatch p ctx c) := by
  obtain ⟨hb, hgood⟩ := h
  by_cases herr : p.state = .ERR
  · unfold dispatch
    simp only [herr]
    exact ⟨⟨hb, fun h => absurd herr h⟩, rfl, by simp, by simp⟩
  have hg := hgood herr
  obtain ⟨st, pv, cx, lists, props, buffer, ic, uc, ub, wc⟩ := p
  simp only at hc herr hb
  subst hc
  have ho := hg.objTop
  cases st
  case ERR => exact absurd rfl herr
  case MINUS | NUMBER_DOT | NUMBER_E | NUMBER_ES =>
    simp only [dispatch]
    repeat' split
    all_goals first
      | exact post_errRet _ hb
      | (refine post_upd _ _ _ _ hg ?_ ?_ ?_ <;> simp [needsProp, propState, escOK])
  case INT =>
    simp only [dispatch]
    repeat' split
    all_goals first
      | exact intEnd_ok _ hg (by simp [needsProp])
      | (refine post_upd _ _ _ _ hg ?_ ?_ ?_ <;> simp [needsProp, propState, escOK])
  case NUMBER | NUMBER_EV =>
    simp only [dispatch]
    repeat' split
    all_goals first
      | exact post_errRet _ hb
      | exact numEnd_ok _ hg (by simp [needsProp])
      | (refine post_upd _ _ _ _ hg ?_ ?_ ?_ <;> simp [needsProp, propState, escOK])
  case STRING =>
    simp only [dispatch]
    repeat' split
    all_goals first
      | exact post_errRet _ hb
      | exact scalar_next_ok _ _ hg (by simp [needsProp])
      | (refine post_upd _ _ _ _ hg ?_ ?_ ?_ <;> simp [needsProp, propState, escOK])
  case PROPERTY =>
    have hto := ho (by simp [propState])
    simp only [dispatch]
    split
    · exact post_again_good _ _ (new_prop_good _ hg hto _) rfl (by simp [againSt])
    · refine post_upd _ _ _ _ hg ?_ ?_ ?_ <;> simp [needsProp, propState, escOK, hto]
  case QPROPERTY =>
    have hto := ho (by simp [propState])
    simp only [dispatch]
    repeat' split
    all_goals first
      | exact post_next_good _ _ (new_prop_good _ hg hto _) rfl
      | (refine post_upd _ _ _ _ hg ?_ ?_ ?_ <;> simp [needsProp, propState, escOK, hto])
  case WAIT_COMMA_OR_VALUE =>
    simp only [dispatch]
    split
    · refine post_upd _ _ _ _ hg ?_ ?_ ?_ <;> simp [needsProp, propState, escOK]
    · exact waitValue_ok _ c hg (Or.inr rfl) ctx t rfl
  case WAIT_VALUE =>
    simp only [dispatch]
    exact waitValue_ok _ c hg (Or.inl rfl) ctx t rfl
  case WAIT_SEP =>
    simp only [dispatch]
    split
    · refine post_upd _ _ _ _ hg ?_ ?_ ?_ <;> cases ctx <;> simp [needsProp, propState, escOK, topObj]
    split
    · refine post_upd _ _ _ _ hg ?_ ?_ ?_ <;> cases ctx <;> simp [needsProp, propState, escOK, topObj]
    split
    · rename_i h
      obtain ⟨q, hq, hgq, hi, ha⟩ := closeContainer_ok _ hg ctx t rfl (Or.inr h.2)
      simp [hq]
      exact post_next_good _ q hgq hi
    split
    · rename_i h
      obtain ⟨q, hq, hgq, hi, ha⟩ := closeContainer_ok _ hg ctx t rfl (Or.inl h.2)
      simp [hq]
      exact post_next_good _ q hgq hi
    split
    · exact post_errRet _ hb
    · exact post_next_good _ _ hg rfl
  case WAIT_OBJ =>
    simp only [dispatch]
    repeat' split
    all_goals first
      | exact post_errRet _ hb
      | exact post_next_good _ _ hg rfl
      | exact post_next_good _ _ (open_object_good _ hg (by simp [needsProp]) _) rfl
  case WAIT_COMMA_OR_PROPERTY =>
    have hto := ho (by simp [propState])
    simp only [dispatch]
    split
    · refine post_upd _ _ _ _ hg ?_ ?_ ?_ <;> simp [needsProp, propState, escOK, hto]
    · exact waitProperty_ok _ c hg (Or.inr rfl)
  case WAIT_PROPERTY =>
    simp only [dispatch]
    exact waitProperty_ok _ c hg (Or.inl rfl)
  case ESCAPE =>
    have he := hg.esc
    simp only [escOK, Bool.or_eq_true, beq_iff_eq] at he
    simp only [dispatch]
    repeat' split
    all_goals first
      | exact post_errBrk _ hb
      | (refine post_upd _ _ _ _ hg ?_ ?_ ?_ <;> rcases he with rfl | rfl <;> simp_all [needsProp, propState, escOK])
  case IDENTIFIER =>
    simp only [dispatch]
    repeat' split
    all_goals first
      | exact scalar_again_ok _ _ hg (by simp [needsProp])
      | (refine post_upd_again _ _ _ _ hg ?_ ?_ ?_ ?_ <;> simp [needsProp, propState, escOK, againSt])
      | (refine post_upd _ _ _ _ hg ?_ ?_ ?_ <;> simp [needsProp, propState, escOK])
  case WAIT_EQUAL =>
    have hto := ho (by simp [propState])
    simp only [dispatch]
    repeat' split
    all_goals first
      | exact post_errRet _ hb
      | exact post_next_good _ _ hg rfl
      | (refine post_upd _ _ _ _ hg ?_ ?_ ?_ <;> simp [needsProp, propState, escOK, hto])
  case UNICODECHAR =>
    simp only [dispatch]
    exact unicodeChar_ok _ c hg rfl


/-! ## the comment filter and the loop -/

def CtxOf (p : PState) (base : List Ctx) : Prop :=
  (p.inComment = false ∧ p.ctx = base) ∨
  (p.inComment = true ∧ (p.ctx = .COMMENT1 :: base ∨ p.ctx = .LINECOMMENT :: base ∨ p.ctx = .COMMENT :: base
    ∨ p.ctx = .ENDCOMMENT :: .COMMENT :: base))

/-- the invariant of the parser: comment entries only on top of the context stack (ENDCOMMENT only on
    COMMENT), `_inComment` says whether there is one, and below them the container invariant `GE` -/
def Inv (p : PState) : Prop := ∃ base, CtxOf p base ∧ GE { p with ctx := base }

theorem GE_congr (p q : PState) (h : GE p) (h1 : q.ctx = p.ctx) (h2 : q.state = p.state) (h3 : q.prev = p.prev)
    (h4 : q.lists = p.lists) (h5 : q.props = p.props) : GE q := by
  obtain ⟨hb, hg⟩ := h
  refine ⟨h1 ▸ hb, fun hne => ?_⟩
  have g := hg (h2 ▸ hne)
  exact ⟨by rw [h1, h4]; exact g.shape, by rw [h1, h2, h3, h5]; exact g.props,
    by rw [h1, h2, h3]; exact g.objTop, by rw [h2, h3]; exact g.esc⟩

/-- what one loop iteration guarantees -/
def BodyPost : Res → Prop
  | none => False
  | some (f, q) => Inv q ∧ (f = .ret → q.state = .ERR) ∧ (f = .again → q.inComment = false ∧ againSt q.state = true)

theorem inv_of_GE (q : PState) (h : GE q) (hi : q.inComment = false) : Inv q :=
  ⟨q.ctx, Or.inl ⟨hi, rfl⟩, h⟩

theorem bodyPost_of_post (p : PState) (r : Res) (hi : p.inComment = false) (h : Post p r) : BodyPost r := by
  match r, h with
  | some (f, q), ⟨hge, hic, hr, ha⟩ =>
    exact ⟨inv_of_GE q hge (hic ▸ hi), hr, fun hf => ⟨hic ▸ hi, ha hf⟩⟩

theorem afterComment_base (p : PState) (c : UInt8) (h : GE p) : BodyPost (afterComment p c) := by
  obtain ⟨st, pv, cx, lists, props, buffer, ic, uc, ub, wc⟩ := p
  have hb := h.1
  match cx, hb, h with
  | k :: t, hb, h =>
    simp only [BaseOK] at hb
    simp only [afterComment, hb, Bool.false_eq_true, if_false]
    exact bodyPost_of_post ⟨st, pv, k :: t, lists, props, buffer, false, uc, ub, wc⟩ _ rfl
      (dispatch_ok ⟨st, pv, k :: t, lists, props, buffer, false, uc, ub, wc⟩ c (GE_congr _ _ h rfl rfl rfl rfl rfl) k t rfl)

theorem afterComment_comment (p : PState) (c : UInt8) (k : Ctx) (t : List Ctx) (hc : p.ctx = k :: t)
    (hk : isCommentCtx k = true) : afterComment p c = next { p with inComment := true } := by
  simp [afterComment, hc, hk]

theorem bodyPost_next (q : PState) (h : Inv q) : BodyPost (next q) := ⟨h, by simp, by simp⟩

theorem body_ok (p : PState) (c : UInt8) (h : Inv p) : BodyPost (body p c) := by
  obtain ⟨base, hcx, hge⟩ := h
  obtain ⟨st, pv, cx, lists, props, buffer, ic, uc, ub, wc⟩ := p
  simp only at hge
  rcases hcx with ⟨hi, hc⟩ | ⟨hi, hc⟩
  · simp only at hi hc
    subst hi hc
    have hb := hge.1
    match cx, hb, hge with
    | k :: t, hb, hge =>
      simp only [body]
      simp only [Bool.not_false, if_true]
      split
      · exact bodyPost_next _ ⟨k :: t, Or.inr ⟨rfl, Or.inl rfl⟩, GE_congr _ _ hge rfl rfl rfl rfl rfl⟩
      · exact bodyPost_of_post _ _ rfl (dispatch_ok _ c hge k t rfl)
  · simp only at hi hc
    subst hi
    rcases hc with rfl | rfl | rfl | rfl
    · -- COMMENT1
      simp only [body, Bool.not_true, Bool.false_eq_true, if_false]
      split
      · rw [afterComment_comment _ c _ base rfl rfl]
        exact bodyPost_next _ ⟨base, Or.inr ⟨rfl, Or.inr (Or.inl rfl)⟩, GE_congr _ _ hge rfl rfl rfl rfl rfl⟩
      split
      · rw [afterComment_comment _ c _ base rfl rfl]
        exact bodyPost_next _ ⟨base, Or.inr ⟨rfl, Or.inr (Or.inr (Or.inl rfl))⟩, GE_congr _ _ hge rfl rfl rfl rfl rfl⟩
      · exact afterComment_base _ c ⟨hge.1, fun hne => absurd rfl hne⟩
    · -- LINECOMMENT
      simp only [body, Bool.not_true, Bool.false_eq_true, if_false]
      split
      · exact afterComment_base _ c (GE_congr _ _ hge rfl rfl rfl rfl rfl)
      · rw [afterComment_comment _ c _ base rfl rfl]
        exact bodyPost_next _ ⟨base, Or.inr ⟨rfl, Or.inr (Or.inl rfl)⟩, GE_congr _ _ hge rfl rfl rfl rfl rfl⟩
    · -- COMMENT
      simp only [body, Bool.not_true, Bool.false_eq_true, if_false]
      split
      · rw [afterComment_comment _ c _ _ rfl rfl]
        exact bodyPost_next _ ⟨base, Or.inr ⟨rfl, Or.inr (Or.inr (Or.inr rfl))⟩, GE_congr _ _ hge rfl rfl rfl rfl rfl⟩
      · rw [afterComment_comment _ c _ base rfl rfl]
        exact bodyPost_next _ ⟨base, Or.inr ⟨rfl, Or.inr (Or.inr (Or.inl rfl))⟩, GE_congr _ _ hge rfl rfl rfl rfl rfl⟩
    · -- ENDCOMMENT on COMMENT
      simp only [body, Bool.not_true, Bool.false_eq_true, if_false]
      split
      · exact bodyPost_next _ ⟨base, Or.inl ⟨rfl, rfl⟩, GE_congr _ _ hge rfl rfl rfl rfl rfl⟩
      · rw [afterComment_comment _ c _ base rfl rfl]
        exact bodyPost_next _ ⟨base, Or.inr ⟨rfl, Or.inr (Or.inr (Or.inl rfl))⟩, GE_congr _ _ hge rfl rfl rfl rfl rfl⟩


theorem bind_next_flag (o : Option PState) (r : Flag × PState) (h : (o.bind fun p1 => next p1) = some r) :
    r.1 = .next := by
  cases o with
  | none => simp at h
  | some q => simp [next] at h; rw [← h]

theorem dispatch_no_again (p : PState) (ctx : Ctx) (c : UInt8) (ha : againSt p.state = true)
    (r : Flag × PState) (h : dispatch p ctx c = some r) : r.1 ≠ .again := by
  obtain ⟨st, pv, cx, lists, props, buffer, ic, uc, ub, wc⟩ := p
  cases st <;> simp [againSt] at ha
  all_goals
    simp only [dispatch, waitValue] at h
    repeat' split at h
    all_goals first
      | (have := bind_next_flag _ _ h; simp [this])
      | (simp [next, errRet] at h; simp [← h])

theorem body_no_again (p : PState) (c : UInt8) (hi : p.inComment = false) (ha : againSt p.state = true)
    (r : Flag × PState) (h : body p c = some r) : r.1 ≠ .again := by
  unfold body at h
  split at h
  · simp at h
  · simp only [hi, Bool.not_false, if_true] at h
    split at h
    · simp [next] at h; simp [← h]
    · exact dispatch_no_again _ _ c ha r h

theorem stepByte_ok (p : PState) (c : UInt8) (h : Inv p) :
    ∃ b q, stepByte p c = some (b, q) ∧ Inv q ∧ (b = true → q.state = .ERR) := by
  have h1 := body_ok p c h
  unfold stepByte
  match hb : body p c, h1 with
  | some (.next, q), ⟨hi, _, _⟩ => exact ⟨false, q, rfl, hi, by simp⟩
  | some (.ret, q), ⟨hi, hr, _⟩ => exact ⟨true, q, rfl, hi, fun _ => hr rfl⟩
  | some (.again, q), ⟨hi, _, ha⟩ =>
    obtain ⟨hic, hst⟩ := ha rfl
    have h2 := body_ok q c hi
    match hb2 : body q c, h2 with
    | some (.next, q2), ⟨hi2, _, _⟩ => exact ⟨false, q2, by simp [hb2], hi2, by simp⟩
    | some (.ret, q2), ⟨hi2, hr, _⟩ => exact ⟨true, q2, by simp [hb2], hi2, fun _ => hr rfl⟩
    | some (.again, q2), _ => exact absurd rfl (body_no_again q c hic hst _ hb2)

theorem loop_ok (cs : Bytes) : ∀ (p : PState), Inv p →
    ∃ b q, loop p cs = some (b, q) ∧ Inv q ∧ (b = true → q.state = .ERR) := by
  induction cs with
  | nil => intro p h; exact ⟨false, p, rfl, h, by simp⟩
  | cons c cs ih =>
    intro p h
    obtain ⟨b, q, hs, hi, he⟩ := stepByte_ok p c h
    cases b with
    | true => exact ⟨true, q, by simp [loop, hs], hi, he⟩
    | false =>
      obtain ⟨b2, q2, hl, hi2, he2⟩ := ih q hi
      exact ⟨b2, q2, by simp [loop, hs, hl], hi2, he2⟩

theorem parse_ok (p : PState) (chunk : Bytes) (h : Inv p) : ∃ q, parse p chunk = some q ∧ Inv q := by
  unfold parse
  split
  · exact ⟨p, rfl, h⟩
  · obtain ⟨b, q, hl, hi, _⟩ := loop_ok (cstr chunk) p h
    exact ⟨q, by simp [hl], hi⟩

theorem inv_init : Inv init :=
  ⟨[.ROOT], Or.inl ⟨rfl, rfl⟩, by simp [BaseOK, isCommentCtx], fun _ =>
    ⟨by simp [init, Shape], by simp [init, countObj, topObj], by simp [init, propState], by simp [init, escOK]⟩⟩

theorem parseChunks_ok (cs : List Bytes) : ∀ (p : PState), Inv p → ∃ q, parseChunks p cs = some q ∧ Inv q := by
  induction cs with
  | nil => intro p h; exact ⟨p, rfl, h⟩
  | cons c cs ih =>
    intro p h
    obtain ⟨q, hq, hi⟩ := parse_ok p c h
    obtain ⟨q2, hq2, hi2⟩ := ih q hi
    exact ⟨q2, by simp [parseChunks, hq, hq2], hi2⟩

end AslProofs.Xdl
