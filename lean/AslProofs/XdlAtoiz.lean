import AslModel.Xdl
/-! # `myatoiz` as regenerated from src/String.cpp (`Gen.Xdl.myatoiz`): the digit fold stays below 10^length (C06) -/
namespace AslProofs.XdlAtoiz
open AslModel.Xdl

theorem atoiz_bound (ds : Bytes) (hd : ∀ c ∈ ds, isDigit c = true) : ∀ (y : Int) (k : Nat), 0 ≤ y → y < 10 ^ k →
    0 ≤ ds.foldl Gen.Xdl.atoizStep y ∧ ds.foldl Gen.Xdl.atoizStep y < 10 ^ (k + ds.length) := by
  induction ds with
  | nil => intro y k h0 h1; exact ⟨h0, h1⟩
  | cons c t ih =>
    intro y k h0 h1
    have hc := hd c (by simp)
    simp only [isDigit, Bool.and_eq_true, decide_eq_true_eq] at hc
    have c1 : 48 ≤ c.toNat := UInt8.le_iff_toNat_le.mp hc.1
    have c2 : c.toNat ≤ 57 := UInt8.le_iff_toNat_le.mp hc.2
    have hp : (10 : Int) ^ (k + 1) = 10 * 10 ^ k := by rw [Int.pow_succ]; omega
    have := ih (fun x hx => hd x (by simp [hx])) (Gen.Xdl.atoizStep y c) (k + 1)
      (by simp only [Gen.Xdl.atoizStep]; omega) (by simp only [Gen.Xdl.atoizStep]; omega)
    simpa [List.foldl_cons, Nat.add_assoc, Nat.add_comm 1] using this

end AslProofs.XdlAtoiz
