import AslProofs.Xdl
set_option linter.unusedSimpArgs false
set_option linter.unusedVariables false
namespace AslProofs.Xdl
open AslModel.Xdl

/-- two parser states are indistinguishable for every later `parse`/`value` -/
def R (p q : PState) : Prop := p = q ∨ (p.state = .ERR ∧ q.state = .ERR)

theorem R.refl (p : PState) : R p p := Or.inl rfl
theorem R.trans {a b c : PState} (h1 : R a b) (h2 : R b c) : R a c := by
  rcases h1 with rfl | ⟨h1, h1'⟩
  · exact h2
  · rcases h2 with rfl | ⟨h2, h2'⟩
    · exact Or.inr ⟨h1, h1'⟩
    · exact Or.inr ⟨h1, h2'⟩

theorem value_R {p q : PState} (h : R p q) : value p = value q := by
  rcases h with rfl | ⟨h1, h2⟩
  · rfl
  · simp [value, h1, h2]

theorem parse_R {p q : PState} (c : Bytes) (h : R p q) (hp : Inv p) (hq : Inv q) :
    ∃ p' q', parse p c = some p' ∧ parse q c = some q' ∧ Inv p' ∧ Inv q' ∧ R p' q' := by
  rcases h with rfl | ⟨h1, h2⟩
  · obtain ⟨x, hx, hi⟩ := parse_ok p c hp
    exact ⟨x, x, hx, hx, hi, hi, R.refl x⟩
  · exact ⟨p, q, by simp [parse, h1], by simp [parse, h2], hp, hq, Or.inr ⟨h1, h2⟩⟩

theorem body_err (p : PState) (c : UInt8) (he : p.state = .ERR) (r : Flag × PState) (h : body p c = some r) :
    r.2.state = .ERR := by
  obtain ⟨st, pv, cx, lists, props, buffer, ic, uc, ub, wc⟩ := p
  simp only at he
  subst he
  simp only [body, afterComment, dispatch] at h
  repeat' split at h
  all_goals first
    | (simp [next] at h; simp [← h])
    | simp at h

theorem stepByte_err (p : PState) (c : UInt8) (he : p.state = .ERR) (b : Bool) (q : PState)
    (h : stepByte p c = some (b, q)) : q.state = .ERR := by
  unfold stepByte at h
  split at h
  · simp at h
  · rename_i p1 hb
    have := body_err p c he _ hb
    simp at h; rw [← h.2]; exact this
  · rename_i p1 hb
    have := body_err p c he _ hb
    simp at h; rw [← h.2]; exact this
  · rename_i p1 hb
    have h1 := body_err p c he _ hb
    split at h
    · simp at h
    · rename_i p2 hb2
      have := body_err p1 c h1 _ hb2
      simp at h; rw [← h.2]; exact this
    · rename_i p2 hb2
      have := body_err p1 c h1 _ hb2
      simp at h; rw [← h.2]; exact this
    · simp at h

theorem loop_err (cs : Bytes) : ∀ (p : PState) (b : Bool) (q : PState), p.state = .ERR →
    loop p cs = some (b, q) → q.state = .ERR := by
  induction cs with
  | nil => intro p b q he h; simp [loop] at h; rw [← h.2]; exact he
  | cons c cs ih =>
    intro p b q he h
    simp only [loop] at h
    split at h
    · simp at h
    · rename_i p1 hs
      simp at h; rw [← h.2]; exact stepByte_err p c he _ _ hs
    · rename_i p1 hs
      exact ih p1 b q (stepByte_err p c he _ _ hs) h

theorem loop_append (a b : Bytes) : ∀ p : PState, loop p (a ++ b) =
    match loop p a with
    | none => none
    | some (true, q) => some (true, q)
    | some (false, q) => loop q b := by
  induction a with
  | nil => intro p; simp [loop]
  | cons c a ih =>
    intro p
    simp only [List.cons_append, loop]
    cases hs : stepByte p c with
    | none => simp
    | some r =>
      obtain ⟨f, p1⟩ := r
      cases f <;> simp [ih]

theorem cstr_of_nonul (a : Bytes) (h : (0 : UInt8) ∉ a) : cstr a = a := by
  unfold cstr
  induction a with
  | nil => rfl
  | cons x t ih =>
    have hx : x ≠ 0 := fun h0 => h (by simp [h0])
    have ht : (0 : UInt8) ∉ t := fun h0 => h (by simp [h0])
    have := ih ht
    simp only [List.takeWhile_cons, ne_eq, hx, not_false_eq_true, decide_true, if_true]
    simp only [ne_eq] at this
    rw [this]

/-- feeding `a` then `b` is indistinguishable from feeding `a ++ b` -/
theorem parse_append (p : PState) (a b : Bytes) (hp : Inv p) (ha : (0 : UInt8) ∉ a) (hb : (0 : UInt8) ∉ b) :
    ∃ x y, (parse p a).bind (parse · b) = some x ∧ parse p (a ++ b) = some y ∧ Inv x ∧ Inv y ∧ R x y := by
  have hab : (0 : UInt8) ∉ a ++ b := by simp [ha, hb]
  by_cases he : p.state = .ERR
  · exact ⟨p, p, by simp [parse, he], by simp [parse, he], hp, hp, R.refl p⟩
  · simp only [parse, he, if_false, cstr_of_nonul a ha, cstr_of_nonul b hb, cstr_of_nonul _ hab, loop_append]
    obtain ⟨f, q, hl, hi, hf⟩ := loop_ok a p hp
    rw [hl]
    cases f with
    | true =>
      have hq := hf rfl
      exact ⟨q, q, by simp [hq], by simp, hi, hi, R.refl q⟩
    | false =>
      obtain ⟨f2, q2, hl2, hi2, hf2⟩ := loop_ok b q hi
      by_cases hq : q.state = .ERR
      · exact ⟨q, q2, by simp [hq], by simp [hl2], hi, hi2, Or.inr ⟨hq, loop_err b q f2 q2 hq hl2⟩⟩
      · exact ⟨q2, q2, by simp [hq, hl2], by simp [hl2], hi2, hi2, R.refl q2⟩

theorem chunks_R (cs : List Bytes) (hn : ∀ c ∈ cs, (0 : UInt8) ∉ c) : ∀ (p q : PState), R p q → Inv p → Inv q →
    ∃ x y, parseChunks p cs = some x ∧ parse q cs.flatten = some y ∧ Inv x ∧ Inv y ∧ R x y := by
  induction cs with
  | nil =>
    intro p q h hp hq
    refine ⟨p, q, rfl, ?_, hp, hq, h⟩
    simp [parse, cstr, loop]
  | cons c cs ih =>
    intro p q h hp hq
    have hc : (0 : UInt8) ∉ c := hn c (by simp)
    have hcs : ∀ c' ∈ cs, (0 : UInt8) ∉ c' := fun c' h' => hn c' (by simp [h'])
    have hfl : (0 : UInt8) ∉ cs.flatten := by
      intro h0
      obtain ⟨l, hl, h0l⟩ := List.mem_flatten.mp h0
      exact hcs l hl h0l
    obtain ⟨p1, q1, hp1, hq1, hip1, hiq1, hr1⟩ := parse_R c h hp hq
    obtain ⟨x, y2, hx, hy2, hix, hiy2, hr2⟩ := ih hcs p1 q1 hr1 hip1 hiq1
    obtain ⟨x', y', hx', hy', hix', hiy', hr3⟩ := parse_append q c cs.flatten hq hc hfl
    rw [hq1] at hx'
    simp only [Option.bind_some] at hx'
    rw [hy2] at hx'
    cases hx'
    exact ⟨x, y', by simp [parseChunks, hp1, hx], by simpa using hy', hix, hiy', R.trans hr2 hr3⟩

end AslProofs.Xdl
