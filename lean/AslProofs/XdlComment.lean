import AslModel.Xdl
import AslProofs.Xdl
import AslProofs.XdlChunks
/-!
# XDL comments (C06): the comment grammar the filter of `XdlParser::parse` really accepts, and its transparency

`BlockBody` is the set of texts that may stand between `/*` and the closing `*/`, written as a grammar (not as
a run of the filter): a `*` inside the body always takes the byte after it with it, whatever that byte is
(the code pops ENDCOMMENT and does not look at the byte again), so `/***/` is NOT a closed comment while
`/**/`, `/* * */` and `/****/` are.  `LineBody` is a text without LF / CR.
-/
namespace AslProofs.XdlCmt
open AslModel.Xdl AslProofs.Xdl

/-- what may stand between `/*` and the closing `*/` -/
inductive BlockBody : Bytes → Prop
  | nil : BlockBody []
  | other (c : UInt8) (t : Bytes) : c ≠ 42 → BlockBody t → BlockBody (c :: t)
  | star (c : UInt8) (t : Bytes) : c ≠ 47 → BlockBody t → BlockBody (42 :: c :: t)

/-- what may stand between `//` and the end of the line -/
def LineBody (b : Bytes) : Prop := ∀ c ∈ b, c ≠ 10 ∧ c ≠ 13

/-- the parser is neither in a comment nor inside a quoted string / quoted name / escape -/
structure Outside (q : PState) : Prop where
  noc : q.inComment = false
  top : ∃ k K, q.ctx = k :: K ∧ isCommentCtx k = false
  s1 : q.state ≠ .STRING
  s2 : q.state ≠ .QPROPERTY
  s3 : q.state ≠ .ESCAPE

/-- `q` with comment entries `s` pushed on its context stack -/
@[reducible] def inC (q : PState) (s : List Ctx) : PState := { q with inComment := true, ctx := s }

theorem step_of_next {p q : PState} {c : UInt8} (cs : Bytes) (h : body p c = some (.next, q)) :
    loop p (c :: cs) = loop q cs := by
  simp [loop, stepByte, h]

theorem block_body (q : PState) (K : List Ctx) (b : Bytes) (hb : BlockBody b) (rest : Bytes) :
    loop (inC q (.COMMENT :: K)) (b ++ rest) = loop (inC q (.COMMENT :: K)) rest := by
  induction hb with
  | nil => rfl
  | other c t hc _ ih =>
    have h1 : body (inC q (.COMMENT :: K)) c = some (.next, inC q (.COMMENT :: K)) := by
      simp [body, afterComment, isCommentCtx, next, hc]
    rw [List.cons_append, step_of_next _ h1, ih]
  | star c t hc _ ih =>
    have h1 : body (inC q (.COMMENT :: K)) 42 = some (.next, inC q (.ENDCOMMENT :: .COMMENT :: K)) := by
      simp [body, afterComment, isCommentCtx, next]
    have h2 : body (inC q (.ENDCOMMENT :: .COMMENT :: K)) c = some (.next, inC q (.COMMENT :: K)) := by
      simp [body, afterComment, isCommentCtx, next, hc]
    rw [List.cons_append, List.cons_append, step_of_next _ h1, step_of_next _ h2, ih]

theorem eta_out (q : PState) (h : q.inComment = false) : { q with inComment := false, ctx := q.ctx } = q := by
  cases q; simp at h; subst h; rfl

/-- a block comment met outside strings is skipped: the parser is back in exactly the state it had -/
theorem block_skip (q : PState) (ho : Outside q) (b : Bytes) (hb : BlockBody b) (rest : Bytes) :
    loop q (47 :: 42 :: (b ++ 42 :: 47 :: rest)) = loop q rest := by
  obtain ⟨k, K, hk, hkc⟩ := ho.top
  have h1 : body q 47 = some (.next, inC q (.COMMENT1 :: q.ctx)) := by
    simp [body, hk, ho.noc, ho.s1, ho.s2, ho.s3, next]
  have h2 : body (inC q (.COMMENT1 :: q.ctx)) 42 = some (.next, inC q (.COMMENT :: q.ctx)) := by
    simp [body, afterComment, isCommentCtx, next]
  have h3 : body (inC q (.COMMENT :: q.ctx)) 42 = some (.next, inC q (.ENDCOMMENT :: .COMMENT :: q.ctx)) := by
    simp [body, afterComment, isCommentCtx, next]
  have h4 : body (inC q (.ENDCOMMENT :: .COMMENT :: q.ctx)) 47 = some (.next, q) := by
    simp [body, next]
    exact eta_out q ho.noc
  rw [step_of_next _ h1, step_of_next _ h2, block_body q q.ctx b hb, step_of_next _ h3, step_of_next _ h4]

theorem line_body (q : PState) (K : List Ctx) (b : Bytes) (hb : LineBody b) (rest : Bytes) :
    loop (inC q (.LINECOMMENT :: K)) (b ++ rest) = loop (inC q (.LINECOMMENT :: K)) rest := by
  induction b with
  | nil => rfl
  | cons c t ih =>
    have hc := hb c (by simp)
    have h1 : body (inC q (.LINECOMMENT :: K)) c = some (.next, inC q (.LINECOMMENT :: K)) := by
      simp [body, afterComment, isCommentCtx, next, hc.1, hc.2]
    rw [List.cons_append, step_of_next _ h1, ih (fun x hx => hb x (by simp [hx]))]

/-- a line comment met outside strings is read as its terminating LF / CR alone -/
theorem line_skip (q : PState) (ho : Outside q) (b : Bytes) (hb : LineBody b) (nl : UInt8) (hnl : nl = 10 ∨ nl = 13)
    (rest : Bytes) : loop q (47 :: 47 :: (b ++ nl :: rest)) = loop q (nl :: rest) := by
  obtain ⟨k, K, hk, hkc⟩ := ho.top
  have h1 : body q 47 = some (.next, inC q (.COMMENT1 :: q.ctx)) := by
    simp [body, hk, ho.noc, ho.s1, ho.s2, ho.s3, next]
  have h2 : body (inC q (.COMMENT1 :: q.ctx)) 47 = some (.next, inC q (.LINECOMMENT :: q.ctx)) := by
    simp [body, afterComment, isCommentCtx, next]
  have hn47 : nl ≠ 47 := by rcases hnl with h | h <;> subst h <;> decide
  have h3 : body (inC q (.LINECOMMENT :: q.ctx)) nl = body q nl := by
    have e : { q with inComment := false, ctx := k :: K } = q := by rw [← hk]; exact eta_out q ho.noc
    have lhs : body (inC q (.LINECOMMENT :: q.ctx)) nl = dispatch q k nl := by
      simp only [body, inC, Bool.not_true, Bool.false_eq_true, if_false, hnl, if_true, afterComment, hk, hkc]
      rw [e]
    have rhs : body q nl = dispatch q k nl := by
      simp only [body, hk, ho.noc, Bool.not_false, if_true, hn47, false_and, if_false]
    rw [lhs, rhs]
  rw [step_of_next _ h1, step_of_next _ h2, line_body q q.ctx b hb]
  simp only [loop, stepByte, h3]

/-- an opened block comment whose body never meets a closing `*/`: the parser sits in COMMENT -/
theorem block_open (q : PState) (ho : Outside q) (b : Bytes) (hb : BlockBody b) :
    loop q (47 :: 42 :: b) = some (false, inC q (.COMMENT :: q.ctx)) := by
  obtain ⟨k, K, hk, hkc⟩ := ho.top
  have h1 : body q 47 = some (.next, inC q (.COMMENT1 :: q.ctx)) := by
    simp [body, hk, ho.noc, ho.s1, ho.s2, ho.s3, next]
  have h2 : body (inC q (.COMMENT1 :: q.ctx)) 42 = some (.next, inC q (.COMMENT :: q.ctx)) := by
    simp [body, afterComment, isCommentCtx, next]
  have := block_body q q.ctx b hb []
  rw [List.append_nil] at this
  rw [step_of_next _ h1, step_of_next _ h2, this]
  rfl

/-- `value()` while a block comment is open -/
theorem value_in_comment (q : PState) (K : List Ctx) : value (inC q (.COMMENT :: K)) = none := by
  unfold value
  split
  · rfl
  · split
    · rename_i heq
      have ht : Ctx.COMMENT = _ := (List.cons.inj heq).1
      subst ht
      simp
    · rfl

/-- the flush `parse(" ")` does not leave an open block comment -/
theorem flush_in_comment (q : PState) (K : List Ctx) :
    (parse (inC q (.COMMENT :: K)) [32]).map value = some none := by
  have h1 : body (inC q (.COMMENT :: K)) 32 = some (.next, inC q (.COMMENT :: K)) := by
    simp [body, afterComment, isCommentCtx, next]
  unfold parse
  split
  · simp [value_in_comment]
  · have : cstr [32] = [32] := by decide
    rw [this, step_of_next _ h1]
    simp [loop, value_in_comment]

/-- `/` followed by a byte other than `/` and `*`, outside strings: the parser is in ERR -/
theorem slash_other (q : PState) (ho : Outside q) (c : UInt8) (h1 : c ≠ 47) (h2 : c ≠ 42) (rest : Bytes) :
    ∃ e, e.state = .ERR ∧ loop q (47 :: c :: rest) = loop e rest := by
  obtain ⟨k, K, hk, hkc⟩ := ho.top
  have s1 : body q 47 = some (.next, inC q (.COMMENT1 :: q.ctx)) := by
    simp [body, hk, ho.noc, ho.s1, ho.s2, ho.s3, next]
  have s2 : body (inC q (.COMMENT1 :: q.ctx)) c = some (.next, { q with inComment := false, state := .ERR }) := by
    simp [body, afterComment, h1, h2, hk, hkc, dispatch, next]
  exact ⟨_, rfl, by rw [step_of_next _ s1, step_of_next _ s2]⟩

/-- in a state reached by the parser, "not in a comment" already says that the context top is a container -/
theorem outside_of_inv (q : PState) (hi : Inv q) (hc : q.inComment = false) (h1 : q.state ≠ .STRING)
    (h2 : q.state ≠ .QPROPERTY) (h3 : q.state ≠ .ESCAPE) : Outside q := by
  obtain ⟨base, hcx, hb, _⟩ := hi
  rcases hcx with ⟨_, hx⟩ | ⟨ht, _⟩
  · refine ⟨hc, ?_, h1, h2, h3⟩
    cases base with
    | nil => simp [BaseOK] at hb
    | cons k K => exact ⟨k, K, hx, by simpa [BaseOK] using hb⟩
  · rw [hc] at ht; cases ht

end AslProofs.XdlCmt
