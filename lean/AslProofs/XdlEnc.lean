import AslModel.Xdl
import AslProofs.JsonSpec
import AslProofs.XdlRfcMain
import AslProofs.XdlChunks
set_option linter.unusedSimpArgs false
set_option linter.unusedVariables false
set_option linter.unusedSectionVars false
namespace AslProofs.XdlEnc
open AslModel.Xdl Rfc8259

/-! ## the sink loses and duplicates nothing -/

theorem total_emit (w : W) (s : Bytes) : (w.emit s).total = w.total ++ s := by
  simp [W.emit, W.total]

theorem total_flush (w : W) : w.flushIfBig.total = w.total := by
  unfold W.flushIfBig
  split
  · simp [W.total]
  · rfl

mutual
theorem encW_total (g : Nat → UInt64 → Bytes) (m : Mode) : ∀ (lvl : Nat) (v : EV) (w : W),
    (encW g m lvl v w).total = w.total ++ enc g m lvl v
  | lvl, .arr l, w => by
    simp only [encW, enc]
    rw [total_flush, total_emit, encItemsW_total g m _ _ _ 0 l, total_emit]
    simp
  | lvl, .obj ms, w => by
    simp only [encW, enc]
    rw [total_flush, total_emit, encMembersW_total g m _ false ms, total_emit]
    simp
  | lvl, .none, w => by simp only [encW]; rw [total_flush, total_emit]
  | lvl, .null, w => by simp only [encW]; rw [total_flush, total_emit]
  | lvl, .bool b, w => by simp only [encW]; rw [total_flush, total_emit]
  | lvl, .int i, w => by simp only [encW]; rw [total_flush, total_emit]
  | lvl, .num b, w => by simp only [encW]; rw [total_flush, total_emit]
  | lvl, .flt b, w => by simp only [encW]; rw [total_flush, total_emit]
  | lvl, .str s, w => by simp only [encW]; rw [total_flush, total_emit]
theorem encItemsW_total (g : Nat → UInt64 → Bytes) (m : Mode) (lvl : Nat) (multi big : Bool) : ∀ (i : Nat) (l : List EV) (w : W),
    (encItemsW g m lvl multi big i l w).total = w.total ++ encItems g m lvl multi big i l
  | _, [], w => by simp [encItemsW, encItems]
  | i, x :: t, w => by
    simp only [encItemsW, encItems]
    rw [encItemsW_total g m lvl multi big (i + 1) t, encW_total g m lvl x, total_emit]
    simp
theorem encMembersW_total (g : Nat → UInt64 → Bytes) (m : Mode) (lvl : Nat) : ∀ (started : Bool) (ms : List (Bytes × EV)) (w : W),
    (encMembersW g m lvl started ms w).total = w.total ++ encMembers g m lvl started ms
  | _, [], w => by simp [encMembersW, encMembers]
  | started, (k, v) :: t, w => by
    simp only [encMembersW, encMembers]
    split
    · rw [encMembersW_total g m lvl true t, encW_total g m lvl v, total_emit]
      simp
    · exact encMembersW_total g m lvl started t w
end

/-- the concatenation of everything handed to the file sink is exactly the text `encode` returns -/
theorem writeChunks_flatten (g : Nat → UInt64 → Bytes) (m : Mode) (v : EV) :
    (writeChunks g m v).flatten = encode g m v := by
  unfold writeChunks encode
  have h := encW_total g m 0 v W.empty
  cases hp : m.pretty
  · simp only [Bool.false_eq_true, if_false]
    have : ∀ w : W, (w.rout.reverse :: w.chunks).reverse.flatten = w.total := by
      intro w; simp [W.total]
    rw [this, h]
    simp [W.total, W.empty]
  · simp only [if_true]
    have : ∀ w : W, (w.rout.reverse :: w.chunks).reverse.flatten = w.total := by
      intro w; simp [W.total]
    rw [this, total_emit, h]
    simp [W.total, W.empty]


/-! ## the encoder's strings are RFC 8259 strings denoting the same bytes -/

theorem hexDig_hexLow (n : Nat) (h : n < 16) : hexDig (hexLow n) = some n := by
  have : n = 0 ∨ n = 1 ∨ n = 2 ∨ n = 3 ∨ n = 4 ∨ n = 5 ∨ n = 6 ∨ n = 7 ∨ n = 8 ∨ n = 9 ∨ n = 10 ∨ n = 11 ∨ n = 12
      ∨ n = 13 ∨ n = 14 ∨ n = 15 := by omega
  rcases this with h | h | h | h | h | h | h | h | h | h | h | h | h | h | h | h <;> subst h <;> rfl

theorem chars_escByte (c : UInt8) (hc : c ≠ 0) (s w : Bytes) (h : Chars s w) : Chars (c :: s) (escByte c ++ w) := by
  unfold escByte
  split
  · subst_vars; exact Chars.esc 92 92 s w (by decide) h
  split
  · subst_vars; exact Chars.esc 34 34 s w (by decide) h
  split
  · subst_vars; exact Chars.esc 110 10 s w (by decide) h
  split
  · subst_vars; exact Chars.esc 114 13 s w (by decide) h
  split
  · subst_vars; exact Chars.esc 116 9 s w (by decide) h
  split
  · subst_vars; exact Chars.esc 102 12 s w (by decide) h
  split
  · subst_vars; exact Chars.esc 98 8 s w (by decide) h
  split
  · rename_i h32
    have hlt : c.toNat < 32 := by simpa [UInt8.lt_iff_toNat_lt] using h32
    have hne : c.toNat ≠ 0 := by
      intro h0; apply hc; apply UInt8.toNat_inj.mp; simpa using h0
    have h4 : hex4 48 48 (hexLow (c.toNat / 16)) (hexLow (c.toNat % 16)) = some c.toNat := by
      unfold hex4
      rw [hexDig_hexLow _ (by omega), hexDig_hexLow _ (by omega)]
      have : hexDig 48 = some 0 := by decide
      simp [this]
      omega
    have hu : utf8 c.toNat = [c] := by
      unfold utf8
      have : c.toNat < 0x80 := by omega
      simp [this]
    have := Chars.uni 48 48 (hexLow (c.toNat / 16)) (hexLow (c.toNat % 16)) c.toNat s w h4 hne (Or.inl (by omega)) h
    rw [hu] at this
    simpa using this
  · rename_i n1 n2 n3 n4 n5 n6 n7 n8
    refine Chars.plain c s w ⟨?_, ?_, ?_⟩ h
    · have : ¬ c.toNat < 32 := by simpa [UInt8.lt_iff_toNat_lt] using n8
      simp [UInt8.le_iff_toNat_le]; omega
    · exact n2
    · exact n1

theorem chars_flatMap (s : Bytes) (h0 : (0 : UInt8) ∉ s) : Chars s (s.flatMap escByte) := by
  induction s with
  | nil => exact Chars.nil
  | cons c t ih =>
    have hc : c ≠ 0 := fun h => h0 (by simp [h])
    have ht : (0 : UInt8) ∉ t := fun h => h0 (by simp [h])
    simpa using chars_escByte c hc t _ (ih ht)

theorem encString_ser (s : Bytes) (h0 : (0 : UInt8) ∉ s) : SerV (.str s) (encString s) := by
  unfold encString
  exact SerV.str s _ (chars_flatMap s h0)


/-! ## `myitoa` prints the RFC integer lexeme of its argument -/

def ifold (l : Bytes) : Int := l.foldl (fun (y : Int) c => 10 * y + ((c.toNat : Int) - 48)) 0

theorem ifold_append (a : Bytes) (c : UInt8) : ifold (a ++ [c]) = 10 * ifold a + ((c.toNat : Int) - 48) := by
  simp [ifold, List.foldl_append]

theorem decRev_zero (f : Nat) : decRev f 0 = [] := by
  cases f <;> simp [decRev]

theorem digit_toNat (r : Nat) (h : r < 10) : (UInt8.ofNat (48 + r)).toNat = 48 + r := by
  simp only [UInt8.toNat_ofNat']
  omega

theorem decRev_spec (f : Nat) : ∀ n : Nat, 0 < n → n < 10 ^ f →
    ∃ d ds, (decRev f n).reverse = d :: ds ∧ 49 ≤ d ∧ d ≤ 57 ∧ Digits ds ∧ ifold (d :: ds) = (n : Int) := by
  induction f with
  | zero => intro n h0 h1; simp at h1; omega
  | succ f ih =>
    intro n h0 h1
    have hne : n ≠ 0 := by omega
    have hr : n % 10 < 10 := Nat.mod_lt _ (by omega)
    have hdn := digit_toNat (n % 10) hr
    have hdig : isDig (UInt8.ofNat (48 + n % 10)) := by
      simp only [isDig, UInt8.le_iff_toNat_le, hdn, UInt8.reduceToNat]; omega
    simp only [decRev, hne, if_false, List.reverse_cons]
    by_cases hq : n / 10 = 0
    · rw [hq, decRev_zero]
      refine ⟨UInt8.ofNat (48 + n % 10), [], by simp, ?_, ?_, by intro x hx; simp at hx, ?_⟩
      · simp only [UInt8.le_iff_toNat_le, hdn, UInt8.reduceToNat]; omega
      · simp only [UInt8.le_iff_toNat_le, hdn, UInt8.reduceToNat]; omega
      · simp [ifold, hdn]; omega
    · have hq0 : 0 < n / 10 := by omega
      have hq1 : n / 10 < 10 ^ f := by
        rw [Nat.pow_succ] at h1; omega
      obtain ⟨d, ds, hrev, hd1, hd2, hds, hval⟩ := ih (n / 10) hq0 hq1
      refine ⟨d, ds ++ [UInt8.ofNat (48 + n % 10)], by simp [hrev], hd1, hd2, ?_, ?_⟩
      · intro x hx
        rcases List.mem_append.mp hx with hx | hx
        · exact hds x hx
        · rw [List.mem_singleton.mp hx]; exact hdig
      · have : d :: (ds ++ [UInt8.ofNat (48 + n % 10)]) = (d :: ds) ++ [UInt8.ofNat (48 + n % 10)] := by simp
        rw [this, ifold_append, hval, hdn]
        omega

/-- for every 32-bit int: the lexeme is `[-]int` of RFC 8259 and spells the value -/
theorem itoa_spec (i : Int) (h1 : -2147483648 ≤ i) (h2 : i ≤ 2147483647) :
    (∃ minus ip, (minus = [] ∨ minus = [45]) ∧ IntPart ip ∧ itoa i = minus ++ ip) ∧ decVal (itoa i) = i := by
  unfold itoa
  by_cases h0 : i = 0
  · subst h0
    exact ⟨⟨[], [48], Or.inl rfl, .zero, rfl⟩, rfl⟩
  · simp only [h0, if_false]
    by_cases hneg : i < 0
    · simp only [hneg, if_true]
      by_cases hmin : i = -2147483648
      · subst hmin
        simp only [if_true]
        refine ⟨⟨[45], [50, 49, 52, 55, 52, 56, 51, 54, 52, 56], Or.inr rfl,
          .nz 50 _ (by decide) (by decide) (by intro x hx; simp at hx; rcases hx with h | h | h | h | h | h | h | h | h <;> subst h <;> (unfold isDig; decide)), rfl⟩, by rfl⟩
      · simp only [hmin, if_false]
        obtain ⟨d, ds, hrev, hd1, hd2, hds, hval⟩ := decRev_spec 16 (-i).toNat (by omega) (by omega)
        rw [hrev]
        refine ⟨⟨[45], d :: ds, Or.inr rfl, .nz d ds hd1 hd2 hds, rfl⟩, ?_⟩
        simp only [decVal]
        have : ifold (d :: ds) = ((-i).toNat : Int) := hval
        simp only [ifold] at this
        rw [this]
        omega
    · simp only [hneg, if_false]
      obtain ⟨d, ds, hrev, hd1, hd2, hds, hval⟩ := decRev_spec 16 i.toNat (by omega) (by omega)
      rw [hrev]
      refine ⟨⟨[], d :: ds, Or.inl rfl, .nz d ds hd1 hd2 hds, rfl⟩, ?_⟩
      have hd45 : d ≠ 45 := by intro h; subst h; revert hd1; decide
      have : decVal (d :: ds) = ifold (d :: ds) := by
        unfold decVal
        split
        · rename_i heq; simp at heq; exact absurd heq.1 hd45
        · rfl
      rw [this, hval]
      omega

theorem itoa_number (i : Int) (h1 : -2147483648 ≤ i) (h2 : i ≤ 2147483647) : Number (itoa i) := by
  obtain ⟨⟨minus, ip, hm, hip, he⟩, _⟩ := itoa_spec i h1 h2
  have := Number.mk minus ip [] [] hm hip .none .none
  simpa [he] using this


/-! ## the JSON text the encoder writes is in the RFC 8259 grammar and denotes the tree -/

mutual
/-- well-formed `Var` trees: 32-bit ints, NUL-free strings and keys (C strings) -/
def WF : EV → Prop
  | .int i => -2147483648 ≤ i ∧ i ≤ 2147483647
  | .str s => (0 : UInt8) ∉ s
  | .arr l => WFL l
  | .obj ms => WFM ms
  | _ => True
def WFL : List EV → Prop
  | [] => True
  | x :: t => WF x ∧ WFL t
def WFM : List (Bytes × EV) → Prop
  | [] => True
  | (k, v) :: t => (0 : UInt8) ∉ k ∧ WF v ∧ WFM t
end

/-- what a real number is written as -/
def denoteReal (g : Nat → UInt64 → Bytes) (P : Nat) (b : UInt64) : JV :=
  if !dFinite b then
    if dNaN b then .null else .num (if dNeg b then [45, 49, 101, 52, 48, 48] else [49, 101, 52, 48, 48])
  else .num (fixComma (g P b))

mutual
/-- the JSON value (numbers as lexemes) that the encoder output denotes: undefined → null, NaN → null,
    ±inf → ±1e400, undefined members dropped -/
def denote (g : Nat → UInt64 → Bytes) (m : Mode) : EV → JV
  | .none => .null
  | .null => .null
  | .bool b => .bool b
  | .int i => .num (itoa i)
  | .num b => denoteReal g (precD m) b
  | .flt b => denoteReal g (precF m) b
  | .str s => .str s
  | .arr l => .arr (denoteL g m l)
  | .obj ms => .obj (denoteM g m ms)
def denoteL (g : Nat → UInt64 → Bytes) (m : Mode) : List EV → List JV
  | [] => []
  | x :: t => denote g m x :: denoteL g m t
def denoteM (g : Nat → UInt64 → Bytes) (m : Mode) : List (Bytes × EV) → List (Bytes × JV)
  | [] => []
  | (k, v) :: t => if okV v then (k, denote g m v) :: denoteM g m t else denoteM g m t
end

/-- H1: `snprintf("%.Pg")` of a finite double is an RFC 8259 number lexeme -/
def H1 (g : Nat → UInt64 → Bytes) : Prop := ∀ (P : Nat) (b : UInt64), dFinite b = true → Number (g P b)

theorem number_no_comma {lex : Bytes} (h : Number lex) : (44 : UInt8) ∉ lex := by
  cases h with
  | mk minus ip fr ex hm hip hfr hex =>
    have d44 : ∀ ds : Bytes, Digits ds → (44 : UInt8) ∉ ds := by
      intro ds hds h0
      have := hds 44 h0
      simp [isDig] at this
    have h1 : (44 : UInt8) ∉ minus := by rcases hm with rfl | rfl <;> simp
    have h2 : (44 : UInt8) ∉ ip := d44 ip (AslProofs.XdlRfc.intpart_digits hip).2
    have h3 : (44 : UInt8) ∉ fr := by
      cases hfr with
      | none => simp
      | some d ds hd hds =>
        have := d44 ds hds
        have hd0 : d ≠ 44 := by intro h; subst h; simp [isDig] at hd
        simp [this, Ne.symm hd0]
    have h4 : (44 : UInt8) ∉ ex := by
      cases hex with
      | none => simp
      | some e sgn d ds he hs hd hds =>
        have := d44 ds hds
        have hd0 : d ≠ 44 := by intro h; subst h; simp [isDig] at hd
        rcases he with rfl | rfl <;> rcases hs with rfl | rfl | rfl <;> simp [this, Ne.symm hd0]
    simp [h1, h2, h3, h4]

theorem fixComma_id (l : Bytes) (h : (44 : UInt8) ∉ l) : fixComma l = l := by
  induction l with
  | nil => rfl
  | cons c t ih =>
    have hc : c ≠ 44 := fun h0 => h (by simp [h0])
    have ht : (44 : UInt8) ∉ t := fun h0 => h (by simp [h0])
    simp [fixComma, hc, ih ht]

theorem number_1e400 : Number [49, 101, 52, 48, 48] :=
  Number.mk [] [49] [] [101, 52, 48, 48] (Or.inl rfl) (.nz 49 [] (by decide) (by decide) (by intro x hx; simp at hx)) .none
    (.some 101 [] 52 [48, 48] (Or.inl rfl) (Or.inl rfl) (by unfold isDig; decide)
      (by intro x hx; simp at hx; subst hx; unfold isDig; decide))

theorem number_m1e400 : Number [45, 49, 101, 52, 48, 48] :=
  Number.mk [45] [49] [] [101, 52, 48, 48] (Or.inr rfl) (.nz 49 [] (by decide) (by decide) (by intro x hx; simp at hx)) .none
    (.some 101 [] 52 [48, 48] (Or.inl rfl) (Or.inl rfl) (by unfold isDig; decide)
      (by intro x hx; simp at hx; subst hx; unfold isDig; decide))

theorem encReal_ser (g : Nat → UInt64 → Bytes) (hg : H1 g) (P : Nat) (b : UInt64) :
    SerV (denoteReal g P b) (encReal g P b) := by
  unfold denoteReal encReal
  cases hf : dFinite b
  · simp only [Bool.not_false, if_true]
    cases hn : dNaN b
    · simp only [Bool.false_eq_true, if_false]
      cases dNeg b
      · exact SerV.num _ number_1e400
      · exact SerV.num _ number_m1e400
    · exact SerV.null
  · simp only [Bool.not_true, Bool.false_eq_true, if_false]
    have := hg P b hf
    rw [fixComma_id _ (number_no_comma this)]
    exact SerV.num _ this

theorem ws_nil : Ws [] := by intro c h; simp at h
theorem ws_sp : Ws [32] := by intro c h; simp at h; subst h; exact Or.inl rfl
theorem ws_indent (lvl : Nat) : Ws (10 :: indentOf lvl) := by
  intro c h
  simp [indentOf] at h
  rcases h with rfl | ⟨_, rfl⟩
  · exact Or.inr (Or.inr (Or.inl rfl))
  · exact Or.inr (Or.inl rfl)

section
variable (g : Nat → UInt64 → Bytes) (m : Mode) (hj : m.json = true) (hg : H1 g)
include hj hg

theorem sep_form (lvl : Nat) (multi big : Bool) (i : Nat) : ∃ ws', Ws ws' ∧
    (if i + 1 > 0 then (if multi && (big || (i + 1) % 16 = 0) then sep2 m ++ 10 :: indentOf lvl else sep1 m) else [])
      = 44 :: ws' := by
  have h2 : sep2 m = [44] := by simp [sep2, hj]
  simp only [Nat.succ_pos, if_true, h2]
  split
  · exact ⟨10 :: indentOf lvl, ws_indent lvl, rfl⟩
  · unfold sep1
    split
    · exact ⟨[32], ws_sp, rfl⟩
    · exact ⟨[], ws_nil, rfl⟩

mutual
theorem enc_ser : ∀ (v : EV) (lvl : Nat), WF v → SerV (denote g m v) (enc g m lvl v)
  | .none, _, _ => by simp only [denote, enc]; exact SerV.null
  | .null, _, _ => by simp only [denote, enc]; exact SerV.null
  | .bool b, _, _ => by
    simp only [denote, enc, hj, if_true]
    cases b
    · exact SerV.false
    · exact SerV.true
  | .int i, _, hw => by
    simp only [denote, enc]
    exact SerV.num _ (itoa_number i hw.1 hw.2)
  | .num b, _, _ => by simp only [denote, enc]; exact encReal_ser g hg _ b
  | .flt b, _, _ => by simp only [denote, enc]; exact encReal_ser g hg _ b
  | .str s, _, hw => by simp only [denote, enc]; exact encString_ser s hw
  | .arr [], lvl, _ => by
    have hl : arrayLayout m [] = (false, false) := by
      cases m.pretty <;> simp [arrayLayout, isStrV, isArrV, isObjV]
    simp only [denote, denoteL, enc, encItems, hl]
    have h := SerV.arr0 [] ws_nil
    simpa using h
  | .arr (x :: t), lvl, hw => by
    simp only [denote, denoteL, enc, encItems]
    have hx := enc_ser x (if (arrayLayout m (x :: t)).1 = true then lvl + 1 else lvl) hw.1
    have hpre : Ws (if (arrayLayout m (x :: t)).1 = true then 10 :: indentOf (if (arrayLayout m (x :: t)).1 = true then lvl + 1 else lvl) else []) := by
      split
      · exact ws_indent _
      · exact ws_nil
    have hpost : Ws (if (arrayLayout m (x :: t)).1 = true then 10 :: indentOf lvl else []) := by
      split
      · exact ws_indent _
      · exact ws_nil
    have he := encItems_ser t (if (arrayLayout m (x :: t)).1 = true then lvl + 1 else lvl) (arrayLayout m (x :: t)).1
      (arrayLayout m (x :: t)).2 0 hw.2 (denote g m x) _ _ _ hx hpre hpost
    have h := SerV.arr _ _ he
    simpa using h
  | .obj ms, lvl, hw => by
    simp only [denote, enc, hj, if_true]
    have hpost : Ws (if m.pretty = true then 10 :: indentOf lvl else []) := by
      split
      · exact ws_indent _
      · exact ws_nil
    rcases encMembers_ser ms (if m.pretty = true then lvl + 1 else lvl) hw _ hpost with ⟨h1, h2⟩ | h
    · rw [h1, h2]
      have h := SerV.obj0 _ hpost
      simpa using h
    · have h := SerV.obj _ _ h
      simpa using h

/-- the items after the first one -/
theorem encItems_ser : ∀ (t : List EV) (lvl : Nat) (multi big : Bool) (i : Nat), WFL t → ∀ (vx : JV) (tx a b : Bytes),
    SerV vx tx → Ws a → Ws b →
    SerElems (vx :: denoteL g m t) (a ++ tx ++ encItems g m lvl multi big (i + 1) t ++ b)
  | [], lvl, multi, big, i, _, vx, tx, a, b, hx, ha, hb => by
    simp only [denoteL, encItems, List.append_nil]
    exact SerElems.one vx a tx b ha hx hb
  | y :: t', lvl, multi, big, i, hw, vx, tx, a, b, hx, ha, hb => by
    simp only [denoteL, encItems]
    obtain ⟨ws', hws', hsep⟩ := sep_form g m hj hg lvl multi big i
    rw [hsep]
    have hy := enc_ser y lvl hw.1
    have ih := encItems_ser t' lvl multi big (i + 1) hw.2 (denote g m y) (enc g m lvl y) ws' b hy hws' hb
    have h := SerElems.cons vx _ a tx [] _ ha hx ws_nil ih
    simpa using h

/-- the members of an object: none written, or a `SerMembers` list followed by the closing white space -/
theorem encMembers_ser : ∀ (ms : List (Bytes × EV)) (lvl : Nat), WFM ms → ∀ (d : Bytes), Ws d →
    (denoteM g m ms = [] ∧ encMembers g m lvl false ms = []) ∨
      SerMembers (denoteM g m ms) (encMembers g m lvl false ms ++ d)
  | [], _, _, _, _ => Or.inl ⟨rfl, rfl⟩
  | (k, v) :: t, lvl, hw, d, hd => by
    simp only [denoteM, encMembers, hj, Bool.true_or, Bool.and_true]
    cases hok : okV v
    · simp only [Bool.false_eq_true, if_false]
      exact encMembers_ser t lvl hw.2.2 d hd
    · simp only [if_true]
      right
      have hv := enc_ser v lvl hw.2.1
      have hk := chars_flatMap k hw.1
      have hpre : Ws (if m.pretty = true then 10 :: indentOf lvl else []) := by
        split
        · exact ws_indent _
        · exact ws_nil
      have h := encMembersTail_ser t lvl hw.2.2 k (k.flatMap escByte) (denote g m v) (enc g m lvl v) _ d hk hv hpre hd
      simpa [encString] using h

/-- the members after one that has been written -/
theorem encMembersTail_ser : ∀ (t : List (Bytes × EV)) (lvl : Nat), WFM t → ∀ (k kw : Bytes) (vx : JV) (tx a d : Bytes),
    Chars k kw → SerV vx tx → Ws a → Ws d →
    SerMembers ((k, vx) :: denoteM g m t)
      (a ++ 34 :: kw ++ 34 :: (if m.pretty = true then [58, 32] else [58]) ++ tx ++ encMembers g m lvl true t ++ d)
  | [], lvl, _, k, kw, vx, tx, a, d, hk, hx, ha, hd => by
    simp only [denoteM, encMembers, List.append_nil]
    cases hp : m.pretty
    · have h := SerMembers.one k vx a kw [] [] tx d ha hk ws_nil ws_nil hx hd
      simpa using h
    · have h := SerMembers.one k vx a kw [] [32] tx d ha hk ws_nil ws_sp hx hd
      simpa using h
  | (k2, v2) :: t', lvl, hw, k, kw, vx, tx, a, d, hk, hx, ha, hd => by
    simp only [denoteM, encMembers, hj, Bool.true_or, Bool.and_true]
    cases hok : okV v2
    · simp only [Bool.false_eq_true, if_false]
      exact encMembersTail_ser t' lvl hw.2.2 k kw vx tx a d hk hx ha hd
    · simp only [if_true]
      have hv := enc_ser v2 lvl hw.2.1
      have hk2 := chars_flatMap k2 hw.1
      have hpre : Ws (if m.pretty = true then 10 :: indentOf lvl else []) := by
        split
        · exact ws_indent _
        · exact ws_nil
      have ih := encMembersTail_ser t' lvl hw.2.2 k2 (k2.flatMap escByte) (denote g m v2) (enc g m lvl v2) _ d hk2 hv hpre hd
      have h2 : sep2 m = [44] := by simp [sep2, hj]
      cases hp : m.pretty
      · have h := SerMembers.cons k vx _ a kw [] [] tx [] _ ha hk ws_nil ws_nil hx ws_nil ih
        simpa [encString, h2, hp] using h
      · have h := SerMembers.cons k vx _ a kw [] [32] tx [] _ ha hk ws_nil ws_sp hx ws_nil ih
        simpa [encString, h2, hp] using h
end
end


/-! ## round trip and file round trip -/

theorem C06chunk (chunks : List Bytes) (hn : ∀ c ∈ chunks, (0 : UInt8) ∉ c) :
    ((parseChunks init chunks).bind fun p => (parse p [32]).map value) = decode chunks.flatten := by
  obtain ⟨x, y, hx, hy, hix, hiy, hr⟩ := AslProofs.Xdl.chunks_R chunks hn init init (AslProofs.Xdl.R.refl _)
    AslProofs.Xdl.inv_init AslProofs.Xdl.inv_init
  obtain ⟨x', y', hx', hy', _, _, hr'⟩ := AslProofs.Xdl.parse_R [32] hr hix hiy
  simp [decode, decodeFrom, hx, hy, hx', hy', AslProofs.Xdl.value_R hr']


theorem encode_serDoc (g : Nat → UInt64 → Bytes) (m : Mode) (hj : m.json = true) (hg : H1 g) (v : EV) (hw : WF v) :
    SerDoc (denote g m v) (encode g m v) := by
  refine ⟨[], enc g m 0 v, if m.pretty then [10] else [], ws_nil, enc_ser g m hj hg v 0 hw, ?_, by simp [encode]⟩
  split
  · intro c hc; simp at hc; subst hc; exact Or.inr (Or.inr (Or.inl rfl))
  · exact ws_nil

/-- decode ∘ encode on the model, JSON mode, compact or pretty -/
theorem decode_encode (g : Nat → UInt64 → Bytes) (m : Mode) (hj : m.json = true) (hg : H1 g) (v : EV) (hw : WF v)
    (hd : depth (denote g m v) ≤ 1000) : decode (encode g m v) = some (some (norm (denote g m v))) :=
  AslProofs.XdlRfc.decode_doc _ _ (encode_serDoc g m hj hg v hw) hd

theorem split_flatten (n : Nat) : ∀ (fuel : Nat) (b : Bytes), (readFile.split n fuel b).flatten = b := by
  intro fuel
  induction fuel with
  | zero => intro b; simp [readFile.split]
  | succ f ih =>
    intro b
    simp only [readFile.split]
    split
    · simp
    · simp [ih]

theorem split_nonul (n : Nat) : ∀ (fuel : Nat) (b : Bytes), (0 : UInt8) ∉ b → ∀ c ∈ readFile.split n fuel b, (0 : UInt8) ∉ c := by
  intro fuel
  induction fuel with
  | zero => intro b hb c hc; simp [readFile.split] at hc; subst hc; exact hb
  | succ f ih =>
    intro b hb c hc
    simp only [readFile.split] at hc
    split at hc
    · simp at hc; subst hc; exact hb
    · simp at hc
      rcases hc with rfl | hc
      · intro h0; exact hb (List.mem_of_mem_take h0)
      · exact ih (b.drop n) (fun h0 => hb (List.mem_of_mem_drop h0)) c hc

/-- `Xdl::read`: reading a non-empty NUL-free file of at most 100000 ... any size in 16382-byte chunks is `decode` of its
    content (after an optional UTF-8 BOM) -/
theorem readFile_eq_decode (content : Bytes) (hne : content ≠ []) (h0 : (0 : UInt8) ∉ content) :
    readFile content = decode (stripBom content) := by
  have hb : (0 : UInt8) ∉ stripBom content := by
    unfold stripBom
    split
    · intro h; apply h0; simp [h]
    · exact h0
  have hsz : min content.length 100000 ≠ 0 := by
    cases content with
    | nil => exact absurd rfl hne
    | cons a t => simp
  unfold readFile
  simp only [hsz, if_false]
  have hci := C06chunk (readFile.split (min 16382 (min content.length 100000)) content.length (stripBom content))
    (split_nonul _ _ _ hb)
  rw [split_flatten] at hci
  rw [← hci]
  cases parseChunks init (readFile.split (min 16382 (min content.length 100000)) content.length (stripBom content)) <;> rfl


theorem serV_head {v : JV} {x : Bytes} (h : SerV v x) : ∃ c t, x = c :: t ∧ c ≠ 0xEF := by
  cases h with
  | null => exact ⟨_, _, rfl, by decide⟩
  | true => exact ⟨_, _, rfl, by decide⟩
  | false => exact ⟨_, _, rfl, by decide⟩
  | str s w hc => exact ⟨_, _, rfl, by decide⟩
  | arr0 w hw => exact ⟨_, _, rfl, by decide⟩
  | arr vs w he => exact ⟨_, _, rfl, by decide⟩
  | obj0 w hw => exact ⟨_, _, rfl, by decide⟩
  | obj ms w hm => exact ⟨_, _, rfl, by decide⟩
  | num lex hn =>
    cases hn with
    | mk minus ip fr ex hm hip hfr hex =>
      rcases hm with rfl | rfl
      · cases hip with
        | zero => exact ⟨48, _, rfl, by decide⟩
        | nz d ds h1 h2 hds => exact ⟨d, ds ++ (fr ++ ex), by simp, by intro h; subst h; revert h2; decide⟩
      · exact ⟨45, ip ++ (fr ++ ex), by simp, by decide⟩

/-- write to a file through the flushing sink, read it back in 16382-byte chunks = decode ∘ encode -/
theorem file_roundtrip (g : Nat → UInt64 → Bytes) (m : Mode) (hj : m.json = true) (hg : H1 g) (v : EV) (hw : WF v) :
    readFile (writeChunks g m v).flatten = decode (encode g m v) := by
  rw [writeChunks_flatten]
  have hdoc := encode_serDoc g m hj hg v hw
  have h0 := AslProofs.XdlRfc.serDoc_nonul hdoc
  obtain ⟨c, t, hx, hc⟩ := serV_head (enc_ser g m hj hg v 0 hw)
  have hne : encode g m v ≠ [] := by simp [encode, hx]
  rw [readFile_eq_decode _ hne h0]
  have : stripBom (encode g m v) = encode g m v := by
    simp only [encode, hx, List.cons_append]
    unfold stripBom
    split
    · rename_i heq; simp at heq; exact absurd heq.1 hc
    · rfl
  rw [this]

/-! ## what `norm (denote v)` is -/

theorem norm_denote_int (g : Nat → UInt64 → Bytes) (m : Mode) (i : Int) (h1 : -2147483648 ≤ i) (h2 : i ≤ 2147483647) :
    norm (denote g m (.int i)) = if (itoa i).length ≤ 9 then .int i else .num (itoa i) := by
  obtain ⟨⟨minus, ip, hm, hip, he⟩, hval⟩ := itoa_spec i h1 h2
  have hint := AslProofs.XdlRfc.isIntLex_int minus ip hm hip
  simp only [denote, norm]
  rw [he] at hval ⊢
  simp only [hint, true_and, hval]

theorem objSet_fresh (acc : List (Bytes × JV)) (k : Bytes) (x : JV) (h : ∀ p ∈ acc, p.1 ≠ k) :
    objSet acc k x = acc ++ [(k, x)] := by
  induction acc with
  | nil => rfl
  | cons a t ih =>
    obtain ⟨ka, va⟩ := a
    have h1 : ka ≠ k := h (ka, va) (by simp)
    simp [objSet, h1, ih (fun p hp => h p (by simp [hp]))]

/-- with pairwise distinct keys nothing is merged: the decoded object has exactly the encoded members -/
theorem normM_distinct : ∀ (ms acc : List (Bytes × JV)), (ms.map (·.1)).Nodup → (∀ p ∈ acc, ∀ q ∈ ms, p.1 ≠ q.1) →
    normM ms acc = acc ++ ms.map fun p => (p.1, norm p.2)
  | [], acc, _, _ => by simp [normM]
  | (k, v) :: t, acc, hnd, hdis => by
    simp only [normM]
    have hfresh : ∀ p ∈ acc, p.1 ≠ k := fun p hp => hdis p hp (k, v) (by simp)
    rw [objSet_fresh acc k (norm v) hfresh]
    simp only [List.map_cons, List.nodup_cons] at hnd
    rw [normM_distinct t _ hnd.2]
    · simp
    · intro p hp q hq
      rcases List.mem_append.mp hp with hp | hp
      · exact hdis p hp q (by simp [hq])
      · simp at hp
        subst hp
        intro heq
        apply hnd.1
        simp only [List.mem_map]
        exact ⟨q, hq, heq.symm⟩

end AslProofs.XdlEnc
