import AslProofs.Xdl
set_option linter.unusedSimpArgs false
set_option linter.unusedVariables false
namespace AslProofs.XdlFrame
open AslModel.Xdl AslProofs.Xdl

/-- the same state with `E` added at the bottom of the context stack -/
def ext (E : List Ctx) (p : PState) : PState := { p with ctx := p.ctx ++ E }

theorem put_ext (E : List Ctx) (p : PState) (x : JV) : put (ext E p) x = (put p x).map (ext E) := by
  unfold put ext
  cases p.lists with
  | nil => rfl
  | cons a t =>
    cases a with
    | arr r => rfl
    | obj ms =>
      cases p.props with
      | nil => rfl
      | cons k ps => rfl

theorem valueEnd_ext (E : List Ctx) (p q : PState) (h : valueEnd p = some q) : valueEnd (ext E p) = some (ext E q) := by
  unfold valueEnd at h ⊢
  unfold ext
  cases hc : p.ctx with
  | nil => simp [hc] at h
  | cons t r =>
    simp only [hc] at h
    simp only [List.cons_append]
    cases h
    rfl

theorem scalar_ext (E : List Ctx) (p q : PState) (x : JV) (h : scalar p x = some q) : scalar (ext E p) x = some (ext E q) := by
  unfold scalar at h ⊢
  rw [put_ext]
  cases hp : put p x with
  | none => simp [hp] at h
  | some p1 =>
    simp only [hp, Option.bind_eq_bind, Option.bind_some] at h
    simp only [Option.map_some, Option.bind_eq_bind, Option.bind_some]
    exact valueEnd_ext E p1 q h

theorem endContainer_ext (E : List Ctx) (p : PState) : endContainer (ext E p) = (endContainer p).map (ext E) := by
  unfold endContainer
  cases hl : p.lists with
  | nil => simp [ext, hl]
  | cons v rest =>
    have : (ext E p).lists = v :: rest := by simp [ext, hl]
    simp only [this]
    have e : ({ ext E p with lists := rest } : PState) = ext E { p with lists := rest } := rfl
    rw [e, put_ext]

theorem closeContainer_ext (E : List Ctx) (p q : PState) (h : closeContainer p = some q) :
    closeContainer (ext E p) = some (ext E q) := by
  unfold closeContainer at h ⊢
  cases hc : p.ctx with
  | nil => simp [hc] at h
  | cons t rest =>
    simp only [hc] at h
    have : (ext E p).ctx = t :: (rest ++ E) := by simp [ext, hc]
    simp only [this]
    cases hv : valueEnd { p with ctx := rest } with
    | none => simp [hv] at h
    | some p1 =>
      simp only [hv, Option.bind_eq_bind, Option.bind_some] at h
      have e : ({ ext E p with ctx := rest ++ E } : PState) = ext E { p with ctx := rest } := rfl
      rw [e, valueEnd_ext E _ p1 hv]
      simp only [Option.bind_eq_bind, Option.bind_some]
      rw [endContainer_ext, h]
      rfl


def extR (E : List Ctx) (r : Flag × PState) : Flag × PState := (r.1, ext E r.2)

/-- close a leaf branch: `h : some (..) = some r` determines `r`; the goal computes to the same -/
macro "fin" : tactic => `(tactic|
  (simp only [next, errRet, errBrk, Option.some.injEq] at *
   subst_vars
   simp only [ext, extR, next, errRet, errBrk, push, beginObject]
   repeat' split
   all_goals simp_all [ext, extR, next, errRet, errBrk, push, beginObject]
   all_goals (first | omega | skip)))

theorem bind_some_iff {α β : Type} (o : Option α) (f : α → Option β) (r : β) :
    o.bind f = some r ↔ ∃ a, o = some a ∧ f a = some r := by
  cases o <;> simp

theorem scalar_again_ext (E : List Ctx) (p : PState) (v : JV) (r : Flag × PState)
    (h : (scalar p v).bind (fun p1 => some (Flag.again, p1)) = some r) :
    (scalar (ext E p) v).bind (fun p1 => some (Flag.again, p1)) = some (extR E r) := by
  obtain ⟨p1, h1, h2⟩ := (bind_some_iff _ _ _).mp h
  rw [scalar_ext E p p1 v h1]
  cases h2
  rfl

theorem scalar_next_ext (E : List Ctx) (p : PState) (v : JV) (r : Flag × PState)
    (h : (scalar p v).bind (fun p1 => next p1) = some r) :
    (scalar (ext E p) v).bind (fun p1 => next p1) = some (extR E r) := by
  obtain ⟨p1, h1, h2⟩ := (bind_some_iff _ _ _).mp h
  rw [scalar_ext E p p1 v h1]
  simp only [next] at h2
  cases h2
  rfl

theorem close_next_ext (E : List Ctx) (p : PState) (r : Flag × PState)
    (h : (closeContainer p).bind (fun p1 => next p1) = some r) :
    (closeContainer (ext E p)).bind (fun p1 => next p1) = some (extR E r) := by
  obtain ⟨p1, h1, h2⟩ := (bind_some_iff _ _ _).mp h
  rw [closeContainer_ext E p p1 h1]
  simp only [next] at h2
  cases h2
  rfl

theorem intEnd_ext (E : List Ctx) (p : PState) (r : Flag × PState) (h : intEnd p = some r) :
    intEnd (ext E p) = some (extR E r) := by
  unfold intEnd at h ⊢
  have hb : buf (ext E p) = buf p := rfl
  simp only [hb]
  generalize buf p = b at *
  by_cases hne : b ≠ [45]
  case neg =>
    rw [if_neg hne] at h ⊢
    simp only [errRet] at h ⊢
    cases h; rfl
  rw [if_pos hne] at h ⊢
  cases hz : leadingZeroBad b with
  | none => simp [hz] at h
  | some bad =>
    simp only [hz, Option.bind_some] at h ⊢
    cases bad with
    | true =>
      simp only [if_true, errRet] at h ⊢
      cases h; rfl
    | false =>
      simp only [Bool.false_eq_true, if_false] at h ⊢
      exact scalar_again_ext E p _ r h

theorem numEnd_ext (E : List Ctx) (p : PState) (r : Flag × PState) (h : numEnd p = some r) :
    numEnd (ext E p) = some (extR E r) := by
  unfold numEnd at h ⊢
  exact scalar_again_ext E p _ r h

theorem unicodeChar_ext (E : List Ctx) (p : PState) (c : UInt8) (r : Flag × PState) (h : unicodeChar p c = some r) :
    unicodeChar (ext E p) c = some (extR E r) := by
  unfold unicodeChar at h ⊢
  simp only [next, pushStr] at h ⊢
  have e1 : (ext E p).ucount = p.ucount := rfl
  have e2 : (ext E p).ubuf = p.ubuf := rfl
  have e3 : (ext E p).wchar = p.wchar := rfl
  have e4 : (ext E p).prev = p.prev := rfl
  simp only [e1, e2, e3, e4]
  repeat' split at h
  all_goals fin

theorem waitValue_ext (E : List Ctx) (p : PState) (k : Ctx) (c : UInt8) (r : Flag × PState) (h : waitValue p k c = some r) :
    waitValue (ext E p) k c = some (extR E r) := by
  unfold waitValue at h ⊢
  split at h
  · fin
  split at h
  · fin
  split at h
  · fin
  split at h
  · rename_i h1 h2 h3 h4
    simp only [h1, h2, h3, h4, if_false, if_true]
    have hl : (ext E p).lists = p.lists := rfl
    simp only [hl]
    split at h
    · rename_i h5; simp only [h5, if_true, errRet] at h ⊢; cases h; rfl
    · rename_i h5; simp only [h5, if_false, next] at h ⊢; cases h; rfl
  split at h
  · rename_i h1 h2 h3 h4 h5
    simp only [h1, h2, h3, h4, h5, if_false, if_true]
    have hl : (ext E p).lists = p.lists := rfl
    simp only [hl]
    split at h
    · rename_i h6; simp only [h6, if_true, errRet] at h ⊢; cases h; rfl
    · rename_i h6; simp only [h6, if_false, next] at h ⊢; cases h; rfl
  split at h
  · rename_i h1 h2 h3 h4 h5 h6
    simp only [h1, h2, h3, h4, h5, h6, if_false, if_true]
    exact close_next_ext E p r h
  split at h
  · fin
  split at h
  · rename_i h1 h2 h3 h4 h5 h6 h7 h8
    simp only [h1, h2, h3, h4, h5, h6, h7, h8, if_false, if_true]
    exact close_next_ext E p r h
  split at h
  · fin
  · fin

theorem waitProperty_ext (E : List Ctx) (p : PState) (c : UInt8) (r : Flag × PState) (h : waitProperty p c = some r) :
    waitProperty (ext E p) c = some (extR E r) := by
  unfold waitProperty at h ⊢
  split at h
  · fin
  split at h
  · fin
  split at h
  · rename_i h1 h2 h3
    simp only [h1, h2, h3, if_false, if_true]
    exact close_next_ext E p r h
  split at h
  · fin
  · fin


theorem dispatch_ext (E : List Ctx) (p : PState) (k : Ctx) (c : UInt8) (r : Flag × PState) (h : dispatch p k c = some r) :
    dispatch (ext E p) k c = some (extR E r) := by
  unfold dispatch at h ⊢
  have es : (ext E p).state = p.state := rfl
  simp only [es]
  have eb : buf (ext E p) = buf p := rfl
  have epv : (ext E p).prev = p.prev := rfl
  cases hst : p.state <;> simp only [hst] at h ⊢
  case MINUS | NUMBER_DOT | NUMBER_E | NUMBER_ES | ERR | WAIT_EQUAL =>
    repeat' split at h
    all_goals fin
  case INT =>
    repeat' split at h
    all_goals first
      | (rename_i h1 h2 h3; simp only [h1, h2, h3, if_false, Bool.false_eq_true]; exact intEnd_ext E p r h)
      | fin
  case NUMBER =>
    repeat' split at h
    all_goals first
      | (rename_i h1 h2 h3; simp only [h1, h2, h3, if_false, if_true, Bool.false_eq_true]; exact numEnd_ext E p r h)
      | fin
  case NUMBER_EV =>
    repeat' split at h
    all_goals first
      | (rename_i h1 h2; simp only [h1, h2, if_false, if_true, Bool.false_eq_true]; exact numEnd_ext E p r h)
      | fin
  case STRING =>
    repeat' split at h
    all_goals first
      | (rename_i h1 h2; simp only [h1, h2, if_false, if_true, eb]; exact scalar_next_ext E p _ r h)
      | fin
  case PROPERTY | QPROPERTY =>
    repeat' split at h
    all_goals (simp only [eb]; fin)
  case WAIT_COMMA_OR_VALUE =>
    split at h
    · fin
    · rename_i h1; simp only [h1, if_false]; exact waitValue_ext E p k c r h
  case WAIT_VALUE => exact waitValue_ext E p k c r h
  case WAIT_SEP =>
    split at h
    · fin
    split at h
    · fin
    split at h
    · rename_i h1 h2 h3; simp only [h1, h2, h3, if_false, if_true]; exact close_next_ext E p r h
    split at h
    · rename_i h1 h2 h3 h4; simp only [h1, h2, h3, h4, if_false, if_true]; exact close_next_ext E p r h
    split at h
    · fin
    · fin
  case WAIT_OBJ =>
    repeat' split at h
    all_goals (simp only [eb]; fin)
  case WAIT_COMMA_OR_PROPERTY =>
    split at h
    · fin
    · rename_i h1; simp only [h1, if_false]; exact waitProperty_ext E p c r h
  case WAIT_PROPERTY => exact waitProperty_ext E p c r h
  case ESCAPE =>
    simp only [epv]
    repeat' split at h
    all_goals fin
  case IDENTIFIER =>
    simp only [eb]
    repeat' split at h
    all_goals first
      | (repeat' split
         all_goals first
           | exact scalar_again_ext E p _ r h
           | contradiction
           | (exfalso; simp_all; done))
      | fin
  case UNICODECHAR => exact unicodeChar_ext E p c r h


theorem afterComment_ext (E : List Ctx) (p : PState) (c : UInt8) (r : Flag × PState) (h : afterComment p c = some r) :
    afterComment (ext E p) c = some (extR E r) := by
  obtain ⟨st, pv, cx, lists, props, buffer, ic, uc, ub, wc⟩ := p
  cases cx with
  | nil => simp [afterComment] at h
  | cons k t =>
    simp only [afterComment, ext, List.cons_append] at h ⊢
    split at h
    · rename_i hk
      simp only [hk, if_true, next] at h ⊢
      cases h; rfl
    · rename_i hk
      simp only [hk, if_false]
      exact dispatch_ext E ⟨st, pv, k :: t, lists, props, buffer, false, uc, ub, wc⟩ k c r h

theorem body_ext (E : List Ctx) (p : PState) (c : UInt8) (r : Flag × PState) (h : body p c = some r) :
    body (ext E p) c = some (extR E r) := by
  obtain ⟨st, pv, cx, lists, props, buffer, ic, uc, ub, wc⟩ := p
  cases cx with
  | nil => simp [body] at h
  | cons k t =>
    show body ⟨st, pv, k :: (t ++ E), lists, props, buffer, ic, uc, ub, wc⟩ c = some (extR E r)
    simp only [body] at h ⊢
    cases ic with
    | false =>
      simp only [Bool.not_false, if_true] at h ⊢
      split at h
      · rename_i h1
        split
        · simp only [next] at h ⊢
          cases h; rfl
        · contradiction
      · rename_i h1
        split
        · contradiction
        · exact dispatch_ext E ⟨st, pv, k :: t, lists, props, buffer, false, uc, ub, wc⟩ k c r h
    | true =>
      simp only [Bool.not_true, Bool.false_eq_true, if_false] at h ⊢
      cases k <;> simp only at h ⊢
      case COMMENT1 =>
        split at h
        · rename_i h1; simp only [h1, ↓reduceIte]
          exact afterComment_ext E ⟨st, pv, .LINECOMMENT :: t, lists, props, buffer, true, uc, ub, wc⟩ c r h
        · rename_i h1; simp only [h1, ↓reduceIte]
          split at h
          · rename_i h2; simp only [h2, ↓reduceIte]
            exact afterComment_ext E ⟨st, pv, .COMMENT :: t, lists, props, buffer, true, uc, ub, wc⟩ c r h
          · rename_i h2; simp only [h2, ↓reduceIte]
            exact afterComment_ext E ⟨.ERR, pv, t, lists, props, buffer, true, uc, ub, wc⟩ c r h
      case LINECOMMENT =>
        split at h
        · rename_i h1; simp only [h1, ↓reduceIte]
          exact afterComment_ext E ⟨st, pv, t, lists, props, buffer, false, uc, ub, wc⟩ c r h
        · rename_i h1; simp only [h1, ↓reduceIte]
          exact afterComment_ext E ⟨st, pv, .LINECOMMENT :: t, lists, props, buffer, true, uc, ub, wc⟩ c r h
      case COMMENT =>
        split at h
        · rename_i h1; simp only [h1, ↓reduceIte]
          exact afterComment_ext E ⟨st, pv, .ENDCOMMENT :: .COMMENT :: t, lists, props, buffer, true, uc, ub, wc⟩ c r h
        · rename_i h1; simp only [h1, ↓reduceIte]
          exact afterComment_ext E ⟨st, pv, .COMMENT :: t, lists, props, buffer, true, uc, ub, wc⟩ c r h
      case ENDCOMMENT =>
        split at h
        · rename_i h1; simp only [h1, ↓reduceIte]
          cases t with
          | nil => simp at h
          | cons k2 t2 =>
            simp only [next, List.cons_append] at h ⊢
            cases h; rfl
        · rename_i h1; simp only [h1, ↓reduceIte]
          exact afterComment_ext E ⟨st, pv, t, lists, props, buffer, true, uc, ub, wc⟩ c r h
      case ROOT | ARRAY | OBJECT =>
        split at h
        · rename_i h1
          split
          · simp only [next] at h ⊢; cases h; rfl
          · contradiction
        · rename_i h1
          split
          · contradiction
          · simp only [next] at h ⊢; cases h; rfl

theorem stepByte_ext (E : List Ctx) (p : PState) (c : UInt8) (b : Bool) (q : PState) (h : stepByte p c = some (b, q)) :
    stepByte (ext E p) c = some (b, ext E q) := by
  unfold stepByte at h ⊢
  cases hb : body p c with
  | none => simp [hb] at h
  | some r =>
    obtain ⟨f, p1⟩ := r
    rw [body_ext E p c _ hb]
    simp only [hb, extR] at h ⊢
    cases f with
    | next => simp only at h ⊢; cases h; rfl
    | ret => simp only at h ⊢; cases h; rfl
    | again =>
      simp only at h ⊢
      cases hb2 : body p1 c with
      | none => simp [hb2] at h
      | some r2 =>
        obtain ⟨f2, p2⟩ := r2
        rw [body_ext E p1 c _ hb2]
        simp only [hb2, extR] at h ⊢
        cases f2 <;> simp only at h ⊢ <;> first | (cases h; rfl) | (simp at h)

theorem loop_ext (E : List Ctx) (cs : Bytes) : ∀ (p : PState) (b : Bool) (q : PState), loop p cs = some (b, q) →
    loop (ext E p) cs = some (b, ext E q) := by
  induction cs with
  | nil => intro p b q h; simp only [loop] at h ⊢; cases h; rfl
  | cons c cs ih =>
    intro p b q h
    simp only [loop] at h ⊢
    cases hs : stepByte p c with
    | none => simp [hs] at h
    | some r =>
      obtain ⟨f, p1⟩ := r
      rw [stepByte_ext E p c f p1 hs]
      simp only [hs] at h
      cases f with
      | true => simp only at h ⊢; cases h; rfl
      | false => simp only at h ⊢; exact ih p1 b q h

end AslProofs.XdlFrame
