import AslProofs.XdlNum
import AslProofs.IntLit
import AslProofs.XdlRfc
/-!
# The int path of a decoded real: the int returned is the decimal value of the lexeme
-/
namespace AslProofs.Num
open AslModel NumVal AslModel.Xdl AslProofs.XdlEnc Rfc8259

/-- `[-]digits`: the value read by `Strtod.parseDec` (`lexVal`, over ℚ) is the integer the decoder's int path computes -/
theorem lexVal_intlex (minus ip : Bytes) (hm : minus = [] ∨ minus = [45]) (hip : IntPart ip) :
    lexVal (minus ++ ip) = ((decVal (minus ++ ip) : Int) : Rat) := by
  rw [decVal_intlex minus ip hm hip]
  unfold lexVal
  rw [parseDec_int minus ip hm hip]
  rcases hm with rfl | rfl <;> simp [pow10]

/-- an RFC 8259 number lexeme made of `-` and digits only has no fraction and no exponent -/
theorem number_intlex (lex : Bytes) (h : Number lex) (hi : isIntLex lex = true) :
    ∃ minus ip, (minus = [] ∨ minus = [45]) ∧ IntPart ip ∧ lex = minus ++ ip := by
  cases h with
  | mk minus ip fr ex hm hip hf hx =>
    have hfr : fr = [] := by
      cases hf with
      | none => rfl
      | some d ds _ _ =>
        have := AslProofs.XdlRfc.isIntLex_false (minus ++ ip ++ (46 :: d :: ds) ++ ex) 46 (Or.inl rfl) (by simp)
        rw [this] at hi; cases hi
    have hex : ex = [] := by
      cases hx with
      | none => rfl
      | some e sgn d ds he _ _ _ =>
        have := AslProofs.XdlRfc.isIntLex_false (minus ++ ip ++ fr ++ (e :: sgn ++ d :: ds)) e (Or.inr (by rcases he with h | h <;> simp [h])) (by simp)
        rw [this] at hi; cases hi
    subst hfr; subst hex
    exact ⟨minus, ip, hm, hip, by simp⟩

/-- what the decoder returns for a number lexeme, by VALUE: either the lexeme goes through `atof`, or the int returned
    is exactly the decimal value of the lexeme -/
theorem decodedAs_value (lex : Bytes) (r : JV) (hn : Number lex) (h : DecodedAs lex r) :
    r = .num lex ∨ ∃ i : Int, r = .int i ∧ (i : Rat) = lexVal lex := by
  rcases h with h | ⟨h, hi, _⟩
  · exact Or.inl h
  · obtain ⟨minus, ip, hm, hip, rfl⟩ := number_intlex lex hn hi
    exact Or.inr ⟨_, h, (lexVal_intlex minus ip hm hip).symm⟩

end AslProofs.Num
