import AslProofs.XdlEnc
import AslProofs.NumValDefs
set_option linter.unusedSimpArgs false
set_option linter.unusedVariables false
namespace AslProofs.XdlEnc
open AslModel.Xdl Rfc8259 NumVal

/-- H1v: `snprintf("%.Pg")` of a finite double prints an RFC 8259 number lexeme whose decimal VALUE is the
    double's value correctly rounded to `P` significant digits (P = 0 counts as 1, as in C) -/
def H1v (g : Nat → UInt64 → Bytes) : Prop :=
  ∀ (P : Nat) (b : UInt64), dFinite b = true →
    Number (g P b) ∧ RoundedTo (if P = 0 then 1 else P) (dval b) (lexVal (g P b))

theorem H1_of_H1v {g : Nat → UInt64 → Bytes} (h : H1v g) : H1 g := fun P b hb => (h P b hb).1

/-- H2 for doubles (glibc `strtod`∘`printf`): 17 significant digits identify a finite non-zero double -/
def H2d (g : Nat → UInt64 → Bytes) (atof : Bytes → UInt64) : Prop :=
  ∀ b : UInt64, dFinite b = true → b.toNat % 2 ^ 63 ≠ 0 → atof (g 17 b) = b

/-- H2 for floats: 9 significant digits identify a finite non-zero float (`b` ranges over the doubles that are
    floats, `narrow` is `(float)` on doubles, as bit patterns of the widened result) -/
def H2f (g : Nat → UInt64 → Bytes) (atof : Bytes → UInt64) (narrow : UInt64 → UInt64) : Prop :=
  ∀ b : UInt64, dFinite b = true → b.toNat % 2 ^ 63 ≠ 0 → narrow b = b → narrow (atof (g 9 b)) = b

/-- what the decoder returns for the lexeme `lex`: `atof lex` as a double, or — for an integer lexeme of at most
    9 characters — the int with that decimal value -/
def DecodedAs (lex : Bytes) (r : JV) : Prop :=
  r = .num lex ∨ (r = .int (decVal lex) ∧ isIntLex lex = true ∧ lex.length ≤ 9)

theorem norm_num_decodedAs (lex : Bytes) : DecodedAs lex (norm (.num lex)) := by
  simp only [norm, DecodedAs]
  split
  · rename_i h; exact Or.inr ⟨rfl, h.1, h.2⟩
  · exact Or.inl rfl

/-- a finite double in a default-precision JSON mode is written as `g 17 b` and read back from that lexeme -/
theorem real_roundtrip (g : Nat → UInt64 → Bytes) (m : Mode) (hj : m.json = true) (hg : H1 g) (P : Nat) (b : UInt64)
    (hb : dFinite b = true) (v : EV) (hv : (v = .num b ∧ P = precD m) ∨ (v = .flt b ∧ P = precF m)) :
    ∃ r, decode (encode g m v) = some (some r) ∧ DecodedAs (g P b) r := by
  have hnum := hg P b hb
  have hfix : fixComma (g P b) = g P b := fixComma_id _ (number_no_comma hnum)
  have hden : denote g m v = .num (g P b) := by
    rcases hv with ⟨rfl, rfl⟩ | ⟨rfl, rfl⟩ <;> simp [denote, denoteReal, hb, hfix]
  have hwf : WF v := by rcases hv with ⟨rfl, _⟩ | ⟨rfl, _⟩ <;> simp [WF]
  have := decode_encode g m hj hg v hwf (by rw [hden]; simp [depth])
  rw [hden] at this
  exact ⟨_, this, norm_num_decodedAs _⟩

end AslProofs.XdlEnc
