import AslProofs.StrtodParse
import AslProofs.NumVal
set_option linter.unusedSimpArgs false
set_option linter.unusedVariables false
namespace AslProofs.Num
open AslModel AslModel.Xdl AslProofs.XdlEnc Rfc8259

theorem isDig_false_of {c : UInt8} (h : ¬ isDig c) : Strtod.isDigit c = false := by
  simp only [Strtod.isDigit, Bool.and_eq_false_iff, decide_eq_false_iff_not]
  by_cases h1 : 48 ≤ c
  · right; intro h2; exact h ⟨h1, h2⟩
  · left; exact h1

/-- digits followed by nothing or by a non-digit -/
theorem takeWhile_digits_app (ds rest : Bytes) (h : Digits ds) (hr : ∀ c t, rest = c :: t → ¬ isDig c) :
    (ds ++ rest).takeWhile Strtod.isDigit = ds ∧ (ds ++ rest).dropWhile Strtod.isDigit = rest := by
  induction ds with
  | nil =>
    cases rest with
    | nil => simp
    | cons c t => simp [List.takeWhile_cons, List.dropWhile_cons, isDig_false_of (hr c t rfl)]
  | cons c t ih =>
    have hc := sdigit_of_isDig (h c (by simp))
    have := ih (fun x hx => h x (by simp [hx]))
    simp [List.takeWhile_cons, List.dropWhile_cons, hc, this.1, this.2]

theorem splitSign_digit (c : UInt8) (t : Bytes) (h : isDig c) : Strtod.splitSign (c :: t) = (false, c :: t) := by
  have h45 : c ≠ 45 := by intro e; subst e; simp [isDig] at h
  have h43 : c ≠ 43 := by intro e; subst e; simp [isDig] at h
  unfold Strtod.splitSign; split
  · rename_i heq; simp at heq; exact absurd heq.1 h45
  · rename_i heq; simp at heq; exact absurd heq.1 h43
  · rfl

/-- the fraction digits of `frac` and the sign / digits of `exp` as the grammar gives them -/
def fracDigits (fr : Bytes) : Bytes := fr.drop 1
def expNegOf (ex : Bytes) : Bool := match ex with | _ :: 45 :: _ => true | _ => false
def expDigits (ex : Bytes) : Bytes := match ex with | _ :: 45 :: t => t | _ :: 43 :: t => t | _ :: t => t | [] => []

theorem splitExp_exp (ex : Bytes) (h : Exp ex) :
    Strtod.splitExp ex = (expNegOf ex, expDigits ex) ∧ Digits (expDigits ex) ∧ (∀ c t, ex = c :: t → ¬ isDig c ∧ c ≠ 46) := by
  cases h with
  | none => exact ⟨rfl, by intro c h; simp [expDigits] at h, by intro c t h; simp at h⟩
  | some e sgn d ds he hs hd hds =>
    have hdd : Digits (d :: ds) := by intro c hc; rcases List.mem_cons.mp hc with rfl | h; exact hd; exact hds c h
    have htw := (takeWhile_digits (d :: ds) hdd).1
    have h45 : d ≠ 45 := by intro e; subst e; simp [isDig] at hd
    have h43 : d ≠ 43 := by intro e; subst e; simp [isDig] at hd
    have hne : ∀ c t, e :: sgn ++ d :: ds = c :: t → ¬ isDig c ∧ c ≠ 46 := by
      intro c t hc
      have : e = c := by simpa using (List.cons.inj hc).1
      subst this
      rcases he with rfl | rfl <;> simp [isDig]
    refine ⟨?_, ?_, hne⟩
    · rcases hs with rfl | rfl | rfl
      · have e1 : expNegOf (e :: [] ++ d :: ds) = false := by simp [expNegOf, h45]
        have e2 : expDigits (e :: [] ++ d :: ds) = d :: ds := by simp [expDigits, h45, h43]
        rw [e1, e2]
        simp only [List.cons_append, List.nil_append, Strtod.splitExp, he, if_true]
        split
        · rename_i heq; simp at heq; exact absurd heq.1 h45
        · rename_i heq; simp at heq; exact absurd heq.1 h43
        · rw [htw]
      · simp [expNegOf, expDigits, Strtod.splitExp, he, htw]
      · simp [expNegOf, expDigits, Strtod.splitExp, he, htw]
    · rcases hs with rfl | rfl | rfl
      · have e2 : expDigits (e :: [] ++ d :: ds) = d :: ds := by simp [expDigits, h45, h43]
        rw [e2]; exact hdd
      · simpa [expDigits] using hdd
      · simpa [expDigits] using hdd

theorem splitFrac_frac (fr ex : Bytes) (hf : Frac fr) (hx : ∀ c t, ex = c :: t → ¬ isDig c ∧ c ≠ 46) :
    Strtod.splitFrac (fr ++ ex) = (fracDigits fr, ex) ∧ Digits (fracDigits fr) := by
  cases hf with
  | none =>
    refine ⟨?_, by intro c h; simp [fracDigits] at h⟩
    cases ex with
    | nil => rfl
    | cons c t =>
      have := (hx c t rfl).2
      simp only [List.nil_append, Strtod.splitFrac]
      split
      · rename_i heq; simp at heq; exact absurd heq.1 this
      · rfl
  | some d ds hd hds =>
    have hdd : Digits (d :: ds) := by intro c hc; rcases List.mem_cons.mp hc with rfl | h; exact hd; exact hds c h
    have := takeWhile_digits_app (d :: ds) ex hdd (fun c t h => (hx c t h).1)
    refine ⟨?_, by simpa [fracDigits] using hdd⟩
    simp only [List.cons_append, Strtod.splitFrac, fracDigits, List.drop_succ_cons, List.drop_zero]
    simp only [List.cons_append] at this
    rw [this.1, this.2]

/-- `parseDec` on every RFC 8259 number lexeme: sign, the digits of int and frac as one mantissa, the number of
    fraction digits, the exponent's sign and digits -/
theorem parseDec_number (minus ip fr ex : Bytes) (hm : minus = [] ∨ minus = [45]) (hip : IntPart ip) (hf : Frac fr)
    (hx : Exp ex) :
    Strtod.parseDec (minus ++ ip ++ fr ++ ex) =
      { neg := decide (minus = [45]), mant := Strtod.digitsVal (ip ++ fracDigits fr), fracLen := (fracDigits fr).length,
        expNeg := expNegOf ex, exp := Strtod.digitsVal (expDigits ex) } := by
  obtain ⟨hne, hd⟩ := AslProofs.XdlRfc.intpart_digits hip
  obtain ⟨hse, hde, hxe⟩ := splitExp_exp ex hx
  obtain ⟨hsf, hdf⟩ := splitFrac_frac fr ex hf hxe
  have hrest : ∀ c t, fr ++ ex = c :: t → ¬ isDig c := by
    intro c t h
    cases hf with
    | none => exact (hxe c t (by simpa using h)).1
    | some d ds _ _ =>
      simp at h; rw [← h.1]; simp [isDig]
  obtain ⟨ht, hdr⟩ := takeWhile_digits_app ip (fr ++ ex) hd hrest
  have hs : Strtod.splitSign (minus ++ ip ++ fr ++ ex) = (decide (minus = [45]), ip ++ (fr ++ ex)) := by
    rcases hm with rfl | rfl
    · cases ip with
      | nil => exact absurd rfl hne
      | cons c t =>
        have := splitSign_digit c (t ++ (fr ++ ex)) (hd c (by simp))
        simpa using this
    · simp [Strtod.splitSign]
  simp only [Strtod.parseDec, hs, ht, hdr, hsf, hse]

open NumVal in
/-- a lexeme whose decimal is `mant * 10^k` with `k ≥ 0` and that product below `2^53`: `atof` returns exactly that integer -/
theorem atof_exact_scaled (lex : Bytes) (k : Nat)
    (hk : (if (Strtod.parseDec lex).expNeg then -((Strtod.parseDec lex).exp : Int) else ((Strtod.parseDec lex).exp : Int))
            - ((Strtod.parseDec lex).fracLen : Int) = (k : Int))
    (h0 : (Strtod.parseDec lex).mant ≠ 0) (hN : (Strtod.parseDec lex).mant * 10 ^ k < 2 ^ 53) :
    dval (Strtod.atofBits lex) =
      (if (Strtod.parseDec lex).neg then -(((Strtod.parseDec lex).mant * 10 ^ k : Nat) : Rat)
       else (((Strtod.parseDec lex).mant * 10 ^ k : Nat) : Rat)) := by
  generalize hd : Strtod.parseDec lex = d at *
  have hm1 : 1 ≤ d.mant := Nat.one_le_iff_ne_zero.mpr h0
  have hp : 0 < 10 ^ k := Nat.pow_pos (by decide)
  have hmant : d.mant < 2 ^ 53 := Nat.lt_of_le_of_lt (Nat.le_mul_of_pos_right _ hp) hN
  have hpow : 10 ^ k < 2 ^ 53 := Nat.lt_of_le_of_lt (Nat.le_mul_of_pos_left _ hm1) hN
  have hk16 : k < 16 := by
    apply Classical.byContradiction; intro hc
    have : 10 ^ 16 ≤ 10 ^ k := Nat.pow_le_pow_right (by decide) (by omega)
    have : (2 : Nat) ^ 53 < 10 ^ 16 := by decide
    omega
  have h5316 : (2 : Nat) ^ 53 < 10 ^ 16 := by decide
  have hlen : Strtod.decLen d.mant ≤ 16 := decLen_le _ (Nat.lt_trans hmant h5316)
  unfold Strtod.atofBits
  simp only [hd, h0, if_false, hk]
  have c1 : ¬ ((Strtod.decLen d.mant : Int) + (k : Int) > 310) := by omega
  have c2 : ¬ ((Strtod.decLen d.mant : Int) + (k : Int) < -326) := by omega
  have c3 : (k : Int) ≥ 0 := by omega
  simp only [c1, c2, c3, if_false, if_true, Int.toNat_natCast]
  exact dval_int_bits (d.mant * 10 ^ k) (Nat.mul_pos hm1 hp) hN d.neg

open NumVal in
/-- number literals with a fraction and/or exponent whose net decimal exponent `k` is non-negative and whose value
    `mant * 10^k` is below `2^53`: the double `atof` returns is exactly the decimal value of the literal -/
theorem scaled_literal_exact (minus ip fr ex : Bytes) (hm : minus = [] ∨ minus = [45]) (hip : IntPart ip) (hf : Frac fr)
    (hx : Exp ex) (k : Nat)
    (hk : (if expNegOf ex then -((Strtod.digitsVal (expDigits ex) : Nat) : Int) else ((Strtod.digitsVal (expDigits ex) : Nat) : Int))
            - ((fracDigits fr).length : Int) = (k : Int))
    (h0 : Strtod.digitsVal (ip ++ fracDigits fr) ≠ 0) (hN : Strtod.digitsVal (ip ++ fracDigits fr) * 10 ^ k < 2 ^ 53) :
    dval (Strtod.atofBits (minus ++ ip ++ fr ++ ex)) = lexVal (minus ++ ip ++ fr ++ ex) ∧
    lexVal (minus ++ ip ++ fr ++ ex) =
      (if minus = [45] then -((Strtod.digitsVal (ip ++ fracDigits fr) * 10 ^ k : Nat) : Rat)
       else ((Strtod.digitsVal (ip ++ fracDigits fr) * 10 ^ k : Nat) : Rat)) := by
  have hp := parseDec_number minus ip fr ex hm hip hf hx
  have hl : lexVal (minus ++ ip ++ fr ++ ex) =
      (if minus = [45] then -((Strtod.digitsVal (ip ++ fracDigits fr) * 10 ^ k : Nat) : Rat)
       else ((Strtod.digitsVal (ip ++ fracDigits fr) * 10 ^ k : Nat) : Rat)) := by
    unfold lexVal
    rw [hp]
    simp only [hk, pow10, decide_eq_true_eq]
    have : (k : Int) ≥ 0 := by omega
    simp only [this, if_true, Int.toNat_natCast]
    split <;> push_cast <;> ring
  refine ⟨?_, hl⟩
  rw [hl]
  have := atof_exact_scaled (minus ++ ip ++ fr ++ ex) k (by rw [hp]; exact hk) (by rw [hp]; exact h0) (by rw [hp]; exact hN)
  rw [hp] at this
  simpa using this

/-- a lexeme with a fraction or an exponent is not an integer lexeme: the decoder hands it to `atof` whatever its length -/
theorem isIntLex_false (pre fr ex : Bytes) (hf : Frac fr) (hx : Exp ex) (h : fr ≠ [] ∨ ex ≠ []) :
    isIntLex (pre ++ fr ++ ex) = false := by
  have key : ∃ c, c ∈ pre ++ fr ++ ex ∧ (c = 46 ∨ c = 101 ∨ c = 69) := by
    cases hf with
    | some d ds _ _ => exact ⟨46, by simp, Or.inl rfl⟩
    | none =>
      cases hx with
      | none => simp at h
      | some e sgn d ds he _ _ _ => exact ⟨e, by simp, Or.inr he⟩
  obtain ⟨c, hc, hv⟩ := key
  unfold isIntLex
  rw [List.all_eq_false]
  refine ⟨c, hc, ?_⟩
  rcases hv with rfl | rfl | rfl <;> decide

end AslProofs.Num
