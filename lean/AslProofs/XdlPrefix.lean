import AslProofs.XdlFrame
import AslProofs.XdlRfcMain
import AslProofs.XdlChunks
set_option linter.unusedSimpArgs false
set_option linter.unusedVariables false
namespace AslProofs.XdlPrefix
open AslModel.Xdl AslProofs.Xdl AslProofs.XdlFrame AslProofs.XdlRfc Rfc8259

/-- with a container or a comment above the root context, `value()` is undefined -/
theorem value_none_of_deep (q : PState) (hi : Inv q) (hl : q.ctx.length ≥ 2) : value q = none := by
  by_cases he : q.state = .ERR
  · simp [value, he]
  obtain ⟨base, hc, hb, hg⟩ := hi
  have hs := (hg he).shape
  simp only at hs
  unfold value
  simp only [he, if_false]
  obtain ⟨rev, hlast⟩ := shape_last _ _ hs
  rw [hlast]
  rcases hc with ⟨_, hc⟩ | ⟨_, hc | hc | hc | hc⟩
  · -- no comment: the top is a container
    rw [hc] at hl ⊢
    match base, hs, hl with
    | .ARRAY :: t, _, _ => simp
    | .OBJECT :: t, _, _ => simp
    | [.ROOT], _, hl => simp at hl
  all_goals (rw [hc]; simp)

theorem put_ctx (p q : PState) (x : JV) (h : put p x = some q) : q.ctx = p.ctx := by
  unfold put at h
  repeat' split at h
  all_goals first | (simp at h; done) | (simp at h; subst h; rfl)

theorem valueEnd_ctx (p q : PState) (h : valueEnd p = some q) : q.ctx = p.ctx := by
  unfold valueEnd at h
  split at h
  · simp at h
  · simp at h; subst h; rfl

theorem scalar_ctx (p q : PState) (x : JV) (h : scalar p x = some q) : q.ctx = p.ctx := by
  unfold scalar at h
  obtain ⟨p1, h1, h2⟩ := (bind_some_iff _ _ _).mp h
  rw [valueEnd_ctx p1 q h2, put_ctx p p1 x h1]

theorem scalar_bind_ctx (p : PState) (x : JV) (fl : Flag) (f : Flag) (q : PState)
    (h : (scalar p x).bind (fun p1 => some (fl, p1)) = some (f, q)) : q.ctx = p.ctx := by
  obtain ⟨p1, h1, h2⟩ := (bind_some_iff _ _ _).mp h
  simp at h2
  rw [← h2.2]
  exact scalar_ctx p p1 x h1

theorem intEnd_ctx (p : PState) (f : Flag) (q : PState) (h : intEnd p = some (f, q)) : q.ctx = p.ctx := by
  unfold intEnd at h
  dsimp only at h
  split at h
  · obtain ⟨bad, _, h2⟩ := (bind_some_iff _ _ _).mp h
    split at h2
    · simp [errRet] at h2; rw [← h2.2]
    · exact scalar_bind_ctx p _ _ f q h2
  · simp [errRet] at h; rw [← h.2]

theorem numEnd_ctx (p : PState) (f : Flag) (q : PState) (h : numEnd p = some (f, q)) : q.ctx = p.ctx := by
  unfold numEnd at h
  exact scalar_bind_ctx p _ _ f q h

/-- a blank never opens or closes a container -/
theorem dispatch_space_ctx (p : PState) (k : Ctx) (f : Flag) (q : PState) (h : dispatch p k 32 = some (f, q)) :
    q.ctx = p.ctx := by
  unfold dispatch at h
  cases hst : p.state <;> simp only [hst] at h
  case INT =>
    simp only [isDigit] at h
    repeat' split at h
    all_goals first
      | exact intEnd_ctx p f q h
      | (simp [next, push] at h; rw [← h.2])
  case NUMBER | NUMBER_EV =>
    simp only [isDigit, isSpace] at h
    repeat' split at h
    all_goals first
      | exact numEnd_ctx p f q h
      | (simp [next, push, errRet] at h; rw [← h.2])
  case STRING =>
    repeat' split at h
    all_goals first
      | exact scalar_bind_ctx p _ _ f q h
      | (simp [next, push, errRet] at h; rw [← h.2])
  case IDENTIFIER =>
    repeat' split at h
    all_goals first
      | exact scalar_bind_ctx p _ _ f q h
      | (simp [next, push, errRet] at h; rw [← h.2])
  case UNICODECHAR =>
    unfold unicodeChar at h
    simp only [next, pushStr] at h
    repeat' split at h
    all_goals (simp at h; rw [← h.2])
  case WAIT_VALUE =>
    simp [waitValue, isDigit, isAlnum, isSpace, next] at h
    rw [← h.2]
  case WAIT_COMMA_OR_VALUE =>
    simp [waitValue, isDigit, isAlnum, isSpace, next] at h
    rw [← h.2]
  case WAIT_PROPERTY =>
    simp [waitProperty, isAlnum, isSpace, next] at h
    rw [← h.2]
  case WAIT_COMMA_OR_PROPERTY =>
    simp [waitProperty, isAlnum, isSpace, next] at h
    rw [← h.2]
  all_goals
    repeat' split at h
    all_goals first
      | (exfalso; rename_i hh; revert hh; decide)
      | (exfalso; rename_i hh _; revert hh; decide)
      | (exfalso; rename_i hh; exact absurd hh.1 (by decide))
      | (simp [next, push, errRet, errBrk, isDigit, isSpace, escapeChar, beginObject] at h; try rw [← h.2])


theorem afterComment_space (p : PState) (f : Flag) (q : PState) (h : afterComment p 32 = some (f, q)) :
    q.ctx = p.ctx := by
  unfold afterComment at h
  split at h
  · simp at h
  · rename_i k t hc
    split at h
    · simp [next] at h; rw [← h.2]
    · have := dispatch_space_ctx _ k f q h
      simpa using this

/-- one loop iteration on a blank: the context stack keeps its containers -/
theorem body_space (p : PState) (hi : Inv p) (f : Flag) (q : PState) (h : body p 32 = some (f, q)) :
    q.state = .ERR ∨ q.ctx = p.ctx ∨ (f = .next ∧ q.inComment = true ∧ ∃ base, base ≠ [] ∧ q.ctx = .COMMENT :: base) := by
  obtain ⟨base, hcx, hge⟩ := hi
  have hbne : base ≠ [] := by
    intro h0; have := hge.1; simp [h0, BaseOK] at this
  obtain ⟨st, pv, cx, lists, props, buffer, ic, uc, ub, wc⟩ := p
  rcases hcx with ⟨hi, hc⟩ | ⟨hi, hc⟩
  · simp only at hi hc
    subst hi hc
    cases cx with
    | nil => simp [body] at h
    | cons k t =>
      simp only [body, Bool.not_false, if_true] at h
      have : ¬ ((32 : UInt8) = 47 ∧ st ≠ .STRING ∧ st ≠ .QPROPERTY ∧ st ≠ .ESCAPE) := by simp
      simp only [this, if_false] at h
      exact Or.inr (Or.inl (dispatch_space_ctx _ k f q h))
  · simp only at hi hc
    subst hi
    rcases hc with rfl | rfl | rfl | rfl
    · simp only [body, Bool.not_true, Bool.false_eq_true, if_false] at h
      have h47 : ¬ (32 : UInt8) = 47 := by decide
      have h42 : ¬ (32 : UInt8) = 42 := by decide
      simp only [h47, h42, if_false] at h
      -- state ERR, then dispatch in ERR
      left
      unfold afterComment at h
      split at h
      · simp at h
      · split at h
        · simp [next] at h; rw [← h.2]
        · simp [dispatch, next] at h; rw [← h.2]
    · simp only [body, Bool.not_true, Bool.false_eq_true, if_false] at h
      have h1 : ¬ ((32 : UInt8) = 10 ∨ (32 : UInt8) = 13) := by decide
      simp only [h1, if_false] at h
      exact Or.inr (Or.inl (afterComment_space _ f q h))
    · simp only [body, Bool.not_true, Bool.false_eq_true, if_false] at h
      have h42 : ¬ (32 : UInt8) = 42 := by decide
      simp only [h42, if_false] at h
      exact Or.inr (Or.inl (afterComment_space _ f q h))
    · simp only [body, Bool.not_true, Bool.false_eq_true, if_false] at h
      have h47 : ¬ (32 : UInt8) = 47 := by decide
      simp only [h47, if_false] at h
      simp [afterComment, isCommentCtx, next] at h
      right; right
      refine ⟨h.1.symm, ?_, base, hbne, ?_⟩
      · rw [← h.2]
      · rw [← h.2]


theorem value_none_err (q : PState) (h : q.state = .ERR) : value q = none := by simp [value, h]

/-- after a blank, a state with something above the root context still has no value -/
theorem step_space_none (q : PState) (hi : Inv q) (hl : q.ctx.length ≥ 2) (b : Bool) (q' : PState)
    (h : stepByte q 32 = some (b, q')) : value q' = none := by
  obtain ⟨b0, q0, hs0, hi', _⟩ := stepByte_ok q 32 hi
  rw [h] at hs0
  cases hs0
  have key : ∀ (p : PState) (f : Flag) (p1 : PState), Inv p → p.ctx.length ≥ 2 → body p 32 = some (f, p1) →
      p1.state = .ERR ∨ p1.ctx.length ≥ 2 := by
    intro p f p1 hp hpl hb
    rcases body_space p hp f p1 hb with h1 | h1 | ⟨_, _, base, hne, hc⟩
    · exact Or.inl h1
    · right; rw [h1]; exact hpl
    · right; rw [hc]; cases base with
      | nil => exact absurd rfl hne
      | cons a t => simp
  have fin : q'.state = .ERR ∨ q'.ctx.length ≥ 2 := by
    unfold stepByte at h
    have hb := body_ok q 32 hi
    cases hbq : body q 32 with
    | none => simp [hbq] at h
    | some r =>
      obtain ⟨f, q1⟩ := r
      rw [hbq] at hb
      obtain ⟨hi1, _, _⟩ := hb
      have k1 := key q f q1 hi hl hbq
      simp only [hbq] at h
      cases f with
      | next => simp at h; rw [← h.2]; exact k1
      | ret => simp at h; rw [← h.2]; exact k1
      | again =>
        simp only at h
        cases hbq2 : body q1 32 with
        | none => simp [hbq2] at h
        | some r2 =>
          obtain ⟨f2, q2⟩ := r2
          simp only [hbq2] at h
          have k2 : q2.state = .ERR ∨ q2.ctx.length ≥ 2 := by
            rcases k1 with he | hl1
            · exact Or.inl (body_err q1 32 he _ hbq2)
            · exact key q1 f2 q2 hi1 hl1 hbq2
          cases f2 with
          | next => simp at h; rw [← h.2]; exact k2
          | ret => simp at h; rw [← h.2]; exact k2
          | again => simp at h
  rcases fin with he | hl'
  · exact value_none_err q' he
  · exact value_none_of_deep q' hi' hl'

theorem flush_none (q : PState) (hi : Inv q) (hl : q.ctx.length ≥ 2) : ∃ q', parse q [32] = some q' ∧ value q' = none := by
  by_cases he : q.state = .ERR
  · exact ⟨q, by simp [parse, he], value_none_err q he⟩
  · obtain ⟨b, q', hs, _, _⟩ := stepByte_ok q 32 hi
    have hv := step_space_none q hi hl b q' hs
    have c32 : cstr [32] = [32] := by decide
    refine ⟨q', ?_, hv⟩
    simp only [parse, he, if_false, c32, loop, hs]
    cases b <;> rfl


/-! ## the inside of a container, without its closing byte, in any context -/

theorem head_delim' (b : Bytes) (hb : Ws b) (c : UInt8) (hc : isDelim c) (t : Bytes) :
    ∃ d r, isDelim d ∧ b ++ c :: t = d :: r := by
  cases b with
  | nil => exact ⟨c, t, hc, rfl⟩
  | cons x b =>
    refine ⟨x, b ++ c :: t, ?_, rfl⟩
    rcases hb x (by simp) with rfl | rfl | rfl | rfl <;> simp [isDelim]

theorem elems_body {vs : List JV} {w : Bytes} : (h : SerElems vs w) → ∀ (r : List JV) (K : List Ctx)
    (L : List Open) (P : List Bytes) (j : Junk) (c : UInt8) (rest : Bytes), isDelim c → L.length + 1 + depthL vs ≤ 1001 →
    ∃ j' s', sepA s' ∧
    loop (mk .WAIT_VALUE (.ARRAY :: K) (.arr r :: L) P [] j) (w ++ c :: rest) =
      loop (mk s' (.ARRAY :: K) (.arr ((normL vs).reverse ++ r) :: L) P [] j') (c :: rest)
  | .one v a x b ha hv hb, r, K, L, P, j, c, rest, hc, hdep => by
    obtain ⟨d, t, hd, ht⟩ := head_delim' b hb c hc rest
    have e0 : a ++ x ++ b ++ c :: rest = a ++ (x ++ d :: t) := by simp [ht]
    obtain ⟨j1, h1⟩ := value_ok hv .ARRAY K (.arr r :: L) P j d t hd
      (by simp [depthL] at hdep; simp; omega) (.arr (norm v :: r) :: L) P rfl
    obtain ⟨s', hs', h2⟩ := sepA_ws K (.arr (norm v :: r) :: L) P j1 b hb .WAIT_SEP (c :: rest) (Or.inl rfl)
    refine ⟨j1, s', hs', ?_⟩
    rw [e0, ws_skip .WAIT_VALUE (by simp) .ARRAY K _ P j a _ ha, h1, ← ht]
    have : endSt (.ARRAY :: K) = .WAIT_SEP := rfl
    rw [this, h2]
    simp [normL]
  | .cons v vs a x b w ha hv hb hrest, r, K, L, P, j, c, rest, hc, hdep => by
    obtain ⟨d, t, hd, ht⟩ := head_delim b hb 44 (by simp) (w ++ c :: rest)
    have e0 : a ++ x ++ b ++ 0x2C :: w ++ c :: rest = a ++ (x ++ d :: t) := by simp [ht]
    obtain ⟨j1, h1⟩ := value_ok hv .ARRAY K (.arr r :: L) P j d t hd
      (by simp [depthL] at hdep; simp; omega) (.arr (norm v :: r) :: L) P rfl
    obtain ⟨s', hs', h2⟩ := sepA_ws K (.arr (norm v :: r) :: L) P j1 b hb .WAIT_SEP (44 :: (w ++ c :: rest)) (Or.inl rfl)
    obtain ⟨j2, s2, hs2, h3⟩ := elems_body hrest (norm v :: r) K L P j1 c rest hc (by simp [depthL] at hdep; omega)
    refine ⟨j2, s2, hs2, ?_⟩
    rw [e0, ws_skip .WAIT_VALUE (by simp) .ARRAY K _ P j a _ ha, h1, ← ht]
    have : endSt (.ARRAY :: K) = .WAIT_SEP := rfl
    rw [this, h2, sepA_comma K _ P j1 s' hs', h3]
    simp [normL]

theorem members_body {ms : List (Bytes × JV)} {w : Bytes} : (h : SerMembers ms w) → ∀ (acc : List (Bytes × JV))
    (K : List Ctx) (L : List Open) (P : List Bytes) (j : Junk) (c : UInt8) (rest : Bytes), isDelim c →
    L.length + 1 + depthM ms ≤ 1001 → ∃ j' s', sepO s' ∧
    loop (mk .WAIT_PROPERTY (.OBJECT :: K) (.obj acc :: L) P [] j) (w ++ c :: rest) =
      loop (mk s' (.OBJECT :: K) (.obj (normM ms acc) :: L) P [] j') (c :: rest)
  | .one key v a kw b cc x dd ha hk hb hcc hv hdd, acc, K, L, P, j, c, rest, hc, hdep => by
    obtain ⟨d, t, hd, ht⟩ := head_delim' dd hdd c hc rest
    have e0 : a ++ 0x22 :: kw ++ 0x22 :: b ++ 0x3A :: cc ++ x ++ dd ++ c :: rest =
        a ++ (34 :: kw ++ 34 :: b ++ 58 :: (cc ++ (x ++ d :: t))) := by simp [ht]
    obtain ⟨j0, h0⟩ := name_ok key kw hk .OBJECT K (.obj acc :: L) P j b (cc ++ (x ++ d :: t)) hb
    obtain ⟨j1, h1⟩ := value_ok hv .OBJECT K (.obj acc :: L) (key :: P) j0 d t hd
      (by simp [depthM] at hdep; simp; omega) (.obj (objSet acc key (norm v)) :: L) P rfl
    obtain ⟨s', hs', h2⟩ := sepO_ws K (.obj (objSet acc key (norm v)) :: L) P j1 dd hdd .WAIT_SEP (c :: rest) (Or.inl rfl)
    refine ⟨j1, s', hs', ?_⟩
    rw [e0, ws_skip .WAIT_PROPERTY (by simp) .OBJECT K _ P j a _ ha, h0,
      ws_skip .WAIT_VALUE (by simp) .OBJECT K _ (key :: P) j0 cc _ hcc, h1, ← ht]
    have : endSt (.OBJECT :: K) = .WAIT_SEP := rfl
    rw [this, h2]
    simp [normM]
  | .cons key v ms a kw b cc x dd w ha hk hb hcc hv hdd hrest, acc, K, L, P, j, c, rest, hc, hdep => by
    obtain ⟨d, t, hd, ht⟩ := head_delim dd hdd 44 (by simp) (w ++ c :: rest)
    have e0 : a ++ 0x22 :: kw ++ 0x22 :: b ++ 0x3A :: cc ++ x ++ dd ++ 0x2C :: w ++ c :: rest =
        a ++ (34 :: kw ++ 34 :: b ++ 58 :: (cc ++ (x ++ d :: t))) := by simp [ht]
    obtain ⟨j0, h0⟩ := name_ok key kw hk .OBJECT K (.obj acc :: L) P j b (cc ++ (x ++ d :: t)) hb
    obtain ⟨j1, h1⟩ := value_ok hv .OBJECT K (.obj acc :: L) (key :: P) j0 d t hd
      (by simp [depthM] at hdep; simp; omega) (.obj (objSet acc key (norm v)) :: L) P rfl
    obtain ⟨s', hs', h2⟩ := sepO_ws K (.obj (objSet acc key (norm v)) :: L) P j1 dd hdd .WAIT_SEP
      (44 :: (w ++ c :: rest)) (Or.inl rfl)
    obtain ⟨j2, s2, hs2, h3⟩ := members_body hrest (objSet acc key (norm v)) K L P j1 c rest hc
      (by simp [depthM] at hdep; omega)
    refine ⟨j2, s2, hs2, ?_⟩
    rw [e0, ws_skip .WAIT_PROPERTY (by simp) .OBJECT K _ P j a _ ha, h0,
      ws_skip .WAIT_VALUE (by simp) .OBJECT K _ (key :: P) j0 cc _ hcc, h1, ← ht]
    have : endSt (.OBJECT :: K) = .WAIT_SEP := rfl
    rw [this, h2, sepO_comma K _ P j1 s' hs', h3]
    simp [normM]


/-! ## proper prefixes of a top-level container -/

theorem prefix_split (u s w : Bytes) (c : UInt8) (h : u ++ s = w ++ [c]) (hs : s ≠ []) : ∃ s', w = u ++ s' := by
  induction u generalizing w with
  | nil => exact ⟨w, rfl⟩
  | cons a u ih =>
    cases w with
    | nil =>
      simp at h
      obtain ⟨_, h2⟩ := h
      have : u = [] ∧ s = [] := by simpa using h2
      exact absurd this.2 hs
    | cons b w =>
      simp only [List.cons_append, List.cons.injEq] at h
      obtain ⟨rfl, h2⟩ := h
      obtain ⟨s', rfl⟩ := ih w h2
      exact ⟨s', rfl⟩

/-- while the short run (nothing below the container's own context) survives `w` and a blank, the real run
    keeps the container open over every prefix of `w` -/
theorem deep_prefix (ps qf : PState) (w u s' : Bytes) (hw : w = u ++ s')
    (hshort : loop ps (w ++ [32]) = some (false, qf)) :
    ∃ qs, loop (ext [.ROOT] ps) u = some (false, ext [.ROOT] qs) ∧ (ext [.ROOT] qs).ctx.length ≥ 2 := by
  subst hw
  have e : u ++ s' ++ [32] = u ++ (s' ++ [32]) := by simp
  rw [e, loop_append] at hshort
  cases hl : loop ps u with
  | none => simp [hl] at hshort
  | some r =>
    obtain ⟨b, qs⟩ := r
    rw [hl] at hshort
    cases b with
    | true => simp at hshort
    | false =>
      simp only at hshort
      refine ⟨qs, loop_ext [.ROOT] u ps false qs hl, ?_⟩
      have hne : qs.ctx ≠ [] := by
        intro h0
        have : ∃ c0 r0, s' ++ [32] = c0 :: r0 := by
          cases s' with
          | nil => exact ⟨32, [], rfl⟩
          | cons a t => exact ⟨a, t ++ [32], rfl⟩
        obtain ⟨c0, r0, hc⟩ := this
        rw [hc] at hshort
        simp [loop, stepByte, body, h0] at hshort
      cases hq : qs.ctx with
      | nil => exact absurd hq hne
      | cons a t => simp [ext, hq]

theorem decode_of_loop (p : Bytes) (h0 : (0 : UInt8) ∉ p) (q q' : PState) (hl : loop init p = some (false, q))
    (hq : parse q [32] = some q') : decode p = some (value q') := by
  have hp : parse init p = some q := by
    unfold parse
    have : init.state ≠ .ERR := by decide
    rw [if_neg this, cstr_of_nonul p h0, hl]
    rfl
  simp [decode, decodeFrom, hp, hq]

theorem init_ws (p : Bytes) (hp : Ws p) : decode p = some none := by
  have h0 : (0 : UInt8) ∉ p := ws_nonul hp
  have h1 := ws_skip .WAIT_VALUE (by simp) .ROOT [] [.arr []] [] junk0 p [] hp
  simp only [List.append_nil] at h1
  have c32 : cstr [32] = [32] := by decide
  have h2 := ws_skip .WAIT_VALUE (by simp) .ROOT [] [.arr []] [] junk0 [32] [] (by intro c hc; simp at hc; subst hc; exact Or.inl rfl)
  simp only [List.append_nil] at h2
  rw [← init_mk] at h1 h2
  have hl : loop init p = some (false, init) := by rw [h1]; rfl
  have hq : parse init [32] = some init := by
    unfold parse
    have : init.state ≠ .ERR := by decide
    rw [if_neg this, c32, h2]
    rfl
  rw [decode_of_loop p h0 init init hl hq]
  rfl

/-- the generic argument: `o` opens the container from the root, the short run survives the inside `w` -/
theorem container_prefix (a w p s : Bytes) (o cl : UInt8) (ps qf : PState) (ha : Ws a)
    (hopen : ∀ rest, loop init (a ++ o :: rest) = loop (ext [.ROOT] ps) rest)
    (hshort : loop ps (w ++ [32]) = some (false, qf))
    (h0 : (0 : UInt8) ∉ p) (heq : a ++ (o :: w ++ [cl]) = p ++ s) (hs : s ≠ []) : decode p = some none := by
  -- p is a prefix of a, or p = a ++ o :: u' with u' a prefix of w
  by_cases hpa : p.length ≤ a.length
  · have hp : Ws p := by
      have : p = a.take p.length := by
        have := congrArg (List.take p.length) heq
        simp [List.take_append_of_le_length hpa] at this
        exact this.symm
      intro c hc
      rw [this] at hc
      exact ha c (List.mem_of_mem_take hc)
    exact init_ws p hp
  · have hlen : a.length < p.length := by omega
    -- p = a ++ u with u nonempty
    have hpu : ∃ u, p = a ++ u ∧ u ≠ [] ∧ u ++ s = o :: w ++ [cl] := by
      refine ⟨p.drop a.length, ?_, ?_, ?_⟩
      · have := congrArg (List.take a.length) heq
        simp [List.take_append_of_le_length (Nat.le_of_lt hlen)] at this
        conv => lhs; rw [← List.take_append_drop a.length p]
        rw [← this]
      · intro h; have := congrArg List.length h; simp at this; omega
      · have := congrArg (List.drop a.length) heq
        simp [List.drop_append_of_le_length (Nat.le_of_lt hlen)] at this
        exact this.symm
    obtain ⟨u, rfl, hune, hus⟩ := hpu
    cases u with
    | nil => exact absurd rfl hune
    | cons c0 u' =>
      simp only [List.cons_append, List.cons.injEq] at hus
      obtain ⟨rfl, hus⟩ := hus
      obtain ⟨s', hw⟩ := prefix_split u' s w cl hus hs
      obtain ⟨qs, hrun, hdeep⟩ := deep_prefix ps qf w u' s' hw hshort
      have hloop : loop init (a ++ c0 :: u') = some (false, ext [.ROOT] qs) := by rw [hopen, hrun]
      obtain ⟨b, q0, hl0, hinv, _⟩ := loop_ok (a ++ c0 :: u') init inv_init
      rw [hloop] at hl0
      cases hl0
      obtain ⟨q', hq', hv⟩ := flush_none _ hinv hdeep
      rw [decode_of_loop _ h0 _ q' hloop hq', hv]


theorem sp_ws : Ws [32] := by intro c hc; simp at hc; subst hc; exact Or.inl rfl

/-- a text that stops before the closing bracket of a top-level array is rejected -/
theorem prefix_array (vs : List JV) (a x p s : Bytes) (ha : Ws a) (hx : SerV (.arr vs) x) (hd : depth (.arr vs) ≤ 1000)
    (heq : a ++ x = p ++ s) (hs : s ≠ []) : decode p = some none := by
  have h0 : (0 : UInt8) ∉ p := by
    have h1 := ws_nonul ha
    have h2 := serV_nonul hx
    intro hp
    have : (0 : UInt8) ∈ a ++ x := by rw [heq]; simp [hp]
    simp [h1, h2] at this
  have hopen : ∀ rest, loop init (a ++ 91 :: rest) =
      loop (ext [.ROOT] (mk .WAIT_VALUE [.ARRAY] [.arr [], .arr []] [] [] junk0)) rest := by
    intro rest
    rw [init_mk, ws_skip .WAIT_VALUE (by simp) .ROOT [] _ [] junk0 a _ ha, open_array .ROOT [] _ [] junk0 _ (by simp)]
    rfl
  cases hx with
  | arr0 w hw =>
    have hshort : loop (mk .WAIT_VALUE [.ARRAY] [.arr [], .arr []] [] [] junk0) (w ++ [32]) =
        some (false, mk .WAIT_VALUE [.ARRAY] [.arr [], .arr []] [] [] junk0) := by
      have hws : Ws (w ++ [32]) := by
        intro c hc
        rcases List.mem_append.mp hc with h | h
        · exact hw c h
        · exact sp_ws c h
      have := ws_skip .WAIT_VALUE (by simp) .ARRAY [] [.arr [], .arr []] [] junk0 (w ++ [32]) [] hws
      simp only [List.append_nil] at this
      rw [this]; rfl
    exact container_prefix a w p s 91 93 _ _ ha hopen hshort h0 (by simpa using heq) hs
  | arr _ w he =>
    obtain ⟨j', s', hs', hb⟩ := elems_body he [] [] [.arr []] [] junk0 32 [] (Or.inl rfl)
      (by simp [depth] at hd; simp; omega)
    obtain ⟨s2, hs2, h2⟩ := sepA_ws [] (.arr ((normL vs).reverse ++ []) :: [.arr []]) [] j' [32] sp_ws s' [] hs'
    have hshort : loop (mk .WAIT_VALUE [.ARRAY] [.arr [], .arr []] [] [] junk0) (w ++ [32]) =
        some (false, mk s2 [.ARRAY] (.arr ((normL vs).reverse ++ []) :: [.arr []]) [] [] j') := by
      rw [hb, ← List.append_nil [32], h2]; rfl
    exact container_prefix a w p s 91 93 _ _ ha hopen hshort h0 (by simpa using heq) hs

/-- a text that stops before the closing brace of a top-level object is rejected -/
theorem prefix_object (ms : List (Bytes × JV)) (a x p s : Bytes) (ha : Ws a) (hx : SerV (.obj ms) x)
    (hd : depth (.obj ms) ≤ 1000) (heq : a ++ x = p ++ s) (hs : s ≠ []) : decode p = some none := by
  have h0 : (0 : UInt8) ∉ p := by
    have h1 := ws_nonul ha
    have h2 := serV_nonul hx
    intro hp
    have : (0 : UInt8) ∈ a ++ x := by rw [heq]; simp [hp]
    simp [h1, h2] at this
  have hopen : ∀ rest, loop init (a ++ 123 :: rest) =
      loop (ext [.ROOT] (mk .WAIT_PROPERTY [.OBJECT] [.obj [], .arr []] [] [] junk0)) rest := by
    intro rest
    rw [init_mk, ws_skip .WAIT_VALUE (by simp) .ROOT [] _ [] junk0 a _ ha, open_object .ROOT [] _ [] junk0 _ (by simp)]
    rfl
  cases hx with
  | obj0 w hw =>
    have hshort : loop (mk .WAIT_PROPERTY [.OBJECT] [.obj [], .arr []] [] [] junk0) (w ++ [32]) =
        some (false, mk .WAIT_PROPERTY [.OBJECT] [.obj [], .arr []] [] [] junk0) := by
      have hws : Ws (w ++ [32]) := by
        intro c hc
        rcases List.mem_append.mp hc with h | h
        · exact hw c h
        · exact sp_ws c h
      have := ws_skip .WAIT_PROPERTY (by simp) .OBJECT [] [.obj [], .arr []] [] junk0 (w ++ [32]) [] hws
      simp only [List.append_nil] at this
      rw [this]; rfl
    exact container_prefix a w p s 123 125 _ _ ha hopen hshort h0 (by simpa using heq) hs
  | obj _ w hm =>
    obtain ⟨j', s', hs', hb⟩ := members_body hm [] [] [.arr []] [] junk0 32 [] (Or.inl rfl)
      (by simp [depth] at hd; simp; omega)
    obtain ⟨s2, hs2, h2⟩ := sepO_ws [] (.obj (normM ms []) :: [.arr []]) [] j' [32] sp_ws s' [] hs'
    have hshort : loop (mk .WAIT_PROPERTY [.OBJECT] [.obj [], .arr []] [] [] junk0) (w ++ [32]) =
        some (false, mk s2 [.OBJECT] (.obj (normM ms []) :: [.arr []]) [] [] j') := by
      rw [hb, ← List.append_nil [32], h2]; rfl
    exact container_prefix a w p s 123 125 _ _ ha hopen hshort h0 (by simpa using heq) hs

end AslProofs.XdlPrefix
