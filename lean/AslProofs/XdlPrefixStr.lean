import AslProofs.XdlPrefix
set_option linter.unusedSimpArgs false
set_option linter.unusedVariables false
namespace AslProofs.XdlPrefix
open AslModel.Xdl AslProofs.Xdl AslProofs.XdlFrame AslProofs.XdlRfc Rfc8259

/-- `Q` holds after every proper prefix of `t` (the empty one included), and none of them faults -/
def Tr (p : PState) (t : Bytes) (Q : PState → Prop) : Prop :=
  ∀ u' s', t = u' ++ s' → s' ≠ [] → ∃ q, loop p u' = some (false, q) ∧ Q q

theorem Tr_nil (p : PState) (Q : PState → Prop) : Tr p [] Q := by
  intro u' s' h hs
  have : u' = [] ∧ s' = [] := by simpa using h.symm
  exact absurd this.2 hs

theorem Tr_cons {p p1 : PState} {c : UInt8} {t : Bytes} {Q : PState → Prop} (hq : Q p)
    (hb : body p c = some (.next, p1)) (ht : Tr p1 t Q) : Tr p (c :: t) Q := by
  intro u' s' h hs
  cases u' with
  | nil => exact ⟨p, rfl, hq⟩
  | cons a u'' =>
    simp only [List.cons_append, List.cons.injEq] at h
    obtain ⟨rfl, h2⟩ := h
    obtain ⟨q, hl, hQ⟩ := ht u'' s' h2 hs
    exact ⟨q, by rw [loop_next _ hb, hl], hQ⟩

/-- the states while a string value is being read at the top level of the document -/
def QS (L : List Open) (C : List Ctx) (q : PState) : Prop :=
  q.lists = L ∧ q.ctx = C ∧ q.inComment = false ∧ (q.state = .STRING ∨ q.state = .ESCAPE ∨ q.state = .UNICODECHAR)

theorem qs_mk (L : List Open) (k : Ctx) (K : List Ctx) (P : List Bytes) (b : Bytes) (j : Junk) :
    QS L (k :: K) (mk .STRING (k :: K) L P b j) := ⟨rfl, rfl, rfl, Or.inl rfl⟩

theorem chars_tr (k : Ctx) (K : List Ctx) (L : List Open) (P : List Bytes) (s w : Bytes) (hc : Chars s w) :
    ∀ (b : Bytes) (j : Junk), Tr (mk .STRING (k :: K) L P b j) w (QS L (k :: K)) := by
  induction hc with
  | nil => intro b j; exact Tr_nil _ _
  | plain c s w hu _ ih =>
    intro b j
    obtain ⟨h1, h2, h3⟩ := hu
    have h4 : ¬ c < 32 := by
      intro h; revert h1; cases c; simp [UInt8.le_iff_toNat_le, UInt8.lt_iff_toNat_lt] at *; omega
    exact Tr_cons (qs_mk L k K P b j) (p1 := mk .STRING (k :: K) L P (c :: b) j)
      (by simp [body, dispatch, h2, h3, h4, next, push]) (ih (c :: b) j)
  | esc e d s w he _ ih =>
    intro b j
    have hne := simpleEsc_ne_u he
    rw [← escapeChar_eq] at he
    refine Tr_cons (qs_mk L k K P b j) (p1 := mk .ESCAPE (k :: K) L P b { j with pv := .STRING })
      (by simp [body, dispatch, next]) ?_
    exact Tr_cons ⟨rfl, rfl, rfl, Or.inr (Or.inl rfl)⟩ (p1 := mk .STRING (k :: K) L P (d :: b) { j with pv := .STRING })
      (by simp [body, dispatch, hne, he, next, push]) (ih (d :: b) _)
  | uni a1 a2 a3 a4 cp s w hh h0 hs _ ih =>
    intro b j
    obtain ⟨hst, hlt⟩ := strtoul16_hex4 a1 a2 a3 a4 cp hh
    obtain ⟨n1, n2, n3, n4, z1, z2, z3, z4⟩ := hex4_facts hh
    have hc4 : cstr [a1, a2, a3, a4] = [a1, a2, a3, a4] := by
      rw [cstr_cons _ _ z1, cstr_cons _ _ z2, cstr_cons _ _ z3, cstr_cons _ _ z4]; rfl
    have hw : toWchar (strtoul16 [a1, a2, a3, a4]) = (cp : Int) := by rw [hst, toWchar_small cp hlt]
    have hcond : (cp : Int) < 0xd800 ∨ (cp : Int) ≥ 0xdc00 := by omega
    refine Tr_cons (qs_mk L k K P b j) (p1 := mk .ESCAPE (k :: K) L P b { j with pv := .STRING })
      (by simp [body, dispatch, next]) ?_
    refine Tr_cons ⟨rfl, rfl, rfl, Or.inr (Or.inl rfl)⟩ (p1 := mk .UNICODECHAR (k :: K) L P b { j with pv := .STRING })
      (by simp [body, dispatch, next]) ?_
    refine Tr_cons ⟨rfl, rfl, rfl, Or.inr (Or.inr rfl)⟩
      (p1 := ⟨.UNICODECHAR, .STRING, k :: K, L, P, b, false, 1, [a1, j.u1, j.u2, j.u3], j.wc⟩)
      (by simp [body, dispatch, unicodeChar, n1, next]) ?_
    refine Tr_cons ⟨rfl, rfl, rfl, Or.inr (Or.inr rfl)⟩
      (p1 := ⟨.UNICODECHAR, .STRING, k :: K, L, P, b, false, 2, [a1, a2, j.u2, j.u3], j.wc⟩)
      (by simp [body, dispatch, unicodeChar, n2, next]) ?_
    refine Tr_cons ⟨rfl, rfl, rfl, Or.inr (Or.inr rfl)⟩
      (p1 := ⟨.UNICODECHAR, .STRING, k :: K, L, P, b, false, 3, [a1, a2, a3, j.u3], j.wc⟩)
      (by simp [body, dispatch, unicodeChar, n3, next]) ?_
    refine Tr_cons ⟨rfl, rfl, rfl, Or.inr (Or.inr rfl)⟩
      (p1 := mk .STRING (k :: K) L P ((utf8 cp).reverse ++ b) ⟨.STRING, a1, a2, a3, a4, j.wc⟩) ?_ (ih _ _)
    simp [body, dispatch, unicodeChar, n4, next, hc4, hw, hcond, pushStr, utf16_bmp cp h0 hlt hs,
      utf8_nonzero cp h0 (by omega)]
  | pair a1 a2 a3 a4 b1 b2 b3 b4 hi lo s w hh hl h1 h2 h3 h4 _ ih =>
    intro b j
    obtain ⟨hst, hlt⟩ := strtoul16_hex4 a1 a2 a3 a4 hi hh
    obtain ⟨hst2, hlt2⟩ := strtoul16_hex4 b1 b2 b3 b4 lo hl
    obtain ⟨n1, n2, n3, n4, z1, z2, z3, z4⟩ := hex4_facts hh
    obtain ⟨m1, m2, m3, m4, y1, y2, y3, y4⟩ := hex4_facts hl
    have hc4 : cstr [a1, a2, a3, a4] = [a1, a2, a3, a4] := by
      rw [cstr_cons _ _ z1, cstr_cons _ _ z2, cstr_cons _ _ z3, cstr_cons _ _ z4]; rfl
    have hc4' : cstr [b1, b2, b3, b4] = [b1, b2, b3, b4] := by
      rw [cstr_cons _ _ y1, cstr_cons _ _ y2, cstr_cons _ _ y3, cstr_cons _ _ y4]; rfl
    have hw : toWchar (strtoul16 [a1, a2, a3, a4]) = (hi : Int) := by rw [hst, toWchar_small hi hlt]
    have hw2 : toWchar (strtoul16 [b1, b2, b3, b4]) = (lo : Int) := by rw [hst2, toWchar_small lo hlt2]
    have hcond : ¬ ((hi : Int) < 0xd800 ∨ (hi : Int) ≥ 0xdc00) := by omega
    have hcp : 0x10000 + (hi - 0xD800) * 0x400 + (lo - 0xDC00) ≠ 0 := by omega
    refine Tr_cons (qs_mk L k K P b j) (p1 := mk .ESCAPE (k :: K) L P b { j with pv := .STRING })
      (by simp [body, dispatch, next]) ?_
    refine Tr_cons ⟨rfl, rfl, rfl, Or.inr (Or.inl rfl)⟩ (p1 := mk .UNICODECHAR (k :: K) L P b { j with pv := .STRING })
      (by simp [body, dispatch, next]) ?_
    refine Tr_cons ⟨rfl, rfl, rfl, Or.inr (Or.inr rfl)⟩
      (p1 := ⟨.UNICODECHAR, .STRING, k :: K, L, P, b, false, 1, [a1, j.u1, j.u2, j.u3], j.wc⟩)
      (by simp [body, dispatch, unicodeChar, n1, next]) ?_
    refine Tr_cons ⟨rfl, rfl, rfl, Or.inr (Or.inr rfl)⟩
      (p1 := ⟨.UNICODECHAR, .STRING, k :: K, L, P, b, false, 2, [a1, a2, j.u2, j.u3], j.wc⟩)
      (by simp [body, dispatch, unicodeChar, n2, next]) ?_
    refine Tr_cons ⟨rfl, rfl, rfl, Or.inr (Or.inr rfl)⟩
      (p1 := ⟨.UNICODECHAR, .STRING, k :: K, L, P, b, false, 3, [a1, a2, a3, j.u3], j.wc⟩)
      (by simp [body, dispatch, unicodeChar, n3, next]) ?_
    refine Tr_cons ⟨rfl, rfl, rfl, Or.inr (Or.inr rfl)⟩
      (p1 := ⟨.STRING, .STRING, k :: K, L, P, b, false, 4, [a1, a2, a3, a4], (hi : Int)⟩)
      (by simp [body, dispatch, unicodeChar, n4, next, hc4, hw, hcond]) ?_
    refine Tr_cons ⟨rfl, rfl, rfl, Or.inl rfl⟩
      (p1 := ⟨.ESCAPE, .STRING, k :: K, L, P, b, false, 4, [a1, a2, a3, a4], (hi : Int)⟩)
      (by simp [body, dispatch, next]) ?_
    refine Tr_cons ⟨rfl, rfl, rfl, Or.inr (Or.inl rfl)⟩
      (p1 := ⟨.UNICODECHAR, .STRING, k :: K, L, P, b, false, 4, [a1, a2, a3, a4], (hi : Int)⟩)
      (by simp [body, dispatch, next]) ?_
    refine Tr_cons ⟨rfl, rfl, rfl, Or.inr (Or.inr rfl)⟩
      (p1 := ⟨.UNICODECHAR, .STRING, k :: K, L, P, b, false, 5, [b1, a2, a3, a4], (hi : Int)⟩)
      (by simp [body, dispatch, unicodeChar, m1, next]) ?_
    refine Tr_cons ⟨rfl, rfl, rfl, Or.inr (Or.inr rfl)⟩
      (p1 := ⟨.UNICODECHAR, .STRING, k :: K, L, P, b, false, 6, [b1, b2, a3, a4], (hi : Int)⟩)
      (by simp [body, dispatch, unicodeChar, m2, next]) ?_
    refine Tr_cons ⟨rfl, rfl, rfl, Or.inr (Or.inr rfl)⟩
      (p1 := ⟨.UNICODECHAR, .STRING, k :: K, L, P, b, false, 7, [b1, b2, b3, a4], (hi : Int)⟩)
      (by simp [body, dispatch, unicodeChar, m3, next]) ?_
    refine Tr_cons ⟨rfl, rfl, rfl, Or.inr (Or.inr rfl)⟩
      (p1 := mk .STRING (k :: K) L P ((utf8 (0x10000 + (hi - 0xD800) * 0x400 + (lo - 0xDC00))).reverse ++ b)
        ⟨.STRING, b1, b2, b3, b4, (hi : Int)⟩) ?_ (ih _ _)
    simp [body, dispatch, unicodeChar, m4, next, hc4', hw2, pushStr, utf16_pair hi lo h1 h2 h3 h4,
      utf8_nonzero _ hcp (by omega)]


/-- flushing with a blank while a top-level string is still open leaves no value -/
theorem str_flush (q : PState) (k : Ctx) (K : List Ctx) (hq : QS [.arr []] (k :: K) q) :
    ∃ q', parse q [32] = some q' ∧ value q' = none := by
  obtain ⟨st, pv, cx, lists, props, buffer, ic, uc, ub, wc⟩ := q
  obtain ⟨hl, hc, hi, hs⟩ := hq
  simp only at hl hc hi hs
  subst hl hc hi
  have c32 : cstr [32] = [32] := by decide
  rcases hs with rfl | rfl | rfl
  · refine ⟨⟨.STRING, pv, k :: K, [.arr []], props, 32 :: buffer, false, uc, ub, wc⟩, ?_, by simp [value]⟩
    simp [parse, c32, loop, stepByte, body, dispatch, next, push]
  · refine ⟨⟨.ERR, pv, k :: K, [.arr []], props, buffer, false, uc, ub, wc⟩, ?_, by simp [value]⟩
    simp [parse, c32, loop, stepByte, body, dispatch, escapeChar, errBrk]
  · have hb : ∃ q1, body ⟨.UNICODECHAR, pv, k :: K, [.arr []], props, buffer, false, uc, ub, wc⟩ 32 = some (.next, q1) ∧
        q1.lists = [.arr []] := by
      simp only [body, Bool.not_false, if_true]
      have : ¬ ((32 : UInt8) = 47 ∧ St.UNICODECHAR ≠ .STRING ∧ St.UNICODECHAR ≠ .QPROPERTY ∧ St.UNICODECHAR ≠ .ESCAPE) := by
        simp
      simp only [this, if_false, dispatch, unicodeChar, next, pushStr]
      repeat' split
      all_goals exact ⟨_, rfl, rfl⟩
    obtain ⟨q1, hb1, hl1⟩ := hb
    refine ⟨q1, ?_, ?_⟩
    · simp [parse, c32, loop, stepByte, hb1]
    · unfold value
      split
      · rfl
      · rw [hl1]
        simp only [List.getLast?_singleton]
        split
        · rename_i heq1 _
          cases heq1
          split <;> rfl
        · rfl

/-- a text that stops before the closing quotation mark of a top-level string is rejected -/
theorem prefix_string (t : Bytes) (a x p s : Bytes) (ha : Ws a) (hx : SerV (.str t) x)
    (heq : a ++ x = p ++ s) (hs : s ≠ []) : decode p = some none := by
  have h0 : (0 : UInt8) ∉ p := by
    have h1 := ws_nonul ha
    have h2 := serV_nonul hx
    intro hp
    have : (0 : UInt8) ∈ a ++ x := by rw [heq]; simp [hp]
    simp [h1, h2] at this
  cases hx with
  | str _ w hc =>
    by_cases hpa : p.length ≤ a.length
    · have hp : Ws p := by
        have : p = a.take p.length := by
          have := congrArg (List.take p.length) heq
          simp [List.take_append_of_le_length hpa] at this
          exact this.symm
        intro c hc'
        rw [this] at hc'
        exact ha c (List.mem_of_mem_take hc')
      exact init_ws p hp
    · have hlen : a.length < p.length := by omega
      have hpu : ∃ u, p = a ++ u ∧ u ≠ [] ∧ u ++ s = 34 :: w ++ [34] := by
        refine ⟨p.drop a.length, ?_, ?_, ?_⟩
        · have := congrArg (List.take a.length) heq
          simp [List.take_append_of_le_length (Nat.le_of_lt hlen)] at this
          conv => lhs; rw [← List.take_append_drop a.length p]
          rw [← this]
        · intro h; have := congrArg List.length h; simp at this; omega
        · have := congrArg (List.drop a.length) heq
          simp [List.drop_append_of_le_length (Nat.le_of_lt hlen)] at this
          exact this.symm
      obtain ⟨u, rfl, hune, hus⟩ := hpu
      cases u with
      | nil => exact absurd rfl hune
      | cons c0 u' =>
        simp only [List.cons_append, List.cons.injEq] at hus
        obtain ⟨rfl, hus⟩ := hus
        obtain ⟨s', hw⟩ := prefix_split u' s w 34 hus hs
        have hstart : ∀ rest, loop init (a ++ 34 :: rest) = loop (mk .STRING [.ROOT] [.arr []] [] [] junk0) rest := by
          intro rest
          rw [init_mk, ws_skip .WAIT_VALUE (by simp) .ROOT [] _ [] junk0 a _ ha]
          exact loop_next _ (by simp [body, dispatch, waitValue, isDigit, next])
        -- the state after u'
        have hq : ∃ q, loop (mk .STRING [.ROOT] [.arr []] [] [] junk0) u' = some (false, q) ∧ QS [.arr []] [.ROOT] q := by
          by_cases hs' : s' = []
          · subst hs'
            simp only [List.append_nil] at hw
            subst hw
            obtain ⟨j', hj⟩ := chars_ok .STRING (Or.inl rfl) .ROOT [] [.arr []] [] t w hc [] junk0 []
            simp only [List.append_nil] at hj
            exact ⟨_, by rw [hj]; rfl, qs_mk _ _ _ _ _ _⟩
          · exact chars_tr .ROOT [] [.arr []] [] t w hc [] junk0 u' s' hw hs'
        obtain ⟨q, hlq, hqs⟩ := hq
        obtain ⟨q', hq', hv⟩ := str_flush q .ROOT [] hqs
        have hloop : loop init (a ++ 34 :: u') = some (false, q) := by rw [hstart, hlq]
        rw [decode_of_loop _ h0 q q' hloop hq', hv]

end AslProofs.XdlPrefix
