import AslProofs.Xdl
import AslProofs.JsonSpec
import AslProofs.XdlUtf
set_option linter.unusedSimpArgs false
set_option linter.unusedVariables false
namespace AslProofs.XdlRfc
open AslModel.Xdl AslProofs.Xdl Rfc8259

/-- the fields that carry no information between tokens: `_prevState`, `_unicode[4]`, `_wchar` -/
structure Junk where
  pv : St
  u0 : UInt8
  u1 : UInt8
  u2 : UInt8
  u3 : UInt8
  wc : Int

/-- a parser state outside comments with an idle `\u` accumulator -/
@[reducible] def mk (s : St) (K : List Ctx) (L : List Open) (P : List Bytes) (b : Bytes) (j : Junk) : PState :=
  { state := s, prev := j.pv, ctx := K, lists := L, props := P, buffer := b, inComment := false, ucount := 0,
    ubuf := [j.u0, j.u1, j.u2, j.u3], wchar := j.wc }

theorem loop_next {p q : PState} {c : UInt8} (cs : Bytes) (h : body p c = some (.next, q)) :
    loop p (c :: cs) = loop q cs := by
  simp [loop, stepByte, h]

theorem loop_again {p q : PState} {c : UInt8} (cs : Bytes) (h : body p c = some (.again, q))
    (hi : q.inComment = false) (ha : againSt q.state = true) : loop p (c :: cs) = loop q (c :: cs) := by
  have hna := body_no_again q c hi ha
  simp only [loop, stepByte, h]
  cases hb : body q c with
  | none => rfl
  | some r =>
    obtain ⟨f, q2⟩ := r
    cases f with
    | next => rfl
    | ret => rfl
    | again => exact absurd rfl (hna _ hb)

theorem ws_cases {c : UInt8} (h : isWs c) : c = 32 ∨ c = 9 ∨ c = 10 ∨ c = 13 := h

/-- white space in a state that ignores it -/
theorem ws_skip (s : St) (hs : s = .WAIT_VALUE ∨ s = .WAIT_PROPERTY ∨ s = .WAIT_EQUAL ∨ s = .WAIT_COMMA_OR_VALUE ∨
      s = .WAIT_COMMA_OR_PROPERTY)
    (k : Ctx) (K : List Ctx) (L : List Open) (P : List Bytes) (j : Junk) (a rest : Bytes) (ha : Ws a) :
    loop (mk s (k :: K) L P [] j) (a ++ rest) = loop (mk s (k :: K) L P [] j) rest := by
  induction a with
  | nil => rfl
  | cons c a ih =>
    have hc := ha c (by simp)
    have ha' : Ws a := fun x hx => ha x (by simp [hx])
    rw [List.cons_append, loop_next (q := mk s (k :: K) L P [] j), ih ha']
    rcases hs with rfl | rfl | rfl | rfl | rfl <;> rcases hc with rfl | rfl | rfl | rfl <;>
      simp [body, dispatch, waitValue, waitProperty, isDigit, isAlnum, isSpace, next]


/-- the byte after a value in a JSON text: white space, `,`, `]` or `}` -/
def isDelim (d : UInt8) : Prop := d = 32 ∨ d = 9 ∨ d = 10 ∨ d = 13 ∨ d = 44 ∨ d = 93 ∨ d = 125

/-- `put` on the two stacks it touches -/
def putLP : List Open → List Bytes → JV → Option (List Open × List Bytes)
  | .arr rev :: rest, P, x => some (.arr (x :: rev) :: rest, P)
  | .obj ms :: rest, k :: ps, x => some (.obj (objSet ms k x) :: rest, ps)
  | _, _, _ => none

/-- the state `value_end()` selects -/
def endSt : List Ctx → St
  | .ROOT :: _ => .WAIT_VALUE
  | _ => .WAIT_SEP

theorem scalar_mk (s : St) (k : Ctx) (K : List Ctx) (L : List Open) (P : List Bytes) (b : Bytes) (j : Junk) (x : JV)
    (L' : List Open) (P' : List Bytes) (h : putLP L P x = some (L', P')) :
    scalar (mk s (k :: K) L P b j) x = some (mk (endSt (k :: K)) (k :: K) L' P' [] j) := by
  unfold putLP at h
  split at h
  · simp at h; obtain ⟨rfl, rfl⟩ := h
    cases k <;> simp [scalar, put, valueEnd, endSt]
  · simp at h; obtain ⟨rfl, rfl⟩ := h
    cases k <;> simp [scalar, put, valueEnd, endSt]
  · simp at h

theorem closeContainer_mk (s : St) (k0 k : Ctx) (K : List Ctx) (o : Open) (L : List Open) (P : List Bytes) (b : Bytes)
    (j : Junk) (L' : List Open) (P' : List Bytes) (h : putLP L P (closed o) = some (L', P')) :
    closeContainer (mk s (k0 :: k :: K) (o :: L) P b j) = some (mk (endSt (k :: K)) (k :: K) L' P' [] j) := by
  unfold putLP at h
  split at h
  · simp at h; obtain ⟨rfl, rfl⟩ := h
    cases k <;> simp [closeContainer, endContainer, put, valueEnd, endSt]
  · simp at h; obtain ⟨rfl, rfl⟩ := h
    cases k <;> simp [closeContainer, endContainer, put, valueEnd, endSt]
  · simp at h

theorem againSt_endSt (K : List Ctx) : againSt (endSt K) = true := by
  unfold endSt; split <;> rfl

theorem delim_cases {d : UInt8} (h : isDelim d) : d = 32 ∨ d = 9 ∨ d = 10 ∨ d = 13 ∨ d = 44 ∨ d = 93 ∨ d = 125 := h

/-- a literal name followed by a delimiter -/
theorem literal_ok (name : Bytes) (x : JV)
    (hn : (name = [110, 117, 108, 108] ∧ x = .null) ∨ (name = [116, 114, 117, 101] ∧ x = .bool true) ∨
          (name = [102, 97, 108, 115, 101] ∧ x = .bool false))
    (k : Ctx) (K : List Ctx) (L : List Open) (P : List Bytes) (j : Junk) (d : UInt8) (rest : Bytes) (hd : isDelim d)
    (L' : List Open) (P' : List Bytes) (h : putLP L P x = some (L', P')) :
    loop (mk .WAIT_VALUE (k :: K) L P [] j) (name ++ d :: rest) =
      loop (mk (endSt (k :: K)) (k :: K) L' P' [] j) (d :: rest) := by
  rcases hn with ⟨rfl, rfl⟩ | ⟨rfl, rfl⟩ | ⟨rfl, rfl⟩
  · simp only [List.cons_append, List.nil_append]
    rw [loop_next (q := mk .IDENTIFIER (k :: K) L P [110] j) _ (by simp [body, dispatch, waitValue, isDigit, isAlnum, next, push])]
    rw [loop_next (q := mk .IDENTIFIER (k :: K) L P [117, 110] j) _ (by simp [body, dispatch, isAlnum, next, push])]
    rw [loop_next (q := mk .IDENTIFIER (k :: K) L P [108, 117, 110] j) _ (by simp [body, dispatch, isAlnum, next, push])]
    rw [loop_next (q := mk .IDENTIFIER (k :: K) L P [108, 108, 117, 110] j) _ (by simp [body, dispatch, isAlnum, next, push])]
    refine loop_again _ ?_ rfl (againSt_endSt _)
    have := scalar_mk .IDENTIFIER k K L P [108, 108, 117, 110] j .null L' P' h
    rcases delim_cases hd with rfl | rfl | rfl | rfl | rfl | rfl | rfl <;>
      simp [body, dispatch, isAlnum, buf, this]
  · simp only [List.cons_append, List.nil_append]
    rw [loop_next (q := mk .IDENTIFIER (k :: K) L P [116] j) _ (by simp [body, dispatch, waitValue, isDigit, isAlnum, next, push])]
    rw [loop_next (q := mk .IDENTIFIER (k :: K) L P [114, 116] j) _ (by simp [body, dispatch, isAlnum, next, push])]
    rw [loop_next (q := mk .IDENTIFIER (k :: K) L P [117, 114, 116] j) _ (by simp [body, dispatch, isAlnum, next, push])]
    rw [loop_next (q := mk .IDENTIFIER (k :: K) L P [101, 117, 114, 116] j) _ (by simp [body, dispatch, isAlnum, next, push])]
    refine loop_again _ ?_ rfl (againSt_endSt _)
    have := scalar_mk .IDENTIFIER k K L P [101, 117, 114, 116] j (.bool true) L' P' h
    rcases delim_cases hd with rfl | rfl | rfl | rfl | rfl | rfl | rfl <;>
      simp [body, dispatch, isAlnum, buf, this]
  · simp only [List.cons_append, List.nil_append]
    rw [loop_next (q := mk .IDENTIFIER (k :: K) L P [102] j) _ (by simp [body, dispatch, waitValue, isDigit, isAlnum, next, push])]
    rw [loop_next (q := mk .IDENTIFIER (k :: K) L P [97, 102] j) _ (by simp [body, dispatch, isAlnum, next, push])]
    rw [loop_next (q := mk .IDENTIFIER (k :: K) L P [108, 97, 102] j) _ (by simp [body, dispatch, isAlnum, next, push])]
    rw [loop_next (q := mk .IDENTIFIER (k :: K) L P [115, 108, 97, 102] j) _ (by simp [body, dispatch, isAlnum, next, push])]
    rw [loop_next (q := mk .IDENTIFIER (k :: K) L P [101, 115, 108, 97, 102] j) _ (by simp [body, dispatch, isAlnum, next, push])]
    refine loop_again _ ?_ rfl (againSt_endSt _)
    have := scalar_mk .IDENTIFIER k K L P [101, 115, 108, 97, 102] j (.bool false) L' P' h
    rcases delim_cases hd with rfl | rfl | rfl | rfl | rfl | rfl | rfl <;>
      simp [body, dispatch, isAlnum, buf, this]


/-! ## numbers -/

theorem isDigit_of_isDig {c : UInt8} (h : isDig c) : isDigit c = true := by
  simp [isDigit, h.1, h.2]

theorem dig_ne {c : UInt8} (h : isDig c) : c ≠ 47 ∧ c ≠ 46 ∧ c ≠ 101 ∧ c ≠ 69 ∧ c ≠ 45 ∧ c ≠ 43 := by
  obtain ⟨h1, h2⟩ := h
  refine ⟨?_, ?_, ?_, ?_, ?_, ?_⟩ <;> (intro h0; subst h0; revert h1 h2; decide)

/-- a run of digits in one of the three digit-collecting states -/
theorem digits_loop (s : St) (hs : s = .INT ∨ s = .NUMBER ∨ s = .NUMBER_EV) (k : Ctx) (K : List Ctx) (L : List Open)
    (P : List Bytes) (j : Junk) (ds : Bytes) (hds : Digits ds) : ∀ (b rest : Bytes),
    loop (mk s (k :: K) L P b j) (ds ++ rest) = loop (mk s (k :: K) L P (ds.reverse ++ b) j) rest := by
  induction ds with
  | nil => intro b rest; rfl
  | cons c ds ih =>
    intro b rest
    have hc := hds c (by simp)
    have hds' : Digits ds := fun x hx => hds x (by simp [hx])
    have hd := isDigit_of_isDig hc
    have hne := (dig_ne hc).1
    rw [List.cons_append, loop_next (q := mk s (k :: K) L P (c :: b) j), ih hds']
    · simp
    · rcases hs with rfl | rfl | rfl <;> simp [body, dispatch, hd, hne, next, push]

/-- NUMBER / NUMBER_EV meeting the delimiter: `new_number(atof(_buffer)); value_end(); s--` -/
theorem numEnd_step (s : St) (hs : s = .NUMBER ∨ s = .NUMBER_EV) (k : Ctx) (K : List Ctx) (L : List Open)
    (P : List Bytes) (j : Junk) (b : Bytes) (d : UInt8) (rest : Bytes) (hd : isDelim d)
    (L' : List Open) (P' : List Bytes) (h : putLP L P (.num b.reverse) = some (L', P')) :
    loop (mk s (k :: K) L P b j) (d :: rest) = loop (mk (endSt (k :: K)) (k :: K) L' P' [] j) (d :: rest) := by
  refine loop_again _ ?_ rfl (againSt_endSt _)
  have := scalar_mk s k K L P b j (.num b.reverse) L' P' h
  rcases hs with rfl | rfl <;> rcases delim_cases hd with rfl | rfl | rfl | rfl | rfl | rfl | rfl <;>
    simp [body, dispatch, isDigit, isSpace, numEnd, buf, this]

/-- an exponent part, from INT or NUMBER, up to the delimiter -/
theorem exp_ok (s : St) (hs : s = .INT ∨ s = .NUMBER) (k : Ctx) (K : List Ctx) (L : List Open)
    (P : List Bytes) (j : Junk) (b ex : Bytes) (hex : Exp ex) (hne : ex ≠ []) (d : UInt8) (rest : Bytes) (hd : isDelim d)
    (L' : List Open) (P' : List Bytes) (h : putLP L P (.num (b.reverse ++ ex)) = some (L', P')) :
    loop (mk s (k :: K) L P b j) (ex ++ d :: rest) = loop (mk (endSt (k :: K)) (k :: K) L' P' [] j) (d :: rest) := by
  cases hex with
  | none => exact absurd rfl hne
  | some e sgn d1 ds he hsg hd1 hds =>
    have hdd := isDigit_of_isDig hd1
    have hdn := dig_ne hd1
    have e1 : loop (mk s (k :: K) L P b j) (e :: (sgn ++ d1 :: ds ++ d :: rest)) =
        loop (mk .NUMBER_E (k :: K) L P (e :: b) j) (sgn ++ d1 :: ds ++ d :: rest) := by
      rw [loop_next (q := mk .NUMBER_E (k :: K) L P (e :: b) j)]
      rcases hs with rfl | rfl <;> rcases he with rfl | rfl <;> simp [body, dispatch, isDigit, next, push]
    have e2 : loop (mk .NUMBER_E (k :: K) L P (e :: b) j) (sgn ++ d1 :: ds ++ d :: rest) =
        loop (mk .NUMBER_EV (k :: K) L P (d1 :: (sgn.reverse ++ e :: b)) j) (ds ++ d :: rest) := by
      rcases hsg with rfl | rfl | rfl
      · simp only [List.nil_append, List.cons_append, List.reverse_nil]
        rw [loop_next (q := mk .NUMBER_EV (k :: K) L P (d1 :: e :: b) j)]
        simp [body, dispatch, hdd, hdn, next, push]
      · simp only [List.cons_append, List.nil_append, List.reverse_cons, List.reverse_nil]
        rw [loop_next (q := mk .NUMBER_ES (k :: K) L P (45 :: e :: b) j) _ (by simp [body, dispatch, isDigit, next, push])]
        rw [loop_next (q := mk .NUMBER_EV (k :: K) L P (d1 :: 45 :: e :: b) j)]
        simp [body, dispatch, hdd, hdn, next, push]
      · simp only [List.cons_append, List.nil_append, List.reverse_cons, List.reverse_nil]
        rw [loop_next (q := mk .NUMBER_ES (k :: K) L P (43 :: e :: b) j) _ (by simp [body, dispatch, isDigit, next, push])]
        rw [loop_next (q := mk .NUMBER_EV (k :: K) L P (d1 :: 43 :: e :: b) j)]
        simp [body, dispatch, hdd, hdn, next, push]
    have e0 : (e :: sgn ++ d1 :: ds) ++ d :: rest = e :: (sgn ++ d1 :: ds ++ d :: rest) := by simp
    rw [e0, e1, e2, digits_loop .NUMBER_EV (Or.inr (Or.inr rfl)) k K L P j ds hds]
    apply numEnd_step .NUMBER_EV (Or.inr rfl) k K L P j _ d rest hd L' P'
    rw [← h]
    simp


theorem frac_ok (k : Ctx) (K : List Ctx) (L : List Open) (P : List Bytes) (j : Junk) (b fr ex : Bytes)
    (hfr : Frac fr) (hne : fr ≠ []) (hex : Exp ex) (d : UInt8) (rest : Bytes) (hd : isDelim d)
    (L' : List Open) (P' : List Bytes) (h : putLP L P (.num (b.reverse ++ fr ++ ex)) = some (L', P')) :
    loop (mk .INT (k :: K) L P b j) (fr ++ ex ++ d :: rest) =
      loop (mk (endSt (k :: K)) (k :: K) L' P' [] j) (d :: rest) := by
  cases hfr with
  | none => exact absurd rfl hne
  | some d1 ds hd1 hds =>
    have hdd := isDigit_of_isDig hd1
    have hdn := dig_ne hd1
    have e0 : (46 :: d1 :: ds) ++ ex ++ d :: rest = 46 :: d1 :: (ds ++ (ex ++ d :: rest)) := by simp
    rw [e0]
    rw [loop_next (q := mk .NUMBER_DOT (k :: K) L P (46 :: b) j) _ (by simp [body, dispatch, isDigit, next, push])]
    rw [loop_next (q := mk .NUMBER (k :: K) L P (d1 :: 46 :: b) j) _ (by simp [body, dispatch, hdd, hdn, next, push])]
    rw [digits_loop .NUMBER (Or.inr (Or.inl rfl)) k K L P j ds hds]
    by_cases hex0 : ex = []
    · subst hex0
      simp only [List.nil_append]
      apply numEnd_step .NUMBER (Or.inl rfl) k K L P j _ d rest hd L' P'
      rw [← h]; simp
    · apply exp_ok .NUMBER (Or.inr rfl) k K L P j _ ex hex hex0 d rest hd L' P'
      rw [← h]; simp

theorem intpart_ok (k : Ctx) (K : List Ctx) (L : List Open) (P : List Bytes) (j : Junk) (minus ip : Bytes)
    (hm : minus = [] ∨ minus = [45]) (hip : IntPart ip) (rest : Bytes) :
    loop (mk .WAIT_VALUE (k :: K) L P [] j) (minus ++ ip ++ rest) =
      loop (mk .INT (k :: K) L P (minus ++ ip).reverse j) rest := by
  have first : ∀ (c : UInt8) (ds : Bytes), isDig c → Digits ds →
      loop (mk .WAIT_VALUE (k :: K) L P [] j) (minus ++ (c :: ds) ++ rest) =
      loop (mk .INT (k :: K) L P (minus ++ (c :: ds)).reverse j) rest := by
    intro c ds hc hds
    have hdd := isDigit_of_isDig hc
    have hdn := dig_ne hc
    rcases hm with rfl | rfl
    · simp only [List.nil_append, List.cons_append]
      rw [loop_next (q := mk .INT (k :: K) L P [c] j) _ (by simp [body, dispatch, waitValue, hdd, hdn, next, push])]
      rw [digits_loop .INT (Or.inl rfl) k K L P j ds hds]
      simp
    · simp only [List.cons_append, List.nil_append]
      rw [loop_next (q := mk .MINUS (k :: K) L P [45] j) _ (by simp [body, dispatch, waitValue, isDigit, next, push])]
      rw [loop_next (q := mk .INT (k :: K) L P [c, 45] j) _ (by simp [body, dispatch, hdd, hdn, next, push])]
      rw [digits_loop .INT (Or.inl rfl) k K L P j ds hds]
      simp
  cases hip with
  | zero => exact first 48 [] (by unfold isDig; decide) (by intro x hx; simp at hx)
  | nz c ds h1 h2 hds => exact first c ds ⟨by revert h1; cases c; simp [UInt8.le_iff_toNat_le]; omega, h2⟩ hds


theorem intEnd_eval (p : PState) (minus ip : Bytes) (hm : minus = [] ∨ minus = [45]) (hip : IntPart ip)
    (hb : buf p = minus ++ ip) :
    intEnd p = (scalar p (if (minus ++ ip).length > 9 then .num (minus ++ ip) else .int (myatoiz (minus ++ ip)))).bind
      fun p1 => some (.again, p1) := by
  unfold intEnd
  -- the only place where the value of the extracted split matters: the RFC side (`norm`) says 9
  rw [show Gen.Xdl.intSplit = 9 from rfl]
  simp only [hb]
  cases hip with
  | zero =>
    rcases hm with rfl | rfl <;> simp [cAt, leadingZeroBad] <;> rfl
  | nz c ds h1 h2 hds =>
    have hc48 : c ≠ 48 := by intro h0; subst h0; revert h1; decide
    have hc45 : c ≠ 45 := by intro h0; subst h0; revert h1; decide
    rcases hm with rfl | rfl
    · simp [cAt, leadingZeroBad, hc48, hc45]
    · simp [cAt, leadingZeroBad, hc48]

theorem intEnd_step (k : Ctx) (K : List Ctx) (L : List Open) (P : List Bytes) (j : Junk) (minus ip : Bytes)
    (hm : minus = [] ∨ minus = [45]) (hip : IntPart ip) (d : UInt8) (rest : Bytes) (hd : isDelim d)
    (L' : List Open) (P' : List Bytes)
    (h : putLP L P (if (minus ++ ip).length > 9 then .num (minus ++ ip) else .int (myatoiz (minus ++ ip))) = some (L', P')) :
    loop (mk .INT (k :: K) L P (minus ++ ip).reverse j) (d :: rest) =
      loop (mk (endSt (k :: K)) (k :: K) L' P' [] j) (d :: rest) := by
  refine loop_again _ ?_ rfl (againSt_endSt _)
  have hs := scalar_mk .INT k K L P (minus ++ ip).reverse j _ L' P' h
  have hev := intEnd_eval (mk .INT (k :: K) L P (minus ++ ip).reverse j) minus ip hm hip (by simp [buf])
  generalize (minus ++ ip).reverse = b at hev hs ⊢
  generalize (if (minus ++ ip).length > 9 then JV.num (minus ++ ip) else JV.int (myatoiz (minus ++ ip))) = v at hev hs
  rcases delim_cases hd with rfl | rfl | rfl | rfl | rfl | rfl | rfl <;>
    simp [body, dispatch, isDigit, hev, hs]


theorem intpart_digits {ip : Bytes} (h : IntPart ip) : ip ≠ [] ∧ Digits ip := by
  cases h with
  | zero => exact ⟨by simp, by intro x hx; simp at hx; subst hx; unfold isDig; decide⟩
  | nz c ds h1 h2 hds =>
    refine ⟨by simp, ?_⟩
    intro x hx
    simp at hx
    rcases hx with rfl | hx
    · exact ⟨by revert h1; cases x; simp [UInt8.le_iff_toNat_le]; omega, h2⟩
    · exact hds x hx

theorem isIntLex_int (minus ip : Bytes) (hm : minus = [] ∨ minus = [45]) (hip : IntPart ip) :
    isIntLex (minus ++ ip) = true := by
  have hd := (intpart_digits hip).2
  simp only [isIntLex, List.all_append, Bool.and_eq_true, List.all_eq_true]
  constructor
  · rcases hm with rfl | rfl <;> simp
  · intro x hx
    have := hd x hx
    simp [this.1, this.2]

theorem myatoiz_decVal (minus ip : Bytes) (hm : minus = [] ∨ minus = [45]) (hip : IntPart ip) :
    myatoiz (minus ++ ip) = decVal (minus ++ ip) := by
  rcases hm with rfl | rfl
  · cases hip with
    | zero => rfl
    | nz c ds h1 h2 hds =>
      have hc45 : c ≠ 45 := by intro h0; subst h0; revert h1; decide
      have hc43 : c ≠ 43 := by intro h0; subst h0; revert h1; decide
      simp only [List.nil_append]
      unfold myatoiz decVal
      split
      · rename_i heq; simp at heq; exact absurd heq.1 hc45
      · rename_i heq; simp at heq; exact absurd heq.1 hc43
      · split
        · rename_i heq; simp at heq; exact absurd heq.1 hc45
        · rfl
  · simp [myatoiz, decVal]

theorem isIntLex_false (lex : Bytes) (c : UInt8) (hc : c = 46 ∨ c = 101 ∨ c = 69) (hm : c ∈ lex) :
    isIntLex lex = false := by
  apply Bool.eq_false_iff.mpr
  intro h
  have := List.all_eq_true.mp h c hm
  rcases hc with rfl | rfl | rfl <;> simp at this

/-- every RFC 8259 number, followed by a delimiter, is delivered as `norm (.num lex)` -/
theorem number_ok (lex : Bytes) (hn : Number lex) (k : Ctx) (K : List Ctx) (L : List Open) (P : List Bytes) (j : Junk)
    (d : UInt8) (rest : Bytes) (hd : isDelim d) (L' : List Open) (P' : List Bytes)
    (h : putLP L P (norm (.num lex)) = some (L', P')) :
    loop (mk .WAIT_VALUE (k :: K) L P [] j) (lex ++ d :: rest) =
      loop (mk (endSt (k :: K)) (k :: K) L' P' [] j) (d :: rest) := by
  cases hn with
  | mk minus ip fr ex hm hip hfr hex =>
    have e0 : minus ++ ip ++ fr ++ ex ++ d :: rest = minus ++ ip ++ (fr ++ ex ++ d :: rest) := by simp
    rw [e0, intpart_ok k K L P j minus ip hm hip]
    by_cases hf0 : fr = []
    · subst hf0
      by_cases he0 : ex = []
      · subst he0
        simp only [List.append_nil, List.nil_append] at h ⊢
        apply intEnd_step k K L P j minus ip hm hip d rest hd L' P'
        rw [← h]
        simp only [norm, isIntLex_int minus ip hm hip, myatoiz_decVal minus ip hm hip]
        by_cases hl : (minus ++ ip).length > 9
        · have : ¬ (minus ++ ip).length ≤ 9 := by omega
          simp only [hl, this, if_true, and_false, if_false]
        · have : (minus ++ ip).length ≤ 9 := by omega
          simp only [hl, this, if_false, and_true, if_true]
      · simp only [List.append_nil, List.nil_append] at h ⊢
        apply exp_ok .INT (Or.inl rfl) k K L P j _ ex hex he0 d rest hd L' P'
        rw [← h]
        cases hex with
        | none => exact absurd rfl he0
        | some e sgn d1 ds he _ _ _ =>
          have := isIntLex_false (minus ++ ip ++ (e :: sgn ++ d1 :: ds)) e (Or.inr he) (by simp)
          simp only [norm, this, Bool.false_eq_true, false_and, if_false, List.reverse_reverse]
    · apply frac_ok k K L P j _ fr ex hfr hf0 hex d rest hd L' P'
      rw [← h]
      cases hfr with
      | none => exact absurd rfl hf0
      | some d1 ds _ _ =>
        have := isIntLex_false (minus ++ ip ++ (46 :: d1 :: ds) ++ ex) 46 (Or.inl rfl) (by simp)
        simp only [norm, this, Bool.false_eq_true, false_and, if_false, List.reverse_reverse]


/-! ## strings and quoted property names -/

theorem escapeChar_eq (e : UInt8) : escapeChar e = simpleEsc e := by
  unfold escapeChar simpleEsc
  repeat' split
  all_goals first | rfl | (subst_vars; simp_all)

theorem simpleEsc_ne_u {e d : UInt8} (h : simpleEsc e = some d) : e ≠ 117 := by
  intro h0; subst h0; simp [simpleEsc] at h

/-- the characters of a string (state STRING) or of a quoted name (state QPROPERTY), without `\u` escapes -/
theorem chars_plain_step (S : St) (hS : S = .STRING ∨ S = .QPROPERTY) (k : Ctx) (K : List Ctx) (L : List Open)
    (P : List Bytes) (b : Bytes) (j : Junk) (c : UInt8) (hc : unescaped c) (rest : Bytes) :
    loop (mk S (k :: K) L P b j) (c :: rest) = loop (mk S (k :: K) L P (c :: b) j) rest := by
  obtain ⟨h1, h2, h3⟩ := hc
  have h4 : ¬ c < 32 := by
    intro h; revert h1; cases c; simp [UInt8.le_iff_toNat_le, UInt8.lt_iff_toNat_lt] at *; omega
  apply loop_next
  rcases hS with rfl | rfl <;> simp [body, dispatch, h2, h3, h4, next, push]

theorem chars_esc_step (S : St) (hS : S = .STRING ∨ S = .QPROPERTY) (k : Ctx) (K : List Ctx) (L : List Open)
    (P : List Bytes) (b : Bytes) (j : Junk) (e d : UInt8) (he : simpleEsc e = some d) (rest : Bytes) :
    loop (mk S (k :: K) L P b j) (92 :: e :: rest) = loop (mk S (k :: K) L P (d :: b) { j with pv := S }) rest := by
  have hne := simpleEsc_ne_u he
  rw [← escapeChar_eq] at he
  rw [loop_next (q := mk .ESCAPE (k :: K) L P b { j with pv := S })]
  · apply loop_next
    simp [body, dispatch, hne, he, next, push]
  · rcases hS with rfl | rfl <;> simp [body, dispatch, next]


theorem toWchar_small (n : Nat) (h : n < 65536) : toWchar n = (n : Int) := by
  unfold toWchar
  have : n % 2 ^ 32 = n := Nat.mod_eq_of_lt (by omega)
  simp only [this]
  have : ¬ n ≥ 2 ^ 31 := by omega
  simp [this]

theorem chars_uni_step (S : St) (hS : S = .STRING ∨ S = .QPROPERTY) (k : Ctx) (K : List Ctx) (L : List Open)
    (P : List Bytes) (b : Bytes) (j : Junk) (a1 a2 a3 a4 : UInt8) (cp : Nat) (h : hex4 a1 a2 a3 a4 = some cp)
    (h0 : cp ≠ 0) (hs : cp < 0xD800 ∨ 0xDFFF < cp) (rest : Bytes) :
    loop (mk S (k :: K) L P b j) (92 :: 117 :: a1 :: a2 :: a3 :: a4 :: rest) =
      loop (mk S (k :: K) L P ((utf8 cp).reverse ++ b) ⟨S, a1, a2, a3, a4, j.wc⟩) rest := by
  obtain ⟨hst, hlt⟩ := strtoul16_hex4 a1 a2 a3 a4 cp h
  have f1 : a1 ≠ 47 ∧ a2 ≠ 47 ∧ a3 ≠ 47 ∧ a4 ≠ 47 ∧ a1 ≠ 0 ∧ a2 ≠ 0 ∧ a3 ≠ 0 ∧ a4 ≠ 0 := by
    unfold hex4 at h
    cases ha : hexDig a1 <;> simp [ha] at h
    cases hb : hexDig a2 <;> simp [hb] at h
    cases hc : hexDig a3 <;> simp [hc] at h
    cases hd : hexDig a4 <;> simp [hd] at h
    have := hexDig_facts ha; have := hexDig_facts hb; have := hexDig_facts hc; have := hexDig_facts hd
    simp_all
  obtain ⟨n1, n2, n3, n4, z1, z2, z3, z4⟩ := f1
  rw [loop_next (q := mk .ESCAPE (k :: K) L P b { j with pv := S }) _
    (by rcases hS with rfl | rfl <;> simp [body, dispatch, next])]
  rw [loop_next (q := mk .UNICODECHAR (k :: K) L P b { j with pv := S }) _ (by simp [body, dispatch, next])]
  rw [loop_next (q := ⟨.UNICODECHAR, S, k :: K, L, P, b, false, 1, [a1, j.u1, j.u2, j.u3], j.wc⟩) _
    (by simp [body, dispatch, unicodeChar, n1, next])]
  rw [loop_next (q := ⟨.UNICODECHAR, S, k :: K, L, P, b, false, 2, [a1, a2, j.u2, j.u3], j.wc⟩) _
    (by simp [body, dispatch, unicodeChar, n2, next])]
  rw [loop_next (q := ⟨.UNICODECHAR, S, k :: K, L, P, b, false, 3, [a1, a2, a3, j.u3], j.wc⟩) _
    (by simp [body, dispatch, unicodeChar, n3, next])]
  apply loop_next
  have hc4 : cstr [a1, a2, a3, a4] = [a1, a2, a3, a4] := by
    rw [cstr_cons _ _ z1, cstr_cons _ _ z2, cstr_cons _ _ z3, cstr_cons _ _ z4]; rfl
  have hw : toWchar (strtoul16 [a1, a2, a3, a4]) = (cp : Int) := by rw [hst, toWchar_small cp hlt]
  have hcond : (cp : Int) < 0xd800 ∨ (cp : Int) ≥ 0xdc00 := by omega
  simp [body, dispatch, unicodeChar, n4, next, hc4, hw, hcond, pushStr, utf16_bmp cp h0 hlt hs,
    utf8_nonzero cp h0 (by omega)]


theorem hex4_facts {a1 a2 a3 a4 : UInt8} {cp : Nat} (h : hex4 a1 a2 a3 a4 = some cp) :
    a1 ≠ 47 ∧ a2 ≠ 47 ∧ a3 ≠ 47 ∧ a4 ≠ 47 ∧ a1 ≠ 0 ∧ a2 ≠ 0 ∧ a3 ≠ 0 ∧ a4 ≠ 0 := by
  unfold hex4 at h
  cases ha : hexDig a1 <;> simp [ha] at h
  cases hb : hexDig a2 <;> simp [hb] at h
  cases hc : hexDig a3 <;> simp [hc] at h
  cases hd : hexDig a4 <;> simp [hd] at h
  have := hexDig_facts ha; have := hexDig_facts hb; have := hexDig_facts hc; have := hexDig_facts hd
  simp_all

theorem chars_pair_step (S : St) (hS : S = .STRING ∨ S = .QPROPERTY) (k : Ctx) (K : List Ctx) (L : List Open)
    (P : List Bytes) (b : Bytes) (j : Junk) (a1 a2 a3 a4 b1 b2 b3 b4 : UInt8) (hi lo : Nat)
    (hh : hex4 a1 a2 a3 a4 = some hi) (hl : hex4 b1 b2 b3 b4 = some lo)
    (h1 : 0xD800 ≤ hi) (h2 : hi ≤ 0xDBFF) (h3 : 0xDC00 ≤ lo) (h4 : lo ≤ 0xDFFF) (rest : Bytes) :
    loop (mk S (k :: K) L P b j)
        (92 :: 117 :: a1 :: a2 :: a3 :: a4 :: 92 :: 117 :: b1 :: b2 :: b3 :: b4 :: rest) =
      loop (mk S (k :: K) L P ((utf8 (0x10000 + (hi - 0xD800) * 0x400 + (lo - 0xDC00))).reverse ++ b)
        ⟨S, b1, b2, b3, b4, (hi : Int)⟩) rest := by
  obtain ⟨hst, hlt⟩ := strtoul16_hex4 a1 a2 a3 a4 hi hh
  obtain ⟨hst2, hlt2⟩ := strtoul16_hex4 b1 b2 b3 b4 lo hl
  obtain ⟨n1, n2, n3, n4, z1, z2, z3, z4⟩ := hex4_facts hh
  obtain ⟨m1, m2, m3, m4, y1, y2, y3, y4⟩ := hex4_facts hl
  have hc4 : cstr [a1, a2, a3, a4] = [a1, a2, a3, a4] := by
    rw [cstr_cons _ _ z1, cstr_cons _ _ z2, cstr_cons _ _ z3, cstr_cons _ _ z4]; rfl
  have hc4' : cstr [b1, b2, b3, b4] = [b1, b2, b3, b4] := by
    rw [cstr_cons _ _ y1, cstr_cons _ _ y2, cstr_cons _ _ y3, cstr_cons _ _ y4]; rfl
  have hw : toWchar (strtoul16 [a1, a2, a3, a4]) = (hi : Int) := by rw [hst, toWchar_small hi hlt]
  have hw2 : toWchar (strtoul16 [b1, b2, b3, b4]) = (lo : Int) := by rw [hst2, toWchar_small lo hlt2]
  have hcond : ¬ ((hi : Int) < 0xd800 ∨ (hi : Int) ≥ 0xdc00) := by omega
  rw [loop_next (q := mk .ESCAPE (k :: K) L P b { j with pv := S }) _
    (by rcases hS with rfl | rfl <;> simp [body, dispatch, next])]
  rw [loop_next (q := mk .UNICODECHAR (k :: K) L P b { j with pv := S }) _ (by simp [body, dispatch, next])]
  rw [loop_next (q := ⟨.UNICODECHAR, S, k :: K, L, P, b, false, 1, [a1, j.u1, j.u2, j.u3], j.wc⟩) _
    (by simp [body, dispatch, unicodeChar, n1, next])]
  rw [loop_next (q := ⟨.UNICODECHAR, S, k :: K, L, P, b, false, 2, [a1, a2, j.u2, j.u3], j.wc⟩) _
    (by simp [body, dispatch, unicodeChar, n2, next])]
  rw [loop_next (q := ⟨.UNICODECHAR, S, k :: K, L, P, b, false, 3, [a1, a2, a3, j.u3], j.wc⟩) _
    (by simp [body, dispatch, unicodeChar, n3, next])]
  rw [loop_next (q := ⟨S, S, k :: K, L, P, b, false, 4, [a1, a2, a3, a4], (hi : Int)⟩) _
    (by simp [body, dispatch, unicodeChar, n4, next, hc4, hw, hcond])]
  rw [loop_next (q := ⟨.ESCAPE, S, k :: K, L, P, b, false, 4, [a1, a2, a3, a4], (hi : Int)⟩) _
    (by rcases hS with rfl | rfl <;> simp [body, dispatch, next])]
  rw [loop_next (q := ⟨.UNICODECHAR, S, k :: K, L, P, b, false, 4, [a1, a2, a3, a4], (hi : Int)⟩) _
    (by simp [body, dispatch, next])]
  rw [loop_next (q := ⟨.UNICODECHAR, S, k :: K, L, P, b, false, 5, [b1, a2, a3, a4], (hi : Int)⟩) _
    (by simp [body, dispatch, unicodeChar, m1, next])]
  rw [loop_next (q := ⟨.UNICODECHAR, S, k :: K, L, P, b, false, 6, [b1, b2, a3, a4], (hi : Int)⟩) _
    (by simp [body, dispatch, unicodeChar, m2, next])]
  rw [loop_next (q := ⟨.UNICODECHAR, S, k :: K, L, P, b, false, 7, [b1, b2, b3, a4], (hi : Int)⟩) _
    (by simp [body, dispatch, unicodeChar, m3, next])]
  apply loop_next
  have hcp : 0x10000 + (hi - 0xD800) * 0x400 + (lo - 0xDC00) ≠ 0 := by omega
  simp [body, dispatch, unicodeChar, m4, next, hc4', hw2, pushStr, utf16_pair hi lo h1 h2 h3 h4,
    utf8_nonzero _ hcp (by omega)]


theorem chars_ok (S : St) (hS : S = .STRING ∨ S = .QPROPERTY) (k : Ctx) (K : List Ctx) (L : List Open) (P : List Bytes)
    (s w : Bytes) (hc : Chars s w) : ∀ (b : Bytes) (j : Junk) (rest : Bytes), ∃ j',
    loop (mk S (k :: K) L P b j) (w ++ rest) = loop (mk S (k :: K) L P (s.reverse ++ b) j') rest := by
  induction hc with
  | nil => intro b j rest; exact ⟨j, rfl⟩
  | plain c s w hu _ ih =>
    intro b j rest
    obtain ⟨j', h⟩ := ih (c :: b) j rest
    exact ⟨j', by rw [List.cons_append, chars_plain_step S hS k K L P b j c hu, h]; simp⟩
  | esc e d s w he _ ih =>
    intro b j rest
    obtain ⟨j', h⟩ := ih (d :: b) { j with pv := S } rest
    exact ⟨j', by rw [List.cons_append, List.cons_append, chars_esc_step S hS k K L P b j e d he, h]; simp⟩
  | uni a1 a2 a3 a4 cp s w hh h0 hs _ ih =>
    intro b j rest
    obtain ⟨j', h⟩ := ih ((utf8 cp).reverse ++ b) ⟨S, a1, a2, a3, a4, j.wc⟩ rest
    refine ⟨j', ?_⟩
    simp only [List.cons_append]
    rw [chars_uni_step S hS k K L P b j a1 a2 a3 a4 cp hh h0 hs, h]
    simp
  | pair a1 a2 a3 a4 b1 b2 b3 b4 hi lo s w hh hl h1 h2 h3 h4 _ ih =>
    intro b j rest
    obtain ⟨j', h⟩ := ih ((utf8 (0x10000 + (hi - 0xD800) * 0x400 + (lo - 0xDC00))).reverse ++ b)
      ⟨S, b1, b2, b3, b4, (hi : Int)⟩ rest
    refine ⟨j', ?_⟩
    simp only [List.cons_append]
    rw [chars_pair_step S hS k K L P b j a1 a2 a3 a4 b1 b2 b3 b4 hi lo hh hl h1 h2 h3 h4, h]
    simp

/-- a complete string value -/
theorem string_ok (s w : Bytes) (hc : Chars s w) (k : Ctx) (K : List Ctx) (L : List Open) (P : List Bytes) (j : Junk)
    (rest : Bytes) (L' : List Open) (P' : List Bytes) (h : putLP L P (.str s) = some (L', P')) : ∃ j',
    loop (mk .WAIT_VALUE (k :: K) L P [] j) (34 :: w ++ 34 :: rest) =
      loop (mk (endSt (k :: K)) (k :: K) L' P' [] j') rest := by
  obtain ⟨j', hj⟩ := chars_ok .STRING (Or.inl rfl) k K L P s w hc [] j (34 :: rest)
  refine ⟨j', ?_⟩
  rw [List.cons_append, loop_next (q := mk .STRING (k :: K) L P [] j) _
    (by simp [body, dispatch, waitValue, isDigit, next]), hj]
  apply loop_next
  have := scalar_mk .STRING k K L P (s.reverse ++ []) j' (.str s) L' P' h
  simp at this
  simp [body, dispatch, buf, this, next]

/-- a member name up to and including the name separator: `"name" ws :` -/
theorem name_ok (s w : Bytes) (hc : Chars s w) (k : Ctx) (K : List Ctx) (L : List Open) (P : List Bytes) (j : Junk)
    (b rest : Bytes) (hb : Ws b) : ∃ j',
    loop (mk .WAIT_PROPERTY (k :: K) L P [] j) (34 :: w ++ 34 :: b ++ 58 :: rest) =
      loop (mk .WAIT_VALUE (k :: K) L (s :: P) [] j') rest := by
  obtain ⟨j', hj⟩ := chars_ok .QPROPERTY (Or.inr rfl) k K L P s w hc [] j (34 :: b ++ 58 :: rest)
  refine ⟨j', ?_⟩
  have e0 : 34 :: w ++ 34 :: b ++ 58 :: rest = 34 :: (w ++ (34 :: b ++ 58 :: rest)) := by simp
  rw [e0, loop_next (q := mk .QPROPERTY (k :: K) L P [] j) _
    (by simp [body, dispatch, waitProperty, isAlnum, next]), hj]
  have e1 : 34 :: b ++ 58 :: rest = 34 :: (b ++ 58 :: rest) := by simp
  rw [e1, loop_next (q := mk .WAIT_EQUAL (k :: K) L (s :: P) [] j') _
    (by simp [body, dispatch, buf, next])]
  rw [ws_skip .WAIT_EQUAL (by simp) k K L (s :: P) j' b _ hb]
  apply loop_next
  simp [body, dispatch, next]


/-! ## separators and containers -/

/-- the states after a value inside an array, reading white space -/
def sepA (s : St) : Prop := s = .WAIT_SEP ∨ s = .WAIT_COMMA_OR_VALUE
/-- the states after a member inside an object, reading white space -/
def sepO (s : St) : Prop := s = .WAIT_SEP ∨ s = .WAIT_COMMA_OR_PROPERTY

theorem sepA_ws (K : List Ctx) (L : List Open) (P : List Bytes) (j : Junk) (b : Bytes) (hb : Ws b) :
    ∀ (s : St) (rest : Bytes), sepA s → ∃ s', sepA s' ∧
    loop (mk s (.ARRAY :: K) L P [] j) (b ++ rest) = loop (mk s' (.ARRAY :: K) L P [] j) rest := by
  induction b with
  | nil => intro s rest hs; exact ⟨s, hs, rfl⟩
  | cons c b ih =>
    intro s rest hs
    have hc := hb c (by simp)
    have hb' : Ws b := fun x hx => hb x (by simp [hx])
    have step : ∃ s1, sepA s1 ∧ loop (mk s (.ARRAY :: K) L P [] j) (c :: (b ++ rest)) =
        loop (mk s1 (.ARRAY :: K) L P [] j) (b ++ rest) := by
      rcases hs with rfl | rfl
      · rcases hc with rfl | rfl | rfl | rfl
        · exact ⟨.WAIT_SEP, Or.inl rfl, loop_next _ (by simp [body, dispatch, isSpace, next])⟩
        · exact ⟨.WAIT_SEP, Or.inl rfl, loop_next _ (by simp [body, dispatch, isSpace, next])⟩
        · exact ⟨.WAIT_COMMA_OR_VALUE, Or.inr rfl, loop_next _ (by simp [body, dispatch, isSpace, next])⟩
        · exact ⟨.WAIT_SEP, Or.inl rfl, loop_next _ (by simp [body, dispatch, isSpace, next])⟩
      · refine ⟨.WAIT_COMMA_OR_VALUE, Or.inr rfl, loop_next _ ?_⟩
        rcases hc with rfl | rfl | rfl | rfl <;> simp [body, dispatch, waitValue, isDigit, isAlnum, isSpace, next]
    obtain ⟨s1, hs1, e1⟩ := step
    obtain ⟨s2, hs2, e2⟩ := ih hb' s1 rest hs1
    exact ⟨s2, hs2, by rw [List.cons_append, e1, e2]⟩

theorem sepO_ws (K : List Ctx) (L : List Open) (P : List Bytes) (j : Junk) (b : Bytes) (hb : Ws b) :
    ∀ (s : St) (rest : Bytes), sepO s → ∃ s', sepO s' ∧
    loop (mk s (.OBJECT :: K) L P [] j) (b ++ rest) = loop (mk s' (.OBJECT :: K) L P [] j) rest := by
  induction b with
  | nil => intro s rest hs; exact ⟨s, hs, rfl⟩
  | cons c b ih =>
    intro s rest hs
    have hc := hb c (by simp)
    have hb' : Ws b := fun x hx => hb x (by simp [hx])
    have step : ∃ s1, sepO s1 ∧ loop (mk s (.OBJECT :: K) L P [] j) (c :: (b ++ rest)) =
        loop (mk s1 (.OBJECT :: K) L P [] j) (b ++ rest) := by
      rcases hs with rfl | rfl
      · rcases hc with rfl | rfl | rfl | rfl
        · exact ⟨.WAIT_SEP, Or.inl rfl, loop_next _ (by simp [body, dispatch, isSpace, next])⟩
        · exact ⟨.WAIT_SEP, Or.inl rfl, loop_next _ (by simp [body, dispatch, isSpace, next])⟩
        · exact ⟨.WAIT_COMMA_OR_PROPERTY, Or.inr rfl, loop_next _ (by simp [body, dispatch, isSpace, next])⟩
        · exact ⟨.WAIT_SEP, Or.inl rfl, loop_next _ (by simp [body, dispatch, isSpace, next])⟩
      · refine ⟨.WAIT_COMMA_OR_PROPERTY, Or.inr rfl, loop_next _ ?_⟩
        rcases hc with rfl | rfl | rfl | rfl <;> simp [body, dispatch, waitProperty, isAlnum, isSpace, next]
    obtain ⟨s1, hs1, e1⟩ := step
    obtain ⟨s2, hs2, e2⟩ := ih hb' s1 rest hs1
    exact ⟨s2, hs2, by rw [List.cons_append, e1, e2]⟩

theorem sepA_comma (K : List Ctx) (L : List Open) (P : List Bytes) (j : Junk) (s : St) (hs : sepA s) (rest : Bytes) :
    loop (mk s (.ARRAY :: K) L P [] j) (44 :: rest) = loop (mk .WAIT_VALUE (.ARRAY :: K) L P [] j) rest := by
  apply loop_next
  rcases hs with rfl | rfl <;> simp [body, dispatch, next]

theorem sepO_comma (K : List Ctx) (L : List Open) (P : List Bytes) (j : Junk) (s : St) (hs : sepO s) (rest : Bytes) :
    loop (mk s (.OBJECT :: K) L P [] j) (44 :: rest) = loop (mk .WAIT_PROPERTY (.OBJECT :: K) L P [] j) rest := by
  apply loop_next
  rcases hs with rfl | rfl <;> simp [body, dispatch, next]

/-- `]` after the last element (or in an empty array, state WAIT_VALUE) -/
theorem close_array (k : Ctx) (K : List Ctx) (rev : List JV) (L : List Open) (P : List Bytes) (j : Junk) (s : St)
    (hs : sepA s ∨ s = .WAIT_VALUE) (rest : Bytes) (L' : List Open) (P' : List Bytes)
    (h : putLP L P (.arr rev.reverse) = some (L', P')) :
    loop (mk s (.ARRAY :: k :: K) (.arr rev :: L) P [] j) (93 :: rest) =
      loop (mk (endSt (k :: K)) (k :: K) L' P' [] j) rest := by
  apply loop_next
  have := closeContainer_mk s .ARRAY k K (.arr rev) L P [] j L' P' (by simpa [closed] using h)
  rcases hs with (rfl | rfl) | rfl <;>
    simp [body, dispatch, waitValue, isDigit, isAlnum, this, next]

/-- `}` after the last member (or in an empty object, state WAIT_PROPERTY) -/
theorem close_object (k : Ctx) (K : List Ctx) (ms : List (Bytes × JV)) (L : List Open) (P : List Bytes) (j : Junk)
    (s : St) (hs : sepO s ∨ s = .WAIT_PROPERTY) (rest : Bytes) (L' : List Open) (P' : List Bytes)
    (h : putLP L P (.obj ms) = some (L', P')) :
    loop (mk s (.OBJECT :: k :: K) (.obj ms :: L) P [] j) (125 :: rest) =
      loop (mk (endSt (k :: K)) (k :: K) L' P' [] j) rest := by
  apply loop_next
  have := closeContainer_mk s .OBJECT k K (.obj ms) L P [] j L' P' (by simpa [closed] using h)
  rcases hs with (rfl | rfl) | rfl <;>
    simp [body, dispatch, waitProperty, isAlnum, this, next]

theorem open_array (k : Ctx) (K : List Ctx) (L : List Open) (P : List Bytes) (j : Junk) (rest : Bytes)
    (hd : L.length ≤ 1000) :
    loop (mk .WAIT_VALUE (k :: K) L P [] j) (91 :: rest) =
      loop (mk .WAIT_VALUE (.ARRAY :: k :: K) (.arr [] :: L) P [] j) rest := by
  apply loop_next
  have : ¬ L.length > maxDepth := by simp [maxDepth]; omega
  simp [body, dispatch, waitValue, isDigit, this, next]

theorem open_object (k : Ctx) (K : List Ctx) (L : List Open) (P : List Bytes) (j : Junk) (rest : Bytes)
    (hd : L.length ≤ 1000) :
    loop (mk .WAIT_VALUE (k :: K) L P [] j) (123 :: rest) =
      loop (mk .WAIT_PROPERTY (.OBJECT :: k :: K) (.obj [] :: L) P [] j) rest := by
  apply loop_next
  have : ¬ L.length > maxDepth := by simp [maxDepth]; omega
  simp [body, dispatch, waitValue, isDigit, this, next, beginObject, buf]

theorem head_delim (b : Bytes) (hb : Ws b) (c : UInt8) (hc : c = 44 ∨ c = 93 ∨ c = 125) (t : Bytes) :
    ∃ d r, isDelim d ∧ b ++ c :: t = d :: r := by
  cases b with
  | nil =>
    refine ⟨c, t, ?_, rfl⟩
    rcases hc with rfl | rfl | rfl <;> simp [isDelim]
  | cons x b =>
    refine ⟨x, b ++ c :: t, ?_, rfl⟩
    rcases hb x (by simp) with rfl | rfl | rfl | rfl <;> simp [isDelim]

end AslProofs.XdlRfc
