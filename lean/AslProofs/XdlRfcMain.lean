import AslProofs.XdlRfc
import AslProofs.XdlChunks
set_option linter.unusedSimpArgs false
set_option linter.unusedVariables false
namespace AslProofs.XdlRfc
open AslModel.Xdl AslProofs.Xdl Rfc8259

mutual
/-- every JSON value followed by a delimiter is delivered, normalised, to the open container -/
theorem value_ok {v : JV} {x : Bytes} : (h : SerV v x) → ∀ (k : Ctx) (K : List Ctx) (L : List Open) (P : List Bytes)
    (j : Junk) (d : UInt8) (rest : Bytes), isDelim d → L.length + depth v ≤ 1001 → ∀ (L' : List Open) (P' : List Bytes),
    putLP L P (norm v) = some (L', P') → ∃ j',
    loop (mk .WAIT_VALUE (k :: K) L P [] j) (x ++ d :: rest) =
      loop (mk (endSt (k :: K)) (k :: K) L' P' [] j') (d :: rest)
  | .null, k, K, L, P, j, d, rest, hd, _, L', P', hp =>
    ⟨j, literal_ok _ .null (Or.inl ⟨rfl, rfl⟩) k K L P j d rest hd L' P' (by simpa [norm] using hp)⟩
  | .true, k, K, L, P, j, d, rest, hd, _, L', P', hp =>
    ⟨j, literal_ok _ (.bool true) (Or.inr (Or.inl ⟨rfl, rfl⟩)) k K L P j d rest hd L' P' (by simpa [norm] using hp)⟩
  | .false, k, K, L, P, j, d, rest, hd, _, L', P', hp =>
    ⟨j, literal_ok _ (.bool false) (Or.inr (Or.inr ⟨rfl, rfl⟩)) k K L P j d rest hd L' P' (by simpa [norm] using hp)⟩
  | .num lex hn, k, K, L, P, j, d, rest, hd, _, L', P', hp =>
    ⟨j, number_ok lex hn k K L P j d rest hd L' P' hp⟩
  | .str s w hc, k, K, L, P, j, d, rest, hd, _, L', P', hp => by
    obtain ⟨j', h⟩ := string_ok s w hc k K L P j (d :: rest) L' P' (by simpa [norm] using hp)
    exact ⟨j', by simpa using h⟩
  | .arr0 w hw, k, K, L, P, j, d, rest, hd, hdep, L', P', hp => by
    refine ⟨j, ?_⟩
    have hl : L.length ≤ 1000 := by simp [depth] at hdep; omega
    have e0 : (0x5B :: w ++ [0x5D]) ++ d :: rest = 91 :: (w ++ 93 :: d :: rest) := by simp
    rw [e0, open_array k K L P j _ hl, ws_skip .WAIT_VALUE (by simp) .ARRAY (k :: K) _ P j w _ hw]
    exact close_array k K [] L P j .WAIT_VALUE (Or.inr rfl) _ L' P' (by simpa [norm, normL] using hp)
  | .arr vs w he, k, K, L, P, j, d, rest, hd, hdep, L', P', hp => by
    have hl : L.length ≤ 1000 := by simp [depth] at hdep; omega
    have e0 : (0x5B :: w ++ [0x5D]) ++ d :: rest = 91 :: (w ++ 93 :: d :: rest) := by simp
    obtain ⟨j', h⟩ := elems_ok he [] k K L P j (d :: rest) (by simp [depth] at hdep; omega) L' P'
      (by simpa [norm] using hp)
    exact ⟨j', by rw [e0, open_array k K L P j _ hl, h]⟩
  | .obj0 w hw, k, K, L, P, j, d, rest, hd, hdep, L', P', hp => by
    refine ⟨j, ?_⟩
    have hl : L.length ≤ 1000 := by simp [depth] at hdep; omega
    have e0 : (0x7B :: w ++ [0x7D]) ++ d :: rest = 123 :: (w ++ 125 :: d :: rest) := by simp
    rw [e0, open_object k K L P j _ hl, ws_skip .WAIT_PROPERTY (by simp) .OBJECT (k :: K) _ P j w _ hw]
    exact close_object k K [] L P j .WAIT_PROPERTY (Or.inr rfl) _ L' P' (by simpa [norm, normM] using hp)
  | .obj ms w hm, k, K, L, P, j, d, rest, hd, hdep, L', P', hp => by
    have hl : L.length ≤ 1000 := by simp [depth] at hdep; omega
    have e0 : (0x7B :: w ++ [0x7D]) ++ d :: rest = 123 :: (w ++ 125 :: d :: rest) := by simp
    obtain ⟨j', h⟩ := members_ok hm [] k K L P j (d :: rest) (by simp [depth] at hdep; omega) L' P'
      (by simpa [norm] using hp)
    exact ⟨j', by rw [e0, open_object k K L P j _ hl, h]⟩

/-- the elements of a non-empty array up to and including the closing bracket -/
theorem elems_ok {vs : List JV} {w : Bytes} : (h : SerElems vs w) → ∀ (r : List JV) (k : Ctx) (K : List Ctx)
    (L : List Open) (P : List Bytes) (j : Junk) (rest : Bytes), L.length + 1 + depthL vs ≤ 1001 →
    ∀ (L' : List Open) (P' : List Bytes), putLP L P (.arr (r.reverse ++ normL vs)) = some (L', P') → ∃ j',
    loop (mk .WAIT_VALUE (.ARRAY :: k :: K) (.arr r :: L) P [] j) (w ++ 93 :: rest) =
      loop (mk (endSt (k :: K)) (k :: K) L' P' [] j') rest
  | .one v a x b ha hv hb, r, k, K, L, P, j, rest, hdep, L', P', hp => by
    obtain ⟨d, t, hd, ht⟩ := head_delim b hb 93 (by simp) rest
    have e0 : a ++ x ++ b ++ 93 :: rest = a ++ (x ++ d :: t) := by simp [ht]
    obtain ⟨j1, h1⟩ := value_ok hv .ARRAY (k :: K) (.arr r :: L) P j d t hd
      (by simp [depthL] at hdep; simp; omega) (.arr (norm v :: r) :: L) P rfl
    obtain ⟨s', hs', h2⟩ := sepA_ws (k :: K) (.arr (norm v :: r) :: L) P j1 b hb .WAIT_SEP (93 :: rest) (Or.inl rfl)
    refine ⟨j1, ?_⟩
    rw [e0, ws_skip .WAIT_VALUE (by simp) .ARRAY (k :: K) _ P j a _ ha, h1, ← ht]
    have : endSt (.ARRAY :: k :: K) = .WAIT_SEP := rfl
    rw [this, h2]
    exact close_array k K (norm v :: r) L P j1 s' (Or.inl hs') rest L' P' (by simpa [normL] using hp)
  | .cons v vs a x b w ha hv hb hrest, r, k, K, L, P, j, rest, hdep, L', P', hp => by
    obtain ⟨d, t, hd, ht⟩ := head_delim b hb 44 (by simp) (w ++ 93 :: rest)
    have e0 : a ++ x ++ b ++ 0x2C :: w ++ 93 :: rest = a ++ (x ++ d :: t) := by simp [ht]
    obtain ⟨j1, h1⟩ := value_ok hv .ARRAY (k :: K) (.arr r :: L) P j d t hd
      (by simp [depthL] at hdep; simp; omega) (.arr (norm v :: r) :: L) P rfl
    obtain ⟨s', hs', h2⟩ := sepA_ws (k :: K) (.arr (norm v :: r) :: L) P j1 b hb .WAIT_SEP (44 :: (w ++ 93 :: rest)) (Or.inl rfl)
    obtain ⟨j2, h3⟩ := elems_ok hrest (norm v :: r) k K L P j1 rest (by simp [depthL] at hdep; omega) L' P'
      (by simpa [normL] using hp)
    refine ⟨j2, ?_⟩
    rw [e0, ws_skip .WAIT_VALUE (by simp) .ARRAY (k :: K) _ P j a _ ha, h1, ← ht]
    have : endSt (.ARRAY :: k :: K) = .WAIT_SEP := rfl
    rw [this, h2, sepA_comma (k :: K) _ P j1 s' hs', h3]

/-- the members of a non-empty object up to and including the closing brace -/
theorem members_ok {ms : List (Bytes × JV)} {w : Bytes} : (h : SerMembers ms w) → ∀ (acc : List (Bytes × JV)) (k : Ctx)
    (K : List Ctx) (L : List Open) (P : List Bytes) (j : Junk) (rest : Bytes), L.length + 1 + depthM ms ≤ 1001 →
    ∀ (L' : List Open) (P' : List Bytes), putLP L P (.obj (normM ms acc)) = some (L', P') → ∃ j',
    loop (mk .WAIT_PROPERTY (.OBJECT :: k :: K) (.obj acc :: L) P [] j) (w ++ 125 :: rest) =
      loop (mk (endSt (k :: K)) (k :: K) L' P' [] j') rest
  | .one key v a kw b c x dd ha hk hb hc hv hdd, acc, k, K, L, P, j, rest, hdep, L', P', hp => by
    obtain ⟨d, t, hd, ht⟩ := head_delim dd hdd 125 (by simp) rest
    have e0 : a ++ 0x22 :: kw ++ 0x22 :: b ++ 0x3A :: c ++ x ++ dd ++ 125 :: rest =
        a ++ (34 :: kw ++ 34 :: b ++ 58 :: (c ++ (x ++ d :: t))) := by simp [ht]
    obtain ⟨j0, h0⟩ := name_ok key kw hk .OBJECT (k :: K) (.obj acc :: L) P j b (c ++ (x ++ d :: t)) hb
    obtain ⟨j1, h1⟩ := value_ok hv .OBJECT (k :: K) (.obj acc :: L) (key :: P) j0 d t hd
      (by simp [depthM] at hdep; simp; omega) (.obj (objSet acc key (norm v)) :: L) P rfl
    obtain ⟨s', hs', h2⟩ := sepO_ws (k :: K) (.obj (objSet acc key (norm v)) :: L) P j1 dd hdd .WAIT_SEP (125 :: rest) (Or.inl rfl)
    refine ⟨j1, ?_⟩
    rw [e0, ws_skip .WAIT_PROPERTY (by simp) .OBJECT (k :: K) _ P j a _ ha, h0,
      ws_skip .WAIT_VALUE (by simp) .OBJECT (k :: K) _ (key :: P) j0 c _ hc, h1, ← ht]
    have : endSt (.OBJECT :: k :: K) = .WAIT_SEP := rfl
    rw [this, h2]
    exact close_object k K _ L P j1 s' (Or.inl hs') rest L' P' (by simpa [normM] using hp)
  | .cons key v ms a kw b c x dd w ha hk hb hc hv hdd hrest, acc, k, K, L, P, j, rest, hdep, L', P', hp => by
    obtain ⟨d, t, hd, ht⟩ := head_delim dd hdd 44 (by simp) (w ++ 125 :: rest)
    have e0 : a ++ 0x22 :: kw ++ 0x22 :: b ++ 0x3A :: c ++ x ++ dd ++ 0x2C :: w ++ 125 :: rest =
        a ++ (34 :: kw ++ 34 :: b ++ 58 :: (c ++ (x ++ d :: t))) := by simp [ht]
    obtain ⟨j0, h0⟩ := name_ok key kw hk .OBJECT (k :: K) (.obj acc :: L) P j b (c ++ (x ++ d :: t)) hb
    obtain ⟨j1, h1⟩ := value_ok hv .OBJECT (k :: K) (.obj acc :: L) (key :: P) j0 d t hd
      (by simp [depthM] at hdep; simp; omega) (.obj (objSet acc key (norm v)) :: L) P rfl
    obtain ⟨s', hs', h2⟩ := sepO_ws (k :: K) (.obj (objSet acc key (norm v)) :: L) P j1 dd hdd .WAIT_SEP
      (44 :: (w ++ 125 :: rest)) (Or.inl rfl)
    obtain ⟨j2, h3⟩ := members_ok hrest (objSet acc key (norm v)) k K L P j1 rest (by simp [depthM] at hdep; omega) L' P'
      (by simpa [normM] using hp)
    refine ⟨j2, ?_⟩
    rw [e0, ws_skip .WAIT_PROPERTY (by simp) .OBJECT (k :: K) _ P j a _ ha, h0,
      ws_skip .WAIT_VALUE (by simp) .OBJECT (k :: K) _ (key :: P) j0 c _ hc, h1, ← ht]
    have : endSt (.OBJECT :: k :: K) = .WAIT_SEP := rfl
    rw [this, h2, sepO_comma (k :: K) _ P j1 s' hs', h3]
end



/-! ## texts are NUL-free -/

theorem ws_nonul {w : Bytes} (h : Ws w) : (0 : UInt8) ∉ w := by
  intro h0
  rcases h 0 h0 with h | h | h | h <;> simp at h

theorem digits_nonul {w : Bytes} (h : Digits w) : (0 : UInt8) ∉ w := by
  intro h0
  have := h 0 h0
  simp [isDig] at this

theorem number_nonul {w : Bytes} (h : Number w) : (0 : UInt8) ∉ w := by
  cases h with
  | mk minus ip fr ex hm hip hfr hex =>
    have h1 : (0 : UInt8) ∉ minus := by rcases hm with rfl | rfl <;> simp
    have h2 : (0 : UInt8) ∉ ip := digits_nonul (intpart_digits hip).2
    have h3 : (0 : UInt8) ∉ fr := by
      cases hfr with
      | none => simp
      | some d ds hd hds =>
        have := digits_nonul hds
        have hd0 : d ≠ 0 := by intro h; subst h; simp [isDig] at hd
        simp [this, Ne.symm hd0]
    have h4 : (0 : UInt8) ∉ ex := by
      cases hex with
      | none => simp
      | some e sgn d ds he hs hd hds =>
        have := digits_nonul hds
        have hd0 : d ≠ 0 := by intro h; subst h; simp [isDig] at hd
        rcases he with rfl | rfl <;> rcases hs with rfl | rfl | rfl <;> simp [this, Ne.symm hd0]
    simp [h1, h2, h3, h4]

theorem chars_nonul {s w : Bytes} (h : Chars s w) : (0 : UInt8) ∉ w := by
  induction h with
  | nil => simp
  | plain c s w hu _ ih =>
    have : c ≠ 0 := by intro h0; subst h0; exact absurd hu.1 (by decide)
    simp [ih, Ne.symm this]
  | esc e d s w he _ ih =>
    have : e ≠ 0 := by intro h0; subst h0; simp [simpleEsc] at he
    simp [ih, Ne.symm this]
  | uni a1 a2 a3 a4 cp s w hh _ _ _ ih =>
    obtain ⟨_, _, _, _, z1, z2, z3, z4⟩ := hex4_facts hh
    simp [ih, Ne.symm z1, Ne.symm z2, Ne.symm z3, Ne.symm z4]
  | pair a1 a2 a3 a4 b1 b2 b3 b4 hi lo s w hh hl _ _ _ _ _ ih =>
    obtain ⟨_, _, _, _, z1, z2, z3, z4⟩ := hex4_facts hh
    obtain ⟨_, _, _, _, y1, y2, y3, y4⟩ := hex4_facts hl
    simp [ih, Ne.symm z1, Ne.symm z2, Ne.symm z3, Ne.symm z4, Ne.symm y1, Ne.symm y2, Ne.symm y3, Ne.symm y4]

mutual
theorem serV_nonul {v : JV} {x : Bytes} : SerV v x → (0 : UInt8) ∉ x
  | .null => by simp
  | .true => by simp
  | .false => by simp
  | .num lex hn => number_nonul hn
  | .str s w hc => by have := chars_nonul hc; simp [this]
  | .arr0 w hw => by have := ws_nonul hw; simp [this]
  | .arr vs w he => by have := serE_nonul he; simp [this]
  | .obj0 w hw => by have := ws_nonul hw; simp [this]
  | .obj ms w hm => by have := serM_nonul hm; simp [this]
theorem serE_nonul {vs : List JV} {w : Bytes} : SerElems vs w → (0 : UInt8) ∉ w
  | .one v a x b ha hv hb => by
    have := ws_nonul ha; have := serV_nonul hv; have := ws_nonul hb; simp [*]
  | .cons v vs a x b w ha hv hb hr => by
    have := ws_nonul ha; have := serV_nonul hv; have := ws_nonul hb; have := serE_nonul hr; simp [*]
theorem serM_nonul {ms : List (Bytes × JV)} {w : Bytes} : SerMembers ms w → (0 : UInt8) ∉ w
  | .one k v a kw b c x d ha hk hb hc hv hd => by
    have := ws_nonul ha; have := chars_nonul hk; have := ws_nonul hb; have := ws_nonul hc
    have := serV_nonul hv; have := ws_nonul hd; simp [*]
  | .cons k v ms a kw b c x d w ha hk hb hc hv hd hr => by
    have := ws_nonul ha; have := chars_nonul hk; have := ws_nonul hb; have := ws_nonul hc
    have := serV_nonul hv; have := ws_nonul hd; have := serM_nonul hr; simp [*]
end

/-! ## the whole document -/

def junk0 : Junk := ⟨.WAIT_VALUE, 0, 0, 0, 0, 0⟩

theorem init_mk : init = mk .WAIT_VALUE [.ROOT] [.arr []] [] [] junk0 := rfl

/-- running the decoder over a JSON text and the flushing blank ends in the root state holding the value -/
theorem doc_run (v : JV) (w : Bytes) (h : SerDoc v w) (hd : depth v ≤ 1000) : ∃ j,
    loop init (w ++ [32]) = some (false, mk .WAIT_VALUE [.ROOT] [.arr [norm v]] [] [] j) := by
  obtain ⟨a, x, b, ha, hv, hb, rfl⟩ := h
  have hb32 : Ws (b ++ [32]) := by
    intro c hc
    simp at hc
    rcases hc with hc | rfl
    · exact hb c hc
    · exact Or.inl rfl
  obtain ⟨d, t, hdl, ht⟩ : ∃ d t, isDelim d ∧ b ++ [32] = d :: t := by
    cases b with
    | nil => exact ⟨32, [], Or.inl rfl, rfl⟩
    | cons c b =>
      refine ⟨c, b ++ [32], ?_, rfl⟩
      rcases hb c (by simp) with rfl | rfl | rfl | rfl <;> simp [isDelim]
  obtain ⟨j', h1⟩ := value_ok hv .ROOT [] [.arr []] [] junk0 d t hdl (by simp; omega) [.arr [norm v]] [] rfl
  refine ⟨j', ?_⟩
  have e0 : a ++ x ++ b ++ [32] = a ++ (x ++ d :: t) := by simp [← ht]
  rw [e0, init_mk, ws_skip .WAIT_VALUE (by simp) .ROOT [] _ [] junk0 a _ ha, h1, ← ht]
  have : endSt [Ctx.ROOT] = .WAIT_VALUE := rfl
  rw [this]
  have := ws_skip .WAIT_VALUE (by simp) .ROOT [] [.arr [norm v]] [] j' (b ++ [32]) [] hb32
  simp only [List.append_nil] at this
  rw [this]
  rfl

theorem serDoc_nonul {v : JV} {w : Bytes} (h : SerDoc v w) : (0 : UInt8) ∉ w := by
  obtain ⟨a, x, b, ha, hv, hb, rfl⟩ := h
  have := ws_nonul ha; have := serV_nonul hv; have := ws_nonul hb
  simp [*]

/-- **RFC 8259 acceptance**: every JSON text nested at most 1000 deep decodes to the value it denotes -/
theorem decode_doc (v : JV) (w : Bytes) (h : SerDoc v w) (hd : depth v ≤ 1000) : decode w = some (some (norm v)) := by
  obtain ⟨j, hrun⟩ := doc_run v w h hd
  have hnn := serDoc_nonul h
  rw [loop_append] at hrun
  cases hl : loop init w with
  | none => rw [hl] at hrun; simp at hrun
  | some r =>
    obtain ⟨f, q⟩ := r
    rw [hl] at hrun
    cases f with
    | true => simp at hrun
    | false =>
      simp only at hrun
      have hq : q.state ≠ .ERR := by
        intro he
        have := loop_err [32] q false _ he hrun
        simp at this
      have c32 : cstr [32] = [32] := by decide
      simp [decode, decodeFrom, parse, init, cstr_of_nonul w hnn]
      have hl' : loop init w = some (false, q) := hl
      simp only [init] at hl'
      simp [hl', hq, c32, hrun, value]

end AslProofs.XdlRfc
