import AslProofs.XdlEnc
set_option linter.unusedSimpArgs false
set_option linter.unusedVariables false
set_option linter.unusedSectionVars false
namespace AslProofs.XdlEnc
open AslModel.Xdl Rfc8259

mutual
/-- no object of the tree has two members with the same key (what `Dic` guarantees) -/
def KeysNodup : EV → Prop
  | .arr l => KeysNodupL l
  | .obj ms => (ms.map (·.1)).Nodup ∧ KeysNodupM ms
  | _ => True
def KeysNodupL : List EV → Prop
  | [] => True
  | x :: t => KeysNodup x ∧ KeysNodupL t
def KeysNodupM : List (Bytes × EV) → Prop
  | [] => True
  | (_, v) :: t => KeysNodup v ∧ KeysNodupM t
end

mutual
/-- `Same N v j`: the decoded value `j` has the structure of the tree `v` — same array lengths and
    element order, same members with the same keys in the same order (undefined members dropped), identical
    strings and booleans, null for null/undefined — and every number leaf is related by `N` -/
def Same (N : EV → JV → Prop) : EV → JV → Prop
  | .none, j => j = .null
  | .null, j => j = .null
  | .bool b, j => j = .bool b
  | .str s, j => j = .str s
  | .int i, j => N (.int i) j
  | .num b, j => N (.num b) j
  | .flt b, j => N (.flt b) j
  | .arr l, j => ∃ l', j = .arr l' ∧ SameL N l l'
  | .obj ms, j => ∃ ms', j = .obj ms' ∧ SameM N ms ms'
def SameL (N : EV → JV → Prop) : List EV → List JV → Prop
  | [], l' => l' = []
  | x :: t, l' => ∃ y t', l' = y :: t' ∧ Same N x y ∧ SameL N t t'
def SameM (N : EV → JV → Prop) : List (Bytes × EV) → List (Bytes × JV) → Prop
  | [], ms' => ms' = []
  | (k, v) :: t, ms' => if okV v then ∃ y t', ms' = (k, y) :: t' ∧ Same N v y ∧ SameM N t t' else SameM N t ms'
end

/-- the number clause of the JSON round trip: what a number leaf comes back as -/
def NumJ (g : Nat → UInt64 → Bytes) (m : Mode) : EV → JV → Prop
  | .int i, j => j = .int i ∨ (j = .num (itoa i) ∧ Number (itoa i) ∧ decVal (itoa i) = i)
  | .num b, j => j = norm (denoteReal g (precD m) b)
  | .flt b, j => j = norm (denoteReal g (precF m) b)
  | _, _ => False

section
variable (g : Nat → UInt64 → Bytes) (m : Mode)

mutual
theorem same_json : ∀ (v : EV), WF v → KeysNodup v → Same (NumJ g m) v (norm (denote g m v))
  | .none, _, _ => by simp [Same, denote, norm]
  | .null, _, _ => by simp [Same, denote, norm]
  | .bool b, _, _ => by simp [Same, denote, norm]
  | .str s, _, _ => by simp [Same, denote, norm]
  | .int i, hw, _ => by
    simp only [Same, NumJ]
    rw [norm_denote_int g m i hw.1 hw.2]
    split
    · exact Or.inl rfl
    · exact Or.inr ⟨rfl, itoa_number i hw.1 hw.2, (itoa_spec i hw.1 hw.2).2⟩
  | .num b, _, _ => by simp [Same, NumJ, denote]
  | .flt b, _, _ => by simp [Same, NumJ, denote]
  | .arr l, hw, hk => by
    simp only [Same, denote, norm]
    exact ⟨_, rfl, same_jsonL l hw hk⟩
  | .obj ms, hw, hk => by
    simp only [Same, denote, norm]
    obtain ⟨R, hR, hS⟩ := same_jsonM ms hw hk.2 hk.1 [] (by intro p hp; simp at hp)
    exact ⟨_, rfl, by rw [hR]; simpa using hS⟩
theorem same_jsonL : ∀ (l : List EV), WFL l → KeysNodupL l → SameL (NumJ g m) l (normL (denoteL g m l))
  | [], _, _ => by simp [SameL, denoteL, normL]
  | x :: t, hw, hk => by
    simp only [SameL, denoteL, normL]
    exact ⟨_, _, rfl, same_json x hw.1 hk.1, same_jsonL t hw.2 hk.2⟩
theorem same_jsonM : ∀ (ms : List (Bytes × EV)), WFM ms → KeysNodupM ms → (ms.map (·.1)).Nodup →
    ∀ (acc : List (Bytes × JV)), (∀ p ∈ acc, ∀ q ∈ ms, p.1 ≠ q.1) →
    ∃ R, normM (denoteM g m ms) acc = acc ++ R ∧ SameM (NumJ g m) ms R
  | [], _, _, _, acc, _ => ⟨[], by simp [denoteM, normM], by simp [SameM]⟩
  | (k, v) :: t, hw, hk, hnd, acc, hdis => by
    simp only [List.map_cons, List.nodup_cons] at hnd
    have hdis' : ∀ p ∈ acc, ∀ q ∈ t, p.1 ≠ q.1 := fun p hp q hq => hdis p hp q (by simp [hq])
    cases hok : okV v
    · obtain ⟨R, hR, hS⟩ := same_jsonM t hw.2.2 hk.2 hnd.2 acc hdis'
      exact ⟨R, by simp [denoteM, hok, hR], by simp [SameM, hok, hS]⟩
    · have hfresh : ∀ p ∈ acc, p.1 ≠ k := fun p hp => hdis p hp (k, v) (by simp)
      have hdis2 : ∀ p ∈ acc ++ [(k, norm (denote g m v))], ∀ q ∈ t, p.1 ≠ q.1 := by
        intro p hp q hq
        rcases List.mem_append.mp hp with hp | hp
        · exact hdis' p hp q hq
        · simp at hp; subst hp
          intro heq
          exact hnd.1 (List.mem_map.mpr ⟨q, hq, heq.symm⟩)
      obtain ⟨R, hR, hS⟩ := same_jsonM t hw.2.2 hk.2 hnd.2 _ hdis2
      refine ⟨(k, norm (denote g m v)) :: R, ?_, ?_⟩
      · simp only [denoteM, hok, if_true, normM]
        rw [objSet_fresh acc k _ hfresh, hR]
        simp
      · simp only [SameM, hok, if_true]
        exact ⟨_, _, rfl, same_json v hw.2.1 hk.1, hS⟩
end
end

end AslProofs.XdlEnc
