import AslProofs.XdlSame
import AslProofs.XdlXP
set_option linter.unusedSimpArgs false
set_option linter.unusedVariables false
set_option linter.unusedSectionVars false
namespace AslProofs.XdlX
open AslModel.Xdl AslProofs.XdlEnc Rfc8259

mutual
/-- as `Same`, for XDL: the class name comes back as a first member `$type`, the `$type` member itself and
    undefined members are not written -/
def SameX (N : EV → JV → Prop) : EV → JV → Prop
  | .none, j => j = .null
  | .null, j => j = .null
  | .bool b, j => j = .bool b
  | .str s, j => j = .str s
  | .int i, j => N (.int i) j
  | .num b, j => N (.num b) j
  | .flt b, j => N (.flt b) j
  | .arr l, j => ∃ l', j = .arr l' ∧ SameXL N l l'
  | .obj ms, j => ∃ ms', j = .obj ((match classOf ms with | some c => [(classKey, JV.str c)] | none => []) ++ ms') ∧
      SameXM N ms ms'
def SameXL (N : EV → JV → Prop) : List EV → List JV → Prop
  | [], l' => l' = []
  | x :: t, l' => ∃ y t', l' = y :: t' ∧ SameX N x y ∧ SameXL N t t'
def SameXM (N : EV → JV → Prop) : List (Bytes × EV) → List (Bytes × JV) → Prop
  | [], ms' => ms' = []
  | (k, v) :: t, ms' =>
    if okV v && !skipCls k v then ∃ y t', ms' = (k, y) :: t' ∧ SameX N v y ∧ SameXM N t t' else SameXM N t ms'
end

/-- with distinct keys, the `$type` member that gives the class name is the only `$type` member -/
theorem classOf_unique : ∀ (ms : List (Bytes × EV)) (c : Bytes), classOf ms = some c → (ms.map (·.1)).Nodup →
    ∀ q ∈ ms, q.1 = classKey → skipCls q.1 q.2 = true
  | [], _, _, _ => by intro q hq; simp at hq
  | (k, v) :: t, c, hc, hnd => by
    simp only [List.map_cons, List.nodup_cons] at hnd
    intro q hq hqk
    simp only [classOf] at hc
    rcases List.mem_cons.mp hq with rfl | hq
    · simp only at hqk
      simp only [hqk, if_true] at hc
      simp [skipCls, hqk, hc]
    · split at hc
      · rename_i hk
        exact absurd (List.mem_map.mpr ⟨q, hq, by rw [hqk, hk]⟩) hnd.1
      · exact classOf_unique t c hc hnd.2 q hq hqk

section
variable (g : Nat → UInt64 → Bytes) (m : Mode)

mutual
theorem same_xdl : ∀ (v : EV), WFX v → KeysNodup v → SameX (NumJ g m) v (xnorm g m v)
  | .none, _, _ => by simp [SameX, xnorm]
  | .null, _, _ => by simp [SameX, xnorm]
  | .bool b, _, _ => by simp [SameX, xnorm]
  | .str s, _, _ => by simp [SameX, xnorm]
  | .int i, hw, _ => by
    simp only [SameX, NumJ, xnorm]
    have := norm_denote_int g m i hw.1 hw.2
    simp only [denote] at this
    rw [this]
    split
    · exact Or.inl rfl
    · exact Or.inr ⟨rfl, itoa_number i hw.1 hw.2, (itoa_spec i hw.1 hw.2).2⟩
  | .num b, _, _ => by simp [SameX, NumJ, xnorm]
  | .flt b, _, _ => by simp [SameX, NumJ, xnorm]
  | .arr l, hw, hk => by
    simp only [SameX, xnorm]
    exact ⟨_, rfl, same_xdlL l hw hk⟩
  | .obj ms, hw, hk => by
    simp only [SameX, xnorm]
    cases hc : classOf ms with
    | none =>
      obtain ⟨R, hR, hS⟩ := same_xdlM ms hw hk.2 hk.1 [] (by intro p hp; simp at hp)
      exact ⟨R, by simp only [hR], hS⟩
    | some c =>
      obtain ⟨R, hR, hS⟩ := same_xdlM ms hw hk.2 hk.1 [(classKey, JV.str c)]
        (by intro p hp; simp at hp; subst hp; exact Or.inl ⟨rfl, classOf_unique ms c hc hk.1⟩)
      exact ⟨R, by simp only [hR], hS⟩
theorem same_xdlL : ∀ (l : List EV), WFXL l → KeysNodupL l → SameXL (NumJ g m) l (xnormL g m l)
  | [], _, _ => by simp [SameXL, xnormL]
  | x :: t, hw, hk => by
    simp only [SameXL, xnormL]
    exact ⟨_, _, rfl, same_xdl x hw.1 hk.1, same_xdlL t hw.2 hk.2⟩
/-- `acc` holds at most `$type` and members already written, whose keys differ from those still to come -/
theorem same_xdlM : ∀ (ms : List (Bytes × EV)), WFXM ms → KeysNodupM ms → (ms.map (·.1)).Nodup →
    ∀ (acc : List (Bytes × JV)), (∀ p ∈ acc, (p.1 = classKey ∧ ∀ q ∈ ms, q.1 = classKey → skipCls q.1 q.2 = true) ∨ ∀ q ∈ ms, p.1 ≠ q.1) →
    ∃ R, xnormM g m ms acc = acc ++ R ∧ SameXM (NumJ g m) ms R
  | [], _, _, _, acc, _ => ⟨[], by simp [xnormM], by simp [SameXM]⟩
  | (k, v) :: t, hw, hk, hnd, acc, hdis => by
    simp only [List.map_cons, List.nodup_cons] at hnd
    have hdis' : ∀ p ∈ acc, (p.1 = classKey ∧ ∀ q ∈ t, q.1 = classKey → skipCls q.1 q.2 = true) ∨ ∀ q ∈ t, p.1 ≠ q.1 := by
      intro p hp
      rcases hdis p hp with h | h
      · exact Or.inl ⟨h.1, fun q hq => h.2 q (by simp [hq])⟩
      · exact Or.inr fun q hq => h q (by simp [hq])
    cases hok : (okV v && !skipCls k v)
    · obtain ⟨R, hR, hS⟩ := same_xdlM t hw.2 hk.2 hnd.2 acc hdis'
      exact ⟨R, by simp only [xnormM, hok, Bool.false_eq_true, if_false]; exact hR,
        by simp only [SameXM, hok, Bool.false_eq_true, if_false]; exact hS⟩
    · have hns : skipCls k v = false := by simp at hok; exact hok.2
      have hwv : WFX v := hw.1.2
      have hfresh : ∀ p ∈ acc, p.1 ≠ k := by
        intro p hp
        rcases hdis p hp with h | h
        · intro hpk
          have := h.2 (k, v) (by simp) (by rw [← hpk]; exact h.1)
          simp only at this
          rw [hns] at this; exact absurd this (by simp)
        · exact h (k, v) (by simp)
      have hdis2 : ∀ p ∈ acc ++ [(k, xnorm g m v)], (p.1 = classKey ∧ ∀ q ∈ t, q.1 = classKey → skipCls q.1 q.2 = true) ∨ ∀ q ∈ t, p.1 ≠ q.1 := by
        intro p hp
        rcases List.mem_append.mp hp with hp | hp
        · exact hdis' p hp
        · simp at hp; subst hp
          right
          intro q hq heq
          exact hnd.1 (List.mem_map.mpr ⟨q, hq, heq.symm⟩)
      obtain ⟨R, hR, hS⟩ := same_xdlM t hw.2 hk.2 hnd.2 _ hdis2
      refine ⟨(k, xnorm g m v) :: R, ?_, ?_⟩
      · simp only [xnormM, hok, if_true]
        rw [objSet_fresh acc k _ hfresh, hR]
        simp
      · simp only [SameXM, hok, if_true]
        exact ⟨_, _, rfl, same_xdl v hwv hk.1, hS⟩
end
end

open AslProofs.Xdl AslProofs.XdlRfc

/-- the first byte of any XDL text is ASCII-range punctuation, a digit or a letter — never 0xEF (no BOM) -/
theorem xenc_head_ef (g : Nat → UInt64 → Bytes) (m : Mode) (hj : m.json = false) (hg : H1 g) (v : EV) (lvl : Nat) (hw : WFX v) :
    ∃ c r, enc g m lvl v = c :: r ∧ c ≠ 0xEF := by
  cases v with
  | none => exact ⟨110, _, rfl, by decide⟩
  | null => exact ⟨110, _, rfl, by decide⟩
  | bool b =>
    cases b
    · exact ⟨78, [], by simp [enc, hj], by decide⟩
    · exact ⟨89, [], by simp [enc, hj], by decide⟩
  | int i => simp only [enc]; exact serV_head (SerV.num _ (itoa_number i hw.1 hw.2))
  | num b => simp only [enc]; exact serV_head (encReal_ser g hg _ b)
  | flt b => simp only [enc]; exact serV_head (encReal_ser g hg _ b)
  | str s => exact ⟨34, s.flatMap escByte ++ [34], by simp [enc, encString], by decide⟩
  | arr l => exact ⟨91, _, by simp only [enc, List.cons_append, List.nil_append, List.append_assoc]; rfl, by decide⟩
  | obj ms =>
    simp only [enc, hj, Bool.false_eq_true, if_false]
    cases hc : classOf ms with
    | none => exact ⟨123, _, by simp only [Option.getD_none, List.nil_append, List.cons_append, List.append_assoc]; rfl, by decide⟩
    | some cls =>
      obtain ⟨c0, cs, rfl, hc0, _, _⟩ := classOf_wf ms hw cls hc
      refine ⟨c0, _, by simp only [Option.getD_some, List.cons_append, List.append_assoc]; rfl, ?_⟩
      intro h; subst h
      rcases hc0 with ⟨h1, _⟩ | h1 | h1 <;> simp [isAlnum] at h1

/-- `Xdl::write` then `Xdl::read` through a file of any size = `Xdl::decode ∘ Xdl::encode` (XDL modes) -/
theorem xdl_file_roundtrip (g : Nat → UInt64 → Bytes) (m : Mode) (hj : m.json = false) (hg : H1 g) (v : EV) (hw : WFX v) :
    readFile (writeChunks g m v).flatten = decode (encode g m v) := by
  rw [writeChunks_flatten]
  have hn := xenc_nonul' g m hj hg v 0 hw
  obtain ⟨c, t, hx, hc⟩ := xenc_head_ef g m hj hg v 0 hw
  have h0 : (0 : UInt8) ∉ encode g m v := by
    unfold encode; split <;> simp [hn]
  have hne : encode g m v ≠ [] := by simp [encode, hx]
  rw [readFile_eq_decode _ hne h0]
  have : stripBom (encode g m v) = encode g m v := by
    simp only [encode, hx, List.cons_append]
    unfold stripBom
    split
    · rename_i heq; simp at heq; exact absurd heq.1 hc
    · rfl
  rw [this]

end AslProofs.XdlX
