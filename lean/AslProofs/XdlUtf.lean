import AslProofs.JsonSpec
import AslProofs.Bits
set_option linter.unusedSimpArgs false
namespace AslProofs.XdlRfc
open AslModel.Xdl Rfc8259 AslProofs.Bits

theorem hexDig_hexVal (c : UInt8) : hexVal c = hexDig c := by
  unfold hexVal hexDig
  simp only [UInt8.le_iff_toNat_le, UInt8.toNat_ofNat, UInt8.reduceToNat]
  generalize c.toNat = n
  repeat' split
  all_goals first | rfl | omega


theorem hexDig_facts {c : UInt8} {v : Nat} (h : hexDig c = some v) :
    isCSpace c = false ∧ c ≠ 45 ∧ c ≠ 43 ∧ c ≠ 120 ∧ c ≠ 88 ∧ c ≠ 0 ∧ c ≠ 47 ∧ v < 16 := by
  unfold hexDig at h
  have key : (48 ≤ c.toNat ∧ c.toNat ≤ 57) ∨ (65 ≤ c.toNat ∧ c.toNat ≤ 70) ∨ (97 ≤ c.toNat ∧ c.toNat ≤ 102) := by
    simp only [UInt8.le_iff_toNat_le, UInt8.reduceToNat] at h
    repeat' split at h
    all_goals first | omega | simp at h
  have hv : v < 16 := by
    simp only [UInt8.le_iff_toNat_le, UInt8.reduceToNat] at h
    repeat' split at h
    all_goals first | (simp at h; omega) | simp at h
  refine ⟨?_, ?_, ?_, ?_, ?_, ?_, ?_, hv⟩
  · simp only [isCSpace, UInt8.le_iff_toNat_le, UInt8.reduceToNat, Bool.or_eq_false_iff, Bool.and_eq_false_iff,
      decide_eq_false_iff_not]
    constructor
    · intro h0; subst h0; simp at key
    · omega
  all_goals (intro h0; subst h0; simp at key)

theorem strtoul16_hex4 (a b c d : UInt8) (cp : Nat) (h : hex4 a b c d = some cp) :
    strtoul16 [a, b, c, d] = cp ∧ cp < 65536 := by
  unfold hex4 at h
  cases ha : hexDig a with
  | none => simp [ha] at h
  | some x =>
  cases hb : hexDig b with
  | none => simp [ha, hb] at h
  | some y =>
  cases hc : hexDig c with
  | none => simp [ha, hb, hc] at h
  | some z =>
  cases hd : hexDig d with
  | none => simp [ha, hb, hc, hd] at h
  | some w =>
    simp [ha, hb, hc, hd] at h
    obtain ⟨fa1, fa2, fa3, _, _, _, _, fa8⟩ := hexDig_facts ha
    obtain ⟨_, _, _, fb4, fb5, _, _, fb8⟩ := hexDig_facts hb
    have fc8 := (hexDig_facts hc).2.2.2.2.2.2.2
    have fd8 := (hexDig_facts hd).2.2.2.2.2.2.2
    constructor
    · have e1 : splitSign [a, b, c, d] = (false, [a, b, c, d]) := by
        unfold splitSign
        split
        · rename_i heq; simp at heq; exact absurd heq.1 fa2
        · rename_i heq; simp at heq; exact absurd heq.1 fa3
        · rfl
      have e2 : strip0x [a, b, c, d] = [a, b, c, d] := by
        unfold strip0x
        split
        · rename_i heq; simp at heq; obtain ⟨_, rfl, _⟩ := heq; simp [fb4, fb5]
        · rfl
      unfold strtoul16
      simp only [List.dropWhile_cons, fa1, Bool.false_eq_true, if_false, e1, e2]
      simp [hexPrefixVal, hexDig_hexVal, ha, hb, hc, hd]
      omega
    · omega


theorem lowByte_ofNat (n : Nat) : lowByte (n : Int) = UInt8.ofNat n := by
  unfold lowByte
  apply UInt8.toNat_inj.mp
  simp only [UInt8.toNat_ofNat']
  have : ((n : Int) % 256).toNat = n % 256 := by omega
  rw [this]
  omega

theorem or_hi (a i y : Nat) (hy : y < 2 ^ i) : y ||| (a <<< i) = a * 2 ^ i + y := by
  rw [Nat.or_comm]; exact shl_or a y i hy

theorem b_lead3 (x : Nat) (hx : x < 16) : x ||| 0xE0 = 0xE0 + x := by
  have := or_hi 14 4 x (by omega); simpa [Nat.add_comm] using this
theorem b_lead4 (x : Nat) (hx : x < 8) : x ||| 0xF0 = 0xF0 + x := by
  have := or_hi 30 3 x (by omega); simpa [Nat.add_comm] using this
theorem b_cont (x : Nat) : (x &&& 0x3F) ||| 0x80 = 0x80 + x % 64 := by
  rw [and63]
  have := or_hi 2 6 (x % 64) (by omega); simpa [Nat.add_comm] using this

/-- `utf16toUtf8` of one BMP code unit that is not a surrogate is its UTF-8 encoding -/
theorem utf16_bmp (cp : Nat) (h0 : cp ≠ 0) (hlt : cp < 65536) (hs : cp < 0xD800 ∨ 0xDFFF < cp) :
    utf16toUtf8 [(cp : Int)] 1 = utf8 cp := by
  unfold utf16toUtf8 utf8
  have c0 : ¬ ((cp : Int) = 0) := by omega
  simp only [c0, if_false]
  by_cases h1 : cp < 0x80
  · have : (cp : Int) < 0x80 := by omega
    simp [this, h1, lowByte_ofNat]
  · have n1 : ¬ (cp : Int) < 0x80 := by omega
    simp only [n1, h1, if_false]
    by_cases h2 : cp < 0x800
    · have : (cp : Int) < 0x800 := by omega
      have e1 : (cp : Int) / 64 + 0xC0 = ((0xC0 + cp / 64 : Nat) : Int) := by omega
      have e2 : (cp : Int) % 64 + 0x80 = ((0x80 + cp % 64 : Nat) : Int) := by omega
      simp only [this, h2, if_true]
      rw [e1, e2, lowByte_ofNat, lowByte_ofNat]
      simp
    · have n2 : ¬ (cp : Int) < 0x800 := by omega
      have n3 : (cp : Int) < 0xd800 ∨ (cp : Int) > 0xdfff := by omega
      have n4 : cp < 0x10000 := hlt
      simp only [n2, h2, n3, n4, if_false, if_true, Int.toNat_natCast, Int.ofNat_eq_natCast, lowByte_ofNat]
      simp only [Nat.shiftRight_eq_div_pow]
      rw [b_lead3 _ (by omega), b_cont, b_cont]
      simp

/-- `utf16toUtf8` of a surrogate pair is the UTF-8 encoding of the supplementary code point -/
theorem utf16_pair (hi lo : Nat) (h1 : 0xD800 ≤ hi) (h2 : hi ≤ 0xDBFF) (h3 : 0xDC00 ≤ lo) (h4 : lo ≤ 0xDFFF) :
    utf16toUtf8 [(hi : Int), (lo : Int)] 2 = utf8 (0x10000 + (hi - 0xD800) * 0x400 + (lo - 0xDC00)) := by
  unfold utf16toUtf8 utf8
  have c0 : ¬ ((hi : Int) = 0) := by omega
  have n1 : ¬ (hi : Int) < 0x80 := by omega
  have n2 : ¬ (hi : Int) < 0x800 := by omega
  have n3 : ¬ ((hi : Int) < 0xd800 ∨ (hi : Int) > 0xdfff) := by omega
  have n4 : (hi : Int) < 0xdc00 := by omega
  have n5 : ¬ ((lo : Int) < 0xdc00 ∨ (lo : Int) > 0xdfff) := by omega
  simp only [c0, n1, n2, n3, n4, n5, if_false, if_true, Int.toNat_natCast, Int.ofNat_eq_natCast, lowByte_ofNat]
  have hd : (((hi - 0xd800) <<< 10) ||| (lo - 0xdc00)) + 0x10000 = 0x10000 + (hi - 0xD800) * 0x400 + (lo - 0xDC00) := by
    rw [shl_or _ _ 10 (by omega)]; omega
  rw [hd]
  generalize hcp : 0x10000 + (hi - 0xD800) * 0x400 + (lo - 0xDC00) = cp
  have l1 : 0x10000 ≤ cp := by omega
  have l2 : cp < 0x110000 := by omega
  have m : cp % 2 ^ 32 = cp := Nat.mod_eq_of_lt (by omega)
  have g1 : ¬ cp < 0x80 := by omega
  have g2 : ¬ cp < 0x800 := by omega
  have g3 : ¬ cp < 0x10000 := by omega
  simp only [m, g1, g2, g3, if_false, Nat.shiftRight_eq_div_pow]
  rw [b_lead4 _ (by omega), b_cont, b_cont, b_cont]
  simp [utf16toUtf8]

theorem cstr_cons (x : UInt8) (t : Bytes) (h : x ≠ 0) : cstr (x :: t) = x :: cstr t := by
  simp [cstr, List.takeWhile_cons, h]

theorem utf8_nonzero (cp : Nat) (h0 : cp ≠ 0) (hlt : cp < 0x110000) : cstr (utf8 cp) = utf8 cp := by
  unfold utf8
  have nz : ∀ n : Nat, n % 256 ≠ 0 → UInt8.ofNat n ≠ 0 := by
    intro n hn h
    have := congrArg UInt8.toNat h
    simp at this
    omega
  have e : cstr [] = [] := rfl
  split
  · rw [cstr_cons _ _ (nz _ (by omega)), e]
  split
  · rw [cstr_cons _ _ (nz _ (by omega)), cstr_cons _ _ (nz _ (by omega)), e]
  split
  · rw [cstr_cons _ _ (nz _ (by omega)), cstr_cons _ _ (nz _ (by omega)), cstr_cons _ _ (nz _ (by omega)), e]
  · rw [cstr_cons _ _ (nz _ (by omega)), cstr_cons _ _ (nz _ (by omega)), cstr_cons _ _ (nz _ (by omega)),
      cstr_cons _ _ (nz _ (by omega)), e]

end AslProofs.XdlRfc

namespace AslProofs.XdlRfc
open AslModel.Xdl

theorem utf16_nil (n : Nat) : utf16toUtf8 [] n = [] := by simp [utf16toUtf8]

/-- `utf16toUtf8` on one code unit (any 32-bit value) writes at most 3 bytes before the terminator -/
theorem utf16_len1 (w : Int) : (utf16toUtf8 [w] 1).length ≤ 3 := by
  simp only [utf16toUtf8, utf16_nil]
  repeat' split
  all_goals simp

/-- `utf16toUtf8` on two code units (any values) writes at most 6 bytes before the terminator -/
theorem utf16_len2 (a b : Int) : (utf16toUtf8 [a, b] 2).length ≤ 6 := by
  have h1 := utf16_len1 b
  generalize hx : utf16toUtf8 [b] 1 = x at h1
  have e : ∀ (y : List Int → Nat → Bytes), (if 2 - 1 = 0 then ([] : Bytes) else y [b] (2 - 1)) = y [b] 1 := by
    intro y; simp
  simp only [utf16toUtf8, utf16_nil, Nat.reduceSub, Nat.succ_ne_zero, if_false, hx]
  repeat' split
  all_goals (simp; try omega)

end AslProofs.XdlRfc
