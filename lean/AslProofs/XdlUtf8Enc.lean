import AslProofs.XdlEnc
set_option linter.unusedSimpArgs false
set_option linter.unusedVariables false
set_option linter.unusedSectionVars false
namespace AslProofs.XdlEnc
open AslModel.Xdl Rfc8259

/-- UTF8-tail = %x80-BF -/
def utail (c : UInt8) : Prop := 0x80 ≤ c ∧ c ≤ 0xBF

/-- well-formed UTF-8 (RFC 3629 §4, the ABNF with the overlong / surrogate / > U+10FFFF exclusions) -/
inductive ValidUtf8 : Bytes → Prop
  | nil : ValidUtf8 []
  | one (c : UInt8) (r : Bytes) : c < 0x80 → ValidUtf8 r → ValidUtf8 (c :: r)
  | two (a b : UInt8) (r : Bytes) : 0xC2 ≤ a → a ≤ 0xDF → utail b → ValidUtf8 r → ValidUtf8 (a :: b :: r)
  | three (a b c : UInt8) (r : Bytes) :
      ((a = 0xE0 ∧ 0xA0 ≤ b ∧ b ≤ 0xBF) ∨ (0xE1 ≤ a ∧ a ≤ 0xEC ∧ utail b) ∨ (a = 0xED ∧ 0x80 ≤ b ∧ b ≤ 0x9F) ∨
        (0xEE ≤ a ∧ a ≤ 0xEF ∧ utail b)) → utail c → ValidUtf8 r → ValidUtf8 (a :: b :: c :: r)
  | four (a b c d : UInt8) (r : Bytes) :
      ((a = 0xF0 ∧ 0x90 ≤ b ∧ b ≤ 0xBF) ∨ (0xF1 ≤ a ∧ a ≤ 0xF3 ∧ utail b) ∨ (a = 0xF4 ∧ 0x80 ≤ b ∧ b ≤ 0x8F)) →
      utail c → utail d → ValidUtf8 r → ValidUtf8 (a :: b :: c :: d :: r)

def AllAscii (l : Bytes) : Prop := ∀ c ∈ l, c < 0x80

theorem allAscii_lit (l : Bytes) (h : l.all (fun c => decide (c < 0x80)) = true) : AllAscii l := by
  intro c hc
  have := List.all_eq_true.mp h c hc
  simpa using this

theorem valid_ascii_append (l r : Bytes) (hl : AllAscii l) (hr : ValidUtf8 r) : ValidUtf8 (l ++ r) := by
  induction l with
  | nil => exact hr
  | cons c t ih =>
    exact ValidUtf8.one c _ (hl c (by simp)) (ih (fun x hx => hl x (by simp [hx])))

theorem valid_append (a b : Bytes) (ha : ValidUtf8 a) (hb : ValidUtf8 b) : ValidUtf8 (a ++ b) := by
  induction ha with
  | nil => exact hb
  | one c r hc _ ih => exact ValidUtf8.one c _ hc ih
  | two x y r h1 h2 h3 _ ih => exact ValidUtf8.two x y _ h1 h2 h3 ih
  | three x y z r h1 h2 _ ih => exact ValidUtf8.three x y z _ h1 h2 ih
  | four x y z w r h1 h2 h3 _ ih => exact ValidUtf8.four x y z w _ h1 h2 h3 ih

theorem valid_of_ascii (l : Bytes) (hl : AllAscii l) : ValidUtf8 l := by
  have := valid_ascii_append l [] hl .nil
  simpa using this

theorem hexLow_ascii (n : Nat) (h : n < 16) : hexLow n < 0x80 := by
  have : n = 0 ∨ n = 1 ∨ n = 2 ∨ n = 3 ∨ n = 4 ∨ n = 5 ∨ n = 6 ∨ n = 7 ∨ n = 8 ∨ n = 9 ∨ n = 10 ∨ n = 11 ∨ n = 12
      ∨ n = 13 ∨ n = 14 ∨ n = 15 := by omega
  rcases this with h | h | h | h | h | h | h | h | h | h | h | h | h | h | h | h <;> subst h <;> decide

theorem escByte_ascii (c : UInt8) (hc : c < 0x80) : AllAscii (escByte c) := by
  have two : ∀ a b : UInt8, a < 0x80 → b < 0x80 → AllAscii [a, b] := by
    intro a b ha hb x hx
    simp at hx
    rcases hx with rfl | rfl <;> assumption
  unfold escByte
  split
  · exact two _ _ (by decide) (by decide)
  split
  · exact two _ _ (by decide) (by decide)
  split
  · exact two _ _ (by decide) (by decide)
  split
  · exact two _ _ (by decide) (by decide)
  split
  · exact two _ _ (by decide) (by decide)
  split
  · exact two _ _ (by decide) (by decide)
  split
  · exact two _ _ (by decide) (by decide)
  split
  · rename_i h32
    have hlt : c.toNat < 32 := by simpa [UInt8.lt_iff_toNat_lt] using h32
    have h1 := hexLow_ascii (c.toNat / 16) (by omega)
    have h2 := hexLow_ascii (c.toNat % 16) (by omega)
    intro x hx
    simp at hx
    rcases hx with rfl | rfl | rfl | rfl | rfl
    all_goals first | exact h1 | exact h2 | decide
  · intro x hx
    simp at hx
    subst hx
    exact hc

theorem escByte_high (c : UInt8) (hc : 0x80 ≤ c) : escByte c = [c] := by
  have h : 128 ≤ c.toNat := by simpa [UInt8.le_iff_toNat_le] using hc
  have ne : ∀ k : UInt8, k.toNat < 128 → c ≠ k := by
    intro k hk he; subst he; omega
  unfold escByte
  have n32 : ¬ c < 32 := by simp [UInt8.lt_iff_toNat_lt]; omega
  simp [ne 92 (by decide), ne 34 (by decide), ne 10 (by decide), ne 13 (by decide), ne 9 (by decide), ne 12 (by decide),
    ne 8 (by decide), n32]

/-- escaping keeps a well-formed UTF-8 string well-formed -/
theorem flatMap_escByte_utf8 (s : Bytes) (h : ValidUtf8 s) : ValidUtf8 (s.flatMap escByte) := by
  induction h with
  | nil => exact .nil
  | one c r hc _ ih =>
    simp only [List.flatMap_cons]
    exact valid_ascii_append _ _ (escByte_ascii c hc) ih
  | two a b r h1 h2 h3 _ ih =>
    have ha : (0x80 : UInt8) ≤ a := by
      simp only [UInt8.le_iff_toNat_le, UInt8.reduceToNat] at h1 ⊢; omega
    simp only [List.flatMap_cons, escByte_high a ha, escByte_high b h3.1, List.cons_append, List.nil_append]
    exact ValidUtf8.two a b _ h1 h2 h3 ih
  | three a b c r h1 h2 _ ih =>
    have ha : (0x80 : UInt8) ≤ a := by
      rcases h1 with ⟨rfl, _⟩ | ⟨h, _⟩ | ⟨rfl, _⟩ | ⟨h, _⟩
      · decide
      · simp only [UInt8.le_iff_toNat_le, UInt8.reduceToNat] at h ⊢; omega
      · decide
      · simp only [UInt8.le_iff_toNat_le, UInt8.reduceToNat] at h ⊢; omega
    have hb : (0x80 : UInt8) ≤ b := by
      rcases h1 with ⟨_, h, _⟩ | ⟨_, _, h⟩ | ⟨_, h, _⟩ | ⟨_, _, h⟩
      · simp only [UInt8.le_iff_toNat_le, UInt8.reduceToNat] at h ⊢; omega
      · exact h.1
      · exact h
      · exact h.1
    simp only [List.flatMap_cons, escByte_high a ha, escByte_high b hb, escByte_high c h2.1, List.cons_append, List.nil_append]
    exact ValidUtf8.three a b c _ h1 h2 ih
  | four a b c d r h1 h2 h3 _ ih =>
    have ha : (0x80 : UInt8) ≤ a := by
      rcases h1 with ⟨rfl, _⟩ | ⟨h, _⟩ | ⟨rfl, _⟩
      · decide
      · simp only [UInt8.le_iff_toNat_le, UInt8.reduceToNat] at h ⊢; omega
      · decide
    have hb : (0x80 : UInt8) ≤ b := by
      rcases h1 with ⟨_, h, _⟩ | ⟨_, _, h⟩ | ⟨_, h, _⟩
      · simp only [UInt8.le_iff_toNat_le, UInt8.reduceToNat] at h ⊢; omega
      · exact h.1
      · exact h
    simp only [List.flatMap_cons, escByte_high a ha, escByte_high b hb, escByte_high c h2.1, escByte_high d h3.1,
      List.cons_append, List.nil_append]
    exact ValidUtf8.four a b c d _ h1 h2 h3 ih

/-- `new_string`: a well-formed UTF-8 string is written as well-formed UTF-8 -/
theorem encString_utf8 (s : Bytes) (h : ValidUtf8 s) : ValidUtf8 (encString s) := by
  unfold encString
  refine ValidUtf8.one 34 _ (by decide) (valid_append _ _ (flatMap_escByte_utf8 s h) (valid_of_ascii [34] ?_))
  intro c hc; simp at hc; subst hc; decide


mutual
/-- every string and every key of the tree is well-formed UTF-8 -/
def UtfTree : EV → Prop
  | .str s => ValidUtf8 s
  | .arr l => UtfTreeL l
  | .obj ms => UtfTreeM ms
  | _ => True
def UtfTreeL : List EV → Prop
  | [] => True
  | x :: t => UtfTree x ∧ UtfTreeL t
def UtfTreeM : List (Bytes × EV) → Prop
  | [] => True
  | (k, v) :: t => ValidUtf8 k ∧ UtfTree v ∧ UtfTreeM t
end

theorem digits_ascii {ds : Bytes} (h : Digits ds) : AllAscii ds := by
  intro c hc
  have := (h c hc).2
  simp only [UInt8.le_iff_toNat_le, UInt8.lt_iff_toNat_lt, UInt8.reduceToNat] at this ⊢
  omega

theorem allAscii_append {a b : Bytes} (ha : AllAscii a) (hb : AllAscii b) : AllAscii (a ++ b) := by
  intro c hc
  rcases List.mem_append.mp hc with h | h
  · exact ha c h
  · exact hb c h

theorem number_ascii {lex : Bytes} (h : Number lex) : AllAscii lex := by
  cases h with
  | mk minus ip fr ex hm hip hfr hex =>
    have h1 : AllAscii minus := by
      rcases hm with rfl | rfl <;> intro c hc <;> simp at hc
      subst hc; decide
    have h2 : AllAscii ip := digits_ascii (AslProofs.XdlRfc.intpart_digits hip).2
    have h3 : AllAscii fr := by
      cases hfr with
      | none => intro c hc; simp at hc
      | some d ds hd hds =>
        have : Digits (d :: ds) := by
          intro c hc; simp at hc; rcases hc with rfl | hc
          · exact hd
          · exact hds c hc
        have ha := digits_ascii this
        intro c hc
        simp at hc
        rcases hc with rfl | hc
        · decide
        · exact ha c (by simpa using hc)
    have h4 : AllAscii ex := by
      cases hex with
      | none => intro c hc; simp at hc
      | some e sgn d ds he hs hd hds =>
        have : Digits (d :: ds) := by
          intro c hc; simp at hc; rcases hc with rfl | hc
          · exact hd
          · exact hds c hc
        have ha := digits_ascii this
        have hsg : AllAscii sgn := by
          rcases hs with rfl | rfl | rfl <;> intro c hc <;> simp at hc <;> (subst hc; decide)
        have he' : AllAscii [e] := by
          intro c hc; simp at hc; subst hc; rcases he with rfl | rfl <;> decide
        have := allAscii_append he' (allAscii_append hsg ha)
        simpa using this
    exact allAscii_append (allAscii_append (allAscii_append h1 h2) h3) h4

theorem encReal_ascii (g : Nat → UInt64 → Bytes) (hg : H1 g) (P : Nat) (b : UInt64) : AllAscii (encReal g P b) := by
  unfold encReal
  split
  · split
    · exact allAscii_lit _ (by decide)
    · split <;> exact allAscii_lit _ (by decide)
  · rename_i hf
    have hf' : dFinite b = true := by simpa using hf
    have := hg P b hf'
    rw [fixComma_id _ (number_no_comma this)]
    exact number_ascii this

theorem indent_ascii (n : Nat) : AllAscii (indentOf n) := by
  intro c hc; simp [indentOf] at hc; rw [hc.2]; decide

theorem sep_ascii (m : Mode) : AllAscii (sep1 m) ∧ AllAscii (sep2 m) := by
  constructor
  · unfold sep1; split <;> exact allAscii_lit _ (by decide)
  · unfold sep2; split <;> exact allAscii_lit _ (by decide)

theorem nlindent_ascii (n : Nat) : AllAscii (10 :: indentOf n) := by
  intro c hc; simp at hc; rcases hc with rfl | hc
  · decide
  · exact indent_ascii n c hc

theorem classOf_utf8 (ms : List (Bytes × EV)) (h : UtfTreeM ms) : ValidUtf8 ((classOf ms).getD []) := by
  induction ms with
  | nil => exact .nil
  | cons kv t ih =>
    obtain ⟨k, v⟩ := kv
    simp only [classOf]
    split
    · cases v <;> simp only [clsName, Option.getD_none] <;> try exact .nil
      rename_i s
      split
      · exact h.2.1
      · exact .nil
    · exact ih h.2.2

theorem itoa_ascii (i : Int) (h1 : -2147483648 ≤ i) (h2 : i ≤ 2147483647) : AllAscii (itoa i) :=
  number_ascii (itoa_number i h1 h2)

section
variable (g : Nat → UInt64 → Bytes) (m : Mode) (hg : H1 g)
include hg

mutual
/-- every mode (JSON or XDL, compact or pretty): if all strings and keys of the tree are well-formed UTF-8,
    so is the whole text the encoder writes -/
theorem enc_utf8 : ∀ (v : EV) (lvl : Nat), WF v → UtfTree v → ValidUtf8 (enc g m lvl v)
  | .none, _, _, _ => by simp only [enc]; exact valid_of_ascii _ (allAscii_lit _ (by decide))
  | .null, _, _, _ => by simp only [enc]; exact valid_of_ascii _ (allAscii_lit _ (by decide))
  | .bool b, _, _, _ => by
    apply valid_of_ascii
    simp only [enc]
    repeat' split
    all_goals exact allAscii_lit _ (by decide)
  | .int i, _, hw, _ => by simp only [enc]; exact valid_of_ascii _ (itoa_ascii i hw.1 hw.2)
  | .num b, _, _, _ => by simp only [enc]; exact valid_of_ascii _ (encReal_ascii g hg _ b)
  | .flt b, _, _, _ => by simp only [enc]; exact valid_of_ascii _ (encReal_ascii g hg _ b)
  | .str s, _, _, hu => by simp only [enc]; exact encString_utf8 s hu
  | .arr l, lvl, hw, hu => by
    simp only [enc]
    have h1 := encItems_utf8 l (if (arrayLayout m l).1 = true then lvl + 1 else lvl) (arrayLayout m l).1 (arrayLayout m l).2 0 hw hu
    have hpre : ∀ n, AllAscii (if (arrayLayout m l).1 = true then 10 :: indentOf n else []) := by
      intro n; split
      · exact nlindent_ascii n
      · intro c hc; simp at hc
    have b1 : AllAscii [91] := allAscii_lit _ (by decide)
    have b2 : AllAscii [93] := allAscii_lit _ (by decide)
    exact valid_append _ _ (valid_append _ _ (valid_append _ _ (valid_ascii_append _ _ b1 (valid_of_ascii _ (hpre _))) h1)
      (valid_of_ascii _ (hpre _))) (valid_of_ascii _ b2)
  | .obj ms, lvl, hw, hu => by
    simp only [enc]
    have h1 := encMembers_utf8 ms (if m.pretty = true then lvl + 1 else lvl) false hw hu
    have hcls : ValidUtf8 (if m.json = true then [] else (classOf ms).getD []) := by
      split
      · exact .nil
      · exact classOf_utf8 ms hu
    have hpost : AllAscii (if m.pretty = true then 10 :: indentOf lvl else []) := by
      split
      · exact nlindent_ascii lvl
      · intro c hc; simp at hc
    have b1 : AllAscii [123] := allAscii_lit _ (by decide)
    have b2 : AllAscii [125] := allAscii_lit _ (by decide)
    exact valid_append _ _ (valid_append _ _ (valid_append _ _ (valid_append _ _ hcls (valid_of_ascii _ b1)) h1)
      (valid_of_ascii _ hpost)) (valid_of_ascii _ b2)
theorem encItems_utf8 : ∀ (l : List EV) (lvl : Nat) (multi big : Bool) (i : Nat), WFL l → UtfTreeL l →
    ValidUtf8 (encItems g m lvl multi big i l)
  | [], _, _, _, _, _, _ => by simp only [encItems]; exact .nil
  | x :: t, lvl, multi, big, i, hw, hu => by
    simp only [encItems]
    have h1 := enc_utf8 x lvl hw.1 hu.1
    have h2 := encItems_utf8 t lvl multi big (i + 1) hw.2 hu.2
    have h3 : AllAscii (if i > 0 then (if (multi && (big || decide (i % 16 = 0))) = true then sep2 m ++ 10 :: indentOf lvl else sep1 m) else []) := by
      split
      · split
        · exact allAscii_append (sep_ascii m).2 (nlindent_ascii lvl)
        · exact (sep_ascii m).1
      · intro c hc; simp at hc
    exact valid_append _ _ (valid_ascii_append _ _ h3 h1) h2
theorem encMembers_utf8 : ∀ (ms : List (Bytes × EV)) (lvl : Nat) (started : Bool), WFM ms → UtfTreeM ms →
    ValidUtf8 (encMembers g m lvl started ms)
  | [], _, _, _, _ => by simp only [encMembers]; exact .nil
  | (k, v) :: t, lvl, started, hw, hu => by
    simp only [encMembers]
    split
    · have h1 := enc_utf8 v lvl hw.2.1 hu.2.1
      have h2 := encMembers_utf8 t lvl true hw.2.2 hu.2.2
      have h3 : AllAscii (if started = true then sep2 m else []) := by
        split
        · exact (sep_ascii m).2
        · intro c hc; simp at hc
      have h4 : AllAscii (if m.pretty = true then 10 :: indentOf lvl else []) := by
        split
        · exact nlindent_ascii lvl
        · intro c hc; simp at hc
      have h5 : ValidUtf8 (if m.json = true then encString k ++ (if m.pretty = true then [58, 32] else [58]) else k ++ [61]) := by
        split
        · refine valid_append _ _ (encString_utf8 k hu.1) (valid_of_ascii _ ?_)
          split <;> exact allAscii_lit _ (by decide)
        · exact valid_append _ _ hu.1 (valid_of_ascii _ (allAscii_lit _ (by decide)))
      exact valid_append _ _ (valid_append _ _ (valid_append _ _ (valid_ascii_append _ _ h3 (valid_of_ascii _ h4)) h5) h1) h2
    · exact encMembers_utf8 t lvl started hw.2.2 hu.2.2
end

/-- the whole text returned by `encode` -/
theorem encode_utf8 (v : EV) (hw : WF v) (hu : UtfTree v) : ValidUtf8 (encode g m v) := by
  unfold encode
  refine valid_append _ _ (enc_utf8 g m hg v 0 hw hu) (valid_of_ascii _ ?_)
  split <;> exact allAscii_lit _ (by decide)
end

end AslProofs.XdlEnc
