import AslProofs.XdlRfcMain
import AslProofs.XdlEnc
import AslProofs.XdlPrefix
set_option linter.unusedSimpArgs false
set_option linter.unusedVariables false
set_option linter.unusedSectionVars false
namespace AslProofs.XdlX
open AslModel.Xdl AslProofs.Xdl AslProofs.XdlRfc AslProofs.XdlEnc Rfc8259

/-- identifier characters after the first: letters, digits, `_` -/
def isIdChar (c : UInt8) : Prop := isAlnum c = true ∨ c = 95
/-- first character of a property name: letter, digit, `_`, `$` -/
def isKeyStart (c : UInt8) : Prop := isAlnum c = true ∨ c = 95 ∨ c = 36
/-- class-name characters after the first: letters, digits, `_`, `.` -/
def isClsChar (c : UInt8) : Prop := isAlnum c = true ∨ c = 95 ∨ c = 46
/-- first character of a class name: letter, `_`, `$` (a digit would start a number) -/
def isClsStart (c : UInt8) : Prop := (isAlnum c = true ∧ isDigit c = false) ∨ c = 95 ∨ c = 36

theorem idChar_facts {c : UInt8} (h : isIdChar c) :
    c ≠ 47 ∧ c ≠ 61 ∧ isSpace c = false ∧ (isAlnum c = true ∨ c = 95) ∧ c ≠ 34 ∧ c ≠ 125 ∧ c ≠ 123 := by
  have key : (65 ≤ c.toNat ∧ c.toNat ≤ 90) ∨ (97 ≤ c.toNat ∧ c.toNat ≤ 122) ∨ (48 ≤ c.toNat ∧ c.toNat ≤ 57) ∨ c.toNat = 95 := by
    rcases h with h | h
    · simp only [isAlnum, Bool.or_eq_true, Bool.and_eq_true, decide_eq_true_eq, UInt8.le_iff_toNat_le, UInt8.reduceToNat] at h
      omega
    · subst h; simp
  refine ⟨?_, ?_, ?_, h, ?_, ?_, ?_⟩
  · intro h0; subst h0; simp at key
  · intro h0; subst h0; simp at key
  · simp only [isSpace, Bool.or_eq_false_iff, decide_eq_false_iff_not]
    refine ⟨⟨⟨?_, ?_⟩, ?_⟩, ?_⟩ <;> (intro h0; subst h0; simp at key)
  · intro h0; subst h0; simp at key
  · intro h0; subst h0; simp at key
  · intro h0; subst h0; simp at key

/-- a run of identifier characters in state IDENTIFIER or PROPERTY -/
theorem ident_loop (S : St) (hS : S = .IDENTIFIER ∨ S = .PROPERTY) (k : Ctx) (K : List Ctx) (L : List Open)
    (P : List Bytes) (j : Junk) (cs : Bytes) (hcs : ∀ c ∈ cs, isIdChar c) : ∀ (b rest : Bytes),
    loop (mk S (k :: K) L P b j) (cs ++ rest) = loop (mk S (k :: K) L P (cs.reverse ++ b) j) rest := by
  induction cs with
  | nil => intro b rest; rfl
  | cons c cs ih =>
    intro b rest
    obtain ⟨h47, h61, hsp, hid, _, _, _⟩ := idChar_facts (hcs c (by simp))
    rw [List.cons_append, loop_next (q := mk S (k :: K) L P (c :: b) j), ih (fun x hx => hcs x (by simp [hx]))]
    · simp
    · rcases hS with rfl | rfl
      · rcases hid with hid | hid <;> simp [body, dispatch, h47, hid, next, push]
      · simp [body, dispatch, h47, h61, hsp, next, push]


/-- a run of class-name characters in state IDENTIFIER -/
theorem cls_loop (k : Ctx) (K : List Ctx) (L : List Open)
    (P : List Bytes) (j : Junk) (cs : Bytes) (hcs : ∀ c ∈ cs, isClsChar c) : ∀ (b rest : Bytes),
    loop (mk .IDENTIFIER (k :: K) L P b j) (cs ++ rest) = loop (mk .IDENTIFIER (k :: K) L P (cs.reverse ++ b) j) rest := by
  induction cs with
  | nil => intro b rest; rfl
  | cons c cs ih =>
    intro b rest
    have hc := hcs c (by simp)
    have h47 : c ≠ 47 := by
      intro h0; subst h0; rcases hc with h | h | h <;> simp [isAlnum] at h
    rw [List.cons_append, loop_next (q := mk .IDENTIFIER (k :: K) L P (c :: b) j), ih (fun x hx => hcs x (by simp [hx]))]
    · simp
    · rcases hc with hid | hid | hid <;> simp [body, dispatch, h47, hid, next, push]

/-- `Y` / `N` followed by a delimiter -/
theorem yn_ok (bv : Bool) (k : Ctx) (K : List Ctx) (L : List Open) (P : List Bytes) (j : Junk) (d : UInt8) (rest : Bytes)
    (hd : isDelim d) (L' : List Open) (P' : List Bytes) (h : putLP L P (.bool bv) = some (L', P')) :
    loop (mk .WAIT_VALUE (k :: K) L P [] j) ((if bv then [89] else [78]) ++ d :: rest) =
      loop (mk (endSt (k :: K)) (k :: K) L' P' [] j) (d :: rest) := by
  cases bv
  · simp only [Bool.false_eq_true, if_false, List.cons_append, List.nil_append]
    rw [loop_next (q := mk .IDENTIFIER (k :: K) L P [78] j) _ (by simp [body, dispatch, waitValue, isDigit, isAlnum, next, push])]
    refine loop_again _ ?_ rfl (againSt_endSt _)
    have := scalar_mk .IDENTIFIER k K L P [78] j (.bool false) L' P' h
    rcases delim_cases hd with rfl | rfl | rfl | rfl | rfl | rfl | rfl <;>
      simp [body, dispatch, isAlnum, buf, this]
  · simp only [if_true, List.cons_append, List.nil_append]
    rw [loop_next (q := mk .IDENTIFIER (k :: K) L P [89] j) _ (by simp [body, dispatch, waitValue, isDigit, isAlnum, next, push])]
    refine loop_again _ ?_ rfl (againSt_endSt _)
    have := scalar_mk .IDENTIFIER k K L P [89] j (.bool true) L' P' h
    rcases delim_cases hd with rfl | rfl | rfl | rfl | rfl | rfl | rfl <;>
      simp [body, dispatch, isAlnum, buf, this]

theorem keyStart_facts {c : UInt8} (h : isKeyStart c) : c ≠ 47 ∧ c ≠ 34 ∧ c ≠ 125 ∧ (isAlnum c = true ∨ c = 95 ∨ c = 36) := by
  have key : (65 ≤ c.toNat ∧ c.toNat ≤ 90) ∨ (97 ≤ c.toNat ∧ c.toNat ≤ 122) ∨ (48 ≤ c.toNat ∧ c.toNat ≤ 57) ∨ c.toNat = 95
      ∨ c.toNat = 36 := by
    rcases h with h | h | h
    · simp only [isAlnum, Bool.or_eq_true, Bool.and_eq_true, decide_eq_true_eq, UInt8.le_iff_toNat_le, UInt8.reduceToNat] at h
      omega
    · subst h; simp
    · subst h; simp
  refine ⟨?_, ?_, ?_, h⟩ <;> (intro h0; subst h0; simp at key)

/-- a bare property name and its `=` -/
theorem xname_ok (c0 : UInt8) (cs : Bytes) (h0 : isKeyStart c0) (hcs : ∀ c ∈ cs, isIdChar c) (k : Ctx) (K : List Ctx)
    (L : List Open) (P : List Bytes) (j : Junk) (rest : Bytes) :
    loop (mk .WAIT_PROPERTY (k :: K) L P [] j) ((c0 :: cs) ++ 61 :: rest) =
      loop (mk .WAIT_VALUE (k :: K) L ((c0 :: cs) :: P) [] j) rest := by
  obtain ⟨h47, h34, h125, hst⟩ := keyStart_facts h0
  rw [List.cons_append, loop_next (q := mk .PROPERTY (k :: K) L P [c0] j) _
    (by simp [body, dispatch, waitProperty, h47, hst, next, push])]
  rw [ident_loop .PROPERTY (Or.inr rfl) k K L P j cs hcs]
  rw [loop_again (q := mk .WAIT_EQUAL (k :: K) L ((c0 :: cs) :: P) [] j) _ (by simp [body, dispatch, buf]) rfl rfl]
  exact loop_next _ (by simp [body, dispatch, next])

def reserved (b : Bytes) : Prop :=
  b = [89] ∨ b = [78] ∨ b = [102, 97, 108, 115, 101] ∨ b = [116, 114, 117, 101] ∨ b = [110, 117, 108, 108]

theorem clsStart_facts {c : UInt8} (h : isClsStart c) :
    c ≠ 47 ∧ c ≠ 34 ∧ c ≠ 125 ∧ c ≠ 45 ∧ c ≠ 91 ∧ c ≠ 123 ∧ isDigit c = false ∧ (isAlnum c = true ∨ c = 95 ∨ c = 36) := by
  have key : (65 ≤ c.toNat ∧ c.toNat ≤ 90) ∨ (97 ≤ c.toNat ∧ c.toNat ≤ 122) ∨ c.toNat = 95 ∨ c.toNat = 36 := by
    rcases h with ⟨h1, h2⟩ | h | h
    · simp only [isAlnum, isDigit, Bool.or_eq_true, Bool.and_eq_true, Bool.and_eq_false_iff, decide_eq_true_eq,
        decide_eq_false_iff_not, UInt8.le_iff_toNat_le, UInt8.reduceToNat] at h1 h2
      omega
    · subst h; simp
    · subst h; simp
  have hd : isDigit c = false := by
    simp only [isDigit, Bool.and_eq_false_iff, decide_eq_false_iff_not, UInt8.le_iff_toNat_le, UInt8.reduceToNat]
    omega
  have hs : isAlnum c = true ∨ c = 95 ∨ c = 36 := by
    rcases h with ⟨h1, _⟩ | h | h
    · exact Or.inl h1
    · exact Or.inr (Or.inl h)
    · exact Or.inr (Or.inr h)
  refine ⟨?_, ?_, ?_, ?_, ?_, ?_, hd, hs⟩ <;> (intro h0; subst h0; simp at key)

/-- a class name followed by `{` opens an object carrying `$type` -/
theorem class_open (c0 : UInt8) (cs : Bytes) (h0 : isClsStart c0) (hcs : ∀ c ∈ cs, isClsChar c)
    (hres : ¬ reserved (c0 :: cs)) (k : Ctx) (K : List Ctx) (L : List Open) (P : List Bytes) (j : Junk) (rest : Bytes)
    (hl : L.length ≤ 1000) :
    loop (mk .WAIT_VALUE (k :: K) L P [] j) ((c0 :: cs) ++ 123 :: rest) =
      loop (mk .WAIT_PROPERTY (.OBJECT :: k :: K) (.obj [(classKey, .str (c0 :: cs))] :: L) P [] j) rest := by
  obtain ⟨h47, h34, h125, h45, h91, h123, hdig, hst⟩ := clsStart_facts h0
  rw [List.cons_append, loop_next (q := mk .IDENTIFIER (k :: K) L P [c0] j) _
    (by simp [body, dispatch, waitValue, hdig, h45, h34, h91, h123, h125, h47, hst, next, push])]
  rw [cls_loop k K L P j cs hcs]
  have hb : (cs.reverse ++ [c0]).reverse = c0 :: cs := by simp
  have hr : ¬ ((c0 :: cs) = [89] ∨ (c0 :: cs) = [78] ∨ (c0 :: cs) = [102, 97, 108, 115, 101] ∨ (c0 :: cs) = [116, 114, 117, 101]) := by
    intro h; apply hres; rcases h with h | h | h | h
    · exact Or.inl h
    · exact Or.inr (Or.inl h)
    · exact Or.inr (Or.inr (Or.inl h))
    · exact Or.inr (Or.inr (Or.inr (Or.inl h)))
  have hn : ¬ (c0 :: cs) = [110, 117, 108, 108] := fun h => hres (Or.inr (Or.inr (Or.inr (Or.inr h))))
  rw [loop_again (q := mk .WAIT_OBJ (k :: K) L P (cs.reverse ++ [c0]) j) _ ?_ rfl rfl]
  · apply loop_next
    have : ¬ L.length > maxDepth := by simp [maxDepth]; omega
    have hne : (c0 :: cs) ≠ [] := by simp
    simp [body, dispatch, this, next, beginObject, buf, hb, hne]
  · simp only [body, Bool.not_false, if_true]
    have : ¬ ((123 : UInt8) = 47 ∧ St.IDENTIFIER ≠ .STRING ∧ St.IDENTIFIER ≠ .QPROPERTY ∧ St.IDENTIFIER ≠ .ESCAPE) := by simp
    simp only [this, if_false, dispatch, buf, hb]
    have hal : (!isAlnum 123 ∧ (123 : UInt8) ≠ 95 ∧ (123 : UInt8) ≠ 46) := by decide
    simp only [hal, if_true, hr, hn, if_false]
    simp


/-! ## compact XDL: decode ∘ encode -/

/-- an identifier key: letter, digit, `_` or `$`, then letters, digits, `_` (`$type` is one of them) -/
def validKey (k : Bytes) : Prop := ∃ c0 cs, k = c0 :: cs ∧ isKeyStart c0 ∧ (∀ c ∈ cs, isIdChar c)
/-- what the encoder's `isClassName` accepts (`clsName_iff`) -/
def validCls (cls : Bytes) : Prop := ∃ c0 cs, cls = c0 :: cs ∧ isClsStart c0 ∧ (∀ c ∈ cs, isClsChar c) ∧ ¬ reserved cls

mutual
/-- trees the XDL clause of the property speaks about: keys are identifiers (`$type` included, with any value) -/
def WFX : EV → Prop
  | .int i => -2147483648 ≤ i ∧ i ≤ 2147483647
  | .str s => (0 : UInt8) ∉ s
  | .arr l => WFXL l
  | .obj ms => WFXM ms
  | _ => True
def WFXL : List EV → Prop
  | [] => True
  | x :: t => WFX x ∧ WFXL t
def WFXM : List (Bytes × EV) → Prop
  | [] => True
  | (k, v) :: t => (validKey k ∧ WFX v) ∧ WFXM t
end

mutual
def xdepth : EV → Nat
  | .arr l => xdepthL l + 1
  | .obj ms => xdepthM ms + 1
  | _ => 0
def xdepthL : List EV → Nat
  | [] => 0
  | x :: t => max (xdepth x) (xdepthL t)
def xdepthM : List (Bytes × EV) → Nat
  | [] => 0
  | (_, v) :: t => max (xdepth v) (xdepthM t)
end

mutual
/-- the value `Xdl::decode(Xdl::encode(v))` must be: numbers as the decoder classifies their lexemes, the
    class name as the first member `$type`, undefined members dropped -/
def xnorm (g : Nat → UInt64 → Bytes) (m : Mode) : EV → JV
  | .arr l => .arr (xnormL g m l)
  | .obj ms => .obj (xnormM g m ms (match classOf ms with | some c => [(classKey, .str c)] | none => []))
  | .bool b => .bool b
  | .none => .null
  | .null => .null
  | .int i => norm (.num (itoa i))
  | .num b => norm (denoteReal g (precD m) b)
  | .flt b => norm (denoteReal g (precF m) b)
  | .str s => .str s
def xnormL (g : Nat → UInt64 → Bytes) (m : Mode) : List EV → List JV
  | [] => []
  | x :: t => xnorm g m x :: xnormL g m t
def xnormM (g : Nat → UInt64 → Bytes) (m : Mode) : List (Bytes × EV) → List (Bytes × JV) → List (Bytes × JV)
  | [], acc => acc
  | (k, v) :: t, acc => if okV v && !skipCls k v then xnormM g m t (objSet acc k (xnorm g m v)) else xnormM g m t acc
end

theorem items_head (g : Nat → UInt64 → Bytes) (m : Mode) (hp : m.pretty = false) (lvl : Nat) (big : Bool) (i : Nat)
    (t : List EV) (rest : Bytes) : ∃ d r, isDelim d ∧ encItems g m lvl false big (i + 1) t ++ 93 :: rest = d :: r := by
  cases t with
  | nil => exact ⟨93, rest, by simp [isDelim], rfl⟩
  | cons y t' =>
    refine ⟨44, enc g m lvl y ++ encItems g m lvl false big (i + 2) t' ++ 93 :: rest, by simp [isDelim], ?_⟩
    simp [encItems, sep1, hp]

theorem members_head (g : Nat → UInt64 → Bytes) (m : Mode) (hp : m.pretty = false) (hj : m.json = false) (lvl : Nat) :
    ∀ (t : List (Bytes × EV)) (rest : Bytes), ∃ d r, isDelim d ∧ encMembers g m lvl true t ++ 125 :: rest = d :: r := by
  intro t
  induction t with
  | nil => intro rest; exact ⟨125, rest, by simp [isDelim], rfl⟩
  | cons kv t' ih =>
    intro rest
    obtain ⟨k, v⟩ := kv
    simp only [encMembers]
    split
    · exact ⟨44, k ++ 61 :: (enc g m lvl v ++ (encMembers g m lvl true t' ++ 125 :: rest)), by simp [isDelim],
        by simp [sep2, hp, hj]⟩
    · exact ih rest


/-- the encoder's class-name test is `validCls` -/
theorem isClsNameB_iff (s : Bytes) : isClsNameB s = true ↔ validCls s := by
  cases s with
  | nil => simp [isClsNameB, validCls]
  | cons c0 cs =>
    simp only [isClsNameB, validCls, isClsStart, isClsChar, reserved, Bool.and_eq_true, Bool.or_eq_true, Bool.not_eq_true',
      decide_eq_true_eq, List.all_eq_true, Bool.or_eq_false_iff, decide_eq_false_iff_not, Bool.not_eq_eq_eq_not, Bool.not_true]
    constructor
    · rintro ⟨⟨h1, h2⟩, ⟨⟨⟨⟨n1, n2⟩, n3⟩, n4⟩, n5⟩⟩
      refine ⟨c0, cs, rfl, ?_, ?_, ?_⟩
      · rcases h1 with (⟨a, b⟩ | a) | a
        · exact Or.inl ⟨a, b⟩
        · exact Or.inr (Or.inl a)
        · exact Or.inr (Or.inr a)
      · intro c hc
        rcases h2 c hc with (a | a) | a
        · exact Or.inl a
        · exact Or.inr (Or.inl a)
        · exact Or.inr (Or.inr a)
      · rintro (h | h | h | h | h)
        · exact n1 h
        · exact n2 h
        · exact n4 h
        · exact n3 h
        · exact n5 h
    · rintro ⟨d0, ds, he, h1, h2, h3⟩
      obtain ⟨rfl, rfl⟩ := List.cons_eq_cons.mp he
      refine ⟨⟨?_, ?_⟩, ⟨⟨⟨⟨?_, ?_⟩, ?_⟩, ?_⟩, ?_⟩⟩
      · rcases h1 with ⟨a, b⟩ | a | a
        · exact Or.inl (Or.inl ⟨a, b⟩)
        · exact Or.inl (Or.inr a)
        · exact Or.inr a
      · intro c hc
        rcases h2 c hc with a | a | a
        · exact Or.inl (Or.inl a)
        · exact Or.inl (Or.inr a)
        · exact Or.inr a
      all_goals (intro h; apply h3)
      · exact Or.inl h
      · exact Or.inr (Or.inl h)
      · exact Or.inr (Or.inr (Or.inr (Or.inl h)))
      · exact Or.inr (Or.inr (Or.inl h))
      · exact Or.inr (Or.inr (Or.inr (Or.inr h)))

theorem clsName_iff (v : EV) (c : Bytes) : clsName v = some c ↔ v = .str c ∧ validCls c := by
  cases v <;> simp [clsName]
  rename_i s
  constructor
  · rintro ⟨h, rfl⟩; exact ⟨rfl, (isClsNameB_iff _).mp h⟩
  · rintro ⟨rfl, h⟩; exact ⟨(isClsNameB_iff _).mpr h, rfl⟩

theorem classOf_wf (ms : List (Bytes × EV)) (h : WFXM ms) : ∀ c, classOf ms = some c → validCls c := by
  induction ms with
  | nil => intro c hc; simp [classOf] at hc
  | cons kv t ih =>
    obtain ⟨k, v⟩ := kv
    intro c hc
    simp only [classOf] at hc
    split at hc
    · exact ((clsName_iff v c).mp hc).2
    · exact ih h.2 c hc

theorem classKey_valid : validKey classKey :=
  ⟨36, [116, 121, 112, 101], rfl, Or.inr (Or.inr rfl), by
    intro c hc
    simp only [List.mem_cons, List.mem_nil_iff, or_false] at hc
    rcases hc with rfl | rfl | rfl | rfl <;> exact Or.inl (by decide)⟩

section
variable (g : Nat → UInt64 → Bytes) (m : Mode) (hp : m.pretty = false) (hj : m.json = false) (hg : H1 g)
include hp hj hg

mutual
theorem xvalue_ok : ∀ (v : EV) (lvl : Nat), WFX v → ∀ (k : Ctx) (K : List Ctx) (L : List Open) (P : List Bytes) (j : Junk)
    (d : UInt8) (rest : Bytes), isDelim d → L.length + xdepth v ≤ 1001 → ∀ (L' : List Open) (P' : List Bytes),
    putLP L P (xnorm g m v) = some (L', P') → ∃ j',
    loop (mk .WAIT_VALUE (k :: K) L P [] j) (enc g m lvl v ++ d :: rest) =
      loop (mk (endSt (k :: K)) (k :: K) L' P' [] j') (d :: rest)
  | .none, _, _, k, K, L, P, j, d, rest, hd, _, L', P', hput => by
    simp only [enc, xnorm] at hput ⊢
    exact ⟨j, literal_ok _ .null (Or.inl ⟨rfl, rfl⟩) k K L P j d rest hd L' P' hput⟩
  | .null, _, _, k, K, L, P, j, d, rest, hd, _, L', P', hput => by
    simp only [enc, xnorm] at hput ⊢
    exact ⟨j, literal_ok _ .null (Or.inl ⟨rfl, rfl⟩) k K L P j d rest hd L' P' hput⟩
  | .bool b, _, _, k, K, L, P, j, d, rest, hd, _, L', P', hput => by
    simp only [enc, xnorm, hj, Bool.false_eq_true, if_false] at hput ⊢
    exact ⟨j, yn_ok b k K L P j d rest hd L' P' hput⟩
  | .int i, _, hw, k, K, L, P, j, d, rest, hd, _, L', P', hput => by
    simp only [enc, xnorm] at hput ⊢
    exact ⟨j, number_ok _ (itoa_number i hw.1 hw.2) k K L P j d rest hd L' P' hput⟩
  | .num b, _, _, k, K, L, P, j, d, rest, hd, hdep, L', P', hput => by
    simp only [enc, xnorm] at hput ⊢
    exact value_ok (encReal_ser g hg _ b) k K L P j d rest hd (by
      have : depth (denoteReal g (precD m) b) = 0 := by
        unfold denoteReal; repeat' split
        all_goals simp [depth]
      simp [xdepth] at hdep
      omega) L' P' hput
  | .flt b, _, _, k, K, L, P, j, d, rest, hd, hdep, L', P', hput => by
    simp only [enc, xnorm] at hput ⊢
    exact value_ok (encReal_ser g hg _ b) k K L P j d rest hd (by
      have : depth (denoteReal g (precF m) b) = 0 := by
        unfold denoteReal; repeat' split
        all_goals simp [depth]
      simp [xdepth] at hdep
      omega) L' P' hput
  | .str s, _, hw, k, K, L, P, j, d, rest, hd, hdep, L', P', hput => by
    simp only [enc, xnorm] at hput ⊢
    exact value_ok (encString_ser s hw) k K L P j d rest hd (by simp [xdepth] at hdep; simp [depth]; omega) L' P'
      (by simpa [norm] using hput)
  | .arr [], lvl, _, k, K, L, P, j, d, rest, hd, hdep, L', P', hput => by
    have hl : arrayLayout m [] = (false, false) := by
      cases m.pretty <;> simp [arrayLayout, isStrV, isArrV, isObjV]
    simp only [enc, encItems, hl, xnorm, xnormL] at hput ⊢
    refine ⟨j, ?_⟩
    have hlen : L.length ≤ 1000 := by simp [xdepth] at hdep; omega
    simp only [Bool.false_eq_true, if_false, List.append_nil, List.cons_append, List.nil_append]
    rw [open_array k K L P j _ hlen]
    exact close_array k K [] L P j .WAIT_VALUE (Or.inr rfl) _ L' P' (by simpa using hput)
  | .arr (x :: t), lvl, hw, k, K, L, P, j, d, rest, hd, hdep, L', P', hput => by
    have hm : (arrayLayout m (x :: t)).1 = false := by simp [arrayLayout, hp]
    simp only [enc, encItems, hm, xnorm, xnormL] at hput ⊢
    have hlen : L.length ≤ 1000 := by simp [xdepth] at hdep; omega
    simp only [Bool.false_eq_true, if_false, List.append_nil, List.cons_append, List.nil_append, Nat.lt_irrefl,
      List.append_assoc]
    rw [open_array k K L P j _ hlen]
    obtain ⟨d1, r1, hd1, he1⟩ := items_head g m hp lvl (arrayLayout m (x :: t)).2 0 t (d :: rest)
    have e0 : enc g m lvl x ++ (encItems g m lvl false (arrayLayout m (x :: t)).2 (0 + 1) t ++ 93 :: d :: rest) =
        enc g m lvl x ++ d1 :: r1 := by rw [he1]
    rw [e0]
    obtain ⟨j1, h1⟩ := xvalue_ok x lvl hw.1 .ARRAY (k :: K) (.arr [] :: L) P j d1 r1 hd1
      (by simp [xdepth, xdepthL] at hdep; simp; omega) (.arr [xnorm g m x] :: L) P rfl
    rw [h1, ← he1]
    have : endSt (.ARRAY :: k :: K) = .WAIT_SEP := rfl
    rw [this]
    exact xitems_ok t lvl (arrayLayout m (x :: t)).2 0 hw.2 [xnorm g m x] k K L P j1 (d :: rest)
      (by simp [xdepth, xdepthL] at hdep; omega) L' P' (by simpa using hput)
  | .obj ms, lvl, hw, k, K, L, P, j, d, rest, hd, hdep, L', P', hput => by
    simp only [enc, hj, hp, Bool.false_eq_true, if_false, xnorm] at hput ⊢
    have hlen : L.length ≤ 1000 := by simp [xdepth] at hdep; omega
    simp only [List.append_nil, List.append_assoc, List.cons_append, List.nil_append]
    cases hc : classOf ms with
    | none =>
      simp only [hc, Option.getD_none, List.nil_append] at hput ⊢
      rw [open_object k K L P j _ hlen]
      exact xmembers_ok ms lvl false hw [] k K L P j (d :: rest) .WAIT_PROPERTY (Or.inl ⟨rfl, rfl⟩)
        (by simp [xdepth] at hdep; omega) L' P' hput
    | some cls =>
      simp only [hc, Option.getD_some] at hput ⊢
      obtain ⟨c0, cs, rfl, hc0, hcs, hres⟩ := classOf_wf ms hw cls hc
      have := class_open c0 cs hc0 hcs hres k K L P j (encMembers g m lvl false ms ++ 125 :: d :: rest) hlen
      simp only [List.cons_append, List.append_assoc] at this ⊢
      rw [this]
      exact xmembers_ok ms lvl false hw _ k K L P j (d :: rest) .WAIT_PROPERTY (Or.inl ⟨rfl, rfl⟩)
        (by simp [xdepth] at hdep; omega) L' P' hput

/-- the items after the first, then the closing bracket -/
theorem xitems_ok : ∀ (t : List EV) (lvl : Nat) (big : Bool) (i : Nat), WFXL t → ∀ (r : List JV) (k : Ctx) (K : List Ctx)
    (L : List Open) (P : List Bytes) (j : Junk) (rest : Bytes), L.length + 1 + xdepthL t ≤ 1001 →
    ∀ (L' : List Open) (P' : List Bytes), putLP L P (.arr (r.reverse ++ xnormL g m t)) = some (L', P') → ∃ j',
    loop (mk .WAIT_SEP (.ARRAY :: k :: K) (.arr r :: L) P [] j) (encItems g m lvl false big (i + 1) t ++ 93 :: rest) =
      loop (mk (endSt (k :: K)) (k :: K) L' P' [] j') rest
  | [], lvl, big, i, _, r, k, K, L, P, j, rest, _, L', P', hput => by
    simp only [encItems, xnormL, List.append_nil, List.nil_append] at hput ⊢
    exact ⟨j, close_array k K r L P j .WAIT_SEP (Or.inl (Or.inl rfl)) rest L' P' hput⟩
  | y :: t', lvl, big, i, hw, r, k, K, L, P, j, rest, hdep, L', P', hput => by
    simp only [encItems, xnormL, sep1, hp, Bool.false_eq_true, if_false, Bool.false_and, Nat.succ_pos, if_true,
      List.append_assoc, List.cons_append, List.nil_append] at hput ⊢
    rw [sepA_comma (k :: K) _ P j .WAIT_SEP (Or.inl rfl)]
    obtain ⟨d1, r1, hd1, he1⟩ := items_head g m hp lvl big (i + 1) t' rest
    have e0 : enc g m lvl y ++ (encItems g m lvl false big (i + 1 + 1) t' ++ 93 :: rest) = enc g m lvl y ++ d1 :: r1 := by
      rw [he1]
    rw [e0]
    obtain ⟨j1, h1⟩ := xvalue_ok y lvl hw.1 .ARRAY (k :: K) (.arr r :: L) P j d1 r1 hd1
      (by simp [xdepthL] at hdep; simp; omega) (.arr (xnorm g m y :: r) :: L) P rfl
    rw [h1, ← he1]
    have : endSt (.ARRAY :: k :: K) = .WAIT_SEP := rfl
    rw [this]
    exact xitems_ok t' lvl big (i + 1) hw.2 (xnorm g m y :: r) k K L P j1 rest (by simp [xdepthL] at hdep; omega) L' P'
      (by simpa using hput)

/-- the members from `ms` on, then the closing brace; `started` = some member has been written -/
theorem xmembers_ok : ∀ (ms : List (Bytes × EV)) (lvl : Nat) (started : Bool), WFXM ms → ∀ (acc : List (Bytes × JV)) (k : Ctx)
    (K : List Ctx) (L : List Open) (P : List Bytes) (j : Junk) (rest : Bytes) (S : St),
    ((started = false ∧ S = .WAIT_PROPERTY) ∨ (started = true ∧ S = .WAIT_SEP)) → L.length + 1 + xdepthM ms ≤ 1001 →
    ∀ (L' : List Open) (P' : List Bytes), putLP L P (.obj (xnormM g m ms acc)) = some (L', P') → ∃ j',
    loop (mk S (.OBJECT :: k :: K) (.obj acc :: L) P [] j) (encMembers g m lvl started ms ++ 125 :: rest) =
      loop (mk (endSt (k :: K)) (k :: K) L' P' [] j') rest
  | [], lvl, started, _, acc, k, K, L, P, j, rest, S, hS, _, L', P', hput => by
    simp only [encMembers, xnormM, List.nil_append] at hput ⊢
    refine ⟨j, close_object k K acc L P j S ?_ rest L' P' hput⟩
    rcases hS with ⟨_, rfl⟩ | ⟨_, rfl⟩
    · exact Or.inr rfl
    · exact Or.inl (Or.inl rfl)
  | (key, v) :: t, lvl, started, hw, acc, k, K, L, P, j, rest, S, hS, hdep, L', P', hput => by
    simp only [encMembers, xnormM, hj, Bool.false_or] at hput ⊢
    cases hok : (okV v && !skipCls key v)
    · simp only [hok, Bool.false_eq_true, if_false] at hput ⊢
      exact xmembers_ok t lvl started hw.2 acc k K L P j rest S hS (by simp [xdepthM] at hdep; omega) L' P' hput
    · simp only [hok, if_true] at hput ⊢
      obtain ⟨hvk, hwv⟩ := hw.1
      obtain ⟨c0, cs, rfl, hc0, hcs⟩ := hvk
      simp only [sep2, hp, hj, Bool.not_false, Bool.true_and, Bool.false_eq_true, if_false, List.append_assoc,
        List.nil_append, List.cons_append]
      -- reach WAIT_PROPERTY
      have hstart : loop (mk S (.OBJECT :: k :: K) (.obj acc :: L) P [] j)
          ((if started = true then [44] else []) ++ (c0 :: (cs ++ 61 :: (enc g m lvl v ++ (encMembers g m lvl true t ++ 125 :: rest))))) =
          loop (mk .WAIT_PROPERTY (.OBJECT :: k :: K) (.obj acc :: L) P [] j)
            (c0 :: (cs ++ 61 :: (enc g m lvl v ++ (encMembers g m lvl true t ++ 125 :: rest)))) := by
        rcases hS with ⟨rfl, rfl⟩ | ⟨rfl, rfl⟩
        · first | rfl | simp
        · simp only [if_true, List.cons_append, List.nil_append]
          exact sepO_comma (k :: K) _ P j .WAIT_SEP (Or.inl rfl) _
      try simp only [List.cons_append, List.append_assoc] at hstart ⊢
      rw [hstart]
      have hname := xname_ok c0 cs hc0 hcs .OBJECT (k :: K) (.obj acc :: L) P j
        (enc g m lvl v ++ (encMembers g m lvl true t ++ 125 :: rest))
      simp only [List.cons_append, List.append_assoc] at hname
      rw [hname]
      obtain ⟨d1, r1, hd1, he1⟩ := members_head g m hp hj lvl t rest
      rw [he1]
      obtain ⟨j1, h1⟩ := xvalue_ok v lvl hwv .OBJECT (k :: K) (.obj acc :: L) ((c0 :: cs) :: P) j d1 r1 hd1
        (by simp [xdepthM] at hdep; simp; omega) (.obj (objSet acc (c0 :: cs) (xnorm g m v)) :: L) P rfl
      rw [h1, ← he1]
      have : endSt (.OBJECT :: k :: K) = .WAIT_SEP := rfl
      rw [this]
      exact xmembers_ok t lvl true hw.2 _ k K L P j1 rest .WAIT_SEP (Or.inr ⟨rfl, rfl⟩)
        (by simp [xdepthM] at hdep; omega) L' P' hput
end
end


theorem idchars_nonul (cs : Bytes) (h : ∀ c ∈ cs, isIdChar c) : (0 : UInt8) ∉ cs := by
  intro h0
  rcases h 0 h0 with h1 | h1 <;> simp [isAlnum] at h1

theorem validKey_nonul {k : Bytes} (h : validKey k) : (0 : UInt8) ∉ k := by
  obtain ⟨c0, cs, rfl, hc0, hcs⟩ := h
  have := idchars_nonul cs hcs
  have h0 : c0 ≠ 0 := by
    intro h; subst h; rcases hc0 with h1 | h1 | h1 <;> simp [isAlnum] at h1
  simp [this, Ne.symm h0]

theorem validCls_nonul {k : Bytes} (h : validCls k) : (0 : UInt8) ∉ k := by
  obtain ⟨c0, cs, rfl, hc0, hcs, _⟩ := h
  have : (0 : UInt8) ∉ cs := by
    intro h0
    rcases hcs 0 h0 with h1 | h1 | h1 <;> simp [isAlnum] at h1
  have h0 : c0 ≠ 0 := by
    intro h; subst h; rcases hc0 with ⟨h1, _⟩ | h1 | h1 <;> simp [isAlnum] at h1
  simp [this, Ne.symm h0]

section
variable (g : Nat → UInt64 → Bytes) (m : Mode) (hp : m.pretty = false) (hj : m.json = false) (hg : H1 g)
include hp hj hg

mutual
theorem xenc_nonul : ∀ (v : EV) (lvl : Nat), WFX v → (0 : UInt8) ∉ enc g m lvl v
  | .none, _, _ => by simp [enc]
  | .null, _, _ => by simp [enc]
  | .bool b, _, _ => by cases b <;> simp [enc, hj]
  | .int i, _, hw => by simp only [enc]; exact number_nonul (itoa_number i hw.1 hw.2)
  | .num b, _, _ => by simp only [enc]; exact serV_nonul (encReal_ser g hg _ b)
  | .flt b, _, _ => by simp only [enc]; exact serV_nonul (encReal_ser g hg _ b)
  | .str s, _, hw => by simp only [enc]; exact serV_nonul (encString_ser s hw)
  | .arr l, lvl, hw => by
    have hm : (arrayLayout m l).1 = false := by simp [arrayLayout, hp]
    simp only [enc, hm, Bool.false_eq_true, if_false]
    have := xencItems_nonul l lvl (arrayLayout m l).2 0 hw
    simp [this]
  | .obj ms, lvl, hw => by
    simp only [enc, hj, hp, Bool.false_eq_true, if_false]
    have h1 := xencMembers_nonul ms lvl false hw
    have h2 : (0 : UInt8) ∉ (classOf ms).getD [] := by
      cases hc : classOf ms with
      | none => simp
      | some c => simpa using validCls_nonul (classOf_wf ms hw c hc)
    simp [h1, h2]
theorem xencItems_nonul : ∀ (l : List EV) (lvl : Nat) (big : Bool) (i : Nat), WFXL l →
    (0 : UInt8) ∉ encItems g m lvl false big i l
  | [], _, _, _, _ => by simp [encItems]
  | x :: t, lvl, big, i, hw => by
    simp only [encItems]
    have h1 := xenc_nonul x lvl hw.1
    have h2 := xencItems_nonul t lvl big (i + 1) hw.2
    have h3 : (0 : UInt8) ∉ (if i > 0 then (if (false && (big || decide (i % 16 = 0))) = true then sep2 m ++ 10 :: indentOf lvl else sep1 m) else []) := by
      split
      · simp [sep1, hp]
      · simp
    simp [h1, h2, h3]
    simpa using h3
theorem xencMembers_nonul : ∀ (ms : List (Bytes × EV)) (lvl : Nat) (started : Bool), WFXM ms →
    (0 : UInt8) ∉ encMembers g m lvl started ms
  | [], _, _, _ => by simp [encMembers]
  | (k, v) :: t, lvl, started, hw => by
    simp only [encMembers, hj, Bool.false_or]
    split
    · rename_i hok
      obtain ⟨hvk, hwv⟩ := hw.1
      have h1 := validKey_nonul hvk
      have h2 := xenc_nonul v lvl hwv
      have h3 := xencMembers_nonul t lvl true hw.2
      cases started <;> simp [sep2, hp, hj, h1, h2, h3]
    · exact xencMembers_nonul t lvl started hw.2
end

/-- **XDL round trip, compact mode** (`Xdl::encode(v, mode)` without PRETTY): decoding the text gives
    `xnorm v` — same structure, keys, strings, booleans (`Y`/`N`), numbers as classified by the decoder,
    the class name as `$type` -/
theorem xdl_decode_encode (v : EV) (hw : WFX v) (hd : xdepth v ≤ 1000) :
    decode (encode g m v) = some (some (xnorm g m v)) := by
  have henc : encode g m v = enc g m 0 v := by simp [encode, hp]
  rw [henc]
  have h0 := xenc_nonul g m hp hj hg v 0 hw
  obtain ⟨j', hrun⟩ := xvalue_ok g m hp hj hg v 0 hw .ROOT [] [.arr []] [] junk0 32 [] (Or.inl rfl) (by simp; omega)
    [.arr [xnorm g m v]] [] rfl
  have hl : loop init (enc g m 0 v ++ [32]) = some (false, mk .WAIT_VALUE [.ROOT] [.arr [xnorm g m v]] [] [] j') := by
    rw [init_mk, hrun]
    have : endSt [Ctx.ROOT] = .WAIT_VALUE := rfl
    rw [this]
    have := ws_skip .WAIT_VALUE (by simp) .ROOT [] [.arr [xnorm g m v]] [] j' [32] []
      (by intro c hc; simp at hc; subst hc; exact Or.inl rfl)
    simp only [List.append_nil] at this
    rw [this]; rfl
  rw [AslProofs.Xdl.loop_append] at hl
  cases hlw : loop init (enc g m 0 v) with
  | none => rw [hlw] at hl; simp at hl
  | some r =>
    obtain ⟨f, q⟩ := r
    rw [hlw] at hl
    cases f with
    | true => simp at hl
    | false =>
      simp only at hl
      have hq : q.state ≠ .ERR := by
        intro he
        have := AslProofs.Xdl.loop_err [32] q false _ he hl
        simp at this
      have c32 : cstr [32] = [32] := by decide
      have hpq : parse q [32] = some (mk .WAIT_VALUE [.ROOT] [.arr [xnorm g m v]] [] [] j') := by
        simp [parse, hq, c32, hl]
      rw [AslProofs.XdlPrefix.decode_of_loop _ h0 q _ hlw hpq]
      simp [value]
end

end AslProofs.XdlX
