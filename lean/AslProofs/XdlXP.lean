import AslProofs.XdlX
set_option linter.unusedSimpArgs false
set_option linter.unusedVariables false
set_option linter.unusedSectionVars false
namespace AslProofs.XdlX
open AslModel.Xdl AslProofs.Xdl AslProofs.XdlRfc AslProofs.XdlEnc Rfc8259

/-- a value that does not start with `,`, `[`, `/` or a blank is read from WAIT_COMMA_OR_VALUE exactly as from
    WAIT_VALUE (the state is overwritten by the first byte) -/
theorem bridge_value (k : Ctx) (K : List Ctx) (L : List Open) (P : List Bytes) (j : Junk) (c : UInt8) (rest : Bytes)
    (h44 : c ≠ 44) (h91 : c ≠ 91) (h47 : c ≠ 47) (hsp : isSpace c = false) :
    loop (mk .WAIT_COMMA_OR_VALUE (k :: K) L P [] j) (c :: rest) = loop (mk .WAIT_VALUE (k :: K) L P [] j) (c :: rest) := by
  have hb : body (mk .WAIT_COMMA_OR_VALUE (k :: K) L P [] j) c = body (mk .WAIT_VALUE (k :: K) L P [] j) c := by
    simp only [body, Bool.not_false, if_true, h47, false_and, if_false, dispatch, h44, waitValue, h91, hsp]
    repeat' split
    all_goals first
      | rfl
      | simp [next, errRet, push, beginObject, buf, closeContainer, valueEnd]
  simp only [loop, stepByte, hb]

theorem bridge_prop (k : Ctx) (K : List Ctx) (L : List Open) (P : List Bytes) (j : Junk) (c : UInt8) (rest : Bytes)
    (h44 : c ≠ 44) (h47 : c ≠ 47) (hsp : isSpace c = false) :
    loop (mk .WAIT_COMMA_OR_PROPERTY (k :: K) L P [] j) (c :: rest) = loop (mk .WAIT_PROPERTY (k :: K) L P [] j) (c :: rest) := by
  have hb : body (mk .WAIT_COMMA_OR_PROPERTY (k :: K) L P [] j) c = body (mk .WAIT_PROPERTY (k :: K) L P [] j) c := by
    simp only [body, Bool.not_false, if_true, h47, false_and, if_false, dispatch, h44, waitProperty, hsp]
    repeat' split
    all_goals first
      | rfl
      | (simp [next, errRet, push, closeContainer, valueEnd]; done)
      | (exfalso; simp_all)
  simp only [loop, stepByte, hb]


theorem serV_head2 {v : JV} {x : Bytes} (h : SerV v x) (hna : ∀ l, v ≠ .arr l) :
    ∃ c r, x = c :: r ∧ c ≠ 44 ∧ c ≠ 91 ∧ c ≠ 47 ∧ isSpace c = false := by
  cases h with
  | null => exact ⟨_, _, rfl, by decide, by decide, by decide, by decide⟩
  | true => exact ⟨_, _, rfl, by decide, by decide, by decide, by decide⟩
  | false => exact ⟨_, _, rfl, by decide, by decide, by decide, by decide⟩
  | str s w hc => exact ⟨_, _, rfl, by decide, by decide, by decide, by decide⟩
  | arr0 w hw => exact absurd rfl (hna _)
  | arr vs w he => exact absurd rfl (hna _)
  | obj0 w hw => exact ⟨_, _, rfl, by decide, by decide, by decide, by decide⟩
  | obj ms w hm => exact ⟨_, _, rfl, by decide, by decide, by decide, by decide⟩
  | num lex hn =>
    cases hn with
    | mk minus ip fr ex hm hip hfr hex =>
      have dig : ∀ d : UInt8, 48 ≤ d → d ≤ 57 → d ≠ 44 ∧ d ≠ 91 ∧ d ≠ 47 ∧ isSpace d = false := by
        intro d h1 h2
        simp only [UInt8.le_iff_toNat_le, UInt8.reduceToNat] at h1 h2
        refine ⟨?_, ?_, ?_, ?_⟩
        · intro h; subst h; simp at h1
        · intro h; subst h; simp at h2
        · intro h; subst h; simp at h1
        · simp only [isSpace, Bool.or_eq_false_iff, decide_eq_false_iff_not]
          refine ⟨⟨⟨?_, ?_⟩, ?_⟩, ?_⟩ <;> (intro h; subst h; simp at h1)
      rcases hm with rfl | rfl
      · cases hip with
        | zero => exact ⟨48, fr ++ ex, by simp, by decide, by decide, by decide, by decide⟩
        | nz d ds h1 h2 hds =>
          have h1' : 48 ≤ d := by
            simp only [UInt8.le_iff_toNat_le, UInt8.reduceToNat] at h1 ⊢; omega
          obtain ⟨a1, a2, a3, a4⟩ := dig d h1' h2
          exact ⟨d, ds ++ (fr ++ ex), by simp, a1, a2, a3, a4⟩
      · exact ⟨45, ip ++ (fr ++ ex), by simp, by decide, by decide, by decide, by decide⟩

theorem clsStart_more {c : UInt8} (h : isClsStart c) : c ≠ 44 ∧ isSpace c = false := by
  have key : (65 ≤ c.toNat ∧ c.toNat ≤ 90) ∨ (97 ≤ c.toNat ∧ c.toNat ≤ 122) ∨ c.toNat = 95 ∨ c.toNat = 36 := by
    rcases h with ⟨h1, h2⟩ | h | h
    · simp only [isAlnum, isDigit, Bool.or_eq_true, Bool.and_eq_true, Bool.and_eq_false_iff, decide_eq_true_eq,
        decide_eq_false_iff_not, UInt8.le_iff_toNat_le, UInt8.reduceToNat] at h1 h2
      omega
    · subst h; simp
    · subst h; simp
  refine ⟨?_, ?_⟩
  · intro h0; subst h0; simp at key
  · simp only [isSpace, Bool.or_eq_false_iff, decide_eq_false_iff_not]
    refine ⟨⟨⟨?_, ?_⟩, ?_⟩, ?_⟩ <;> (intro h0; subst h0; simp at key)

theorem keyStart_more {c : UInt8} (h : isKeyStart c) : c ≠ 44 ∧ isSpace c = false := by
  have key : (65 ≤ c.toNat ∧ c.toNat ≤ 90) ∨ (97 ≤ c.toNat ∧ c.toNat ≤ 122) ∨ (48 ≤ c.toNat ∧ c.toNat ≤ 57) ∨ c.toNat = 95
      ∨ c.toNat = 36 := by
    rcases h with h | h | h
    · simp only [isAlnum, Bool.or_eq_true, Bool.and_eq_true, decide_eq_true_eq, UInt8.le_iff_toNat_le, UInt8.reduceToNat] at h
      omega
    · subst h; simp
    · subst h; simp
  refine ⟨?_, ?_⟩
  · intro h0; subst h0; simp at key
  · simp only [isSpace, Bool.or_eq_false_iff, decide_eq_false_iff_not]
    refine ⟨⟨⟨?_, ?_⟩, ?_⟩, ?_⟩ <;> (intro h0; subst h0; simp at key)

/-- the first byte of the text of anything but an array: not `,`, `[`, `/` or a blank -/
theorem enc_head (g : Nat → UInt64 → Bytes) (m : Mode) (hj : m.json = false) (hg : H1 g) (v : EV) (lvl : Nat) (hw : WFX v)
    (hna : ∀ l, v ≠ .arr l) : ∃ c r, enc g m lvl v = c :: r ∧ c ≠ 44 ∧ c ≠ 91 ∧ c ≠ 47 ∧ isSpace c = false := by
  cases v with
  | none => exact ⟨110, _, rfl, by decide, by decide, by decide, by decide⟩
  | null => exact ⟨110, _, rfl, by decide, by decide, by decide, by decide⟩
  | bool b =>
    cases b
    · exact ⟨78, [], by simp [enc, hj], by decide, by decide, by decide, by decide⟩
    · exact ⟨89, [], by simp [enc, hj], by decide, by decide, by decide, by decide⟩
  | int i =>
    simp only [enc]
    exact serV_head2 (SerV.num _ (itoa_number i hw.1 hw.2)) (by intro l h; cases h)
  | num b =>
    simp only [enc]
    refine serV_head2 (encReal_ser g hg _ b) ?_
    intro l; unfold denoteReal; repeat' split
    all_goals (intro h; cases h)
  | flt b =>
    simp only [enc]
    refine serV_head2 (encReal_ser g hg _ b) ?_
    intro l; unfold denoteReal; repeat' split
    all_goals (intro h; cases h)
  | str s => exact ⟨34, s.flatMap escByte ++ [34], by simp [enc, encString], by decide, by decide, by decide, by decide⟩
  | arr l => exact absurd rfl (hna l)
  | obj ms =>
    simp only [enc, hj, Bool.false_eq_true, if_false]
    cases hc : classOf ms with
    | none => exact ⟨123, _, by simp only [Option.getD_none, List.nil_append, List.cons_append, List.append_assoc]; rfl, by decide, by decide, by decide, by decide⟩
    | some cls =>
      obtain ⟨c0, cs, rfl, hc0, _, _⟩ := classOf_wf ms hw cls hc
      obtain ⟨h47, _, _, _, h91, _, _, _⟩ := clsStart_facts hc0
      obtain ⟨h44, hsp⟩ := clsStart_more hc0
      exact ⟨c0, _, by simp only [Option.getD_some, List.cons_append, List.append_assoc]; rfl, h44, h91, h47, hsp⟩

theorem indent_ws (n : Nat) : Ws (indentOf n) := by
  intro c hc
  simp [indentOf] at hc
  exact Or.inr (Or.inl hc.2)

/-- newline + indentation after a value inside an array / an object -/
theorem nl_sepA (K : List Ctx) (L : List Open) (P : List Bytes) (j : Junk) (n : Nat) (rest : Bytes) :
    loop (mk .WAIT_SEP (.ARRAY :: K) L P [] j) ((10 :: indentOf n) ++ rest) =
      loop (mk .WAIT_COMMA_OR_VALUE (.ARRAY :: K) L P [] j) rest := by
  rw [List.cons_append, loop_next (q := mk .WAIT_COMMA_OR_VALUE (.ARRAY :: K) L P [] j) _ (by simp [body, dispatch, next])]
  exact ws_skip .WAIT_COMMA_OR_VALUE (by simp) .ARRAY K L P j _ rest (indent_ws n)

theorem nl_sepO (K : List Ctx) (L : List Open) (P : List Bytes) (j : Junk) (n : Nat) (rest : Bytes) :
    loop (mk .WAIT_SEP (.OBJECT :: K) L P [] j) ((10 :: indentOf n) ++ rest) =
      loop (mk .WAIT_COMMA_OR_PROPERTY (.OBJECT :: K) L P [] j) rest := by
  rw [List.cons_append, loop_next (q := mk .WAIT_COMMA_OR_PROPERTY (.OBJECT :: K) L P [] j) _ (by simp [body, dispatch, next])]
  exact ws_skip .WAIT_COMMA_OR_PROPERTY (by simp) .OBJECT K L P j _ rest (indent_ws n)

theorem open_array_S (S : St) (hS : S = .WAIT_VALUE ∨ S = .WAIT_COMMA_OR_VALUE) (k : Ctx) (K : List Ctx) (L : List Open)
    (P : List Bytes) (j : Junk) (rest : Bytes) (hd : L.length ≤ 1000) :
    loop (mk S (k :: K) L P [] j) (91 :: rest) = loop (mk S (.ARRAY :: k :: K) (.arr [] :: L) P [] j) rest := by
  apply loop_next
  have : ¬ L.length > maxDepth := by simp [maxDepth]; omega
  rcases hS with rfl | rfl <;> simp [body, dispatch, waitValue, isDigit, this, next]


/-- from WAIT_COMMA_OR_VALUE a non-array value is read as from WAIT_VALUE -/
theorem start_bridge (g : Nat → UInt64 → Bytes) (m : Mode) (hj : m.json = false) (hg : H1 g) (v : EV) (lvl : Nat) (hw : WFX v)
    (hna : ∀ l, v ≠ .arr l) (S : St) (hS : S = .WAIT_VALUE ∨ S = .WAIT_COMMA_OR_VALUE) (k : Ctx) (K : List Ctx)
    (L : List Open) (P : List Bytes) (j : Junk) (rest : Bytes) :
    loop (mk S (k :: K) L P [] j) (enc g m lvl v ++ rest) = loop (mk .WAIT_VALUE (k :: K) L P [] j) (enc g m lvl v ++ rest) := by
  rcases hS with rfl | rfl
  · rfl
  · obtain ⟨c, r, he, h44, h91, h47, hsp⟩ := enc_head g m hj hg v lvl hw hna
    rw [he, List.cons_append]
    exact bridge_value k K L P j c _ h44 h91 h47 hsp

section
variable (g : Nat → UInt64 → Bytes) (m : Mode) (hp : m.pretty = true) (hj : m.json = false) (hg : H1 g)
include hp hj hg

theorem pitems_head (lvl : Nat) (multi big : Bool) (i : Nat) (t : List EV) (post rest : Bytes) (hpost : Ws post) :
    ∃ d r, isDelim d ∧ encItems g m lvl multi big (i + 1) t ++ post ++ 93 :: rest = d :: r := by
  cases t with
  | nil =>
    simp only [encItems, List.nil_append]
    exact head_delim post hpost 93 (by simp) rest
  | cons y t' =>
    cases htext : encItems g m lvl multi big (i + 1) (y :: t') ++ post ++ 93 :: rest with
    | nil => simp at htext
    | cons d r =>
      refine ⟨d, r, ?_, rfl⟩
      simp only [encItems, Nat.succ_pos, if_true, sep2, sep1, hp, hj, Bool.not_false, Bool.true_and, List.nil_append] at htext
      split at htext
      · simp at htext; rw [← htext.1]; simp [isDelim]
      · simp at htext; rw [← htext.1]; simp [isDelim]

theorem pm_form (lvl : Nat) : ∀ (t : List (Bytes × EV)),
    encMembers g m lvl true t = [] ∨ ∃ r, encMembers g m lvl true t = 10 :: r := by
  intro t
  induction t with
  | nil => exact Or.inl rfl
  | cons kv t' ih =>
    obtain ⟨k, v⟩ := kv
    simp only [encMembers]
    split
    · refine Or.inr ⟨indentOf lvl ++ (k ++ 61 :: (enc g m lvl v ++ encMembers g m lvl true t')), ?_⟩
      simp [sep2, hp, hj]
    · exact ih

theorem pmembers_head (lvl lvl0 : Nat) (t : List (Bytes × EV)) (rest : Bytes) :
    ∃ r, encMembers g m lvl true t ++ (10 :: indentOf lvl0) ++ 125 :: rest = 10 :: r := by
  rcases pm_form g m hp hj hg lvl t with h | ⟨r, h⟩
  · exact ⟨indentOf lvl0 ++ 125 :: rest, by simp [h]⟩
  · exact ⟨r ++ (10 :: indentOf lvl0) ++ 125 :: rest, by simp [h]⟩

mutual
theorem xp_value : ∀ (v : EV) (lvl : Nat), WFX v → ∀ (S : St), (S = .WAIT_VALUE ∨ S = .WAIT_COMMA_OR_VALUE) →
    ∀ (k : Ctx) (K : List Ctx) (L : List Open) (P : List Bytes) (j : Junk)
    (d : UInt8) (rest : Bytes), isDelim d → L.length + xdepth v ≤ 1001 → ∀ (L' : List Open) (P' : List Bytes),
    putLP L P (xnorm g m v) = some (L', P') → ∃ j',
    loop (mk S (k :: K) L P [] j) (enc g m lvl v ++ d :: rest) =
      loop (mk (endSt (k :: K)) (k :: K) L' P' [] j') (d :: rest)
  | .none, lvl, hw, S, hS, k, K, L, P, j, d, rest, hd, _, L', P', hput => by
    rw [start_bridge g m hj hg .none lvl hw (by intro l h; cases h) S hS]
    simp only [enc, xnorm] at hput ⊢
    exact ⟨j, literal_ok _ .null (Or.inl ⟨rfl, rfl⟩) k K L P j d rest hd L' P' hput⟩
  | .null, lvl, hw, S, hS, k, K, L, P, j, d, rest, hd, _, L', P', hput => by
    rw [start_bridge g m hj hg .null lvl hw (by intro l h; cases h) S hS]
    simp only [enc, xnorm] at hput ⊢
    exact ⟨j, literal_ok _ .null (Or.inl ⟨rfl, rfl⟩) k K L P j d rest hd L' P' hput⟩
  | .bool b, lvl, hw, S, hS, k, K, L, P, j, d, rest, hd, _, L', P', hput => by
    rw [start_bridge g m hj hg (.bool b) lvl hw (by intro l h; cases h) S hS]
    simp only [enc, xnorm, hj, Bool.false_eq_true, if_false] at hput ⊢
    exact ⟨j, yn_ok b k K L P j d rest hd L' P' hput⟩
  | .int i, lvl, hw, S, hS, k, K, L, P, j, d, rest, hd, _, L', P', hput => by
    rw [start_bridge g m hj hg (.int i) lvl hw (by intro l h; cases h) S hS]
    simp only [enc, xnorm] at hput ⊢
    exact ⟨j, number_ok _ (itoa_number i hw.1 hw.2) k K L P j d rest hd L' P' hput⟩
  | .num b, lvl, hw, S, hS, k, K, L, P, j, d, rest, hd, hdep, L', P', hput => by
    rw [start_bridge g m hj hg (.num b) lvl hw (by intro l h; cases h) S hS]
    simp only [enc, xnorm] at hput ⊢
    exact value_ok (encReal_ser g hg _ b) k K L P j d rest hd (by
      have : depth (denoteReal g (precD m) b) = 0 := by
        unfold denoteReal; repeat' split
        all_goals simp [depth]
      simp [xdepth] at hdep
      omega) L' P' hput
  | .flt b, lvl, hw, S, hS, k, K, L, P, j, d, rest, hd, hdep, L', P', hput => by
    rw [start_bridge g m hj hg (.flt b) lvl hw (by intro l h; cases h) S hS]
    simp only [enc, xnorm] at hput ⊢
    exact value_ok (encReal_ser g hg _ b) k K L P j d rest hd (by
      have : depth (denoteReal g (precF m) b) = 0 := by
        unfold denoteReal; repeat' split
        all_goals simp [depth]
      simp [xdepth] at hdep
      omega) L' P' hput
  | .str s, lvl, hw, S, hS, k, K, L, P, j, d, rest, hd, hdep, L', P', hput => by
    rw [start_bridge g m hj hg (.str s) lvl hw (by intro l h; cases h) S hS]
    simp only [enc, xnorm] at hput ⊢
    exact value_ok (encString_ser s hw) k K L P j d rest hd (by simp [xdepth] at hdep; simp [depth]; omega) L' P'
      (by simpa [norm] using hput)
  | .arr [], lvl, _, S, hS, k, K, L, P, j, d, rest, hd, hdep, L', P', hput => by
    have hl : arrayLayout m [] = (false, false) := by
      cases m.pretty <;> simp [arrayLayout, isStrV, isArrV, isObjV]
    simp only [enc, encItems, hl, xnorm, xnormL] at hput ⊢
    refine ⟨j, ?_⟩
    have hlen : L.length ≤ 1000 := by simp [xdepth] at hdep; omega
    simp only [Bool.false_eq_true, if_false, List.append_nil, List.cons_append, List.nil_append]
    rw [open_array_S S hS k K L P j _ hlen]
    refine close_array k K [] L P j S ?_ _ L' P' (by simpa using hput)
    rcases hS with rfl | rfl
    · exact Or.inr rfl
    · exact Or.inl (Or.inr rfl)
  | .arr (x :: t), lvl, hw, S, hS, k, K, L, P, j, d, rest, hd, hdep, L', P', hput => by
    simp only [enc, encItems, xnorm, xnormL] at hput ⊢
    have hlen : L.length ≤ 1000 := by simp [xdepth] at hdep; omega
    generalize hmul : (arrayLayout m (x :: t)).1 = multi at *
    generalize hbig : (arrayLayout m (x :: t)).2 = big at *
    simp only [Nat.lt_irrefl, if_false, List.nil_append, List.append_assoc, List.cons_append]
    rw [open_array_S S hS k K L P j _ hlen]
    have hpre : Ws (if multi = true then 10 :: indentOf (if multi = true then lvl + 1 else lvl) else []) := by
      split
      · exact ws_indent _
      · exact ws_nil
    have hpost : Ws (if multi = true then 10 :: indentOf lvl else []) := by
      split
      · exact ws_indent _
      · exact ws_nil
    rw [ws_skip S (by rcases hS with rfl | rfl <;> simp) .ARRAY (k :: K) _ P j _ _ hpre]
    obtain ⟨d1, r1, hd1, he1⟩ := pitems_head g m hp hj hg (if multi = true then lvl + 1 else lvl) multi big 0 t
      (if multi = true then 10 :: indentOf lvl else []) (d :: rest) hpost
    simp only [List.append_assoc] at he1
    rw [he1]
    obtain ⟨j1, h1⟩ := xp_value x (if multi = true then lvl + 1 else lvl) hw.1 S hS .ARRAY (k :: K) (.arr [] :: L) P j d1 r1 hd1
      (by simp [xdepth, xdepthL] at hdep; simp; omega) (.arr [xnorm g m x] :: L) P rfl
    rw [h1, ← he1]
    have : endSt (.ARRAY :: k :: K) = .WAIT_SEP := rfl
    rw [this]
    exact xp_items t (if multi = true then lvl + 1 else lvl) multi big 0 hw.2 [xnorm g m x] k K L P j1 _ (d :: rest) hpost
      (by simp [xdepth, xdepthL] at hdep; omega) L' P' (by simpa using hput)
  | .obj ms, lvl, hw, S, hS, k, K, L, P, j, d, rest, hd, hdep, L', P', hput => by
    rw [start_bridge g m hj hg (.obj ms) lvl hw (by intro l h; cases h) S hS]
    simp only [enc, hj, hp, Bool.false_eq_true, if_false, if_true, xnorm] at hput ⊢
    have hlen : L.length ≤ 1000 := by simp [xdepth] at hdep; omega
    simp only [List.append_assoc, List.cons_append, List.nil_append]
    cases hc : classOf ms with
    | none =>
      simp only [hc, Option.getD_none, List.nil_append] at hput ⊢
      rw [open_object k K L P j _ hlen]
      exact xp_members ms (lvl + 1) lvl false hw [] k K L P j (d :: rest) .WAIT_PROPERTY (Or.inl ⟨rfl, rfl⟩)
        (by simp [xdepth] at hdep; omega) L' P' hput
    | some cls =>
      simp only [hc, Option.getD_some] at hput ⊢
      obtain ⟨c0, cs, rfl, hc0, hcs, hres⟩ := classOf_wf ms hw cls hc
      have := class_open c0 cs hc0 hcs hres k K L P j
        (encMembers g m (lvl + 1) false ms ++ (10 :: (indentOf lvl ++ 125 :: d :: rest))) hlen
      simp only [List.cons_append, List.append_assoc] at this ⊢
      rw [this]
      exact xp_members ms (lvl + 1) lvl false hw _ k K L P j (d :: rest) .WAIT_PROPERTY (Or.inl ⟨rfl, rfl⟩)
        (by simp [xdepth] at hdep; omega) L' P' hput

/-- the items after the first, the closing white space and bracket -/
theorem xp_items : ∀ (t : List EV) (lvl : Nat) (multi big : Bool) (i : Nat), WFXL t → ∀ (r : List JV) (k : Ctx) (K : List Ctx)
    (L : List Open) (P : List Bytes) (j : Junk) (post rest : Bytes), Ws post → L.length + 1 + xdepthL t ≤ 1001 →
    ∀ (L' : List Open) (P' : List Bytes), putLP L P (.arr (r.reverse ++ xnormL g m t)) = some (L', P') → ∃ j',
    loop (mk .WAIT_SEP (.ARRAY :: k :: K) (.arr r :: L) P [] j)
        (encItems g m lvl multi big (i + 1) t ++ (post ++ 93 :: rest)) =
      loop (mk (endSt (k :: K)) (k :: K) L' P' [] j') rest
  | [], lvl, multi, big, i, _, r, k, K, L, P, j, post, rest, hpost, _, L', P', hput => by
    simp only [encItems, xnormL, List.append_nil, List.nil_append] at hput ⊢
    obtain ⟨s', hs', h2⟩ := sepA_ws (k :: K) (.arr r :: L) P j post hpost .WAIT_SEP (93 :: rest) (Or.inl rfl)
    rw [h2]
    exact ⟨j, close_array k K r L P j s' (Or.inl hs') rest L' P' hput⟩
  | y :: t', lvl, multi, big, i, hw, r, k, K, L, P, j, post, rest, hpost, hdep, L', P', hput => by
    simp only [encItems, xnormL, Nat.succ_pos, if_true, sep2, sep1, hp, hj, Bool.not_false, Bool.true_and,
      List.nil_append, List.append_assoc] at hput ⊢
    -- the separator leaves the machine in a value-expecting state
    have hsep : ∃ S', (S' = .WAIT_VALUE ∨ S' = .WAIT_COMMA_OR_VALUE) ∧ ∀ tail,
        loop (mk .WAIT_SEP (.ARRAY :: k :: K) (.arr r :: L) P [] j)
          ((if (multi && (big || decide ((i + 1) % 16 = 0))) = true then 10 :: indentOf lvl else [44, 32]) ++ tail) =
        loop (mk S' (.ARRAY :: k :: K) (.arr r :: L) P [] j) tail := by
      split
      · exact ⟨.WAIT_COMMA_OR_VALUE, Or.inr rfl, fun tail => nl_sepA (k :: K) _ P j lvl tail⟩
      · refine ⟨.WAIT_VALUE, Or.inl rfl, fun tail => ?_⟩
        simp only [List.cons_append, List.nil_append]
        rw [sepA_comma (k :: K) _ P j .WAIT_SEP (Or.inl rfl)]
        exact loop_next _ (by simp [body, dispatch, waitValue, isDigit, isAlnum, isSpace, next])
    obtain ⟨S', hS', hrun⟩ := hsep
    rw [hrun]
    obtain ⟨d1, r1, hd1, he1⟩ := pitems_head g m hp hj hg lvl multi big (i + 1) t' post rest hpost
    simp only [List.append_assoc] at he1
    rw [he1]
    obtain ⟨j1, h1⟩ := xp_value y lvl hw.1 S' hS' .ARRAY (k :: K) (.arr r :: L) P j d1 r1 hd1
      (by simp [xdepthL] at hdep; simp; omega) (.arr (xnorm g m y :: r) :: L) P rfl
    rw [h1, ← he1]
    have : endSt (.ARRAY :: k :: K) = .WAIT_SEP := rfl
    rw [this]
    exact xp_items t' lvl multi big (i + 1) hw.2 (xnorm g m y :: r) k K L P j1 post rest hpost
      (by simp [xdepthL] at hdep; omega) L' P' (by simpa using hput)

/-- the members from `ms` on, the closing newline and brace -/
theorem xp_members : ∀ (ms : List (Bytes × EV)) (lvl lvl0 : Nat) (started : Bool), WFXM ms → ∀ (acc : List (Bytes × JV)) (k : Ctx)
    (K : List Ctx) (L : List Open) (P : List Bytes) (j : Junk) (rest : Bytes) (S : St),
    ((started = false ∧ S = .WAIT_PROPERTY) ∨ (started = true ∧ S = .WAIT_SEP)) → L.length + 1 + xdepthM ms ≤ 1001 →
    ∀ (L' : List Open) (P' : List Bytes), putLP L P (.obj (xnormM g m ms acc)) = some (L', P') → ∃ j',
    loop (mk S (.OBJECT :: k :: K) (.obj acc :: L) P [] j)
        (encMembers g m lvl started ms ++ (10 :: (indentOf lvl0 ++ 125 :: rest))) =
      loop (mk (endSt (k :: K)) (k :: K) L' P' [] j') rest
  | [], lvl, lvl0, started, _, acc, k, K, L, P, j, rest, S, hS, _, L', P', hput => by
    simp only [encMembers, xnormM, List.nil_append] at hput ⊢
    rcases hS with ⟨_, rfl⟩ | ⟨_, rfl⟩
    · have := ws_skip .WAIT_PROPERTY (by simp) .OBJECT (k :: K) (.obj acc :: L) P j (10 :: indentOf lvl0) (125 :: rest)
        (ws_indent lvl0)
      simp only [List.cons_append] at this
      rw [this]
      exact ⟨j, close_object k K acc L P j .WAIT_PROPERTY (Or.inr rfl) rest L' P' hput⟩
    · have := nl_sepO (k :: K) (.obj acc :: L) P j lvl0 (125 :: rest)
      simp only [List.cons_append] at this
      rw [this]
      exact ⟨j, close_object k K acc L P j .WAIT_COMMA_OR_PROPERTY (Or.inl (Or.inr rfl)) rest L' P' hput⟩
  | (key, v) :: t, lvl, lvl0, started, hw, acc, k, K, L, P, j, rest, S, hS, hdep, L', P', hput => by
    simp only [encMembers, xnormM, hj, Bool.false_or] at hput ⊢
    cases hok : (okV v && !skipCls key v)
    · simp only [hok, Bool.false_eq_true, if_false] at hput ⊢
      exact xp_members t lvl lvl0 started hw.2 acc k K L P j rest S hS (by simp [xdepthM] at hdep; omega) L' P' hput
    · simp only [hok, if_true] at hput ⊢
      obtain ⟨hvk, hwv⟩ := hw.1
      obtain ⟨c0, cs, rfl, hc0, hcs⟩ := hvk
      obtain ⟨h47, _, _, _⟩ := keyStart_facts hc0
      obtain ⟨h44, hsp⟩ := keyStart_more hc0
      simp only [sep2, hp, hj, Bool.not_false, Bool.true_and, if_true, List.append_assoc, List.nil_append,
        List.cons_append, ite_self, Bool.false_eq_true, if_false]
      -- newline + indentation, then the name from WAIT_PROPERTY
      have hstart : ∀ tail, loop (mk S (.OBJECT :: k :: K) (.obj acc :: L) P [] j) (10 :: (indentOf lvl ++ c0 :: tail)) =
          loop (mk .WAIT_PROPERTY (.OBJECT :: k :: K) (.obj acc :: L) P [] j) (c0 :: tail) := by
        intro tail
        rcases hS with ⟨_, rfl⟩ | ⟨_, rfl⟩
        · have := ws_skip .WAIT_PROPERTY (by simp) .OBJECT (k :: K) (.obj acc :: L) P j (10 :: indentOf lvl) (c0 :: tail)
            (ws_indent lvl)
          simpa using this
        · have := nl_sepO (k :: K) (.obj acc :: L) P j lvl (c0 :: tail)
          simp only [List.cons_append] at this
          rw [this]
          exact bridge_prop .OBJECT (k :: K) _ P j c0 tail h44 h47 hsp
      rw [hstart]
      have hname := xname_ok c0 cs hc0 hcs .OBJECT (k :: K) (.obj acc :: L) P j
        (enc g m lvl v ++ (encMembers g m lvl true t ++ 10 :: (indentOf lvl0 ++ 125 :: rest)))
      simp only [List.cons_append, List.append_assoc] at hname
      rw [hname]
      obtain ⟨r1, he1⟩ := pmembers_head g m hp hj hg lvl lvl0 t rest
      simp only [List.append_assoc, List.cons_append] at he1
      rw [he1]
      obtain ⟨j1, h1⟩ := xp_value v lvl hwv .WAIT_VALUE (Or.inl rfl) .OBJECT (k :: K) (.obj acc :: L) ((c0 :: cs) :: P) j 10 r1
        (by simp [isDelim]) (by simp [xdepthM] at hdep; simp; omega) (.obj (objSet acc (c0 :: cs) (xnorm g m v)) :: L) P rfl
      rw [h1, ← he1]
      have : endSt (.OBJECT :: k :: K) = .WAIT_SEP := rfl
      rw [this]
      exact xp_members t lvl lvl0 true hw.2 _ k K L P j1 rest .WAIT_SEP (Or.inr ⟨rfl, rfl⟩)
        (by simp [xdepthM] at hdep; omega) L' P' hput
end
end


theorem indent_nonul (n : Nat) : (0 : UInt8) ∉ indentOf n := by
  intro h; simp [indentOf] at h

theorem sep_nonul (m : Mode) : (0 : UInt8) ∉ sep1 m ∧ (0 : UInt8) ∉ sep2 m := by
  constructor
  · unfold sep1; split <;> simp
  · unfold sep2; split <;> simp

section
variable (g : Nat → UInt64 → Bytes) (m : Mode) (hj : m.json = false) (hg : H1 g)
include hj hg

mutual
theorem xenc_nonul' : ∀ (v : EV) (lvl : Nat), WFX v → (0 : UInt8) ∉ enc g m lvl v
  | .none, _, _ => by simp [enc]
  | .null, _, _ => by simp [enc]
  | .bool b, _, _ => by cases b <;> simp [enc, hj]
  | .int i, _, hw => by simp only [enc]; exact number_nonul (itoa_number i hw.1 hw.2)
  | .num b, _, _ => by simp only [enc]; exact serV_nonul (encReal_ser g hg _ b)
  | .flt b, _, _ => by simp only [enc]; exact serV_nonul (encReal_ser g hg _ b)
  | .str s, _, hw => by simp only [enc]; exact serV_nonul (encString_ser s hw)
  | .arr l, lvl, hw => by
    simp only [enc]
    have h1 := xencItems_nonul' l (if (arrayLayout m l).1 = true then lvl + 1 else lvl) (arrayLayout m l).1 (arrayLayout m l).2 0 hw
    have h2 : ∀ n, (0 : UInt8) ∉ (if (arrayLayout m l).1 = true then 10 :: indentOf n else []) := by
      intro n; split
      · simp [indent_nonul]
      · simp
    simp [h1, h2]
  | .obj ms, lvl, hw => by
    simp only [enc, hj, Bool.false_eq_true, if_false]
    have h1 := xencMembers_nonul' ms (if m.pretty = true then lvl + 1 else lvl) false hw
    have h2 : (0 : UInt8) ∉ (classOf ms).getD [] := by
      cases hc : classOf ms with
      | none => simp
      | some c => simpa using validCls_nonul (classOf_wf ms hw c hc)
    have h3 : (0 : UInt8) ∉ (if m.pretty = true then 10 :: indentOf lvl else []) := by
      split
      · simp [indent_nonul]
      · simp
    simp [h1, h2, h3]
theorem xencItems_nonul' : ∀ (l : List EV) (lvl : Nat) (multi big : Bool) (i : Nat), WFXL l →
    (0 : UInt8) ∉ encItems g m lvl multi big i l
  | [], _, _, _, _, _ => by simp [encItems]
  | x :: t, lvl, multi, big, i, hw => by
    simp only [encItems]
    have h1 := xenc_nonul' x lvl hw.1
    have h2 := xencItems_nonul' t lvl multi big (i + 1) hw.2
    have h3 : (0 : UInt8) ∉ (if i > 0 then (if (multi && (big || decide (i % 16 = 0))) = true then sep2 m ++ 10 :: indentOf lvl else sep1 m) else []) := by
      have hs := sep_nonul m
      split
      · split
        · simp [hs.2, indent_nonul]
        · exact hs.1
      · simp
    intro h0
    rcases List.mem_append.mp h0 with h | h
    · rcases List.mem_append.mp h with h | h
      · exact h3 h
      · exact h1 h
    · exact h2 h
theorem xencMembers_nonul' : ∀ (ms : List (Bytes × EV)) (lvl : Nat) (started : Bool), WFXM ms →
    (0 : UInt8) ∉ encMembers g m lvl started ms
  | [], _, _, _ => by simp [encMembers]
  | (k, v) :: t, lvl, started, hw => by
    simp only [encMembers, hj, Bool.false_or]
    split
    · rename_i hok
      obtain ⟨hvk, hwv⟩ := hw.1
      have h1 := validKey_nonul hvk
      have h2 := xenc_nonul' v lvl hwv
      have h3 := xencMembers_nonul' t lvl true hw.2
      have hs := sep_nonul m
      have h4 : (0 : UInt8) ∉ (if started = true then sep2 m else []) := by
        split
        · exact hs.2
        · simp
      have h5 : (0 : UInt8) ∉ (if m.pretty = true then 10 :: indentOf lvl else []) := by
        split
        · simp [indent_nonul]
        · simp
      simp [h1, h2, h3, h4, h5]
    · exact xencMembers_nonul' t lvl started hw.2
end
end

/-- **XDL round trip, PRETTY layout** -/
theorem xdl_decode_encode_pretty (g : Nat → UInt64 → Bytes) (m : Mode) (hp : m.pretty = true) (hj : m.json = false) (hg : H1 g)
    (v : EV) (hw : WFX v) (hd : xdepth v ≤ 1000) : decode (encode g m v) = some (some (xnorm g m v)) := by
  have henc : encode g m v = enc g m 0 v ++ [10] := by simp [encode, hp]
  rw [henc]
  have h0 : (0 : UInt8) ∉ enc g m 0 v ++ [10] := by
    have := xenc_nonul' g m hj hg v 0 hw
    simp [this]
  obtain ⟨j', hrun⟩ := xp_value g m hp hj hg v 0 hw .WAIT_VALUE (Or.inl rfl) .ROOT [] [.arr []] [] junk0 10 [32]
    (by simp [isDelim]) (by simp; omega) [.arr [xnorm g m v]] [] rfl
  have hl : loop init ((enc g m 0 v ++ [10]) ++ [32]) = some (false, mk .WAIT_VALUE [.ROOT] [.arr [xnorm g m v]] [] [] j') := by
    have e : (enc g m 0 v ++ [10]) ++ [32] = enc g m 0 v ++ 10 :: [32] := by simp
    rw [e, init_mk, hrun]
    have : endSt [Ctx.ROOT] = .WAIT_VALUE := rfl
    rw [this]
    have := ws_skip .WAIT_VALUE (by simp) .ROOT [] [.arr [xnorm g m v]] [] j' [10, 32] []
      (by intro c hc; simp at hc; rcases hc with rfl | rfl
          · exact Or.inr (Or.inr (Or.inl rfl))
          · exact Or.inl rfl)
    simp only [List.append_nil] at this
    rw [this]; rfl
  rw [AslProofs.Xdl.loop_append] at hl
  cases hlw : loop init (enc g m 0 v ++ [10]) with
  | none => rw [hlw] at hl; simp at hl
  | some r =>
    obtain ⟨f, q⟩ := r
    rw [hlw] at hl
    cases f with
    | true => simp at hl
    | false =>
      simp only at hl
      have hq : q.state ≠ .ERR := by
        intro he
        have := AslProofs.Xdl.loop_err [32] q false _ he hl
        simp at this
      have c32 : cstr [32] = [32] := by decide
      have hpq : parse q [32] = some (mk .WAIT_VALUE [.ROOT] [.arr [xnorm g m v]] [] [] j') := by
        simp [parse, hq, c32, hl]
      rw [AslProofs.XdlPrefix.decode_of_loop _ h0 q _ hlw hpq]
      simp [value]

end AslProofs.XdlX
