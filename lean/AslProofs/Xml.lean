import AslModel.Xml
/-! Helper lemmas for C07 (Xml).  Property statements live in `AslProps/C07.lean`. -/
namespace AslProofs.Xml
open AslModel.Xml

/-! ## stack safety -/

def inTag : St → Bool
  | .waitAtt | .attName | .waitEqual | .waitAttVal | .attVal | .attValSq | .slash => true
  | _ => false

/-- invariant of the decoder loop that makes every stack access legal -/
structure Inv (c : Cfg) : Prop where
  ne : 1 ≤ c.stack.length
  tag2 : inTag c.st = true → 2 ≤ c.stack.length
  last2 : c.last ≠ .free → 2 ≤ c.stack.length
  lastv : c.last = .free ∨ c.last = .attVal ∨ c.last = .attValSq
  lastst : c.last ≠ .free → c.st = .attVal ∨ c.st = .attValSq ∨ c.st = .refStart ∨ c.st = .charRef

theorem inv_init : Inv init := by
  constructor <;> simp [init, inTag]

def StepOK : Step → Prop
  | .cont c' => Inv c'
  | .null => True
  | .fault => False

theorem step_inv (c : Cfg) (ch : UInt8) (h : Inv c) : StepOK (step true c ch) := by
  obtain ⟨st, last, b, ref, atname, angle, prev, stack, next⟩ := c
  obtain ⟨h1, h2, h3, h4, h5⟩ := h
  simp only at h1 h2 h3 h4 h5
  rcases stack with _ | ⟨f, _ | ⟨p, r⟩⟩
  · simp at h1
  all_goals
    cases st <;> simp only [step] <;> (repeat' split) <;>
    first
    | trivial
    | (simp_all [inTag, push, topText, popAttach, topSetAttr, ofOpt, StepOK, lengthLt2]; done)
    | (simp only [StepOK, push, topText, popAttach, topSetAttr, ofOpt]; constructor <;> simp_all [inTag, attach, lengthLt2]; done)
    | (rcases h4 with h | h | h <;> subst h <;> simp only [StepOK] <;> constructor <;> simp_all [inTag]; done)


theorem run_no_fault (c : Cfg) (bs : Bytes) (h : Inv c) : run true c bs ≠ .fault := by
  induction bs generalizing c with
  | nil =>
    obtain ⟨h1, _⟩ := h
    unfold run finish
    split
    · rename_i hs; simp [hs] at h1
    · split <;> simp
  | cons ch rest ih =>
    have hs := step_inv c ch h
    unfold run
    split
    · rename_i c' heq; rw [heq] at hs; exact ih c' hs
    · simp
    · rename_i heq; rw [heq] at hs; exact hs.elim

theorem decode_no_fault (x : Bytes) : decode x ≠ .fault := by
  unfold decode decodeG
  simp only
  split
  · simp
  · exact run_no_fault _ _ inv_init

/-- without the repaired guard the model pops the seeded root on `</>` -/
def isFault : Result → Bool
  | .fault => true
  | _ => false
theorem unguarded_faults : isFault (decodeG false [60, 47, 62]) = true := by decide


/-! ## parent links -/

def kids : Node → List Node
  | .elem _ _ _ _ cs => cs
  | .text .. => []

mutual
def linksOK : Node → Bool
  | .elem id _ _ _ cs => kidsOK id cs
  | .text .. => true
def kidsOK (pid : Nat) : List Node → Bool
  | [] => true
  | c :: cs => (c.parent == some pid) && linksOK c && kidsOK pid cs
end

theorem kidsOK_append (p : Nat) (a b : List Node) : kidsOK p (a ++ b) = (kidsOK p a && kidsOK p b) := by
  induction a with
  | nil => simp [kidsOK]
  | cons x xs ih => simp [kidsOK, ih, Bool.and_assoc]

theorem linksOK_setParent (n : Node) (p : Nat) : linksOK (n.setParent p) = linksOK n := by
  cases n <;> simp [Node.setParent, linksOK]

theorem parent_setParent (n : Node) (p : Nat) : (n.setParent p).parent = some p := by
  cases n <;> simp [Node.setParent, Node.parent]

theorem attach_ok (f : Frame) (n : Node) (hf : kidsOK f.id f.children = true) (hn : linksOK n = true) :
    kidsOK (attach f n).id (attach f n).children = true := by
  simp [attach, kidsOK_append, hf, kidsOK, linksOK_setParent, hn, parent_setParent]

def LInv (c : Cfg) : Prop := ∀ f ∈ c.stack, kidsOK f.id f.children = true

def LStepOK : Step → Prop
  | .cont c' => LInv c'
  | _ => True

theorem toNode_ok (f : Frame) (h : kidsOK f.id f.children = true) : linksOK f.toNode = true := by
  simpa [Frame.toNode, linksOK] using h

theorem lstep_ofOpt (o : Option Cfg) (h : ∀ c', o = some c' → LInv c') : LStepOK (ofOpt o) := by
  cases o with
  | none => simp [ofOpt, LStepOK]
  | some c' => simpa [ofOpt, LStepOK] using h c' rfl

theorem linv_push (c : Cfg) (t : Bytes) (h : LInv c) : LInv (push c t) := by
  intro f hf
  simp only [push, List.mem_cons] at hf
  rcases hf with rfl | hf
  · simp [kidsOK]
  · exact h f hf

theorem linv_topText (c c' : Cfg) (t : Bytes) (h : ∀ f ∈ c.stack, kidsOK f.id f.children = true)
    (e : topText c t = some c') : LInv c' := by
  unfold topText at e
  split at e
  · simp at e
  · rename_i f r hs
    simp only [Option.some.injEq] at e
    subst e
    rw [hs] at h
    intro x hx
    simp only [List.mem_cons] at hx
    rcases hx with rfl | hx
    · exact attach_ok _ _ (h f (by simp)) (by simp [linksOK])
    · exact h x (by simp [hx])

theorem linv_popAttach (c c' : Cfg) (h : ∀ f ∈ c.stack, kidsOK f.id f.children = true)
    (e : popAttach c = some c') : LInv c' := by
  unfold popAttach at e
  split at e
  · rename_i el p r hs
    simp only [Option.some.injEq] at e
    subst e
    rw [hs] at h
    intro x hx
    simp only [List.mem_cons] at hx
    rcases hx with rfl | hx
    · exact attach_ok _ _ (h p (by simp)) (toNode_ok _ (h el (by simp)))
    · exact h x (by simp [hx])
  · simp at e

theorem linv_topSetAttr (c c' : Cfg) (k v : Bytes) (h : ∀ f ∈ c.stack, kidsOK f.id f.children = true)
    (e : topSetAttr c k v = some c') : LInv c' := by
  unfold topSetAttr at e
  split at e
  · simp at e
  · rename_i f r hs
    simp only [Option.some.injEq] at e
    subst e
    rw [hs] at h
    intro x hx
    simp only [List.mem_cons] at hx
    rcases hx with rfl | hx
    · exact h f (by simp)
    · exact h x (by simp [hx])

theorem step_linv (g : Bool) (c : Cfg) (ch : UInt8) (h : LInv c) : LStepOK (step g c ch) := by
  obtain ⟨st, last, b, ref, atname, angle, prev, stack, next⟩ := c
  have h' : ∀ f ∈ stack, kidsOK f.id f.children = true := h
  cases st <;> simp only [step] <;> (repeat' split) <;>
    first
    | trivial
    | exact h'
    | exact linv_push _ _ h'
    | (apply lstep_ofOpt; intro c' e; first | exact linv_topText _ _ _ h' e | exact linv_popAttach _ _ h' e | exact linv_topSetAttr _ _ _ _ h' e)
    | skip


theorem kidsOK_mem (p : Nat) (cs : List Node) (h : kidsOK p cs = true) (c : Node) (hc : c ∈ cs) :
    c.parent = some p ∧ linksOK c = true := by
  induction cs with
  | nil => simp at hc
  | cons x xs ih =>
    simp only [kidsOK, Bool.and_eq_true, beq_iff_eq] at h
    simp only [List.mem_cons] at hc
    rcases hc with rfl | hc
    · exact ⟨h.1.1, h.1.2⟩
    · exact ih h.2 hc

theorem linksOK_clearParent (n : Node) : linksOK n.clearParent = linksOK n := by
  cases n <;> simp [Node.clearParent, linksOK]

theorem parent_clearParent (n : Node) : n.clearParent.parent = none := by
  cases n <;> simp [Node.clearParent, Node.parent]

theorem run_links (g : Bool) (c : Cfg) (bs : Bytes) (h : LInv c) (n : Node) (e : run g c bs = .node n) :
    linksOK n = true := by
  induction bs generalizing c with
  | nil =>
    unfold run finish at e
    split at e
    · simp at e
    · rename_i f r hs
      split at e
      · rename_i m hm
        simp only [Result.node.injEq] at e
        subst e
        have := h f (by simp [hs])
        rw [hm] at this
        simp only [kidsOK, Bool.and_eq_true, beq_iff_eq] at this
        rw [linksOK_clearParent]
        exact this.1.2
      · simp at e
  | cons ch rest ih =>
    have hs := step_linv g c ch h
    unfold run at e
    split at e
    · rename_i c' heq; rw [heq] at hs; exact ih c' hs e
    · simp at e
    · simp at e

theorem linv_init : LInv init := by
  intro f hf
  simp only [init, List.mem_singleton] at hf
  subst hf
  simp [kidsOK]

theorem decode_links (g : Bool) (x : Bytes) (n : Node) (e : decodeG g x = .node n) : linksOK n = true := by
  unfold decodeG at e
  simp only at e
  split at e
  · simp at e
  · exact run_links g _ _ linv_init n e

theorem run_root_parent (g : Bool) (c : Cfg) (bs : Bytes) (n : Node) (e : run g c bs = .node n) : n.parent = none := by
  induction bs generalizing c with
  | nil =>
    unfold run finish at e
    split at e
    · simp at e
    · split at e
      · simp only [Result.node.injEq] at e
        subst e
        exact parent_clearParent _
      · simp at e
  | cons ch rest ih =>
    unfold run at e
    split at e
    · rename_i c' _; exact ih c' e
    · simp at e
    · simp at e

theorem decode_root_parent (g : Bool) (x : Bytes) (n : Node) (e : decodeG g x = .node n) : n.parent = none := by
  unfold decodeG at e
  simp only at e
  split at e
  · simp at e
  · exact run_root_parent g _ _ n e

/-! ## feeding a prefix -/

def feed (g : Bool) (c : Cfg) : Bytes → Step
  | [] => .cont c
  | ch :: r => match step g c ch with
    | .cont c' => feed g c' r
    | .null => .null
    | .fault => .fault

theorem feed_append_cont {g : Bool} {c c' : Cfg} {xs : Bytes} (h : feed g c xs = .cont c') (ys : Bytes) :
    feed g c (xs ++ ys) = feed g c' ys := by
  induction xs generalizing c with
  | nil => simp only [feed, Step.cont.injEq] at h; subst h; rfl
  | cons x xs ih =>
    simp only [feed, List.cons_append] at h ⊢
    split at h
    · exact ih h
    · simp at h
    · simp at h

theorem run_append_cont {g : Bool} {c c' : Cfg} {xs : Bytes} (h : feed g c xs = .cont c') (ys : Bytes) :
    run g c (xs ++ ys) = run g c' ys := by
  induction xs generalizing c with
  | nil => simp only [feed, Step.cont.injEq] at h; subst h; rfl
  | cons x xs ih =>
    simp only [feed] at h
    simp only [List.cons_append, run]
    cases h1 : step g c x with
    | cont c1 => rw [h1] at h; exact ih h
    | null => rw [h1] at h; simp at h
    | fault => rw [h1] at h; simp at h

/-- `c'` agrees with `c` except for `b` (and the scratch fields `ref`, `prev`, `angle`) -/
structure Upd (c c' : Cfg) (b' : Bytes) : Prop where
  st : c'.st = c.st
  last : c'.last = c.last
  b : c'.b = b'
  atname : c'.atname = c.atname
  stack : c'.stack = c.stack
  next : c'.next = c.next

theorem Upd.trans {c c1 c2 : Cfg} {b1 b2 : Bytes} (h1 : Upd c c1 b1) (h2 : Upd c1 c2 b2) : Upd c c2 b2 :=
  ⟨h2.st.trans h1.st, h2.last.trans h1.last, h2.b, h2.atname.trans h1.atname, h2.stack.trans h1.stack, h2.next.trans h1.next⟩

/-- a run of characters that the current state only appends to `b` -/
theorem scan (g : Bool) (P : Cfg → Prop) (Q : UInt8 → Prop)
    (hstep : ∀ c ch, P c → Q ch → ∃ c', step g c ch = .cont c' ∧ Upd c c' (c.b ++ [ch]))
    (hP : ∀ c c' b', P c → Upd c c' b' → P c') :
    ∀ (ks : Bytes) (c : Cfg), P c → (∀ ch ∈ ks, Q ch) → ∃ c', feed g c ks = .cont c' ∧ Upd c c' (c.b ++ ks) := by
  intro ks
  induction ks with
  | nil => intro c _ _; exact ⟨c, rfl, ⟨rfl, rfl, by simp, rfl, rfl, rfl⟩⟩
  | cons k ks ih =>
    intro c hc hq
    obtain ⟨c1, h1, u1⟩ := hstep c k hc (hq k (by simp))
    obtain ⟨c2, h2, u2⟩ := ih c1 (hP c c1 _ hc u1) (fun ch h => hq ch (by simp [h]))
    refine ⟨c2, ?_, ?_⟩
    · simp only [feed, h1]; exact h2
    · have := u1.trans u2
      rw [u1.b] at this
      simpa using this


theorem forall_u8 (P : UInt8 → Prop) (h : ∀ n, n < 256 → P (UInt8.ofNat n)) : ∀ c, P c := by
  intro c
  have := h c.toNat c.toNat_lt
  simpa using this

theorem nameChar_facts : ∀ ch : UInt8, nameCharBad ch = false →
    ch ≠ 62 ∧ ch ≠ 47 ∧ isWs ch = false ∧ ch ≠ 61 ∧ ch ≠ 0 := by
  apply forall_u8; decide +kernel

theorem nameStart_facts : ∀ ch : UInt8, nameStartBad ch = false →
    ch ≠ 62 ∧ ch ≠ 47 ∧ ch ≠ 33 ∧ ch ≠ 63 ∧ isWs ch = false ∧ ch ≠ 0 ∧ nameCharBad ch = false := by
  apply forall_u8; decide +kernel

/-! ### single steps that only append to `b` -/

theorem step_tag_char (g : Bool) (c : Cfg) (ch : UInt8) (hst : c.st = .tag) (hq : nameCharBad ch = false) :
    ∃ c', step g c ch = .cont c' ∧ Upd c c' (c.b ++ [ch]) := by
  obtain ⟨h62, h47, hws, _, _⟩ := nameChar_facts ch hq
  obtain ⟨st, last, b, ref, atname, angle, prev, stack, next⟩ := c
  simp only at hst; subst hst
  simp only [step, beq_iff_eq, h62, h47, hws, hq, if_false, Bool.false_eq_true]
  exact ⟨_, rfl, ⟨rfl, rfl, rfl, rfl, rfl, rfl⟩⟩

theorem step_attName_char (g : Bool) (c : Cfg) (ch : UInt8) (hst : c.st = .attName) (hq : nameCharBad ch = false) :
    ∃ c', step g c ch = .cont c' ∧ Upd c c' (c.b ++ [ch]) := by
  obtain ⟨_, _, hws, h61, _⟩ := nameChar_facts ch hq
  obtain ⟨st, last, b, ref, atname, angle, prev, stack, next⟩ := c
  simp only at hst; subst hst
  simp only [step, beq_iff_eq, h61, hws, hq, if_false, Bool.false_eq_true]
  exact ⟨_, rfl, ⟨rfl, rfl, rfl, rfl, rfl, rfl⟩⟩

theorem step_tagEnd_char (g : Bool) (c : Cfg) (ch : UInt8) (hst : c.st = .tagEnd) (hq : ch ≠ 62) :
    ∃ c', step g c ch = .cont c' ∧ Upd c c' (c.b ++ [ch]) := by
  obtain ⟨st, last, b, ref, atname, angle, prev, stack, next⟩ := c
  simp only at hst; subst hst
  simp only [step, beq_iff_eq, hq, if_false]
  exact ⟨_, rfl, ⟨rfl, rfl, rfl, rfl, rfl, rfl⟩⟩

theorem step_free_char (g : Bool) (c : Cfg) (ch : UInt8) (hst : c.st = .free) (hq : ch ≠ 60 ∧ ch ≠ 38) :
    ∃ c', step g c ch = .cont c' ∧ Upd c c' (c.b ++ [ch]) := by
  obtain ⟨st, last, b, ref, atname, angle, prev, stack, next⟩ := c
  simp only at hst; subst hst
  simp only [step, beq_iff_eq, hq.1, hq.2, if_false]
  exact ⟨_, rfl, ⟨rfl, rfl, rfl, rfl, rfl, rfl⟩⟩

theorem step_attVal_char (g : Bool) (c : Cfg) (ch : UInt8) (hst : c.st = .attVal) (hq : ch ≠ 34 ∧ ch ≠ 38) :
    ∃ c', step g c ch = .cont c' ∧ Upd c c' (c.b ++ [ch]) := by
  obtain ⟨st, last, b, ref, atname, angle, prev, stack, next⟩ := c
  simp only at hst; subst hst
  simp only [step, beq_iff_eq, hq.1, hq.2, if_false]
  exact ⟨_, rfl, ⟨rfl, rfl, rfl, rfl, rfl, rfl⟩⟩

theorem scan_tag (g : Bool) (ks : Bytes) (c : Cfg) (hst : c.st = .tag) (hq : ∀ ch ∈ ks, nameCharBad ch = false) :
    ∃ c', feed g c ks = .cont c' ∧ Upd c c' (c.b ++ ks) :=
  scan g (fun c => c.st = .tag) (fun ch => nameCharBad ch = false) (step_tag_char g)
    (fun _ _ _ h u => u.st.trans h) ks c hst hq

theorem scan_attName (g : Bool) (ks : Bytes) (c : Cfg) (hst : c.st = .attName) (hq : ∀ ch ∈ ks, nameCharBad ch = false) :
    ∃ c', feed g c ks = .cont c' ∧ Upd c c' (c.b ++ ks) :=
  scan g (fun c => c.st = .attName) (fun ch => nameCharBad ch = false) (step_attName_char g)
    (fun _ _ _ h u => u.st.trans h) ks c hst hq

theorem scan_tagEnd (g : Bool) (ks : Bytes) (c : Cfg) (hst : c.st = .tagEnd) (hq : ∀ ch ∈ ks, ch ≠ 62) :
    ∃ c', feed g c ks = .cont c' ∧ Upd c c' (c.b ++ ks) :=
  scan g (fun c => c.st = .tagEnd) (fun ch => ch ≠ 62) (step_tagEnd_char g)
    (fun _ _ _ h u => u.st.trans h) ks c hst hq

theorem scan_free (g : Bool) (ks : Bytes) (c : Cfg) (hst : c.st = .free) (hq : ∀ ch ∈ ks, ch ≠ 60 ∧ ch ≠ 38) :
    ∃ c', feed g c ks = .cont c' ∧ Upd c c' (c.b ++ ks) :=
  scan g (fun c => c.st = .free) (fun ch => ch ≠ 60 ∧ ch ≠ 38) (step_free_char g)
    (fun _ _ _ h u => u.st.trans h) ks c hst hq

/-! ### `escape` read back in text (`FREE`) and in a double-quoted value (`ATT_VAL`) -/

def TextLike (c : Cfg) : Prop := (c.st = .free ∧ c.last = .free) ∨ (c.st = .attVal ∧ c.last = .attVal)

theorem feed_escapeByte (g : Bool) (c : Cfg) (ch : UInt8) (hc : TextLike c) (h0 : ch ≠ 0) :
    ∃ c', feed g c (escapeByte ch) = .cont c' ∧ Upd c c' (c.b ++ [ch]) := by
  obtain ⟨st, last, b, ref, atname, angle, prev, stack, next⟩ := c
  rcases hc with ⟨h1, h2⟩ | ⟨h1, h2⟩ <;> simp only at h1 h2 <;> subst h1 <;> subst h2
  all_goals
    by_cases h38 : ch = 38
    · subst h38; simp [escapeByte, feed, step, refExpand, entity]; exact ⟨rfl, rfl, rfl, rfl, rfl, rfl⟩
    by_cases h60 : ch = 60
    · subst h60; simp [escapeByte, feed, step, refExpand, entity]; exact ⟨rfl, rfl, rfl, rfl, rfl, rfl⟩
    by_cases h62 : ch = 62
    · subst h62; simp [escapeByte, feed, step, refExpand, entity]; exact ⟨rfl, rfl, rfl, rfl, rfl, rfl⟩
    by_cases h39 : ch = 39
    · subst h39; simp [escapeByte, feed, step, refExpand, entity]; exact ⟨rfl, rfl, rfl, rfl, rfl, rfl⟩
    by_cases h34 : ch = 34
    · subst h34; simp [escapeByte, feed, step, refExpand, entity]; exact ⟨rfl, rfl, rfl, rfl, rfl, rfl⟩
    simp [escapeByte, feed, step, h38, h60, h62, h39, h34]
    exact ⟨rfl, rfl, rfl, rfl, rfl, rfl⟩

/-- per-element version of `scan` for an encoder that maps every byte to a string -/
theorem scanMap (g : Bool) (P : Cfg → Prop) (Q : UInt8 → Prop) (f : UInt8 → Bytes)
    (hstep : ∀ c ch, P c → Q ch → ∃ c', feed g c (f ch) = .cont c' ∧ Upd c c' (c.b ++ [ch]))
    (hP : ∀ c c' b', P c → Upd c c' b' → P c') :
    ∀ (ks : Bytes) (c : Cfg), P c → (∀ ch ∈ ks, Q ch) →
      ∃ c', feed g c (ks.flatMap f) = .cont c' ∧ Upd c c' (c.b ++ ks) := by
  intro ks
  induction ks with
  | nil => intro c _ _; exact ⟨c, rfl, ⟨rfl, rfl, by simp, rfl, rfl, rfl⟩⟩
  | cons k ks ih =>
    intro c hc hq
    obtain ⟨c1, h1, u1⟩ := hstep c k hc (hq k (by simp))
    obtain ⟨c2, h2, u2⟩ := ih c1 (hP c c1 _ hc u1) (fun ch h => hq ch (by simp [h]))
    refine ⟨c2, ?_, ?_⟩
    · simp only [List.flatMap_cons]
      rw [feed_append_cont h1]; exact h2
    · have := u1.trans u2
      rw [u1.b] at this
      simpa using this

theorem textLike_upd (c c' : Cfg) (b' : Bytes) (h : TextLike c) (u : Upd c c' b') : TextLike c' := by
  unfold TextLike at *
  rw [u.st, u.last]; exact h

theorem takeWhile_nulfree (s : Bytes) (h : ∀ x ∈ s, x ≠ 0) : s.takeWhile (· != 0) = s := by
  induction s with
  | nil => rfl
  | cons a t ih =>
    have ha : a ≠ 0 := h a (by simp)
    simp only [List.takeWhile_cons, bne_iff_ne, ne_eq, ha, not_false_eq_true, ↓reduceIte]
    rw [ih (fun x hx => h x (by simp [hx]))]

/-- `escape v` read back in `FREE` or inside a double-quoted attribute value appends exactly `v` -/
theorem feed_escape (g : Bool) (v : Bytes) (c : Cfg) (hc : TextLike c) (h0 : ∀ x ∈ v, x ≠ 0) :
    ∃ c', feed g c (escape v) = .cont c' ∧ Upd c c' (c.b ++ v) := by
  unfold escape
  rw [takeWhile_nulfree v h0]
  exact scanMap g TextLike (fun ch => ch ≠ 0) escapeByte (feed_escapeByte g) textLike_upd v c hc h0


/-! ## the DOM seen without identities -/

abbrev AFrame := Bytes × List (Bytes × Bytes) × List Tree
def fabs (f : Frame) : AFrame := (f.tag, f.attrs, eraseList f.children)
def astack (c : Cfg) : List AFrame := c.stack.map fabs
/-- blank test of the `FREE` `'<'` case -/
def flushK (ks : List Tree) (w : Bytes) : List Tree := if w.any (fun x => !isWs x) then ks ++ [.text w] else ks
def flushF (F : AFrame) (w : Bytes) : AFrame := (F.1, F.2.1, flushK F.2.2 w)
def attachA (P E : AFrame) : AFrame := (P.1, P.2.1, P.2.2 ++ [.elem E.1 E.2.1 E.2.2])

theorem erase_setParent (n : Node) (p : Nat) : (n.setParent p).erase = n.erase := by
  cases n <;> simp [Node.setParent, Node.erase]

theorem eraseList_append (a b : List Node) : eraseList (a ++ b) = eraseList a ++ eraseList b := by
  induction a with
  | nil => simp [eraseList]
  | cons x xs ih => simp [eraseList, ih]

theorem fabs_attach (p : Frame) (n : Node) : fabs (attach p n) = ((fabs p).1, (fabs p).2.1, (fabs p).2.2 ++ [n.erase]) := by
  simp [fabs, attach, eraseList_append, eraseList, erase_setParent]

theorem erase_toNode (f : Frame) : f.toNode.erase = .elem (fabs f).1 (fabs f).2.1 (fabs f).2.2 := by
  simp [Frame.toNode, Node.erase, fabs]

structure Sh (c : Cfg) (st last : St) (b : Bytes) (s : List AFrame) : Prop where
  st : c.st = st
  last : c.last = last
  b : c.b = b
  s : astack c = s

theorem Sh.of_upd {c c' : Cfg} {st last : St} {b b' : Bytes} {s : List AFrame} (h : Sh c st last b s) (u : Upd c c' b') :
    Sh c' st last b' s :=
  ⟨u.st.trans h.st, u.last.trans h.last, u.b, by unfold astack; rw [u.stack]; exact h.s⟩

/-- `FREE`, `'<'`: the pending text is attached unless blank -/
theorem step_free_lt (g : Bool) (c : Cfg) (last : St) (w : Bytes) (F : AFrame) (r : List AFrame)
    (h : Sh c .free last w (F :: r)) :
    ∃ c', step g c 60 = .cont c' ∧ Sh c' .tagStart last [] (flushF F w :: r) := by
  obtain ⟨st, last', b, ref, atname, angle, prev, stack, next⟩ := c
  obtain ⟨h1, h2, h3, h4⟩ := h
  simp only at h1 h2 h3; subst h1; subst h2; subst h3
  cases stack with
  | nil => simp [astack] at h4
  | cons f rest =>
    simp only [astack, List.map_cons, List.cons.injEq] at h4
    obtain ⟨hf, hr⟩ := h4
    by_cases hb : (b.any fun x => !isWs x) = true
    · refine ⟨_, by simp [step, hb, topText, ofOpt]; rfl, ⟨rfl, rfl, rfl, ?_⟩⟩
      simp [astack, fabs_attach, hf, hr, flushF, flushK, hb, Node.erase]
    · refine ⟨_, by simp [step, hb]; rfl, ⟨rfl, rfl, rfl, ?_⟩⟩
      simp [astack, hf, hr, flushF, flushK, hb]

end AslProofs.Xml
