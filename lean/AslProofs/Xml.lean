import AslModel.Xml
/-! Helper lemmas for C07 (Xml).  Property statements live in `AslProps/C07.lean`. -/
namespace AslProofs.Xml
open AslModel.Xml

/-! ## stack safety -/

def inTag : St → Bool
  | .waitAtt | .attName | .waitEqual | .waitAttVal | .attVal | .attValSq | .slash => true
  | _ => false

/-- invariant of the decoder loop that makes every stack access legal -/
structure Inv (c : Cfg) : Prop where
  ne : 1 ≤ c.stack.length
  tag2 : inTag c.st = true → 2 ≤ c.stack.length
  last2 : c.last ≠ .free → 2 ≤ c.stack.length
  lastv : c.last = .free ∨ c.last = .attVal ∨ c.last = .attValSq
  lastst : c.last ≠ .free → c.st = .attVal ∨ c.st = .attValSq ∨ c.st = .refStart ∨ c.st = .charRef

theorem inv_init : Inv init := by
  constructor <;> simp [init, inTag]

def StepOK : Step → Prop
  | .cont c' => Inv c'
  | .null => True
  | .fault => False

theorem step_inv (c : Cfg) (ch : UInt8) (h : Inv c) : StepOK (step true c ch) := by
  obtain ⟨st, last, b, ref, atname, angle, prev, stack, next⟩ := c
  obtain ⟨h1, h2, h3, h4, h5⟩ := h
  simp only at h1 h2 h3 h4 h5
  rcases stack with _ | ⟨f, _ | ⟨p, r⟩⟩
  · simp at h1
  all_goals
    cases st <;> simp only [step] <;> (repeat' split) <;>
    first
    | trivial
    | (simp_all [inTag, push, topText, popAttach, topSetAttr, ofOpt, StepOK]; done)
    | (simp only [StepOK, push, topText, popAttach, topSetAttr, ofOpt]; constructor <;> simp_all [inTag, attach]; done)
    | (rcases h4 with h | h | h <;> subst h <;> simp only [StepOK] <;> constructor <;> simp_all [inTag]; done)


theorem run_no_fault (c : Cfg) (bs : Bytes) (h : Inv c) : run true c bs ≠ .fault := by
  induction bs generalizing c with
  | nil =>
    obtain ⟨h1, _⟩ := h
    unfold run finish
    split
    · rename_i hs; simp [hs] at h1
    · split <;> simp
  | cons ch rest ih =>
    have hs := step_inv c ch h
    unfold run
    split
    · rename_i c' heq; rw [heq] at hs; exact ih c' hs
    · simp
    · rename_i heq; rw [heq] at hs; exact hs.elim

theorem decode_no_fault (x : Bytes) : decode x ≠ .fault := by
  unfold decode decodeG
  simp only
  split
  · simp
  · exact run_no_fault _ _ inv_init

/-- without the repaired guard the model pops the seeded root on `</>` -/
def isFault : Result → Bool
  | .fault => true
  | _ => false
theorem unguarded_faults : isFault (decodeG false [60, 47, 62]) = true := by decide


/-! ## parent links -/

def kids : Node → List Node
  | .elem _ _ _ _ cs => cs
  | .text .. => []

mutual
def linksOK : Node → Bool
  | .elem id _ _ _ cs => kidsOK id cs
  | .text .. => true
def kidsOK (pid : Nat) : List Node → Bool
  | [] => true
  | c :: cs => (c.parent == some pid) && linksOK c && kidsOK pid cs
end

theorem kidsOK_append (p : Nat) (a b : List Node) : kidsOK p (a ++ b) = (kidsOK p a && kidsOK p b) := by
  induction a with
  | nil => simp [kidsOK]
  | cons x xs ih => simp [kidsOK, ih, Bool.and_assoc]

theorem linksOK_setParent (n : Node) (p : Nat) : linksOK (n.setParent p) = linksOK n := by
  cases n <;> simp [Node.setParent, linksOK]

theorem parent_setParent (n : Node) (p : Nat) : (n.setParent p).parent = some p := by
  cases n <;> simp [Node.setParent, Node.parent]

theorem attach_ok (f : Frame) (n : Node) (hf : kidsOK f.id f.children = true) (hn : linksOK n = true) :
    kidsOK (attach f n).id (attach f n).children = true := by
  simp [attach, kidsOK_append, hf, kidsOK, linksOK_setParent, hn, parent_setParent]

def LInv (c : Cfg) : Prop := ∀ f ∈ c.stack, kidsOK f.id f.children = true

def LStepOK : Step → Prop
  | .cont c' => LInv c'
  | _ => True

theorem toNode_ok (f : Frame) (h : kidsOK f.id f.children = true) : linksOK f.toNode = true := by
  simpa [Frame.toNode, linksOK] using h

theorem lstep_ofOpt (o : Option Cfg) (h : ∀ c', o = some c' → LInv c') : LStepOK (ofOpt o) := by
  cases o with
  | none => simp [ofOpt, LStepOK]
  | some c' => simpa [ofOpt, LStepOK] using h c' rfl

theorem linv_push (c : Cfg) (t : Bytes) (h : LInv c) : LInv (push c t) := by
  intro f hf
  simp only [push, List.mem_cons] at hf
  rcases hf with rfl | hf
  · simp [kidsOK]
  · exact h f hf

theorem linv_topText (c c' : Cfg) (t : Bytes) (h : ∀ f ∈ c.stack, kidsOK f.id f.children = true)
    (e : topText c t = some c') : LInv c' := by
  unfold topText at e
  split at e
  · simp at e
  · rename_i f r hs
    simp only [Option.some.injEq] at e
    subst e
    rw [hs] at h
    intro x hx
    simp only [List.mem_cons] at hx
    rcases hx with rfl | hx
    · exact attach_ok _ _ (h f (by simp)) (by simp [linksOK])
    · exact h x (by simp [hx])

theorem linv_popAttach (c c' : Cfg) (h : ∀ f ∈ c.stack, kidsOK f.id f.children = true)
    (e : popAttach c = some c') : LInv c' := by
  unfold popAttach at e
  split at e
  · rename_i el p r hs
    simp only [Option.some.injEq] at e
    subst e
    rw [hs] at h
    intro x hx
    simp only [List.mem_cons] at hx
    rcases hx with rfl | hx
    · exact attach_ok _ _ (h p (by simp)) (toNode_ok _ (h el (by simp)))
    · exact h x (by simp [hx])
  · simp at e

theorem linv_topSetAttr (c c' : Cfg) (k v : Bytes) (h : ∀ f ∈ c.stack, kidsOK f.id f.children = true)
    (e : topSetAttr c k v = some c') : LInv c' := by
  unfold topSetAttr at e
  split at e
  · simp at e
  · rename_i f r hs
    simp only [Option.some.injEq] at e
    subst e
    rw [hs] at h
    intro x hx
    simp only [List.mem_cons] at hx
    rcases hx with rfl | hx
    · exact h f (by simp)
    · exact h x (by simp [hx])

theorem step_linv (g : Bool) (c : Cfg) (ch : UInt8) (h : LInv c) : LStepOK (step g c ch) := by
  obtain ⟨st, last, b, ref, atname, angle, prev, stack, next⟩ := c
  have h' : ∀ f ∈ stack, kidsOK f.id f.children = true := h
  cases st <;> simp only [step] <;> (repeat' split) <;>
    first
    | trivial
    | exact h'
    | exact linv_push _ _ h'
    | (apply lstep_ofOpt; intro c' e; first | exact linv_topText _ _ _ h' e | exact linv_popAttach _ _ h' e | exact linv_topSetAttr _ _ _ _ h' e)
    | skip


theorem kidsOK_mem (p : Nat) (cs : List Node) (h : kidsOK p cs = true) (c : Node) (hc : c ∈ cs) :
    c.parent = some p ∧ linksOK c = true := by
  induction cs with
  | nil => simp at hc
  | cons x xs ih =>
    simp only [kidsOK, Bool.and_eq_true, beq_iff_eq] at h
    simp only [List.mem_cons] at hc
    rcases hc with rfl | hc
    · exact ⟨h.1.1, h.1.2⟩
    · exact ih h.2 hc

theorem run_links (g : Bool) (c : Cfg) (bs : Bytes) (h : LInv c) (n : Node) (e : run g c bs = .node n) :
    linksOK n = true := by
  induction bs generalizing c with
  | nil =>
    unfold run finish at e
    split at e
    · simp at e
    · rename_i f r hs
      split at e
      · rename_i m hm
        simp only [Result.node.injEq] at e
        subst e
        have := h f (by simp [hs])
        rw [hm] at this
        simp only [kidsOK, Bool.and_eq_true, beq_iff_eq] at this
        exact this.1.2
      · simp at e
  | cons ch rest ih =>
    have hs := step_linv g c ch h
    unfold run at e
    split at e
    · rename_i c' heq; rw [heq] at hs; exact ih c' hs e
    · simp at e
    · simp at e

theorem linv_init : LInv init := by
  intro f hf
  simp only [init, List.mem_singleton] at hf
  subst hf
  simp [kidsOK]

theorem decode_links (g : Bool) (x : Bytes) (n : Node) (e : decodeG g x = .node n) : linksOK n = true := by
  unfold decodeG at e
  simp only at e
  split at e
  · simp at e
  · exact run_links g _ _ linv_init n e

end AslProofs.Xml
