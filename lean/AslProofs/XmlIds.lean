import AslModel.Xml
import AslProofs.Xml
/-! Helper lemmas for C07, part 3: node identities in a decoded tree are pairwise distinct. -/
namespace AslProofs.Xml
open AslModel.Xml

/-! ## object identities are unique -/

mutual
/-- identities of a node and of everything below it -/
def ids : Node → List Nat
  | .elem i _ _ _ cs => i :: idsL cs
  | .text i _ _ => [i]
def idsL : List Node → List Nat
  | [] => []
  | n :: r => ids n ++ idsL r
end

def frameIds (f : Frame) : List Nat := f.id :: idsL f.children
def allIds (s : List Frame) : List Nat := s.flatMap frameIds

/-- all identities held by the stack are distinct and below the allocation counter -/
def UI (s : List Frame) (n : Nat) : Prop := (allIds s).Nodup ∧ ∀ i ∈ allIds s, i < n

theorem idsL_append (a b : List Node) : idsL (a ++ b) = idsL a ++ idsL b := by
  induction a with
  | nil => simp [idsL]
  | cons x xs ih => simp [idsL, ih]

theorem ids_setParent (n : Node) (p : Nat) : ids (n.setParent p) = ids n := by
  cases n <;> simp [Node.setParent, ids]

theorem frameIds_attach (f : Frame) (n : Node) : frameIds (attach f n) = frameIds f ++ ids n := by
  simp [frameIds, attach, idsL_append, idsL, ids_setParent]

theorem ids_toNode (f : Frame) : ids f.toNode = frameIds f := by
  simp [Frame.toNode, ids, frameIds]

theorem ui_push (s : List Frame) (n : Nat) (t : Bytes) (h : UI s n) :
    UI ({ id := n, parent := none, tag := t, attrs := [], children := [] } :: s) (n + 1) := by
  obtain ⟨h1, h2⟩ := h
  constructor
  · simp only [allIds, List.flatMap_cons, frameIds, idsL, List.cons_append, List.nil_append]
    rw [List.nodup_cons]
    exact ⟨fun hm => Nat.lt_irrefl _ (h2 _ hm), h1⟩
  · intro i hi
    simp only [allIds, List.flatMap_cons, frameIds, idsL, List.cons_append, List.nil_append, List.mem_cons] at hi
    rcases hi with rfl | hi
    · omega
    · have := h2 i hi; omega

theorem ui_topText (c c' : Cfg) (t : Bytes) (h : UI c.stack c.next) (e : topText c t = some c') : UI c'.stack c'.next := by
  obtain ⟨h1, h2⟩ := h
  unfold topText at e
  split at e
  · simp at e
  · rename_i f r hs
    simp only [Option.some.injEq] at e
    subst e
    rw [hs] at h1 h2
    simp only [allIds, List.flatMap_cons] at h1 h2
    constructor
    · simp only [allIds, List.flatMap_cons, frameIds_attach, ids]
      have : (frameIds f ++ [c.next] ++ List.flatMap frameIds r).Perm (c.next :: (frameIds f ++ List.flatMap frameIds r)) := by
        simp
      rw [this.nodup_iff, List.nodup_cons]
      exact ⟨fun hm => Nat.lt_irrefl _ (h2 _ hm), h1⟩
    · intro i hi
      simp only [allIds, List.flatMap_cons, frameIds_attach, ids, List.mem_append, List.mem_singleton] at hi
      simp only
      rcases hi with (hi | rfl) | hi
      · have := h2 i (by simp [hi]); omega
      · omega
      · have := h2 i (by simp [hi]); omega

theorem ui_popAttach (c c' : Cfg) (h : UI c.stack c.next) (e : popAttach c = some c') : UI c'.stack c'.next := by
  obtain ⟨h1, h2⟩ := h
  unfold popAttach at e
  split at e
  · rename_i el p r hs
    simp only [Option.some.injEq] at e
    subst e
    rw [hs] at h1 h2
    simp only [allIds, List.flatMap_cons] at h1 h2
    have hp : (frameIds p ++ frameIds el ++ List.flatMap frameIds r).Perm (frameIds el ++ (frameIds p ++ List.flatMap frameIds r)) := by
      rw [← List.append_assoc]
      exact List.Perm.append_right _ List.perm_append_comm
    constructor
    · simp only [allIds, List.flatMap_cons, frameIds_attach, ids_toNode]
      rw [hp.nodup_iff]; exact h1
    · intro i hi
      simp only [allIds, List.flatMap_cons, frameIds_attach, ids_toNode] at hi
      exact h2 i (hp.mem_iff.mp hi)
  · simp at e

theorem ui_topSetAttr (c c' : Cfg) (k v : Bytes) (h : UI c.stack c.next) (e : topSetAttr c k v = some c') :
    UI c'.stack c'.next := by
  obtain ⟨h1, h2⟩ := h
  unfold topSetAttr at e
  split at e
  · simp at e
  · rename_i f r hs
    simp only [Option.some.injEq] at e
    subst e
    rw [hs] at h1 h2
    exact ⟨by simpa [allIds, frameIds] using h1, by simpa [allIds, frameIds] using h2⟩

def UStepOK : Step → Prop
  | .cont c' => UI c'.stack c'.next
  | _ => True

theorem ustep_ofOpt (o : Option Cfg) (h : ∀ c', o = some c' → UI c'.stack c'.next) : UStepOK (ofOpt o) := by
  cases o with
  | none => simp [ofOpt, UStepOK]
  | some c' => simpa [ofOpt, UStepOK] using h c' rfl

theorem step_ui (g : Bool) (c : Cfg) (ch : UInt8) (h : UI c.stack c.next) : UStepOK (step g c ch) := by
  obtain ⟨st, last, b, ref, atname, angle, prev, stack, next⟩ := c
  simp only at h
  cases st <;> simp only [step] <;> (repeat' split) <;>
    first
    | trivial
    | exact h
    | exact ui_push _ _ _ h
    | (apply ustep_ofOpt; intro c' e
       first
       | exact ui_topText _ _ _ h e
       | exact ui_popAttach _ _ h e
       | exact ui_topSetAttr _ _ _ _ h e)
    | skip

theorem ids_clearParent (n : Node) : ids n.clearParent = ids n := by
  cases n <;> simp [Node.clearParent, ids]

theorem run_ids (g : Bool) (c : Cfg) (bs : Bytes) (h : UI c.stack c.next) (n : Node) (e : run g c bs = .node n) :
    (ids n).Nodup := by
  induction bs generalizing c with
  | nil =>
    unfold run finish at e
    split at e
    · simp at e
    · rename_i f r hs
      split at e
      · rename_i m hm
        simp only [Result.node.injEq] at e
        subst e
        have h1 := h.1
        rw [hs] at h1
        simp only [allIds, List.flatMap_cons, frameIds, hm, idsL, List.append_nil] at h1
        have h2 : (f.id :: ids m).Nodup := (List.nodup_append.mp h1).1
        rw [ids_clearParent]
        exact (List.nodup_cons.mp h2).2
      · simp at e
  | cons ch rest ih =>
    have hs := step_ui g c ch h
    unfold run at e
    split at e
    · rename_i c' heq; rw [heq] at hs; exact ih c' hs e
    · simp at e
    · simp at e

theorem ui_init : UI init.stack init.next := by
  constructor
  · simp [init, allIds, frameIds, idsL]
  · intro i hi; simp [init, allIds, frameIds, idsL] at hi; subst hi; simp [init]

theorem decode_ids (g : Bool) (x : Bytes) (n : Node) (e : decodeG g x = .node n) : (ids n).Nodup := by
  unfold decodeG at e
  simp only at e
  split at e
  · simp at e
  · exact run_ids g _ _ ui_init n e

end AslProofs.Xml
