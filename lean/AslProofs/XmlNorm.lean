import AslModel.Xml
import AslProofs.Xml
import AslProofs.XmlRt
import AslProps.C07Spec
/-! Helper lemmas for C07, part 4: the specification vocabulary of `AslProps/C07Spec.lean` versus what the
decoder model rebuilds (`normOp`), the invariant predicates (`linksOK`) and the decoder's name class. -/
namespace AslProofs.Xml
open AslModel.Xml C07

theorem within_links {e n : Node} (he : Within e n) (hn : linksOK n = true) : linksOK e = true := by
  induction he with
  | self => exact hn
  | @child e' c' n' _ hc ih =>
    have h1 := ih hn
    cases e' with
    | text => simp [children] at hc
    | elem id p t a cs =>
      simp only [children] at hc
      simp only [linksOK] at h1
      exact (kidsOK_mem id cs h1 _ hc).2

theorem mergeText_text_text (a b : Bytes) (l : List Tree) :
    mergeText (.text a :: .text b :: l) = mergeText (.text (a ++ b) :: l) := by
  simp only [mergeText]
  cases h : mergeText l with
  | nil => simp
  | cons x r' => cases x <;> simp

theorem filter_mergeText_nil (l : List Tree) :
    (mergeText (.text [] :: l)).filter keep = (mergeText l).filter keep := by
  simp only [mergeText]
  cases h : mergeText l with
  | nil => simp [keep, isBlank]
  | cons x r' => cases x <;> simp [keep, isBlank]

theorem any_not_ws (w : Bytes) : (w.any fun x => !isWs x) = !isBlank w := by
  induction w with
  | nil => rfl
  | cons a t ih => simp [isBlank, isWs] at ih ⊢; rw [ih]

theorem flushK_spec (ks : List Tree) (w : Bytes) : flushK ks w = ks ++ [Tree.text w].filter keep := by
  unfold flushK
  rw [any_not_ws]
  cases h : isBlank w <;> simp [keep, h]

mutual
theorem normOp_eq_normalize : ∀ t : Tree, normOp t = normalize t
  | .text s => by simp [normOp, normalize]
  | .elem tag attrs cs => by
    have := absorb_spec cs [] []
    simp only [normOp, normalize, this, List.nil_append, filter_mergeText_nil]
theorem absorb_spec : ∀ (cs : List Tree) (w : Bytes) (ks : List Tree),
    flushK (absorbL cs w ks).2 (absorbL cs w ks).1 = ks ++ (mergeText (.text w :: normalizeList cs)).filter keep
  | [], w, ks => by simp [absorbL, normalizeList, mergeText, flushK_spec]
  | .text s :: r, w, ks => by
    have := absorb_spec r (w ++ s) ks
    simp only [absorbL, normalizeList, normalize, mergeText_text_text, this]
  | .elem tag attrs cs :: r, w, ks => by
    have h1 := absorb_spec r [] (flushK ks w ++ [normOp (.elem tag attrs cs)])
    have h2 := normOp_eq_normalize (.elem tag attrs cs)
    simp only [absorbL]
    rw [h1, filter_mergeText_nil, h2, flushK_spec]
    simp only [normalizeList, normalize, mergeText]
    cases hk : keep (.text w) <;> simp [List.filter_cons, hk] <;> simp [keep]
end



theorem xmlNameStart_ok : ∀ c : UInt8, xmlNameStartByte c = true → nameStartBad c = false := by
  apply forall_u8; decide +kernel

theorem xmlNameByte_ok : ∀ c : UInt8, xmlNameByte c = true → nameCharBad c = false := by
  apply forall_u8; decide +kernel

theorem nameOK_of_xmlName (n : Bytes) (h : XmlName n) : NameOK n := by
  cases n with
  | nil => exact h.elim
  | cons c r => exact ⟨xmlNameStart_ok c h.1, fun x hx => xmlNameByte_ok x (h.2 x hx)⟩

theorem within_trans_child {c k n : Node} (h : Within c k) (hk : k ∈ children n) : Within c n := by
  induction h with
  | self => exact Within.child (Within.self n) hk
  | child _ hc ih => exact Within.child (ih hk) hc

mutual
theorem mem_preorder_within : ∀ (n c : Node), c ∈ preorder n → Within c n
  | .text i p t, c, h => by
    simp only [preorder, List.mem_singleton] at h
    subst h; exact Within.self _
  | .elem i p t a cs, c, h => by
    simp only [preorder, List.mem_cons] at h
    rcases h with rfl | h
    · exact Within.self _
    · obtain ⟨k, hk, hc⟩ := mem_preorderL cs c h
      exact within_trans_child hc (by simpa [children] using hk)
theorem mem_preorderL : ∀ (cs : List Node) (c : Node), c ∈ preorderL cs → ∃ k ∈ cs, Within c k
  | [], c, h => by simp [preorderL] at h
  | n :: r, c, h => by
    simp only [preorderL, List.mem_append] at h
    rcases h with h | h
    · exact ⟨n, by simp, mem_preorder_within n c h⟩
    · obtain ⟨k, hk, hc⟩ := mem_preorderL r c h
      exact ⟨k, by simp [hk], hc⟩
end

theorem linksOK_survivor (c : Node) : linksOK (survivor c) = linksOK c := linksOK_clearParent c


theorem links_of_linksOK {n : Node} (hn : linksOK n = true) :
    ∀ e, Within e n → ∀ c ∈ children e, c.parent = some e.id := by
  intro e he c hc
  have := within_links he hn
  cases e with
  | text => simp [children] at hc
  | elem id p t a cs =>
    simp only [children] at hc
    simp only [linksOK] at this
    exact (kidsOK_mem id cs this c hc).1

theorem textOf_erase : ∀ n : Node, n.textOf = n.erase.textOf
  | .text _ _ t => by simp [Node.textOf, Node.erase, Tree.textOf]
  | .elem _ _ _ _ [] => by simp [Node.textOf, Node.erase, eraseList, Tree.textOf]
  | .elem _ _ _ _ (c :: r) => by
    simp only [Node.textOf, Node.erase, eraseList, Tree.textOf]
    exact textOf_erase c

theorem textOf_clearParent (n : Node) : n.clearParent.textOf = n.textOf := by
  cases n with
  | text => rfl
  | elem i p t a cs => cases cs <;> rfl

theorem self_mem_preorder (n : Node) : n ∈ preorder n := by
  cases n <;> simp [preorder]

theorem descend_mem_preorder : ∀ n : Node, descend n ∈ preorder n
  | .text i p t => by simp [descend, preorder]
  | .elem i p t a [] => by simp [descend, preorder]
  | .elem i p t a (.text j q s :: r) => by simp [descend, preorder]
  | .elem i p t a (.elem j q u b cs :: r) => by
    have ih := descend_mem_preorder (.elem j q u b cs)
    simp only [descend]
    simp only [preorder, preorderL, List.mem_cons, List.mem_append]
    exact Or.inr (Or.inl (by simpa [preorder] using ih))

end AslProofs.Xml
