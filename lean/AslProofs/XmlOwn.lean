import AslModel.XmlOwn
/-! Invariant of the `Xml` ownership model: a raw parent pointer never dangles (C07, extension round). -/
namespace AslProofs.XmlOwn
open AslModel.XmlOwn

/-- every non-null raw `parent` pointer designates an allocated, not yet destroyed node whose child array
    contains the pointing node -/
def ParentsOK (h : Heap) : Prop :=
  ∀ c p, (h.node c).parent = some p → (h.node p).live = true ∧ c ∈ (h.node p).kids ∧ p < h.next

theorem parentsOK_init : ParentsOK Heap.init := by
  intro c p hp; simp [Heap.init] at hp

/-- a change of counts, variables or the fault flag only -/
theorem parentsOK_same {h h' : Heap}
    (hl : ∀ i, (h'.node i).live = (h.node i).live) (hp : ∀ i, (h'.node i).parent = (h.node i).parent)
    (hk : ∀ i, (h'.node i).kids = (h.node i).kids) (hn : h'.next = h.next) (H : ParentsOK h) : ParentsOK h' := by
  intro c p hc
  rw [hp] at hc
  have := H c p hc
  rw [hl, hk, hn]; exact this

theorem parentsOK_setRc {h : Heap} (n k : Nat) (H : ParentsOK h) : ParentsOK (setRc h n k) := by
  refine parentsOK_same (h := h) (h' := setRc h n k) ?_ ?_ ?_ rfl H <;> intro i <;> simp only [setRc, upd] <;> split <;> simp_all

theorem parentsOK_setFault {h : Heap} (H : ParentsOK h) : ParentsOK (setFault h) := H

theorem parentsOK_emptyKids {h : Heap} (x : Nat) (alive : Bool) (H : ParentsOK h) :
    ParentsOK (emptyKids h x alive) := by
  intro c p hc
  simp only [emptyKids] at hc ⊢
  -- the pointer of `c` after the operation is either cleared or the old one, and then not `x`
  have key : (h.node c).parent = some p ∧ p ≠ x := by
    by_cases hcx : c = x
    · subst hcx
      simp only [if_true] at hc
      split at hc
      · simp at hc
      · rename_i hno
        refine ⟨hc, ?_⟩
        intro hpx; rw [hpx] at hc
        exact hno ⟨hc, (H _ _ hc).2.1⟩
    · simp only [if_neg hcx] at hc
      split at hc
      · simp at hc
      · rename_i hno
        refine ⟨hc, ?_⟩
        intro hpx; subst hpx
        exact hno ⟨(H c p hc).2.1, hc⟩
  obtain ⟨hold, hne⟩ := key
  have := H c p hold
  simp only [if_neg hne]
  split
  · exact this
  · exact this

theorem parentsOK_release (fuel : Nat) : ∀ (pending : List Nat) (h : Heap), ParentsOK h →
    ParentsOK (release fuel pending h) := by
  induction fuel with
  | zero => intro pending h H; exact H
  | succ f ih =>
    intro pending h H
    cases pending with
    | nil => exact H
    | cons n rest =>
      simp only [release]
      split
      · exact H
      · split
        · exact ih _ _ (parentsOK_emptyKids n false (parentsOK_setRc n 0 H))
        · exact ih _ _ (parentsOK_setRc n _ H)

theorem parentsOK_releaseAll {h : Heap} (pending : List Nat) (H : ParentsOK h) :
    ParentsOK (releaseAll h pending) := parentsOK_release _ _ _ H

theorem parentsOK_setVar {h : Heap} (v : Nat) (t : Option Nat) (H : ParentsOK h) : ParentsOK (setVar h v t) := by
  unfold setVar
  have H1 : ParentsOK (match t with
    | some n => if (h.node n).live then setRc h n ((h.node n).rc + 1) else setFault h
    | none => h) := by
    cases t with
    | none => exact H
    | some n =>
      simp only
      split
      · exact parentsOK_setRc _ _ H
      · exact H
  simp only
  split
  · exact parentsOK_releaseAll _ H1
  · exact H1

theorem parentsOK_alloc {h : Heap} (H : ParentsOK h) : ParentsOK (alloc h).1 := by
  intro c p hc
  simp only [alloc] at hc ⊢
  by_cases hcn : c = h.next
  · simp [hcn] at hc
  · simp only [if_neg hcn] at hc
    have := H c p hc
    have hpn : p ≠ h.next := by omega
    simp only [if_neg hpn]
    exact ⟨this.1, this.2.1, by omega⟩

theorem parentsOK_attach {h : Heap} (p c : Nat) (H : ParentsOK h) : ParentsOK (attach h p c) := by
  unfold attach
  split
  · rename_i hg
    simp only [Bool.and_eq_true, decide_eq_true_eq] at hg
    obtain ⟨⟨⟨hpn, _⟩, hpl⟩, _⟩ := hg
    intro d q hd
    simp only [upd] at hd ⊢
    by_cases hdc : d = c
    · subst hdc
      simp only [if_true] at hd
      cases hd
      by_cases hpd : p = d
      · subst hpd; simp [hpl, hpn]
      · simp [hpl, hpn]
        simp [hpd]
    · simp only [if_neg hdc] at hd
      have hd' : (h.node d).parent = some q := by
        by_cases hdp : d = p
        · simp only [hdp, if_true] at hd ⊢; exact hd
        · simp only [if_neg hdp] at hd; exact hd
      have := H d q hd'
      by_cases hqc : q = c <;> by_cases hqp : q = p <;> simp_all
  · exact H

theorem mem_eraseIdx_of_ne {l : List Nat} {j d c : Nat} (hd : d ∈ l) (hj : l[j]? = some c) (hne : d ≠ c) :
    d ∈ l.eraseIdx j := by
  rw [List.mem_eraseIdx_iff_getElem?]
  obtain ⟨i, hi⟩ := List.getElem?_of_mem hd
  refine ⟨i, ?_, hi⟩
  intro hij; subst hij
  rw [hi] at hj
  exact hne (by injection hj)

theorem parentsOK_detachAt {h : Heap} (p j : Nat) (H : ParentsOK h) : ParentsOK (detachAt h p j) := by
  unfold detachAt
  split
  · exact H
  · rename_i c hj
    split
    · apply parentsOK_releaseAll
      intro d q hd
      simp only [upd] at hd ⊢
      -- the pointer of `d` is an old one, and not (d = c ∧ q = p)
      have key : (h.node d).parent = some q ∧ ¬ (d = c ∧ q = p) := by
        by_cases hdp : d = p
        · by_cases hdc : d = c
          · subst hdp; subst hdc
            simp only [if_true] at hd
            split at hd
            · simp at hd
            · rename_i hno; exact ⟨hd, fun hh => hno (hh.2 ▸ hd)⟩
          · simp only [hdp, if_true] at hd ⊢
            have hpc : p ≠ c := hdp ▸ hdc
            simp only [if_neg hpc] at hd
            exact ⟨hd, fun hh => hpc hh.1⟩
        · simp only [if_neg hdp] at hd
          by_cases hdc : d = c
          · subst hdc
            simp only [if_true] at hd
            split at hd
            · simp at hd
            · rename_i hno; exact ⟨hd, fun hh => hno (hh.2 ▸ hd)⟩
          · simp only [if_neg hdc] at hd
            exact ⟨hd, fun hh => hdc hh.1⟩
      obtain ⟨hold, hno⟩ := key
      have ⟨h1, h2, h3⟩ := H d q hold
      by_cases hqp : q = p
      · subst hqp
        have hdc : d ≠ c := fun e => hno ⟨e, rfl⟩
        simp only [if_true]
        refine ⟨?_, ?_, h3⟩
        · split <;> exact h1
        · have : d ∈ (h.node q).kids.eraseIdx j := mem_eraseIdx_of_ne h2 hj hdc
          split <;> exact this
      · simp only [if_neg hqp]
        split <;> exact ⟨h1, h2, h3⟩
    · exact H

theorem parentsOK_clearParent {h : Heap} (e : Nat) (H : ParentsOK h) :
    ParentsOK (upd h e fun r => { r with parent := none }) := by
  intro c p hc
  simp only [upd] at hc ⊢
  by_cases hce : c = e
  · simp [hce] at hc
  · simp only [if_neg hce] at hc
    have := H c p hc
    split <;> exact this

theorem parentsOK_detachNode {h : Heap} (p e : Nat) (H : ParentsOK h) : ParentsOK (detachNode h p e) := by
  unfold detachNode
  split
  · split
    · exact parentsOK_detachAt _ _ (parentsOK_clearParent e H)
    · exact H
  · exact H

theorem parentsOK_clearKids {h : Heap} (p : Nat) (H : ParentsOK h) : ParentsOK (clearKids h p) := by
  unfold clearKids
  split
  · exact parentsOK_releaseAll _ (parentsOK_emptyKids p true H)
  · exact H


theorem parentsOK_insertAt {h : Heap} (p j c : Nat) (H : ParentsOK h) : ParentsOK (insertAt h p j c) := by
  unfold insertAt
  split
  · rename_i hj
    split
    · rename_i hg
      simp only [Bool.and_eq_true, decide_eq_true_eq] at hg
      obtain ⟨⟨⟨hpn, _⟩, hpl⟩, _⟩ := hg
      have hmem : ∀ d, (d = c ∨ d ∈ (h.node p).kids) → d ∈ (h.node p).kids.insertIdx j c := by
        intro d hd
        rw [List.mem_insertIdx (Nat.le_of_lt hj)]
        exact hd
      intro d q hd
      simp only [upd] at hd ⊢
      by_cases hdc : d = c
      · subst hdc
        simp only [if_true] at hd
        cases hd
        by_cases hpd : p = d
        · subst hpd; simp only [if_true]; exact ⟨hpl, hmem _ (Or.inl rfl), hpn⟩
        · simp only [if_neg hpd, if_true]; exact ⟨hpl, hmem _ (Or.inl rfl), hpn⟩
      · simp only [if_neg hdc] at hd
        have hd' : (h.node d).parent = some q := by
          by_cases hdp : d = p
          · simp only [hdp, if_true] at hd ⊢; exact hd
          · simp only [if_neg hdp] at hd; exact hd
        have ⟨h1, h2, h3⟩ := H d q hd'
        by_cases hqc : q = c <;> by_cases hqp : q = p
        · subst hqc; subst hqp; simp only [if_true]; exact ⟨h1, hmem _ (Or.inr h2), h3⟩
        · subst hqc; simp only [if_true, if_neg hqp]; exact ⟨h1, h2, h3⟩
        · subst hqp; simp only [if_neg hqc, if_true]; exact ⟨h1, hmem _ (Or.inr h2), h3⟩
        · simp only [if_neg hqc, if_neg hqp]; exact ⟨h1, h2, h3⟩
    · exact H
  · exact H

theorem parentsOK_step {h : Heap} (o : Op) (H : ParentsOK h) : ParentsOK (step h o) := by
  cases o with
  | new v => exact parentsOK_setVar _ _ (parentsOK_alloc H)
  | append v w =>
    simp only [step]
    split
    · exact parentsOK_attach _ _ H
    · exact H
  | insert v w j =>
    simp only [step]
    split
    · exact parentsOK_insertAt _ _ _ H
    · exact H
  | remove v j =>
    simp only [step]
    split
    · split
      · exact H
      · exact parentsOK_detachAt _ _ H
    · exact H
  | removeE v w =>
    simp only [step]
    split
    · exact parentsOK_detachNode _ _ H
    · exact H
  | clear v =>
    simp only [step]
    split
    · exact parentsOK_clearKids _ H
    · exact H
  | child v w j =>
    simp only [step]
    split
    · split
      · exact parentsOK_setVar _ _ H
      · exact H
    · exact H
  | assign v w =>
    simp only [step]
    split
    · exact parentsOK_setVar _ _ H
    · exact H
  | drop v => exact parentsOK_setVar _ _ H
  | up v w =>
    simp only [step]
    split
    · exact parentsOK_setVar _ _ H
    · exact H

theorem parentsOK_run (ops : List Op) : ∀ h, ParentsOK h → ParentsOK (run h ops) := by
  induction ops with
  | nil => intro h H; exact H
  | cons o os ih => intro h H; exact ih _ (parentsOK_step o H)

end AslProofs.XmlOwn

/-! ## a destroyed node has count zero and owns nothing -/
namespace AslProofs.XmlOwn
open AslModel.XmlOwn

/-- a destroyed (or never allocated) node has count zero and owns nothing: `~_Xml` runs only on a count that reached
    zero, empties the child array, and nothing ever raises the count of a dead node again -/
def DeadOK (h : Heap) : Prop :=
  ∀ n, (h.node n).live = false → (h.node n).rc = 0 ∧ (h.node n).kids = []

theorem deadOK_init : DeadOK Heap.init := by
  intro n _; simp [Heap.init]

theorem deadOK_upd_live {h : Heap} {n : Nat} {f : NodeRec → NodeRec} (hl : (f (h.node n)).live = true)
    (H : DeadOK h) : DeadOK (upd h n f) := by
  intro i hi
  simp only [upd] at hi ⊢
  by_cases hin : i = n
  · subst hin; simp only [if_true] at hi; rw [hl] at hi; cases hi
  · simp only [if_neg hin] at hi ⊢; exact H i hi

theorem deadOK_upd_parent {h : Heap} {n : Nat} {f : NodeRec → NodeRec}
    (hf : ∀ r, (f r).live = r.live ∧ (f r).rc = r.rc ∧ (f r).kids = r.kids) (H : DeadOK h) : DeadOK (upd h n f) := by
  intro i hi
  simp only [upd] at hi ⊢
  by_cases hin : i = n
  · simp only [if_pos hin] at hi ⊢
    rw [(hf _).1] at hi; rw [(hf _).2.1, (hf _).2.2]; exact H i hi
  · simp only [if_neg hin] at hi ⊢; exact H i hi

theorem deadOK_emptyKids {h : Heap} (x : Nat) (alive : Bool)
    (hx : (h.node x).rc = 0 ∨ (alive = true ∧ (h.node x).live = true)) (H : DeadOK h) :
    DeadOK (emptyKids h x alive) := by
  intro i hi
  simp only [emptyKids] at hi ⊢
  by_cases hix : i = x
  · simp only [if_pos hix] at hi ⊢
    rw [hix] at hi
    refine ⟨?_, trivial⟩
    rw [hix]
    rcases hx with h0 | ⟨ha, hl⟩
    · exact h0
    · simp [ha, hl] at hi
  · simp only [if_neg hix] at hi ⊢
    split at hi
    · rename_i hc; simp only [if_pos hc] at ⊢; exact H i hi
    · rename_i hc; simp only [if_neg hc] at ⊢; exact H i hi

theorem deadOK_release (fuel : Nat) : ∀ (pending : List Nat) (h : Heap), DeadOK h →
    DeadOK (release fuel pending h) := by
  induction fuel with
  | zero => intro pending h H; exact H
  | succ f ih =>
    intro pending h H
    cases pending with
    | nil => exact H
    | cons n rest =>
      simp only [release]
      split
      · exact H
      · rename_i hg
        simp only [Bool.or_eq_true, Bool.not_eq_true', decide_eq_true_eq, not_or, Bool.not_eq_false] at hg
        have hl : (h.node n).live = true := hg.1
        split
        · apply ih
          apply deadOK_emptyKids
          · left; simp [setRc, upd]
          · exact deadOK_upd_live (by exact hl) H
        · exact ih _ _ (deadOK_upd_live (by exact hl) H)

theorem deadOK_setVar {h : Heap} (v : Nat) (t : Option Nat) (H : DeadOK h) : DeadOK (setVar h v t) := by
  unfold setVar
  have H1 : DeadOK (match t with
    | some n => if (h.node n).live then setRc h n ((h.node n).rc + 1) else setFault h
    | none => h) := by
    cases t with
    | none => exact H
    | some n =>
      simp only
      split
      · rename_i hl; exact deadOK_upd_live (by exact hl) H
      · exact H
  simp only
  split
  · exact deadOK_release _ _ _ H1
  · exact H1

theorem deadOK_alloc {h : Heap} (H : DeadOK h) : DeadOK (alloc h).1 := by
  intro i hi
  simp only [alloc] at hi ⊢
  by_cases hin : i = h.next
  · simp [hin] at hi
  · simp only [if_neg hin] at hi ⊢; exact H i hi

theorem deadOK_attach {h : Heap} (p c : Nat) (H : DeadOK h) : DeadOK (attach h p c) := by
  unfold attach
  split
  · rename_i hg
    simp only [Bool.and_eq_true, decide_eq_true_eq] at hg
    obtain ⟨⟨_, hpl⟩, hcl⟩ := hg
    apply deadOK_upd_live
    · simp only [upd]; split <;> exact hcl
    · exact deadOK_upd_live (by exact hpl) H
  · exact H

theorem deadOK_detachAt {h : Heap} (p j : Nat) (H : DeadOK h) : DeadOK (detachAt h p j) := by
  unfold detachAt
  split
  · exact H
  · split
    · rename_i hl
      apply deadOK_release
      apply deadOK_upd_live
      · simp only [upd]; split <;> exact hl
      · exact deadOK_upd_parent (fun r => ⟨rfl, rfl, rfl⟩) H
    · exact H

theorem deadOK_detachNode {h : Heap} (p e : Nat) (H : DeadOK h) : DeadOK (detachNode h p e) := by
  unfold detachNode
  split
  · split
    · exact deadOK_detachAt _ _ (deadOK_upd_parent (fun r => ⟨rfl, rfl, rfl⟩) H)
    · exact H
  · exact H

theorem deadOK_clearKids {h : Heap} (p : Nat) (H : DeadOK h) : DeadOK (clearKids h p) := by
  unfold clearKids
  split
  · rename_i hl
    exact deadOK_release _ _ _ (deadOK_emptyKids p true (Or.inr ⟨rfl, hl⟩) H)
  · exact H

theorem deadOK_insertAt {h : Heap} (p j c : Nat) (H : DeadOK h) : DeadOK (insertAt h p j c) := by
  unfold insertAt
  split
  · split
    · rename_i hg
      simp only [Bool.and_eq_true, decide_eq_true_eq] at hg
      obtain ⟨⟨_, hpl⟩, hcl⟩ := hg
      apply deadOK_upd_live
      · simp only [upd]; split <;> exact hcl
      · exact deadOK_upd_live (by exact hpl) H
    · exact H
  · exact H
theorem deadOK_step {h : Heap} (o : Op) (H : DeadOK h) : DeadOK (step h o) := by
  cases o with
  | new v => exact deadOK_setVar _ _ (deadOK_alloc H)
  | append v w =>
    simp only [step]; split
    · exact deadOK_attach _ _ H
    · exact H
  | insert v w j =>
    simp only [step]; split
    · exact deadOK_insertAt _ _ _ H
    · exact H
  | remove v j =>
    simp only [step]; split
    · split
      · exact H
      · exact deadOK_detachAt _ _ H
    · exact H
  | removeE v w =>
    simp only [step]; split
    · exact deadOK_detachNode _ _ H
    · exact H
  | clear v =>
    simp only [step]; split
    · exact deadOK_clearKids _ H
    · exact H
  | child v w j =>
    simp only [step]; split
    · split
      · exact deadOK_setVar _ _ H
      · exact H
    · exact H
  | assign v w =>
    simp only [step]; split
    · exact deadOK_setVar _ _ H
    · exact H
  | drop v => exact deadOK_setVar _ _ H
  | up v w =>
    simp only [step]; split
    · exact deadOK_setVar _ _ H
    · exact H

theorem deadOK_run (ops : List Op) : ∀ h, DeadOK h → DeadOK (run h ops) := by
  induction ops with
  | nil => intro h H; exact H
  | cons o os ih => intro h H; exact ih _ (deadOK_step o H)

end AslProofs.XmlOwn
