import AslModel.Xml
import AslProofs.Xml
/-! Helper lemmas for C07, part 2: what the decoder does on the encoder's output. -/
namespace AslProofs.Xml
open AslModel.Xml

set_option hygiene false in
macro "destruct_sh" c:ident h:ident : tactic => `(tactic|
  (obtain ⟨st, last', b, ref, atname, angle, prev, stack, next⟩ := $c
   obtain ⟨h1, h2, h3, h4⟩ := $h
   simp only at h1 h2 h3; subst h1; subst h2; subst h3))

theorem step_tagStart_name (g : Bool) (c : Cfg) (last : St) (b0 : Bytes) (s : List AFrame) (ch : UInt8)
    (h : Sh c .tagStart last b0 s) (hq : nameStartBad ch = false) :
    ∃ c', step g c ch = .cont c' ∧ Sh c' .tag last [ch] s := by
  obtain ⟨_, h47, h33, h63, _, _, _⟩ := nameStart_facts ch hq
  destruct_sh c h
  simp [step, h47, h33, h63, hq]
  exact ⟨rfl, rfl, rfl, h4⟩

theorem step_tagStart_slash (g : Bool) (c : Cfg) (last : St) (b0 : Bytes) (s : List AFrame)
    (h : Sh c .tagStart last b0 s) :
    ∃ c', step g c 47 = .cont c' ∧ Sh c' .tagEnd last b0 s := by
  destruct_sh c h
  simp [step]
  exact ⟨rfl, rfl, rfl, h4⟩

theorem step_tag_gt (g : Bool) (c : Cfg) (last : St) (tag : Bytes) (s : List AFrame) (h : Sh c .tag last tag s) :
    ∃ c', step g c 62 = .cont c' ∧ Sh c' .free last [] ((tag, [], []) :: s) := by
  destruct_sh c h
  simp [step]
  refine ⟨rfl, rfl, rfl, ?_⟩
  simpa [astack, push, fabs, eraseList] using h4

theorem step_tag_slash (g : Bool) (c : Cfg) (last : St) (tag : Bytes) (s : List AFrame) (h : Sh c .tag last tag s) :
    ∃ c', step g c 47 = .cont c' ∧ Sh c' .slash last [] ((tag, [], []) :: s) := by
  destruct_sh c h
  simp [step]
  refine ⟨rfl, rfl, rfl, ?_⟩
  simpa [astack, push, fabs, eraseList] using h4

theorem step_tag_sp (g : Bool) (c : Cfg) (last : St) (tag : Bytes) (s : List AFrame) (h : Sh c .tag last tag s) :
    ∃ c', step g c 32 = .cont c' ∧ Sh c' .waitAtt last [] ((tag, [], []) :: s) := by
  destruct_sh c h
  simp [step, isWs]
  refine ⟨rfl, rfl, rfl, ?_⟩
  simpa [astack, push, fabs, eraseList] using h4

theorem step_slash_gt (g : Bool) (c : Cfg) (last : St) (b0 : Bytes) (E P : AFrame) (r : List AFrame)
    (h : Sh c .slash last b0 (E :: P :: r)) :
    ∃ c', step g c 62 = .cont c' ∧ Sh c' .free last [] (attachA P E :: r) := by
  destruct_sh c h
  rcases stack with _ | ⟨e, _ | ⟨p, rest⟩⟩
  · simp [astack] at h4
  · simp [astack] at h4
  · simp only [astack, List.map_cons, List.cons.injEq] at h4
    obtain ⟨he, hp, hr⟩ := h4
    simp [step, popAttach, ofOpt]
    refine ⟨rfl, rfl, rfl, ?_⟩
    simp [astack, fabs_attach, erase_toNode, he, hp, hr, attachA]

theorem step_waitAtt_sp (g : Bool) (c : Cfg) (last : St) (b0 : Bytes) (s : List AFrame) (h : Sh c .waitAtt last b0 s) :
    ∃ c', step g c 32 = .cont c' ∧ Sh c' .waitAtt last b0 s := by
  destruct_sh c h
  simp [step, isWs]
  exact ⟨rfl, rfl, rfl, h4⟩

theorem step_waitAtt_name (g : Bool) (c : Cfg) (last : St) (b0 : Bytes) (s : List AFrame) (ch : UInt8)
    (h : Sh c .waitAtt last b0 s) (hq : nameStartBad ch = false) :
    ∃ c', step g c ch = .cont c' ∧ Sh c' .attName last [ch] s := by
  obtain ⟨h62, h47, _, _, hws, _, _⟩ := nameStart_facts ch hq
  destruct_sh c h
  simp [step, h62, h47, hws, hq]
  exact ⟨rfl, rfl, rfl, h4⟩

theorem step_attName_eq (g : Bool) (c : Cfg) (last : St) (k : Bytes) (s : List AFrame) (h : Sh c .attName last k s) :
    ∃ c', step g c 61 = .cont c' ∧ Sh c' .waitAttVal last [] s ∧ c'.atname = k := by
  destruct_sh c h
  simp [step, isWs]
  exact ⟨rfl, rfl, rfl, h4⟩

theorem step_waitAttVal_dq (g : Bool) (c : Cfg) (last : St) (b0 : Bytes) (s : List AFrame) (h : Sh c .waitAttVal last b0 s) :
    ∃ c', step g c 34 = .cont c' ∧ Sh c' .attVal .attVal [] s ∧ c'.atname = c.atname := by
  destruct_sh c h
  simp [step]
  exact ⟨rfl, rfl, rfl, h4⟩

theorem step_attVal_dq (g : Bool) (c : Cfg) (last : St) (v : Bytes) (F : AFrame) (r : List AFrame)
    (h : Sh c .attVal last v (F :: r)) :
    ∃ c', step g c 34 = .cont c' ∧ Sh c' .waitAtt .free [] ((F.1, mapSet c.atname v F.2.1, F.2.2) :: r) := by
  destruct_sh c h
  cases stack with
  | nil => simp [astack] at h4
  | cons f rest =>
    simp only [astack, List.map_cons, List.cons.injEq] at h4
    obtain ⟨hf, hr⟩ := h4
    simp [step, topSetAttr, ofOpt]
    refine ⟨rfl, rfl, rfl, ?_⟩
    simp [astack, fabs, ← hf, hr]

theorem step_waitAtt_gt (g : Bool) (c : Cfg) (last : St) (b0 : Bytes) (s : List AFrame) (h : Sh c .waitAtt last b0 s) :
    ∃ c', step g c 62 = .cont c' ∧ Sh c' .free last [] s := by
  destruct_sh c h
  simp [step]
  exact ⟨rfl, rfl, rfl, h4⟩

theorem step_waitAtt_slash (g : Bool) (c : Cfg) (last : St) (b0 : Bytes) (s : List AFrame) (h : Sh c .waitAtt last b0 s) :
    ∃ c', step g c 47 = .cont c' ∧ Sh c' .slash last b0 s := by
  destruct_sh c h
  simp [step]
  exact ⟨rfl, rfl, rfl, h4⟩

/-- `TAG_END`, `'>'` with a matching open element (two frames at least: the repaired guard passes) -/
theorem step_tagEnd_gt (c : Cfg) (last : St) (E P : AFrame) (r : List AFrame)
    (h : Sh c .tagEnd last E.1 (E :: P :: r)) :
    ∃ c', step true c 62 = .cont c' ∧ Sh c' .free last [] (attachA P E :: r) := by
  destruct_sh c h
  rcases stack with _ | ⟨e, _ | ⟨p, rest⟩⟩
  · simp [astack] at h4
  · simp [astack] at h4
  · simp only [astack, List.map_cons, List.cons.injEq] at h4
    obtain ⟨he, hp, hr⟩ := h4
    have ht : e.tag = E.1 := by rw [← he]; rfl
    simp [step, popAttach, ofOpt, ht, lengthLt2]
    refine ⟨rfl, rfl, rfl, ?_⟩
    simp [astack, fabs_attach, erase_toNode, he, hp, hr, attachA]

/-! ## blocks -/

theorem feeds_append {g : Bool} {c c1 c2 : Cfg} {xs ys : Bytes} (h1 : feed g c xs = .cont c1) (h2 : feed g c1 ys = .cont c2) :
    feed g c (xs ++ ys) = .cont c2 := by
  rw [feed_append_cont h1]; exact h2

theorem feeds_one {g : Bool} {c c1 : Cfg} {ch : UInt8} (h : step g c ch = .cont c1) : feed g c [ch] = .cont c1 := by
  simp [feed, h]

def NameOK : Bytes → Prop
  | [] => False
  | c :: r => nameStartBad c = false ∧ ∀ x ∈ r, nameCharBad x = false

def NulFree (s : Bytes) : Prop := ∀ x ∈ s, x ≠ 0

/-- ` name="escaped value"` read from `WAIT_ATT` (the leading blank already consumed) -/
theorem feed_attr (g : Bool) (c : Cfg) (k v b0 : Bytes) (F : AFrame) (r : List AFrame)
    (h : Sh c .waitAtt .free b0 (F :: r)) (hk : NameOK k) (hv : NulFree v) :
    ∃ c', feed g c (k ++ [61, 34] ++ escape v ++ [34]) = .cont c' ∧
      Sh c' .waitAtt .free [] ((F.1, mapSet k v F.2.1, F.2.2) :: r) := by
  cases k with
  | nil => exact hk.elim
  | cons k0 ks =>
    obtain ⟨hk0, hks⟩ := hk
    obtain ⟨c1, e1, s1⟩ := step_waitAtt_name g c _ _ _ k0 h hk0
    obtain ⟨c2, e2, u2⟩ := scan_attName g ks c1 s1.st hks
    have s2 := s1.of_upd u2
    rw [s1.b] at s2
    obtain ⟨c3, e3, s3, a3⟩ := step_attName_eq g c2 _ _ _ s2
    obtain ⟨c4, e4, s4, a4⟩ := step_waitAttVal_dq g c3 _ _ _ s3
    obtain ⟨c5, e5, u5⟩ := feed_escape g v c4 (Or.inr ⟨s4.st, s4.last⟩) hv
    have s5 := s4.of_upd u5
    rw [s4.b] at s5
    obtain ⟨c6, e6, s6⟩ := step_attVal_dq g c5 _ _ _ _ s5
    have ha : c5.atname = k0 :: ks := by rw [u5.atname, a4, a3]; rfl
    rw [ha] at s6
    refine ⟨c6, ?_, by simpa using s6⟩
    have := feeds_append (feeds_one e1) (feeds_append e2 (feeds_append (feeds_one e3) (feeds_append (feeds_one e4) (feeds_append e5 (feeds_one e6)))))
    simpa using this

def setAll (acc : List (Bytes × Bytes)) (attrs : List (Bytes × Bytes)) : List (Bytes × Bytes) :=
  attrs.foldl (fun a kv => mapSet kv.1 kv.2 a) acc

/-- the whole attribute list read from `WAIT_ATT` -/
theorem feed_attrs (g : Bool) (attrs : List (Bytes × Bytes)) (c : Cfg) (b0 : Bytes) (F : AFrame) (r : List AFrame)
    (h : Sh c .waitAtt .free b0 (F :: r)) (ha : ∀ kv ∈ attrs, NameOK kv.1 ∧ NulFree kv.2) :
    ∃ c' b1, feed g c (encAttrs attrs) = .cont c' ∧
      Sh c' .waitAtt .free b1 ((F.1, setAll F.2.1 attrs, F.2.2) :: r) := by
  induction attrs generalizing c b0 F with
  | nil => exact ⟨c, b0, rfl, by simpa [setAll] using h⟩
  | cons kv rest ih =>
    obtain ⟨k, v⟩ := kv
    obtain ⟨c1, e1, s1⟩ := step_waitAtt_sp g c _ _ _ h
    obtain ⟨c2, e2, s2⟩ := feed_attr g c1 k v _ F r s1 (ha (k, v) (by simp)).1 (ha (k, v) (by simp)).2
    obtain ⟨c3, b3, e3, s3⟩ := ih c2 [] _ s2 (fun kv hkv => ha kv (by simp [hkv]))
    refine ⟨c3, b3, ?_, by simpa [setAll] using s3⟩
    have := feeds_append (feeds_one e1) (feeds_append e2 e3)
    simpa [encAttrs] using this

/-- `<tag attrs` read from `FREE` with pending text `w` -/
theorem feed_open_pre (g : Bool) (c : Cfg) (w tag : Bytes) (attrs : List (Bytes × Bytes)) (F : AFrame) (r : List AFrame)
    (h : Sh c .free .free w (F :: r)) (ht : NameOK tag) (ha : ∀ kv ∈ attrs, NameOK kv.1 ∧ NulFree kv.2) :
    ∃ c', feed g c ([60] ++ tag ++ encAttrs attrs) = .cont c' ∧
      ((attrs = [] ∧ Sh c' .tag .free tag (flushF F w :: r)) ∨
       (∃ b1, Sh c' .waitAtt .free b1 ((tag, setAll [] attrs, []) :: flushF F w :: r))) := by
  cases tag with
  | nil => exact ht.elim
  | cons t0 ts =>
    obtain ⟨ht0, hts⟩ := ht
    obtain ⟨c1, e1, s1⟩ := step_free_lt g c _ _ _ _ h
    obtain ⟨c2, e2, s2⟩ := step_tagStart_name g c1 _ _ _ t0 s1 ht0
    obtain ⟨c3, e3, u3⟩ := scan_tag g ts c2 s2.st hts
    have s3 := s2.of_upd u3
    rw [s2.b] at s3
    cases attrs with
    | nil =>
      refine ⟨c3, ?_, Or.inl ⟨rfl, by simpa using s3⟩⟩
      have := feeds_append (feeds_one e1) (feeds_append (feeds_one e2) e3)
      simpa [encAttrs] using this
    | cons kv rest =>
      obtain ⟨k, v⟩ := kv
      obtain ⟨c4, e4, s4⟩ := step_tag_sp g c3 _ _ _ s3
      obtain ⟨c5, e5, s5⟩ := feed_attr g c4 k v _ _ _ s4 (ha (k, v) (by simp)).1 (ha (k, v) (by simp)).2
      obtain ⟨c6, b6, e6, s6⟩ := feed_attrs g rest c5 [] _ _ s5 (fun kv hkv => ha kv (by simp [hkv]))
      refine ⟨c6, ?_, Or.inr ⟨b6, by simpa [setAll] using s6⟩⟩
      have := feeds_append (feeds_one e1) (feeds_append (feeds_one e2) (feeds_append e3
        (feeds_append (feeds_one e4) (feeds_append e5 e6))))
      simpa [encAttrs] using this

/-- `<tag attrs>` -/
theorem feed_open_gt (g : Bool) (c : Cfg) (w tag : Bytes) (attrs : List (Bytes × Bytes)) (F : AFrame) (r : List AFrame)
    (h : Sh c .free .free w (F :: r)) (ht : NameOK tag) (ha : ∀ kv ∈ attrs, NameOK kv.1 ∧ NulFree kv.2) :
    ∃ c', feed g c ([60] ++ tag ++ encAttrs attrs ++ [62]) = .cont c' ∧
      Sh c' .free .free [] ((tag, setAll [] attrs, []) :: flushF F w :: r) := by
  obtain ⟨c1, e1, h1⟩ := feed_open_pre g c w tag attrs F r h ht ha
  rcases h1 with ⟨rfl, s1⟩ | ⟨b1, s1⟩
  · obtain ⟨c2, e2, s2⟩ := step_tag_gt g c1 _ _ _ s1
    exact ⟨c2, feeds_append e1 (feeds_one e2), by simpa [setAll] using s2⟩
  · obtain ⟨c2, e2, s2⟩ := step_waitAtt_gt g c1 _ _ _ s1
    exact ⟨c2, feeds_append e1 (feeds_one e2), s2⟩

/-- `<tag attrs/>` -/
theorem feed_open_close (g : Bool) (c : Cfg) (w tag : Bytes) (attrs : List (Bytes × Bytes)) (F : AFrame) (r : List AFrame)
    (h : Sh c .free .free w (F :: r)) (ht : NameOK tag) (ha : ∀ kv ∈ attrs, NameOK kv.1 ∧ NulFree kv.2) :
    ∃ c', feed g c ([60] ++ tag ++ encAttrs attrs ++ [47, 62]) = .cont c' ∧
      Sh c' .free .free [] (attachA (flushF F w) (tag, setAll [] attrs, []) :: r) := by
  obtain ⟨c1, e1, h1⟩ := feed_open_pre g c w tag attrs F r h ht ha
  rcases h1 with ⟨rfl, s1⟩ | ⟨b1, s1⟩
  · obtain ⟨c2, e2, s2⟩ := step_tag_slash g c1 _ _ _ s1
    obtain ⟨c3, e3, s3⟩ := step_slash_gt g c2 _ _ _ _ _ s2
    exact ⟨c3, feeds_append e1 (feeds_append (feeds_one e2) (feeds_one e3)), by simpa [setAll] using s3⟩
  · obtain ⟨c2, e2, s2⟩ := step_waitAtt_slash g c1 _ _ _ s1
    obtain ⟨c3, e3, s3⟩ := step_slash_gt g c2 _ _ _ _ _ s2
    exact ⟨c3, feeds_append e1 (feeds_append (feeds_one e2) (feeds_one e3)), s3⟩

theorem nameOK_no_gt (tag : Bytes) (h : NameOK tag) : ∀ ch ∈ tag, ch ≠ 62 := by
  cases tag with
  | nil => exact h.elim
  | cons t0 ts =>
    intro ch hch
    simp only [List.mem_cons] at hch
    rcases hch with rfl | hch
    · exact (nameStart_facts _ h.1).1
    · exact (nameChar_facts _ (h.2 ch hch)).1

/-- `</tag>` read from `FREE` with pending text `w` while `tag` is the open element -/
theorem feed_close (c : Cfg) (w : Bytes) (E P : AFrame) (r : List AFrame)
    (h : Sh c .free .free w (E :: P :: r)) (ht : NameOK E.1) :
    ∃ c', feed true c ([60, 47] ++ E.1 ++ [62]) = .cont c' ∧
      Sh c' .free .free [] (attachA P (flushF E w) :: r) := by
  obtain ⟨c1, e1, s1⟩ := step_free_lt true c _ _ _ _ h
  obtain ⟨c2, e2, s2⟩ := step_tagStart_slash true c1 _ _ _ s1
  obtain ⟨c3, e3, u3⟩ := scan_tagEnd true E.1 c2 s2.st (nameOK_no_gt _ ht)
  have s3 := s2.of_upd u3
  rw [s2.b] at s3
  simp only [List.nil_append] at s3
  obtain ⟨c4, e4, s4⟩ := step_tagEnd_gt c3 .free (flushF E w) P r (by simpa [flushF] using s3)
  refine ⟨c4, ?_, s4⟩
  have := feeds_append (feeds_one e1) (feeds_append (feeds_one e2) (feeds_append e3 (feeds_one e4)))
  simpa using this


/-! ## what the decoder rebuilds from an encoded tree -/

mutual
/-- the tree the decoder rebuilds from the encoding of `t`: children are absorbed left to right with a
    pending text buffer, exactly as the `FREE` state does -/
def normOp : Tree → Tree
  | .text s => .text s
  | .elem tag attrs cs => .elem tag attrs (flushK (absorbL cs [] []).2 (absorbL cs [] []).1)
/-- pending text `w`, children so far `ks`, after reading the encodings of the trees -/
def absorbL : List Tree → Bytes → List Tree → Bytes × List Tree
  | [], w, ks => (w, ks)
  | t :: r, w, ks => match t with
    | .text s => absorbL r (w ++ s) ks
    | .elem .. => absorbL r [] (flushK ks w ++ [normOp t])
end

def AttrsOK (a : List (Bytes × Bytes)) : Prop :=
  (∀ kv ∈ a, NameOK kv.1 ∧ NulFree kv.2) ∧ a.Pairwise (fun x y => bytesLt x.1 y.1 = true)

mutual
def ValidTree : Tree → Prop
  | .text s => NulFree s
  | .elem tag attrs cs => NameOK tag ∧ AttrsOK attrs ∧ ValidList cs
def ValidList : List Tree → Prop
  | [] => True
  | t :: r => ValidTree t ∧ ValidList r
end

theorem bytesLt_asymm : ∀ (a b : Bytes), bytesLt a b = true → bytesLt b a = false
  | [], [], h => by simp [bytesLt] at h
  | [], _ :: _, _ => by simp [bytesLt]
  | _ :: _, [], h => by simp [bytesLt] at h
  | x :: s, y :: t, h => by
    simp only [bytesLt] at h ⊢
    by_cases h1 : x.toNat < y.toNat
    · have h2 : ¬ y.toNat < x.toNat := by omega
      simp [h1, h2]
    · by_cases h2 : y.toNat < x.toNat
      · simp [h1, h2] at h
      · simp only [h1, h2, if_false] at h ⊢
        exact bytesLt_asymm s t h

theorem bytesLt_irrefl (a : Bytes) : bytesLt a a = false := by
  cases h : bytesLt a a with
  | false => rfl
  | true => have := bytesLt_asymm a a h; rw [h] at this; exact this

theorem bytesLt_ne (a b : Bytes) (h : bytesLt a b = true) : b ≠ a := by
  intro e; subst e; rw [bytesLt_irrefl] at h; exact absurd h (by decide)

theorem mapSet_append (k v : Bytes) (acc : List (Bytes × Bytes)) (h : ∀ a ∈ acc, bytesLt a.1 k = true) :
    mapSet k v acc = acc ++ [(k, v)] := by
  induction acc with
  | nil => rfl
  | cons a r ih =>
    obtain ⟨k', v'⟩ := a
    have h1 : bytesLt k' k = true := h (k', v') (by simp)
    have h2 : k ≠ k' := bytesLt_ne k' k h1
    have h3 : bytesLt k k' = false := bytesLt_asymm k' k h1
    simp only [mapSet, h2, if_false, h3, Bool.false_eq_true, List.cons_append]
    rw [ih (fun a ha => h a (by simp [ha]))]

theorem setAll_sorted (attrs acc : List (Bytes × Bytes))
    (hs : attrs.Pairwise (fun x y => bytesLt x.1 y.1 = true))
    (ha : ∀ a ∈ acc, ∀ x ∈ attrs, bytesLt a.1 x.1 = true) : setAll acc attrs = acc ++ attrs := by
  induction attrs generalizing acc with
  | nil => simp [setAll]
  | cons kv rest ih =>
    obtain ⟨k, v⟩ := kv
    rw [List.pairwise_cons] at hs
    have e : setAll acc ((k, v) :: rest) = setAll (mapSet k v acc) rest := rfl
    rw [e, mapSet_append k v acc (fun a h => ha a h (k, v) (by simp))]
    rw [ih (acc ++ [(k, v)]) hs.2]
    · simp
    · intro a h x hx
      simp only [List.mem_append, List.mem_singleton] at h
      rcases h with h | rfl
      · exact ha a h x (by simp [hx])
      · exact hs.1 x hx

theorem setAll_nil_sorted (attrs : List (Bytes × Bytes)) (h : AttrsOK attrs) : setAll [] attrs = attrs := by
  simpa using setAll_sorted attrs [] h.2 (by simp)

theorem nameOK_ne_nil (tag : Bytes) (h : NameOK tag) : tag.isEmpty = false := by
  cases tag with
  | nil => exact h.elim
  | cons => rfl

mutual
/-- the decoder on the compact encoding of one tree, from `FREE` with pending text `w` -/
theorem feed_tree_c (lvl : Nat) : ∀ (t : Tree), ValidTree t → ∀ (c : Cfg) (w : Bytes) (F : AFrame) (r : List AFrame),
    Sh c .free .free w (F :: r) →
    ∃ c', feed true c (encodeAt false lvl t) = .cont c' ∧
      Sh c' .free .free (absorbL [t] w F.2.2).1 ((F.1, F.2.1, (absorbL [t] w F.2.2).2) :: r)
  | .text s, ht, c, w, F, r, h => by
    obtain ⟨c1, e1, u1⟩ := feed_escape true s c (Or.inl ⟨h.st, h.last⟩) ht
    have s1 := h.of_upd u1
    rw [h.b] at s1
    exact ⟨c1, by simpa [encodeAt] using e1, by simpa [absorbL] using s1⟩
  | .elem tag attrs cs, ht, c, w, F, r, h => by
    obtain ⟨htag, hattrs, hcs⟩ := ht
    have hne := nameOK_ne_nil tag htag
    have hset := setAll_nil_sorted attrs hattrs
    cases cs with
    | nil =>
      obtain ⟨c1, e1, s1⟩ := feed_open_close true c w tag attrs F r h htag hattrs.1
      refine ⟨c1, ?_, ?_⟩
      · simpa [encodeAt, hne] using e1
      · simpa [absorbL, normOp, attachA, flushF, hset, flushK] using s1
    | cons c0 rest =>
      obtain ⟨c1, e1, s1⟩ := feed_open_gt true c w tag attrs F r h htag hattrs.1
      obtain ⟨c2, e2, s2⟩ := feed_list_c (lvl + 1) (c0 :: rest) hcs c1 [] (tag, setAll [] attrs, []) (flushF F w :: r) s1
      obtain ⟨c3, e3, s3⟩ := feed_close c2 _ _ _ _ s2 htag
      refine ⟨c3, ?_, ?_⟩
      · have := feeds_append e1 (feeds_append e2 e3)
        simpa [encodeAt, hne] using this
      · simpa [absorbL, normOp, attachA, flushF, hset] using s3
theorem feed_list_c (lvl : Nat) : ∀ (ts : List Tree), ValidList ts → ∀ (c : Cfg) (w : Bytes) (F : AFrame) (r : List AFrame),
    Sh c .free .free w (F :: r) →
    ∃ c', feed true c (encodeList false lvl ts) = .cont c' ∧
      Sh c' .free .free (absorbL ts w F.2.2).1 ((F.1, F.2.1, (absorbL ts w F.2.2).2) :: r)
  | [], _, c, w, F, r, h => ⟨c, rfl, by simpa [absorbL] using h⟩
  | t :: ts, ht, c, w, F, r, h => by
    obtain ⟨c1, e1, s1⟩ := feed_tree_c lvl t ht.1 c w F r h
    obtain ⟨c2, e2, s2⟩ := feed_list_c lvl ts ht.2 c1 _ (F.1, F.2.1, (absorbL [t] w F.2.2).2) r s1
    refine ⟨c2, by simpa [encodeList] using feeds_append e1 e2, ?_⟩
    cases t with
    | text s => simpa [absorbL] using s2
    | elem tag attrs cs => simpa [absorbL] using s2
end

/-! ## the encoder's output has no NUL and does not start with `<?xml` -/

theorem escapeByte_nulfree (c : UInt8) (h : c ≠ 0) : ∀ x ∈ escapeByte c, x ≠ 0 := by
  unfold escapeByte
  repeat' split
  all_goals
    intro x hx
    simp only [List.mem_cons, List.not_mem_nil, or_false] at hx
    first
    | (rcases hx with rfl | rfl | rfl | rfl | rfl | rfl <;> decide)
    | (rcases hx with rfl | rfl | rfl | rfl | rfl <;> decide)
    | (rcases hx with rfl | rfl | rfl | rfl <;> decide)
    | (subst hx; exact h)

theorem mem_takeWhile_ne0 (s : Bytes) : ∀ x ∈ s.takeWhile (· != 0), x ≠ 0 := by
  induction s with
  | nil => intro x hx; simp at hx
  | cons a t ih =>
    intro x hx
    simp only [List.takeWhile_cons] at hx
    split at hx
    · rename_i ha
      simp only [List.mem_cons] at hx
      rcases hx with rfl | hx
      · simpa using ha
      · exact ih x hx
    · simp at hx

theorem escape_nulfree (s : Bytes) : NulFree (escape s) := by
  intro x hx
  unfold escape at hx
  rw [List.mem_flatMap] at hx
  obtain ⟨c, hc, hx⟩ := hx
  exact escapeByte_nulfree c (mem_takeWhile_ne0 s c hc) x hx

theorem nameOK_nulfree (n : Bytes) (h : NameOK n) : NulFree n := by
  cases n with
  | nil => exact h.elim
  | cons t0 ts =>
    intro ch hch
    simp only [List.mem_cons] at hch
    rcases hch with rfl | hch
    · exact (nameStart_facts _ h.1).2.2.2.2.2.1
    · exact (nameChar_facts _ (h.2 ch hch)).2.2.2.2

theorem nulfree_append {a b : Bytes} (ha : NulFree a) (hb : NulFree b) : NulFree (a ++ b) := by
  intro x hx
  rw [List.mem_append] at hx
  rcases hx with h | h
  · exact ha x h
  · exact hb x h

theorem encAttrs_nulfree (attrs : List (Bytes × Bytes)) (h : ∀ kv ∈ attrs, NameOK kv.1 ∧ NulFree kv.2) :
    NulFree (encAttrs attrs) := by
  induction attrs with
  | nil => intro x hx; simp [encAttrs] at hx
  | cons kv rest ih =>
    obtain ⟨k, v⟩ := kv
    simp only [encAttrs]
    have hk := nameOK_nulfree k (h (k, v) (by simp)).1
    refine nulfree_append (nulfree_append (nulfree_append (nulfree_append (nulfree_append ?_ hk) ?_) (escape_nulfree v)) ?_)
      (ih (fun kv hkv => h kv (by simp [hkv])))
    · intro x hx; simp at hx; subst hx; decide
    · intro x hx; simp at hx; rcases hx with rfl | rfl <;> decide
    · intro x hx; simp at hx; subst hx; decide

theorem tabs_nulfree (n : Nat) : NulFree (tabs n) := by
  intro x hx
  simp only [tabs, List.mem_replicate] at hx
  rw [hx.2]; decide

theorem lit_nulfree (l : Bytes) (h : l.all (· != 0) = true) : NulFree l := by
  intro x hx
  have := List.all_eq_true.mp h x hx
  simpa using this

mutual
theorem encodeAt_nulfree (fmt : Bool) (lvl : Nat) : ∀ (t : Tree), ValidTree t → NulFree (encodeAt fmt lvl t)
  | .text s, _ => by simpa [encodeAt] using escape_nulfree s
  | .elem tag attrs cs, ht => by
    obtain ⟨htag, hattrs, hcs⟩ := ht
    have h1 := nameOK_nulfree tag htag
    have h2 := encAttrs_nulfree attrs hattrs.1
    have h3 := encodeList_nulfree fmt (lvl + 1) cs hcs
    have h4 := tabs_nulfree lvl
    unfold encodeAt
    simp only
    split
    · intro x hx; simp at hx
    · split
      all_goals
        repeat' apply nulfree_append
        all_goals
          first
          | assumption
          | exact lit_nulfree _ (by decide)
          | (split <;> first | assumption | exact lit_nulfree _ (by decide))
theorem encodeList_nulfree (fmt : Bool) (lvl : Nat) : ∀ (ts : List Tree), ValidList ts → NulFree (encodeList fmt lvl ts)
  | [], _ => by intro x hx; simp [encodeList] at hx
  | t :: ts, ht => by
    simp only [encodeList]
    exact nulfree_append (encodeAt_nulfree fmt lvl t ht.1) (encodeList_nulfree fmt lvl ts ht.2)
end

theorem sh_init : Sh init .free .free [] [([], [], [])] := ⟨rfl, rfl, rfl, rfl⟩

theorem eraseList_singleton (l : List Node) (t : Tree) (h : eraseList l = [t]) : ∃ n, l = [n] ∧ n.erase = t := by
  match l, h with
  | [n], h => simp only [eraseList, List.cons.injEq, and_true] at h; exact ⟨n, rfl, h⟩
  | [], h => simp [eraseList] at h
  | _ :: _ :: _, h => simp [eraseList] at h

theorem erase_clearParent (n : Node) : n.clearParent.erase = n.erase := by
  cases n <;> simp [Node.clearParent, Node.erase]

/-- `finish` on a configuration whose only frame is the root with exactly one child -/
theorem finish_single (c : Cfg) (st last : St) (b : Bytes) (t : Tree) (h : Sh c st last b [([], [], [t])]) :
    ∃ n, finish c = .node n ∧ n.erase = t := by
  have hs := h.s
  unfold astack at hs
  match hst : c.stack, hs with
  | [f], hs =>
    simp only [List.map_cons, List.map_nil, List.cons.injEq, and_true, fabs, Prod.mk.injEq] at hs
    obtain ⟨n, hn, he⟩ := eraseList_singleton _ _ hs.2.2
    exact ⟨n.clearParent, by simp [finish, hst, hn], by rw [erase_clearParent]; exact he⟩
  | [], hs => simp at hs
  | _ :: _ :: _, hs => simp at hs

theorem body_of_elem (fmt : Bool) (tag : Bytes) (attrs : List (Bytes × Bytes)) (cs : List Tree) (ht : NameOK tag) :
    body (encodeAt fmt 0 (.elem tag attrs cs)) = encodeAt fmt 0 (.elem tag attrs cs) := by
  cases tag with
  | nil => exact ht.elim
  | cons t0 ts =>
    have h63 : t0 ≠ 63 := (nameStart_facts _ ht.1).2.2.2.1
    have h63' : (63 == t0) = false := by simp [Ne.symm h63]
    unfold body
    have : xmlDeclPrefix.isPrefixOf (encodeAt fmt 0 (.elem (t0 :: ts) attrs cs)) = false := by
      unfold encodeAt
      simp only [List.isEmpty_cons, Bool.false_eq_true, if_false, tabs, List.replicate_zero, ite_self, List.nil_append]
      split <;> simp [xmlDeclPrefix, List.isPrefixOf, h63']
    simp [this]

theorem decode_of_feed (x : Bytes) (c' : Cfg) (hx : NulFree x) (hne : x.isEmpty = false) (hb : body x = x)
    (hf : feed true init x = .cont c') : decode x = finish c' := by
  unfold decode decodeG
  simp only
  rw [takeWhile_nulfree x hx, hne, hb]
  simp only [Bool.false_eq_true, if_false]
  have := run_append_cont hf []
  simpa [run] using this

/-- decoding the compact encoding of a valid element tree rebuilds `normOp` of it -/
theorem decode_encode_compact (tag : Bytes) (attrs : List (Bytes × Bytes)) (cs : List Tree)
    (ht : ValidTree (.elem tag attrs cs)) :
    ∃ n, decode (encode false (.elem tag attrs cs)) = .node n ∧ n.erase = normOp (.elem tag attrs cs) := by
  obtain ⟨c', hf, hs⟩ := feed_tree_c 0 (.elem tag attrs cs) ht init [] ([], [], []) [] sh_init
  have hne : (encode false (.elem tag attrs cs)).isEmpty = false := by
    have := nameOK_ne_nil tag ht.1
    unfold encode encodeAt
    simp only [this, Bool.false_eq_true, if_false]
    split <;> simp
  have hd := decode_of_feed _ c' (encodeAt_nulfree false 0 _ ht) hne (body_of_elem false tag attrs cs ht.1) hf
  unfold encode
  rw [hd]
  have hs' : Sh c' .free .free [] [([], [], [normOp (.elem tag attrs cs)])] := by
    simpa [absorbL, flushK] using hs
  exact finish_single c' _ _ _ _ hs'

/-! ## the indented encoding -/

/-- pending text that the `FREE` `'<'` case drops -/
def Blank (w : Bytes) : Prop := (w.any fun x => !isWs x) = false

theorem flushK_blank (ks : List Tree) (w : Bytes) (h : Blank w) : flushK ks w = ks := by
  unfold flushK; rw [h]; simp

theorem flushF_blank (F : AFrame) (w : Bytes) (h : Blank w) : flushF F w = F := by
  unfold flushF; rw [flushK_blank _ _ h]

theorem blank_nil : Blank [] := rfl
theorem blank_nl : Blank [10] := by unfold Blank; decide

theorem blank_append {a b : Bytes} (ha : Blank a) (hb : Blank b) : Blank (a ++ b) := by
  unfold Blank at *; simp [List.any_append, ha, hb]

theorem blank_tabs (n : Nat) : Blank (tabs n) := by
  unfold Blank tabs
  induction n with
  | zero => rfl
  | succ k ih => simp [List.replicate_succ, isWs] at ih ⊢

/-- blank characters in `FREE` only extend the pending text -/
theorem feed_ws (g : Bool) (ws : Bytes) (c : Cfg) (w : Bytes) (s : List AFrame) (h : Sh c .free .free w s)
    (hws : ∀ ch ∈ ws, ch = 9 ∨ ch = 10) :
    ∃ c', feed g c ws = .cont c' ∧ Sh c' .free .free (w ++ ws) s := by
  obtain ⟨c1, e1, u1⟩ := scan_free g ws c h.st (fun ch hch => by rcases hws ch hch with rfl | rfl <;> decide)
  have := h.of_upd u1
  rw [h.b] at this
  exact ⟨c1, e1, this⟩

def soleKids (cs : List Tree) : Prop := (∀ t ∈ cs, t.isText = false) ∨ ∃ s, cs = [.text s]

mutual
/-- text occurs only as the sole child of its element -/
def SoleText : Tree → Prop
  | .text _ => True
  | .elem _ _ cs => soleKids cs ∧ SoleTextL cs
def SoleTextL : List Tree → Prop
  | [] => True
  | t :: r => SoleText t ∧ SoleTextL r
end

theorem head_not_text (cs : List Tree) (h : ∀ t ∈ cs, t.isText = false) : (cs.head?.map Tree.isText).getD false = false := by
  cases cs with
  | nil => rfl
  | cons a r => simp [h a (by simp)]

theorem last_not_text (cs : List Tree) (h : ∀ t ∈ cs, t.isText = false) : (cs.getLast?.map Tree.isText).getD false = false := by
  cases hl : cs.getLast? with
  | none => rfl
  | some x => simp [h x (List.mem_of_getLast? hl)]

theorem absorbL_elems (cs : List Tree) (h : ∀ t ∈ cs, t.isText = false) (w : Bytes) (ks : List Tree) (hw : Blank w) :
    flushK (absorbL cs w ks).2 (absorbL cs w ks).1 = ks ++ cs.map normOp := by
  induction cs generalizing w ks with
  | nil => simp [absorbL, flushK_blank _ _ hw]
  | cons t r ih =>
    cases t with
    | text s => have := h (.text s) (by simp); simp [Tree.isText] at this
    | elem tag attrs cs' =>
      simp only [absorbL]
      rw [ih (fun t ht => h t (by simp [ht])) [] _ blank_nil, flushK_blank _ _ hw]
      simp

theorem encodeAt_true_nil (lvl : Nat) (tag : Bytes) (attrs : List (Bytes × Bytes)) (hne : tag.isEmpty = false) :
    encodeAt true lvl (.elem tag attrs []) = tabs lvl ++ ([60] ++ tag ++ encAttrs attrs ++ [47, 62]) ++ [10] := by
  unfold encodeAt; simp [hne]

theorem encodeAt_true_text (lvl : Nat) (tag : Bytes) (attrs : List (Bytes × Bytes)) (s : Bytes) (hne : tag.isEmpty = false) :
    encodeAt true lvl (.elem tag attrs [.text s]) =
      tabs lvl ++ ([60] ++ tag ++ encAttrs attrs ++ [62]) ++ escape s ++ ([60, 47] ++ tag ++ [62]) ++ [10] := by
  unfold encodeAt; simp [hne, Tree.isText, encodeList, encodeAt]

theorem encodeAt_true_elems (lvl : Nat) (tag : Bytes) (attrs : List (Bytes × Bytes)) (cs : List Tree)
    (hne : tag.isEmpty = false) (hcs : cs.isEmpty = false) (h : ∀ t ∈ cs, t.isText = false) :
    encodeAt true lvl (.elem tag attrs cs) =
      tabs lvl ++ ([60] ++ tag ++ encAttrs attrs ++ [62]) ++ [10] ++ encodeList true (lvl + 1) cs ++ tabs lvl
        ++ ([60, 47] ++ tag ++ [62]) ++ [10] := by
  unfold encodeAt; simp [hne, hcs, head_not_text cs h, last_not_text cs h]

theorem ws_tabs (n : Nat) : ∀ ch ∈ tabs n, ch = 9 ∨ ch = 10 := by
  intro ch h; simp only [tabs, List.mem_replicate] at h; exact Or.inl h.2

theorem ws_nl : ∀ ch ∈ ([10] : Bytes), ch = 9 ∨ ch = 10 := by
  intro ch h; simp at h; exact Or.inr h

mutual
/-- the decoder on the indented encoding of one element, from `FREE` with blank pending text -/
theorem feed_tree_i (lvl : Nat) : ∀ (t : Tree), ValidTree t → SoleText t → t.isText = false →
    ∀ (c : Cfg) (w : Bytes) (F : AFrame) (r : List AFrame), Sh c .free .free w (F :: r) → Blank w →
    ∃ c', feed true c (encodeAt true lvl t) = .cont c' ∧
      Sh c' .free .free [10] ((F.1, F.2.1, F.2.2 ++ [normOp t]) :: r)
  | .text s, _, _, hnt, _, _, _, _, _, _ => by simp [Tree.isText] at hnt
  | .elem tag attrs cs, ht, hsole, _, c, w, F, r, h, hw => by
    obtain ⟨htag, hattrs, hcs⟩ := ht
    obtain ⟨hkids, hsl⟩ := hsole
    have hne := nameOK_ne_nil tag htag
    have hset := setAll_nil_sorted attrs hattrs
    obtain ⟨c0, e0, s0⟩ := feed_ws true (tabs lvl) c w _ h (ws_tabs lvl)
    have hw0 : Blank (w ++ tabs lvl) := blank_append hw (blank_tabs lvl)
    rcases hkids with hel | ⟨s, rfl⟩
    · cases hcs' : cs.isEmpty with
      | true =>
        have : cs = [] := by simpa using hcs'
        subst this
        obtain ⟨c1, e1, s1⟩ := feed_open_close true c0 _ tag attrs F r s0 htag hattrs.1
        obtain ⟨c2, e2, s2⟩ := feed_ws true [10] c1 _ _ s1 ws_nl
        refine ⟨c2, ?_, ?_⟩
        · rw [encodeAt_true_nil lvl tag attrs hne]
          exact feeds_append (feeds_append e0 e1) e2
        · simpa [normOp, absorbL, attachA, flushF_blank _ _ hw0, hset, flushK] using s2
      | false =>
        obtain ⟨c1, e1, s1⟩ := feed_open_gt true c0 _ tag attrs F r s0 htag hattrs.1
        obtain ⟨c2, e2, s2⟩ := feed_ws true [10] c1 _ _ s1 ws_nl
        obtain ⟨c3, w3, e3, hw3, s3⟩ := feed_list_i (lvl + 1) cs hcs hsl hel c2 _ _ _ s2 blank_nl
        obtain ⟨c4, e4, s4⟩ := feed_ws true (tabs lvl) c3 _ _ s3 (ws_tabs lvl)
        have hw4 : Blank (w3 ++ tabs lvl) := blank_append hw3 (blank_tabs lvl)
        obtain ⟨c5, e5, s5⟩ := feed_close c4 _ _ _ _ s4 htag
        obtain ⟨c6, e6, s6⟩ := feed_ws true [10] c5 _ _ s5 ws_nl
        refine ⟨c6, ?_, ?_⟩
        · rw [encodeAt_true_elems lvl tag attrs cs hne hcs' hel]
          exact feeds_append (feeds_append (feeds_append (feeds_append (feeds_append (feeds_append e0 e1) e2) e3) e4) e5) e6
        · have hn : normOp (.elem tag attrs cs) = .elem tag attrs (cs.map normOp) := by
            simp only [normOp]
            rw [absorbL_elems cs hel [] [] blank_nil]; simp
          rw [hn]
          simpa [attachA, flushF_blank _ _ hw0, flushF_blank _ _ hw4, hset] using s6
    · obtain ⟨c1, e1, s1⟩ := feed_open_gt true c0 _ tag attrs F r s0 htag hattrs.1
      obtain ⟨c2, e2, u2⟩ := feed_escape true s c1 (Or.inl ⟨s1.st, s1.last⟩) hcs.1
      have s2 := s1.of_upd u2
      rw [s1.b] at s2
      obtain ⟨c3, e3, s3⟩ := feed_close c2 _ _ _ _ s2 htag
      obtain ⟨c4, e4, s4⟩ := feed_ws true [10] c3 _ _ s3 ws_nl
      refine ⟨c4, ?_, ?_⟩
      · rw [encodeAt_true_text lvl tag attrs s hne]
        exact feeds_append (feeds_append (feeds_append (feeds_append e0 e1) e2) e3) e4
      · rw [flushF_blank _ _ hw0] at s4
        simpa [normOp, absorbL, attachA, flushF, hset] using s4
theorem feed_list_i (lvl : Nat) : ∀ (ts : List Tree), ValidList ts → SoleTextL ts → (∀ t ∈ ts, t.isText = false) →
    ∀ (c : Cfg) (w : Bytes) (F : AFrame) (r : List AFrame), Sh c .free .free w (F :: r) → Blank w →
    ∃ c' w', feed true c (encodeList true lvl ts) = .cont c' ∧ Blank w' ∧
      Sh c' .free .free w' ((F.1, F.2.1, F.2.2 ++ ts.map normOp) :: r)
  | [], _, _, _, c, w, F, r, h, hw => ⟨c, w, rfl, hw, by simpa using h⟩
  | t :: ts, ht, hs, hel, c, w, F, r, h, hw => by
    obtain ⟨c1, e1, s1⟩ := feed_tree_i lvl t ht.1 hs.1 (hel t (by simp)) c w F r h hw
    obtain ⟨c2, w2, e2, hw2, s2⟩ := feed_list_i lvl ts ht.2 hs.2 (fun x hx => hel x (by simp [hx])) c1 _ _ r s1 blank_nl
    exact ⟨c2, w2, by simpa [encodeList] using feeds_append e1 e2, hw2, by simpa using s2⟩
end

/-- decoding the indented encoding of a valid element tree whose text nodes are sole children rebuilds `normOp` of it -/
theorem decode_encode_indented (tag : Bytes) (attrs : List (Bytes × Bytes)) (cs : List Tree)
    (ht : ValidTree (.elem tag attrs cs)) (hs : SoleText (.elem tag attrs cs)) :
    ∃ n, decode (encode true (.elem tag attrs cs)) = .node n ∧ n.erase = normOp (.elem tag attrs cs) := by
  obtain ⟨c', hf, hsh⟩ := feed_tree_i 0 (.elem tag attrs cs) ht hs rfl init [] ([], [], []) [] sh_init blank_nil
  have hne : (encodeAt true 0 (.elem tag attrs cs)).isEmpty = false := by
    have := nameOK_ne_nil tag ht.1
    unfold encodeAt
    simp only [this, Bool.false_eq_true, if_false]
    split <;> simp [tabs]
  have hd := decode_of_feed _ c' (encodeAt_nulfree true 0 _ ht) hne (body_of_elem true tag attrs cs ht.1) hf
  unfold encode
  rw [hd]
  have hs' : Sh c' .free .free [10] [([], [], [normOp (.elem tag attrs cs)])] := by
    simpa using hsh
  exact finish_single c' _ _ _ _ hs'

end AslProofs.Xml
