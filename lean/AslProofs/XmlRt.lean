import AslModel.Xml
import AslProofs.Xml
/-! Helper lemmas for C07, part 2: what the decoder does on the encoder's output. -/
namespace AslProofs.Xml
open AslModel.Xml

set_option hygiene false in
macro "destruct_sh" c:ident h:ident : tactic => `(tactic|
  (obtain ⟨st, last', b, ref, atname, angle, prev, stack, next⟩ := $c
   obtain ⟨h1, h2, h3, h4⟩ := $h
   simp only at h1 h2 h3; subst h1; subst h2; subst h3))

theorem step_tagStart_name (g : Bool) (c : Cfg) (last : St) (b0 : Bytes) (s : List AFrame) (ch : UInt8)
    (h : Sh c .tagStart last b0 s) (hq : nameStartBad ch = false) :
    ∃ c', step g c ch = .cont c' ∧ Sh c' .tag last [ch] s := by
  obtain ⟨_, h47, h33, h63, _, _, _⟩ := nameStart_facts ch hq
  destruct_sh c h
  simp [step, h47, h33, h63, hq]
  exact ⟨rfl, rfl, rfl, h4⟩

theorem step_tagStart_slash (g : Bool) (c : Cfg) (last : St) (b0 : Bytes) (s : List AFrame)
    (h : Sh c .tagStart last b0 s) :
    ∃ c', step g c 47 = .cont c' ∧ Sh c' .tagEnd last b0 s := by
  destruct_sh c h
  simp [step]
  exact ⟨rfl, rfl, rfl, h4⟩

theorem step_tag_gt (g : Bool) (c : Cfg) (last : St) (tag : Bytes) (s : List AFrame) (h : Sh c .tag last tag s) :
    ∃ c', step g c 62 = .cont c' ∧ Sh c' .free last [] ((tag, [], []) :: s) := by
  destruct_sh c h
  simp [step]
  refine ⟨rfl, rfl, rfl, ?_⟩
  simpa [astack, push, fabs, eraseList] using h4

theorem step_tag_slash (g : Bool) (c : Cfg) (last : St) (tag : Bytes) (s : List AFrame) (h : Sh c .tag last tag s) :
    ∃ c', step g c 47 = .cont c' ∧ Sh c' .slash last [] ((tag, [], []) :: s) := by
  destruct_sh c h
  simp [step]
  refine ⟨rfl, rfl, rfl, ?_⟩
  simpa [astack, push, fabs, eraseList] using h4

theorem step_tag_sp (g : Bool) (c : Cfg) (last : St) (tag : Bytes) (s : List AFrame) (h : Sh c .tag last tag s) :
    ∃ c', step g c 32 = .cont c' ∧ Sh c' .waitAtt last [] ((tag, [], []) :: s) := by
  destruct_sh c h
  simp [step, isWs]
  refine ⟨rfl, rfl, rfl, ?_⟩
  simpa [astack, push, fabs, eraseList] using h4

theorem step_slash_gt (g : Bool) (c : Cfg) (last : St) (b0 : Bytes) (E P : AFrame) (r : List AFrame)
    (h : Sh c .slash last b0 (E :: P :: r)) :
    ∃ c', step g c 62 = .cont c' ∧ Sh c' .free last [] (attachA P E :: r) := by
  destruct_sh c h
  rcases stack with _ | ⟨e, _ | ⟨p, rest⟩⟩
  · simp [astack] at h4
  · simp [astack] at h4
  · simp only [astack, List.map_cons, List.cons.injEq] at h4
    obtain ⟨he, hp, hr⟩ := h4
    simp [step, popAttach, ofOpt]
    refine ⟨rfl, rfl, rfl, ?_⟩
    simp [astack, fabs_attach, erase_toNode, he, hp, hr, attachA]

theorem step_waitAtt_sp (g : Bool) (c : Cfg) (last : St) (b0 : Bytes) (s : List AFrame) (h : Sh c .waitAtt last b0 s) :
    ∃ c', step g c 32 = .cont c' ∧ Sh c' .waitAtt last b0 s := by
  destruct_sh c h
  simp [step, isWs]
  exact ⟨rfl, rfl, rfl, h4⟩

theorem step_waitAtt_name (g : Bool) (c : Cfg) (last : St) (b0 : Bytes) (s : List AFrame) (ch : UInt8)
    (h : Sh c .waitAtt last b0 s) (hq : nameStartBad ch = false) :
    ∃ c', step g c ch = .cont c' ∧ Sh c' .attName last [ch] s := by
  obtain ⟨h62, h47, _, _, hws, _, _⟩ := nameStart_facts ch hq
  destruct_sh c h
  simp [step, h62, h47, hws, hq]
  exact ⟨rfl, rfl, rfl, h4⟩

theorem step_attName_eq (g : Bool) (c : Cfg) (last : St) (k : Bytes) (s : List AFrame) (h : Sh c .attName last k s) :
    ∃ c', step g c 61 = .cont c' ∧ Sh c' .waitAttVal last [] s ∧ c'.atname = k := by
  destruct_sh c h
  simp [step, isWs]
  exact ⟨rfl, rfl, rfl, h4⟩

theorem step_waitAttVal_dq (g : Bool) (c : Cfg) (last : St) (b0 : Bytes) (s : List AFrame) (h : Sh c .waitAttVal last b0 s) :
    ∃ c', step g c 34 = .cont c' ∧ Sh c' .attVal .attVal [] s ∧ c'.atname = c.atname := by
  destruct_sh c h
  simp [step]
  exact ⟨rfl, rfl, rfl, h4⟩

theorem step_attVal_dq (g : Bool) (c : Cfg) (last : St) (v : Bytes) (F : AFrame) (r : List AFrame)
    (h : Sh c .attVal last v (F :: r)) :
    ∃ c', step g c 34 = .cont c' ∧ Sh c' .waitAtt .free [] ((F.1, mapSet c.atname v F.2.1, F.2.2) :: r) := by
  destruct_sh c h
  cases stack with
  | nil => simp [astack] at h4
  | cons f rest =>
    simp only [astack, List.map_cons, List.cons.injEq] at h4
    obtain ⟨hf, hr⟩ := h4
    simp [step, topSetAttr, ofOpt]
    refine ⟨rfl, rfl, rfl, ?_⟩
    simp [astack, fabs, ← hf, hr]

theorem step_waitAtt_gt (g : Bool) (c : Cfg) (last : St) (b0 : Bytes) (s : List AFrame) (h : Sh c .waitAtt last b0 s) :
    ∃ c', step g c 62 = .cont c' ∧ Sh c' .free last [] s := by
  destruct_sh c h
  simp [step]
  exact ⟨rfl, rfl, rfl, h4⟩

theorem step_waitAtt_slash (g : Bool) (c : Cfg) (last : St) (b0 : Bytes) (s : List AFrame) (h : Sh c .waitAtt last b0 s) :
    ∃ c', step g c 47 = .cont c' ∧ Sh c' .slash last b0 s := by
  destruct_sh c h
  simp [step]
  exact ⟨rfl, rfl, rfl, h4⟩

/-- `TAG_END`, `'>'` with a matching open element (two frames at least: the repaired guard passes) -/
theorem step_tagEnd_gt (c : Cfg) (last : St) (E P : AFrame) (r : List AFrame)
    (h : Sh c .tagEnd last E.1 (E :: P :: r)) :
    ∃ c', step true c 62 = .cont c' ∧ Sh c' .free last [] (attachA P E :: r) := by
  destruct_sh c h
  rcases stack with _ | ⟨e, _ | ⟨p, rest⟩⟩
  · simp [astack] at h4
  · simp [astack] at h4
  · simp only [astack, List.map_cons, List.cons.injEq] at h4
    obtain ⟨he, hp, hr⟩ := h4
    have ht : e.tag = E.1 := by rw [← he]; rfl
    have hlen : ¬ (rest.length + 1 + 1 < 2) := by omega
    simp [step, popAttach, ofOpt, ht, hlen]
    refine ⟨rfl, rfl, rfl, ?_⟩
    simp [astack, fabs_attach, erase_toNode, he, hp, hr, attachA]

/-! ## blocks -/

theorem feeds_append {g : Bool} {c c1 c2 : Cfg} {xs ys : Bytes} (h1 : feed g c xs = .cont c1) (h2 : feed g c1 ys = .cont c2) :
    feed g c (xs ++ ys) = .cont c2 := by
  rw [feed_append_cont h1]; exact h2

theorem feeds_one {g : Bool} {c c1 : Cfg} {ch : UInt8} (h : step g c ch = .cont c1) : feed g c [ch] = .cont c1 := by
  simp [feed, h]

def NameOK : Bytes → Prop
  | [] => False
  | c :: r => nameStartBad c = false ∧ ∀ x ∈ r, nameCharBad x = false

def NulFree (s : Bytes) : Prop := ∀ x ∈ s, x ≠ 0

/-- ` name="escaped value"` read from `WAIT_ATT` (the leading blank already consumed) -/
theorem feed_attr (g : Bool) (c : Cfg) (k v b0 : Bytes) (F : AFrame) (r : List AFrame)
    (h : Sh c .waitAtt .free b0 (F :: r)) (hk : NameOK k) (hv : NulFree v) :
    ∃ c', feed g c (k ++ [61, 34] ++ escape v ++ [34]) = .cont c' ∧
      Sh c' .waitAtt .free [] ((F.1, mapSet k v F.2.1, F.2.2) :: r) := by
  cases k with
  | nil => exact hk.elim
  | cons k0 ks =>
    obtain ⟨hk0, hks⟩ := hk
    obtain ⟨c1, e1, s1⟩ := step_waitAtt_name g c _ _ _ k0 h hk0
    obtain ⟨c2, e2, u2⟩ := scan_attName g ks c1 s1.st hks
    have s2 := s1.of_upd u2
    rw [s1.b] at s2
    obtain ⟨c3, e3, s3, a3⟩ := step_attName_eq g c2 _ _ _ s2
    obtain ⟨c4, e4, s4, a4⟩ := step_waitAttVal_dq g c3 _ _ _ s3
    obtain ⟨c5, e5, u5⟩ := feed_escape g v c4 (Or.inr ⟨s4.st, s4.last⟩) hv
    have s5 := s4.of_upd u5
    rw [s4.b] at s5
    obtain ⟨c6, e6, s6⟩ := step_attVal_dq g c5 _ _ _ _ s5
    have ha : c5.atname = k0 :: ks := by rw [u5.atname, a4, a3]; rfl
    rw [ha] at s6
    refine ⟨c6, ?_, by simpa using s6⟩
    have := feeds_append (feeds_one e1) (feeds_append e2 (feeds_append (feeds_one e3) (feeds_append (feeds_one e4) (feeds_append e5 (feeds_one e6)))))
    simpa using this

def setAll (acc : List (Bytes × Bytes)) (attrs : List (Bytes × Bytes)) : List (Bytes × Bytes) :=
  attrs.foldl (fun a kv => mapSet kv.1 kv.2 a) acc

/-- the whole attribute list read from `WAIT_ATT` -/
theorem feed_attrs (g : Bool) (attrs : List (Bytes × Bytes)) (c : Cfg) (b0 : Bytes) (F : AFrame) (r : List AFrame)
    (h : Sh c .waitAtt .free b0 (F :: r)) (ha : ∀ kv ∈ attrs, NameOK kv.1 ∧ NulFree kv.2) :
    ∃ c' b1, feed g c (encAttrs attrs) = .cont c' ∧
      Sh c' .waitAtt .free b1 ((F.1, setAll F.2.1 attrs, F.2.2) :: r) := by
  induction attrs generalizing c b0 F with
  | nil => exact ⟨c, b0, rfl, by simpa [setAll] using h⟩
  | cons kv rest ih =>
    obtain ⟨k, v⟩ := kv
    obtain ⟨c1, e1, s1⟩ := step_waitAtt_sp g c _ _ _ h
    obtain ⟨c2, e2, s2⟩ := feed_attr g c1 k v _ F r s1 (ha (k, v) (by simp)).1 (ha (k, v) (by simp)).2
    obtain ⟨c3, b3, e3, s3⟩ := ih c2 [] _ s2 (fun kv hkv => ha kv (by simp [hkv]))
    refine ⟨c3, b3, ?_, by simpa [setAll] using s3⟩
    have := feeds_append (feeds_one e1) (feeds_append e2 e3)
    simpa [encAttrs] using this

/-- `<tag attrs` read from `FREE` with pending text `w` -/
theorem feed_open_pre (g : Bool) (c : Cfg) (w tag : Bytes) (attrs : List (Bytes × Bytes)) (F : AFrame) (r : List AFrame)
    (h : Sh c .free .free w (F :: r)) (ht : NameOK tag) (ha : ∀ kv ∈ attrs, NameOK kv.1 ∧ NulFree kv.2) :
    ∃ c', feed g c ([60] ++ tag ++ encAttrs attrs) = .cont c' ∧
      ((attrs = [] ∧ Sh c' .tag .free tag (flushF F w :: r)) ∨
       (∃ b1, Sh c' .waitAtt .free b1 ((tag, setAll [] attrs, []) :: flushF F w :: r))) := by
  cases tag with
  | nil => exact ht.elim
  | cons t0 ts =>
    obtain ⟨ht0, hts⟩ := ht
    obtain ⟨c1, e1, s1⟩ := step_free_lt g c _ _ _ _ h
    obtain ⟨c2, e2, s2⟩ := step_tagStart_name g c1 _ _ _ t0 s1 ht0
    obtain ⟨c3, e3, u3⟩ := scan_tag g ts c2 s2.st hts
    have s3 := s2.of_upd u3
    rw [s2.b] at s3
    cases attrs with
    | nil =>
      refine ⟨c3, ?_, Or.inl ⟨rfl, by simpa using s3⟩⟩
      have := feeds_append (feeds_one e1) (feeds_append (feeds_one e2) e3)
      simpa [encAttrs] using this
    | cons kv rest =>
      obtain ⟨k, v⟩ := kv
      obtain ⟨c4, e4, s4⟩ := step_tag_sp g c3 _ _ _ s3
      obtain ⟨c5, e5, s5⟩ := feed_attr g c4 k v _ _ _ s4 (ha (k, v) (by simp)).1 (ha (k, v) (by simp)).2
      obtain ⟨c6, b6, e6, s6⟩ := feed_attrs g rest c5 [] _ _ s5 (fun kv hkv => ha kv (by simp [hkv]))
      refine ⟨c6, ?_, Or.inr ⟨b6, by simpa [setAll] using s6⟩⟩
      have := feeds_append (feeds_one e1) (feeds_append (feeds_one e2) (feeds_append e3
        (feeds_append (feeds_one e4) (feeds_append e5 e6))))
      simpa [encAttrs] using this

/-- `<tag attrs>` -/
theorem feed_open_gt (g : Bool) (c : Cfg) (w tag : Bytes) (attrs : List (Bytes × Bytes)) (F : AFrame) (r : List AFrame)
    (h : Sh c .free .free w (F :: r)) (ht : NameOK tag) (ha : ∀ kv ∈ attrs, NameOK kv.1 ∧ NulFree kv.2) :
    ∃ c', feed g c ([60] ++ tag ++ encAttrs attrs ++ [62]) = .cont c' ∧
      Sh c' .free .free [] ((tag, setAll [] attrs, []) :: flushF F w :: r) := by
  obtain ⟨c1, e1, h1⟩ := feed_open_pre g c w tag attrs F r h ht ha
  rcases h1 with ⟨rfl, s1⟩ | ⟨b1, s1⟩
  · obtain ⟨c2, e2, s2⟩ := step_tag_gt g c1 _ _ _ s1
    exact ⟨c2, feeds_append e1 (feeds_one e2), by simpa [setAll] using s2⟩
  · obtain ⟨c2, e2, s2⟩ := step_waitAtt_gt g c1 _ _ _ s1
    exact ⟨c2, feeds_append e1 (feeds_one e2), s2⟩

/-- `<tag attrs/>` -/
theorem feed_open_close (g : Bool) (c : Cfg) (w tag : Bytes) (attrs : List (Bytes × Bytes)) (F : AFrame) (r : List AFrame)
    (h : Sh c .free .free w (F :: r)) (ht : NameOK tag) (ha : ∀ kv ∈ attrs, NameOK kv.1 ∧ NulFree kv.2) :
    ∃ c', feed g c ([60] ++ tag ++ encAttrs attrs ++ [47, 62]) = .cont c' ∧
      Sh c' .free .free [] (attachA (flushF F w) (tag, setAll [] attrs, []) :: r) := by
  obtain ⟨c1, e1, h1⟩ := feed_open_pre g c w tag attrs F r h ht ha
  rcases h1 with ⟨rfl, s1⟩ | ⟨b1, s1⟩
  · obtain ⟨c2, e2, s2⟩ := step_tag_slash g c1 _ _ _ s1
    obtain ⟨c3, e3, s3⟩ := step_slash_gt g c2 _ _ _ _ _ s2
    exact ⟨c3, feeds_append e1 (feeds_append (feeds_one e2) (feeds_one e3)), by simpa [setAll] using s3⟩
  · obtain ⟨c2, e2, s2⟩ := step_waitAtt_slash g c1 _ _ _ s1
    obtain ⟨c3, e3, s3⟩ := step_slash_gt g c2 _ _ _ _ _ s2
    exact ⟨c3, feeds_append e1 (feeds_append (feeds_one e2) (feeds_one e3)), s3⟩

theorem nameOK_no_gt (tag : Bytes) (h : NameOK tag) : ∀ ch ∈ tag, ch ≠ 62 := by
  cases tag with
  | nil => exact h.elim
  | cons t0 ts =>
    intro ch hch
    simp only [List.mem_cons] at hch
    rcases hch with rfl | hch
    · exact (nameStart_facts _ h.1).1
    · exact (nameChar_facts _ (h.2 ch hch)).1

/-- `</tag>` read from `FREE` with pending text `w` while `tag` is the open element -/
theorem feed_close (c : Cfg) (w : Bytes) (E P : AFrame) (r : List AFrame)
    (h : Sh c .free .free w (E :: P :: r)) (ht : NameOK E.1) :
    ∃ c', feed true c ([60, 47] ++ E.1 ++ [62]) = .cont c' ∧
      Sh c' .free .free [] (attachA P (flushF E w) :: r) := by
  obtain ⟨c1, e1, s1⟩ := step_free_lt true c _ _ _ _ h
  obtain ⟨c2, e2, s2⟩ := step_tagStart_slash true c1 _ _ _ s1
  obtain ⟨c3, e3, u3⟩ := scan_tagEnd true E.1 c2 s2.st (nameOK_no_gt _ ht)
  have s3 := s2.of_upd u3
  rw [s2.b] at s3
  simp only [List.nil_append] at s3
  obtain ⟨c4, e4, s4⟩ := step_tagEnd_gt c3 .free (flushF E w) P r (by simpa [flushF] using s3)
  refine ⟨c4, ?_, s4⟩
  have := feeds_append (feeds_one e1) (feeds_append (feeds_one e2) (feeds_append e3 (feeds_one e4)))
  simpa using this

end AslProofs.Xml
