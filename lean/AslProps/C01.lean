import AslProofs.ArrayRefine
import AslProofs.ArraySpecLemmas
import AslProofs.ArrayQsort
import AslProofs.ArrayQsortTotal
import AslProofs.ArrayQsortSorted
import AslProofs.ArrayOrders
import AslProofs.ArrayQsortTmp
import AslProofs.ArrayCloneInd
/-!
# C01 — Array, Stack and Queue behave as a sequence for every operation history

Property theorems only.  Model: `AslModel/Array.lean` (what `Driver/C01.lean` runs against the real library
on every check).  Reference semantics: `AslProofs/ArraySpec.lean` (handles ↦ shared sequences; no capacity,
no reference count, no storage).  Helper lemmas: `AslProofs/Array*.lean`.

* `layerB_refines`: the member functions, written as the code's sequence of placement-construct / destroy /
  `memmove` / `realloc` steps on raw cells, never touch a cell outside the block or an unconstructed cell,
  construct and destroy each element exactly once (the explicit live counter moves with the length), and
  compute the list functions `take/++/filter/…` — for every block, every capacity, every argument in range.
* `array_refines_seq_partial`: every finite history, through any handles and clones, in which no operation
  increases the capacity of a block whose `rc > 1`, produces on the model exactly the results and exactly the
  per-handle `(elements, rc)` views of the reference semantics, and never leaves live storage
  (`quicksort_total` discharges the in-bounds obligation of `sort`).
* `array_refines_every_run`: the same for EVERY history as the driver runs it (`stepG`: an operation of the excluded
  class is left out and answers `skip`) — no hypothesis on the history; `lifecycle` is stated for these runs.
* `array_full_counterexample`: without that hypothesis the statement is false (known finding `shared-growth`).
* `lifecycle`: live objects = total length of live blocks in every reachable state; all handles dropped ⇒ no
  block left and no live object.
* `quicksort_total`, `quicksort_sorted_perm`: the Hoare-partition quicksort behind `sort()` stays inside its
  sequence, terminates, and returns the sorted permutation.
* `driver_orders_strict_total`, `sort_spec`: the orders the driver sorts with are strict total orders; the value of
  `sort` (ascending and descending) is the sorted permutation.
* `clone_independent_history`, `clone_independent_model`: a clone is unaffected by every later history that does not
  write through the clone's own handle — in the reference semantics and on the model (every driver run).
* `clone_independent`, `stack_lifo`, `queue_fifo`: consequences inside the reference semantics.
-/
namespace C01
open AslModel.Arr AslProofs.Arr AslProofs.ArrSpec

variable {α : Type}

/-! ## block layer -/

/-- Every member function implements its list function on every well-formed block (any length, any spare
capacity `k`, both the `malloc`+`memcpy` and the `realloc` growth path), staying inside live storage
(`Refines` demands a `some` result of every primitive) and keeping `live` in step with the length. -/
theorem layerB_refines (E : Elem α) :
    (∀ m, Refines (fun s => resize E s m) (fun l => l.take m ++ List.replicate (m - l.length) E.dflt)) ∧
    (∀ m, Refines (fun s => some (reserve E s m)) (fun l => l)) ∧
    (∀ (k : Nat) (v : α), Refines (fun s => AslModel.Arr.insert s (k % (s.n + 1)) (.val v)) (fun l => insAt l (k % (l.length + 1)) v)) ∧
    (∀ i c, Refines (fun s => let i' := i % (s.n + 1); remove E s i' (c % (s.n - i' + 1)))
      (fun l => let i' := i % (l.length + 1); remAt l i' (c % (l.length - i' + 1)))) ∧
    (∀ f : α → Bool, Refines (removeIf f) (fun l => l.filter fun v => !f v)) ∧
    (∀ xs : List α, Refines (fun s => append E s (.vals xs)) (fun l => l ++ xs)) ∧
    (∀ xs : List α, Refines (fun s => copy E s (.vals xs)) (fun _ => xs)) :=
  ⟨resize_refines E, refines_res E, refines_ins, refines_rem E, removeIf_refines, append_vals_refines E,
    copy_vals_refines E⟩

/-- Calls whose argument refers to the same array: `a.insert(k, a[j])`, `a << a[j]` (code after a88e99c),
`a.append(a)` (code after 5dae6b7), `a.copy(a)`: the element is found again after the block has moved and the
elements have shifted; nothing is read from released or unconstructed storage. -/
theorem layerB_self_reference (E : Elem α) :
    (∀ (s : BS α) (l : List α) (k kk j : Nat) (x : α), Rep s l k → kk ≤ l.length → l[j]? = some x →
      ∃ s' k', AslModel.Arr.insert s kk (.own j) = some s' ∧ Rep s' (l.take kk ++ x :: l.drop kk) k' ∧
        s'.rc = s.rc ∧ s'.live = s.live + 1) ∧
    Refines (fun s => append E s .self) (fun l => l ++ l) ∧
    Refines (fun s => copy E s .self) (fun l => l) :=
  ⟨fun s l k kk j x h hk hx => insert_spec s l k kk (.own j) x h hk hx, append_self_refines E, copy_self_refines E⟩

/-- Pointer arguments into the same array — `a.append(a.data()+j, k)` (code after fbcbf17: offset taken before
`resize`, pointer rebased after it) and `a.copy(a.data()+j, k)` (code after dd01035: elements moved down, then
`resize`) for every in-range `j`, `k` — and `remove(i, c)` with ANY `i`, `c` (code after 0854fc0; the model's range
test is over the naturals, so a count reaching beyond the end, up to `INT_MAX`, removes nothing). -/
theorem layerB_pointer_self_reference (E : Elem α) (i j k c : Nat) :
    Refines (fun s => let j' := j % (s.n + 1); appendOwn E s j' (k % (s.n - j' + 1)))
      (fun l : List α => let j' := j % (l.length + 1); l ++ (l.drop j').take (k % (l.length - j' + 1))) ∧
    Refines (fun s => let j' := j % (s.n + 1); copyOwn E s j' (k % (s.n - j' + 1)))
      (fun l : List α => let j' := j % (l.length + 1); (l.drop j').take (k % (l.length - j' + 1))) ∧
    Refines (fun s => remove E s i c) (fun l : List α => if i + c > l.length then l else remAt l i c) :=
  ⟨refines_appown E j k, refines_copyown E j k, refines_remx E i c⟩

/-! The third conjunct above is a statement over the naturals: the model's `remove` tests `i + cnt > m` in `Nat`, so by
itself it cannot tell the code before 0854fc0 (`if (i + n > m)`, whose `int` sum wraps for `n` near `INT_MAX`) from the
code after it (`if (n > m - i)`).  The two lemmas below are the bridge to the 32-bit expressions the code evaluates;
on real `int`s only the K op `remx` (counts up to 2147483647, under UBSan/ASan) exercises them. -/

/-- two's-complement wrap of a mathematical integer into a 32-bit `int` -/
def wrap32 (x : Int) : Int := (x + 2147483648) % 4294967296 - 2147483648

/-- the range test of `remove` after 0854fc0, `n > m - i` evaluated in 32-bit `int`s, never wraps for non-negative
`int` arguments and decides exactly the model's test `i + n > m` -/
theorem remove_guard_no_wrap (m i n : Nat) (hm : m < 2147483648) (hi : i < 2147483648) (_hn : n < 2147483648) :
    decide ((n : Int) > wrap32 ((m : Int) - (i : Int))) = decide (i + n > m) := by
  unfold wrap32
  have h2 : ((m : Int) - i + 2147483648) % 4294967296 = (m : Int) - i + 2147483648 := by omega
  rw [h2]
  by_cases h : i + n > m <;> simp [h] <;> omega

/-- the test before 0854fc0, `i + n > m` with the sum in 32-bit `int`s, does NOT decide the model's test:
`a.remove(1, INT_MAX)` on three elements -/
theorem remove_guard_prefix_counterexample :
    ¬ (∀ m i n : Nat, m < 2147483648 → i < 2147483648 → n < 2147483648 →
        decide (wrap32 ((i : Int) + (n : Int)) > (m : Int)) = decide (i + n > m)) := by
  intro h
  have := h 3 1 2147483647 (by decide) (by decide) (by decide)
  revert this
  decide

/-- the hypotheses of `layerB_refines` are satisfiable: a block at capacity (the growth path of `insert`) -/
example : Rep (⟨[some 1, some 2, some 3], 3, 1, 3, false⟩ : BS Nat) [1, 2, 3] 0 := ⟨rfl, rfl, by decide⟩

/-! ## histories -/

/-- the full statement: every history on the model gives what the reference semantics gives -/
def array_refines_seq_full [DecidableEq α] (E : Elem α) : Prop :=
  ∀ ops : List (Op α), ∃ st', run E St.init ops = some (st', (specRun E Sp.init ops).2)

/-- For every finite history in which no operation increases the capacity of a block whose `rc > 1`, and every
element type whose `<` is irreflexive, the model never leaves live storage (`run` is `some`: no access to a
released block, an unconstructed cell or a cell outside the block, in `sort` as everywhere else) and every call
result and every handle's `(elements, rc())` equal those of the reference semantics. -/
theorem array_refines_seq_partial [DecidableEq α] (E : Elem α) (hirr : ∀ x, E.lt x x = false) (ops : List (Op α))
    (hsafe : AllSafe E St.init ops) :
    ∃ st', run E St.init ops = some (st', (specRun E Sp.init ops).2) ∧ Good st' (specRun E Sp.init ops).1 :=
  run_sim E hirr ops good_init hsafe

/-- **Every history the check runs.**  The driver executes `stepG`: an operation for which `guard` holds (it would
increase the capacity of a block whose `rc > 1`) is left out and answers `skip`, every other operation is `step`
(`stepG E st op = if guard E st (normOp op) then some (st, skip) else step E st (normOp op)` holds by `rfl`).  For
EVERY finite history — no hypothesis on it — the driver's run never leaves live storage and every call result and
every handle's `(elements, rc())` equal the reference semantics run on the same history with the same operations
left out. -/
theorem array_refines_every_run [DecidableEq α] (E : Elem α) (hirr : ∀ x, E.lt x x = false) (ops : List (Op α)) :
    ∃ st', runG E St.init ops = some (st', (specRunG E St.init Sp.init ops).2) ∧
      Good st' (specRunG E St.init Sp.init ops).1 :=
  runG_sim E hirr ops good_init

example [DecidableEq α] (E : Elem α) (st : St α) (op : Op α) :
    stepG E st op = if guard E st (normOp op) = true then some (st, Res.skip) else step E st (normOp op) := rfl

/-- the element types the driver instantiates satisfy the hypothesis -/
example : (∀ x, (intElem 4).lt x x = false) ∧ (∀ x, (intElem 8).lt x x = false) ∧ (∀ x, strElem.lt x x = false) :=
  ⟨(strictTotal_int 4).irr, (strictTotal_int 8).irr, strictTotal_bytes.irr⟩

def intE : Elem Int := intElem 4

/-- `a = []; b = a; a << 0 << 1 << 2 << 3`: the fourth append reallocates the block `b` still points to -/
def sharedGrowth : List (Op Int) := [.new 0, .cp 1 0, .app 0 0, .app 0 1, .app 0 2, .app 0 3]

/-- without the hypothesis the statement is false: after the growth, handle `b` dangles (the model's
observation of slot 1 is an access to a released block) — known finding `shared-growth` -/
theorem array_full_counterexample : ¬ array_refines_seq_full intE := by
  intro h
  obtain ⟨st', h1⟩ := h sharedGrowth
  have : (run intE St.init sharedGrowth).isNone = true := by decide
  rw [h1] at this
  cases this

/-- the guard of the driver rejects exactly the offending operation of that history -/
example : guard intE ((run intE St.init (sharedGrowth.take 5)).get (by decide)).1 (.app 0 3) = true := by decide

/-- the hypothesis as a computation (what the driver evaluates before every operation) -/
def allSafeB [DecidableEq α] (E : Elem α) : St α → List (Op α) → Bool
  | _, [] => true
  | st, op :: ops =>
    !guard E st (normOp op) &&
      match step E st (normOp op) with
      | some r => allSafeB E r.1 ops
      | none => true

theorem allSafeB_sound [DecidableEq α] (E : Elem α) : ∀ (ops : List (Op α)) (st : St α),
    allSafeB E st ops = true → AllSafe E st ops := by
  intro ops
  induction ops with
  | nil => intro st _; trivial
  | cons op ops ih =>
    intro st h
    simp only [allSafeB, Bool.and_eq_true, Bool.not_eq_eq_eq_not, Bool.not_true] at h
    obtain ⟨h1, h3⟩ := h
    refine ⟨h1, ?_⟩
    cases hs : step E st (normOp op) with
    | none => trivial
    | some r => rw [hs] at h3; exact ih _ h3

/-- the hypothesis is satisfiable by a history with sharing, growth across 3 → 6, a self-referential insert,
a sort, a clone and a removal -/
example : AllSafe intE St.init
    [.new 0, .app 0 3, .app 0 1, .app 0 2, .inso 0 1 2, .cp 1 0, .sort 1 false, .rem 1 0 1, .clone 2 0, .apnd 2 2, .drop 0] :=
  allSafeB_sound intE _ _ (by decide)

/-! ## lifecycle -/

/-- In every state the driver can reach (any history, guarded operations left out): the number of live element
objects (constructor calls minus destructor calls) is the total length of the live blocks, every live block is
referenced by as many handles as its `rc` says (at least one), and when the last handle is gone no block and no
element object is left. -/
theorem lifecycle [DecidableEq α] (E : Elem α) (hirr : ∀ x, E.lt x x = false) (ops : List (Op α)) :
    ∃ st' outs, runG E St.init ops = some (st', outs) ∧ st'.live = sumN st'.blocks ∧
      (∀ (b : Nat) (r : Raw α), st'.blocks[b]? = some (some r) → r.rc = st'.hs.count (some b) ∧ 0 < r.rc) ∧
      ((∀ slot, st'.occ slot = false) → st'.live = 0 ∧ ∀ (b : Nat) (r : Raw α), st'.blocks[b]? ≠ some (some r)) := by
  obtain ⟨st', hrun, hg⟩ := array_refines_every_run E hirr ops
  exact ⟨st', _, hrun, good_lifecycle hg⟩

/-- the same for the unguarded run under the hypothesis of `array_refines_seq_partial` -/
theorem lifecycle_unguarded [DecidableEq α] (E : Elem α) (hirr : ∀ x, E.lt x x = false) (ops : List (Op α))
    (hsafe : AllSafe E St.init ops) :
    ∃ st' outs, run E St.init ops = some (st', outs) ∧ st'.live = sumN st'.blocks ∧
      (∀ (b : Nat) (r : Raw α), st'.blocks[b]? = some (some r) → r.rc = st'.hs.count (some b) ∧ 0 < r.rc) ∧
      ((∀ slot, st'.occ slot = false) → st'.live = 0 ∧ ∀ (b : Nat) (r : Raw α), st'.blocks[b]? ≠ some (some r)) := by
  obtain ⟨st', hrun, hg⟩ := array_refines_seq_partial E hirr ops hsafe
  exact ⟨st', _, hrun, good_lifecycle hg⟩

/-! ## `sort()` : the Hoare-partition quicksort of foreach1.h -/

/-- **`sort` is memory-safe and terminates**: for every irreflexive `<` and every sequence the transcribed quicksort
(each read a checked `xs[i]?`, each loop with fuel) never indexes outside the sequence — not even at `a - 1`, where
the C++ pointer `r` may point but is not dereferenced — and ends within its fuel.  This is what removes any
hypothesis about `sort` from `array_refines_seq_partial`. -/
theorem quicksort_total (lt : α → α → Bool) (hirr : ∀ x, lt x x = false) (l : List α) :
    (qsortList lt l).isSome = true := qsortList_total lt hirr l

/-- **the C++ recursion of `sort` is at most `log2 n` calls deep** (code after dff9640: recurse into the smaller part,
loop on the larger one).  `qsortAuxD` is the run function `qsortAux` with a depth counter (first conjunct: same
result); the nested calls `d` it reaches satisfy `2 ^ d ≤ n` — for every input, whatever the comparison.  Before the
fix the depth was `n` on a "median killer" permutation and a few hundred thousand ints overflowed the call stack. -/
theorem quicksort_stack_depth (lt : α → α → Bool) (l : List α) :
    (qsortAuxD lt (l.length + 1) l 0 l.length).map (·.1) = qsortList lt l ∧
    ∀ r, qsortAuxD lt (l.length + 1) l 0 l.length = some r → 2 ^ r.2 ≤ max 1 l.length :=
  ⟨qsortAuxD_fst lt _ l 0 l.length, fun r h => qsortAuxD_depth lt _ l 0 l.length r h⟩

/-- **`sort` sorts** (`quicksort_sorted_perm` of the design): for every strict total order and every sequence the
transcribed quicksort returns a permutation of the input in non-decreasing order.  Together with
`array_refines_seq_partial` (whose reference semantics defines the sorted array by this very function) the value
of `a.sort()` is the sorted permutation of `a`. -/
theorem quicksort_sorted_perm [DecidableEq α] (lt : α → α → Bool) (hst : StrictTotal lt) (l : List α) :
    ∃ l', qsortList lt l = some l' ∧ l'.Perm l ∧
      ∀ (i j : Nat) (x y : α), i < j → l'[i]? = some x → l'[j]? = some y → lt y x = false := by
  obtain ⟨l', hl'⟩ := Option.isSome_iff_exists.mp (qsortList_total lt hst.irr l)
  refine ⟨l', hl', qsortList_perm lt hl', ?_⟩
  intro i j x y hij hx hy
  exact qsortList_sorted lt hst.weak hl' i j x y (Nat.zero_le _) hij (lt_len_of_some hy) hx hy

/-- the hypothesis is satisfiable: `<` on the integers (the order of `Array<int>` and of the counted type) -/
example : StrictTotal (fun a b : Int => decide (a < b)) :=
  ⟨fun a => by simp, fun a b c h1 h2 => by simp at *; omega, fun a b => by simp; omega⟩

/-- the comparisons the driver sorts with are strict total orders: `<` of `int` and of the counted payload,
`String::operator<` (`strcmp` on NUL-free bytes), and with each its descending comparator (`sort(Less)`) -/
theorem driver_orders_strict_total :
    StrictTotal (intElem 4).lt ∧ StrictTotal (intElem 8).lt ∧ StrictTotal strElem.lt ∧
    StrictTotal (fun a b => (intElem 4).lt b a) ∧ StrictTotal (fun a b => strElem.lt b a) :=
  ⟨strictTotal_int 4, strictTotal_int 8, strictTotal_bytes, (strictTotal_int 4).flip, strictTotal_bytes.flip⟩

/-- **the value of `a.sort()` / `a.sort(descending)`** in the reference semantics: a permutation of the elements of
`a`, in non-decreasing resp. non-increasing order (for every element type with a strict total `<`) -/
theorem sort_spec [DecidableEq α] (E : Elem α) (hst : StrictTotal E.lt) (sp : Sp α) (hwf : SpWf sp) (h : Nat)
    (ho : sp.occ h = true) (desc : Bool) :
    ((specStep E sp (.sort h desc)).1.get h).Perm (sp.get h) ∧
    ∀ (i j : Nat) (x y : α), i < j → ((specStep E sp (.sort h desc)).1.get h)[i]? = some x →
      ((specStep E sp (.sort h desc)).1.get h)[j]? = some y → (if desc then E.lt x y else E.lt y x) = false := by
  have hst' : StrictTotal (if desc then fun a b => E.lt b a else E.lt) := by
    cases desc
    · exact hst
    · exact hst.flip
  obtain ⟨l', hl', hperm, hsorted⟩ := quicksort_sorted_perm _ hst' (sp.get h)
  have hget : (specStep E sp (.sort h desc)).1.get h = l' := by
    simp only [specStep, ho, if_true]
    rw [get_sMut_self hwf ho, hl']; rfl
  rw [hget]
  refine ⟨hperm, ?_⟩
  intro i j x y hij hx hy
  have := hsorted i j x y hij hx hy
  cases desc <;> simpa using this

/-- **`sort` / `sortBy` with ties**: for every strict weak order (the strict part of a total preorder — distinct elements
may compare equal, as two strings of the same length do under `sortBy(length)`) and every sequence the transcribed
quicksort terminates in bounds and returns a permutation of the input with no inversion (`y` after `x` is never
`< x`).  Which of the tied arrangements comes out is fixed by the run function itself (`qsortList` is what the driver
executes; K compares the exact sequence with the library's). -/
theorem quicksort_sorted_perm_ties [DecidableEq α] (lt : α → α → Bool) (hsw : StrictWeak lt) (l : List α) :
    ∃ l', qsortList lt l = some l' ∧ l'.Perm l ∧
      ∀ (i j : Nat) (x y : α), i < j → l'[i]? = some x → l'[j]? = some y → lt y x = false := by
  obtain ⟨l', hl'⟩ := Option.isSome_iff_exists.mp (qsortList_total lt hsw.irr l)
  refine ⟨l', hl', qsortList_perm lt hl', ?_⟩
  intro i j x y hij hx hy
  exact qsortList_sorted lt hsw hl' i j x y (Nat.zero_le _) hij (lt_len_of_some hy) hx hy

/-- the hypothesis is satisfiable by an order with ties: strings compared by their length (`strElem.key`), where
`"a"` and `"b"` are different and neither is below the other -/
example : StrictWeak (fun a b => decide (strElem.key a < strElem.key b)) ∧
    ([97] : List UInt8) ≠ [98] ∧ decide (strElem.key [97] < strElem.key [98]) = false ∧
    decide (strElem.key [98] < strElem.key [97]) = false :=
  ⟨strictWeak_key _, by decide, by decide, by decide⟩

/-- **the value of `a.sortBy(key, ascending)`** in the reference semantics, for every element type and EVERY key
function (keys may tie): a permutation of the elements of `a` whose keys are non-decreasing (`ascending`) resp.
non-increasing -/
theorem sortby_spec [DecidableEq α] (E : Elem α) (sp : Sp α) (hwf : SpWf sp) (h : Nat)
    (ho : sp.occ h = true) (asc : Bool) :
    ((specStep E sp (.sortby h asc)).1.get h).Perm (sp.get h) ∧
    ∀ (i j : Nat) (x y : α), i < j → ((specStep E sp (.sortby h asc)).1.get h)[i]? = some x →
      ((specStep E sp (.sortby h asc)).1.get h)[j]? = some y →
      (if asc then E.key x ≤ E.key y else E.key y ≤ E.key x) := by
  have hsw : StrictWeak (if asc then fun a b => decide (E.key a < E.key b)
      else fun a b => decide (E.key b < E.key a)) := by
    cases asc
    · exact (strictWeak_key E.key).flip
    · exact strictWeak_key E.key
  obtain ⟨l', hl', hperm, hsorted⟩ := quicksort_sorted_perm_ties _ hsw (sp.get h)
  have hget : (specStep E sp (.sortby h asc)).1.get h = l' := by
    simp only [specStep, ho, if_true]
    rw [get_sMut_self hwf ho, hl']; rfl
  rw [hget]
  refine ⟨hperm, ?_⟩
  intro i j x y hij hx hy
  have := hsorted i j x y hij hx hy
  cases asc <;> simp at this ⊢ <;> omega

/-- non-vacuity of `sortby_spec`: a well-formed spec state with an occupied handle holding two tied strings -/
example : ∃ sp : Sp (List UInt8), SpWf sp ∧ sp.occ 0 = true ∧ sp.get 0 = [[98], [97]] :=
  ⟨⟨[[[98], [97]]], [some 0]⟩, by
    intro slot c h
    cases slot with
    | zero => simp at h; subst h; decide
    | succ k => simp at h, rfl, rfl⟩

/-! ### the element temporaries of `sort` (pivot copy `T p = a[n/2]`, `swap`'s `T A = a`) -/

/-- **construct-once / destroy-once holds across `sort`, temporaries included.**  `qsortListT` is the run function
`qsortList` with a ledger of every copy construction and destruction the source makes on the way (one pivot per pass of
the `while`, alive during the nested call; one temporary per `swap`).  For every irreflexive comparison, every sequence
and every starting ledger: it computes the same sequence as `qsortList` (first conjuncts), when it returns the
instance counter is back at its starting value, every temporary made has been destroyed (`made` and `freed` grew by the
same amount), and every element value occurs in the result exactly as often as in the input. -/
theorem sort_temporaries_destroyed [DecidableEq α] (lt : α → α → Bool) (hirr : ∀ x, lt x x = false) (l : List α) (t : Tmp) :
    ∃ l' t', qsortListT lt l t = some (l', t') ∧ qsortList lt l = some l' ∧
      t'.live = t.live ∧ t'.made + t.freed = t'.freed + t.made ∧ t.made ≤ t'.made ∧
      ∀ v, l'.count v = l.count v := by
  obtain ⟨l', hl'⟩ := Option.isSome_iff_exists.mp (qsortList_total lt hirr l)
  have hf := qsortListT_fst lt l t
  rw [hl'] at hf
  cases hT : qsortListT lt l t with
  | none => rw [hT] at hf; cases hf
  | some res =>
    rw [hT] at hf
    simp only [Option.map_some, Option.some.injEq] at hf
    obtain ⟨b1, b2, b3, _⟩ := qsortListT_bal lt hT
    refine ⟨l', res.2, ?_, hl', b1, b2, b3, fun v => (qsortList_perm lt hl').count_eq v⟩
    rw [← hf]

/-- the hypothesis is satisfiable and the ledger is not idle: sorting `[3, 1, 2]` makes and destroys temporaries -/
example : (qsortListT (fun a b : Int => decide (a < b)) [3, 1, 2] ⟨3, 0, 0, 3⟩).map (fun r => (r.1, r.2.live, decide (0 < r.2.made), decide (r.2.made = r.2.freed)))
    = some ([1, 2, 3], 3, true, true) := by decide

/-- **at most `log2 n + 1` temporaries exist at any moment of `sort`**: with `n < 2 ^ (d + 1)` elements the instance
counter never exceeds its starting value by more than `d + 1` (one pivot per nesting level — the nested call is on the
smaller part, code after dff9640 — plus one `swap` temporary), for every comparison. -/
theorem sort_temporaries_bounded (lt : α → α → Bool) (l l' : List α) (t t' : Tmp) (d : Nat)
    (h : qsortListT lt l t = some (l', t')) (hn : l.length < 2 ^ (d + 1)) (hp : t.peak = t.live) :
    t'.peak ≤ t.live + d + 1 :=
  qsortListT_peak lt h d _ hn (by omega) (Int.le_refl _)

/-- the hypotheses are satisfiable and the bound is attained: three elements (`d = 1`), two temporaries at the peak -/
example : qsortListT (fun a b : Int => decide (a < b)) [3, 1, 2] ⟨3, 0, 0, 3⟩ = some ([1, 2, 3], ⟨3, 4, 4, 3 + 1 + 1⟩) ∧
    [3, 1, 2].length < 2 ^ (1 + 1) := by decide

/-- **`Array<T>::sort` on a block of counted elements**: for every block holding `l` (any spare capacity `k`), `sort`
succeeds in place, the block then holds the permutation `l'` the ledgered quicksort computes, and the block's
live-instance counter after `sort` equals the ledger's: unchanged, with all temporaries destroyed. -/
theorem sort_counted_lifecycle [DecidableEq α] (lt : α → α → Bool) (hirr : ∀ x, lt x x = false) (s : BS α) (l : List α)
    (k : Nat) (hrep : Rep s l k) :
    ∃ s' k' l' t', sortB lt s = some s' ∧ Rep s' l' k' ∧
      qsortListT lt l ⟨s.live, 0, 0, s.live⟩ = some (l', t') ∧
      s'.live = s.live ∧ t'.live = s'.live ∧ t'.made = t'.freed ∧ s'.rc = s.rc ∧ ∀ v, l'.count v = l.count v := by
  obtain ⟨l', t', h1, h2, h3, h4, _, h6⟩ := sort_temporaries_destroyed lt hirr l ⟨s.live, 0, 0, s.live⟩
  obtain ⟨s', k', g1, g2, g3, g4⟩ := refinesAt_sort lt l l' h2 s k hrep
  simp only [h2, Option.getD_some] at g2 g4
  have hlen := qsortList_length lt h2
  have hlive : s'.live = s.live := by rw [g4, hlen]; omega
  refine ⟨s', k', l', t', g1, g2, h1, hlive, ?_, ?_, g3, h6⟩
  · rw [h3, hlive]
  · simpa using h4

/-- non-vacuity: a block holding three constructed elements and one spare cell -/
example : Rep (⟨[some 3, some 1, some 2, none], 3, 1, 3, false⟩ : BS Int) [3, 1, 2] 1 := ⟨rfl, rfl, by decide⟩

/-! ## consequences inside the reference semantics (inherited by the model through `array_refines_seq_partial`:
every reachable model state is `Good st sp`, and `Good.spwf` gives the hypotheses used here) -/

/-- **A clone is unaffected by later changes to its source** (reference semantics): after `t = h.clone()`,
`t` shows the elements of `h`, and whatever `F` a later operation applies through `h` (or any handle sharing
with `h`), `t` still shows the same elements while `h` shows `F` of them. -/
theorem clone_independent (sp : Sp α) (hwf : SpWf sp) (hlen : sp.hs.length = 8) (t h : Nat) (ht : t < NS) (hh : h < NS)
    (hne : t ≠ h) (ho : sp.occ h = true) (F : List α → List α) :
    (sProduce sp t (sp.get h)).get t = sp.get h ∧
    (sMut (sProduce sp t (sp.get h)) h F).get t = sp.get h ∧
    (sMut (sProduce sp t (sp.get h)) h F).get h = F (sp.get h) := by
  obtain ⟨c, hc⟩ := (sp_occ_iff sp h).mp ho
  have hclt := hwf h c hc
  obtain ⟨h1, h2, h3, h4, h5⟩ := sProduce_slots sp hlen t ht (sp.get h)
  have hhT : h ≠ T0 := by unfold NS at hh; unfold T0; omega
  have hc' : (sProduce sp t (sp.get h)).hs[h]? = some (some c) := by rw [h3 h (fun e => hne e.symm) hhT]; exact hc
  have hgt : (sProduce sp t (sp.get h)).get t = sp.get h := by rw [get_of_slot h1]; exact h2
  have hgh : (sProduce sp t (sp.get h)).get h = sp.get h := by rw [get_of_slot hc', h4 c hclt, get_of_slot hc]
  generalize sProduce sp t (sp.get h) = sp' at h1 h2 h3 h4 h5 hc' hgt hgh
  refine ⟨hgt, ?_, ?_⟩
  · rw [get_sMut_other hc' h1 (by omega) F]; exact hgt
  · rw [sMut_eq F hc']
    have hc'' : (⟨sp'.cells.set c (F (sp'.cells.getD c [])), sp'.hs⟩ : Sp α).hs[h]? = some (some c) := hc'
    rw [get_of_slot hc'']
    show (sp'.cells.set c (F (sp'.cells.getD c []))).getD c [] = _
    rw [List.getD_eq_getElem?_getD, List.getElem?_set_self (by omega), h4 c hclt, ← get_of_slot hc]; rfl


/-- **A clone is unaffected by every later history** (reference semantics): after `t = h.clone()`, whatever finite
history follows — through any handles, with any operations left out by the driver's exclusion — as long as no
operation writes through slot `t` itself, copies handle `t` or assigns to/from it (`writesTo`; reading through `t`
is allowed), slot `t` still shows the elements `h` had when it was cloned. -/
theorem clone_independent_history [DecidableEq α] (E : Elem α) (sp : Sp α) (hwf : SpWf sp) (hlen : sp.hs.length = 8)
    (hT0 : sp.hs[T0]? = some none) (t h : Nat) (ht : t < NS) (ops : List (Op α))
    (hops : ∀ op ∈ ops, writesTo t (normOp op) = false) (st : St α) :
    (specRun E (sProduce sp t (sp.get h)) ops).1.get t = sp.get h ∧
    (specRunG E st (sProduce sp t (sp.get h)) ops).1.get t = sp.get h := by
  have hT : T0 ≠ t := by unfold NS at ht; unfold T0; omega
  have hi := iso_after_clone hwf hlen hT0 ht (sp.get h)
  exact ⟨(specRun_iso E hT ops _ hi hops).get, (specRunG_iso E hT ops st _ hi hops).get⟩

/-- the same on the model, for every run of the driver: clone `h` into `t`, then run any history that does not write
through `t`; slot `t` of the model still holds exactly the elements `h` had -/
theorem clone_independent_model [DecidableEq α] (E : Elem α) (hirr : ∀ x, E.lt x x = false) {st : St α} {sp : Sp α}
    (hg : Good st sp) (t h : Nat) (ht : t < NS) (ho : st.occ h = true) (ops : List (Op α))
    (hops : ∀ op ∈ ops, writesTo t (normOp op) = false) :
    ∃ l st1 st2 outs rc, st.elemsOf h = some l ∧ step E st (.clone t h) = some (st1, Res.ok) ∧
      runG E st1 ops = some (st2, outs) ∧ st2.view t = some (some (l, rc)) := by
  obtain ⟨f, hf⟩ := hg.sim
  obtain ⟨_, _, _, _, _, _, _, hel⟩ := read_sim hf ho
  have hspo : sp.occ h = true := by rw [hg.sim.occ_eq]; exact ho
  obtain ⟨st1, h1, hg1⟩ := step_clone E hg t h ht
  have hsp1 : (specStep E sp (.clone t h)).1 = sProduce sp t (sp.get h) := by simp [specStep, hspo]
  have hr1 : (specStep E sp (.clone t h)).2 = Res.ok := by simp [specStep, hspo]
  rw [hsp1] at hg1; rw [hr1] at h1
  obtain ⟨st2, h2, hg2⟩ := runG_sim E hirr ops hg1
  have hT : T0 ≠ t := by unfold NS at ht; unfold T0; omega
  obtain ⟨hwf, hlen⟩ := hg.spwf
  have hT0 : sp.hs[T0]? = some none := by rw [hf.hs_map, List.getElem?_map, hg.t0]; rfl
  have hi := specRunG_iso E hT ops st1 _ (iso_after_clone hwf hlen hT0 ht (sp.get h)) hops
  refine ⟨sp.get h, st1, st2, _, (specRunG E st1 (sProduce sp t (sp.get h)) ops).1.rc t, hel, h1, h2, ?_⟩
  rw [view_sim hg2 t]
  unfold Sp.view
  rw [hi.occ, if_pos rfl, hi.get]

/-- **Stack is LIFO** (reference semantics): `push(v)` then `popget()` returns `v` and restores the sequence -/
theorem stack_lifo [DecidableEq α] (E : Elem α) (sp : Sp α) (hwf : SpWf sp) (h : Nat) (ho : sp.occ h = true) (v : α) :
    (specStep E (specStep E sp (.app h v)).1 (.popget h)).2 = Res.val v ∧
    (specStep E (specStep E sp (.app h v)).1 (.popget h)).1.get h = sp.get h := by
  have h1 : (specStep E sp (.app h v)).1 = sMut sp h (fun l => l ++ [v]) := by simp [specStep, ho]
  rw [h1]
  have ho1 : (sMut sp h fun l => l ++ [v]).occ h = true := by rw [sMut_occ]; exact ho
  have hg1 : (sMut sp h fun l => l ++ [v]).get h = sp.get h ++ [v] := get_sMut_self hwf ho _
  simp only [specStep, ho1, if_true, hg1, List.getLast?_append, List.getLast?_singleton, Option.some_or]
  refine ⟨by first | rfl | trivial, ?_⟩
  rw [get_sMut_self (sMut_wf hwf h _) ho1, hg1]; simp

/-- **Queue is FIFO** (reference semantics): `get()` returns the oldest element and leaves the rest in order;
`put(v)` adds at the end -/
theorem queue_fifo [DecidableEq α] (E : Elem α) (sp : Sp α) (hwf : SpWf sp) (h : Nat) (ho : sp.occ h = true) (x v : α) (t : List α)
    (hl : sp.get h = x :: t) :
    (specStep E sp (.qget h)).2 = Res.val x ∧ (specStep E sp (.qget h)).1.get h = t ∧
    (specStep E sp (.app h v)).1.get h = x :: t ++ [v] := by
  simp only [specStep, ho, if_true, hl]
  refine ⟨by first | rfl | trivial, ?_, ?_⟩
  · rw [get_sMut_self hwf ho, hl]; rfl
  · rw [get_sMut_self hwf ho, hl]


/-- the hypotheses `SpWf`, `hs.length = 8` hold in every state related to a reachable model state -/
theorem reachable_spec_wf {st : St α} {sp : Sp α} (hg : Good st sp) : SpWf sp ∧ sp.hs.length = 8 := hg.spwf

end C01
