import AslModel.Array
namespace C01
end C01
