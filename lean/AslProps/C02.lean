import AslModel.Map
import AslModel.HashMap
/-! C02 — placeholder while the proofs are being written -/
namespace C02
end C02
