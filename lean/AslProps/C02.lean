import AslModel.Map
import AslModel.HashMap
import AslProofs.Map
import AslProofs.HashMap
import AslProofs.HashMapEnum
import AslProofs.HashMapSelf
/-!
# C02 — Map, Dic, HashMap, HashDic and Set behave as finite maps and sets

Property theorems only (helper lemmas: `AslProofs/Map.lean`, `AslProofs/HashMap.lean`).  The specification is
the mathematical finite map `K → Option V` with `set / erase / merge`, and membership for sets.  It is written
from the abstract semantics, not from the code: the abstraction of a container is the *linear lookup over its
enumeration*, so the theorems say that the binary search / the bucket walk find exactly what a reader of the
enumeration would find.  All hash-map theorems hold for an arbitrary hash function `h` (every collision
pattern), an arbitrary positive table size and any growth history.
-/
namespace C02
open AslModel AslProofs
open AslProofs.Map (StrictOrder Sorted IndexSpec lookup KeysNodup)
open AslProofs.HashMap (Inv WF abs)

/-! ## the abstract finite map -/

abbrev FinMap (K V : Type) := K → Option V

namespace FinMap
variable {K V : Type} [DecidableEq K]
def empty : FinMap K V := fun _ => none
def set (f : FinMap K V) (k : K) (v : V) : FinMap K V := fun x => if x = k then some v else f x
def erase (f : FinMap K V) (k : K) : FinMap K V := fun x => if x = k then none else f x
/-- entries of `g` win -/
def merge (f g : FinMap K V) : FinMap K V := fun x => (g x).or (f x)
/-- non-const `operator[]`: creates the default value when the key is missing -/
def touch (f : FinMap K V) (k : K) (dflt : V) : FinMap K V := fun x => if x = k then some ((f k).getD dflt) else f x
end FinMap

/-! ## ordered map (`Map`, `Dic`) -/
section Ordered
variable {K V : Type}

/-- `compare<int>` is the sign of a strict total order -/
theorem cmpInt_strict : StrictOrder Map.cmpInt := by
  refine ⟨?_, ?_, ?_⟩
  · intro a b; unfold Map.cmpInt
    by_cases h1 : a < b
    · have : ¬ a = b := by omega
      simp [h1, this]
    · by_cases h2 : a = b <;> simp [h1, h2]
  · intro a b; unfold Map.cmpInt
    by_cases h1 : a < b
    · have : ¬ b < a := by omega
      have h3 : ¬ b = a := by omega
      simp [h1, this, h3]
    · by_cases h2 : a = b
      · subst h2; simp
      · have : b < a := by omega
        simp [h1, h2, this]
  · intro a b c; unfold Map.cmpInt
    by_cases h1 : a < b <;> by_cases h2 : b < c
    · have : a < c := by omega
      simp [h1, h2, this]
    · by_cases h3 : b = c <;> simp [h1, h2, h3]
    · by_cases h3 : a = b <;> simp [h1, h2, h3]
    · by_cases h3 : a = b <;> simp [h1, h3]

theorem cmpBytes_eq_iff : ∀ a b : List UInt8, Map.cmpBytes a b = .eq ↔ a = b
  | [], [] => by simp [Map.cmpBytes]
  | [], _ :: _ => by simp [Map.cmpBytes]
  | _ :: _, [] => by simp [Map.cmpBytes]
  | a :: s, b :: t => by
    simp only [Map.cmpBytes, List.cons.injEq]
    by_cases h1 : a < b
    · have : a ≠ b := fun e => by subst e; exact absurd h1 (UInt8.lt_irrefl a)
      simp [h1, this]
    · by_cases h2 : a = b
      · simp [h2, cmpBytes_eq_iff s t]
      · simp [h1, h2]

theorem cmpBytes_gt_iff : ∀ a b : List UInt8, Map.cmpBytes a b = .gt ↔ Map.cmpBytes b a = .lt
  | [], [] => by simp [Map.cmpBytes]
  | [], _ :: _ => by simp [Map.cmpBytes]
  | _ :: _, [] => by simp [Map.cmpBytes]
  | a :: s, b :: t => by
    simp only [Map.cmpBytes]
    by_cases h1 : a < b
    · have h3 : ¬ b < a := by rw [UInt8.lt_iff_toNat_lt] at *; omega
      have h4 : ¬ b = a := by intro e; subst e; exact absurd h1 (UInt8.lt_irrefl b)
      simp [h1, h3, h4]
    · by_cases h2 : a = b
      · subst h2; simp [h1, cmpBytes_gt_iff s t]
      · have h3 : b < a := by
          rw [UInt8.lt_iff_toNat_lt] at *
          have : a.toNat ≠ b.toNat := fun e => h2 (UInt8.toNat_inj.mp e)
          omega
        have h4 : ¬ b = a := fun e => h2 e.symm
        simp [h1, h2, h3]

theorem cmpBytes_trans : ∀ a b c : List UInt8, Map.cmpBytes a b = .lt → Map.cmpBytes b c = .lt → Map.cmpBytes a c = .lt
  | [], [], _ => by simp [Map.cmpBytes]
  | [], _ :: _, [] => by simp [Map.cmpBytes]
  | [], _ :: _, _ :: _ => by simp [Map.cmpBytes]
  | _ :: _, [], _ => by simp [Map.cmpBytes]
  | _ :: _, _ :: _, [] => by simp [Map.cmpBytes]
  | a :: s, b :: t, c :: u => by
    simp only [Map.cmpBytes]
    intro h1 h2
    by_cases ab : a < b
    · by_cases bc : b < c
      · have : a < c := by rw [UInt8.lt_iff_toNat_lt] at *; omega
        simp [this]
      · by_cases e : b = c
        · subst e; simp [ab]
        · simp [bc, e] at h2
    · by_cases e1 : a = b
      · subst e1
        simp only [ab, if_false, if_true] at h1
        by_cases bc : a < c
        · simp [bc]
        · by_cases e : a = c
          · subst e
            simp only [bc, if_false, if_true] at h2 ⊢
            exact cmpBytes_trans s t u h1 h2
          · simp [bc, e] at h2
      · simp [ab, e1] at h1

/-- `String::compare` (strcmp on NUL-free strings) is the sign of a strict total order -/
theorem cmpBytes_strict : StrictOrder Map.cmpBytes := ⟨cmpBytes_eq_iff, cmpBytes_gt_iff, cmpBytes_trans⟩

/-- **binary search.**  On every strictly ascending array and for every key, `Map::indexOf` terminates, never
reads outside the array, and returns an index `r ≥ 0` holding the key iff the key is present, otherwise
`-(p)-1` where `p` is the unique position with everything before `<` key `<` everything from `p` on
(sizes 0, 1, 2, 3 are instances). -/
theorem indexOf_spec {cmp : K → K → Ordering} (so : StrictOrder cmp) (l : List (K × V)) (key : K)
    (hs : Sorted cmp l) : ∃ r, Map.indexOf cmp l key = some r ∧ IndexSpec cmp l key r :=
  AslProofs.Map.indexOf_spec so l key hs

/-- the insertion point is unique: two positions that both separate `< key` from `> key` coincide -/
theorem insertion_point_unique {cmp : K → K → Ordering} (l : List (K × V)) (key : K) (p q : Nat)
    (hp : p ≤ l.length) (hq : q ≤ l.length)
    (hp1 : ∀ i (h : i < l.length), i < p → cmp l[i].1 key = .lt) (hp2 : ∀ i (h : i < l.length), p ≤ i → cmp l[i].1 key = .gt)
    (hq1 : ∀ i (h : i < l.length), i < q → cmp l[i].1 key = .lt) (hq2 : ∀ i (h : i < l.length), q ≤ i → cmp l[i].1 key = .gt) :
    p = q := by
  apply Classical.byContradiction
  intro hne
  rcases Nat.lt_or_gt_of_ne hne with h | h
  · have a := hp2 p (by omega) (Nat.le_refl _)
    have b := hq1 p (by omega) h
    rw [a] at b; cases b
  · have a := hq2 q (by omega) (Nat.le_refl _)
    have b := hp1 q (by omega) h
    rw [a] at b; cases b

variable [DecidableEq K]

/-- the encoded result decides presence -/
theorem indexOf_nonneg_iff_present {cmp : K → K → Ordering} (so : StrictOrder cmp) (l : List (K × V)) (key : K)
    (hs : Sorted cmp l) : ∃ r, Map.indexOf cmp l key = some r ∧ (0 ≤ r ↔ (lookup key l).isSome) := by
  obtain ⟨r, hr, hspec⟩ := AslProofs.Map.indexOf_spec so l key hs
  refine ⟨r, hr, ?_⟩
  constructor
  · intro h
    obtain ⟨_, _, hl⟩ := AslProofs.Map.present_of_nonneg so hs hspec h
    simp [hl]
  · intro h
    apply Classical.byContradiction
    intro hn
    rw [AslProofs.Map.absent_of_neg so hspec (by omega)] at h
    simp at h

/-- operations of one ordered map; `add d` merges another map `d` -/
inductive MOp (K V : Type) where
  | set (k : K) (v : V)
  | assign (k : K) (v : V)
  | index (k : K)
  | remove (k : K)
  | clear
  | add (d : List (K × V))
  | addSelf
  | clone

/-- what the model (= the code, by K) does -/
def MOp.run (cmp : K → K → Ordering) (dflt : V) : MOp K V → List (K × V) → Option (List (K × V))
  | .set k v, l => Map.set cmp l k v
  | .assign k v, l => Map.assign cmp l k dflt v
  | .index k, l => (Map.index cmp l k dflt).map (·.1)
  | .remove k, l => (Map.remove cmp l k).map (·.1)
  | .clear, _ => some []
  | .add d, l => Map.add cmp dflt l d
  | .addSelf, l => Map.add cmp dflt l l
  | .clone, l => some (Map.clone l)

/-- what the mathematical finite map does -/
def MOp.spec (dflt : V) : MOp K V → FinMap K V → FinMap K V
  | .set k v, f => f.set k v
  | .assign k v, f => f.set k v
  | .index k, f => f.touch k dflt
  | .remove k, f => f.erase k
  | .clear, _ => FinMap.empty
  | .add d, f => f.merge (fun k => lookup k d)
  | .addSelf, f => f.merge f
  | .clone, f => f

def runAll (cmp : K → K → Ordering) (dflt : V) : List (MOp K V) → List (K × V) → Option (List (K × V))
  | [], l => some l
  | o :: t, l => match o.run cmp dflt l with
    | none => none
    | some l' => runAll cmp dflt t l'

def specAll (dflt : V) : List (MOp K V) → FinMap K V → FinMap K V
  | [], f => f
  | o :: t, f => specAll dflt t (o.spec dflt f)

/-- every single operation keeps the array strictly ascending, never fails, and acts on the abstract map as
the corresponding finite-map operation -/
theorem map_op_refines {cmp : K → K → Ordering} (so : StrictOrder cmp) (dflt : V) (o : MOp K V)
    (hadd : ∀ d, o = .add d → Sorted cmp d) {l : List (K × V)} (hs : Sorted cmp l) :
    ∃ l', o.run cmp dflt l = some l' ∧ Sorted cmp l' ∧ ∀ k, lookup k l' = o.spec dflt (fun k => lookup k l) k := by
  cases o with
  | set k v =>
    obtain ⟨l', h1, h2, h3⟩ := AslProofs.Map.set_spec so hs k v
    exact ⟨l', h1, h2, fun x => by rw [h3 x]; rfl⟩
  | assign k v =>
    obtain ⟨l', h1, h2, h3⟩ := AslProofs.Map.assign_spec so hs k dflt v
    exact ⟨l', h1, h2, fun x => by rw [h3 x]; rfl⟩
  | index k =>
    obtain ⟨l', p, h1, h2, _, h3⟩ := AslProofs.Map.index_spec so hs k dflt
    exact ⟨l', by simp [MOp.run, h1], h2, fun x => by rw [h3 x]; rfl⟩
  | remove k =>
    obtain ⟨l', b, h1, h2, _, h3⟩ := AslProofs.Map.remove_spec so hs k
    exact ⟨l', by simp [MOp.run, h1], h2, fun x => by rw [h3 x]; rfl⟩
  | clear => exact ⟨[], rfl, List.Pairwise.nil, fun x => rfl⟩
  | add d =>
    obtain ⟨l', h1, h2, h3⟩ := AslProofs.Map.add_spec so dflt d (AslProofs.Map.Sorted.keysNodup so (hadd d rfl)) hs
    exact ⟨l', h1, h2, fun x => by rw [h3 x]; rfl⟩
  | addSelf =>
    obtain ⟨l', h1, h2, h3⟩ := AslProofs.Map.add_spec so dflt l (AslProofs.Map.Sorted.keysNodup so hs) hs
    exact ⟨l', h1, h2, fun x => by rw [h3 x]; rfl⟩
  | clone =>
    have e : Map.clone l = l := by unfold Map.clone; simp
    exact ⟨l, by simp [MOp.run, e], hs, fun x => rfl⟩

/-- **ordered map = finite map, for every history.**  After any sequence of insertions, overwrites,
`operator[]`, removals, clears and merges the array is strictly ascending and its abstract map is the result of
the same history on `K → Option V`. -/
theorem map_refines_finmap {cmp : K → K → Ordering} (so : StrictOrder cmp) (dflt : V) (ops : List (MOp K V))
    (hadd : ∀ d, .add d ∈ ops → Sorted cmp d) :
    ∀ {l : List (K × V)}, Sorted cmp l →
    ∃ l', runAll cmp dflt ops l = some l' ∧ Sorted cmp l' ∧
      ∀ k, lookup k l' = specAll dflt ops (fun k => lookup k l) k := by
  induction ops with
  | nil => intro l hs; exact ⟨l, rfl, hs, fun _ => rfl⟩
  | cons o t ih =>
    intro l hs
    obtain ⟨l1, h1, hs1, a1⟩ := map_op_refines so dflt o (fun d e => hadd d (by rw [e]; simp)) hs
    obtain ⟨l2, h2, hs2, a2⟩ := ih (fun d hd => hadd d (List.mem_cons_of_mem _ hd)) hs1
    refine ⟨l2, by simp [runAll, h1, h2], hs2, ?_⟩
    intro k
    rw [a2 k]
    simp only [specAll]
    congr 1
    funext x; exact a1 x

/-- **lookups find precisely the keys present with their latest values**: `find`, `has`, `get` (and the const
`operator[]`) of a strictly ascending array are the abstract lookup -/
theorem map_lookups {cmp : K → K → Ordering} (so : StrictOrder cmp) {l : List (K × V)} (hs : Sorted cmp l) (key : K) (dflt : V) :
    Map.find cmp l key = some (lookup key l) ∧
    Map.has cmp l key = some (lookup key l).isSome ∧
    Map.get cmp l key dflt = some ((lookup key l).getD dflt) :=
  ⟨AslProofs.Map.find_spec so hs key, AslProofs.Map.has_spec so hs key, AslProofs.Map.get_spec so hs key dflt⟩

/-- the value `operator[]` refers to is the stored one, or the default it has just created -/
theorem map_index_value {cmp : K → K → Ordering} (so : StrictOrder cmp) {l : List (K × V)} (hs : Sorted cmp l) (key : K) (dflt : V) :
    ∃ l' p, Map.index cmp l key dflt = some (l', p) ∧ ∃ h : p < l'.length, l'[p] = (key, (lookup key l).getD dflt) := by
  obtain ⟨l', p, h1, _, h2, _⟩ := AslProofs.Map.index_spec so hs key dflt
  exact ⟨l', p, h1, h2⟩

/-- **enumeration and length**: `keys()` / enumeration is strictly ascending, visits exactly the keys present,
each once, and `length()` is the number of distinct keys -/
theorem map_enumeration {cmp : K → K → Ordering} (so : StrictOrder cmp) {l : List (K × V)} (hs : Sorted cmp l) :
    (Map.keys l).Pairwise (fun a b => cmp a b = .lt) ∧ (Map.keys l).Nodup ∧ l.length = (Map.keys l).length ∧
    (∀ k, k ∈ Map.keys l ↔ (lookup k l).isSome) ∧ (∀ k v, (k, v) ∈ l ↔ lookup k l = some v) := by
  refine ⟨(AslProofs.Map.sorted_iff_keys l).mp hs, ?_, by simp [Map.keys], ?_, ?_⟩
  · exact (AslProofs.HashMap.keysNodup_iff l).mp (AslProofs.Map.Sorted.keysNodup so hs)
  · intro k; exact AslProofs.Map.lookup_isSome_iff.symm
  · intro k v
    exact ⟨AslProofs.Map.lookup_of_mem (AslProofs.Map.Sorted.keysNodup so hs), AslProofs.Map.lookup_mem⟩

/-- **`==` depends only on contents** -/
theorem map_eq_iff [DecidableEq V] {cmp : K → K → Ordering} (so : StrictOrder cmp) {a b : List (K × V)}
    (ha : Sorted cmp a) (hb : Sorted cmp b) : Map.eq a b = true ↔ ∀ k, lookup k a = lookup k b := by
  rw [AslProofs.Map.eq_true_iff]
  exact ⟨fun e => by subst e; intro k; rfl, AslProofs.Map.sorted_ext so ha hb⟩

/-! ## converting constructors `Map<K,T>(const Map<K2,T2>&)`, `Dic<T>(const Map<K2,T2>&)`, `Dic<T>(const Dic<T2>&)` -/

/-- the abstract result of converting the records `b` (in enumeration order) with key conversion `fk` and value
conversion `fv`: `set` of every converted record into the empty finite map (a later record with the same
converted key wins) -/
def convSpec {K2 V2 : Type} (fk : K2 → K) (fv : V2 → V) (b : List (K2 × V2)) : FinMap K V :=
  b.foldl (fun f kv => f.set (fk kv.1) (fv kv.2)) FinMap.empty

/-- a fold of any insertion step that meets the `set` specification keeps the array strictly ascending and is the
fold of `FinMap.set` — whatever `fk` does to the order or the distinctness of the keys, whatever list `b` is -/
theorem fold_set_refines {K2 V2 : Type} {cmp : K → K → Ordering}
    (stp : List (K × V) → K → V → Option (List (K × V)))
    (hstp : ∀ {l : List (K × V)}, Sorted cmp l → ∀ key v, ∃ l', stp l key v = some l' ∧ Sorted cmp l' ∧
      ∀ k, lookup k l' = if k = key then some v else lookup k l)
    (fk : K2 → K) (fv : V2 → V) (b : List (K2 × V2)) :
    ∀ {l : List (K × V)}, Sorted cmp l →
    ∃ l', b.foldl (fun acc kv => match acc with
        | none => none
        | some a => stp a (fk kv.1) (fv kv.2)) (some l) = some l' ∧ Sorted cmp l' ∧
      ∀ k, lookup k l' = b.foldl (fun (f : FinMap K V) kv => f.set (fk kv.1) (fv kv.2)) (fun k => lookup k l) k := by
  induction b with
  | nil => intro l hs; exact ⟨l, rfl, hs, fun _ => rfl⟩
  | cons x t ih =>
    intro l hs
    obtain ⟨l1, h1, hs1, a1⟩ := hstp hs (fk x.1) (fv x.2)
    obtain ⟨l2, h2, hs2, a2⟩ := ih hs1
    refine ⟨l2, ?_, hs2, ?_⟩
    · simp only [List.foldl_cons, h1]; exact h2
    · intro k
      have e : (fun k => lookup k l1) = FinMap.set (fun k => lookup k l) (fk x.1) (fv x.2) := by
        funext y; rw [a1 y]; rfl
      rw [a2 k, e]
      rfl

/-- every converted source key is present in the abstract result -/
theorem convSpec_has {K2 V2 : Type} (fk : K2 → K) (fv : V2 → V) (b : List (K2 × V2)) :
    ∀ (f : FinMap K V) (k : K), ((f k).isSome ∨ ∃ kv ∈ b, fk kv.1 = k) →
      ((b.foldl (fun (f : FinMap K V) kv => f.set (fk kv.1) (fv kv.2)) f) k).isSome := by
  induction b with
  | nil => intro f k h; rcases h with h | ⟨kv, hm, _⟩
           · exact h
           · cases hm
  | cons x t ih =>
    intro f k h
    simp only [List.foldl_cons]
    apply ih
    by_cases hk : k = fk x.1
    · left; simp [FinMap.set, hk]
    · rcases h with h | ⟨kv, hm, e⟩
      · left; simp [FinMap.set, hk, h]
      · rcases List.mem_cons.mp hm with e1 | e1
        · subst e1; exact absurd e.symm hk
        · right; exact ⟨kv, e1, e⟩

/-- **the converting constructor builds a well-formed map, for ANY key conversion.**  `Map<K,T>(const Map<K2,T2>& b)`
(and `Dic<T>(const Dic<T2>&)`, which goes through it) never fails, leaves the array strictly ascending — also when
`fk` reverses or scrambles the order of the keys or maps several keys to one —, its abstract map is `convSpec`
(set of every converted record, in order, into the empty map), the binary search on the result meets its
specification for every key, and every converted source key is found (`has`), with the abstract value (`get`). -/
theorem map_convert_refines {K2 V2 : Type} {cmp : K → K → Ordering} (so : StrictOrder cmp)
    (fk : K2 → K) (fv : V2 → V) (b : List (K2 × V2)) :
    ∃ l', Map.convert cmp fk fv b = some l' ∧ Sorted cmp l' ∧
      (∀ k, lookup k l' = convSpec fk fv b k) ∧
      (∀ key, ∃ r, Map.indexOf cmp l' key = some r ∧ IndexSpec cmp l' key r) ∧
      (∀ kv ∈ b, Map.has cmp l' (fk kv.1) = some true) ∧
      (∀ key dflt, Map.get cmp l' key dflt = some ((convSpec fk fv b key).getD dflt)) := by
  obtain ⟨l', h1, hs', a⟩ := fold_set_refines (Map.set cmp) (fun hs key v => AslProofs.Map.set_spec so hs key v) fk fv b
    (l := []) List.Pairwise.nil
  have e0 : (fun k => lookup k ([] : List (K × V))) = (FinMap.empty : FinMap K V) := by funext k; rfl
  rw [e0] at a
  have a' : ∀ k, lookup k l' = convSpec fk fv b k := a
  refine ⟨l', h1, hs', a', fun key => AslProofs.Map.indexOf_spec so l' key hs', ?_, ?_⟩
  · intro kv hm
    rw [AslProofs.Map.has_spec so hs', a]
    have := convSpec_has fk fv b FinMap.empty (fk kv.1) (Or.inr ⟨kv, hm, rfl⟩)
    rw [this]
  · intro key dflt
    rw [AslProofs.Map.get_spec so hs', a']

/-- the same for `Dic<T>(const Map<K2,T2>& b)` (`(*this)[k] = v` per record) -/
theorem dic_convert_refines {K2 V2 : Type} {cmp : K → K → Ordering} (so : StrictOrder cmp) (dflt : V)
    (fk : K2 → K) (fv : V2 → V) (b : List (K2 × V2)) :
    ∃ l', Map.convertDic cmp dflt fk fv b = some l' ∧ Sorted cmp l' ∧
      (∀ k, lookup k l' = convSpec fk fv b k) ∧
      (∀ key, ∃ r, Map.indexOf cmp l' key = some r ∧ IndexSpec cmp l' key r) ∧
      Map.convert cmp fk fv b = some l' := by
  obtain ⟨l', h1, hs', a⟩ := fold_set_refines (fun l k v => Map.assign cmp l k dflt v)
    (fun hs key v => AslProofs.Map.assign_spec so hs key dflt v) fk fv b (l := []) List.Pairwise.nil
  have e0 : (fun k => lookup k ([] : List (K × V))) = (FinMap.empty : FinMap K V) := by funext k; rfl
  rw [e0] at a
  have a : ∀ k, lookup k l' = convSpec fk fv b k := a
  obtain ⟨l2, g1, gs, ga, _⟩ := map_convert_refines so fk fv b
  refine ⟨l', h1, hs', a, fun key => AslProofs.Map.indexOf_spec so l' key hs', ?_⟩
  rw [g1, AslProofs.Map.sorted_ext so gs hs' (fun k => by rw [ga k, a k])]

/-- **a converted map `==` every well-formed map with the same contents**, e.g. the one built by inserting the
converted records one by one in any order that gives the same finite map -/
theorem map_convert_eq_same_contents [DecidableEq V] {K2 V2 : Type} {cmp : K → K → Ordering} (so : StrictOrder cmp)
    (fk : K2 → K) (fv : V2 → V) (b : List (K2 × V2)) {l' m : List (K × V)}
    (h : Map.convert cmp fk fv b = some l') (hm : Sorted cmp m) (hc : ∀ k, lookup k m = convSpec fk fv b k) :
    Map.eq l' m = true := by
  obtain ⟨l2, g1, gs, ga, _⟩ := map_convert_refines so fk fv b
  rw [g1] at h
  cases h
  exact (map_eq_iff so gs hm).mpr (fun k => by rw [ga k, hc k])

/-- non-vacuity: quarters 5/4 and 7/4 both truncate to key 1 (the later value wins), 14/4 to 3; and a conversion that
reverses the order (negation) -/
example : Map.convert Map.cmpInt (fun q : Int => Int.tdiv q 4) (fun v : Int => v) [(5, 10), (7, 20), (14, 30)]
    = some [(1, 20), (3, 30)] := by decide
example : Map.convert Map.cmpInt (fun q : Int => -q) (fun v : Int => v) [(1, 10), (2, 20), (3, 30)]
    = some [(-3, 30), (-2, 20), (-1, 10)] := by decide
example : Map.convertDic Map.cmpInt 0 (fun q : Int => Int.tdiv q 4) (fun v : Int => v) [(5, 10), (7, 20), (14, 30)]
    = some [(1, 20), (3, 30)] := by decide
example : (convSpec (fun q : Int => Int.tdiv q 4) (fun v : Int => v) [(5, 10), (7, 20), (14, 30)] : FinMap Int Int) 1 = some 20 := by
  decide

end Ordered

/-! ## hash map (`HashMap`, `HashDic`) — for an arbitrary hash function -/
section Hashed
variable {K V : Type} [DecidableEq K]

/-- **G obligations**: the constants regenerated from `include/asl/HashMap.h` on this run keep the model
meaningful — `HashMap()` has at least one bucket, growth multiplies by a positive factor, the fill threshold is
a proper fraction with a non-zero denominator, two header slots -/
theorem gen_constants_ok :
    0 < Gen.HashMap.defaultBuckets ∧ 0 < Gen.HashMap.growFactor ∧ 0 < Gen.HashMap.growDen ∧
    Gen.HashMap.growNum ≤ Gen.HashMap.growDen ∧ Gen.HashMap.skip = 2 := by decide

/-- `p` is the least power of two `≥ n` (for `n ≥ 1`) -/
def isNextPoT (n p : Nat) : Bool := decide (n ≤ p) && decide (p < 2 * n) && (p &&& (p - 1)) == 0

/-- **G obligation**: with the regenerated shifts, `nextPoT n` is the least power of two `≥ n` for every
`1 ≤ n ≤ 4096` (the sizes the generator passes to `HashMap(int)` / `Set(int)` are within 1..2048) -/
theorem nextPoT_is_next_power_of_two :
    (∀ n, n < 1025 → 0 < n → isNextPoT n (HashMap.nextPoT n) = true) ∧
    ((List.range 3072).map (· + 1025)).all (fun n => isNextPoT n (HashMap.nextPoT n)) = true := by
  constructor <;> decide +kernel

/-- every bucket index computed by `binOf` is inside the table -/
theorem binOf_in_bounds (h : K → Nat) {nb : Nat} (hnb : 0 < nb) (k : K) : HashMap.binOf h nb k < nb :=
  AslProofs.HashMap.binOf_lt h hnb k

/-- a fresh table is well-formed and empty -/
theorem hashmap_empty (h : K → Nat) {nb : Nat} (hnb : 0 < nb) :
    Inv h (HashMap.empty nb : HashMap.HM K V) ∧ ∀ k, abs (HashMap.empty nb : HashMap.HM K V) k = none :=
  AslProofs.HashMap.empty_inv h hnb

/-- every constructor argument — zero and negative size hints included (16300ca) — gives a well-formed empty table -/
theorem hashmap_ofSize (h : K → Nat) (n : Int) :
    Inv h (HashMap.ofSize n : HashMap.HM K V) ∧ (∀ k, abs (HashMap.ofSize n : HashMap.HM K V) k = none) ∧
    0 < (HashMap.ofSize n : HashMap.HM K V).buckets.length := by
  have hp := AslProofs.HashMap.nextPoT_pos (if n < 1 then 1 else n.toNat)
  obtain ⟨i, a⟩ := AslProofs.HashMap.empty_inv (V := V) h hp
  exact ⟨i, a, i.wf.nb_pos⟩

/-- **lookups**: walking only the chain of bucket `binOf key` finds exactly what a linear search over the whole
enumeration finds -/
theorem hashmap_lookups {h : K → Nat} {m : HashMap.HM K V} (inv : Inv h m) (key : K) (dflt : V) :
    HashMap.find h m key = abs m key ∧ HashMap.has h m key = (abs m key).isSome ∧
    HashMap.get h m key dflt = (abs m key).getD dflt := by
  refine ⟨AslProofs.HashMap.find_eq_abs inv.wf key, AslProofs.HashMap.has_eq_abs inv.wf key, ?_⟩
  unfold HashMap.get; rw [AslProofs.HashMap.find_eq_abs inv.wf key]

/-- *definitional* (an unfolding of the `∨ m.rc > 1` disjunct of `HashMap.rehash`, kept as a named fact): with
more than one handle on the table `rehash()` returns it unchanged (c201e90).  It says nothing about handles by
itself; the handle-level statement is `handles_refine` below, and that the CODE's handles behave like the model's
is established by K (`share` ops) only. -/
theorem rehash_shared_noop (h : K → Nat) (m : HashMap.HM K V) (hrc : 1 < m.rc) : HashMap.rehash h m = m := by
  unfold HashMap.rehash
  simp [hrc]

/-- *definitional* corollary of the above: while shared, `operator[]` keeps the table size and the count of handles -/
theorem index_shared_keeps_size (h : K → Nat) (dflt : V) (m : HashMap.HM K V) (key : K) (hrc : 1 < m.rc) :
    (HashMap.index h dflt m key).buckets.length = m.buckets.length ∧ (HashMap.index h dflt m key).rc = m.rc := by
  unfold HashMap.index
  rw [rehash_shared_noop h m hrc]
  simp

/-- the value `operator[]` refers to is the stored one, or the default it has just created -/
theorem hashmap_index_value {h : K → Nat} {m : HashMap.HM K V} (inv : Inv h m) (key : K) (dflt : V) :
    HashMap.get h (HashMap.index h dflt m key) key dflt = (abs m key).getD dflt := by
  obtain ⟨i, a⟩ := AslProofs.HashMap.index_spec inv dflt key
  unfold HashMap.get
  rw [AslProofs.HashMap.find_eq_abs i.wf key, a key]
  simp

/-- **growth is invisible**: `rehash()` keeps the invariant and the abstract map, whatever the fill -/
theorem rehash_preserves_abs {h : K → Nat} {m : HashMap.HM K V} (inv : Inv h m) :
    Inv h (HashMap.rehash h m) ∧ ∀ k, abs (HashMap.rehash h m) k = abs m k :=
  AslProofs.HashMap.rehash_spec inv

/-- **enumeration and length**: `length()` is the number of enumerated entries, every key is enumerated once,
and the enumerated pairs are exactly the abstract map -/
theorem hashmap_enumeration {h : K → Nat} {m : HashMap.HM K V} (inv : Inv h m) :
    m.n = (HashMap.enum m).length ∧ ((HashMap.enum m).map (·.1)).Nodup ∧
    ∀ k v, (k, v) ∈ HashMap.enum m ↔ abs m k = some v :=
  ⟨inv.count, AslProofs.HashMap.keys_nodup inv, AslProofs.HashMap.mem_enum_iff inv⟩

/-- operations through one handle of a hash map; `handles r` is the event "copies of the handle are made or
dropped, `r` handles now share the table" (it only changes the reference count the growth rule looks at) -/
inductive HOp (K V : Type) where
  | assign (k : K) (v : V)
  | index (k : K)
  | remove (k : K)
  | clear
  | dup
  | handles (r : Nat)

def HOp.run (h : K → Nat) (dflt : V) : HOp K V → HashMap.HM K V → HashMap.HM K V
  | .assign k v, m => HashMap.assign h dflt m k v
  | .index k, m => HashMap.index h dflt m k
  | .remove k, m => HashMap.remove h m k
  | .clear, m => HashMap.clear m
  | .dup, m => HashMap.dup h dflt m
  | .handles r, m => { m with rc := r }

def HOp.spec (dflt : V) : HOp K V → FinMap K V → FinMap K V
  | .assign k v, f => f.set k v
  | .index k, f => f.touch k dflt
  | .remove k, f => f.erase k
  | .clear, _ => FinMap.empty
  | .dup, f => f
  | .handles _, f => f

theorem hashmap_op_refines {h : K → Nat} (dflt : V) (o : HOp K V) {m : HashMap.HM K V} (inv : Inv h m) :
    Inv h (o.run h dflt m) ∧ ∀ k, abs (o.run h dflt m) k = o.spec dflt (abs m) k := by
  cases o with
  | assign k v => exact AslProofs.HashMap.assign_spec inv dflt k v
  | index k => exact AslProofs.HashMap.index_spec inv dflt k
  | remove k =>
    obtain ⟨i, _, a⟩ := AslProofs.HashMap.remove_spec inv k
    exact ⟨i, a⟩
  | clear =>
    obtain ⟨i, _, a⟩ := AslProofs.HashMap.clear_spec inv
    exact ⟨i, a⟩
  | dup => exact AslProofs.HashMap.dup_spec inv dflt
  | handles r => exact ⟨⟨inv.wf, inv.count⟩, fun _ => rfl⟩

/-- **hash map = finite map, for every history, every hash function, every table size.**  The invariant
(chains duplicate-free, every key in bucket `binOf key`, count = number of entries) is preserved by
`operator[]`, `set`, `remove`, `clear`, `rehash` (inside `operator[]`) and `dup`/`clone`, and the abstract map is
the result of the same history on `K → Option V`. -/
theorem hashmap_refines_finmap (h : K → Nat) (dflt : V) (ops : List (HOp K V)) :
    ∀ {m : HashMap.HM K V}, Inv h m →
    Inv h (ops.foldl (fun m o => o.run h dflt m) m) ∧
    ∀ k, abs (ops.foldl (fun m o => o.run h dflt m) m) k = ops.foldl (fun f o => o.spec dflt f) (abs m) k := by
  induction ops with
  | nil => intro m inv; exact ⟨inv, fun _ => rfl⟩
  | cons o t ih =>
    intro m inv
    obtain ⟨i1, a1⟩ := hashmap_op_refines dflt o inv
    obtain ⟨i2, a2⟩ := ih i1
    refine ⟨i2, ?_⟩
    intro k
    simp only [List.foldl_cons]
    rw [a2 k]
    have : abs (o.run h dflt m) = o.spec dflt (abs m) := funext a1
    rw [this]

/-- **`==` depends only on contents**: for two tables of any sizes with any histories (same hash function),
`operator==` holds iff the abstract maps are equal -/
theorem hashmap_eq_iff [DecidableEq V] {h : K → Nat} {a b : HashMap.HM K V} (ia : Inv h a) (ib : Inv h b) :
    HashMap.eq h a b = true ↔ ∀ k, abs a k = abs b k :=
  AslProofs.HashMap.eq_iff ia ib

/-- **insertion order, colliding keys and growth never matter**: two tables of any initial sizes driven by any
two histories compare equal exactly when the two histories produce the same finite map -/
theorem hashmap_eq_of_histories [DecidableEq V] (h : K → Nat) (dflt : V) (ops1 ops2 : List (HOp K V))
    {nb1 nb2 : Nat} (h1 : 0 < nb1) (h2 : 0 < nb2) :
    HashMap.eq h (ops1.foldl (fun m o => o.run h dflt m) (HashMap.empty nb1))
                 (ops2.foldl (fun m o => o.run h dflt m) (HashMap.empty nb2)) = true ↔
    ∀ k, ops1.foldl (fun f o => o.spec dflt f) FinMap.empty k = ops2.foldl (fun f o => o.spec dflt f) FinMap.empty k := by
  obtain ⟨e1, z1⟩ := hashmap_empty (V := V) h h1
  obtain ⟨e2, z2⟩ := hashmap_empty (V := V) h h2
  obtain ⟨i1, a1⟩ := hashmap_refines_finmap h dflt ops1 e1
  obtain ⟨i2, a2⟩ := hashmap_refines_finmap h dflt ops2 e2
  have ea : abs (HashMap.empty nb1 : HashMap.HM K V) = FinMap.empty := funext z1
  have eb : abs (HashMap.empty nb2 : HashMap.HM K V) = FinMap.empty := funext z2
  rw [ea] at a1
  rw [eb] at a2
  rw [hashmap_eq_iff i1 i2]
  constructor
  · intro e k; rw [← a1 k, e k, a2 k]
  · intro e k; rw [a1 k, a2 k, e k]

/-- equal contents ⇒ the two enumerations are permutations of each other (insertion order, bucket sharing
and growth only permute the enumeration) -/
theorem hashmap_enum_perm {h : K → Nat} {a b : HashMap.HM K V} (ia : Inv h a) (ib : Inv h b)
    (e : ∀ k, abs a k = abs b k) : (HashMap.enum a).Perm (HashMap.enum b) :=
  AslProofs.HashMap.enum_perm_of_abs_eq ia ib e

/-! ### several handles to one table (copy-constructed / assigned `HashMap` objects)

The reference semantics: a store of finite maps and slots naming them; a member called through one object is seen
through every object naming the same map and through no other. -/

structure AFam (K V : Type) where
  atabs : List (FinMap K V)
  slots : List Nat

def AFam.get (a : AFam K V) (j : Nat) : FinMap K V := a.atabs.getD (a.slots.getD j 0) FinMap.empty
def AFam.mutate (a : AFam K V) (j : Nat) (g : FinMap K V → FinMap K V) : AFam K V :=
  { a with atabs := a.atabs.set (a.slots.getD j 0) (g (a.get j)) }
def AFam.share (a : AFam K V) (i j : Nat) : AFam K V := { a with slots := a.slots.set j (a.slots.getD i 0) }
def AFam.rebind (a : AFam K V) (j : Nat) (x : FinMap K V) : AFam K V :=
  { atabs := a.atabs ++ [x], slots := a.slots.set j a.atabs.length }

/-- object-level operations: a member `o` called on object `j`; `object j = object i`; object `j` assigned a
new map of size hint `n`; object `j` assigned `object i .clone()` -/
inductive FOp (K V : Type) where
  | call (j : Nat) (o : HOp K V)
  | share (i j : Nat)
  | fresh (j : Nat) (n : Int)
  | clone (i j : Nat)

def FOp.run (h : K → Nat) (dflt : V) : FOp K V → HashMap.Fam K V → HashMap.Fam K V
  | .call j o, f => f.mutate j (o.run h dflt)
  | .share i j, f => f.share i j
  | .fresh j n, f => f.rebind j (HashMap.ofSize n)
  | .clone i j, f => f.rebind j (HashMap.dup h dflt (f.get i))

def FOp.spec (dflt : V) : FOp K V → AFam K V → AFam K V
  | .call j o, a => a.mutate j (o.spec dflt)
  | .share i j, a => a.share i j
  | .fresh j _, a => a.rebind j FinMap.empty
  | .clone i j, a => a.rebind j (a.get i)

/-- every table of the store is well-formed -/
def FamInv (h : K → Nat) (f : HashMap.Fam K V) : Prop := ∀ m ∈ f.tabs, Inv h m

/-- the abstraction of a family: the same slots over the abstract maps of the tables -/
def famAbs (f : HashMap.Fam K V) : AFam K V := ⟨f.tabs.map abs, f.slots⟩

theorem abs_empty_default : abs (HashMap.empty Gen.HashMap.defaultBuckets : HashMap.HM K V) = FinMap.empty :=
  funext (AslProofs.HashMap.empty_inv (fun _ => 0) AslProofs.HashMap.defaultBuckets_pos).2

theorem fam_get_abs (f : HashMap.Fam K V) (j : Nat) : abs (f.get j) = (famAbs f).get j := by
  unfold HashMap.Fam.get AFam.get famAbs
  simp only [List.getD_eq_getElem?_getD, List.getElem?_map]
  cases hq : f.tabs[f.slots[j]?.getD 0]? with
  | none => simp only [Option.map_none, Option.getD_none]; exact abs_empty_default
  | some m => simp only [Option.map_some, Option.getD_some]; rfl

theorem fam_get_inv {h : K → Nat} {f : HashMap.Fam K V} (fi : FamInv h f) (j : Nat) : Inv h (f.get j) := by
  unfold HashMap.Fam.get
  simp only [List.getD_eq_getElem?_getD]
  cases hq : f.tabs[f.slots[j]?.getD 0]? with
  | none =>
    have E := (AslProofs.HashMap.empty_inv (V := V) h AslProofs.HashMap.defaultBuckets_pos).1
    exact ⟨E.wf, E.count⟩
  | some m =>
    have := fi m (List.mem_of_getElem? hq)
    exact ⟨this.wf, this.count⟩

theorem fam_op_refines {h : K → Nat} (dflt : V) (o : FOp K V) {f : HashMap.Fam K V} (fi : FamInv h f) :
    FamInv h (o.run h dflt f) ∧ famAbs (o.run h dflt f) = o.spec dflt (famAbs f) := by
  cases o with
  | call j o =>
    obtain ⟨i1, a1⟩ := hashmap_op_refines dflt o (fam_get_inv fi j)
    refine ⟨?_, ?_⟩
    · intro m hm
      rcases List.mem_or_eq_of_mem_set hm with hm | hm
      · exact fi m hm
      · rw [hm]; exact i1
    · simp only [FOp.run, FOp.spec, HashMap.Fam.mutate, HashMap.Fam.store, AFam.mutate, famAbs, List.map_set]
      have : abs (o.run h dflt (f.get j)) = o.spec dflt ((famAbs f).get j) := by
        rw [← fam_get_abs]; exact funext a1
      rw [this]; rfl
  | share i j => exact ⟨fi, rfl⟩
  | fresh j n =>
    obtain ⟨i1, a1, _⟩ := hashmap_ofSize (V := V) h n
    refine ⟨?_, ?_⟩
    · intro m hm
      rcases List.mem_append.mp hm with hm | hm
      · exact fi m hm
      · have : m = { (HashMap.ofSize n : HashMap.HM K V) with rc := 1 } := by simpa using hm
        rw [this]; exact ⟨i1.wf, i1.count⟩
    · simp only [FOp.run, FOp.spec, HashMap.Fam.rebind, AFam.rebind, famAbs, List.map_append, List.map_cons, List.map_nil,
        List.length_map]
      have : abs ({ (HashMap.ofSize n : HashMap.HM K V) with rc := 1 }) = FinMap.empty := funext a1
      rw [this]
  | clone i j =>
    obtain ⟨i1, a1⟩ := AslProofs.HashMap.dup_spec (fam_get_inv fi i) dflt
    refine ⟨?_, ?_⟩
    · intro m hm
      rcases List.mem_append.mp hm with hm | hm
      · exact fi m hm
      · have : m = { HashMap.dup h dflt (f.get i) with rc := 1 } := by simpa using hm
        rw [this]; exact ⟨i1.wf, i1.count⟩
    · simp only [FOp.run, FOp.spec, HashMap.Fam.rebind, AFam.rebind, famAbs, List.map_append, List.map_cons, List.map_nil,
        List.length_map]
      have : abs ({ HashMap.dup h dflt (f.get i) with rc := 1 }) = (famAbs f).get i := by
        rw [← fam_get_abs]; exact funext a1
      rw [this]; rfl

/-- **handles refine aliased finite maps, for every history.**  For any sequence of member calls through any
object, handle copies (`object j = object i`), re-initialisations and clones, every table stays well-formed and
the family of objects is, abstractly, the same sequence run on a store of finite maps with the same aliasing:
what is done through one object is seen through exactly the objects that name the same map — in particular
handles never split (the defect repaired by c201e90 would break `.call` when growth fires while shared). -/
theorem handles_refine (h : K → Nat) (dflt : V) (ops : List (FOp K V)) :
    ∀ {f : HashMap.Fam K V}, FamInv h f →
    FamInv h (ops.foldl (fun f o => o.run h dflt f) f) ∧
    famAbs (ops.foldl (fun f o => o.run h dflt f) f) = ops.foldl (fun a o => o.spec dflt a) (famAbs f) := by
  induction ops with
  | nil => intro f fi; exact ⟨fi, rfl⟩
  | cons o t ih =>
    intro f fi
    obtain ⟨i1, a1⟩ := fam_op_refines dflt o fi
    obtain ⟨i2, a2⟩ := ih i1
    exact ⟨i2, by simp only [List.foldl_cons]; rw [a2, a1]⟩

/-- what any object sees after any history is what the reference store shows through the same slot -/
theorem handles_observe (h : K → Nat) (dflt : V) (ops : List (FOp K V)) {f : HashMap.Fam K V} (fi : FamInv h f) (j : Nat) (key : K) :
    HashMap.find h ((ops.foldl (fun f o => o.run h dflt f) f).get j) key =
      (ops.foldl (fun a o => o.spec dflt a) (famAbs f)).get j key := by
  obtain ⟨i, a⟩ := handles_refine h dflt ops fi
  rw [AslProofs.HashMap.find_eq_abs (fam_get_inv i j).wf, fam_get_abs, a]

end Hashed

/-! ## `Set` -/
section Sets
variable {K : Type} [DecidableEq K]
open HashMap (HSet)

/-- membership as the code tests it (`contains(x)` = `has(x)`) -/
abbrev Mem (h : K → Nat) (s : HSet K) (x : K) : Prop := HashMap.has h s x = true

theorem set_insert_spec {h : K → Nat} {s : HSet K} (inv : Inv h s) (x : K) :
    Inv h (HashMap.sIns h s x) ∧ ∀ y, Mem h (HashMap.sIns h s x) y ↔ (y = x ∨ Mem h s y) := by
  obtain ⟨i, a⟩ := AslProofs.HashMap.sIns_spec inv x
  exact ⟨i, fun y => by simp [Mem, a y]⟩

theorem set_remove_spec {h : K → Nat} {s : HSet K} (inv : Inv h s) (x : K) :
    Inv h (HashMap.remove h s x) ∧ ∀ y, Mem h (HashMap.remove h s x) y ↔ (y ≠ x ∧ Mem h s y) := by
  obtain ⟨i, _, a⟩ := AslProofs.HashMap.remove_spec inv x
  refine ⟨i, ?_⟩
  intro y
  simp only [Mem, AslProofs.HashMap.has_eq_abs i.wf, AslProofs.HashMap.has_eq_abs inv.wf, a y]
  by_cases hy : y = x <;> simp [hy]

theorem set_from_array_spec {h : K → Nat} (xs : List K) :
    Inv h (HashMap.sFromList h xs) ∧ ∀ y, Mem h (HashMap.sFromList h xs) y ↔ y ∈ xs :=
  AslProofs.HashMap.sFromList_spec xs

theorem set_union_spec {h : K → Nat} {a s : HSet K} (ia : Inv h a) (is : Inv h s) :
    Inv h (HashMap.sUnion h a s) ∧ ∀ y, Mem h (HashMap.sUnion h a s) y ↔ (Mem h a y ∨ Mem h s y) := by
  obtain ⟨i, e⟩ := AslProofs.HashMap.sUnion_spec ia is
  exact ⟨i, fun y => by simp [Mem, e y]⟩

theorem set_inter_spec {h : K → Nat} {a s : HSet K} (ia : Inv h a) :
    Inv h (HashMap.sIn h a s) ∧ ∀ y, Mem h (HashMap.sIn h a s) y ↔ (Mem h a y ∧ Mem h s y) := by
  obtain ⟨i, e⟩ := AslProofs.HashMap.sIn_spec (s := s) ia
  exact ⟨i, fun y => by simp [Mem, e y]⟩

theorem set_diff_spec {h : K → Nat} {a s : HSet K} (ia : Inv h a) :
    Inv h (HashMap.sNotIn h a s) ∧ ∀ y, Mem h (HashMap.sNotIn h a s) y ↔ (Mem h a y ∧ ¬ Mem h s y) := by
  obtain ⟨i, e⟩ := AslProofs.HashMap.sNotIn_spec (s := s) ia
  exact ⟨i, fun y => by simp [Mem, e y]⟩

theorem set_add_all_spec {h : K → Nat} {a s : HSet K} (ia : Inv h a) (is : Inv h s) :
    Inv h (HashMap.sAddAll h a s) ∧ ∀ y, Mem h (HashMap.sAddAll h a s) y ↔ (Mem h a y ∨ Mem h s y) := by
  obtain ⟨i, e⟩ := AslProofs.HashMap.sAddAll_spec ia is
  exact ⟨i, fun y => by simp [Mem, e y]⟩

theorem set_contains_spec {h : K → Nat} {a s : HSet K} (is : Inv h s) :
    (HashMap.sContainsAll h a s = true ↔ ∀ y, Mem h s y → Mem h a y) ∧
    (HashMap.sContainsAny h a s = true ↔ ∃ y, Mem h s y ∧ Mem h a y) :=
  ⟨AslProofs.HashMap.sContainsAll_spec is, AslProofs.HashMap.sContainsAny_spec is⟩

/-- **set equality depends only on membership** (not on insertion order, shared buckets or table growth) -/
theorem set_eq_iff {h : K → Nat} {a s : HSet K} (ia : Inv h a) (is : Inv h s) :
    HashMap.sEq h a s = true ↔ ∀ y, (Mem h a y ↔ Mem h s y) := by
  rw [AslProofs.HashMap.sEq_iff ia is]
  constructor
  · intro e y; simp [Mem, e y]
  · intro e y; exact Bool.eq_iff_iff.mpr (e y)

/-- `array()` lists every member exactly once and `length()` is their number -/
theorem set_array_spec {h : K → Nat} {s : HSet K} (inv : Inv h s) :
    (HashMap.sArray s).Nodup ∧ (HashMap.sArray s).length = s.n ∧ ∀ y, y ∈ HashMap.sArray s ↔ Mem h s y := by
  refine ⟨AslProofs.HashMap.keys_nodup inv, by simp [HashMap.sArray, inv.count], ?_⟩
  intro y; exact AslProofs.HashMap.mem_keys_iff inv y

theorem set_clear_spec {h : K → Nat} {s : HSet K} (inv : Inv h s) :
    Inv h (HashMap.clear s) ∧ ∀ y, ¬ Mem h (HashMap.clear s) y := by
  obtain ⟨i, _, a⟩ := AslProofs.HashMap.clear_spec inv
  refine ⟨i, ?_⟩
  intro y
  simp [Mem, AslProofs.HashMap.has_eq_abs i.wf, a y]

/-- `clone()` of a set has the same members (and is well-formed whatever the growth during the copy) -/
theorem set_clone_spec {h : K → Nat} {s : HSet K} (inv : Inv h s) :
    Inv h (HashMap.dup h 0 s) ∧ ∀ y, Mem h (HashMap.dup h 0 s) y ↔ Mem h s y := by
  obtain ⟨i, a⟩ := AslProofs.HashMap.dup_spec inv (0 : Int)
  refine ⟨i, ?_⟩
  intro y
  simp [Mem, AslProofs.HashMap.has_eq_abs i.wf, AslProofs.HashMap.has_eq_abs inv.wf, a y]

/-- operations of one set; set-valued operands are other sets (`addSelf` is `s << s`) -/
inductive SOp (K : Type) where
  | ins (x : K)
  | rem (x : K)
  | clear
  | clone
  | addAll (o : HSet K)
  | addSelf
  | union (o : HSet K)
  | inter (o : HSet K)
  | diff (o : HSet K)
  | fromArray (xs : List K)
  | handles (r : Nat)

/-- what the model (= the code, by K) does -/
def SOp.run (h : K → Nat) : SOp K → HSet K → HSet K
  | .ins x, s => HashMap.sIns h s x
  | .rem x, s => HashMap.remove h s x
  | .clear, s => HashMap.clear s
  | .clone, s => HashMap.dup h 0 s
  | .addAll o, s => HashMap.sAddAll h s o
  | .addSelf, s => HashMap.sAddAll h s s
  | .union o, s => HashMap.sUnion h s o
  | .inter o, s => HashMap.sIn h s o
  | .diff o, s => HashMap.sNotIn h s o
  | .fromArray xs, _ => HashMap.sFromList h xs
  | .handles r, s => { s with rc := r }

/-- what the mathematical set (a predicate on keys) does -/
def SOp.spec (h : K → Nat) : SOp K → (K → Prop) → (K → Prop)
  | .ins x, P => fun y => y = x ∨ P y
  | .rem x, P => fun y => y ≠ x ∧ P y
  | .clear, _ => fun _ => False
  | .clone, P => P
  | .addAll o, P => fun y => P y ∨ Mem h o y
  | .addSelf, P => fun y => P y ∨ P y
  | .union o, P => fun y => P y ∨ Mem h o y
  | .inter o, P => fun y => P y ∧ Mem h o y
  | .diff o, P => fun y => P y ∧ ¬ Mem h o y
  | .fromArray xs, _ => fun y => y ∈ xs
  | .handles _, P => P

/-- operands that are enumerated by the operation and therefore must themselves be well-formed -/
def SOp.operands : SOp K → List (HSet K)
  | .addAll o => [o]
  | .union o => [o]
  | _ => []

theorem set_op_refines {h : K → Nat} (o : SOp K) {s : HSet K} (inv : Inv h s)
    (hops : ∀ x ∈ o.operands, Inv h x) :
    Inv h (o.run h s) ∧ ∀ y, Mem h (o.run h s) y ↔ o.spec h (Mem h s) y := by
  cases o with
  | ins x => exact set_insert_spec inv x
  | rem x => exact set_remove_spec inv x
  | clear =>
    obtain ⟨i, a⟩ := set_clear_spec inv
    exact ⟨i, fun y => ⟨fun hm => a y hm, fun hf => hf.elim⟩⟩
  | clone => exact set_clone_spec inv
  | addAll x => exact set_add_all_spec inv (hops x (by simp [SOp.operands]))
  | addSelf => exact set_add_all_spec inv inv
  | union x => exact set_union_spec inv (hops x (by simp [SOp.operands]))
  | inter x => exact set_inter_spec inv
  | diff x => exact set_diff_spec inv
  | fromArray xs => exact set_from_array_spec xs
  | handles r => exact ⟨⟨inv.wf, inv.count⟩, fun _ => Iff.rfl⟩

/-- **Set = mathematical set, for every history, every hash function, every table size.**  After any sequence
of insertions, removals, clears, clones, merges (`<<`, also with itself), unions, intersections, differences
and re-initialisations from an array, the table is well-formed and its members are exactly those of the same
history on predicates. -/
theorem set_refines (h : K → Nat) (ops : List (SOp K)) (hops : ∀ o ∈ ops, ∀ x ∈ o.operands, Inv h x) :
    ∀ {s : HSet K}, Inv h s →
    Inv h (ops.foldl (fun s o => o.run h s) s) ∧
    ∀ y, Mem h (ops.foldl (fun s o => o.run h s) s) y ↔ ops.foldl (fun P o => o.spec h P) (Mem h s) y := by
  induction ops with
  | nil => intro s inv; exact ⟨inv, fun _ => Iff.rfl⟩
  | cons o t ih =>
    intro s inv
    obtain ⟨i1, a1⟩ := set_op_refines o inv (hops o (by simp))
    obtain ⟨i2, a2⟩ := ih (fun o' ho' => hops o' (List.mem_cons_of_mem _ ho')) i1
    refine ⟨i2, ?_⟩
    intro y
    simp only [List.foldl_cons]
    rw [a2 y]
    have : Mem h (o.run h s) = o.spec h (Mem h s) := funext fun z => propext (a1 z)
    rw [this]

end Sets

/-! ## capacity (`nextPoT`, growth) and enumeration (`Enumerator`, `foreach`, `keys()`, `array()`) -/
section Capacity
open AslProofs.HashMapEnum (SizeOK LoadOK)
open HashMap (HSet)
variable {K V : Type} [DecidableEq K]

/-- **`nextPoT` for every argument**: for every `n ≤ 2^32` (so for every non-negative `int`) the smearing steps with
the regenerated shifts give the least power of two `≥ n`; `0` and `1` give `1` -/
theorem nextPoT_every_size {n : Nat} (hn : n ≤ 2 ^ 32) :
    ∃ e, e ≤ 32 ∧ HashMap.nextPoT n = 2 ^ e ∧ n ≤ 2 ^ e ∧ (2 ≤ n → 2 ^ e < 2 * n) :=
  AslProofs.HashMapEnum.nextPoT_spec hn

/-- **`nextPoT` on the C++ `int`**: below 1 it is `0` (no bucket at all — the reason for the clamp in `HashMap(int)`),
from `1` to `2^30` it is the least power of two `≥ n` and at most `2^30` (no `int` overflow) -/
theorem nextPoT_int (n : Int) :
    (n < 1 → HashMap.nextPoTInt n = 0) ∧
    (1 ≤ n → n ≤ 2 ^ 30 → ∃ e : Nat, e ≤ 30 ∧ HashMap.nextPoTInt n = 2 ^ e ∧ n ≤ 2 ^ e ∧ (2 ≤ n → (2 : Int) ^ e < 2 * n)) := by
  constructor
  · intro h; simp [HashMap.nextPoTInt, h]
  · intro h1 h2
    have hnn : ¬ n < 1 := by omega
    obtain ⟨e, he, hp, hge, hlt⟩ := AslProofs.HashMapEnum.nextPoT_spec (n := n.toNat) (by omega)
    have hcast : ((2 ^ e : Nat) : Int) = (2 : Int) ^ e := by simp
    have he30 : e ≤ 30 := by
      by_cases h2' : 2 ≤ n.toNat
      · have := hlt h2'
        have : 2 ^ e < 2 ^ 31 := by omega
        have := (Nat.pow_lt_pow_iff_right (a := 2) (by omega)).mp this
        omega
      · have h1' : n.toNat = 1 := by omega
        rw [h1'] at hp
        by_cases h : e ≤ 30
        · exact h
        · have : 2 ^ 31 ≤ 2 ^ e := Nat.pow_le_pow_right (by omega) (by omega)
          have : HashMap.nextPoT 1 = 1 := by decide
          omega
    refine ⟨e, he30, by simp [HashMap.nextPoTInt, hnn, hp], ?_, ?_⟩
    · rw [← hcast]; omega
    · intro h2'; rw [← hcast]; have := hlt (by omega); omega

/-- **the table size is a power of two `≥ 1` for every history**, shared handles included: every constructor
(`HashMap()`, `HashMap(int n)` for any `n ≤ 2^30`, zero and negative included) gives `2^e` buckets with `e ≤ 30`,
and `operator[]`/`set` (growth ×`growFactor`, capped by `maxSlots`), `remove`, `clear` and `dup`/`clone`
(`nextPoT` of the current size) keep that -/
theorem hashmap_size_pow2_every_history (h : K → Nat) (dflt : V) (ops : List (HOp K V)) :
    SizeOK (HashMap.empty Gen.HashMap.defaultBuckets : HashMap.HM K V) ∧
    (∀ n : Int, n ≤ 2 ^ 30 → SizeOK (HashMap.ofSize n : HashMap.HM K V)) ∧
    ∀ {m : HashMap.HM K V}, SizeOK m → SizeOK (ops.foldl (fun m o => o.run h dflt m) m) := by
  refine ⟨AslProofs.HashMapEnum.default_size, fun n hn => AslProofs.HashMapEnum.ofSize_size hn, ?_⟩
  induction ops with
  | nil => intro m s; exact s
  | cons o t ih =>
    intro m s
    apply ih
    cases o with
    | assign k v => exact AslProofs.HashMapEnum.assign_size h dflt s k v
    | index k => exact AslProofs.HashMapEnum.index_size h dflt s k
    | remove k => exact AslProofs.HashMapEnum.remove_size h s k
    | clear => exact AslProofs.HashMapEnum.clear_size s
    | dup => exact AslProofs.HashMapEnum.dup_size h dflt s
    | handles r => exact s

/-- **the load bound the code intends**: as long as the table is not shared between handles (while it is, `rehash()`
deliberately does nothing, c201e90), after every history `length() ≤ (buckets + SKIP)·growNum/growDen`, or the table
has reached the size (`maxSlots`) at which the code stops growing -/
theorem hashmap_load_bound_unshared (h : K → Nat) (dflt : V) (ops : List (HOp K V))
    (hun : ∀ r, HOp.handles r ∈ ops → r ≤ 1) :
    ∀ {m : HashMap.HM K V}, SizeOK m → m.rc ≤ 1 → LoadOK m →
      LoadOK (ops.foldl (fun m o => o.run h dflt m) m) := by
  induction ops with
  | nil => intro m _ _ l; exact l
  | cons o t ih =>
    intro m s r l
    have hs : SizeOK (o.run h dflt m) :=
      (hashmap_size_pow2_every_history h dflt [o]).2.2 s
    have ht : ∀ r, HOp.handles r ∈ t → r ≤ 1 := fun r hr => hun r (List.mem_cons_of_mem _ hr)
    simp only [List.foldl_cons]
    cases o with
    | assign k v =>
      obtain ⟨l', r'⟩ := AslProofs.HashMapEnum.assign_load h dflt s r l k v
      exact ih ht hs r' l'
    | index k =>
      obtain ⟨l', r'⟩ := AslProofs.HashMapEnum.index_load h dflt s r l k
      exact ih ht hs r' l'
    | remove k => exact ih ht hs r (AslProofs.HashMapEnum.remove_load h l k)
    | clear => exact ih ht hs r AslProofs.HashMapEnum.clear_load
    | dup =>
      obtain ⟨l', r'⟩ := AslProofs.HashMapEnum.dup_load h dflt s
      exact ih ht hs r' l'
    | handles r0 => exact ih ht hs (hun r0 (by simp)) l

/-- **the `Enumerator` as coded** (constructor, `operator bool`, `operator++`, `~e`, `*e`; also `foreach`/`foreach2`)
run to completion on a well-formed table never reads outside the array, never dereferences a null node, and yields
every stored key exactly once with its value — the buckets in index order, each chain in link order -/
theorem hashmap_enumerator {h : K → Nat} {m : HashMap.HM K V} (inv : Inv h m) :
    ∃ es, HashMap.walk m = some es ∧ es = HashMap.enum m ∧ es.length = m.n ∧ (es.map (·.1)).Nodup ∧
      ∀ k v, (k, v) ∈ es ↔ abs m k = some v := by
  obtain ⟨c, n, a⟩ := hashmap_enumeration inv
  exact ⟨_, AslProofs.HashMapEnum.walk_eq_enum inv.wf.nb_pos, rfl, c.symm, n, a⟩

/-- **enumeration after any history** (insertions, overwrites, removals, clears, growth, clones, handle copies): the
enumerator visits exactly the entries of the abstract map that results from the same history, each key once -/
theorem hashmap_enumerator_every_history (h : K → Nat) (dflt : V) (ops : List (HOp K V))
    {m : HashMap.HM K V} (inv : Inv h m) :
    ∃ es, HashMap.walk (ops.foldl (fun m o => o.run h dflt m) m) = some es ∧ (es.map (·.1)).Nodup ∧
      ∀ k v, (k, v) ∈ es ↔ ops.foldl (fun f o => o.spec dflt f) (abs m) k = some v := by
  obtain ⟨i, a⟩ := hashmap_refines_finmap h dflt ops inv
  obtain ⟨es, w, _, _, nd, me⟩ := hashmap_enumerator i
  exact ⟨es, w, nd, fun k v => by rw [me k v, a k]⟩

/-- a table without buckets — what `nextPoT(0)` would give `HashMap(int)` without its clamp — makes the enumerator's
constructor read outside the array: the size theorem above is what keeps enumeration in bounds -/
theorem enumerator_needs_a_bucket {m : HashMap.HM K V} (h0 : m.buckets.length = 0) : HashMap.walk m = none :=
  AslProofs.HashMapEnum.walk_no_buckets h0

/-- **`Set` enumeration** (`Set::Enumerator` = the map's enumerator read through `~e`; `foreach`, `array()`) after any
history of set operations: in bounds, every member exactly once -/
theorem set_enumerator_every_history (h : K → Nat) (ops : List (SOp K)) (hops : ∀ o ∈ ops, ∀ x ∈ o.operands, Inv h x)
    {s : HSet K} (inv : Inv h s) :
    ∃ es, HashMap.walk (ops.foldl (fun s o => o.run h s) s) = some es ∧
      es.map (·.1) = HashMap.sArray (ops.foldl (fun s o => o.run h s) s) ∧ (es.map (·.1)).Nodup ∧
      ∀ y, y ∈ es.map (·.1) ↔ ops.foldl (fun P o => o.spec h P) (Mem h s) y := by
  obtain ⟨i, a⟩ := set_refines h ops hops inv
  obtain ⟨nd, _, me⟩ := set_array_spec i
  refine ⟨_, AslProofs.HashMapEnum.walk_eq_enum i.wf.nb_pos, rfl, nd, fun y => ?_⟩
  rw [← a y]; exact me y

/-- **`Set` table sizes**: after every history of set operations (merges, unions, intersections, differences,
`Set(Array)`, clones, handle copies) the bucket count is again `2^e`, `0 ≤ e ≤ 30` — whatever the operand sets are -/
theorem set_size_pow2_every_history (h : K → Nat) (ops : List (SOp K)) :
    ∀ {s : HSet K}, SizeOK s → SizeOK (ops.foldl (fun s o => o.run h s) s) := by
  induction ops with
  | nil => intro s z; exact z
  | cons o t ih =>
    intro s z
    apply ih
    cases o with
    | ins x => exact AslProofs.HashMapEnum.assign_size h 0 z x 1
    | rem x => exact AslProofs.HashMapEnum.remove_size h z x
    | clear => exact AslProofs.HashMapEnum.clear_size z
    | clone => exact AslProofs.HashMapEnum.dup_size h 0 z
    | addAll o => exact AslProofs.HashMapEnum.sAddAll_size h z o
    | addSelf => exact AslProofs.HashMapEnum.sAddAll_size h z s
    | union o => exact AslProofs.HashMapEnum.sUnion_size h s o
    | inter o => exact AslProofs.HashMapEnum.sIn_size h s o
    | diff o => exact AslProofs.HashMapEnum.sNotIn_size h s o
    | fromArray xs => exact AslProofs.HashMapEnum.sFromList_size h xs
    | handles r => exact z

/-- **`Map`/`Dic` enumeration** (`Map::Enumerator`, `foreach2`, range-for, `keys()`) after any history: every read is
inside the array, the entries come in strictly ascending key order, each key once, and they are exactly the abstract map -/
theorem map_enumerator_every_history {cmp : K → K → Ordering} (so : StrictOrder cmp) (dflt : V) (ops : List (MOp K V))
    (hadd : ∀ d, .add d ∈ ops → Sorted cmp d) {l : List (K × V)} (hs : Sorted cmp l) :
    ∃ l', runAll cmp dflt ops l = some l' ∧ Map.walk l' = some l' ∧
      (Map.keys l').Pairwise (fun a b => cmp a b = .lt) ∧ (Map.keys l').Nodup ∧
      ∀ k v, (k, v) ∈ l' ↔ specAll dflt ops (fun k => lookup k l) k = some v := by
  obtain ⟨l', r, hs', a⟩ := map_refines_finmap so dflt ops hadd hs
  obtain ⟨pw, nd, _, _, me⟩ := map_enumeration so hs'
  exact ⟨l', r, AslProofs.HashMapEnum.map_walk l', pw, nd, fun k v => by rw [me k v, a k]⟩

end Capacity

/-! ## the two defects repaired in /repo (d4d2172, 12cf1de): the specification rejects the old code -/
section Old

/-- `HashMap::remove` before d4d2172: a removed chain head set the bucket to null -/
def chainRemoveOld (key : Int) : List (Int × Int) → List (Int × Int)
  | [] => []
  | (k, v) :: t => if k = key then [] else (k, v) :: (HashMap.chainRemove key t).1

def removeOld (h : Int → Nat) (m : HashMap.HM Int Int) (key : Int) : HashMap.HM Int Int :=
  let bin := HashMap.binOf h m.buckets.length key
  let c := m.buckets.getD bin []
  ⟨m.buckets.set bin (chainRemoveOld key c), if HashMap.chainHas key c then m.n - 1 else m.n, m.rc⟩

/-- `operator==` before 12cf1de: lock-step walk of both enumerations -/
def eqOld (a b : HashMap.HM Int Int) : Bool :=
  if a.n ≠ b.n then false
  else ((HashMap.enum a).zip (HashMap.enum b)).all (fun p => decide (p.1.1 = p.2.1) && decide (p.1.2 = p.2.2))

def tbl (ks : List Int) : HashMap.HM Int Int :=
  ks.foldl (fun m k => HashMap.assign HashMap.hashInt 0 m k (k + 100)) (HashMap.empty 4)

def removeOld_full : Prop :=
  ∀ (m : HashMap.HM Int Int) (key k : Int), Inv HashMap.hashInt m →
    abs (removeOld HashMap.hashInt m key) k = FinMap.erase (abs m) key k

/-- removing the chain head `1` of `{1,5,9}` (one bucket of a 4-slot table) loses `5` -/
theorem hashmap_remove_head_counterexample : ¬ removeOld_full := by
  intro hf
  have inv : Inv HashMap.hashInt (tbl [1, 5, 9]) :=
    (hashmap_refines_finmap HashMap.hashInt 0 [.assign 1 101, .assign 5 105, .assign 9 109]
      (hashmap_empty HashMap.hashInt (by decide)).1).1
  have := hf (tbl [1, 5, 9]) 1 5 inv
  revert this
  decide

def eqOld_full : Prop :=
  ∀ (a b : HashMap.HM Int Int), Inv HashMap.hashInt a → Inv HashMap.hashInt b →
    (eqOld a b = true ↔ ∀ k, abs a k = abs b k)

/-- `{1,5}` built in the two orders compared unequal -/
theorem hashmap_eq_order_counterexample : ¬ eqOld_full := by
  intro hf
  have i1 : Inv HashMap.hashInt (tbl [1, 5]) :=
    (hashmap_refines_finmap HashMap.hashInt 0 [.assign 1 101, .assign 5 105]
      (hashmap_empty HashMap.hashInt (by decide)).1).1
  have i2 : Inv HashMap.hashInt (tbl [5, 1]) :=
    (hashmap_refines_finmap HashMap.hashInt 0 [.assign 5 105, .assign 1 101]
      (hashmap_empty HashMap.hashInt (by decide)).1).1
  have h1 : eqOld (tbl [1, 5]) (tbl [5, 1]) = false := by decide
  have h2 : HashMap.eq HashMap.hashInt (tbl [1, 5]) (tbl [5, 1]) = true := by decide
  have := (hf _ _ i1 i2).mpr ((hashmap_eq_iff i1 i2).mp h2)
  rw [h1] at this
  cases this

end Old

/-! ## non-vacuity: the hypotheses are met by concrete non-trivial values -/

example : Sorted Map.cmpInt [((1 : Int), (10 : Int)), (5, 50), (9, 90)] := by
  unfold Sorted; decide

example : Map.indexOf Map.cmpInt [((1 : Int), (10 : Int)), (5, 50), (9, 90)] 5 = some 1 := by decide
example : Map.indexOf Map.cmpInt [((1 : Int), (10 : Int)), (5, 50), (9, 90)] 6 = some (-3) := by decide
example : Map.indexOf Map.cmpInt [((1 : Int), (10 : Int)), (5, 50), (9, 90)] 0 = some (-1) := by decide
example : Map.indexOf Map.cmpInt [((1 : Int), (10 : Int)), (5, 50), (9, 90)] 10 = some (-4) := by decide

example : Sorted Map.cmpBytes [(([65, 98] : List UInt8), (1 : Int)), ([66, 65], 2)] := by
  unfold Sorted; decide

/-- a table with three keys in one chain, after a removal of the chain head -/
example : (HashMap.enum (HashMap.remove HashMap.hashInt (tbl [1, 5, 9]) 1)) = [(5, 105), (9, 109)] := by decide

/-- growth fires: the sixth insertion into a 4-bucket table (6 slots; with the constants of the code as it is,
threshold 6*7/8 = 5) rebuilds it with 4*growFactor buckets and keeps every entry.  Stated relative to the
regenerated constants so that a harmless change of the growth rule does not break it. -/
example : (Gen.HashMap.growNum, Gen.HashMap.growDen, Gen.HashMap.growFactor) = (7, 8, 8) →
    (tbl [1, 5, 9, 13, 17]).buckets.length = 4 ∧ (tbl [1, 5, 9, 13, 17, 21]).buckets.length = 32 ∧
    HashMap.enum (tbl [1, 5, 9, 13, 17, 21]) = [(1, 101), (5, 105), (9, 109), (13, 113), (17, 117), (21, 121)] := by
  decide

/-- the same sixth insertion while a second handle exists: no growth, nothing lost; growth happens at the first
insertion after the copy is gone -/
example : (Gen.HashMap.growNum, Gen.HashMap.growDen, Gen.HashMap.growFactor) = (7, 8, 8) →
    let shared := HashMap.assign HashMap.hashInt 0 { tbl [1, 5, 9, 13, 17] with rc := 2 } 21 121
    shared.buckets.length = 4 ∧ shared.n = 6 ∧
    (HashMap.assign HashMap.hashInt 0 { shared with rc := 1 } 25 125).buckets.length = 32 := by
  decide

/-- "Ab" and "BA" have the same asl hash (the collision named in the property) as long as the multiplier is 33 -/
example : Gen.HashMap.hashMul = 33 → HashMap.hashBytes [65, 98] = HashMap.hashBytes [66, 65] := by decide

/-- capacity/enumeration theorems: a concrete well-formed table, a history with a removal, the walk -/
example : AslProofs.HashMapEnum.SizeOK (tbl [1, 5, 9]) ∧ HashMap.walk (HashMap.remove HashMap.hashInt (tbl [1, 5, 9]) 1) = some [(5, 105), (9, 109)] := by
  refine ⟨⟨2, by omega, by decide⟩, by decide⟩
example : HashMap.nextPoTInt 0 = 0 ∧ HashMap.nextPoTInt (-3) = 0 ∧ HashMap.nextPoTInt 1 = 1 ∧ HashMap.nextPoTInt 257 = 512 := by decide
example : AslProofs.HashMapEnum.LoadOK (tbl [1, 5, 9]) ∧ (tbl [1, 5, 9]).rc ≤ 1 := by
  refine ⟨Or.inl (by decide), by decide⟩
/-- `tbl` has `Int` values, so it is also a `Set<int>` table: the hypothesis of `set_size_pow2_every_history` -/
example : AslProofs.HashMapEnum.SizeOK (tbl [1, 5, 9] : HashMap.HSet Int) := ⟨2, by omega, by decide⟩
example : HashMap.walk (⟨[], 0, 1⟩ : HashMap.HM Int Int) = none := by decide
example : Map.walk [((1 : Int), (10 : Int)), (5, 50), (9, 90)] = some [(1, 10), (5, 50), (9, 90)] := by decide

/-! ## `s << s`: the enumeration as coded while its body inserts into the table being enumerated

`Set::operator<<(const Set&)` with the set itself as argument keeps ONE `Enumerator` (a reference to the member array,
an index, the end fixed at construction, a node pointer) alive while `(*this)[x] = 1` may `rehash()` that very table.
`HashMap.selfMerge` transcribes this interleaving (node pointer = key, `p->next` and `*e` re-read from the current
table with checked reads); the driver's `addself` on sets runs it. -/

/-- the full claim: for EVERY well-formed set table, also over-full ones (filled while a second handle suppressed growth)
that grow several times inside one enumeration — there the interleaved run and enumerate-then-insert may end with
different table sizes; compared by K only -/
def self_merge_interleaved_full : Prop :=
  ∀ (K : Type) [DecidableEq K] (h : K → Nat) (s : HashMap.HSet K), Inv h s → (∀ kv ∈ HashMap.enum s, kv.2 = 1) →
    ∃ s', HashMap.selfMerge h s = some s' ∧ Inv h s' ∧ ∀ x, HashMap.has h s' x = HashMap.has h s x

/-- **`s << s` as coded, for every set table within the intended load** (`LoadOK`: what `hashmap_load_bound_unshared`
gives after every history without shared handles), any hash function, any collision pattern, any size — growth INSIDE
the enumeration included: when the first `(*this)[x]` rebuilds the table, the enumerator goes on in the new array with
its old end and the re-linked node.  The interleaved enumeration reads only inside the array, never follows a null or
dangling node, terminates, and leaves exactly `rehash()` of the table: same members, same count, well-formed -/
theorem self_merge_interleaved_partial {K : Type} [DecidableEq K] {h : K → Nat} {s : HashMap.HSet K} (inv : Inv h s)
    (ones : ∀ kv ∈ HashMap.enum s, kv.2 = 1) (l : AslProofs.HashMapEnum.LoadOK s) :
    HashMap.selfMerge h s = some (HashMap.rehash h s) ∧ Inv h (HashMap.rehash h s) ∧
      (HashMap.rehash h s).n = s.n ∧ ∀ x, HashMap.has h (HashMap.rehash h s) x = HashMap.has h s x := by
  obtain ⟨inv1, habs⟩ := AslProofs.HashMap.rehash_spec inv
  refine ⟨AslProofs.HashMapSelf.selfMerge_loaded inv ones l, inv1, ?_, ?_⟩
  · rcases AslProofs.HashMapEnum.rehash_cases h s with ⟨e, _⟩ | ⟨_, e, _⟩
    · rw [e]
    · exact e
  · intro x
    rw [AslProofs.HashMap.has_eq_abs inv1.wf, AslProofs.HashMap.has_eq_abs inv.wf, habs]

/-- **`s << s` as coded on a table that is not due to grow**, whatever its load (also over-full tables whose growth is
suppressed because a second handle shares them): table unchanged, which is also what enumerate-then-insert gives -/
theorem self_merge_interleaved_no_growth {K : Type} [DecidableEq K] {h : K → Nat} {s : HashMap.HSet K} (inv : Inv h s)
    (ones : ∀ kv ∈ HashMap.enum s, kv.2 = 1) (hr : HashMap.rehash h s = s) :
    HashMap.selfMerge h s = some s ∧ HashMap.sAddAll h s s = s :=
  ⟨AslProofs.HashMapSelf.selfMerge_no_growth inv hr ones, AslProofs.HashMapSelf.sAddAll_self_no_growth inv hr ones⟩

/-- the hypotheses of `self_merge_interleaved_partial` are met by a 2-bucket `Set<int>` holding {2, 4, 7}: 3 members =
the threshold 4*7/8, so the first `(*this)[x]` of `s << s` grows it to 16 buckets -/
example : let s := [2, 4, 7].foldl (HashMap.sIns HashMap.hashInt) (HashMap.empty 2)
    Inv HashMap.hashInt s ∧ (∀ kv ∈ HashMap.enum s, kv.2 = 1) ∧ AslProofs.HashMapEnum.LoadOK s ∧
    (HashMap.rehash HashMap.hashInt s).buckets.length = 16 := by
  refine ⟨?_, by decide, Or.inl (by decide), by decide⟩
  exact (AslProofs.HashMap.sIns_spec (AslProofs.HashMap.sIns_spec (AslProofs.HashMap.sIns_spec
    (AslProofs.HashMap.empty_inv HashMap.hashInt (by decide)).1 2).1 4).1 7).1

/-- a `Set<int>` table of 4 buckets with colliding members {1, 5, 9} (below the threshold 6*7/8 = 5) -/
def stbl : HashMap.HSet Int := [1, 5, 9].foldl (HashMap.sIns HashMap.hashInt) (HashMap.empty 4)

/-- the hypotheses of `self_merge_interleaved_no_growth` are met by a table with a 3-node chain -/
example : (HashMap.rehash HashMap.hashInt stbl).buckets = stbl.buckets ∧ HashMap.enum stbl = [(1, 1), (5, 1), (9, 1)] ∧
    (HashMap.selfMerge HashMap.hashInt stbl).map (fun t => (t.buckets, t.n)) = some (stbl.buckets, 3) := by decide

/-- growth INSIDE the enumeration, evaluated: 2 buckets, 3 members = the threshold
4*7/8; the first `(*this)[x]` rebuilds the table with 16 buckets, the enumerator goes on in the new array up to its old
end; the result is the rehashed table, as for enumerate-then-insert -/
example : (Gen.HashMap.growNum, Gen.HashMap.growDen, Gen.HashMap.growFactor) = (7, 8, 8) →
    let s : HashMap.HSet Int := ⟨[[(2, 1), (4, 1)], [(7, 1)]], 3, 1⟩
    (HashMap.selfMerge HashMap.hashInt s).map (fun t => (t.buckets.length, HashMap.enum t)) =
      some (16, [(2, 1), (4, 1), (7, 1)]) ∧
    (HashMap.selfMerge HashMap.hashInt s).map (·.buckets) = some (HashMap.sAddAll HashMap.hashInt s s).buckets := by decide

end C02
